(* ParseRR, part 1: ONE record.  RockRidge.parse run on the System Use bytes MasterRR wrote for a record (+ the pad byte
   DirectoryRecord.record appends), then on the bytes of its continuation area, gives back exactly the entries
   RockRidge.new placed on either side, with the two in-place updates (link count, CE pointer) and the SL components in
   parsed form -- and the version 1.12 / 1.09.
     prr_fix_list        entries_list of the fixed structure = the fixed entries
     prr_norm_sl_facts   normalising the components changes neither record() nor current_length
     prr_parse_area      RRWalk.parse_record_entries instantiated for a placed side
     prr_rec_parse       the record's own area, then its continuation area (composition, with the version) *)
From Coq Require Import ZArith List Bool Lia ZifyBool.
From PV.Base Require Import Prim.
From PV.Model Require Import Codec RREntries RRWalk RRPlace.
From PV.Model Require LongNames Master Account.
From PV.Model Require Import AccountRR MasterRR ParseRR ParseRRSpec.
From PV.Proofs Require Import CodecProofs RREntriesProofs RRSLProofs RRWalkProofs RRPlaceSLProofs RRPlaceProofs RRPlaceProofs2.
From PV.Proofs Require Import MasterRRWalk MasterRRRec.
Import ListNotations.
Local Open Scope Z_scope.

Definition prr_norm_e (e : su_entry) : su_entry := match e with E_SL s => E_SL (prr_norm_sl s) | _ => e end.
Definition prr_fix_e (x : rspec) (e : su_entry) : su_entry := prr_norm_e (mrr_patch x e).

Lemma prr_map_opt {A} (g : su_entry -> su_entry) (f : A -> su_entry) o :
  map g (opt_list f o) = opt_list (fun a => g (f a)) o.
Proof. destruct o; reflexivity. Qed.
Lemma prr_map_flag (g : su_entry -> su_entry) e b : g e = e -> map g (flag_list e b) = flag_list e b.
Proof. intros H. destruct b; cbn; [rewrite H|]; reflexivity. Qed.

Lemma prr_fix_list x E : entries_list (prr_fix_E x E) = map (prr_fix_e x) (entries_list E).
Proof.
  destruct E as [sp rr ce px er es pn sl nm cl pl tf sf re st pd al]. unfold entries_list, prr_fix_E.
  cbn [sp_record rr_record ce_record px_record er_record es_records pn_record sl_records nm_records cl_record
       pl_record tf_record sf_record re_record st_record pd_records al_records].
  rewrite !map_app, !prr_map_opt, !map_map, !prr_map_flag by reflexivity.
  destruct ce, px; reflexivity.
Qed.

(* ---- SL components ----------------------------------------------------------------------------------------- *)
Lemma prr_norm_comp_eq c : prr_norm_comp c = norm_comp c.
Proof. reflexivity. Qed.

Lemma prr_norm_sl_facts s : sl_made s -> sl_current_length s <= 255 ->
  sl_ok (prr_norm_sl s) = true /\ rec_sl (prr_norm_sl s) = rec_sl s.
Proof.
  destruct s as [fl cs]. intros [Hm Hf] Hl. cbn [sl_comps sl_flags] in Hm, Hf.
  assert (U : u8_ok fl = true) by (destruct Hf as [-> | ->]; reflexivity).
  destruct (sl_made_roundtrip fl cs [] U Hm Hl) as (R & _ & _ & _ & _).
  unfold prr_norm_sl. cbn [sl_flags sl_comps].
  assert (E : map prr_norm_comp cs = map norm_comp cs) by (apply map_ext; intros c; apply prr_norm_comp_eq).
  rewrite E. rewrite current_length_fold in Hl.
  assert (Hb : Forall (fun c => made c /\ comp_recorded_length c <= 255) cs).
  { assert (Hnn : Forall (fun c => 0 <= comp_recorded_length c) cs).
    { apply Forall_forall. intros c Hc. pose proof (made_recorded_ge c (proj1 (Forall_forall _ _) Hm c Hc)). lia. }
    apply Forall_forall. intros c Hc. split; [exact (proj1 (Forall_forall _ _) Hm c Hc)|].
    pose proof (sum_member cs c Hnn Hc). lia. }
  assert (A : map sl_comp_enc (map norm_comp cs) = map sl_comp_enc cs /\
              forallb sl_comp_ok (map norm_comp cs) = true /\
              fold_right (fun c acc => comp_recorded_length c + acc) 0 (map norm_comp cs)
              = fold_right (fun c acc => comp_recorded_length c + acc) 0 cs).
  { clear Hl Hm R E. induction Hb as [|c cs [Hc Hc2] Hcs IH]; [repeat split; reflexivity|].
    destruct IH as (I3 & I4 & I6). destruct (norm_made c Hc Hc2) as (N1 & N2 & _ & _ & N5 & _ & _).
    cbn [map forallb fold_right]. rewrite I3, I4, I6, N1, N2, N5. repeat split; reflexivity. }
  destruct A as (A3 & A4 & A6).
  assert (Ecur : sl_current_length (mk_sl fl (map norm_comp cs)) = sl_current_length (mk_sl fl cs))
    by (rewrite !current_length_fold, A6; reflexivity).
  assert (Eenc : enc_sl (mk_sl fl (map norm_comp cs)) = enc_sl (mk_sl fl cs)).
  { unfold enc_sl. rewrite Ecur. cbn [sl_comps sl_flags]. rewrite A3. reflexivity. }
  assert (Hok : sl_ok (mk_sl fl (map norm_comp cs)) = true).
  { unfold sl_ok. cbn [sl_flags sl_comps]. rewrite U, A4, Ecur, current_length_fold. cbn [andb]. lia. }
  split; [exact Hok|]. destruct (sl_roundtrip _ [] Hok) as (R2 & _ & _). rewrite R2, R, Eenc. reflexivity.
Qed.

(* ---- the fixed entries are in the range of RRWalk's round-trip theorems ------------------------------------- *)
Lemma prr_norm_ok v e : mrr_readable v e ->
  entry_ok v (prr_norm_e e) = true /\ is_pd (prr_norm_e e) = false /\
  rec_entry v (prr_norm_e e) = rec_entry v e /\ is_sp (prr_norm_e e) = is_sp e.
Proof.
  destruct e; cbn [mrr_readable prr_norm_e]; intros H; try contradiction;
    try (repeat split; try reflexivity; exact H).
  - destruct H as (A & B & D). repeat split; try reflexivity. cbn [entry_ok]. rewrite A, B, D. reflexivity.
  - repeat split; try reflexivity. exact (proj1 H).
  - destruct (prr_norm_sl_facts s (proj1 H) (proj2 H)) as [A B]. repeat split; assumption.
  - repeat split; try reflexivity. apply ok_nm. exact H.
Qed.

Lemma prr_norm_list v first es : Forall (mrr_readable v) es ->
  (forall e, In e es -> is_sp e = true -> first = true) ->
  Forall (good v first) (map prr_norm_e es) /\ record_list v (map prr_norm_e es) = record_list v es.
Proof.
  induction 1 as [|e es He _ IH]; intros Hsp; [split; [constructor|reflexivity]|].
  destruct (prr_norm_ok v e He) as (A & B & D & F).
  destruct IH as [I1 I2]; [intros e' Hin; apply Hsp; right; exact Hin|].
  split.
  - cbn [map]. constructor; [|exact I1]. split; [exact A|]. split; [exact B|].
    rewrite F. apply Hsp. left. reflexivity.
  - unfold record_list in *. cbn [map concat_opt]. rewrite D, I2. reflexivity.
Qed.

(* ---- the version hints of an area ------------------------------------------------------------------------------ *)
Definition prr_vi_plain (e : su_entry) : Prop := match e with E_ES _ | E_SF _ => False | _ => True end.
Definition prr_is_px (e : su_entry) : bool := match e with E_PX _ => true | _ => false end.
Definition prr_er_step (a : option (list Z)) (e : su_entry) : option (list Z) :=
  match e with E_ER x => Some (er_id x) | _ => a end.

Lemma prr_vi_fold v after es : Forall prr_vi_plain es -> forall vi,
  let vi' := fold_left vi_step (annot v es after) vi in
  vi_px_len vi' = (if existsb prr_is_px es then Some (px_aux v) else vi_px_len vi) /\
  vi_has_es vi' = vi_has_es vi /\ vi_sf_len vi' = vi_sf_len vi /\
  vi_er_id vi' = fold_left prr_er_step es (vi_er_id vi).
Proof.
  induction 1 as [|e es He _ IH]; intros vi; [repeat split|].
  cbn [annot fold_left existsb]. cbv zeta in IH.
  destruct (IH (vi_step vi (e, entry_aux v e, entry_len v e + rest_len v es + after))) as (I1 & I2 & I3 & I4).
  rewrite I1, I2, I3, I4. clear IH I1 I2 I3 I4.
  destruct e; cbn [prr_vi_plain] in He; try contradiction;
    cbn [vi_step vi_update prr_is_px orb vi_px_len vi_has_es vi_sf_len vi_er_id prr_er_step entry_aux];
    try (repeat split; reflexivity).
  destruct (existsb prr_is_px es); repeat split; reflexivity.
Qed.

Lemma prr_infer_hi cont prev vi hr hc : vi_px_len vi = Some 44 -> infer_version2 cont prev vi hr hc = V112.
Proof. intros H. unfold infer_version2. rewrite H. reflexivity. Qed.

Lemma prr_infer_lo cont prev vi hr hc : vi_px_len vi <> Some 44 -> vi_sf_len vi = None -> vi_has_es vi = false ->
  vi_er_id vi <> Some EXT_ID_112 ->
  infer_version2 cont prev vi hr hc =
  if cont && match prev with V_unset => false | _ => true end
  then match prev with V110 => if hc then V109 else prev | _ => prev end
  else if hr then V109 else V110.
Proof.
  intros Hp Hs He Hr. unfold infer_version2. rewrite Hs, He.
  assert (E1 : opt_is (vi_px_len vi) 44 = false).
  { destruct (vi_px_len vi) as [l|]; [|reflexivity]. cbn [opt_is]. destruct (l =? 44) eqn:E; [|reflexivity].
    exfalso. apply Hp. f_equal. lia. }
  assert (E2 : match vi_er_id vi with Some i => zlist_eqb i EXT_ID_112 | None => false end = false).
  { destruct (vi_er_id vi) as [i|]; [|reflexivity]. destruct (zlist_eqb i EXT_ID_112) eqn:E; [|reflexivity].
    exfalso. apply Hr. f_equal. apply zlist_eqb_eq. exact E. }
  rewrite E1, E2. cbn [opt_is orb]. destruct (cont && _); [reflexivity|]. destruct hr; reflexivity.
Qed.

(* ER identifiers of an area whose only possible ER entry is that of the version *)
Lemma prr_er_fold v es : (forall x, In (E_ER x) es -> x = er_of v) -> forall a,
  fold_left prr_er_step es a = a \/ fold_left prr_er_step es a = Some (er_id (er_of v)).
Proof.
  induction es as [|e es IH]; intros Her a; [left; reflexivity|]. cbn [fold_left].
  assert (Her' : forall x, In (E_ER x) es -> x = er_of v) by (intros x Hx; apply Her; right; exact Hx).
  destruct e; cbn [prr_er_step]; try exact (IH Her' a).
  rewrite (Her e (or_introl eq_refl)). destruct (IH Her' (Some (er_id (er_of v)))) as [E|E]; right; exact E.
Qed.

Lemma prr_norm_plain v e : mrr_readable v e -> prr_vi_plain (prr_norm_e e).
Proof. destruct e; cbn; intros H; try contradiction; exact I. Qed.

Lemma prr_existsb_map {A} (p : A -> bool) (g : A -> A) l : (forall a, p (g a) = p a) -> existsb p (map g l) = existsb p l.
Proof. intros H. induction l as [|a l IH]; [reflexivity|]. cbn [map existsb]. rewrite H, IH. reflexivity. Qed.
Lemma prr_existsb_none {A} (p : A -> bool) l : (forall a, In a l -> p a = false) -> existsb p l = false.
Proof.
  induction l as [|a l IH]; intros H; [reflexivity|]. cbn [existsb]. rewrite (H a (or_introl eq_refl)), IH; [reflexivity|].
  intros b Hb. apply H. right. exact Hb.
Qed.
Lemma prr_px_list E : existsb prr_is_px (entries_list E) = is_some (px_record E).
Proof.
  destruct (px_record E) as [p|] eqn:Ep.
  - apply existsb_exists. exists (E_PX p). split; [apply mrr_px_in; exact Ep|reflexivity].
  - apply prr_existsb_none. intros e He. destruct e; try reflexivity. apply mrr_in_px in He. congruence.
Qed.
Lemma prr_is_px_fix x e : prr_is_px (prr_fix_e x e) = prr_is_px e.
Proof. destruct e; reflexivity. Qed.

(* ---- one side of a placed record ---------------------------------------------------------------------------------- *)
Section Rec.
  Variables (v : rrv) (dt : list Z) (x : rspec) (r : placed).
  Hypothesis Hv : v <> V_unset.
  Hypothesis Hpl : place (mrr_pin v dt x) = Some r.
  Hypothesis Hmode : u32_ok (rs_mode x) = true.
  Hypothesis Hlinks : u32_ok (rs_links x) = true.
  Hypothesis Hbl : u32_ok (rs_bl x) = true.
  Hypothesis Hoff : u32_ok (rs_off x) = true.
  Hypothesis Hcel : u32_ok (pl_celen r) = true.
  Hypothesis Hspce : sp_record (pl_ce r) = None.

  Local Notation i := (mrr_pin v dt x).

  Lemma prr_parse_area E other first tail bs :
    Forall (mrr_readable v) (map (mrr_patch x) (entries_list E)) ->
    (forall k, sp_record E = Some k -> first = true) ->
    pn_record E = None -> compat other (prr_fix_E x E) -> pad_ok tail ->
    record_list v (map (mrr_patch x) (entries_list E)) = Some bs ->
    parse_su first 0 other empty_entries (bs ++ tail) =
    Some (prr_fix_E x E, fold_left vi_step (annot v (entries_list (prr_fix_E x E)) (zlen tail)) vi0).
  Proof.
    intros Hr Hsp Hpn Hc Ht Hrec.
    assert (El : entries_list (prr_fix_E x E) = map prr_norm_e (map (mrr_patch x) (entries_list E)))
      by (rewrite prr_fix_list, map_map; reflexivity).
    destruct (prr_norm_list v first _ Hr) as [G1 G2].
    { intros e He Hs. apply in_map_iff in He. destruct He as (e0 & <- & H0).
      destruct e0; try discriminate Hs. apply mrr_in_sp in H0. exact (Hsp _ H0). }
    apply parse_record_entries; [rewrite El; exact G1|exact Hpn|exact Hc|exact Ht|].
    unfold record_entries. rewrite El, G2. exact Hrec.
  Qed.

  (* the hints of a side: PX length, ER identifier; no ES, no SF *)
  Lemma prr_area_vi E after :
    Forall (mrr_readable v) (map (mrr_patch x) (entries_list E)) ->
    (forall e, er_record E = Some e -> e = er_of v) ->
    let vi := fold_left vi_step (annot v (entries_list (prr_fix_E x E)) after) vi0 in
    vi_px_len vi = (if is_some (px_record E) then Some (px_aux v) else None) /\
    vi_has_es vi = false /\ vi_sf_len vi = None /\
    (vi_er_id vi = None \/ vi_er_id vi = Some (er_id (er_of v))).
  Proof.
    intros Hr Her. cbv zeta.
    assert (Hp : Forall prr_vi_plain (entries_list (prr_fix_E x E))).
    { rewrite prr_fix_list. apply Forall_forall. intros e He. apply in_map_iff in He. destruct He as (e0 & <- & H0).
      apply (prr_norm_plain v). exact (proj1 (Forall_forall _ _) Hr _ (in_map _ _ _ H0)). }
    destruct (prr_vi_fold v after _ Hp vi0) as (A1 & A2 & A3 & A4). cbv zeta in A1, A2, A3, A4.
    rewrite A1, A2, A3, A4. rewrite prr_fix_list, (prr_existsb_map _ _ _ (prr_is_px_fix x)), prr_px_list.
    split; [destruct (is_some (px_record E)); reflexivity|]. split; [reflexivity|]. split; [reflexivity|].
    apply prr_er_fold. intros e He. apply in_map_iff in He. destruct He as (e0 & E0 & H0).
    destruct e0; try discriminate E0. cbn in E0. injection E0 as <-. apply Her. apply mrr_in_er. exact H0.
  Qed.
End Rec.
