(* Master, part 1: one directory extent.
     ms_pack_nf        the byte stream of _write_directory_records ends where Pack.nf
                       (_recalculate_extents_and_offsets) says the last record ends
     ms_dir_bytes_len  under Pack's invariant (Invb) a directory extent has exactly data_length bytes
     ms_scan_dir       the independent scanner (zero length byte = next block) recovers exactly the
                       records that were packed, whatever the padding *)
From Coq Require Import ZArith List Bool Lia ZifyBool.
From PV.Base Require Import Prim ListX.
From PV.Gen Require Import GenConst GenFun.
From PV.Model Require Import Codec Pack PathTable Master.
From PV.Proofs Require Import CodecProofs PackProofs.
Import ListNotations.
Local Open Scope Z_scope.
Ltac Zify.zify_post_hook ::= Z.to_euclidean_division_equations.

Lemma ms_BS : BS = 2048. Proof. reflexivity. Qed.

Lemma ms_zlen_repeat (x : Z) n : zlen (repeat x n) = Z.of_nat n.
Proof. unfold zlen. rewrite repeat_length. reflexivity. Qed.

Lemma ms_skipn_repeat (x : Z) k n : skipn k (repeat x n) = repeat x (n - k).
Proof.
  revert n; induction k as [|k IH]; intros n; [rewrite Nat.sub_0_r; reflexivity|].
  destruct n as [|n]; [reflexivity|]. cbn [repeat skipn]. rewrite IH. reflexivity.
Qed.

Lemma ms_skipn_repeat_app (x : Z) k l : skipn k (repeat x k ++ l) = l.
Proof. induction k as [|k IH]; [reflexivity|exact IH]. Qed.

Lemma ms_mod_eq a b : a = b -> a mod BS = 0 -> b mod BS = 0.
Proof. intros ->. exact (fun H => H). Qed.

(* ---- length of the stream ------------------------------------------------------------------- *)

Lemma ms_pack_nf bs : Forall (fun b => zlen b <= BS) bs -> forall n o, 0 <= o <= BS ->
  (n - 1) * BS + o + zlen (ms_pack o bs) =
  (fst (nf BS n o (map zlen bs)) - 1) * BS + snd (nf BS n o (map zlen bs)).
Proof.
  induction 1 as [|b bs Hb Hbs IH]; intros n o Ho; cbn [ms_pack map nf fst snd].
  - rewrite zlen_nil. lia.
  - pose proof (zlen_nonneg b) as Hb0.
    gtb_case (o + zlen b) BS Ht.
    + rewrite !zlen_app, ms_zlen_repeat. specialize (IH (n + 1) (0 + zlen b) ltac:(lia)). lia.
    + rewrite zlen_app. specialize (IH n (o + zlen b) ltac:(lia)). lia.
Qed.

Lemma ms_pack_len bs : Forall (fun b => zlen b <= BS) bs ->
  0 <= zlen (ms_pack 0 bs) <= num_extents BS (map zlen bs) * BS.
Proof.
  intros H. pose proof (ms_pack_nf bs H 1 0 ltac:(rewrite ms_BS; lia)) as E.
  assert (HF : Forall (fun x => 0 <= x <= BS) (map zlen bs)).
  { apply Forall_forall. intros x Hx. apply in_map_iff in Hx. destruct Hx as (b & <- & Hb).
    rewrite Forall_forall in H. pose proof (H b Hb). pose proof (zlen_nonneg b). lia. }
  pose proof (nf_bounds BS _ HF 1 0 ltac:(rewrite ms_BS; lia)) as B.
  unfold num_extents. pose proof (zlen_nonneg (ms_pack 0 bs)). lia.
Qed.

Lemma ms_dir_bytes_len dl bs : Forall (fun b => zlen b <= BS) bs ->
  num_extents BS (map zlen bs) * BS <= dl -> zlen (ms_dir_bytes dl bs) = dl.
Proof.
  intros H Hd. pose proof (ms_pack_len bs H). unfold ms_dir_bytes. cbv zeta.
  rewrite zlen_app, ms_zlen_repeat. lia.
Qed.

(* ---- scanning ------------------------------------------------------------------------------- *)

(* what the scanner needs to know about an encoded record *)
Definition ms_good (r : drec) (b : list Z) : Prop :=
  (forall rest, dec_dr (b ++ rest) = Some (r, rest)) /\ nth 0 b 0 = zlen b /\ 0 < zlen b <= BS.

Lemma ms_scan_zeros n : forall fuel a, (n < fuel)%nat -> 0 <= a -> (a + Z.of_nat n) mod BS = 0 ->
  ms_scan fuel (repeat 0 n) a = Some [].
Proof.
  induction n as [n IH] using lt_wf_ind. intros fuel a Hf Ha Hm.
  destruct fuel as [|f]; [lia|]. destruct n as [|n]; [reflexivity|].
  cbn [repeat ms_scan]. rewrite Z.eqb_refl. cbv zeta.
  change (0 :: repeat 0 n) with (repeat 0 (S n)). rewrite ms_skipn_repeat.
  rewrite ms_BS in *.
  apply IH; [lia|lia|lia|].
  replace (a + (2048 - a mod 2048) + Z.of_nat (S n - Z.to_nat (2048 - a mod 2048)))
    with (a + Z.of_nat (S n)); [exact Hm|]. lia.
Qed.

Lemma ms_scan_step r b f rest a : ms_good r b ->
  ms_scan (S f) (b ++ rest) a =
  match ms_scan f rest (a + zlen b) with Some rs => Some (r :: rs) | None => None end.
Proof.
  intros (Hd & H0 & Hl). destruct b as [|x b']; [unfold zlen in Hl; cbn [length] in Hl; lia|].
  cbn [nth] in H0. cbn [app ms_scan].
  destruct (x =? 0) eqn:E; [lia|].
  change (x :: b' ++ rest) with ((x :: b') ++ rest). rewrite Hd, H0. reflexivity.
Qed.

Lemma ms_scan_pack rs bs : Forall2 ms_good rs bs -> forall o a n fuel,
  0 <= o <= BS -> 0 <= a -> (a - o) mod BS = 0 ->
  (length (ms_pack o bs) + n < fuel)%nat ->
  (a + zlen (ms_pack o bs) + Z.of_nat n) mod BS = 0 ->
  ms_scan fuel (ms_pack o bs ++ repeat 0 n) a = Some rs.
Proof.
  induction 1 as [|r b rs bs Hg Hrest IH]; intros o a n fuel Ho Ha Hao Hf Hm.
  - cbn [ms_pack app] in *. rewrite zlen_nil in Hm. apply ms_scan_zeros; [exact Hf|exact Ha|].
    replace (a + Z.of_nat n) with (a + 0 + Z.of_nat n) by lia. exact Hm.
  - pose proof Hg as (_ & _ & Hl). cbn [ms_pack] in *.
    assert (Hlb : (0 < length b)%nat) by (unfold zlen in Hl; lia).
    gtb_case (o + zlen b) BS Ht.
    + (* the record does not fit: zero padding to the block boundary, then the record *)
      rewrite !app_length, repeat_length in Hf. rewrite !zlen_app, ms_zlen_repeat in Hm.
      assert (Hstart : forall f a', 0 <= a' -> a' mod BS = 0 ->
                (length b + length (ms_pack (0 + zlen b) bs) + n < S f)%nat ->
                (a' + zlen b + zlen (ms_pack (0 + zlen b) bs) + Z.of_nat n) mod BS = 0 ->
                ms_scan (S f) ((b ++ ms_pack (0 + zlen b) bs) ++ repeat 0 n) a' = Some (r :: rs)).
      { intros f a' Ha' Hm' Hf' Hmm. rewrite <- app_assoc, (ms_scan_step r b _ _ _ Hg).
        rewrite (IH (0 + zlen b) (a' + zlen b) n f); [reflexivity| | | | |].
        - rewrite ms_BS in *. lia.
        - lia.
        - rewrite ms_BS in *. lia.
        - clear -Hf' Hlb. lia.
        - refine (ms_mod_eq _ _ _ Hmm). lia. }
      destruct (Z.eq_dec o BS) as [Eo|Eo].
      * rewrite Eo, Z.sub_diag. cbn [Z.to_nat repeat app].
        destruct fuel as [|f]; [lia|]. apply Hstart.
        -- exact Ha.
        -- rewrite ms_BS in *. lia.
        -- rewrite Eo, Z.sub_diag in Hf. cbn [Z.to_nat] in Hf. lia.
        -- refine (ms_mod_eq _ _ _ Hm). rewrite ms_BS in *. lia.
      * destruct fuel as [|f]; [lia|].
        assert (Hk : exists k, Z.to_nat (BS - o) = S k) by (exists (Z.to_nat (BS - o) - 1)%nat; lia).
        destruct Hk as [k Hk]. rewrite <- app_assoc. rewrite Hk at 1. cbn [repeat app ms_scan].
        rewrite Z.eqb_refl. cbv zeta.
        assert (Hskip : Z.to_nat (BS - a mod BS) = S k) by (rewrite ms_BS in *; lia).
        rewrite Hskip. cbn [skipn].
        rewrite ms_skipn_repeat_app.
        destruct f as [|f]; [lia|]. apply Hstart.
        -- rewrite ms_BS in *. lia.
        -- rewrite ms_BS in *. lia.
        -- lia.
        -- refine (ms_mod_eq _ _ _ Hm). rewrite ms_BS in *. lia.
    + (* the record fits in the current block *)
      rewrite app_length in Hf. rewrite zlen_app in Hm.
      destruct fuel as [|f]; [lia|]. rewrite <- app_assoc, (ms_scan_step r b _ _ _ Hg).
      rewrite (IH (o + zlen b) (a + zlen b) n f); [reflexivity| | | | |].
      * lia.
      * lia.
      * replace (a + zlen b - (o + zlen b)) with (a - o) by lia. exact Hao.
      * lia.
      * refine (ms_mod_eq _ _ _ Hm). lia.
Qed.

(* the whole extent of a directory, read from offset 0 *)
Theorem ms_scan_dir rs bs dl : Forall2 ms_good rs bs ->
  dl mod BS = 0 -> num_extents BS (map zlen bs) * BS <= dl ->
  ms_scan (S (length (ms_dir_bytes dl bs))) (ms_dir_bytes dl bs) 0 = Some rs.
Proof.
  intros HF Hmod Hdl.
  assert (Hsz : Forall (fun b => zlen b <= BS) bs).
  { clear -HF. induction HF as [|r b rs bs (_ & _ & Hl) _ IH]; constructor; [lia|exact IH]. }
  pose proof (ms_pack_len bs Hsz) as Hlen.
  unfold ms_dir_bytes. cbv zeta. apply (ms_scan_pack rs bs HF 0 0).
  - rewrite ms_BS. lia.
  - lia.
  - reflexivity.
  - rewrite app_length, repeat_length. lia.
  - replace (0 + zlen (ms_pack 0 bs) + Z.of_nat (Z.to_nat (dl - zlen (ms_pack 0 bs)))) with dl by lia.
    exact Hmod.
Qed.

(* ---- where each record lies: exactly where Pack's model of the writer seeks ------------------ *)

(* record i of the stream starting at block e, offset o, lies at (e_i - e) * BS + o_i - o where
   (e_i, o_i) is the i-th position of Pack.writer_pos *)
Lemma ms_pack_at bs : Forall (fun b => zlen b <= BS) bs -> forall e o i b e' o',
  0 <= o <= BS ->
  nth_error bs i = Some b -> nth_error (writer_pos BS e o (map zlen bs)) i = Some (e', o') ->
  exists pre post, ms_pack o bs = pre ++ b ++ post /\
                   e * BS + o + zlen pre = e' * BS + o' /\ 0 <= o' /\ o' + zlen b <= BS.
Proof.
  induction 1 as [|b0 bs Hb Hbs IH]; intros e o i b e' o' Ho Hi Hw; [destruct i; discriminate|].
  pose proof (zlen_nonneg b0) as Hb0. cbn [ms_pack map writer_pos] in *.
  gtb_case (o + zlen b0) BS Ht.
  - destruct i as [|i]; cbn [nth_error] in Hi, Hw.
    + injection Hi as <-. injection Hw as <- <-.
      exists (repeat 0 (Z.to_nat (BS - o))), (ms_pack (0 + zlen b0) bs).
      rewrite ms_zlen_repeat. repeat split; [lia|lia|lia].
    + destruct (IH (e + 1) (0 + zlen b0) i b e' o' ltac:(lia) Hi Hw) as (pre & post & E & Hp & H1 & H2).
      exists (repeat 0 (Z.to_nat (BS - o)) ++ b0 ++ pre), post. rewrite E, <- !app_assoc.
      rewrite !zlen_app, ms_zlen_repeat. repeat split; [lia|lia|lia].
  - destruct i as [|i]; cbn [nth_error] in Hi, Hw.
    + injection Hi as <-. injection Hw as <- <-.
      exists [], (ms_pack (o + zlen b0) bs). rewrite zlen_nil. repeat split; [lia|lia|lia].
    + destruct (IH e (o + zlen b0) i b e' o' ltac:(lia) Hi Hw) as (pre & post & E & Hp & H1 & H2).
      exists (b0 ++ pre), post. rewrite E, <- !app_assoc, zlen_app. repeat split; [lia|lia|lia].
Qed.

Print Assumptions ms_scan_dir.
Print Assumptions ms_pack_at.
