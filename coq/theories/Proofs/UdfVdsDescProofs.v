(* Proofs about Model/UdfVds.v, part 2: Primary Volume Descriptor, Implementation Use Volume
   Descriptor, Partition Descriptor (+ Partition Header), File Set Descriptor.  Each X_spec shows
   [body_spec X_wf X_body X_parse_body]; X_sound is then the instance of UdfVdsProofs.desc_sound:
   record() has 512 bytes, passes verify_tag, and parse(record() ++ rest, ext) gives the attributes back.
     pvd_sound iuvd_sound part_sound fsd_sound
     part_contains_spec abs_sector_inj part_start_length_roundtrip part_new_sound
   All closed under the global context. *)
From Coq Require Import ZArith List Bool Lia ZifyBool.
From PV.Base Require Import Prim ListX.
From PV.Gen Require Import GenConst GenFun.
From PV.Model Require Import Codec Checksums Udf UdfVds.
From PV.Proofs Require Import CodecProofs UdfProofs UdfFeProofs UdfVdsProofs.
Import ListNotations.
Local Open Scope Z_scope.
Ltac Zify.zify_post_hook ::= Z.to_euclidean_division_equations.

(* ---- Primary Volume Descriptor ---- *)
Definition pvd_wf (p : pvd) : Prop :=
  (pv_interchange p = 2 \/ pv_interchange p = 3) /\ (pv_flags p = 0 \/ pv_flags p = 1) /\
  length (pv_vol_ident p) = 32%nat /\ length (pv_vol_set_ident p) = 128%nat /\ length (pv_impl_use p) = 64%nat /\
  zbytes (pv_vol_ident p) /\ zbytes (pv_vol_set_ident p) /\ zbytes (pv_impl_use p) /\
  charspec_wf (pv_desc_char_set p) /\ charspec_wf (pv_expl_char_set p) /\ extad_wf (pv_abstract p) /\
  extad_wf (pv_copyright p) /\ entity_wf (pv_app_ident p) /\ entity_wf (pv_impl_ident p) /\ ts_wf (pv_date p).
Lemma pvd_layout p : map (@length Z) (pvd_fields p) =
  [4; 4; 32; 2; 2; 2; 2; 4; 4; 128; 64; 64; 8; 8; 32; 12; 32; 64; 4; 2; 22]%nat.
Proof. cbn [pvd_fields map]. autorewrite with vlen. reflexivity. Qed.
Lemma pvd_spec : body_spec pvd_wf pvd_body pvd_parse_body.
Proof.
  intros p b (Hi & Hf & L1 & L2 & L3 & B1 & B2 & B3 & C1 & C2 & A1 & A2 & E1 & E2 & T) Hb.
  apply body_of_inv in Hb. destruct Hb as [Hok ->]. unfold pvd_ok, u32_ok, u16_ok in Hok.
  split; [apply zbytes_concat; cbn [pvd_fields]; zb_fields|].
  split; [apply (fields_zlen _ _ _ (pvd_layout p)); reflexivity|].
  intros h rest Hh. unfold pvd_parse_body. rewrite (tagged_split h _ rest _ Hh (pvd_layout p)).
  cbn [pvd_fields]. rewrite !le32_dle32, !le16_dle16 by rng. rewrite !pack_s_exact by assumption.
  rewrite !charspec_rt, !extad_rt0, !entity_rt, ts_rt by assumption.
  rewrite zlist_eqb_refl. kill_ifs. destruct p; reflexivity.
Qed.
Theorem pvd_sound t p r : pvd_wf p -> pvd_record (t, p) = Some r -> tag_wf 1 t ->
  length r = 512%nat /\ verify_tag r = true /\
  forall rest ext, pvd_parse (r ++ rest) ext = Some (retag t ext (crclen_rec t), p).
Proof. apply (desc_sound 1 pvd_wf pvd_body pvd_parse_body pvd_spec). Qed.

(* ---- Implementation Use Volume Descriptor ---- *)
Definition iuu_wf (u : iuu) : Prop :=
  charspec_wf (iuu_char_set u) /\ entity_wf (iuu_impl_ident u) /\ length (iuu_log_vol_ident u) = 128%nat /\
  length (iuu_info1 u) = 36%nat /\ length (iuu_info2 u) = 36%nat /\ length (iuu_info3 u) = 36%nat /\
  length (iuu_impl_use u) = 128%nat /\ zbytes (iuu_log_vol_ident u) /\ zbytes (iuu_info1 u) /\
  zbytes (iuu_info2 u) /\ zbytes (iuu_info3 u) /\ zbytes (iuu_impl_use u).
Definition iuvd_wf (d : iuvd) : Prop :=
  entity_wf (iu_impl_ident d) /\ firstn 12 (en_ident (iu_impl_ident d)) = str_udf_lv_info /\ iuu_wf (iu_impl_use d).
Lemma iuu_layout u : map (@length Z) (iuu_fields u) = [64; 128; 36; 36; 36; 32; 128]%nat.
Proof. cbn [iuu_fields map]. autorewrite with vlen. reflexivity. Qed.
Lemma iuu_len u : length (concat (iuu_fields u)) = 460%nat.
Proof. rewrite length_concat, iuu_layout. reflexivity. Qed.
Lemma iuu_zb u : iuu_wf u -> zbytes (concat (iuu_fields u)).
Proof.
  intros (C & E & _ & _ & _ & _ & _ & B1 & B2 & B3 & B4 & B5). apply zbytes_concat. cbn [iuu_fields]. zb_fields.
Qed.
Lemma iuu_rt u : iuu_wf u -> iuu_parse (concat (iuu_fields u)) = Some u.
Proof.
  intros (C & E & L1 & L2 & L3 & L4 & L5 & _). unfold iuu_parse. rewrite <- (iuu_layout u), split_concat_nil.
  cbn [iuu_fields]. rewrite !pack_s_exact, charspec_rt, entity_rt by assumption. destruct u; reflexivity.
Qed.
Lemma iuvd_layout d : map (@length Z) (iuvd_fields d) = [4; 32; 460]%nat.
Proof. cbn [iuvd_fields map]. rewrite iuu_len. autorewrite with vlen. reflexivity. Qed.
Lemma iuvd_spec : body_spec iuvd_wf iuvd_body iuvd_parse_body.
Proof.
  intros d b (E & Hs & U) Hb. apply body_of_inv in Hb. destruct Hb as [Hok ->]. unfold iuvd_ok, u32_ok in Hok.
  pose proof (iuu_zb _ U).
  split; [apply zbytes_concat; cbn [iuvd_fields]; zb_fields|].
  split; [apply (fields_zlen _ _ _ (iuvd_layout d)); reflexivity|].
  intros h rest Hh. unfold iuvd_parse_body. rewrite (tagged_split h _ rest _ Hh (iuvd_layout d)).
  cbn [iuvd_fields]. rewrite le32_dle32 by rng. rewrite entity_rt, Hs, zlist_eqb_refl, iuu_rt by assumption.
  destruct d; reflexivity.
Qed.
Theorem iuvd_sound t d r : iuvd_wf d -> iuvd_record (t, d) = Some r -> tag_wf 4 t ->
  length r = 512%nat /\ verify_tag r = true /\
  forall rest ext, iuvd_parse (r ++ rest) ext = Some (retag t ext (crclen_rec t), d).
Proof. apply (desc_sound 4 iuvd_wf iuvd_body iuvd_parse_body iuvd_spec). Qed.

(* ---- Partition Header Descriptor / Partition Descriptor ---- *)
Definition parthdr_wf (h : parthdr) : Prop :=
  sad_wf (ph_unalloc_table h) /\ sad_wf (ph_unalloc_bitmap h) /\ sad_wf (ph_integrity_table h) /\
  sad_wf (ph_freed_table h) /\ sad_wf (ph_freed_bitmap h).
Lemma parthdr_len h : length (concat (parthdr_fields h)) = 128%nat. Proof. reflexivity. Qed.
Lemma parthdr_zb h : zbytes (concat (parthdr_fields h)).
Proof. apply zbytes_concat. cbn [parthdr_fields]. zb_fields. Qed.
Lemma parthdr_rt h : parthdr_wf h -> parthdr_parse (concat (parthdr_fields h)) = Some h.
Proof.
  intros (H1 & H2 & H3 & H4 & H5). unfold parthdr_parse.
  change [8; 8; 8; 8; 8; 88]%nat with (map (@length Z) (parthdr_fields h)). rewrite split_concat_nil.
  cbn [parthdr_fields]. rewrite !sad_rt by assumption. destruct h; reflexivity.
Qed.
Definition part_wf (p : partvd) : Prop :=
  (pt_flags p = 0 \/ pt_flags p = 1) /\ pt_access_type p <= 31 /\ entity_wf (pt_contents p) /\
  existsb (zlist_eqb (firstn 6 (en_ident (pt_contents p)))) str_part_contents = true /\
  parthdr_wf (pt_contents_use p) /\ entity_wf (pt_impl_ident p) /\ length (pt_impl_use p) = 128%nat /\
  zbytes (pt_impl_use p).
Lemma part_layout p : map (@length Z) (part_fields p) = [4; 2; 2; 32; 128; 4; 4; 4; 32; 128; 156]%nat.
Proof. cbn [part_fields map]. rewrite parthdr_len. autorewrite with vlen. reflexivity. Qed.
Lemma part_spec : body_spec part_wf part_body part_parse_body.
Proof.
  intros p b (Hf & Ha & E1 & Hs & Hh' & E2 & L & B) Hb. apply body_of_inv in Hb. destruct Hb as [Hok ->].
  unfold part_ok, u32_ok, u16_ok in Hok. pose proof (parthdr_zb (pt_contents_use p)).
  split; [apply zbytes_concat; cbn [part_fields]; zb_fields|].
  split; [apply (fields_zlen _ _ _ (part_layout p)); reflexivity|].
  intros h rest Hh. unfold part_parse_body. rewrite (tagged_split h _ rest _ Hh (part_layout p)).
  cbn [part_fields]. rewrite !le32_dle32, !le16_dle16 by rng. rewrite !pack_s_exact by assumption.
  rewrite !entity_rt, Hs, parthdr_rt by assumption. cbn [negb]. kill_ifs. destruct p; reflexivity.
Qed.
Theorem part_sound t p r : part_wf p -> part_record (t, p) = Some r -> tag_wf 5 t ->
  length r = 512%nat /\ verify_tag r = true /\
  forall rest ext, part_parse (r ++ rest) ext = Some (retag t ext (crclen_rec t), p).
Proof. apply (desc_sound 5 part_wf part_body part_parse_body part_spec). Qed.

(* a partition-relative block number lies in the partition iff its sector lies in
   [part_start_location, part_start_location + part_length) *)
Theorem part_contains_spec p L :
  part_contains p L = true <-> pt_start p <= abs_sector p L < pt_start p + pt_length p.
Proof. unfold part_contains, abs_sector. lia. Qed.
Theorem abs_sector_inj p L1 L2 : abs_sector p L1 = abs_sector p L2 -> L1 = L2.
Proof. unfold abs_sector. lia. Qed.
Lemma part_with_wf p s l : part_wf p -> part_wf (part_with p s l).
Proof. destruct p. exact (fun H => H). Qed.
(* set_start_location(s) and "part_length += n", then record() and parse(): the reader sees the
   partition [s, s + part_length + n) *)
Theorem part_start_length_roundtrip t p s n r rest ext : part_wf p ->
  part_record (t, part_add_length (part_set_start_location p s) n) = Some r -> tag_wf 5 t ->
  exists t' p', part_parse (r ++ rest) ext = Some (t', p') /\ pt_start p' = s /\ pt_length p' = pt_length p + n /\
    u32 s /\ u32 (pt_length p + n) /\ verify_tag r = true.
Proof.
  intros Hw Hrec Ht. set (q := part_add_length (part_set_start_location p s) n) in *.
  assert (Hq : part_wf q) by (apply part_with_wf, part_with_wf, Hw).
  destruct (part_sound t q r Hq Hrec Ht) as (_ & Hv & Hp).
  exists (retag t ext (crclen_rec t)), q. split; [apply Hp|]. split; [reflexivity|]. split; [reflexivity|].
  unfold part_record, desc_record in Hrec. cbn [fst snd] in Hrec.
  destruct (part_body q) as [b|] eqn:Hb; [|discriminate]. apply body_of_inv in Hb. destruct Hb as [Hok _].
  unfold part_ok, u32_ok in Hok. subst q. destruct p. cbn in Hok |- *. unfold u32. repeat split; try lia. exact Hv.
Qed.
(* new(version): a well-formed descriptor (part_start_location 0, part_length 3) *)
Theorem part_new_sound version t p : part_new version = Some (t, p) ->
  part_wf p /\ tag_wf 5 t /\ pt_start p = 0 /\ pt_length p = 3 /\ exists r, part_record (t, p) = Some r.
Proof.
  unfold part_new. intros H.
  destruct (version =? 2); [|destruct (version =? 3); [|discriminate]]; cbv in H; apply some_inv in H;
    inversion H; subst; (split; [|split; [|split; [reflexivity|split; [reflexivity|eexists; vm_compute; reflexivity]]]]).
  all: try (split; [reflexivity|split; [left; reflexivity|left; cbn; lia]]).
  all: unfold part_wf, parthdr_wf, sad_wf, entity_wf, u32; cbn;
    repeat split; try lia; try reflexivity; try (apply zbytes_repeat0); repeat constructor; lia.
Qed.

(* ---- File Set Descriptor ---- *)
Definition fsd_wf (d : fsd) : Prop :=
  ts_wf (fs_date d) /\ charspec_wf (fs_lv_char_set d) /\ charspec_wf (fs_char_set d) /\
  length (fs_lv_ident d) = 128%nat /\ length (fs_ident d) = 32%nat /\ length (fs_copyright d) = 32%nat /\
  length (fs_abstract d) = 32%nat /\ zbytes (fs_lv_ident d) /\ zbytes (fs_ident d) /\ zbytes (fs_copyright d) /\
  zbytes (fs_abstract d) /\ lad_wf (fs_root_icb d) /\ lad_wf (fs_next d) /\ lad_wf (fs_sysstream d) /\
  entity_wf (fs_domain d) /\ firstn 19 (en_ident (fs_domain d)) = str_osta_compliant.
Lemma fsd_layout d : map (@length Z) (fsd_fields d) =
  [12; 2; 2; 4; 4; 4; 4; 64; 128; 64; 32; 32; 32; 16; 32; 16; 16; 32]%nat.
Proof. cbn [fsd_fields map]. autorewrite with vlen. reflexivity. Qed.
Lemma fsd_spec : body_spec fsd_wf fsd_body fsd_parse_body.
Proof.
  intros d b (T & C1 & C2 & L1 & L2 & L3 & L4 & B1 & B2 & B3 & B4 & A1 & A2 & A3 & E & Hs) Hb.
  apply body_of_inv in Hb. destruct Hb as [Hok ->]. unfold fsd_ok, u32_ok in Hok.
  split; [apply zbytes_concat; cbn [fsd_fields]; zb_fields|].
  split; [apply (fields_zlen _ _ _ (fsd_layout d)); reflexivity|].
  intros h rest Hh. unfold fsd_parse_body. rewrite (tagged_split h _ rest _ Hh (fsd_layout d)).
  cbn [fsd_fields]. rewrite !le32_dle32, !le16_dle16 by rng. rewrite !pack_s_exact by assumption.
  rewrite ts_rt, !charspec_rt, entity_rt, !lad_rt, Hs, zlist_eqb_refl by assumption. destruct d; reflexivity.
Qed.
Theorem fsd_sound t d r : fsd_wf d -> fsd_record (t, d) = Some r -> tag_wf 256 t ->
  length r = 512%nat /\ verify_tag r = true /\
  forall rest ext, fsd_parse (r ++ rest) ext = Some (retag t ext (crclen_rec t), d).
Proof. apply (desc_sound 256 fsd_wf fsd_body fsd_parse_body fsd_spec). Qed.

Print Assumptions pvd_sound.
Print Assumptions iuvd_sound.
Print Assumptions part_sound.
Print Assumptions part_contains_spec.
Print Assumptions part_start_length_roundtrip.
Print Assumptions part_new_sound.
Print Assumptions fsd_sound.
