(* C11 / C02 -- Model/BootParse.v, the main theorem: open() of the image written from a state of
   AccountBoot builds exactly [reopened s] (with [reopened_src], the parsed load_rba, [reopened_olen]). *)
From Coq Require Import ZArith List Bool Lia ZifyBool Sorted Arith Permutation.
From PV.Base Require Import Prim.
From PV.Gen Require Import GenConst GenFun.
From PV.Model Require Import Names Checksums Pack Alloc Codec Eltorito Account AccountLinks AccountBoot BootParse.
From PV.Proofs Require Import PackProofs AllocProofs ChecksumsArithProofs AccountLemmas AccountProofs
     AccountLinksLemmas AccountLinksPurge AccountLinksInv EltoritoCatalogProofs EltoritoBuiltProofs
     AccountBootLemmas AccountBootInv AccountBootInv2 AccountBootFix AccountBootProofs BootParseCat
     BootParseLayout BootParseWalk BootParseLink.
Import ListNotations.
Local Open Scope Z_scope.
Ltac Zify.zify_post_hook ::= Z.to_euclidean_division_equations.

(* a record without inode exists only next to an El Torito catalog (true after every history:
   Proofs/BootParseInv.v) *)
Definition bp_names_ok (s : bstate) : Prop :=
  forall nm i st, In (LFile nm i st) (lvisit (bl s)) -> has_ino i (linodes (bl s)) = false -> has_boot s = true.

(* ---- self.inodes after the walk ------------------------------------------------------------------------ *)

Lemma bp_named_placed s : forall recs seen,
  Forall (bp_placed s) (bp_nonempty_ids (bp_named_tbl (lnext (bl s)) (linodes (bl s)) recs seen)).
Proof.
  induction recs as [|n r IH]; intros seen; [constructor|]. destruct n as [nm i st|nm dl kids]; [|apply IH].
  cbn [bp_named_tbl]. destruct (has_ino i (linodes (bl s))) eqn:Hh; cbn [negb]; [|apply IH].
  destruct (Z.eqb_spec (len_of i (linodes (bl s))) 0) as [E|E].
  - unfold bp_nonempty_ids. cbn [filter snd Z.eqb negb]. apply IH.
  - destruct (mem i seen); [apply IH|]. unfold bp_nonempty_ids. cbn [filter snd].
    destruct (Z.eqb_spec (len_of i (linodes (bl s))) 0); [contradiction|]. cbn [negb map fst].
    constructor; [|apply IH]. split; [apply ab_has_ino_in, Hh|exact E].
Qed.

(* an entry of the walk's table under the name of a non-empty inode j < lnext is that inode's *)
Lemma bp_named_entries s j : (j < lnext (bl s))%nat -> len_of j (linodes (bl s)) <> 0 -> forall recs seen,
  Forall (fun e => fst e = j -> snd e <> 0) (bp_named_tbl (lnext (bl s)) (linodes (bl s)) recs seen).
Proof.
  intros Hj Hl. induction recs as [|n r IH]; intros seen; [constructor|].
  destruct n as [nm i st|nm dl kids]; [|apply IH]. cbn [bp_named_tbl].
  destruct (has_ino i (linodes (bl s))); cbn [negb]; [|apply IH].
  destruct (Z.eqb_spec (len_of i (linodes (bl s))) 0) as [E|E].
  - constructor; [|apply IH]. cbn [fst snd]. unfold bp_fresh. destruct (Nat.eqb_spec st i) as [->|_]; intros Hk.
    + subst. contradiction.
    + lia.
  - destruct (mem i seen); [apply IH|]. constructor; [|apply IH]. cbn [fst snd]. intros _. exact E.
Qed.

Lemma bp_loc_src s j t2 : forall t1, Forall (fun e => fst e = j -> snd e <> 0) t1 ->
  loc_of j (bp_srcform s t1 ++ bp_hsrc s t2) =
  if has_ino j (t1 ++ t2) then (rba_of s j, len_of j (t1 ++ t2)) else (0, 0).
Proof.
  unfold loc_of. induction t1 as [|[k v] r IH]; intros HF.
  - cbn [bp_srcform map app]. induction t2 as [|[k v] r IH2]; [reflexivity|].
    cbn [bp_hsrc map assoc fst snd has_ino len_of]. destruct (Nat.eqb_spec k j) as [->|Hne]; [reflexivity|exact IH2].
  - inversion HF as [|? ? H1 H2]; subst. cbn [bp_srcform map app assoc fst snd has_ino len_of].
    destruct (Nat.eqb_spec k j) as [->|Hne].
    + cbn [fst snd] in H1. destruct (Z.eqb_spec v 0) as [E|E]; [exfalso; apply H1; [reflexivity|exact E]|reflexivity].
    + apply IH, H2.
Qed.

Lemma bp_strip_src s t1 t2 :
  map (fun e : nat * (Z * Z) => (fst e, snd (snd e))) (bp_srcform s t1 ++ bp_hsrc s t2) = t1 ++ t2.
Proof.
  rewrite map_app. unfold bp_srcform, bp_hsrc. rewrite !map_map. cbn [fst snd].
  f_equal; (rewrite <- map_id; apply map_ext; intros [a b]; reflexivity).
Qed.

(* ---- the theorem ------------------------------------------------------------------------------------------- *)

Section Main.
  Variable fx : bp_code.             (* Cur: the current code; Old / Mid: before commits 063269b / 9223b0e *)
  Variable s : bstate.
  Hypothesis HI : BInv s.
  Hypothesis HF : BFix s.
  Hypothesis HC : bp_names_ok s.
  Hypothesis HS : lspace (bl s) <= 4294967295.          (* pvd.space_size is a 32-bit field *)
  Let l := bl s.
  Let tbl := linodes (bl s).
  Let nx := lnext (bl s).
  Let t1 := bp_named_tbl nx tbl (lvisit l) [].
  Let ks := bp_nonempty_ids t1.

  Lemma bp_ids_lt j : In j (ids tbl) -> (j < nx)%nat.
  Proof.
    intros Hj. destruct (Nat.lt_ge_cases j nx) as [H|H]; [exact H|].
    destruct (bi_fresh s HI j H) as [_ Hn]. contradiction.
  Qed.

  Lemma bp_walk_view : exists last', 0 <= last' <= lspace l * C /\
    bp_walk (boot_view s) (bp_cat_of s) (lvisit l) (mk_wstate [] [] [] 0) =
    POk (mk_wstate (bp_srcform s t1) (bp_e2i s ks) (noino_labels tbl (lvisit l)) last').
  Proof.
    pose proof (bp_cat_extent_bounds s HI) as Hce.
    destruct (bp_walk_sim s HI HC (lvisit l) [] [] (mk_wstate [] [] [] 0)) as (last' & H1 & H2);
      [intros n Hn; exact Hn|intros j; reflexivity|apply Forall_nil|reflexivity|cbn [ws_last]; unfold l, C; destruct (has_boot s); lia|].
    exists last'. split; [exact H1|]. exact H2.
  Qed.

  (* new_record.inode of every record of the tree *)
  Lemma bp_tree_view :
    lmap_ino (bp_ino_of (boot_view s) (bp_cat_of s) (bp_e2i s ks)) (lroot l) = lmap_ino (bp_relabel nx tbl) (lroot l).
  Proof.
    apply bp_lmap_ext_visit. intros nm i st Hv. unfold bp_ino_of, bp_relabel.
    change (w_loc (boot_view s)) with (view_loc s). change (w_next (boot_view s)) with nx.
    pose proof (bp_cat_extent_bounds s HI) as Hce.
    destruct (has_ino i tbl) eqn:Hh.
    - rewrite (bp_loc_ino s nm i st Hv Hh). fold tbl. destruct (Z.eqb_spec (len_of i tbl) 0) as [E|E].
      + cbn [andb]. assert (Hnc : bp_is_cat (bp_cat_of s) 0 = false).
        { unfold bp_is_cat, bp_cat_of. destruct (has_boot s); [|reflexivity]. lia. }
        rewrite Hnc. reflexivity.
      + cbn [andb]. assert (Hp : bp_placed s i) by (split; [apply ab_has_ino_in, Hh|exact E]).
        destruct (bp_rba_spec s i HI Hp) as (_ & Hds & _). rewrite bp_data_start in Hds.
        assert (Hnc : bp_is_cat (bp_cat_of s) (rba_of s i) = false).
        { unfold bp_is_cat, bp_cat_of. destruct (has_boot s); [|reflexivity]. lia. }
        rewrite Hnc, (bp_zassoc_rba s HI i ks (bp_named_placed s _ _) Hp). destruct (mem i ks); reflexivity.
    - rewrite (bp_loc_noino s nm i st Hv Hh). change (C =? 0) with false. cbn [andb].
      assert (Hb : has_boot s = true) by (eapply HC; eassumption).
      unfold bp_is_cat, bp_cat_of. rewrite Hb, Z.eqb_refl. reflexivity.
  Qed.

  Lemma bp_space_view last' : 0 <= last' <= lspace l * C ->
    (if last' >? w_space (boot_view s) * C then ceiling_div last' C else w_space (boot_view s)) = lspace l.
  Proof. intros H. change (w_space (boot_view s)) with (lspace l). destruct (last' >? lspace l * C) eqn:E; [lia|reflexivity]. Qed.

  Theorem boot_parse_full_view_noboot : bboot s = None ->
    boot_parse_full_gen fx (boot_view s) = POk (mk_reopen (reopened_gen fx s) (reopened_src_gen fx s) (entry_rbas s) (reopened_olen_gen fx s)).
  Proof.
    intros Hb. assert (Hhb : has_boot s = false) by (unfold has_boot; rewrite Hb; reflexivity).
    destruct bp_walk_view as (last' & Hl' & Hw). unfold bp_cat_of in Hw. rewrite Hhb in Hw.
    unfold boot_parse_full_gen.
    change (w_br (boot_view s)) with (if has_boot s then Some (17, cat_extent s) else None).
    change (w_tree (boot_view s)) with (lroot (bl s)). change (w_next (boot_view s)) with nx. rewrite Hhb.
    change (lvisit {| lroot := lroot (bl s); linodes := []; lnext := 0; lptr_size := 0; lptr_ext := 0; lspace := 0 |})
      with (lvisit l).
    rewrite Hw. cbn [ws_tbl ws_e2i ws_cat ws_last]. rewrite (bp_space_view last' Hl').
    pose proof bp_tree_view as Ht. unfold bp_cat_of in Ht. rewrite Hhb in Ht. change (lroot (bl s)) with (lroot l). rewrite Ht.
    unfold reopened_gen, reopened_src_gen, reopened_olen_gen, entry_rbas, reopened_gen. rewrite Hb. fold l tbl nx t1.
    cbn [bbits map]. rewrite app_nil_r.
    pose proof (bp_strip_src s t1 []) as Hs. unfold bp_hsrc in Hs. cbn [map] in Hs. rewrite !app_nil_r in Hs.
    rewrite Hs. reflexivity.
  Qed.

  Section Boot.
    Variable b : boot.
    Hypothesis Hb : bboot s = Some b.
    Let es := combine (binos b) (cat_scs (bcat b)).
    Let t2 := bp_hidden fx s (binos b) es ks.
    Let t := t1 ++ t2.

    Lemma bp_hb : has_boot s = true.
    Proof. unfold has_boot. rewrite Hb. reflexivity. Qed.

    Lemma bp_binos_placed i : In i (binos b) -> bp_placed s i.
    Proof. intros H. apply bp_entry_placed; [exact HI|exact HF|]. rewrite Hb. cbn [erefs]. apply ab_count_pos, H. Qed.

    Lemma bp_built : exists ab, built (bcat b) ab /\ length (binos b) = length (cat_entries (bcat b)).
    Proof.
      pose proof (bi_cat s HI) as H. rewrite Hb in H. destruct H as (_ & _ & (ab & Hab) & Hlen).
      exists ab. split; [exact Hab|]. rewrite (bp_built_nent _ _ Hab). exact Hlen.
    Qed.

    Lemma bp_rbas_u32 : forallb u32_ok (entry_rbas s) = true.
    Proof.
      unfold entry_rbas. rewrite Hb. apply forallb_forall. intros x Hx. apply in_map_iff in Hx.
      destruct Hx as (i & <- & Hi). destruct (bp_rba_spec s i HI (bp_binos_placed i Hi)) as (_ & Hds & Hbp & Hsp).
      rewrite bp_data_start in Hds. pose proof (bp_cat_extent_bounds s HI) as Hce. pose proof HS as HS0.
      unfold u32_ok. destruct (has_boot s); lia.
    Qed.

    Lemma bp_es_fst : map fst es = binos b.
    Proof.
      destruct bp_built as (ab & _ & Hlen). apply bp_map_fst_combine. unfold cat_scs. rewrite map_length. lia.
    Qed.

    Lemma bp_entry_loc j : In j (binos b) ->
      loc_of j (bp_srcform s t1 ++ bp_hsrc s t2) = (rba_of s j, len_of j t).
    Proof.
      intros Hj. pose proof (bp_binos_placed j Hj) as [Hp1 Hp2].
      rewrite (bp_loc_src s j t2 t1 (bp_named_entries s j (bp_ids_lt j Hp1) Hp2 _ _)). fold t.
      assert (Hin : has_ino j t = true); [|rewrite Hin; reflexivity].
      apply ab_has_ino_in. unfold t, ids. rewrite map_app. apply in_or_app.
      destruct (bp_hidden_covers s fx (binos b) j es ks) as [H|H]; [rewrite bp_es_fst; exact Hj| |right; exact H].
      left. apply ab_mem_in in H. unfold ks, bp_nonempty_ids in H. apply in_map_iff in H.
      destruct H as (e & He & Hin). apply filter_In in Hin. apply in_map_iff. exists e. tauto.
    Qed.

    Lemma bp_bits_view :
      bp_bits (boot_view s) (bp_srcform s t1 ++ bp_hsrc s t2) (binos b) =
      dedup (filter (fun i => mem i (bbits s) && bp_csum_ok (len_of i tbl) (len_of i t)) (binos b)) [].
    Proof.
      unfold bp_bits. f_equal. apply filter_ext_in. intros j Hj. unfold bp_has_table.
      rewrite (bp_entry_loc j Hj), (bp_tabs_at s HI HF j (bp_binos_placed j Hj)).
      destruct (mem j (bbits s)); [|reflexivity]. cbn [bt_pvd bt_ext bt_cover andb]. rewrite !Z.eqb_refl. reflexivity.
    Qed.

    Lemma bp_olen_view bits : (forall j, In j bits -> In j (binos b) /\ mem j (bbits s) = true) ->
      bp_olen (boot_view s) (bp_srcform s t1 ++ bp_hsrc s t2) bits = map (fun i => (i, own_len s i)) bits.
    Proof.
      intros H. unfold bp_olen. apply map_ext_in. intros j Hj. destruct (H j Hj) as [H1 H2].
      rewrite (bp_entry_loc j H1). cbn [fst]. rewrite (bp_tabs_at s HI HF j (bp_binos_placed j H1)), H2. reflexivity.
    Qed.

    Theorem boot_parse_full_view_boot :
      boot_parse_full_gen fx (boot_view s) = POk (mk_reopen (reopened_gen fx s) (reopened_src_gen fx s) (entry_rbas s) (reopened_olen_gen fx s)).
    Proof.
      destruct bp_walk_view as (last' & Hl' & Hw). unfold bp_cat_of in Hw. rewrite bp_hb in Hw.
      destruct bp_built as (ab & Hab & Hlen).
      assert (Hlr : length (entry_rbas s) = length (cat_entries (bcat b))).
      { unfold entry_rbas. rewrite Hb, map_length. exact Hlen. }
      destruct (bp_cat_roundtrip (bcat b) ab (entry_rbas s) Hab bp_rbas_u32 Hlr) as (R1 & R2 & R3 & R4 & _).
      unfold boot_parse_full_gen.
      change (w_br (boot_view s)) with (if has_boot s then Some (17, cat_extent s) else None).
      change (w_tree (boot_view s)) with (lroot (bl s)). change (w_next (boot_view s)) with nx.
      change (w_cat_block (boot_view s))
        with (match bboot s with Some b0 => cat_extent_bytes (cat_set_rbas (bcat b0) (entry_rbas s)) | None => [] end).
      change (w_elabels (boot_view s)) with (match bboot s with Some b0 => binos b0 | None => [] end).
      rewrite bp_hb, Hb. change (17 =? 17) with true. cbn [negb]. rewrite R1.
      change (lvisit {| lroot := lroot (bl s); linodes := []; lnext := 0; lptr_size := 0; lptr_ext := 0; lspace := 0 |})
        with (lvisit l).
      rewrite Hw. cbn [ws_tbl ws_e2i ws_cat ws_last]. rewrite (bp_space_view last' Hl').
      pose proof bp_tree_view as Ht. unfold bp_cat_of in Ht. rewrite bp_hb in Ht. change (lroot (bl s)) with (lroot l). rewrite Ht.
      assert (Hes : combine (combine (map e_load_rba (cat_entries (cat_set_rbas (bcat b) (entry_rbas s))))
                                     (map e_sector_count (cat_entries (cat_set_rbas (bcat b) (entry_rbas s)))))
                            (binos b)
                    = map (fun p : nat * Z => (rba_of s (fst p), snd p, fst p)) es).
      { rewrite R3, R4. unfold entry_rbas. rewrite Hb. apply bp_combine3. }
      rewrite Hes, R2, R3. change (lspace l) with (lspace (bl s)).
      rewrite (bp_link_view s HI HF fx es ks (mk_lstate2 (bp_srcform s t1) (bp_e2i s ks) []));
        [|apply Forall_forall; intros p Hp; apply bp_binos_placed; rewrite <- bp_es_fst; apply in_map, Hp
         |apply bp_named_placed|reflexivity].
      cbn [l2_tbl l2_e2i l2_inos app]. rewrite bp_es_fst. fold t2. rewrite bp_strip_src, bp_bits_view.
      rewrite bp_olen_view.
      2:{ intros j Hj. apply dedup_in in Hj. destruct Hj as [Hj _]. apply filter_In in Hj. destruct Hj as [Hj1 Hj2].
          apply andb_prop in Hj2. tauto. }
      unfold reopened_gen, reopened_src_gen, reopened_olen_gen, reopened_gen. rewrite Hb. fold l tbl nx t1 ks es t2 t.
      cbn [bbits]. unfold entry_rbas. rewrite Hb. reflexivity.
    Qed.
  End Boot.

  Theorem boot_parse_full_view :
    boot_parse_full_gen fx (boot_view s) = POk (mk_reopen (reopened_gen fx s) (reopened_src_gen fx s) (entry_rbas s) (reopened_olen_gen fx s)).
  Proof.
    destruct (bboot s) as [b|] eqn:Hb; [apply (boot_parse_full_view_boot b Hb)|apply boot_parse_full_view_noboot, Hb].
  Qed.

  Theorem boot_parse_gen_view : boot_parse_gen fx (boot_view s) = POk (reopened_gen fx s).
  Proof. unfold boot_parse_gen. rewrite boot_parse_full_view. reflexivity. Qed.
End Main.

(* the current code *)
Theorem boot_parse_view_inv s : BInv s -> BFix s -> bp_names_ok s -> lspace (bl s) <= 4294967295 ->
  boot_parse (boot_view s) = POk (reopened s).
Proof. intros. apply (boot_parse_gen_view Cur); assumption. Qed.

Print Assumptions boot_parse_full_view.
Print Assumptions boot_parse_view_inv.
