(* C11 / C02 -- Model/BootParse.v, part 5: the tree and the inode table of the reopened state
   ([lmap_ino], [bp_named_tbl], [bp_hidden]): measures, membership, distinct names. *)
From Coq Require Import ZArith List Bool Lia ZifyBool Sorted Arith Permutation.
From PV.Base Require Import Prim.
From PV.Gen Require Import GenConst GenFun.
From PV.Model Require Import Names Checksums Pack Alloc Codec Eltorito Account AccountLinks AccountBoot BootParse.
From PV.Proofs Require Import PackProofs AllocProofs ChecksumsArithProofs AccountLemmas AccountProofs
     AccountLinksLemmas AccountLinksPurge AccountLinksInv AccountBootLemmas AccountBootInv BootParseLayout
     BootParseWalk BootParseLink.
Import ListNotations.
Local Open Scope Z_scope.
Ltac Zify.zify_post_hook ::= Z.to_euclidean_division_equations.

(* ---- the relabelled tree ------------------------------------------------------------------------------- *)

Definition bp_rl (f : nat -> nat -> nat) (n : lnode) : lnode :=
  match n with LFile nm i st => LFile nm (f i st) st | LDir nm dl k => LDir nm dl k end.

Lemma bp_lname_lmap f n : lname (lmap_ino f n) = lname n.
Proof. destruct n; reflexivity. Qed.
Lemma bp_is_dir_lmap f n : l_is_dir (lmap_ino f n) = l_is_dir n.
Proof. destruct n; reflexivity. Qed.

(* a measure of the relabelled tree is the measure that relabels first *)
Lemma bp_ltotal_lmap w f : forall n, ltotal w (lmap_ino f n) = ltotal (fun m => w (bp_rl f m)) n.
Proof.
  apply lnode_ind'.
  - intros nm i st. cbn [lmap_ino]. rewrite !ltotal_file. reflexivity.
  - intros nm dl kids HF. cbn [lmap_ino]. rewrite !ltotal_dir. cbn [bp_rl]. f_equal.
    induction HF as [|c r Hc Hr IH]; [reflexivity|]. cbn [map]. rewrite !ltotals_cons, Hc, IH. reflexivity.
Qed.

Lemma bp_ltotal_lmap_same w f : (forall m, w (bp_rl f m) = w m) -> forall n, ltotal w (lmap_ino f n) = ltotal w n.
Proof.
  intros H n. rewrite bp_ltotal_lmap. revert n. apply lnode_ind'.
  - intros nm i st. rewrite !ltotal_file. apply H.
  - intros nm dl kids HF. rewrite !ltotal_dir, H. f_equal.
    induction HF as [|c r Hc Hr IH]; [reflexivity|]. rewrite !ltotals_cons, Hc, IH. reflexivity.
Qed.

Lemma bp_lall_ok_lmap f : forall n, lall_ok n -> lall_ok (lmap_ino f n).
Proof.
  apply (lnode_ind' (fun n => lall_ok n -> lall_ok (lmap_ino f n))); [intros; exact I|].
  intros nm dl kids HF H. cbn [lmap_ino]. apply lall_ok_dir in H. destruct H as [Hd Hk]. apply lall_ok_dir. split.
  - rewrite map_map. rewrite (map_ext _ lname (bp_lname_lmap f)). exact Hd.
  - apply Forall_map. rewrite Forall_forall in *. intros c Hc. apply HF; [exact Hc|apply Hk, Hc].
Qed.

(* the records of the relabelled tree, seen from the walk over the original one *)
Lemma bp_refcount_lmap f l k :
  lrefcount k (lmap_ino f (lroot l)) = Alloc.zsum (map (fun n => lw_ref k (bp_rl f (hdr n))) (lvisit l)).
Proof.
  unfold lrefcount. rewrite bp_ltotal_lmap, <- (lvisit_sum (fun m => lw_ref k (bp_rl f m)) l). reflexivity.
Qed.

Lemma bp_rl_ref_nonneg f k n : 0 <= lw_ref k (bp_rl f (hdr n)).
Proof. apply lw_ref_nonneg. Qed.

Lemma bp_refcount_lmap_pos f l k :
  0 < lrefcount k (lmap_ino f (lroot l)) <-> exists nm i st, In (LFile nm i st) (lvisit l) /\ f i st = k.
Proof.
  rewrite bp_refcount_lmap. rewrite (zsum_pos_iff _ _ (bp_rl_ref_nonneg f k)). split.
  - intros (n & Hn & Hp). destruct n as [nm i st|nm dl kids]; [|cbn in Hp; lia].
    exists nm, i, st. split; [exact Hn|]. cbn [hdr bp_rl] in Hp. rewrite lw_ref_file in Hp.
    destruct (Nat.eqb_spec (f i st) k); [assumption|lia].
  - intros (nm & i & st & Hn & <-). exists (LFile nm i st). split; [exact Hn|].
    cbn [hdr bp_rl]. rewrite lw_ref_file, Nat.eqb_refl. lia.
Qed.

(* ---- the names of the Inodes of empty files ------------------------------------------------------------ *)

Definition bp_stamps (recs : list lnode) : list nat :=
  flat_map (fun n => match n with LFile _ _ st => [st] | _ => [] end) recs.

(* the stamps of the records are distinct and below lnext (true after every history: BootParseInv.v) *)
Definition bp_stamps_ok (s : bstate) : Prop :=
  NoDup (bp_stamps (lvisit (bl s))) /\ Forall (fun st => (st < lnext (bl s))%nat) (bp_stamps (lvisit (bl s))).

Lemma bp_fresh_inj nx i1 st1 i2 st2 : (st1 < nx)%nat -> (st2 < nx)%nat -> st1 <> st2 ->
  bp_fresh nx i1 st1 <> bp_fresh nx i2 st2.
Proof.
  unfold bp_fresh. intros H1 H2 Hne. destruct (Nat.eqb_spec st1 i1), (Nat.eqb_spec st2 i2); lia.
Qed.

Lemma bp_fresh_not_real nx tbl i st j : len_of i tbl = 0 -> len_of j tbl <> 0 -> (j < nx)%nat ->
  bp_fresh nx i st <> j.
Proof.
  unfold bp_fresh. intros H0 Hj Hlt. destruct (Nat.eqb_spec st i); [intros ->; contradiction|lia].
Qed.

Lemma bp_stamps_in nm i st recs : In (LFile nm i st) recs -> In st (bp_stamps recs).
Proof. intros H. unfold bp_stamps. apply in_flat_map. exists (LFile nm i st). split; [exact H|left; reflexivity]. Qed.

(* ---- self.inodes after the walk -------------------------------------------------------------------------- *)

Section Table.
  Variable nx : nat.
  Variable tbl : itable.
  Hypothesis Hlt : forall j, In j (ids tbl) -> (j < nx)%nat.

  Lemma bp_named_in k v : forall recs seen, In (k, v) (bp_named_tbl nx tbl recs seen) ->
    (exists nm i st, In (LFile nm i st) recs /\ has_ino i tbl = true /\ len_of i tbl = 0 /\
                     k = bp_fresh nx i st /\ v = 0) \/
    (has_ino k tbl = true /\ v = len_of k tbl /\ v <> 0 /\ mem k seen = false /\
     exists nm st, In (LFile nm k st) recs).
  Proof.
    induction recs as [|n r IH]; intros seen H; [destruct H|].
    destruct n as [nm i st|nm dl kids].
    2:{ cbn [bp_named_tbl] in H. destruct (IH seen H) as [(a & b & c & H1 & H2)|(H1 & H2 & H3 & H4 & a & b & H5)].
        - left. exists a, b, c. split; [right; exact H1|exact H2].
        - right. repeat split; try assumption. exists a, b. right. exact H5. }
    cbn [bp_named_tbl] in H. destruct (has_ino i tbl) eqn:Hh; cbn [negb] in H.
    - destruct (Z.eqb_spec (len_of i tbl) 0) as [E|E].
      + destruct H as [H|H].
        * inversion H; subst. left. exists nm, i, st. repeat split; try assumption. left. reflexivity.
        * destruct (IH seen H) as [(a & b & c & H1 & H2)|(H1 & H2 & H3 & H4 & a & b & H5)].
          -- left. exists a, b, c. split; [right; exact H1|exact H2].
          -- right. repeat split; try assumption. exists a, b. right. exact H5.
      + destruct (mem i seen) eqn:Hm.
        * destruct (IH seen H) as [(a & b & c & H1 & H2)|(H1 & H2 & H3 & H4 & a & b & H5)].
          -- left. exists a, b, c. split; [right; exact H1|exact H2].
          -- right. repeat split; try assumption. exists a, b. right. exact H5.
        * destruct H as [H|H].
          -- inversion H; subst. right. repeat split; try assumption. exists nm, st. left. reflexivity.
          -- destruct (IH (i :: seen) H) as [(a & b & c & H1 & H2)|(H1 & H2 & H3 & H4 & a & b & H5)].
             ++ left. exists a, b, c. split; [right; exact H1|exact H2].
             ++ right. repeat split; try assumption.
                ** unfold mem in *. cbn [existsb] in H4. apply orb_false_elim in H4. tauto.
                ** exists a, b. right. exact H5.
    - destruct (IH seen H) as [(a & b & c & H1 & H2)|(H1 & H2 & H3 & H4 & a & b & H5)].
      + left. exists a, b, c. split; [right; exact H1|exact H2].
      + right. repeat split; try assumption. exists a, b. right. exact H5.
  Qed.

  (* every non-empty inode with a record is there (unless already seen) *)
  Lemma bp_named_covers nm i st : forall recs seen, In (LFile nm i st) recs ->
    has_ino i tbl = true -> len_of i tbl <> 0 -> mem i seen = false ->
    In (i, len_of i tbl) (bp_named_tbl nx tbl recs seen).
  Proof.
    induction recs as [|n r IH]; intros seen H Hh Hl Hm; [destruct H|].
    destruct H as [->|H].
    - cbn [bp_named_tbl]. rewrite Hh. cbn [negb]. destruct (Z.eqb_spec (len_of i tbl) 0); [contradiction|].
      rewrite Hm. left. reflexivity.
    - destruct n as [nm' i' st'|nm' dl kids]; [|apply IH; assumption]. cbn [bp_named_tbl].
      destruct (has_ino i' tbl) eqn:Hh'; cbn [negb]; [|apply IH; assumption].
      destruct (Z.eqb_spec (len_of i' tbl) 0) as [E|E]; [right; apply IH; assumption|].
      destruct (mem i' seen) eqn:Hm'; [apply IH; assumption|].
      destruct (Nat.eq_dec i' i) as [->|Hne]; [left; reflexivity|]. right. apply IH; try assumption.
      unfold mem in *. cbn [existsb]. rewrite Hm. destruct (Nat.eqb_spec i i'); [congruence|reflexivity].
  Qed.

  Lemma bp_named_nodup : forall recs seen,
    NoDup (bp_stamps recs) -> Forall (fun st => (st < nx)%nat) (bp_stamps recs) ->
    NoDup (ids (bp_named_tbl nx tbl recs seen)).
  Proof.
    induction recs as [|n r IH]; intros seen HN HB; [constructor|].
    destruct n as [nm i st|nm dl kids]; [|apply IH; assumption].
    cbn [bp_stamps flat_map app] in HN, HB. fold (bp_stamps r) in HN, HB.
    inversion HN as [|? ? Hst HN']; subst. inversion HB as [|? ? Hb HB']; subst.
    cbn [bp_named_tbl]. destruct (has_ino i tbl) eqn:Hh; cbn [negb]; [|apply IH; assumption].
    destruct (Z.eqb_spec (len_of i tbl) 0) as [E|E].
    - cbn [ids map fst]. constructor; [|apply IH; assumption]. intros Hin. apply in_map_iff in Hin.
      destruct Hin as ([k v] & Hk & Hin). cbn [fst] in Hk. subst k.
      destruct (bp_named_in _ _ _ _ Hin) as [(a & b & c & H1 & H2 & H3 & H4 & H5)|(H1 & H2 & H3 & H4 & a & b & H5)].
      + pose proof (bp_stamps_in _ _ _ _ H1) as Hc. rewrite Forall_forall in HB'.
        apply (bp_fresh_inj nx i st b c Hb (HB' c Hc)); [intros ->; contradiction|exact H4].
      + apply (bp_fresh_not_real nx tbl i st (bp_fresh nx i st) E); [congruence|apply Hlt, ab_has_ino_in, H1|reflexivity].
    - destruct (mem i seen) eqn:Hm; [apply IH; assumption|]. cbn [ids map fst]. constructor; [|apply IH; assumption].
      intros Hin. apply in_map_iff in Hin. destruct Hin as ([k v] & Hk & Hin). cbn [fst] in Hk. subst k.
      destruct (bp_named_in _ _ _ _ Hin) as [(a & b & c & H1 & H2 & H3 & H4 & H5)|(H1 & H2 & H3 & H4 & a & b & H5)].
      + symmetry in H4. revert H4. apply (bp_fresh_not_real nx tbl b c i H3 E). apply Hlt, ab_has_ino_in, Hh.
      + unfold mem in H4. cbn [existsb] in H4. rewrite Nat.eqb_refl in H4. discriminate.
  Qed.
End Table.

(* ---- the Inodes made for boot files without directory record ------------------------------------------ *)

Lemma bp_hidden_nodup fx s ents : forall es known, NoDup (ids (bp_hidden fx s ents es known)) /\
  forall j, In j (ids (bp_hidden fx s ents es known)) -> mem j known = false.
Proof.
  induction es as [|[i sc] r IH]; intros known; [split; [constructor|intros j []]|]. cbn [bp_hidden].
  destruct (mem i known) eqn:Hm; [apply IH|]. destruct (IH (known ++ [i])) as [I1 I2]. cbn [ids map fst]. split.
  - constructor; [|exact I1]. intros Hin. specialize (I2 i Hin). unfold mem in I2. rewrite existsb_app in I2.
    cbn [existsb] in I2. rewrite Nat.eqb_refl in I2. rewrite orb_true_r in I2. discriminate.
  - intros j [<-|Hj]; [exact Hm|]. specialize (I2 j Hj). unfold mem in *. rewrite existsb_app in I2.
    apply orb_false_elim in I2. tauto.
Qed.

Lemma bp_hidden_in fx s ents j v : forall es known, In (j, v) (bp_hidden fx s ents es known) ->
  exists sc known', (forall k, In k known -> In k known') /\
    (forall k, In k known' -> In k known \/ In k (map fst es)) /\
    In (j, sc) es /\ v = bp_newlen fx s ents known' j sc.
Proof.
  induction es as [|[i sc] r IH]; intros known H; [destruct H|]. cbn [bp_hidden] in H.
  destruct (mem i known).
  - destruct (IH known H) as (sc' & k' & H0 & H0' & H1 & H2). exists sc', k'. split; [exact H0|].
    split; [|split; [right; exact H1|exact H2]]. intros k Hk. destruct (H0' k Hk); [left; assumption|right; right; assumption].
  - destruct H as [H|H].
    + inversion H; subst. exists sc, known. split; [tauto|]. split; [tauto|]. split; [left; reflexivity|reflexivity].
    + destruct (IH _ H) as (sc' & k' & H0 & H0' & H1 & H2). exists sc', k'. split; [|split; [|split; [right; exact H1|exact H2]]].
      * intros k Hk. apply H0, in_or_app. left. exact Hk.
      * intros k Hk. destruct (H0' k Hk) as [Hk'|Hk'].
        -- apply in_app_or in Hk'. destruct Hk' as [Hk'|[<-|[]]]; [left; exact Hk'|right; left; reflexivity].
        -- right. right. exact Hk'.
Qed.

(* the Inode made for a record of an empty file is in the walk's table *)
Lemma bp_named_covers0 nx tbl nm i st : forall recs seen, In (LFile nm i st) recs ->
  has_ino i tbl = true -> len_of i tbl = 0 -> In (bp_fresh nx i st, 0) (bp_named_tbl nx tbl recs seen).
Proof.
  induction recs as [|n r IH]; intros seen H Hh Hl; [destruct H|]. destruct H as [->|H].
  - cbn [bp_named_tbl]. rewrite Hh, Hl. cbn [negb Z.eqb]. left. reflexivity.
  - destruct n as [nm' i' st'|nm' dl kids]; [|apply IH; assumption]. cbn [bp_named_tbl].
    destruct (has_ino i' tbl); cbn [negb]; [|apply IH; assumption].
    destruct (len_of i' tbl =? 0); [right; apply IH; assumption|].
    destruct (mem i' seen); [apply IH; assumption|right; apply IH; assumption].
Qed.
