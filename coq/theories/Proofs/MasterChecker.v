(* Master: what an accepted correspondence case means.
     ms_case_ok_spec   when Master.ms_case_ok accepts (tree, date, root pointer, bytes of the library's
                       image), the model produces exactly those bytes, the independent reader run on
                       them returns view tree, and the root pointer is the model's *)
From Coq Require Import ZArith List Bool Lia ZifyBool.
From PV.Base Require Import Prim.
From PV.Model Require Import Codec Pack PathTable Master.
Import ListNotations.
Local Open Scope Z_scope.

Lemma ms_zlist_eqb_eq a : forall b, zlist_eqb a b = true -> a = b.
Proof.
  induction a as [|x a IH]; intros [|y b] H; cbn [zlist_eqb] in H; try discriminate; [reflexivity|].
  apply andb_prop in H. destruct H as [H1 H2]. apply Z.eqb_eq in H1. rewrite (IH b H2), H1. reflexivity.
Qed.

Lemma ms_image_eqb_eq a : forall b, ms_image_eqb a b = true -> a = b.
Proof.
  induction a as [|[e1 b1] a IH]; intros [|[e2 b2] b] H; cbn [ms_image_eqb] in H; try discriminate;
    [reflexivity|].
  apply andb_prop in H. destruct H as [H H3]. apply andb_prop in H. destruct H as [H1 H2].
  apply Z.eqb_eq in H1. apply ms_zlist_eqb_eq in H2. rewrite (IH b H3), H1, H2. reflexivity.
Qed.

Lemma ms_rnode_eqb_eq : forall a b, ms_rnode_eqb a b = true -> a = b.
Proof.
  fix IH 1. intros [n1 e1 l1|n1 e1 l1 k1] [n2 e2 l2|n2 e2 l2 k2] H; cbn [ms_rnode_eqb] in H;
    try discriminate.
  - apply andb_prop in H. destruct H as [H H3]. apply andb_prop in H. destruct H as [H1 H2].
    apply ms_zlist_eqb_eq in H1. apply Z.eqb_eq in H2. apply Z.eqb_eq in H3. congruence.
  - apply andb_prop in H. destruct H as [H H4]. apply andb_prop in H. destruct H as [H H3].
    apply andb_prop in H. destruct H as [H1 H2].
    apply ms_zlist_eqb_eq in H1. apply Z.eqb_eq in H2. apply Z.eqb_eq in H3. subst n2 e2 l2. f_equal.
    revert k2 H4. induction k1 as [|a k1 IHk]; intros [|b k2] H4; try discriminate; [reflexivity|].
    apply andb_prop in H4. destruct H4 as [Ha Hk]. rewrite (IH a b Ha), (IHk k2 Hk). reflexivity.
Qed.

Theorem ms_case_ok_spec t dt re rl expected : ms_case_ok (t, dt, (re, rl), expected) = true ->
  let img := map (fun x : Z * list (Z * list Z) => (fst x, ms_unrle (snd x))) expected in
  wf_tree t = true /\ re = root_extent t /\ rl = root_len t /\ master dt t = Some img /\
  read (fuel_for t) img re rl = Some (view t) /\ ms_layout_agrees t = true.
Proof.
  unfold ms_case_ok. cbv zeta. intros H.
  repeat (apply andb_prop in H; destruct H as [H ?]).
  match goal with Hm : match master dt t with _ => _ end = true |- _ =>
    destruct (master dt t) as [m|]; [apply ms_image_eqb_eq in Hm; subst m|discriminate] end.
  match goal with Hr : match read _ _ _ _ with _ => _ end = true |- _ =>
    destruct (read _ _ re rl) as [v|] eqn:Er; [apply ms_rnode_eqb_eq in Hr; subst v|discriminate] end.
  repeat split; try assumption; try lia.
Qed.

Lemma bad_master_cases_nil cs : forall k, bad_master_cases k cs = [] ->
  Forall (fun c => ms_case_ok c = true) cs.
Proof.
  induction cs as [|c cs IH]; intros k H; [constructor|]. cbn [bad_master_cases] in H.
  destruct (ms_case_ok c) eqn:E; [|discriminate]. constructor; [exact E|exact (IH _ H)].
Qed.

Print Assumptions ms_case_ok_spec.
