(* C09 -- MasterJoliet: the Joliet directory area and path tables of an ISO9660+Joliet image, written
   (MasterJoliet.master_joliet, the model of _write_directory_records(joliet_vd) after
   _reshuffle_extents) and read back by an independent reader that starts from the SVD root pointer and
   decodes identifiers as UTF-16BE (MasterJoliet.read_joliet), for EVERY well-formed state of
   Model/AccountNs.v (mj_wf: any pair of trees sharing inodes, no bound on sizes), hence for every state
   reached by an accepted history (joliet_reachable_wf).

   Main results (closed under the global context, see the end of the file)
     joliet_read_master        the reader recovers exactly the Joliet tree: Unicode names, kinds, lengths
     joliet_read_master_frame  ... from any medium that holds the Joliet directory extents among others
     joliet_read_shape         what it recovers is a function of the Joliet tree and the file lengths only
     joliet_name_given         an identifier stored as utf16be(u) is read back as u
     joliet_iso_read_master    the ISO9660 reader of the same image recovers the ISO9660 tree
     joliet_same_sectors       both records of one inode carry the same extent and length; data of
                               different inodes do not overlap and lie in the data region
     joliet_path_table_consistent   the Joliet L/M tables: sizes and places as the SVD declares, records =
                               the written directories in order (extent, identifier), parents earlier,
                               PathTable's reader rebuilds every directory's name path
     joliet_dirs_disjoint      Joliet directory extents, ISO9660 directory extents, the four path tables
                               and the file data occupy disjoint regions
   Helper files: MasterJolietWf, Dir, Read (one hierarchy), Layout, Walk, Ptable, Image. *)
From Coq Require Import ZArith List Bool Lia ZifyBool.
From PV.Base Require Import Prim ListX.
From PV.Gen Require Import GenConst GenFun.
From PV.Model Require Import Codec Pack PathTable Master MasterJoliet.
From PV.Model Require Alloc Account AccountLinks AccountNs LongNames.
From PV.Proofs Require Import CodecProofs PackProofs PathTableLemmas PathTableProofs.
From PV.Proofs Require AccountLemmas AccountLinksLemmas AccountNsInv AccountNsProofs LongNamesProofs.
From PV.Proofs Require Import MasterPack MasterImage MasterBfs MasterWf.
From PV.Proofs Require Import MasterJolietWf MasterJolietDir MasterJolietRead MasterJolietLayout
     MasterJolietWalk MasterJolietPtable MasterJolietImage.
Import ListNotations.
Local Open Scope Z_scope.
Ltac Zify.zify_post_hook ::= Z.to_euclidean_division_equations.

Notation njol := AccountNs.njol.
Notation niso := AccountNs.niso.

(* ---- THEOREM 1: the Joliet reader ------------------------------------------------------------------------ *)

Theorem joliet_read_master_frame dt s dirs img' : length dt = 7%nat -> mj_wf s = true ->
  mj_kid_names_ok (njol s) = true ->
  master_joliet_dirs dt s = Some dirs -> ms_img_ok img' -> incl dirs img' ->
  read_joliet (mj_height (njol s)) img' (nth 4 (mj_svd s) 0) (nth 5 (mj_svd s) 0) = Some (mj_uview s).
Proof.
  intros Hdt Hwf Hnm Hd Hiok Hincl. rewrite (mj_jdirs_some s Hwf dt Hdt) in Hd. injection Hd as <-.
  destruct (mj_j_hyps s Hwf) as (H1 & H2 & H3 & H4).
  destruct (mj_read_area dt Hdt s (njol s) (mj_jdir_start s) H1 H2 H3 H4 (mj_fext_range s Hwf)
              (mj_len_range32 s Hwf) img' Hiok Hincl) as [_ Hr].
  unfold read_joliet, mj_svd. cbn [nth]. rewrite Hr. apply (mj_decode_root_view s H1 Hnm).
Qed.

Theorem joliet_read_master dt s : length dt = 7%nat -> mj_wf s = true ->
  mj_kid_names_ok (njol s) = true -> Z.of_nat (length (mj_dir_positions (njol s))) <= 65535 ->
  exists img, master_joliet dt s = Some img /\
    read_joliet (mj_height (njol s)) img (nth 4 (mj_svd s) 0) (nth 5 (mj_svd s) 0) = Some (mj_uview s).
Proof.
  intros Hdt Hwf Hnm Hnd.
  destruct (mj_master_joliet_some s Hwf dt Hdt Hnd) as (L & M & lc & mc & _ & _ & _ & _ & Himg).
  eexists. split; [exact Himg|].
  destruct (mj_joliet_img_ok s Hwf dt Hdt Hnd _ Himg) as [Hok Hincl].
  apply (joliet_read_master_frame dt s (mj_jdirs s dt) _ Hdt Hwf Hnm (mj_jdirs_some s Hwf dt Hdt) Hok Hincl).
Qed.

(* what the reader recovers is determined by the Joliet tree and the file lengths: no extent, nothing
   of the ISO9660 tree *)
Fixpoint mj_tree_shape (tbl : itable) (n : lnode) : shape :=
  match n with
  | LFile nm i _ => SFile (mj_uname nm) (AccountLinks.len_of i tbl)
  | LDir nm _ kids => SDir (mj_uname nm) (map (mj_tree_shape tbl) kids)
  end.
Definition mj_root_shape (tbl : itable) (t : lnode) : shape :=
  SDir [] (map (mj_tree_shape tbl) (lkids t)).

Lemma mj_shape_view s DB : forall n p,
  mj_shape (mj_uview_node (mj_view s DB p n)) = mj_tree_shape (AccountNs.nall s) n.
Proof.
  apply (AccountLinksLemmas.lnode_ind' (fun n => forall p,
           mj_shape (mj_uview_node (mj_view s DB p n)) = mj_tree_shape (AccountNs.nall s) n)).
  - intros nm i st p. reflexivity.
  - intros nm dl kids IH p. rewrite mj_view_dir. cbn [mj_uview_node mj_shape mj_tree_shape]. f_equal.
    rewrite map_map. generalize 0%nat. induction IH as [|c r Hc _ IHr]; intros j; [reflexivity|].
    cbn [mj_view_kids map]. rewrite Hc, IHr. reflexivity.
Qed.

Theorem joliet_read_shape s : mj_root_ok (njol s) = true ->
  mj_shape (mj_uview s) = mj_root_shape (AccountNs.nall s) (njol s).
Proof.
  intros Hr. unfold mj_uview, mj_jview, mj_root_shape. generalize (mj_jdir_start s). intros st0.
  destruct (njol s) as [nm i st|nm dl kids]; [discriminate|].
  generalize (bfs st0 (mj_dtree (LDir nm dl kids))). intros DB. rewrite mj_view_dir.
  cbn [mj_shape AccountLinks.lkids]. f_equal. rewrite map_map. clear Hr. generalize 0%nat.
  induction kids as [|c r IHr]; intros j; [reflexivity|].
  cbn [mj_view_kids map]. rewrite mj_shape_view, IHr. reflexivity.
Qed.

(* the library stores name.decode('utf-8').encode('utf-16_be'): such an identifier is read back as the
   string itself *)
Theorem joliet_name_given u : Forall LongNames.scalar u -> mj_uname (LongNames.utf16be_enc u) = u.
Proof. intros H. unfold mj_uname. rewrite (LongNamesProofs.utf16_roundtrip u H). reflexivity. Qed.

(* ---- the ISO9660 reader of the same image ----------------------------------------------------------------- *)

Theorem joliet_iso_read_master dt s : length dt = 7%nat -> mj_wf s = true ->
  exists idirs, master_joliet_iso dt s = Some idirs /\
    read (mj_height (niso s)) idirs (fst (mj_pvd_root s)) (snd (mj_pvd_root s)) = Some (mj_iview s).
Proof.
  intros Hdt Hwf. exists (mj_idirs s dt). split; [apply (mj_idirs_some s Hwf dt Hdt)|].
  destruct (mj_i_hyps s Hwf) as (H1 & H2 & H3 & H4).
  exact (proj2 (mj_read_area dt Hdt s (niso s) (mj_idir_start s) H1 H2 H3 H4 (mj_fext_range s Hwf)
                  (mj_len_range32 s Hwf) _ (mj_idirs_ok s Hwf dt Hdt) (incl_refl _))).
Qed.

(* ---- THEOREM 2: same sectors ------------------------------------------------------------------------------ *)

Fixpoint mj_rnode_at (v : rnode) (p : list nat) : option rnode :=
  match p with
  | [] => Some v
  | i :: q => match v with
              | RDir _ _ _ ks => match nth_error ks i with Some c => mj_rnode_at c q | None => None end
              | RFile _ _ _ => None
              end
  end.

Lemma mj_view_kids_nth s DB q kids : forall j i,
  nth_error (mj_view_kids s DB q j kids) i = option_map (mj_view s DB (q ++ [(j + i)%nat])) (nth_error kids i).
Proof.
  induction kids as [|c r IH]; intros j i; [destruct i; reflexivity|].
  destruct i as [|i]; cbn [mj_view_kids nth_error option_map].
  - rewrite Nat.add_0_r. reflexivity.
  - rewrite IH. replace (S j + i)%nat with (j + S i)%nat by lia. reflexivity.
Qed.

Lemma mj_rnode_at_view s DB : forall p n q,
  mj_rnode_at (mj_view s DB q n) p = option_map (mj_view s DB (q ++ p)) (mj_node_at n p).
Proof.
  induction p as [|i p IH]; intros n q; cbn [mj_rnode_at mj_node_at].
  - rewrite app_nil_r. reflexivity.
  - destruct n as [nm ino st|nm dl kids].
    + cbn [mj_view AccountLinks.lkids]. destruct i; reflexivity.
    + rewrite mj_view_dir. cbn [AccountLinks.lkids]. rewrite mj_view_kids_nth. cbn [Nat.add].
      destruct (nth_error kids i) as [c|]; cbn [option_map]; [|reflexivity].
      rewrite IH, <- app_assoc. reflexivity.
Qed.

Theorem joliet_same_sectors s : mj_wf s = true ->
  (* the two readers' trees (joliet_iso_read_master, joliet_read_master): records of one inode *)
  (forall pi pj ni nj i sti stj,
     mj_node_at (niso s) pi = Some (LFile ni i sti) -> mj_node_at (njol s) pj = Some (LFile nj i stj) ->
     mj_rnode_at (mj_iview s) pi = Some (RFile ni (mj_fext s i) (mj_ino_len s i)) /\
     mj_rnode_at (mj_jview s) pj = Some (RFile nj (mj_fext s i) (mj_ino_len s i))) /\
  (* an inode with data that some record names: its sectors are in the data region ... *)
  (forall i, 0 < AccountNs.nrefcount i (niso s) (njol s) -> mj_ino_len s i <> 0 ->
     mj_data_start s <= mj_fext s i /\ mj_fext s i + ceiling_div (mj_ino_len s i) BS <= mj_end s) /\
  (* ... and shared with no other inode *)
  (forall i j, i <> j ->
     0 < AccountNs.nrefcount i (niso s) (njol s) -> mj_ino_len s i <> 0 ->
     0 < AccountNs.nrefcount j (niso s) (njol s) -> mj_ino_len s j <> 0 ->
     mj_fext s i + ceiling_div (mj_ino_len s i) BS <= mj_fext s j \/
     mj_fext s j + ceiling_div (mj_ino_len s j) BS <= mj_fext s i).
Proof.
  intros Hwf. split; [|split].
  - intros pi pj ni nj i sti stj Hi Hj. unfold mj_iview, mj_jview.
    rewrite !mj_rnode_at_view, Hi, Hj. split; reflexivity.
  - intros i Hr Hl. destruct (mj_ino_inside s Hwf i) as (_ & A & B & _); [apply mj_laid_out_iff; tauto|].
    split; assumption.
  - intros i j Hij Hri Hli Hrj Hlj.
    apply (mj_ino_disjoint s Hwf i j); [apply mj_laid_out_iff; tauto|apply mj_laid_out_iff; tauto|exact Hij].
Qed.

(* ---- THEOREM 3: the path table ------------------------------------------------------------------------------ *)

Theorem joliet_path_table_consistent dt s : length dt = 7%nat -> mj_wf s = true ->
  Z.of_nat (length (mj_dir_positions (njol s))) <= 65535 ->
  exists L M lc mc dirs rs,
    master_joliet dt s = Some (lc :: mc :: dirs) /\
    mj_jptable_le s = Some L /\ mj_jptable_be s = Some M /\
    (* where and how long the SVD says *)
    fst lc = nth 2 (mj_svd s) 0 /\ fst mc = nth 3 (mj_svd s) 0 /\
    zlen L = nth 1 (mj_svd s) 0 /\ zlen M = nth 1 (mj_svd s) 0 /\
    firstn (length L) (snd lc) = L /\ firstn (length M) (snd mc) = M /\
    zlen (snd lc) = AccountNs.jpe s * BS /\ zlen (snd mc) = AccountNs.jpe s * BS /\
    (* its records: the written directories, in the order of their extents *)
    parse_ptable (length L) L = Some rs /\
    map pt_extent rs = map fst dirs /\
    map pt_dirid rs = map (mj_name_at (njol s)) (mj_dir_positions (njol s)) /\
    (forall k r, nth_error rs k = Some r -> 1 <= pt_parent r <= Z.max 1 (Z.of_nat k)) /\
    reader_of_bytes L = Some (map (mj_names_at (njol s)) (mj_dir_positions (njol s))).
Proof.
  intros Hdt Hwf Hnd.
  destruct (mj_master_joliet_some s Hwf dt Hdt Hnd) as (L & M & lc & mc & HL & HM & Hlc & Hmc & Himg).
  destruct (mj_jptables s Hwf dt Hdt Hnd) as (L' & M' & HL' & HM' & SL & SM & Hfit & (rs & Hparse & Htup) & Hrd).
  rewrite HL in HL'. rewrite HM in HM'. injection HL' as <-. injection HM' as <-.
  destruct (mj_wf_parts s Hwf) as (_ & _ & _ & _ & _ & _ & Hpj & _).
  destruct (mj_ptable_chunk_facts _ _ _ _ Hlc Hpj ltac:(lia)) as (Fl & Zl & _ & Pl).
  destruct (mj_ptable_chunk_facts _ _ _ _ Hmc Hpj ltac:(lia)) as (Fm & Zm & _ & Pm).
  destruct (mj_j_hyps s Hwf) as (H1 & H2 & H3 & H4).
  exists L, M, lc, mc, (mj_jdirs s dt), rs. unfold mj_svd. cbn [nth].
  repeat (split; [first [assumption|reflexivity]|]).
  split; [|split; [|split]].
  - transitivity (map d_extent (bfs (mj_jdir_start s) (mj_ptree (njol s)))).
    + apply (f_equal (map (fun x : ptuple => snd (fst (fst x))))) in Htup. rewrite !map_map in Htup. exact Htup.
    + rewrite (mj_pt_extents _ _ H1 H2 H4). unfold mj_jdirs. rewrite map_map. reflexivity.
  - rewrite <- (mj_pt_names _ (mj_jdir_start s) H1 H2 H4).
    apply (f_equal (map (fun x : ptuple => snd x))) in Htup. rewrite !map_map in Htup. exact Htup.
  - intros k r Hk.
    assert (Hpar : map pt_parent rs = map d_parent (bfs (mj_jdir_start s) (mj_ptree (njol s)))).
    { apply (f_equal (map (fun x : ptuple => snd (fst x)))) in Htup. rewrite !map_map in Htup. exact Htup. }
    assert (Hk' : nth_error (map pt_parent rs) k = Some (pt_parent r)) by (rewrite nth_error_map, Hk; reflexivity).
    rewrite Hpar, nth_error_map in Hk'.
    destruct (nth_error (bfs (mj_jdir_start s) (mj_ptree (njol s))) k) as [d|] eqn:Ed; [|discriminate].
    injection Hk' as <-.
    destruct (bfs_numbers (mj_jdir_start s) (mj_ptree (njol s))) as (_ & Hn & (rest & Hhd) & Hp).
    destruct k as [|k].
    + rewrite Hhd in Ed. injection Ed as <-. cbn [d_parent]. lia.
    + destruct (Hp k d Ed) as (p & j & _ & _ & Hr & _). pose proof (Hn _ _ Ed). lia.
  - exact Hrd.
Qed.

(* ---- THEOREM 4: disjoint regions ----------------------------------------------------------------------------- *)

Theorem joliet_dirs_disjoint dt s : length dt = 7%nat -> mj_wf s = true ->
  Z.of_nat (length (mj_dir_positions (njol s))) <= 65535 ->
  exists lc mc jdirs idirs,
    master_joliet dt s = Some (lc :: mc :: jdirs) /\ master_joliet_iso dt s = Some idirs /\
    (* Joliet directory extents: pairwise disjoint, inside [mj_jdir_start, mj_data_start) *)
    (forall a b x y, a <> b -> nth_error jdirs a = Some x -> nth_error jdirs b = Some y -> ms_disjoint x y) /\
    (forall c, In c jdirs -> mj_jdir_start s <= fst c /\ fst c + ms_cblocks c <= mj_data_start s /\
                             0 < ms_cblocks c /\ zlen (snd c) = ms_cblocks c * BS) /\
    (* ISO9660 directory extents: inside [mj_idir_start, mj_jdir_start) *)
    (forall c, In c idirs -> mj_idir_start s <= fst c /\ fst c + ms_cblocks c <= mj_jdir_start s) /\
    (* Joliet path tables: [mj_jptl, mj_jptm) and [mj_jptm, mj_idir_start); the ISO9660 ones before them *)
    fst lc = mj_jptl s /\ ms_cblocks lc = AccountNs.jpe s /\ mj_jptl s + AccountNs.jpe s = mj_jptm s /\
    fst mc = mj_jptm s /\ ms_cblocks mc = AccountNs.jpe s /\ mj_jptm s + AccountNs.jpe s = mj_idir_start s /\
    mj_iptl + AccountNs.ipe s = mj_iptm s /\ mj_iptm s + AccountNs.ipe s = mj_jptl s /\
    (* file data: inside [mj_data_start, mj_end) *)
    (forall i, In i (AccountNs.nlaid_out s) ->
       mj_data_start s <= mj_fext s i /\ mj_fext s i + ceiling_div (mj_ino_len s i) BS <= mj_end s) /\
    (* the regions follow each other *)
    20 = mj_iptl /\ mj_iptl <= mj_iptm s <= mj_jptl s /\ mj_jptl s <= mj_jptm s <= mj_idir_start s /\
    mj_idir_start s <= mj_jdir_start s <= mj_data_start s /\ mj_data_start s <= mj_end s <= 4294967296.
Proof.
  intros Hdt Hwf Hnd.
  destruct (mj_master_joliet_some s Hwf dt Hdt Hnd) as (L & M & lc & mc & HL & HM & Hlc & Hmc & Himg).
  destruct (mj_jptables s Hwf dt Hdt Hnd) as (L' & M' & HL' & HM' & SL & SM & Hfit & _).
  rewrite HL in HL'. rewrite HM in HM'. injection HL' as <-. injection HM' as <-.
  destruct (mj_wf_parts s Hwf) as (_ & _ & _ & _ & _ & _ & Hpj & _).
  destruct (mj_ptable_chunk_facts _ _ _ _ Hlc Hpj ltac:(lia)) as (Fl & _ & Cl & _).
  destruct (mj_ptable_chunk_facts _ _ _ _ Hmc Hpj ltac:(lia)) as (Fm & _ & Cm & _).
  pose proof (mj_regions s Hwf) as R.
  exists lc, mc, (mj_jdirs s dt), (mj_idirs s dt).
  split; [exact Himg|]. split; [apply (mj_idirs_some s Hwf dt Hdt)|]. split.
  { intros a b x y Hab Hx Hy. destruct (mj_jdirs_ok s Hwf dt Hdt x y (nth_error_In _ _ Hx) (nth_error_In _ _ Hy))
      as [E|D]; [|exact D]. exfalso. subst y. unfold mj_jdirs in Hx, Hy. rewrite nth_error_map in Hx, Hy.
    destruct (nth_error (mj_dir_positions (njol s)) a) as [p1|] eqn:E1; [|discriminate].
    destruct (nth_error (mj_dir_positions (njol s)) b) as [p2|] eqn:E2; [|discriminate].
    injection Hx as Hx. injection Hy as Hy.
    destruct (mj_j_hyps s Hwf) as (H1 & H2 & H3 & H4).
    assert (Hnd' : NoDup (mj_dir_positions (njol s))).
    { apply (mj_positions_nodup dt Hdt s (njol s) (mj_jdir_start s) H1 H2 H3 H4 (mj_fext_range s Hwf) (mj_len_range32 s Hwf)). }
    assert (Hp : p1 <> p2).
    { intros ->. apply Hab. rewrite NoDup_nth_error in Hnd'. apply Hnd'; [apply nth_error_Some; congruence|congruence]. }
    assert (D1 : mj_is_dir_at (njol s) p1 = true).
    { apply (mj_positions_dir dt Hdt s (njol s) (mj_jdir_start s) H1 H2 H3 H4 (mj_fext_range s Hwf) (mj_len_range32 s Hwf)).
      eapply nth_error_In. exact E1. }
    assert (D2 : mj_is_dir_at (njol s) p2 = true).
    { apply (mj_positions_dir dt Hdt s (njol s) (mj_jdir_start s) H1 H2 H3 H4 (mj_fext_range s Hwf) (mj_len_range32 s Hwf)).
      eapply nth_error_In. exact E2. }
    pose proof (mj_chunks_disjoint dt Hdt s (njol s) (mj_jdir_start s) H1 H2 H3 H4 (mj_fext_range s Hwf)
                  (mj_len_range32 s Hwf) p1 p2 D1 D2 Hp) as D.
    fold (mj_JDB s) in D. rewrite Hx, Hy in D.
    destruct (mj_jdirs_inside s Hwf dt Hdt x) as (_ & _ & Hpos & _).
    { unfold mj_jdirs. rewrite <- Hx. apply in_map. eapply nth_error_In. exact E1. }
    unfold ms_disjoint in D. lia. }
  split; [apply (mj_jdirs_inside s Hwf dt Hdt)|].
  split; [intros c Hc; destruct (mj_idirs_inside s Hwf dt Hdt c Hc) as (A & B & _); split; assumption|].
  unfold mj_idir_start, mj_jptm, mj_jptl, mj_iptm in *.
  repeat (split; [first [assumption|reflexivity|lia]|]).
  split.
  { intros i Hi. destruct (mj_ino_inside s Hwf i Hi) as (_ & A & B & _). split; assumption. }
  lia.
Qed.

(* ---- '.' and '..' ------------------------------------------------------------------------------------------------- *)

(* the records scanned from the extent of the Joliet directory at p (joliet_sorted) start with '.' = that
   very extent and '..' = the extent of the directory above (the root itself for the root) *)
Theorem joliet_dot_dotdot dt s : length dt = 7%nat -> mj_wf s = true ->
  forall p, mj_is_dir_at (njol s) p = true ->
  exists r1 r2 rest,
    mj_dir_recs dt s (njol s) (mj_JDB s) p = r1 :: r2 :: rest /\
    Codec.ident r1 = [0] /\ flags r1 = 2 /\
    extent r1 = ms_ext_at (mj_JDB s) p /\ data_len r1 = mj_dlen_at (njol s) p /\
    Codec.ident r2 = [1] /\ flags r2 = 2 /\
    mj_is_dir_at (njol s) (removelast p) = true /\
    extent r2 = ms_ext_at (mj_JDB s) (removelast p) /\ data_len r2 = mj_dlen_at (njol s) (removelast p).
Proof.
  intros Hdt Hwf p Hp. destruct (mj_j_hyps s Hwf) as (H1 & H2 & H3 & H4).
  exact (mj_area_dot_dotdot dt Hdt s (njol s) (mj_jdir_start s) H1 H2 H3 H4 (mj_fext_range s Hwf)
           (mj_len_range32 s Hwf) p Hp).
Qed.

(* ---- every state reached by an accepted history ---------------------------------------------------------------- *)

Theorem joliet_reachable_wf ops : AccountNs.clean ops = true ->
  AccountNs.nlayout_end (AccountNs.nrun ops) <= 4294967296 ->
  mj_dl_ok (niso (AccountNs.nrun ops)) = true -> mj_dl_ok (njol (AccountNs.nrun ops)) = true ->
  mj_wf (AccountNs.nrun ops) = true.
Proof.
  intros Hc He Hi Hj. apply (mj_wf_of_ninv (length ops)); try assumption.
  apply AccountNsProofs.nrun_inv. exact Hc.
Qed.

Print Assumptions joliet_read_master.
Print Assumptions joliet_read_master_frame.
Print Assumptions joliet_read_shape.
Print Assumptions joliet_name_given.
Print Assumptions joliet_iso_read_master.
Print Assumptions joliet_same_sectors.
Print Assumptions joliet_path_table_consistent.
Print Assumptions joliet_dirs_disjoint.
Print Assumptions joliet_dot_dotdot.
Print Assumptions joliet_reachable_wf.
