(* Proofs/RelocInv.v -- the invariant of Model/RelocCore.v and its preservation by every
   operation (accepted, refused or out of model):
     names unique in every directory, every name admissible, PX link counts of every directory
     record and '.' record = 2 + number of logical sub-directories, the names used inside RR_MOVED
     pairwise different, root counts = 2 + sub-directories (+1 while RR_MOVED exists),
     RR_MOVED counts = 2 + number of relocated directories, RR_MOVED absent => nothing relocated. *)
From Coq Require Import ZArith List Bool Lia Permutation.
From PV.Model Require Import RelocCore RelocView.
From PV.Proofs Require Import RelocBase RelocPath.
Import ListNotations.
Local Open Scope Z_scope.

Inductive rl_ok : node -> Prop :=
| rl_ok_dir i r e d m ks :
    name_ok i = true -> e = 2 + ndirs ks -> d = e -> NoDup (map niso ks) -> Forall rl_ok ks ->
    rl_ok (Dir i r e d m ks)
| rl_ok_leaf sy i r : name_ok i = true -> rl_ok (Leaf sy i r).

Record rl_inv (s : state) : Prop := mk_rl_inv {
  rl_inv_kids : Forall rl_ok (s_kids s);
  rl_inv_names : NoDup (map niso (s_kids s));
  rl_inv_mn : NoDup (mnames (s_kids s));
  rl_inv_dot : s_dot s = 2 + ndirs (s_kids s) + b2z (moved_live s);
  rl_inv_dotdot : s_dotdot s = s_dot s;
  rl_inv_moved : match s_moved s with
                 | Some (e, d) => e = 2 + Z.of_nat (length (mnames (s_kids s))) /\ d = e
                 | None => mnames (s_kids s) = []
                 end }.

Lemma rl_inv_init : rl_inv init.
Proof. constructor; cbn; try constructor; reflexivity. Qed.

(* ---- fresh names --------------------------------------------------------------------------- *)
Lemma rl_mem_false c l : mem c l = false <-> ~ In c l.
Proof.
  induction l as [|h l IH]; cbn [mem In]; [tauto|].
  rewrite orb_false_iff, IH, rl_neqb_neq. tauto.
Qed.

Lemma rl_fresh_not_in f : forall base cand idx used c,
  fresh f base cand idx used = Some c -> ~ In c used.
Proof.
  induction f as [|f IH]; intros base cand idx used c; cbn [fresh];
    destruct (mem cand used) eqn:M; intros H; try discriminate.
  - injection H as <-. apply rl_mem_false. exact M.
  - eapply IH. exact H.
  - injection H as <-. apply rl_mem_false. exact M.
Qed.

(* ---- updates preserve well-formed children lists ------------------------------------------- *)
Lemma rl_upd_ok g p ks ks' t t' : rl_upd g p ks ks' t t' -> Forall rl_ok ks ->
  (rl_ok t -> rl_ok t' /\ rl_sim t t') -> Forall rl_ok ks' /\ Forall2 rl_sim ks ks'.
Proof.
  induction 1 as [c a k b k' Ha Hk G|c p a i r e d m sub sub' b t t' Ha Hi Hp U IH]; intros F T.
  - apply Forall_app in F. destruct F as [Fa F]. inversion F as [|? ? Fk Fb]; subst.
    destruct (T Fk) as [Ok S]. split.
    + apply Forall_app. split; [exact Fa|]. constructor; assumption.
    + apply Forall2_app; [apply rl_sim_list_refl|]. constructor; [exact S|apply rl_sim_list_refl].
  - apply Forall_app in F. destruct F as [Fa F]. inversion F as [|? ? Fk Fb]; subst.
    inversion Fk as [? ? ? ? ? ? Hn He Hd Hnd Fs|]; subst.
    destruct (IH Fs T) as [Fs' S]. split.
    + apply Forall_app. split; [exact Fa|]. constructor; [|exact Fb].
      constructor; try assumption; try reflexivity.
      * rewrite (rl_sim_ndirs _ _ S). reflexivity.
      * rewrite (rl_sim_names _ _ S). exact Hnd.
    + apply Forall2_app; [apply rl_sim_list_refl|].
      constructor; [split; reflexivity|apply rl_sim_list_refl].
Qed.

Lemma rl_names_perm a b : Permutation a b -> Permutation (map niso a) (map niso b).
Proof. apply Permutation_map. Qed.

Lemma rl_ins_ok new ks : rl_ok new -> Forall rl_ok ks -> NoDup (map niso ks) ->
  has_name (niso new) ks = false ->
  Forall rl_ok (ins new ks) /\ NoDup (map niso (ins new ks)) /\
  ndirs (ins new ks) = b2z (is_dir new) + ndirs ks.
Proof.
  intros On F N H. pose proof (rl_ins_perm new ks) as P. split; [|split].
  - eapply Permutation_Forall; [apply Permutation_sym, P|]. constructor; assumption.
  - eapply Permutation_NoDup; [apply Permutation_sym, rl_names_perm, P|]. cbn [map].
    constructor; [apply rl_has_name_false; exact H|exact N].
  - rewrite (rl_ndirs_perm _ _ P). reflexivity.
Qed.

Lemma rl_del_ok c ks k : find_kid c ks = Some k -> Forall rl_ok ks -> NoDup (map niso ks) ->
  Forall rl_ok (del_kid c ks) /\ NoDup (map niso (del_kid c ks)) /\
  ndirs ks = b2z (is_dir k) + ndirs (del_kid c ks).
Proof.
  intros H F N. pose proof (rl_del_kid_perm _ _ _ H) as P. split; [|split].
  - pose proof (Permutation_Forall P F) as F'. inversion F'; assumption.
  - pose proof (Permutation_NoDup (rl_names_perm _ _ P) N) as N'. inversion N'; assumption.
  - rewrite (rl_ndirs_perm _ _ P). reflexivity.
Qed.

Lemma rl_get_one c ks : get [c] ks = find_kid c ks.
Proof. cbn [get]. destruct (find_kid c ks); reflexivity. Qed.

(* ---- add_node ------------------------------------------------------------------------------ *)
Lemma rl_add_node s q new bump s2 : add_node s q new bump = Some s2 ->
  is_dir new = bump -> rl_ok new -> Forall rl_ok (s_kids s) -> NoDup (map niso (s_kids s)) ->
  s_moved s2 = s_moved s /\
  Permutation (mnames (s_kids s2)) (mnames_n new ++ mnames (s_kids s)) /\
  Forall rl_ok (s_kids s2) /\ NoDup (map niso (s_kids s2)) /\
  s_dot s2 - ndirs (s_kids s2) = s_dot s - ndirs (s_kids s) /\
  s_dotdot s2 - s_dot s2 = s_dotdot s - s_dot s.
Proof.
  intros H Hb On F N. destruct q as [|c q]; cbn [add_node] in H.
  - destruct (has_name (niso new) (s_kids s)) eqn:Hn; [discriminate|]. injection H as <-.
    destruct (rl_ins_ok _ _ On F N Hn) as (F' & N' & D). cbn [bump_root set_kids s_kids s_moved s_dot s_dotdot].
    split; [reflexivity|]. split.
    { eapply Permutation_trans; [apply rl_mnames_perm, rl_ins_perm|]. apply Permutation_refl. }
    split; [exact F'|]. split; [exact N'|]. rewrite D, Hb. split; lia.
  - destruct (at_path (c :: q) (add_in new bump) (s_kids s)) as [ks'|] eqn:A; [|discriminate].
    injection H as <-. cbn [set_kids s_kids s_moved s_dot s_dotdot].
    destruct (rl_at_path_upd _ _ _ _ A) as (t & t' & U).
    assert (T : exists i r e d m sub, t = Dir i r e d m sub /\ has_name (niso new) sub = false /\
                  t' = Dir i r (e + b2z bump) (d + b2z bump) m (ins new sub)).
    { clear -U. induction U as [c0 a k b k' Ha Hk G|? ? ? ? ? ? ? ? ? ? ? ? ? ? ? ? ? IH]; [|exact IH].
      destruct k as [i r e d m sub|]; cbn [add_in] in G; [|discriminate].
      destruct (has_name (niso new) sub) eqn:Hn; [discriminate|]. injection G as <-.
      exists i, r, e, d, m, sub. repeat split. exact Hn. }
    destruct T as (i & r & e & d & m & sub & -> & Hn & ->).
    assert (T : rl_ok (Dir i r e d m sub) ->
                rl_ok (Dir i r (e + b2z bump) (d + b2z bump) m (ins new sub)) /\
                rl_sim (Dir i r e d m sub) (Dir i r (e + b2z bump) (d + b2z bump) m (ins new sub))).
    { intros Ok. inversion Ok as [? ? ? ? ? ? Hi He Hd Hnd Fs|]; subst.
      destruct (rl_ins_ok _ _ On Fs Hnd Hn) as (F' & N' & D). split; [|split; reflexivity].
      apply rl_ok_dir; [assumption|rewrite D; lia|lia|assumption|assumption]. }
    destruct (rl_upd_ok _ _ _ _ _ _ U F T) as [F' S]. split; [reflexivity|]. split.
    { apply (rl_upd_mnames_add _ _ _ _ _ _ (mnames_n new) U). cbn [mnames_n]. fold (mnames sub).
      fold (mnames (ins new sub)).
      set (mo := match m with Some x => [x] | None => [] end).
      eapply Permutation_trans; [apply Permutation_app_head, rl_mnames_perm, rl_ins_perm|].
      rewrite rl_mnames_cons, !app_assoc. apply Permutation_app_tail, Permutation_app_comm. }
    split; [exact F'|]. split; [rewrite (rl_sim_names _ _ S); exact N|].
    rewrite (rl_sim_ndirs _ _ S). split; lia.
Qed.

(* ---- del_node ------------------------------------------------------------------------------ *)
Lemma rl_del_node s q c bump s2 k : del_node s q c bump = Some s2 ->
  get (q ++ [c]) (s_kids s) = Some k -> is_dir k = bump ->
  Forall rl_ok (s_kids s) -> NoDup (map niso (s_kids s)) ->
  s_moved s2 = s_moved s /\
  Permutation (mnames (s_kids s)) (mnames_n k ++ mnames (s_kids s2)) /\
  Forall rl_ok (s_kids s2) /\ NoDup (map niso (s_kids s2)) /\
  s_dot s2 - ndirs (s_kids s2) = s_dot s - ndirs (s_kids s) /\
  s_dotdot s2 - s_dot s2 = s_dotdot s - s_dot s.
Proof.
  intros H G Hb F N. destruct q as [|c1 q]; cbn [del_node] in H.
  - injection H as <-. cbn [app] in G. rewrite rl_get_one in G.
    destruct (rl_del_ok _ _ _ G F N) as (F' & N' & D).
    cbn [bump_root set_kids s_kids s_moved s_dot s_dotdot]. split; [reflexivity|]. split.
    { eapply Permutation_trans; [apply rl_mnames_perm, (rl_del_kid_perm _ _ _ G)|].
      apply Permutation_refl. }
    split; [exact F'|]. split; [exact N'|]. rewrite D, Hb. split; lia.
  - destruct (at_path (c1 :: q) (del_in c bump) (s_kids s)) as [ks'|] eqn:A; [|discriminate].
    injection H as <-. cbn [set_kids s_kids s_moved s_dot s_dotdot].
    destruct (rl_at_path_upd _ _ _ _ A) as (t & t' & U).
    destruct (rl_upd_get _ _ _ _ _ _ _ _ U G) as (i & r & e & d & m & sub & -> & Hf).
    assert (T' : t' = Dir i r (e - b2z bump) (d - b2z bump) m (del_kid c sub)).
    { clear -U. remember (Dir i r e d m sub) as t eqn:Et.
      induction U as [? a k0 b k' Ha Hk G0|? ? ? ? ? ? ? ? ? ? ? ? ? ? ? ? ? IH]; [|exact (IH Et)].
      subst k0. cbn [del_in] in G0. injection G0 as <-. reflexivity. }
    subst t'.
    assert (T : rl_ok (Dir i r e d m sub) ->
                rl_ok (Dir i r (e - b2z bump) (d - b2z bump) m (del_kid c sub)) /\
                rl_sim (Dir i r e d m sub) (Dir i r (e - b2z bump) (d - b2z bump) m (del_kid c sub))).
    { intros Ok. inversion Ok as [? ? ? ? ? ? Hi He Hd Hnd Fs|]; subst.
      destruct (rl_del_ok _ _ _ Hf Fs Hnd) as (F' & N' & D). split; [|split; reflexivity].
      apply rl_ok_dir; [assumption|lia|lia|assumption|assumption]. }
    destruct (rl_upd_ok _ _ _ _ _ _ U F T) as [F' S]. split; [reflexivity|]. split.
    { apply (rl_upd_mnames_del _ _ _ _ _ _ (mnames_n k) U). cbn [mnames_n]. fold (mnames sub).
      fold (mnames (del_kid c sub)).
      set (mo := match m with Some x => [x] | None => [] end).
      eapply Permutation_trans;
        [apply Permutation_app_head, rl_mnames_perm, (rl_del_kid_perm _ _ _ Hf)|].
      rewrite rl_mnames_cons, !app_assoc. apply Permutation_app_tail, Permutation_app_comm. }
    split; [exact F'|]. split; [rewrite (rl_sim_names _ _ S); exact N|].
    rewrite (rl_sim_ndirs _ _ S). split; lia.
Qed.

(* ---- the operations ------------------------------------------------------------------------ *)
Lemma rl_path_ok_last p q c : split_last p = Some (q, c) -> path_ok p = true -> name_ok c = true.
Proof.
  intros H Hp. apply rl_split_last_app in H. subst p. unfold path_ok in Hp.
  rewrite forallb_app in Hp. apply andb_prop in Hp. destruct Hp as [_ Hp]. cbn in Hp.
  rewrite andb_true_r in Hp. exact Hp.
Qed.

Lemma rl_new_dir_ok i r m : name_ok i = true -> rl_ok (new_dir i r m).
Proof. intros H. constructor; try assumption; try reflexivity; constructor. Qed.

Lemma rl_add_dir_inv s p rr : rl_inv s -> path_ok p = true -> rl_inv (fst (add_dir s p rr)).
Proof.
  intros I Hp. unfold add_dir. destruct (split_last p) as [[q nm]|] eqn:Sp; [|exact I].
  pose proof (rl_path_ok_last _ _ _ Sp Hp) as Hnm. pose proof I as I0.
  destruct I as [Ik Inn Im Id Idd Imv].
  destruct (relocates p).
  - destruct (fresh_name nm (mnames (s_kids s))) as [mn|] eqn:Fr; [|exact I0].
    apply rl_fresh_not_in in Fr. unfold ensure_moved, moved_live in *.
    destruct (s_moved s) as [[e d]|] eqn:Ms.
    + destruct (add_node s q (new_dir nm rr (Some mn)) true) as [s2|] eqn:A; [|exact I0].
      destruct (rl_add_node _ _ _ _ _ A eq_refl (rl_new_dir_ok nm rr (Some mn) Hnm) Ik Inn)
        as (Mv & P & F' & N' & D & DD).
      cbn [mnames_n new_dir flat_map app] in P.
      assert (L : length (mnames (s_kids s2)) = S (length (mnames (s_kids s))))
        by (rewrite (Permutation_length P); reflexivity).
      cbn [fst]. unfold bump_moved. rewrite Mv, Ms. destruct Imv as [He Hd].
      constructor; unfold moved_live; cbn [s_kids s_dot s_dotdot s_moved set_moved b2z] in *;
        try assumption.
      * eapply Permutation_NoDup; [apply Permutation_sym, P|]. constructor; assumption.
      * lia.
      * lia.
      * rewrite L. split; lia.
    + destruct (add_node (set_moved (bump_root s 1) (Some (px_new + 1, px_new + 1))) q
                         (new_dir nm rr (Some mn)) true) as [s2|] eqn:A; [|exact I0].
      destruct (rl_add_node _ _ _ _ _ A eq_refl (rl_new_dir_ok nm rr (Some mn) Hnm) Ik Inn)
        as (Mv & P & F' & N' & D & DD).
      cbn [mnames_n new_dir flat_map app set_moved bump_root s_kids s_dot s_dotdot s_moved] in *.
      assert (L : length (mnames (s_kids s2)) = S (length (mnames (s_kids s))))
        by (rewrite (Permutation_length P); reflexivity).
      cbn [fst]. unfold bump_moved. rewrite Mv.
      constructor; unfold moved_live; cbn [s_kids s_dot s_dotdot s_moved set_moved b2z] in *;
        try assumption.
      * eapply Permutation_NoDup; [apply Permutation_sym, P|]. constructor; assumption.
      * lia.
      * lia.
      * rewrite L, Imv. cbn. unfold px_new. split; reflexivity.
  - destruct (add_node s q (new_dir nm rr None) true) as [s2|] eqn:A; [|exact I0].
    destruct (rl_add_node _ _ _ _ _ A eq_refl (rl_new_dir_ok nm rr None Hnm) Ik Inn)
      as (Mv & P & F' & N' & D & DD).
    cbn [mnames_n new_dir flat_map app] in P. cbn [fst].
    constructor; try assumption.
    + eapply Permutation_NoDup; [apply Permutation_sym, P|]. exact Im.
    + unfold moved_live in *. rewrite Mv. lia.
    + lia.
    + rewrite Mv. rewrite (Permutation_length P).
      destruct (s_moved s) as [[e d]|]; [exact Imv|].
      apply Permutation_nil. rewrite <- Imv. apply Permutation_sym. exact P.
Qed.

Lemma rl_add_leaf_inv s sy p rr : rl_inv s -> path_ok p = true -> rl_inv (fst (add_leaf s sy p rr)).
Proof.
  intros I Hp. unfold add_leaf. destruct (split_last p) as [[q nm]|] eqn:Sp; [|exact I].
  pose proof (rl_path_ok_last _ _ _ Sp Hp) as Hnm. destruct I as [Ik Inn Im Id Idd Imv].
  destruct (add_node s q (Leaf sy nm rr) false) as [s2|] eqn:A; [|constructor; assumption].
  destruct (rl_add_node _ _ _ _ _ A eq_refl (rl_ok_leaf sy nm rr Hnm) Ik Inn)
    as (Mv & P & F' & N' & D & DD).
  cbn [mnames_n app] in P. cbn [fst]. constructor; try assumption.
  - eapply Permutation_NoDup; [apply Permutation_sym, P|]. exact Im.
  - unfold moved_live in *. rewrite Mv. lia.
  - lia.
  - rewrite Mv. rewrite (Permutation_length P).
    destruct (s_moved s) as [[e d]|]; [exact Imv|].
    apply Permutation_nil. rewrite <- Imv. apply Permutation_sym. exact P.
Qed.

Lemma rl_rm_leaf_inv s p : rl_inv s -> rl_inv (fst (rm_leaf s p)).
Proof.
  intros I. unfold rm_leaf. destruct (split_last p) as [[q nm]|] eqn:Sp; [|exact I].
  destruct (get p (s_kids s)) as [[|sy i r]|] eqn:G; try exact I.
  destruct (del_node s q nm false) as [s2|] eqn:A; [|exact I].
  destruct I as [Ik Inn Im Id Idd Imv]. rewrite (rl_split_last_app _ _ _ Sp) in G.
  destruct (rl_del_node _ _ _ _ _ _ A G eq_refl Ik Inn) as (Mv & P & F' & N' & D & DD).
  cbn [mnames_n app] in P. cbn [fst]. constructor; try assumption.
  - eapply Permutation_NoDup; [exact P|exact Im].
  - unfold moved_live in *. rewrite Mv. lia.
  - lia.
  - rewrite Mv. rewrite <- (Permutation_length P).
    destruct (s_moved s) as [[e d]|]; [exact Imv|].
    apply Permutation_nil. rewrite <- Imv. exact P.
Qed.

Lemma rl_rm_dir_inv s p : rl_inv s -> rl_inv (fst (rm_dir s p)).
Proof.
  intros I. unfold rm_dir. destruct (split_last p) as [[q nm]|] eqn:Sp; [|exact I].
  destruct (get p (s_kids s)) as [[i r e d m [|k0 ks0]|]|] eqn:G; try exact I.
  rewrite (rl_split_last_app _ _ _ Sp) in G. pose proof I as I0.
  destruct I as [Ik Inn Im Id Idd Imv].
  destruct m as [mn|].
  - (* relocated *)
    unfold drop_moved, moved_live in *.
    destruct (s_moved s) as [[e0 d0]|] eqn:Ms.
    + destruct Imv as [He Hd].
      destruct (Z.of_nat (length (mnames (s_kids s))) =? 1) eqn:E1.
      * destruct (del_node (set_moved (bump_root s (-1)) None) q nm true) as [s2|] eqn:A; [|exact I0].
        destruct (rl_del_node _ _ _ _ _ _ A G eq_refl Ik Inn) as (Mv & P & F' & N' & D & DD).
        cbn [mnames_n flat_map app set_moved bump_root s_kids s_dot s_dotdot s_moved] in *.
        assert (L : length (mnames (s_kids s)) = S (length (mnames (s_kids s2))))
          by (rewrite (Permutation_length P); reflexivity).
        pose proof (Permutation_NoDup P Im) as Nd. inversion Nd as [|? ? _ Nd']; subst.
        cbn [fst]. constructor; unfold moved_live; try rewrite Mv; cbn [b2z] in *; try assumption; try lia.
        destruct (mnames (s_kids s2)); [reflexivity|cbn [length] in L; lia].
      * destruct (del_node (set_moved s (Some (e0 - 1, d0 - 1))) q nm true) as [s2|] eqn:A; [|exact I0].
        destruct (rl_del_node _ _ _ _ _ _ A G eq_refl Ik Inn) as (Mv & P & F' & N' & D & DD).
        cbn [mnames_n flat_map app set_moved bump_root s_kids s_dot s_dotdot s_moved] in *.
        assert (L : length (mnames (s_kids s)) = S (length (mnames (s_kids s2))))
          by (rewrite (Permutation_length P); reflexivity).
        pose proof (Permutation_NoDup P Im) as Nd. inversion Nd as [|? ? _ Nd']; subst.
        cbn [fst]. constructor; unfold moved_live; try rewrite Mv; cbn [b2z] in *; try assumption; try lia.
    + exfalso. destruct (del_node s q nm true) as [s2|] eqn:A.
      * destruct (rl_del_node _ _ _ _ _ _ A G eq_refl Ik Inn) as (_ & P & _).
        cbn [mnames_n flat_map app] in P. rewrite Imv in P. apply Permutation_nil in P. discriminate.
      * destruct q as [|c1 q]; [discriminate|]. cbn [del_node] in A.
        destruct (at_path (c1 :: q) (del_in nm true) (s_kids s)) eqn:A'; [discriminate|].
        (* a relocated directory exists although nothing is relocated *)
        assert (H : forall pth ks0 k, get pth ks0 = Some k -> incl (mnames_n k) (mnames ks0)).
        { induction pth as [|c pth IHp]; intros ks0 k Hg; [discriminate|]. cbn [get] in Hg.
          destruct (find_kid c ks0) as [k1|] eqn:Fk; [|discriminate].
          apply rl_find_kid_some in Fk. destruct Fk as [Fk _].
          assert (Hk1 : incl (mnames_n k1) (mnames ks0)).
          { intros x Hx. unfold mnames. apply in_flat_map. exists k1. split; assumption. }
          destruct pth as [|c2 pth]; [injection Hg as <-; exact Hk1|].
          destruct k1 as [? ? ? ? m1 sub1|]; [|discriminate].
          intros x Hx. apply Hk1. cbn [mnames_n]. apply in_or_app. right.
          exact (IHp _ _ Hg x Hx). }
        specialize (H _ _ _ G mn). rewrite Imv in H. apply H. cbn [mnames_n]. left. reflexivity.
  - destruct (del_node s q nm true) as [s2|] eqn:A; [|exact I0].
    destruct (rl_del_node _ _ _ _ _ _ A G eq_refl Ik Inn) as (Mv & P & F' & N' & D & DD).
    cbn [mnames_n flat_map app] in P. cbn [fst]. constructor; try assumption.
    + eapply Permutation_NoDup; [exact P|exact Im].
    + unfold moved_live in *. rewrite Mv. lia.
    + lia.
    + rewrite Mv. rewrite <- (Permutation_length P).
      destruct (s_moved s) as [[e0 d0]|]; [exact Imv|].
      apply Permutation_nil. rewrite <- Imv. exact P.
Qed.

Theorem rl_step_inv s o : rl_inv s -> rl_inv (fst (step s o)).
Proof.
  intros I. unfold step. destruct (op_ok o) eqn:Ok; cbn [negb]; [|exact I].
  destruct o as [p r|p|sy p r|p|]; cbn [op_ok] in Ok.
  - apply andb_prop in Ok. apply rl_add_dir_inv; tauto.
  - apply rl_rm_dir_inv; assumption.
  - apply andb_prop in Ok. apply rl_add_leaf_inv; tauto.
  - apply rl_rm_leaf_inv; assumption.
  - exact I.
Qed.

Theorem rl_run_inv ops : forall s, rl_inv s -> rl_inv (run s ops).
Proof.
  induction ops as [|o ops IH]; intros s I; cbn [run]; [exact I|]. apply IH, rl_step_inv, I.
Qed.
