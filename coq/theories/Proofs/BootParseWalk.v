(* C11 / C02 -- Model/BootParse.v, part 3: _walk_directories on the written summary of a state of
   AccountBoot finds every inode back by its extent: the walk builds exactly [bp_named_tbl]. *)
From Coq Require Import ZArith List Bool Lia ZifyBool Sorted Arith Permutation.
From PV.Base Require Import Prim.
From PV.Gen Require Import GenConst GenFun.
From PV.Model Require Import Names Checksums Pack Alloc Codec Eltorito Account AccountLinks AccountBoot BootParse.
From PV.Proofs Require Import PackProofs AllocProofs ChecksumsArithProofs AccountLemmas AccountProofs
     AccountLinksLemmas AccountLinksPurge AccountLinksInv EltoritoCatalogProofs EltoritoBuiltProofs
     AccountBootLemmas AccountBootInv AccountBootInv2 AccountBootFix AccountBootProofs BootParseLayout.
Import ListNotations.
Local Open Scope Z_scope.
Ltac Zify.zify_post_hook ::= Z.to_euclidean_division_equations.

(* ---- small facts ------------------------------------------------------------------------------------- *)

Lemma bp_zassoc_app {A} x (l1 l2 : list (Z * A)) :
  zassoc x (l1 ++ l2) = match zassoc x l1 with Some v => Some v | None => zassoc x l2 end.
Proof.
  induction l1 as [|[k v] r IH]; [reflexivity|]. cbn [app zassoc]. destruct (k =? x); [reflexivity|exact IH].
Qed.

Lemma bp_assoc_app i (l1 l2 : list (nat * (Z * Z))) :
  assoc i (l1 ++ l2) = match assoc i l1 with Some v => Some v | None => assoc i l2 end.
Proof.
  induction l1 as [|[k v] r IH]; [reflexivity|]. cbn [app assoc]. destruct (Nat.eqb k i); [reflexivity|exact IH].
Qed.

Lemma bp_has_ino_false i t : has_ino i t = false <-> ~ In i (ids t).
Proof.
  rewrite <- ab_has_ino_in. destruct (has_ino i t); split; intro H;
    [discriminate|exfalso; apply H; reflexivity|intro; discriminate|reflexivity].
Qed.

(* a record met by the walk is counted by lrefcount *)
Lemma bp_visit_ref l nm i st : In (LFile nm i st) (lvisit l) -> 0 < lrefcount i (lroot l).
Proof.
  intros H. unfold lrefcount. rewrite <- (lvisit_sum (lw_ref i) l).
  apply (zsum_pos_iff (fun n => lw_ref i (hdr n))).
  - intros n. rewrite lw_ref_hdr. apply lw_ref_nonneg.
  - exists (LFile nm i st). split; [exact H|]. cbn [hdr]. rewrite lw_ref_file, Nat.eqb_refl. lia.
Qed.

(* the entry of label i in the first half of [view_loc] *)
Lemma bp_assoc_tbl (g : nat * Z -> Z * Z) (P : nat * Z -> bool) i : forall t,
  (forall l, P (i, l) = true) ->
  assoc i (map (fun e => (fst e, g e)) (filter P t)) =
  if has_ino i t then Some (g (i, len_of i t)) else None.
Proof.
  intros t HP. induction t as [|[j l] r IH]; [reflexivity|].
  cbn [filter has_ino len_of]. destruct (Nat.eqb_spec j i) as [->|Hne].
  - rewrite HP. cbn [map assoc fst]. rewrite Nat.eqb_refl. reflexivity.
  - cbn [orb]. destruct (P (j, l)); [cbn [map assoc fst]|]; [destruct (Nat.eqb_spec j i); [contradiction|]|]; exact IH.
Qed.

Lemma bp_assoc_noino i (v : Z * Z) : forall ls, assoc i (map (fun j => (j, v)) ls) = if mem i ls then Some v else None.
Proof.
  induction ls as [|j r IH]; [reflexivity|]. cbn [map assoc]. unfold mem in *. cbn [existsb].
  rewrite (Nat.eqb_sym i j). destruct (Nat.eqb j i); [reflexivity|exact IH].
Qed.

Lemma bp_noino_in tbl nm i st : forall recs, In (LFile nm i st) recs -> has_ino i tbl = false ->
  mem i (noino_labels tbl recs) = true.
Proof.
  intros recs H Hn. apply ab_mem_in. unfold noino_labels. apply in_flat_map.
  exists (LFile nm i st). split; [exact H|]. rewrite Hn. left. reflexivity.
Qed.

(* ---- what the summary says about a record ---------------------------------------------------------- *)

Section View.
  Variable s : bstate.
  Hypothesis HI : BInv s.
  Let l := bl s.
  Let tbl := linodes (bl s).

  Lemma bp_loc_ino nm i st : In (LFile nm i st) (lvisit l) -> has_ino i tbl = true ->
    loc_of i (view_loc s) = ((if len_of i tbl =? 0 then 0 else rba_of s i), len_of i tbl).
  Proof.
    intros Hv Hh. unfold loc_of, view_loc. rewrite bp_assoc_app.
    rewrite (bp_assoc_tbl (fun e => ((if snd e =? 0 then 0 else rba_of s (fst e)), snd e))
                          (fun e => 0 <? lrefcount (fst e) (lroot (bl s))) i (linodes (bl s))).
    - fold tbl. rewrite Hh. reflexivity.
    - intros x. cbn [fst]. pose proof (bp_visit_ref l nm i st Hv). unfold l in *. lia.
  Qed.

  Lemma bp_loc_noino nm i st : In (LFile nm i st) (lvisit l) -> has_ino i tbl = false ->
    loc_of i (view_loc s) = (cat_extent s, C).
  Proof.
    intros Hv Hh. unfold loc_of, view_loc. rewrite bp_assoc_app.
    rewrite (bp_assoc_tbl (fun e => ((if snd e =? 0 then 0 else rba_of s (fst e)), snd e))
                          (fun e => 0 <? lrefcount (fst e) (lroot (bl s))) i (linodes (bl s))).
    - fold tbl. rewrite Hh, bp_assoc_noino. fold l tbl. rewrite (bp_noino_in tbl nm i st _ Hv Hh). reflexivity.
    - intros x. cbn [fst]. pose proof (bp_visit_ref l nm i st Hv). unfold l in *. lia.
  Qed.

  (* extent_to_inode with the extents of the inodes ks: the inode is found back by its extent *)
  Definition bp_e2i (ks : list nat) : list (Z * nat) := map (fun j => (rba_of s j, j)) ks.

  Lemma bp_zassoc_rba i : forall ks, Forall (bp_placed s) ks -> bp_placed s i ->
    zassoc (rba_of s i) (bp_e2i ks) = if mem i ks then Some i else None.
  Proof.
    induction ks as [|j r IH]; intros HF Hi; [reflexivity|]. inversion HF as [|? ? Hj HF']; subst.
    cbn [bp_e2i map zassoc]. unfold mem. cbn [existsb]. fold (mem i r).
    destruct (Z.eqb_spec (rba_of s j) (rba_of s i)) as [E|E].
    - rewrite (bp_rba_inj s j i HI Hj Hi E), Nat.eqb_refl. reflexivity.
    - destruct (Nat.eqb_spec i j) as [->|Hne]; [congruence|]. cbn [orb]. apply IH; assumption.
  Qed.

  Definition bp_srcform (t : itable) : list (nat * (Z * Z)) :=
    map (fun e => (fst e, ((if snd e =? 0 then 0 else rba_of s (fst e)), snd e))) t.

  Definition bp_cat_of : option Z := if has_boot s then Some (cat_extent s) else None.

  (* the walk over a part of the records: [ks] = the inodes in extent_to_inode, [seen] the same as a set *)
  Lemma bp_walk_sim (HC : forall nm i st, In (LFile nm i st) (lvisit l) -> has_ino i tbl = false -> has_boot s = true) :
    forall recs seen ks st,
    (forall n, In n recs -> In n (lvisit l)) ->
    (forall j, mem j seen = mem j ks) -> Forall (bp_placed s) ks ->
    ws_e2i st = bp_e2i ks -> 0 <= ws_last st <= lspace l * C ->
    exists last', 0 <= last' <= lspace l * C /\
      bp_walk (boot_view s) bp_cat_of recs st =
      POk (mk_wstate (ws_tbl st ++ bp_srcform (bp_named_tbl (lnext l) tbl recs seen))
                     (bp_e2i (ks ++ bp_nonempty_ids (bp_named_tbl (lnext l) tbl recs seen)))
                     (ws_cat st ++ noino_labels tbl recs) last').
  Proof.
    induction recs as [|n recs IH]; intros seen ks st Hin Hseen Hks He Hlast.
    - exists (ws_last st). split; [exact Hlast|]. cbn [bp_walk bp_named_tbl bp_srcform map noino_labels flat_map bp_nonempty_ids filter].
      rewrite !app_nil_r, <- He. destruct st; reflexivity.
    - assert (Hin' : forall m, In m recs -> In m (lvisit l)) by (intros m Hm; apply Hin; right; exact Hm).
      pose proof (bp_cat_extent_bounds s HI) as Hce. fold l in Hce.
      destruct n as [nm i stamp|nm dl kids].
      2:{ cbn [bp_walk bp_visit bp_named_tbl noino_labels flat_map app]. apply IH; assumption. }
      assert (Hv : In (LFile nm i stamp) (lvisit l)) by (apply Hin; left; reflexivity).
      cbn [bp_walk bp_visit]. cbn [bp_named_tbl]. fold tbl.
      change (noino_labels tbl (LFile nm i stamp :: recs))
        with ((if has_ino i tbl then [] else [i]) ++ noino_labels tbl recs).
      change (w_loc (boot_view s)) with (view_loc s). change (w_size (boot_view s)) with (lspace l * C).
      change (w_next (boot_view s)) with (lnext l).
      destruct (has_ino i tbl) eqn:Hh.
      + (* a record with an inode *)
        rewrite (bp_loc_ino nm i stamp Hv Hh). cbn [negb].
        destruct (Z.eqb_spec (len_of i tbl) 0) as [E0|E0].
        * (* an empty file *)
          rewrite E0. cbn [Z.eqb negb]. change (0 * C + 0) with 0.
          destruct (0 >? lspace l * C) eqn:Eg; [unfold C in *; lia|].
          assert (Hnc : bp_is_cat bp_cat_of 0 = false).
          { unfold bp_is_cat, bp_cat_of. destruct (has_boot s); [|reflexivity]. lia. }
          rewrite Hnc.
          destruct (IH seen ks (mk_wstate (ws_tbl st ++ [(bp_fresh (lnext l) i stamp, (0, 0))]) (ws_e2i st)
                                          (ws_cat st) (Z.max (ws_last st) 0)) Hin' Hseen Hks He)
            as (last' & Hl' & Hw); [cbn [ws_last]; lia|].
          exists last'. split; [exact Hl'|]. rewrite Hw. cbn [ws_tbl ws_cat ws_e2i bp_srcform map fst snd Z.eqb bp_nonempty_ids filter negb].
          rewrite <- app_assoc. reflexivity.
        * (* a file with data *)
          assert (Hp : bp_placed s i) by (split; [apply ab_has_ino_in, Hh|exact E0]).
          destruct (bp_rba_spec s i HI Hp) as (_ & Hds & Hbp & Hsp). rewrite bp_data_start in Hds.
          assert (Hlen : 0 <= len_of i tbl <= blk_of s i * C).
          { pose proof (bp_len_nonneg s i HI) as Hq. unfold blk_of, ceiling_div, C, tbl in *. lia. }
          destruct (Z.eqb_spec (len_of i tbl) 0) as [|_]; [contradiction|]. cbn [negb].
          destruct (rba_of s i * C + len_of i tbl >? lspace l * C) eqn:Eg; [unfold C, l in *; lia|].
          assert (Hnc : bp_is_cat bp_cat_of (rba_of s i) = false).
          { unfold bp_is_cat, bp_cat_of. destruct (has_boot s); [|reflexivity]. lia. }
          rewrite Hnc, He, (bp_zassoc_rba i ks Hks Hp), <- Hseen.
          destruct (mem i seen) eqn:Hm.
          -- destruct (IH seen ks (mk_wstate (ws_tbl st) (bp_e2i ks) (ws_cat st)
                                            (Z.max (ws_last st) (rba_of s i * C + len_of i tbl))) Hin' Hseen Hks eq_refl)
               as (last' & Hl' & Hw); [cbn [ws_last]; unfold l in *; lia|].
             exists last'. split; [exact Hl'|]. rewrite Hw. reflexivity.
          -- destruct (IH (i :: seen) (ks ++ [i])
                          (mk_wstate (ws_tbl st ++ [(i, (rba_of s i, len_of i tbl))]) (bp_e2i ks ++ [(rba_of s i, i)])
                                     (ws_cat st) (Z.max (ws_last st) (rba_of s i * C + len_of i tbl))) Hin')
               as (last' & Hl' & Hw).
             ++ intros j. pose proof (Hseen j) as Hsj. unfold mem in Hsj |- *. rewrite existsb_app. cbn [existsb].
                rewrite orb_false_r, <- Hsj, (Nat.eqb_sym j i). apply orb_comm.
             ++ apply Forall_app. split; [exact Hks|constructor; [exact Hp|constructor]].
             ++ unfold bp_e2i. rewrite map_app. reflexivity.
             ++ cbn [ws_last]. unfold l in *. lia.
             ++ exists last'. split; [exact Hl'|]. rewrite Hw.
                cbn [ws_tbl ws_cat ws_e2i bp_srcform map fst snd bp_nonempty_ids filter].
                destruct (Z.eqb_spec (len_of i tbl) 0) as [|_]; [contradiction|]. cbn [negb map fst].
                rewrite <- !app_assoc. reflexivity.
      + (* a name of the catalog *)
        assert (Hb : has_boot s = true) by (eapply HC; eassumption).
        rewrite (bp_loc_noino nm i stamp Hv Hh). change (C =? 0) with false. cbn [negb].
        rewrite Hb in Hce.
        destruct (cat_extent s * C + C >? lspace l * C) eqn:Eg; [unfold C, l in *; lia|].
        assert (Hc : bp_is_cat bp_cat_of (cat_extent s) = true).
        { unfold bp_is_cat, bp_cat_of. rewrite Hb. apply Z.eqb_refl. }
        rewrite Hc.
        destruct (IH seen ks (mk_wstate (ws_tbl st) (ws_e2i st) (ws_cat st ++ [i])
                                        (Z.max (ws_last st) (cat_extent s * C + C))) Hin' Hseen Hks He)
          as (last' & Hl' & Hw); [cbn [ws_last]; unfold C, l in *; lia|].
        exists last'. split; [exact Hl'|]. rewrite Hw. cbn [ws_tbl ws_cat ws_e2i]. rewrite <- app_assoc. reflexivity.
  Qed.
End View.
