(* Lemmas for Proofs/AccountNsRefine.v: the entry list [ents] of a directory tree (Model/AccountNs.v
   abs) under the tree mutations, its members as the nodes reachable by path, and byte names. *)
From Coq Require Import ZArith List Bool Lia ZifyBool Sorted Arith Permutation.
From PV.Base Require Import Prim.
From PV.Gen Require Import GenConst GenFun.
From PV.Spec Require FsSpec.
From PV.Model Require Import Names Pack Alloc Account AccountLinks AccountNs.
From PV.Proofs Require Import PackProofs AllocProofs AccountLemmas AccountProofs
     AccountLinksLemmas AccountLinksPurge AccountNsLemmas.
Import ListNotations.
Local Open Scope Z_scope.

(* ---- 1. identifiers as abstract names: injective on byte strings ------------------------------- *)

Definition bytes (nm : ident) : Prop := Forall (fun b => 0 <= b < 256) nm.

Lemma bytes_ident_spec nm : bytes_ident nm = true <-> bytes nm.
Proof.
  unfold bytes_ident, bytes. rewrite forallb_forall, Forall_forall. split; intros H b Hb; specialize (H b Hb); lia.
Qed.

Lemma enc_snoc l b : enc (l ++ [b]) = enc l * 256 + b.
Proof. unfold enc. rewrite fold_left_app. reflexivity. Qed.

Lemma enc_pos l : bytes l -> 1 <= enc l.
Proof.
  induction l as [|b l IH] using rev_ind; intros H; [cbn; lia|].
  rewrite enc_snoc. apply Forall_app in H. destruct H as [H1 H2]. inversion H2; subst.
  specialize (IH H1). lia.
Qed.

Lemma enc_inj : forall a b, bytes a -> bytes b -> enc a = enc b -> a = b.
Proof.
  induction a as [|x a IH] using rev_ind; intros b Ha Hb E.
  - destruct b as [|y b] using rev_ind; [reflexivity|]. exfalso.
    rewrite enc_snoc in E. apply Forall_app in Hb. destruct Hb as [H1 H2]. inversion H2; subst.
    pose proof (enc_pos b H1). cbn in E. lia.
  - destruct b as [|y b _] using rev_ind.
    + exfalso. rewrite enc_snoc in E. apply Forall_app in Ha. destruct Ha as [H1 H2]. inversion H2; subst.
      pose proof (enc_pos a H1). cbn in E. lia.
    + rewrite !enc_snoc in E. apply Forall_app in Ha. destruct Ha as [A1 A2]. inversion A2; subst.
      apply Forall_app in Hb. destruct Hb as [B1 B2]. inversion B2; subst.
      assert (x = y /\ enc a = enc b) as [-> E'] by lia. f_equal. apply IH; assumption.
Qed.

Definition bytesp (p : path) : Prop := Forall bytes p.

Lemma bytes_path_spec p : bytes_path p = true <-> bytesp p.
Proof.
  unfold bytes_path, bytesp. rewrite forallb_forall, Forall_forall.
  split; intros H x Hx; apply bytes_ident_spec, H, Hx.
Qed.

Lemma encp_inj : forall p q, bytesp p -> bytesp q -> encp p = encp q -> p = q.
Proof.
  induction p as [|x p IH]; intros [|y q] Hp Hq E; try discriminate; [reflexivity|].
  inversion Hp; subst. inversion Hq; subst. cbn [encp map] in E. injection E as E1 E2.
  f_equal; [apply enc_inj; assumption|apply IH; assumption].
Qed.

Lemma utf16_bytes nm : bytes nm -> bytes (utf16 nm).
Proof.
  unfold utf16, bytes. induction 1 as [|b r Hb Hr IH]; cbn [flat_map app]; [constructor|].
  constructor; [lia|]. constructor; assumption.
Qed.

Lemma jpath_bytes p : bytesp p -> bytesp (jpath p).
Proof. unfold jpath, bytesp. intros H. apply Forall_map. eapply Forall_impl; [|exact H]. apply utf16_bytes. Qed.

Lemma zlen_utf16 nm : zlen (utf16 nm) = 2 * zlen nm.
Proof.
  unfold utf16. induction nm as [|b r IH]; [reflexivity|]. cbn [flat_map app].
  rewrite !zlen_cons, IH. lia.
Qed.

(* ---- 2. the entry list ------------------------------------------------------------------------- *)

Lemma ents_node_eq pre c :
  ents_node pre c = entry_of (pre ++ [enc (lname c)]) c :: ents (pre ++ [enc (lname c)]) (lkids c).
Proof. destruct c as [nm i st|nm dl kids]; reflexivity. Qed.

Lemma ents_app pre l1 l2 : ents pre (l1 ++ l2) = ents pre l1 ++ ents pre l2.
Proof. apply flat_map_app. Qed.

Lemma ents_cons pre c l : ents pre (c :: l) = ents_node pre c ++ ents pre l.
Proof. reflexivity. Qed.

Lemma ents_insert_at pre k c kids : Permutation (ents pre (insert_at k c kids)) (ents pre kids ++ ents_node pre c).
Proof.
  destruct (insert_at_decomp k c kids) as (l1 & l2 & E & ->). subst kids.
  rewrite !ents_app, ents_cons. rewrite <- app_assoc.
  apply Permutation_app_head. apply Permutation_app_comm.
Qed.

Lemma ents_remove_at pre kids k c : nth_error kids k = Some c ->
  Permutation (ents pre kids) (ents pre (remove_at k kids) ++ ents_node pre c).
Proof.
  intros H. destruct (nth_error_decomp kids k c H) as (l1 & l2 & -> & _ & _ & Hr).
  rewrite Hr, !ents_app, ents_cons, <- app_assoc.
  apply Permutation_app_head. apply Permutation_app_comm.
Qed.

Lemma lsubtree_dir_step x q n old : lsubtree (x :: q) n = Some old ->
  exists nm dl kids k c, n = LDir nm dl kids /\ llookup x kids = Some (k, c) /\ lsubtree q c = Some old.
Proof.
  cbn [lsubtree]. destruct n as [nm i st|nm dl kids]; [discriminate|].
  destruct (llookup x kids) as [[k c]|] eqn:L; [|discriminate].
  intros H. exists nm, dl, kids, k, c. auto.
Qed.

(* the entries after mutating the directory found at path p: as a multiset, those of before with
   the entries below that directory exchanged *)
Lemma ents_replace : forall p n dn dl kids dl' kids' pre,
  lsubtree p n = Some (LDir dn dl kids) ->
  Permutation (ents pre (lkids (lreplace p (LDir dn dl' kids') n)) ++ ents (pre ++ encp p) kids)
              (ents pre (lkids n) ++ ents (pre ++ encp p) kids').
Proof.
  induction p as [|x q IH]; intros n dn dl kids dl' kids' pre H.
  - cbn [lsubtree] in H. injection H as ->. cbn [lreplace lkids encp map]. rewrite app_nil_r.
    apply Permutation_app_comm.
  - destruct (lsubtree_dir_step x q n _ H) as (nm & d & ks & k & c & -> & L & Hc).
    cbn [lreplace]. rewrite L. cbn [lkids].
    apply llookup_spec in L. destruct L as (Hk & Hx & _).
    destruct (nth_error_decomp ks k c Hk) as (l1 & l2 & -> & _ & Hs & _). rewrite Hs.
    rewrite !ents_app, !ents_cons, !ents_node_eq.
    rewrite (lreplace_name q c (LDir dn dl' kids') _ Hc eq_refl), Hx.
    assert (Ek : entry_of (pre ++ [enc x]) (lreplace q (LDir dn dl' kids') c) = entry_of (pre ++ [enc x]) c).
    { unfold entry_of. f_equal.
      pose proof (lreplace_is_dir q c (LDir dn dl' kids') _ Hc eq_refl) as Hd.
      assert (Hcd : l_is_dir c = true).
      { destruct q; [cbn in Hc; injection Hc as ->; reflexivity|].
        destruct c; [discriminate|reflexivity]. }
      rewrite Hcd in Hd. destruct (lreplace q (LDir dn dl' kids') c); [discriminate|].
      destruct c; [discriminate|reflexivity]. }
    rewrite Ek. specialize (IH c dn dl kids dl' kids' (pre ++ [enc x]) Hc).
    replace (pre ++ encp (x :: q)) with ((pre ++ [enc x]) ++ encp q)
      by (cbn [encp map]; rewrite <- app_assoc; reflexivity).
    set (A1 := ents pre l1) in *. set (A2 := ents pre l2) in *.
    set (K' := ents (pre ++ [enc x]) (lkids (lreplace q (LDir dn dl' kids') c))) in *.
    set (K := ents (pre ++ [enc x]) (lkids c)) in *.
    set (X := ents ((pre ++ [enc x]) ++ encp q) kids) in *.
    set (X' := ents ((pre ++ [enc x]) ++ encp q) kids') in *.
    set (e := entry_of (pre ++ [enc x]) c).
    rewrite <- !app_assoc. apply Permutation_app_head. cbn [app]. apply perm_skip.
    transitivity (A2 ++ K' ++ X); [apply Permutation_app_swap_app|].
    transitivity (A2 ++ K ++ X'); [apply Permutation_app_head, IH|].
    apply Permutation_app_swap_app.
Qed.

(* ---- 3. members of the entry list = nodes reachable by a non-empty path ------------------------- *)

Lemma llookup_complete : forall kids c, StronglySorted blt (map lname kids) -> In c kids ->
  exists k, llookup (lname c) kids = Some (k, c).
Proof.
  unfold llookup. induction kids as [|c0 r IH]; intros c HS Hin; [destruct Hin|].
  cbn [map] in HS. apply StronglySorted_inv in HS. destruct HS as [HSr HF].
  cbn [map pos]. destruct Hin as [<-|Hin].
  - rewrite bytes_ltb_irrefl. cbn [nth_error]. rewrite bytes_eqb_refl. exists 0%nat. reflexivity.
  - rewrite Forall_forall in HF. assert (Hlt : blt (lname c0) (lname c)) by (apply HF, in_map, Hin).
    unfold blt in Hlt. rewrite Hlt. cbn [nth_error].
    destruct (IH c HSr Hin) as [k Hk].
    destruct (nth_error r (pos (lname c) (map lname r))) as [c'|]; [|discriminate].
    destruct (bytes_eqb (lname c') (lname c)); [|discriminate].
    injection Hk as _ ->. exists (S (pos (lname c) (map lname r))). reflexivity.
Qed.

Lemma lsubtree_kid nm dl kids c : lall_ok (LDir nm dl kids) -> In c kids ->
  lsubtree [lname c] (LDir nm dl kids) = Some c.
Proof.
  intros Hok Hin. apply lall_ok_dir in Hok. destruct Hok as [(_ & HS & _) _].
  destruct (llookup_complete kids c HS Hin) as [k Hk]. cbn [lsubtree]. rewrite Hk. reflexivity.
Qed.

Lemma ents_in_sub : forall q n pre c, q <> [] -> lsubtree q n = Some c ->
  In (entry_of (pre ++ encp q) c) (ents pre (lkids n)).
Proof.
  induction q as [|x q IH]; intros n pre c Hne H; [congruence|].
  destruct (lsubtree_dir_step x q n _ H) as (nm & d & ks & k & c1 & -> & L & Hc).
  apply llookup_spec in L. destruct L as (Hk & Hx & _). cbn [lkids].
  apply in_flat_map. exists c1. split; [eapply nth_error_In; exact Hk|].
  rewrite ents_node_eq, Hx. destruct q as [|y q'].
  - cbn in Hc. injection Hc as ->. left. reflexivity.
  - right. replace (pre ++ encp (x :: y :: q')) with ((pre ++ [enc x]) ++ encp (y :: q'))
      by (cbn [encp map]; rewrite <- app_assoc; reflexivity).
    apply IH; [discriminate|exact Hc].
Qed.

Lemma ents_in_inv : forall n, lall_ok n -> forall pre e, In e (ents pre (lkids n)) ->
  exists q c, q <> [] /\ lsubtree q n = Some c /\ e = entry_of (pre ++ encp q) c.
Proof.
  apply (lnode_ind' (fun n => lall_ok n -> forall pre e, In e (ents pre (lkids n)) ->
           exists q c, q <> [] /\ lsubtree q n = Some c /\ e = entry_of (pre ++ encp q) c)).
  - intros nm i st _ pre e [].
  - intros nm dl kids HF Hok pre e Hin. cbn [lkids] in Hin. apply in_flat_map in Hin.
    destruct Hin as (c1 & Hc1 & He). rewrite ents_node_eq in He.
    pose proof (lsubtree_kid nm dl kids c1 Hok Hc1) as Hs1.
    destruct He as [<-|He].
    + exists [lname c1], c1. split; [discriminate|]. split; [exact Hs1|reflexivity].
    + rewrite Forall_forall in HF. apply lall_ok_dir in Hok as Hok'. destruct Hok' as [_ Hk].
      rewrite Forall_forall in Hk.
      destruct (HF c1 Hc1 (Hk c1 Hc1) _ _ He) as (q & c & Hq & Hs & ->).
      exists (lname c1 :: q), c. split; [discriminate|]. split.
      * cbn [lsubtree] in Hs1 |- *. destruct (llookup (lname c1) kids) as [[k c']|]; [|discriminate].
        injection Hs1 as ->. exact Hs.
      * cbn [encp map]. rewrite <- app_assoc. reflexivity.
Qed.

(* ---- 4. rm_file on the entry list: exactly FsSpec.drop_blob ---------------------------------------- *)

Lemma blob_eqb i j : (blob_of_ino j =? blob_of_ino i) = Nat.eqb j i.
Proof.
  unfold blob_of_ino. destruct (Nat.eqb_spec j i) as [->|Hne]; [apply Z.eqb_refl|].
  apply Z.eqb_neq. lia.
Qed.

Lemma drop_blob_app b l1 l2 : FsSpec.drop_blob b (l1 ++ l2) = FsSpec.drop_blob b l1 ++ FsSpec.drop_blob b l2.
Proof. apply filter_app. Qed.

Lemma ents_purge i : forall n, l_is_dir n = true -> forall pre,
  ents pre (lkids (purge_node i n)) = FsSpec.drop_blob (blob_of_ino i) (ents pre (lkids n)).
Proof.
  apply (lnode_ind' (fun n => l_is_dir n = true -> forall pre,
           ents pre (lkids (purge_node i n)) = FsSpec.drop_blob (blob_of_ino i) (ents pre (lkids n))));
    [discriminate|].
  intros nm dl kids HF _ pre. rewrite purge_node_dir. cbn [lkids].
  induction HF as [|c r Hc Hr IH]; [reflexivity|].
  cbn [map filter]. rewrite ents_cons, drop_blob_app, <- IH.
  destruct c as [cn ino st|cn cdl ckids].
  - cbn [purge_node]. unfold notref. cbn [is_ref]. rewrite ents_node_eq. cbn [lkids lname].
    unfold ents at 3. cbn [flat_map]. unfold FsSpec.drop_blob at 1. cbn [filter entry_of kind_of FsSpec.mk FsSpec.e_kind].
    rewrite blob_eqb. destruct (Nat.eqb ino i); cbn [negb]; [reflexivity|].
    rewrite ents_cons, ents_node_eq. reflexivity.
  - specialize (Hc eq_refl (pre ++ [enc cn])).
    change (notref i (purge_node i (LDir cn cdl ckids))) with true. cbn iota.
    rewrite ents_cons, !ents_node_eq, lname_purge. cbn [lname].
    rewrite Hc. unfold FsSpec.drop_blob at 2. cbn [filter].
    replace (entry_of (pre ++ [enc cn]) (purge_node i (LDir cn cdl ckids)))
      with (entry_of (pre ++ [enc cn]) (LDir cn cdl ckids)) by reflexivity.
    cbn [entry_of kind_of FsSpec.mk FsSpec.e_kind]. reflexivity.
Qed.

(* ---- 5. byte names as a measure ------------------------------------------------------------------- *)

Definition wnb (n : lnode) : Z := if bytes_ident (lname n) then 0 else 1.
Definition names_bytes (t : lnode) : Prop := ltotal wnb t = 0.

Lemma wnb_nonneg n : 0 <= wnb n.  Proof. unfold wnb. destruct (bytes_ident (lname n)); lia. Qed.
Lemma dl_free_wnb : dl_free wnb.  Proof. intros nm d d'. reflexivity. Qed.

Lemma ltotal_sub_le w : (forall n, 0 <= w n) -> forall q n c, lsubtree q n = Some c -> ltotal w c <= ltotal w n.
Proof.
  intros Hw. induction q as [|x q IH]; intros n c H.
  - cbn in H. injection H as ->. lia.
  - destruct (lsubtree_dir_step x q n _ H) as (nm & d & ks & k & c1 & -> & L & Hc).
    apply llookup_spec in L. destruct L as (Hk & _ & _). specialize (IH c1 c Hc).
    rewrite ltotal_dir. pose proof (ltotals_remove_at w ks k c1 Hk).
    pose proof (ltotals_nonneg w Hw (remove_at k ks)). specialize (Hw (LDir nm d [])). lia.
Qed.

Lemma names_bytes_sub t q c : names_bytes t -> lsubtree q t = Some c -> bytes (lname c).
Proof.
  unfold names_bytes. intros H0 Hs. pose proof (ltotal_sub_le wnb wnb_nonneg q t c Hs) as Hle.
  pose proof (ltotal_nonneg wnb wnb_nonneg c) as Hc.
  assert (E : ltotal wnb c = 0) by lia. rewrite ltotal_shallow in E.
  pose proof (ltotals_nonneg wnb wnb_nonneg (lkids c)). pose proof (wnb_nonneg (hdr c)).
  assert (E0 : wnb (hdr c) = 0) by lia. unfold wnb in E0.
  replace (lname (hdr c)) with (lname c) in E0 by (destruct c; reflexivity).
  apply bytes_ident_spec. destruct (bytes_ident (lname c)); [reflexivity|discriminate].
Qed.

(* every path that reaches a node consists of byte names *)
Lemma names_bytes_path t : names_bytes t -> forall q c, lsubtree q t = Some c -> bytesp q.
Proof.
  intros H0 q. induction q as [|x q IH] using rev_ind; intros c Hs; [constructor|].
  assert (exists c0, lsubtree q t = Some c0 /\ lsubtree [x] c0 = Some c) as (c0 & H1 & H2).
  { clear IH H0. revert t Hs. induction q as [|y q IHq]; intros t Hs.
    - exists t. split; [reflexivity|exact Hs].
    - cbn [app] in Hs. destruct (lsubtree_dir_step y (q ++ [x]) t _ Hs) as (nm & d & ks & k & c1 & -> & L & Hc).
      destruct (IHq c1 Hc) as (c0 & A & B). exists c0. split; [|exact B]. cbn [lsubtree]. rewrite L. exact A. }
  apply Forall_app. split; [apply (IH c0 H1)|]. constructor; [|constructor].
  destruct (lsubtree_dir_step x [] c0 _ H2) as (nm & d & ks & k & c1 & -> & L & Hc).
  cbn in Hc. injection Hc as ->. apply llookup_spec in L. destruct L as (_ & Hx & _). subst x.
  eapply names_bytes_sub; [exact H0|]. exact Hs.
Qed.

Lemma purge_le w i : (forall n, 0 <= w n) -> dl_free w -> forall n, ltotal w (purge_node i n) <= ltotal w n.
Proof.
  intros Hw Hd. apply lnode_ind'; [intros; cbn [purge_node]; lia|].
  intros nm dl kids HF. rewrite purge_node_dir, !ltotal_dir, (Hd nm _ dl).
  assert (ltotals w (filter (notref i) (map (purge_node i) kids)) <= ltotals w kids); [|lia].
  induction HF as [|c r Hc Hr IH]; [cbn; lia|]. cbn [map filter].
  pose proof (ltotal_nonneg w Hw (purge_node i c)).
  rewrite (ltotals_cons w c r). destruct (notref i (purge_node i c)); [rewrite ltotals_cons|]; lia.
Qed.
