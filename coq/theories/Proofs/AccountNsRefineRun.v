(* Refinement of Spec/FsSpec.v by Model/AccountNs.v, part 3: rm_directory, every operation, every
   history without late refusal. *)
From Coq Require Import ZArith List Bool Lia ZifyBool Sorted Arith Permutation.
From PV.Base Require Import Prim.
From PV.Gen Require Import GenConst GenFun.
From PV.Spec Require FsSpec FsCases.
From PV.Model Require Import Names Checksums Pack Alloc Account AccountLinks AccountNs.
From PV.Proofs Require FsSpecProofs.
From PV.Proofs Require Import PackProofs AllocProofs ChecksumsArithProofs AccountLemmas AccountProofs
     AccountLinksLemmas AccountLinksPurge AccountNsLemmas AccountNsInv AccountNsProofs
     AccountNsRefineLemmas AccountNsRefineTree AccountNsRefine.
Import ListNotations.
Local Open Scope Z_scope.

Ltac is_refused :=
  split; [split; intros X; [discriminate X|cbn in X; try discriminate X]|intros X; discriminate X].

(* ---- rm_directory ---------------------------------------------------------------------------------- *)

Theorem sim_rm_dir j k c a iso jol : NInv j c -> Rel c a -> bytes_op (NRmDir iso jol) = true ->
  let r := nstep k c (NRmDir iso jol) in
  let r' := F.step a (tr k (NRmDir iso jol)) in
  (snd r = NOk <-> snd r' = F.Ok) /\ (snd r = NOk -> Rel (fst r) (fst r')).
Proof.
  intros HI HR Hb. pose proof (FP.step_preserves_wf a (tr k (NRmDir iso jol)) (proj1 HR)) as HW.
  pose proof (Rel_iso c a HR) as RI. pose proof (Rel_jol c a HR) as RJ.
  pose proof HR as (_ & TI & TJ & PI & PJ & HU & HB).
  cbn [nstep]. unfold nstep_rm_dir. cbn [tr] in *. cbn [bytes_op] in Hb.
  apply andb_prop in Hb. destruct Hb as [Hbi Hbj].
  assert (PtrI : forall p t1 sh cdl cn, t_rm_dir (niso c) p = Some (t1, sh, cdl, cn) ->
                   remove_from_ptr_size (ips c) (ipe c) (ptr_record_length (zlen cn)) <> None).
  { intros. eapply rm_dir_ptr_some; [apply (ninv_itree j c HI)|apply (ninv_iptr j c HI)
                                     |apply (ninv_iptr_sum j c HI)|eassumption]. }
  assert (PtrJ : forall p t1 sh cdl cn, t_rm_dir (njol c) p = Some (t1, sh, cdl, cn) ->
                   remove_from_ptr_size (jps c) (jpe c) (ptr_record_length (zlen cn)) <> None).
  { intros. eapply rm_dir_ptr_some; [apply (ninv_jtree j c HI)|apply (ninv_jptr j c HI)
                                     |apply (ninv_jptr_sum j c HI)|eassumption]. }
  cbn [F.step] in *.
  destruct iso as [pi|]; destruct jol as [pj|]; cbn [opt_legal option_map F.opt_ok] in *; try (is_refused; fail).
  - apply bytes_path_spec in Hbi. apply bytes_path_spec in Hbj.
    rewrite !spec_ok1, (rm_dir_ok1 _ _ pi RI Hbi), (rm_dir_ok1 _ _ (jpath pj) RJ (jpath_bytes pj Hbj)) in *.
    destruct (t_rm_dir (niso c) pi) as [[[[t1 sh] cdl] cn]|] eqn:E1; cbn [andb] in *; [|is_refused].
    destruct (remove_from_ptr_size (ips c) (ipe c) (ptr_record_length (zlen cn))) as [[[b ps] pe]|] eqn:R1;
      [|exfalso; eapply PtrI; eassumption].
    destruct (t_rm_dir (njol c) (jpath pj)) as [[[[t2 sh2] cdl2] cn2]|] eqn:E2; cbn [andb] in *; [|is_refused].
    destruct (remove_from_ptr_size (jps c) (jpe c) (ptr_record_length (zlen cn2))) as [[[b2 qs] qe]|] eqn:R2;
      [|exfalso; eapply PtrJ; eassumption].
    cbn [fst snd] in *. split; [tauto|]. intros _.
    destruct (t_rm_dir_perm _ _ _ _ _ _ _ RI Hbi E1) as [T1 P1].
    destruct (t_rm_dir_perm _ _ _ _ _ _ _ RJ (jpath_bytes pj Hbj) E2) as [T2 P2].
    split; [exact HW|]. cbn [set_all niso njol F.f_iso F.f_jol F.f_udf F.f_boot].
    do 5 (split; [assumption|]); assumption.
  - apply bytes_path_spec in Hbi.
    rewrite !spec_ok1, (rm_dir_ok1 _ _ pi RI Hbi) in *.
    destruct (t_rm_dir (niso c) pi) as [[[[t1 sh] cdl] cn]|] eqn:E1; cbn [andb] in *; [|is_refused].
    destruct (remove_from_ptr_size (ips c) (ipe c) (ptr_record_length (zlen cn))) as [[[b ps] pe]|] eqn:R1;
      [|exfalso; eapply PtrI; eassumption].
    cbn [fst snd] in *. split; [tauto|]. intros _.
    destruct (t_rm_dir_perm _ _ _ _ _ _ _ RI Hbi E1) as [T1 P1].
    split; [exact HW|]. cbn [set_all niso njol F.f_iso F.f_jol F.f_udf F.f_boot].
    do 5 (split; [assumption|]); assumption.
  - apply bytes_path_spec in Hbj.
    rewrite !spec_ok1, (rm_dir_ok1 _ _ (jpath pj) RJ (jpath_bytes pj Hbj)) in *.
    destruct (t_rm_dir (njol c) (jpath pj)) as [[[[t2 sh2] cdl2] cn2]|] eqn:E2; cbn [andb] in *; [|is_refused].
    destruct (remove_from_ptr_size (jps c) (jpe c) (ptr_record_length (zlen cn2))) as [[[b2 qs] qe]|] eqn:R2;
      [|exfalso; eapply PtrJ; eassumption].
    cbn [fst snd] in *. split; [tauto|]. intros _.
    destruct (t_rm_dir_perm _ _ _ _ _ _ _ RJ (jpath_bytes pj Hbj) E2) as [T2 P2].
    split; [exact HW|]. cbn [set_all niso njol F.f_iso F.f_jol F.f_udf F.f_boot].
    do 5 (split; [assumption|]); assumption.
Qed.

(* ---- every operation --------------------------------------------------------------------------------- *)

Theorem sim_step j k c a o : NInv j c -> Rel c a -> bytes_op o = true ->
  let r := nstep k c o in
  let r' := F.step a (tr k o) in
  (snd r = NOk <-> snd r' = F.Ok) /\ (snd r = NOk -> Rel (fst r) (fst r')).
Proof.
  intros HI HR Hb. destruct o.
  - apply sim_add_file; assumption.
  - apply sim_add_dir; assumption.
  - apply sim_add_link; assumption.
  - apply sim_rm_link; assumption.
  - apply sim_rm_file; assumption.
  - eapply sim_rm_dir; eassumption.
Qed.

(* a refused operation -- early OR late -- is refused by the specification, which then does not move *)
Corollary sim_refused j k c a o : NInv j c -> Rel c a -> bytes_op o = true ->
  snd (nstep k c o) <> NOk -> F.step a (tr k o) = (a, F.Refused).
Proof.
  intros HI HR Hb Hn. destruct (sim_step j k c a o HI HR Hb) as [H1 _].
  destruct (F.step a (tr k o)) as [a' out'] eqn:E. cbn [snd] in H1.
  destruct out'; [exfalso; apply Hn, H1; reflexivity|].
  rewrite (FP.refused_unchanged a (tr k o) a' E). reflexivity.
Qed.

(* ---- every history ------------------------------------------------------------------------------------ *)

Definition nok (o : nout) : bool := match o with NOk => true | _ => false end.
Definition sok (o : F.outcome) : bool := match o with F.Ok => true | F.Refused => false end.

Theorem refine_from ops : forall k c a, NInv k c -> Rel c a ->
  forallb bytes_op ops = true -> clean_from k c ops = true ->
  Rel (nrun_from k c ops) (fst (F.run a (tr_from k ops))) /\
  map nok (nouts_from k c ops) = map sok (snd (F.run a (tr_from k ops))).
Proof.
  induction ops as [|o r IH]; intros k c a HI HR Hb Hc; cbn [nrun_from nouts_from tr_from F.run map].
  - split; [exact HR|reflexivity].
  - cbn [forallb] in Hb. apply andb_prop in Hb. destruct Hb as [Hbo Hbr].
    unfold clean_from in Hc. cbn [nouts_from existsb] in Hc. rewrite negb_orb in Hc.
    apply andb_prop in Hc. destruct Hc as [Hl Hcr].
    assert (Hnl : snd (nstep k c o) <> NLate) by (intros E; rewrite E in Hl; discriminate).
    pose proof (nstep_preserves_inv k c o HI Hnl) as HI'.
    destruct (sim_step k k c a o HI HR Hbo) as [S1 S2].
    destruct (snd (nstep k c o)) eqn:Eo.
    + (* accepted *)
      destruct (F.step a (tr k o)) as [a1 x] eqn:Es. cbn [fst snd] in *.
      assert (x = F.Ok) by (apply S1; reflexivity). subst x.
      specialize (IH (S k) (fst (nstep k c o)) a1 HI' (S2 eq_refl) Hbr Hcr).
      destruct (F.run a1 (tr_from (S k) r)) as [a2 xs]. cbn [fst snd map nok sok] in *.
      destruct IH as [I1 I2]. split; [exact I1|]. f_equal. exact I2.
    + (* refused early: neither side moves *)
      assert (Hn : snd (nstep k c o) <> NOk) by (rewrite Eo; discriminate).
      rewrite (sim_refused k k c a o HI HR Hbo Hn).
      assert (Ec : fst (nstep k c o) = c).
      { destruct (nstep k c o) as [c' out] eqn:E. cbn [fst snd] in *. subst out.
        apply (nrefused_unchanged k c o c' E). }
      rewrite Ec in *.
      specialize (IH (S k) c a HI' HR Hbr Hcr).
      destruct (F.run a (tr_from (S k) r)) as [a2 xs]. cbn [fst snd map nok sok] in *.
      destruct IH as [I1 I2]. split; [exact I1|]. f_equal. exact I2.
    + congruence.
Qed.

(* For every history of byte-named operations without late refusal, the view of pycdlib's object
   graph IS the specification's state, up to the order of the two entry lists, and the outcomes
   (accepted / refused) are the specification's outcomes. *)
Theorem C01_view_refines_spec ops : forallb bytes_op ops = true -> clean ops = true ->
  let a := fst (F.run F.empty_fs (tr_ops ops)) in
  Permutation (F.f_iso (abs (nrun ops))) (F.f_iso a) /\
  Permutation (F.f_jol (abs (nrun ops))) (F.f_jol a) /\
  F.f_udf (abs (nrun ops)) = F.f_udf a /\ F.f_boot (abs (nrun ops)) = F.f_boot a /\
  map nok (nouts ops) = map sok (snd (F.run F.empty_fs (tr_ops ops))).
Proof.
  intros Hb Hc a. destruct (refine_from ops 0 ninit F.empty_fs ninit_ok Rel_init Hb Hc) as [HR Ho].
  destruct (Rel_abs _ _ HR) as (P1 & P2 & P3 & P4). fold (nrun ops) in *. auto.
Qed.

(* ... in particular in the comparison the specification itself uses (Spec/FsCases.v view_of): the
   two views are permutations of each other, for every blob-key table *)
Corollary C01_view_eq ops tbl udft : forallb bytes_op ops = true -> clean ops = true ->
  Permutation (FsCases.view_of tbl udft (abs (nrun ops)))
              (FsCases.view_of tbl udft (fst (F.run F.empty_fs (tr_ops ops)))).
Proof.
  intros Hb Hc. destruct (C01_view_refines_spec ops Hb Hc) as (P1 & P2 & P3 & _).
  unfold FsCases.view_of. rewrite P3.
  apply Permutation_app; [apply Permutation_map, P1|].
  apply Permutation_app; [apply Permutation_map, P2|apply Permutation_refl].
Qed.

(* a late refusal is exactly a refusal of the specification with a changed concrete state *)
Theorem C01_late_is_spec_refusal_with_leftover j k c a o c' : NInv j c -> Rel c a -> bytes_op o = true ->
  nstep k c o = (c', NLate) -> F.step a (tr k o) = (a, F.Refused) /\ niso c' <> niso c.
Proof.
  intros HI HR Hb E. split.
  - apply (sim_refused j k c a o HI HR Hb). rewrite E. discriminate.
  - apply (nlate_changes_state k j c o c' HI E).
Qed.

(* ---- non-vacuity --------------------------------------------------------------------------------------- *)

(* 21 byte-named operations, 5 refused early, none late: contents with names in both namespaces, links
   across the namespaces, Joliet-only and ISO9660-only entries, rm_hard_link down to the last name in
   the OTHER namespace (space drops 39 -> 36 only then), rm_file removing the names in both.  The same
   history, run against the real library, is spec `example` of tools/account_ns_traces.py. *)
Definition iA : ident := [65; 59; 49].
Definition iB : ident := [66; 59; 49].
Definition iC : ident := [67; 59; 49].
Definition iD : ident := [68].
Definition iE : ident := [69].
Definition ja : ident := [97].
Definition jb : ident := [98].
Definition jd : ident := [100].
Definition jo : ident := [111].
Definition nex_ops : list nop :=
  [NAddFile (Some ([], iA)) (Some ([], ja)) 5000;
   NAddDir (Some ([], iD)) (Some ([], jd));
   NAddFile (Some ([iD], iB)) None 2049;                  (* ISO9660 only *)
   NAddFile None (Some ([jd], [99])) 0;                   (* Joliet only, empty *)
   NAddDir None (Some ([jd], jo));
   NAddDir (Some ([iD], iE)) None;
   NAddLink NIso [iD; iB] NJol [jd] jb;                   (* across the namespaces *)
   NAddLink NJol [jd; [99]] NIso [] iC;
   NAddLink NJol [ja] NJol [jd; jo] [50];
   NAddLink NIso [iD] NJol [] [120];                      (* a directory: refused *)
   NAddLink NIso [iA] NJol [] ja;                         (* duplicate: refused *)
   NAddFile (Some ([[81]], [90; 59; 49])) (Some ([], [122])) 7;   (* ISO9660 parent missing: refused early *)
   NAddFile None None 7;                                  (* no path: refused *)
   NRmDir (Some [iD]) (Some [jd]);                        (* ISO9660 directory not empty: refused early *)
   NRmLink NIso [] iA; NRmLink NJol [] ja;
   NRmLink NJol [jd; jo] [50];                            (* last name: 3 blocks released *)
   NRmFile NJol [jd] jb;                                  (* both names of B's content *)
   NRmFile NIso [] iC;                                    (* both names of the empty content *)
   NRmDir (Some [iD; iE]) (Some [jd; jo]); NRmDir (Some [iD]) (Some [jd])].

Example nex_history :
  clean nex_ops = true /\ forallb bytes_op nex_ops = true /\
  nrun_flags nex_ops = [0; 0; 0; 0; 0; 0; 0; 0; 0; 1; 1; 1; 1; 1; 0; 0; 0; 0; 0; 0; 0] /\
  map FsCases.outcome_code (snd (F.run F.empty_fs (tr_ops nex_ops))) =
    [0; 0; 0; 0; 0; 0; 0; 0; 0; 1; 1; 1; 1; 1; 0; 0; 0; 0; 0; 0; 0] /\
  nrun_ends nex_ops =
    [(33, 33); (35, 35); (37, 37); (37, 37); (38, 38); (39, 39); (39, 39); (39, 39); (39, 39);
     (39, 39); (39, 39); (39, 39); (39, 39); (39, 39); (39, 39); (39, 39); (36, 36); (34, 34);
     (34, 34); (32, 32); (30, 30)] /\
  (* after the 9th operation: 3 contents, 11 names; the empty content gets no extent *)
  (let s := nrun (firstn 9 nex_ops) in
   nprobe s = [39; 39; 30; 2; 30; 2; 6144; 6144; 3] /\ nlaid_out s = [0%nat; 2%nat] /\
   nobjects s = [16; 1; 1; 1; 1; 2; 2; 2; 2; 1; 1; 1; 1; 1; 1; 3; 2] /\
   (* the object graph seen as a specification state, and the specification's own state: the same
      11 entries, in a different order (tree order against insertion order) *)
   FsCases.view_of [] false (abs s) =
     [(F.NsIso, [21052209], 1, 1, false, 0); (F.NsIso, [21183281], 1, 4, false, 0);
      (F.NsIso, [324], 0, 0, false, 0); (F.NsIso, [324; 21117745], 1, 3, false, 0);
      (F.NsIso, [324; 325], 0, 0, false, 0);
      (F.NsJoliet, [65633], 1, 1, false, 0); (F.NsJoliet, [65636], 0, 0, false, 0);
      (F.NsJoliet, [65636; 65634], 1, 3, false, 0); (F.NsJoliet, [65636; 65635], 1, 4, false, 0);
      (F.NsJoliet, [65636; 65647], 0, 0, false, 0); (F.NsJoliet, [65636; 65647; 65586], 1, 1, false, 0)] /\
   FsCases.view_of [] false (fst (F.run F.empty_fs (tr_ops (firstn 9 nex_ops)))) =
     [(F.NsIso, [21052209], 1, 1, false, 0); (F.NsIso, [324], 0, 0, false, 0);
      (F.NsIso, [324; 21117745], 1, 3, false, 0); (F.NsIso, [324; 325], 0, 0, false, 0);
      (F.NsIso, [21183281], 1, 4, false, 0);
      (F.NsJoliet, [65633], 1, 1, false, 0); (F.NsJoliet, [65636], 0, 0, false, 0);
      (F.NsJoliet, [65636; 65635], 1, 4, false, 0); (F.NsJoliet, [65636; 65647], 0, 0, false, 0);
      (F.NsJoliet, [65636; 65634], 1, 3, false, 0); (F.NsJoliet, [65636; 65647; 65586], 1, 1, false, 0)] /\
   FsCases.view_eqb (FsCases.view_of [] false (abs s))
     (FsCases.view_of [] false (fst (F.run F.empty_fs (tr_ops (firstn 9 nex_ops))))) = true).
Proof. vm_compute. repeat split; reflexivity. Qed.

(* the theorems apply to it *)
Example nex_history_thms :
  ispace (nrun nex_ops) = nlayout_end (nrun nex_ops) /\
  Permutation (F.f_iso (abs (nrun (firstn 9 nex_ops))))
              (F.f_iso (fst (F.run F.empty_fs (tr_ops (firstn 9 nex_ops))))).
Proof.
  assert (C1 : clean nex_ops = true) by (vm_compute; reflexivity).
  assert (C9 : clean (firstn 9 nex_ops) = true) by (vm_compute; reflexivity).
  assert (B9 : forallb bytes_op (firstn 9 nex_ops) = true) by (vm_compute; reflexivity).
  split.
  - destruct (C01_space_exact_two_namespaces nex_ops C1) as [E _]. exact E.
  - destruct (C01_view_refines_spec (firstn 9 nex_ops) B9 C9) as [P _]. exact P.
Qed.

Print Assumptions sim_step.
Print Assumptions C01_view_refines_spec.
Print Assumptions C01_view_eq.
Print Assumptions C01_late_is_spec_refusal_with_leftover.
Print Assumptions nex_history.
Print Assumptions nex_history_thms.
