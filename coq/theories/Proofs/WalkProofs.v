(* Termination, work bound, soundness and memory bound of the directory walk WITH the seen-set
   (Model/Walk.v, walk_checked), and refutation of termination for the pinned original without
   it (walk_unchecked). *)
From Coq Require Import ZArith List Bool Lia.
From PV.Model Require Import Walk.
Import ListNotations.
Open Scope Z_scope.

(* ---------- small list facts ---------- *)
Lemma zmem_true e l : zmem e l = true <-> In e l.
Proof.
  unfold zmem. rewrite existsb_exists. split.
  - intros [x [Hin Heq]]. apply Z.eqb_eq in Heq. subst x. exact Hin.
  - intro H. exists e. split; [exact H | apply Z.eqb_refl].
Qed.

Lemma zmem_false e l : zmem e l = false <-> ~ In e l.
Proof.
  rewrite <- zmem_true. destruct (zmem e l); split; intro H.
  - discriminate H.
  - exfalso. apply H. reflexivity.
  - intro K. discriminate K.
  - reflexivity.
Qed.

Lemma NoDup_app_tail (l l' : list Z) : NoDup (l ++ l') -> NoDup l'.
Proof.
  induction l as [|a l IH]; cbn [app]; intro H; [exact H|].
  inversion H; subst. apply IH. assumption.
Qed.

Lemma NoDup_app_disjoint (l l' : list Z) x : NoDup (l ++ l') -> In x l -> In x l' -> False.
Proof.
  intros Hnd H1 H2. apply in_split in H1. destruct H1 as [a [b Hab]]. subst l.
  rewrite <- app_assoc in Hnd. cbn [app] in Hnd.
  apply NoDup_remove_2 in Hnd. apply Hnd.
  apply in_or_app. right. apply in_or_app. right. exact H2.
Qed.

Lemma flat_map_length_bound (f : Z -> list Z) (m : nat) (l : list Z) :
  (forall e, (length (f e) <= m)%nat) -> (length (flat_map f l) <= length l * m)%nat.
Proof.
  intro Hm. induction l as [|a l IH]; cbn [flat_map length]; [lia|].
  rewrite app_length. specialize (Hm a). lia.
Qed.

Section Walk.
Variable sd : Z -> list Z.

(* ---------- invariant schema ---------- *)
Definition outcome_ok (I : list Z -> list Z -> Prop) (o : outcome) : Prop :=
  match o with
  | Finished v => I [] v
  | Loop v e => exists rest, I (e :: rest) v /\ In e v
  | OutOfFuel v q => I q v /\ q <> []
  end.

Lemma walk_checked_invariant (I : list Z -> list Z -> Prop) :
  (forall e rest v, I (e :: rest) v -> ~ In e v -> I (rest ++ sd e) (e :: v)) ->
  forall fuel q v, I q v -> outcome_ok I (walk_checked sd fuel q v).
Proof.
  intros Hstep fuel. induction fuel as [|f IH]; intros q v HI; destruct q as [|e rest];
    cbn [walk_checked outcome_ok]; auto.
  - split; [exact HI | discriminate].
  - destruct (zmem e v) eqn:E.
    + cbn [outcome_ok]. exists rest. split; [exact HI | apply zmem_true; exact E].
    + apply IH. apply Hstep; [exact HI | apply zmem_false; exact E].
Qed.

Lemma walk_unchecked_invariant (I : list Z -> list Z -> Prop) :
  (forall e rest v, I (e :: rest) v -> I (rest ++ sd e) (e :: v)) ->
  forall fuel q v, I q v -> outcome_ok I (walk_unchecked sd fuel q v).
Proof.
  intros Hstep fuel. induction fuel as [|f IH]; intros q v HI; destruct q as [|e rest];
    cbn [walk_unchecked outcome_ok]; auto.
  split; [exact HI | discriminate].
Qed.

(* ---------- 1. every directory extent is read at most once ---------- *)
Theorem walk_checked_visited_nodup fuel q v :
  NoDup v -> NoDup (outcome_visited (walk_checked sd fuel q v)).
Proof.
  intro H.
  pose proof (walk_checked_invariant (fun _ v => NoDup v)
                (fun e rest v0 Hv Hn => NoDup_cons e Hn Hv) fuel q v H) as K.
  destruct (walk_checked sd fuel q v); cbn [outcome_ok outcome_visited] in *.
  - exact K.
  - destruct K as [r [K _]]. exact K.
  - destruct K as [K _]. exact K.
Qed.

(* ---------- 2. termination / work bound ---------- *)
Lemma walk_checked_fuel_enough (U : list Z) :
  (forall e, In e U -> incl (sd e) U) ->
  forall fuel q v, NoDup v -> incl v U -> incl q U ->
    (length (nodup Z.eq_dec U) < fuel + length v)%nat ->
    forall v' q', walk_checked sd fuel q v <> OutOfFuel v' q'.
Proof.
  intros Hclosed fuel. induction fuel as [|f IH]; intros q v Hnd Hv Hq Hlen v' q';
    destruct q as [|e rest]; cbn [walk_checked]; try discriminate.
  - exfalso.
    assert (Hle : (length v <= length (nodup Z.eq_dec U))%nat).
    { apply NoDup_incl_length; [exact Hnd|]. intros x Hx. apply nodup_In. apply Hv. exact Hx. }
    lia.
  - destruct (zmem e v) eqn:E; [discriminate|].
    assert (HeU : In e U) by (apply Hq; left; reflexivity).
    apply IH.
    + constructor; [apply zmem_false; exact E | exact Hnd].
    + intros x [Hx|Hx]; [subst x; exact HeU | apply Hv; exact Hx].
    + apply incl_app; [intros x Hx; apply Hq; right; exact Hx | apply Hclosed; exact HeU].
    + cbn [length]. lia.
Qed.

Theorem walk_checked_terminates (U : list Z) (root : Z) :
  In root U -> (forall e, In e U -> incl (sd e) U) ->
  forall v q, open_walk sd root (S (length (nodup Z.eq_dec U))) <> OutOfFuel v q.
Proof.
  intros Hroot Hclosed v q. unfold open_walk.
  apply walk_checked_fuel_enough with (U := U); auto.
  - constructor.
  - intros x [].
  - intros x [Hx|[]]. subst x. exact Hroot.
  - cbn [length]. lia.
Qed.

Corollary walk_checked_terminates_cases (U : list Z) (root : Z) :
  In root U -> (forall e, In e U -> incl (sd e) U) ->
  (exists v, open_walk sd root (S (length (nodup Z.eq_dec U))) = Finished v) \/
  (exists v e, open_walk sd root (S (length (nodup Z.eq_dec U))) = Loop v e).
Proof.
  intros Hroot Hclosed. pose proof (walk_checked_terminates U root Hroot Hclosed) as H.
  destruct (open_walk sd root (S (length (nodup Z.eq_dec U)))) as [v|v e|v q].
  - left. exists v. reflexivity.
  - right. exists v, e. reflexivity.
  - exfalso. apply (H v q). reflexivity.
Qed.

(* more fuel never changes a result that was not OutOfFuel *)
Lemma walk_checked_fuel_mono k : forall fuel q v,
  (forall v' q', walk_checked sd fuel q v <> OutOfFuel v' q') ->
  walk_checked sd (fuel + k) q v = walk_checked sd fuel q v.
Proof.
  intro fuel. induction fuel as [|f IH]; intros q v H; destruct q as [|e rest].
  - cbn [Nat.add]. destruct k; reflexivity.
  - exfalso. apply (H v (e :: rest)). reflexivity.
  - reflexivity.
  - cbn [Nat.add walk_checked] in *. destruct (zmem e v); [reflexivity|]. apply IH. exact H.
Qed.

Corollary walk_checked_terminates_any_fuel (U : list Z) (root : Z) (fuel : nat) :
  In root U -> (forall e, In e U -> incl (sd e) U) ->
  (S (length (nodup Z.eq_dec U)) <= fuel)%nat ->
  open_walk sd root fuel = open_walk sd root (S (length (nodup Z.eq_dec U))).
Proof.
  intros Hroot Hclosed Hle.
  replace fuel with (S (length (nodup Z.eq_dec U)) + (fuel - S (length (nodup Z.eq_dec U))))%nat by lia.
  unfold open_walk. apply walk_checked_fuel_mono.
  apply (walk_checked_terminates U root Hroot Hclosed).
Qed.

(* an OutOfFuel outcome is exactly the intermediate state after [n] iterations *)
Lemma walk_checked_resume k : forall n q0 v0 v q,
  walk_checked sd n q0 v0 = OutOfFuel v q ->
  walk_checked sd (n + k) q0 v0 = walk_checked sd k q v.
Proof.
  intro n. induction n as [|n IH]; intros q0 v0 v q H; destruct q0 as [|e rest];
    cbn [walk_checked Nat.add] in *; try discriminate.
  - injection H as H1 H2. subst. reflexivity.
  - destruct (zmem e v0); [discriminate|]. apply IH. exact H.
Qed.

(* ---------- 3. soundness ---------- *)
Variable root : Z.

(* everything ever enqueued, in enqueue order = root followed by the children of the visited
   directories in visit order (breadth first) *)
Definition enq_inv (q v : list Z) : Prop := rev v ++ q = root :: flat_map sd (rev v).
Definition reach_inv (q v : list Z) : Prop := forall x, In x q \/ In x v -> reach sd root x.
Definition full_inv (q v : list Z) : Prop := NoDup v /\ enq_inv q v /\ reach_inv q v.

Lemma enq_inv_step e rest v : enq_inv (e :: rest) v -> enq_inv (rest ++ sd e) (e :: v).
Proof.
  unfold enq_inv. intro H. cbn [rev]. rewrite flat_map_app. cbn [flat_map]. rewrite app_nil_r.
  rewrite <- app_assoc. cbn [app].
  change (e :: rest ++ sd e) with ((e :: rest) ++ sd e). rewrite app_assoc. rewrite H.
  reflexivity.
Qed.

Lemma reach_inv_step e rest v : reach_inv (e :: rest) v -> reach_inv (rest ++ sd e) (e :: v).
Proof.
  unfold reach_inv. intros H x [Hx|Hx].
  - apply in_app_or in Hx. destruct Hx as [Hx|Hx].
    + apply H. left. right. exact Hx.
    + apply reach_step with (p := e); [apply H; left; left; reflexivity | exact Hx].
  - destruct Hx as [Hx|Hx].
    + subst x. apply H. left. left. reflexivity.
    + apply H. right. exact Hx.
Qed.

Lemma full_inv_step e rest v :
  full_inv (e :: rest) v -> ~ In e v -> full_inv (rest ++ sd e) (e :: v).
Proof.
  intros [Hn [He Hr]] Hnot. split; [constructor; assumption|].
  split; [apply enq_inv_step; exact He | apply reach_inv_step; exact Hr].
Qed.

Lemma full_inv_init : full_inv [root] [].
Proof.
  split; [constructor|]. split; [reflexivity|].
  intros x [[Hx|[]]|[]]. subst x. apply reach_root.
Qed.

Lemma enq_inv_finished_complete v : enq_inv [] v -> forall x, reach sd root x -> In x v.
Proof.
  unfold enq_inv. rewrite app_nil_r. intros H x Hx. apply in_rev.
  induction Hx as [|p c Hp IHp Hc].
  - rewrite H. left. reflexivity.
  - assert (K : In c (root :: flat_map sd (rev v))).
    { right. apply in_flat_map. exists p. split; assumption. }
    rewrite <- H in K. exact K.
Qed.

(* at a Loop the offending extent occurs twice in the enqueue history *)
Lemma enq_inv_loop_twice e rest v : enq_inv (e :: rest) v -> In e v ->
  exists l1 l2 l3, root :: flat_map sd (rev v) = l1 ++ e :: l2 ++ e :: l3.
Proof.
  unfold enq_inv. intros H Hin. apply in_rev in Hin. apply in_split in Hin.
  destruct Hin as [l1 [l2 Hs]]. exists l1, l2, rest. rewrite <- H. rewrite Hs.
  rewrite <- app_assoc. reflexivity.
Qed.

Lemma enq_inv_loop_parent e rest v : enq_inv (e :: rest) v -> In e v ->
  exists p, In p v /\ In e (sd p).
Proof.
  intros H Hin. destruct (enq_inv_loop_twice e rest v H Hin) as [l1 [l2 [l3 K]]].
  assert (Hf : In e (flat_map sd (rev v))).
  { destruct l1 as [|a l1]; cbn [app] in K; injection K as _ K; rewrite K.
    - apply in_or_app. right. left. reflexivity.
    - apply in_or_app. right. left. reflexivity. }
  apply in_flat_map in Hf. destruct Hf as [p [Hp Hc]]. exists p. split; [|exact Hc].
  apply in_rev. exact Hp.
Qed.

Theorem walk_checked_sound fuel :
  match open_walk sd root fuel with
  | Finished v => NoDup v /\ (forall x, In x v <-> reach sd root x)
  | Loop v e => NoDup v /\ In e v /\ reach sd root e /\ (forall x, In x v -> reach sd root x)
                /\ (exists p, In p v /\ In e (sd p))
                /\ (exists l1 l2 l3, root :: flat_map sd (rev v) = l1 ++ e :: l2 ++ e :: l3)
  | OutOfFuel v q => NoDup v /\ (forall x, In x v \/ In x q -> reach sd root x)
  end.
Proof.
  unfold open_walk.
  pose proof (walk_checked_invariant full_inv full_inv_step fuel [root] [] full_inv_init) as K.
  destruct (walk_checked sd fuel [root] []) as [v|v e|v q]; cbn [outcome_ok] in K.
  - destruct K as [Hn [He Hr]]. split; [exact Hn|]. intro x. split.
    + intro Hx. apply Hr. right. exact Hx.
    + apply enq_inv_finished_complete. exact He.
  - destruct K as [rest [[Hn [He Hr]] Hin]].
    split; [exact Hn|]. split; [exact Hin|].
    split; [apply Hr; left; left; reflexivity|].
    split; [intros x Hx; apply Hr; right; exact Hx|].
    split; [apply enq_inv_loop_parent with (rest := rest); assumption
           | apply enq_inv_loop_twice with (rest := rest); assumption].
  - destruct K as [[Hn [He Hr]] _]. split; [exact Hn|].
    intros x [Hx|Hx]; apply Hr; [right|left]; exact Hx.
Qed.

(* a Finished walk certifies that the reachable structure is a tree *)
Theorem walk_checked_finished_tree fuel v :
  open_walk sd root fuel = Finished v -> NoDup (root :: flat_map sd (rev v)).
Proof.
  unfold open_walk. intro E.
  pose proof (walk_checked_invariant full_inv full_inv_step fuel [root] [] full_inv_init) as K.
  rewrite E in K. cbn [outcome_ok] in K. destruct K as [Hn [He _]].
  unfold enq_inv in He. rewrite app_nil_r in He. rewrite <- He. apply NoDup_rev. exact Hn.
Qed.

(* on a tree the check never fires *)
Theorem walk_checked_tree_no_loop fuel :
  tree_like sd root -> forall v e, open_walk sd root fuel <> Loop v e.
Proof.
  unfold open_walk. intros Htree v e E.
  pose proof (walk_checked_invariant full_inv full_inv_step fuel [root] [] full_inv_init) as K.
  rewrite E in K. cbn [outcome_ok] in K. destruct K as [rest [[Hn [He Hr]] Hin]].
  assert (Hnd : NoDup (root :: flat_map sd (rev v))).
  { apply Htree; [apply NoDup_rev; exact Hn|]. intros x Hx. apply Hr. right. apply in_rev. exact Hx. }
  unfold enq_inv in He. rewrite <- He in Hnd.
  apply (NoDup_app_disjoint (rev v) (e :: rest) e Hnd).
  - apply in_rev in Hin. exact Hin.
  - left. reflexivity.
Qed.

Theorem walk_checked_tree_finishes (U : list Z) :
  In root U -> (forall e, In e U -> incl (sd e) U) -> tree_like sd root ->
  exists v, open_walk sd root (S (length (nodup Z.eq_dec U))) = Finished v
            /\ NoDup v /\ (forall x, In x v <-> reach sd root x).
Proof.
  intros Hroot Hclosed Htree.
  destruct (walk_checked_terminates_cases U root Hroot Hclosed) as [[v E]|[v [e E]]].
  - exists v. split; [exact E|].
    pose proof (walk_checked_sound (S (length (nodup Z.eq_dec U)))) as S. rewrite E in S. exact S.
  - exfalso. exact (walk_checked_tree_no_loop _ Htree v e E).
Qed.

(* ---------- 6. memory bound ---------- *)
Theorem walk_checked_queue_accounting fuel v q :
  open_walk sd root fuel = OutOfFuel v q ->
  (length v + length q = S (length (flat_map sd (rev v))))%nat.
Proof.
  unfold open_walk. intro E.
  pose proof (walk_checked_invariant full_inv full_inv_step fuel [root] [] full_inv_init) as K.
  rewrite E in K. cbn [outcome_ok] in K. destruct K as [[_ [He _]] _].
  unfold enq_inv in He. apply (f_equal (@length Z)) in He.
  rewrite app_length, rev_length in He. cbn [length] in He. exact He.
Qed.

Theorem walk_checked_queue_bound (maxfan : nat) fuel v q :
  (forall e, (length (sd e) <= maxfan)%nat) ->
  open_walk sd root fuel = OutOfFuel v q ->
  (length q <= length v * maxfan + 1)%nat.
Proof.
  intros Hm E. pose proof (walk_checked_queue_accounting fuel v q E) as A.
  pose proof (flat_map_length_bound sd maxfan (rev v) Hm) as B. rewrite rev_length in B. lia.
Qed.

Theorem walk_checked_queue_bound_universe (U : list Z) (maxfan : nat) fuel v q :
  In root U -> (forall e, In e U -> incl (sd e) U) ->
  (forall e, (length (sd e) <= maxfan)%nat) ->
  open_walk sd root fuel = OutOfFuel v q ->
  (length v <= length (nodup Z.eq_dec U))%nat /\
  (length q <= length (nodup Z.eq_dec U) * maxfan + 1)%nat.
Proof.
  intros Hroot Hclosed Hm E.
  pose proof (walk_checked_queue_bound maxfan fuel v q Hm E) as B.
  pose proof (walk_checked_sound fuel) as S. rewrite E in S. destruct S as [Hn Hr].
  assert (HU : forall x, reach sd root x -> In x U).
  { intros x Hx. induction Hx as [|p c Hp IHp Hc]; [exact Hroot | exact (Hclosed p IHp c Hc)]. }
  assert (Hle : (length v <= length (nodup Z.eq_dec U))%nat).
  { apply NoDup_incl_length; [exact Hn|]. intros x Hx. apply nodup_In. apply HU. apply Hr.
    left. exact Hx. }
  split; [exact Hle|]. nia.
Qed.

(* the same accounting holds for the original loop (there it is the unbounded quantity) *)
Lemma walk_unchecked_queue_accounting fuel v q :
  open_walk_unchecked sd root fuel = OutOfFuel v q ->
  (length v + length q = S (length (flat_map sd (rev v))))%nat.
Proof.
  unfold open_walk_unchecked. intro E.
  pose proof (walk_unchecked_invariant enq_inv enq_inv_step fuel [root] [] eq_refl) as K.
  rewrite E in K. cbn [outcome_ok] in K. destruct K as [He _].
  unfold enq_inv in He. apply (f_equal (@length Z)) in He.
  rewrite app_length, rev_length in He. cbn [length] in He. exact He.
Qed.

(* ---------- 5. checked and unchecked agree when nothing repeats ---------- *)
Lemma walk_unchecked_visited_extends : forall fuel q v,
  exists l, outcome_visited (walk_unchecked sd fuel q v) = l ++ v.
Proof.
  intro fuel. induction fuel as [|f IH]; intros q v; destruct q as [|e rest];
    cbn [walk_unchecked outcome_visited]; try (exists []; reflexivity).
  destruct (IH (rest ++ sd e) (e :: v)) as [l Hl]. exists (l ++ [e]).
  rewrite Hl. rewrite <- app_assoc. reflexivity.
Qed.

Theorem walk_checked_on_tree : forall fuel q v,
  NoDup (outcome_visited (walk_unchecked sd fuel q v)) ->
  walk_checked sd fuel q v = walk_unchecked sd fuel q v.
Proof.
  intro fuel. induction fuel as [|f IH]; intros q v H; destruct q as [|e rest];
    cbn [walk_checked walk_unchecked] in *; try reflexivity.
  destruct (zmem e v) eqn:E.
  - exfalso. apply zmem_true in E.
    destruct (walk_unchecked_visited_extends f (rest ++ sd e) (e :: v)) as [l Hl].
    rewrite Hl in H. apply NoDup_app_tail in H. inversion H; subst. contradiction.
  - apply IH. exact H.
Qed.

Theorem walk_checked_no_loop_agrees : forall fuel q v,
  (forall v' e, walk_checked sd fuel q v <> Loop v' e) ->
  walk_unchecked sd fuel q v = walk_checked sd fuel q v.
Proof.
  intro fuel. induction fuel as [|f IH]; intros q v H; destruct q as [|e rest];
    cbn [walk_checked walk_unchecked] in *; try reflexivity.
  destruct (zmem e v) eqn:E.
  - exfalso. apply (H v e). reflexivity.
  - apply IH. exact H.
Qed.

Corollary walk_checked_finished_unchecked fuel q v v' :
  walk_checked sd fuel q v = Finished v' -> walk_unchecked sd fuel q v = Finished v'.
Proof.
  intro E. rewrite walk_checked_no_loop_agrees; [exact E|].
  intros v0 e0 K. rewrite E in K. discriminate K.
Qed.

(* ---------- 4 (generic part). divergence of the original loop ---------- *)
Lemma walk_unchecked_diverges (P : Z -> Prop) :
  (forall e, P e -> sd e <> [] /\ Forall P (sd e)) ->
  forall fuel q v, q <> [] -> Forall P q ->
  exists v' q', walk_unchecked sd fuel q v = OutOfFuel v' q'
                /\ length v' = (fuel + length v)%nat /\ q' <> [].
Proof.
  intros HP fuel. induction fuel as [|f IH]; intros q v Hne HF; destruct q as [|e rest];
    try (exfalso; apply Hne; reflexivity); cbn [walk_unchecked].
  - exists v, (e :: rest). split; [reflexivity|]. split; [reflexivity | exact Hne].
  - inversion HF as [|x xs Pe Prest]; subst.
    destruct (HP e Pe) as [Hsd HFsd].
    destruct (IH (rest ++ sd e) (e :: v)) as [v' [q' [E [L N]]]].
    + intro K. apply app_eq_nil in K. destruct K as [_ K]. exact (Hsd K).
    + apply Forall_app. split; assumption.
    + exists v', q'. split; [exact E|]. split; [|exact N]. rewrite L. cbn [length]. lia.
Qed.

End Walk.

(* ---------- 4. the pinned original never terminates on a directory cycle ---------- *)
Theorem walk_unchecked_refuted_self : forall fuel,
  exists v q, walk_unchecked sd_self fuel [0] [] = OutOfFuel v q /\ length v = fuel /\ q <> [].
Proof.
  intro fuel.
  destruct (walk_unchecked_diverges sd_self (fun e => e = 0)) with (fuel := fuel) (q := [0]) (v := @nil Z)
    as [v [q [E [L N]]]].
  - intros e He. subst e. split; [discriminate|]. constructor; [reflexivity | constructor].
  - discriminate.
  - constructor; [reflexivity | constructor].
  - exists v, q. split; [exact E|]. split; [|exact N]. rewrite L. cbn [length]. lia.
Qed.

Theorem walk_unchecked_refuted_two : forall fuel,
  exists v q, walk_unchecked sd_two fuel [0] [] = OutOfFuel v q /\ length v = fuel /\ q <> [].
Proof.
  intro fuel.
  destruct (walk_unchecked_diverges sd_two (fun e => e = 0 \/ e = 1)) with (fuel := fuel) (q := [0]) (v := @nil Z)
    as [v [q [E [L N]]]].
  - intros e [He|He]; subst e; (split; [discriminate|]); constructor; auto.
  - discriminate.
  - constructor; [left; reflexivity | constructor].
  - exists v, q. split; [exact E|]. split; [|exact N]. rewrite L. cbn [length]. lia.
Qed.

Theorem walk_unchecked_refuted :
  (forall fuel, exists v q, walk_unchecked sd_self fuel [0] [] = OutOfFuel v q /\ length v = fuel) /\
  (forall fuel, exists v q, walk_unchecked sd_two fuel [0] [] = OutOfFuel v q /\ length v = fuel).
Proof.
  split; intro fuel.
  - destruct (walk_unchecked_refuted_self fuel) as [v [q [E [L _]]]]. exists v, q. split; assumption.
  - destruct (walk_unchecked_refuted_two fuel) as [v [q [E [L _]]]]. exists v, q. split; assumption.
Qed.

(* the same images with the seen-set: rejected after 2 resp. 3 dequeues *)
Example walk_checked_self_loop : open_walk sd_self 0 2 = Loop [0] 0.
Proof. vm_compute. reflexivity. Qed.
Example walk_checked_two_loop : open_walk sd_two 0 3 = Loop [1; 0] 0.
Proof. vm_compute. reflexivity. Qed.

(* The check is stricter than "no cycle": a directory extent listed by two parents (no cycle) is
   rejected too, although the original loop walks it in finitely many steps (reading it twice). *)
Example walk_checked_rejects_diamond :
  open_walk sd_diamond 0 10 = Loop [3; 2; 1; 0] 3 /\
  open_walk_unchecked sd_diamond 0 10 = Finished [3; 3; 2; 1; 0].
Proof. split; vm_compute; reflexivity. Qed.

Example run_case_examples :
  run_case [(0, [1; 2]); (1, []); (2, [3])] 0 10 = (0, 4) /\
  run_case [(0, [0])] 0 10 = (1, 1) /\
  run_case [(0, [1]); (1, [0])] 0 1 = (2, 1) /\
  run_case_unchecked [(0, [0])] 0 50 = (2, 50).
Proof. repeat split; vm_compute; reflexivity. Qed.

Print Assumptions walk_checked_visited_nodup.
Print Assumptions walk_checked_terminates.
Print Assumptions walk_checked_sound.
Print Assumptions walk_unchecked_refuted.
Print Assumptions walk_checked_on_tree.
Print Assumptions walk_checked_tree_finishes.
Print Assumptions walk_checked_queue_bound_universe.
