(* C11 / C02 -- Model/BootParse.v: the statements about the reopened object that were FALSE for the code
   before commits 063269b and 9223b0e (both found with this model and reproduced on the library:
   /var/tmp/bootparse/repro_hidden_overlap.py, repro_hidden_shrinks.py), with their witnesses, and what the
   current code does on the same witnesses. *)
From Coq Require Import ZArith List Bool Lia.
From PV.Base Require Import Prim.
From PV.Gen Require Import GenConst GenFun.
From PV.Model Require Import Alloc Eltorito Account AccountLinks AccountBoot BootParse.
Import ListNotations.
Local Open Scope Z_scope.

Definition bp_nA : ident := [65; 46; 59; 49].                                  (* A.;1 *)
Definition bp_nB : ident := [66; 46; 59; 49].                                  (* B.;1 *)
Definition bp_nC : ident := [67; 46; 59; 49].                                  (* C.;1 *)
Definition bp_nCAT : ident := [66; 79; 79; 84; 46; 67; 65; 84; 59; 49].        (* BOOT.CAT;1 *)
Definition bp_el (bp : path) (ls : option Z) : bop := BAddEltorito bp [] bp_nCAT ls 0 false false 0 true 0.

(* two boot files, the first loads 8 sectors out of a 1-byte file; both names removed *)
Definition bp_overlap_ops : list bop :=
  [BAddFile [] bp_nA 1; BAddFile [] bp_nB 3000; BAddFile [] bp_nC 100; bp_el [bp_nA] (Some 8); bp_el [bp_nB] None;
   BRmLink [] bp_nA; BRmLink [] bp_nB].
(* one boot file of 70000 bytes, 4 sectors to load, its name removed *)
Definition bp_shrink_ops : list bop :=
  [BAddFile [] bp_nA 70000; BAddFile [] bp_nC 100; bp_el [bp_nA] (Some 4); BRmLink [] bp_nA].

(* The code BEFORE commits 063269b / 9223b0e ([Old] / [Mid]): after open() the declared volume size is NOT the
   end of the layout, in both directions.  For the current code: Proofs/BootParseExact.v, BootParseMain.v. *)
Theorem boot_reopen_space_exact_refuted_old :
  (exists ops, let s := brun binit ops in
     boot_parse_gen Old (boot_view s) = POk (reopened_gen Old s) /\
     lspace (bl (reopened_gen Old s)) < blayout_end (reopened_gen Old s)) /\
  (exists ops, let s := brun binit ops in
     boot_parse_gen Mid (boot_view s) = POk (reopened_gen Mid s) /\
     blayout_end (reopened_gen Mid s) < lspace (bl (reopened_gen Mid s))).
Proof.
  split.
  - exists bp_overlap_ops. vm_compute. split; reflexivity.
  - exists bp_shrink_ops. vm_compute. split; reflexivity.
Qed.

(* the first witness in detail (before 063269b): the two boot files without names come back OVERLAPPING (the
   room of the first one is measured up to the next NAMED file, not up to the second entry's extent), the next
   layout needs 31 blocks, pvd.space_size says 30: _reshuffle_extents raises 'Assigned an extent beyond the ISO' *)
Theorem boot_reopen_hidden_overlap_refuted_old :
  let s := brun binit bp_overlap_ops in
  entry_rbas s = [26; 27] /\
  reopened_src_gen Old s = [(2%nat, (29, 100)); (0%nat, (26, 4096)); (1%nat, (27, 4096))] /\
  ~ disjoint (26, ceiling_div 4096 C) (27, ceiling_div 4096 C) /\
  lspace (bl (reopened_gen Old s)) = 30 /\ blayout_end (reopened_gen Old s) = 31 /\
  bp_wrecked (reopened_gen Old s) = true /\
  (* the current code: no overlap, exact *)
  reopened_src s = [(2%nat, (29, 100)); (0%nat, (26, 2048)); (1%nat, (27, 4096))] /\
  lspace (bl (reopened s)) = 30 /\ blayout_end (reopened s) = 30.
Proof.
  vm_compute. repeat split; try reflexivity. intros [H|H]; apply H; reflexivity.
Qed.

(* the second witness in detail (before 9223b0e): a boot file without directory record and without boot info
   table whose entry loads fewer sectors than the file holds loses its tail: 34 of its 35 blocks are dropped by
   the next layout, but stay counted in pvd.space_size, also after further edits (add_fp here) *)
Theorem boot_reopen_hidden_tail_lost_refuted_old :
  let s := brun binit bp_shrink_ops in
  len_of 0%nat (linodes (bl s)) = 70000 /\ len_of 0%nat (linodes (bl (reopened_gen Mid s))) = 2048 /\
  lspace (bl (reopened_gen Mid s)) = 62 /\ blayout_end (reopened_gen Mid s) = 28 /\
  (let r' := fst (bstep (reopened_gen Mid s) (BAddFile [] bp_nB 1)) in lspace (bl r') = 63 /\ blayout_end r' = 29) /\
  (* the current code: every block (the bytes and the padding of the last block) comes back *)
  len_of 0%nat (linodes (bl (reopened s))) = 35 * 2048 /\
  lspace (bl (reopened s)) = 62 /\ blayout_end (reopened s) = 62.
Proof. vm_compute. repeat split; reflexivity. Qed.

(* before 9223b0e: writing the reopened, unedited state (after a new layout) does not give the same image,
   though the SECOND rewrite is stable on this witness *)
Theorem boot_reopen_second_write_fixpoint_refuted_old :
  exists ops, let s := brun binit ops in
    view_sig_eqb (own_len (reopened_gen Mid s)) s (reopened_gen Mid s) = false /\
    let r := reopened_gen Mid s in
    view_sig_eqb (own_len (reopened_gen Mid r)) r (reopened_gen Mid r) = true.
Proof. exists bp_shrink_ops. vm_compute. split; reflexivity. Qed.

(* before 9223b0e: rm_eltorito on the reopened object does not end in the state of rm_eltorito followed by
   reopen: the blocks the hidden boot file lost at open() stay in pvd.space_size *)
Theorem boot_reopen_rm_eltorito_refuted_old :
  exists ops, let s := brun binit ops in
    lspace (bl (fst (bstep (reopened_gen Mid s) BRmEltorito))) <>
    lspace (bl (reopened_gen Mid (fst (bstep s BRmEltorito)))) /\
    (* the current code agrees on this witness *)
    lspace (bl (fst (bstep (reopened s) BRmEltorito))) = lspace (bl (reopened (fst (bstep s BRmEltorito)))).
Proof. exists bp_shrink_ops. vm_compute. split; [discriminate|reflexivity]. Qed.

(* the current code on the same witnesses and on a boot file without name that carries a boot info table (1 byte:
   the table is there but too short to be trusted, 3000 bytes: the table gives the exact length): writing the
   reopened, unedited state after a new layout gives the same image summary (labels aside; the boot info tables
   keep the orig_len / checksum that were written: [reopened_olen]) *)
Definition bp_table_ops (len : Z) : list bop :=
  [BAddFile [] bp_nA len; BAddFile [] bp_nC 100; BAddEltorito [bp_nA] [] bp_nCAT None 0 true false 0 true 0;
   BRmLink [] bp_nA].
Definition bp_olen_of (s : bstate) (i : nat) : Z * Z :=
  match assoc i (reopened_olen s) with Some v => v | None => own_len (reopened s) i end.
Theorem boot_reopen_second_write_fixpoint_examples :
  forallb (fun ops => let s := brun binit ops in view_sig_eqb (bp_olen_of s) s (reopened s))
          [bp_overlap_ops; bp_shrink_ops; bp_table_ops 1; bp_table_ops 3000] = true.
Proof. vm_compute. reflexivity. Qed.

Print Assumptions boot_reopen_space_exact_refuted_old.
Print Assumptions boot_reopen_hidden_overlap_refuted_old.
Print Assumptions boot_reopen_hidden_tail_lost_refuted_old.
Print Assumptions boot_reopen_second_write_fixpoint_refuted_old.
Print Assumptions boot_reopen_rm_eltorito_refuted_old.
