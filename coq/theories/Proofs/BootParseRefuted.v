(* C11 / C02 -- Model/BootParse.v: the statements about the reopened object that are FALSE for the code as
   it is, with their witnesses (both reproduced on the library: /var/tmp/bootparse/repro_hidden_overlap.py,
   repro_hidden_shrinks.py; tools/boot_parse_cases.py hits them too). *)
From Coq Require Import ZArith List Bool Lia.
From PV.Base Require Import Prim.
From PV.Gen Require Import GenConst GenFun.
From PV.Model Require Import Alloc Eltorito Account AccountLinks AccountBoot BootParse.
Import ListNotations.
Local Open Scope Z_scope.

Definition bp_nA : ident := [65; 46; 59; 49].                                  (* A.;1 *)
Definition bp_nB : ident := [66; 46; 59; 49].                                  (* B.;1 *)
Definition bp_nC : ident := [67; 46; 59; 49].                                  (* C.;1 *)
Definition bp_nCAT : ident := [66; 79; 79; 84; 46; 67; 65; 84; 59; 49].        (* BOOT.CAT;1 *)
Definition bp_el (bp : path) (ls : option Z) : bop := BAddEltorito bp [] bp_nCAT ls 0 false false 0 true 0.

(* two boot files, the first loads 8 sectors out of a 1-byte file; both names removed *)
Definition bp_overlap_ops : list bop :=
  [BAddFile [] bp_nA 1; BAddFile [] bp_nB 3000; BAddFile [] bp_nC 100; bp_el [bp_nA] (Some 8); bp_el [bp_nB] None;
   BRmLink [] bp_nA; BRmLink [] bp_nB].
(* one boot file of 70000 bytes, 4 sectors to load, its name removed *)
Definition bp_shrink_ops : list bop :=
  [BAddFile [] bp_nA 70000; BAddFile [] bp_nC 100; bp_el [bp_nA] (Some 4); BRmLink [] bp_nA].

(* 1. after open() the declared volume size is NOT the end of the layout, in both directions *)
Theorem boot_reopen_space_exact_refuted :
  (exists ops, let s := brun binit ops in
     boot_parse (boot_view s) = POk (reopened s) /\ lspace (bl (reopened s)) < blayout_end (reopened s)) /\
  (exists ops, let s := brun binit ops in
     boot_parse (boot_view s) = POk (reopened s) /\ blayout_end (reopened s) < lspace (bl (reopened s))).
Proof.
  split.
  - exists bp_overlap_ops. vm_compute. split; reflexivity.
  - exists bp_shrink_ops. vm_compute. split; reflexivity.
Qed.

(* the first witness in detail: the two boot files without names come back OVERLAPPING (the room of the
   first one is measured up to the next NAMED file, not up to the second entry's extent), the next layout
   needs 31 blocks, pvd.space_size says 30: _reshuffle_extents raises 'Assigned an extent beyond the ISO' *)
Theorem boot_reopen_hidden_overlap :
  let s := brun binit bp_overlap_ops in
  entry_rbas s = [26; 27] /\
  reopened_src s = [(2%nat, (29, 100)); (0%nat, (26, 4096)); (1%nat, (27, 4096))] /\
  ~ disjoint (26, ceiling_div 4096 C) (27, ceiling_div 4096 C) /\
  lspace (bl (reopened s)) = 30 /\ blayout_end (reopened s) = 31 /\ bp_wrecked (reopened s) = true.
Proof.
  vm_compute. repeat split; try reflexivity. intros [H|H]; apply H; reflexivity.
Qed.

(* the second witness in detail: 34 of the 35 blocks of the boot file are dropped by the next layout, but
   stay counted in pvd.space_size, also after further edits (add_fp here) *)
Theorem boot_reopen_hidden_shrinks :
  let s := brun binit bp_shrink_ops in
  len_of 0%nat (linodes (bl s)) = 70000 /\ len_of 0%nat (linodes (bl (reopened s))) = 2048 /\
  lspace (bl (reopened s)) = 62 /\ blayout_end (reopened s) = 28 /\
  let r' := fst (bstep (reopened s) (BAddFile [] bp_nB 1)) in
  lspace (bl r') = 63 /\ blayout_end r' = 29.
Proof. vm_compute. repeat split; reflexivity. Qed.

(* 2. writing the reopened, unedited state (after a new layout) does not give the same image ... *)
Theorem boot_reopen_second_write_fixpoint_refuted :
  exists ops, let s := brun binit ops in
    view_sig_eqb (own_len (reopened s)) s (reopened s) = false.
Proof. exists bp_shrink_ops. vm_compute. reflexivity. Qed.

(* ... but on these witnesses the SECOND rewrite is stable: reopening the reopened state changes nothing more *)
Theorem boot_reopen_third_write_stable_example :
  let r := reopened (brun binit bp_shrink_ops) in
  view_sig_eqb (own_len (reopened r)) r (reopened r) = true /\
  linodes (bl (reopened r)) = linodes (bl r) /\ lspace (bl (reopened r)) = lspace (bl r).
Proof. vm_compute. repeat split; reflexivity. Qed.

(* 3. rm_eltorito on the reopened object does not end in the state of rm_eltorito followed by reopen: the
   blocks the hidden boot file lost at open() stay in pvd.space_size *)
Theorem boot_reopen_rm_eltorito_refuted :
  exists ops, let s := brun binit ops in
    lspace (bl (fst (bstep (reopened s) BRmEltorito))) <> lspace (bl (reopened (fst (bstep s BRmEltorito)))).
Proof. exists bp_shrink_ops. vm_compute. discriminate. Qed.

Print Assumptions boot_reopen_space_exact_refuted.
Print Assumptions boot_reopen_hidden_overlap.
Print Assumptions boot_reopen_second_write_fixpoint_refuted.
Print Assumptions boot_reopen_rm_eltorito_refuted.
