(* Proofs/RelocProofs.v -- Rock Ridge deep-directory relocation (Model/Reloc.v): main theorems,
   for EVERY history of add_directory / rm_directory / add_fp / add_symlink / rm_file on a fresh
   Rock Ridge image (inside the guards of the model: [run_ok]), for every assignment [sz] of block
   counts >= 1 to the directories and every root extent [start]:

     reloc_logical_is_spec           the object graph, with relocation marks erased, is the plain
                                     logical tree the edits imply
     reloc_reader_sees_logical_tree  an independent reader (CL followed, RE skipped, RR_MOVED hidden)
                                     finds in the written image exactly that tree, with
                                     st_nlink = 2 + logical sub-directories at every directory
     reloc_links_consistent          CL -> exactly the RE directory whose '..' carries PL back to the
                                     placeholder's directory; every RE directory has its CL; no two
                                     CL share a target; nothing dangles
     reloc_parent_logical            '..' (through PL) of every directory is its logical parent
     reloc_nlink_root / reloc_nlink_records / reloc_nlink_placeholder
                                     the PX link counts pycdlib records (root: +1 while RR_MOVED
                                     exists; '..' of a relocated directory: RR_MOVED's count)
     reloc_extents_disjoint          directory extents do not overlap
     reloc_refused_unchanged         a refused operation changes nothing
   and the deviations, with concrete witnesses:
     reloc_nlink_root_refuted, reloc_dotdot_nlink_refuted, reloc_physical_depth_refuted. *)
From Coq Require Import ZArith List Bool Lia Permutation.
From PV.Model Require Import Reloc.
From PV.Proofs Require Import RelocBase RelocPath RelocInv RelocSpec RelocExt RelocPaths RelocReader RelocLinks.
Import ListNotations.
Local Open Scope Z_scope.

Lemma rl_ext_root sz start all : ext sz start all [] = start.
Proof.
  unfold ext. replace (filter (fun q => bfs_lt q []) all) with (@nil ppath); [cbn; lia|].
  induction all as [|h l IH]; cbn [filter]; [reflexivity|].
  assert (bfs_lt h [] = false) as ->; [|exact IH].
  unfold bfs_lt. destruct h; reflexivity.
Qed.

Lemma rl_NoDup_map_eq {A B} (f : A -> B) l x y :
  NoDup (map f l) -> In x l -> In y l -> f x = f y -> x = y.
Proof.
  induction l as [|h l IH]; intros N Hx Hy E; [destruct Hx|].
  cbn [map] in N. inversion N as [|? ? Hh N']; subst.
  destruct Hx as [<-|Hx], Hy as [<-|Hy]; try reflexivity.
  - exfalso. apply Hh. rewrite E. apply in_map. exact Hy.
  - exfalso. apply Hh. rewrite <- E. apply in_map. exact Hx.
  - apply IH; assumption.
Qed.

Lemma rl_at_inv s pcur pl k : rl_at s pcur pl k ->
  (pcur = [] /\ pl = s_dot s /\ In k (s_kids s)) \/
  (exists pc0 pl0 i r e d m ks, rl_at s pc0 pl0 (Dir i r e d m ks) /\ In k ks /\
     pcur = self_path pc0 (Dir i r e d m ks) /\ pl = e).
Proof.
  destruct 1 as [k Hk|pc0 pl0 i r e d m ks k A Hk]; [left; repeat split; exact Hk|].
  right. exists pc0, pl0, i, r, e, d, m, ks. repeat split; assumption.
Qed.

Theorem reloc_invariant ops : rl_inv (run init ops).
Proof. apply rl_run_inv, rl_inv_init. Qed.

Theorem reloc_logical_is_spec ops : run_ok init ops = true ->
  logical (run init ops) = logical_spec ops.
Proof. intros H. rewrite (rl_run_spec ops init H). reflexivity. Qed.

Theorem reloc_refused_unchanged s o : snd (step s o) <> Acc -> fst (step s o) = s.
Proof. apply rl_step_refused. Qed.

Section Final.
Variables (sz : ppath -> Z) (start : Z).
Hypothesis Hsz : forall x, 1 <= sz x.

Section State.
Variable s : state.
Hypothesis Hinv : rl_inv s.
Let E := ext_of sz start s.
Let im := view sz start s.

Lemma rl_E_root : E [] = start.
Proof. apply rl_ext_root. Qed.

Lemma rl_node_in_im x : In x (all_nodes s) ->
  In (E (node_path x), snd (entry E (moved_ent s) x)) im.
Proof.
  intros H. unfold im, view, phys. rewrite <- (rl_entry_fst sz start s (moved_ent s) x).
  apply (in_map (fun y => (ext_of sz start s (fst y), snd y))). right. apply in_or_app. right.
  apply in_map. exact H.
Qed.

Lemma rl_root_in_im : In (E [], snd (root_entry E s)) im.
Proof. unfold im, view, phys. left. reflexivity. Qed.

Lemma rl_nodes_path_eq x y : In x (all_nodes s) -> In y (all_nodes s) ->
  node_path x = node_path y -> x = y.
Proof.
  apply rl_NoDup_map_eq. pose proof (rl_ppaths_NoDup s Hinv) as N. unfold ppaths in N.
  inversion N as [|? ? _ N']; subst. apply rl_NoDup_app_inv in N'. tauto.
Qed.

Lemma rl_node_path_in x : In x (all_nodes s) -> In (node_path x) (ppaths s).
Proof. intros H. unfold ppaths. right. apply in_or_app. right. apply in_map. exact H. Qed.

(* ---- CL / PL / RE --------------------------------------------------------------------------- *)
Lemma rl_cl_target e recs r c : In (e, recs) im -> In r recs -> r_cl r = Some c ->
  exists dotr ddr rest mrecs mr,
    lookup im c = Some (dotr :: ddr :: rest) /\ r_ext dotr = c /\ r_pl ddr = Some e /\
    lookup im (E [moved_name]) = Some mrecs /\ In mr mrecs /\ r_re mr = true /\ r_ext mr = c /\
    r_rr mr = r_rr r /\ r_dir mr = true.
Proof.
  intros Hin Hr Hc.
  destruct (rl_cl_record sz start s e recs r c Hin Hr Hc)
    as (pcur & pl & k & i & rr & en & d & mn & ks & -> & A & -> & -> & ->).
  pose proof (rl_at_all_nodes _ _ _ _ A eq_refl) as Hx.
  pose proof (rl_node_lookup sz start s Hsz Hinv _ Hx) as L.
  unfold node_path in L. cbn [fst snd self_path entry dir_recs] in L.
  pose proof (rl_live_of_node s Hinv _ _ _ _ _ _ _ _ Hx) as Lv.
  pose proof (rl_moved_lookup sz start s Hsz Hinv Lv) as Lm.
  do 5 eexists. split; [exact L|]. split; [reflexivity|]. split; [reflexivity|].
  split; [exact Lm|]. split.
  { right. right. eapply rl_moved_recs_of. exact Hx. }
  repeat split.
Qed.

Lemma rl_re_has_cl e recs mr : In (e, recs) im -> In mr recs -> r_re mr = true ->
  e = E [moved_name] /\
  exists e' recs' r, In (e', recs') im /\ In r recs' /\ r_cl r = Some (r_ext mr) /\ r_rr r = r_rr mr.
Proof.
  intros Hin Hr Hre. destruct (rl_re_record sz start s e recs mr Hin Hr Hre) as [-> Hm].
  split; [reflexivity|].
  destruct (rl_moved_recs_in sz start s mr Hm) as (pc & pl & i & rr & en & d & mn & ks & Hx & ->).
  destruct (rl_all_nodes_at s _ Hx) as [A _]. cbn [fst snd] in A.
  exists (E pc). destruct (rl_at_inv _ _ _ _ A) as [(-> & _ & Hk)|(pcur & pl0 & i0 & r0 & e0 & d0 & m0 & ks0 & A0 & Hk & -> & _)].
  - exists (snd (root_entry E s)), (kid_rec E [] (Dir i rr en d (Some mn) ks)).
    split; [apply rl_root_in_im|]. split; [|split; reflexivity].
    cbn [root_entry snd]. right. right.
    assert (Hin' : In (kid_rec E [] (Dir i rr en d (Some mn) ks)) (map (kid_rec E []) (s_kids s)))
      by (apply in_map; exact Hk).
    destruct (moved_live s); [apply rl_in_ins_rec; right; exact Hin'|exact Hin'].
  - pose proof (rl_at_all_nodes _ _ _ _ A0 eq_refl) as Hp.
    pose proof (rl_node_in_im _ Hp) as Hpi. unfold node_path in Hpi. cbn [fst snd] in Hpi.
    destruct (rl_entry_shape sz start s pcur pl0 i0 r0 e0 d0 m0 ks0) as (par & ddl & plv & Es).
    fold E in Es. rewrite Es in Hpi.
    eexists. exists (kid_rec E (self_path pcur (Dir i0 r0 e0 d0 m0 ks0)) (Dir i rr en d (Some mn) ks)).
    split; [exact Hpi|]. split; [|split; reflexivity].
    unfold dir_recs. right. right. apply in_map. exact Hk.
Qed.

Lemma rl_cl_unique e1 recs1 r1 e2 recs2 r2 c :
  In (e1, recs1) im -> In r1 recs1 -> r_cl r1 = Some c ->
  In (e2, recs2) im -> In r2 recs2 -> r_cl r2 = Some c -> e1 = e2 /\ r1 = r2.
Proof.
  intros H1 R1 C1 H2 R2 C2.
  destruct (rl_cl_record sz start s _ _ _ _ H1 R1 C1)
    as (pc1 & pl1 & k1 & i1 & rr1 & en1 & d1 & mn1 & ks1 & -> & A1 & -> & -> & Ec1).
  destruct (rl_cl_record sz start s _ _ _ _ H2 R2 C2)
    as (pc2 & pl2 & k2 & i2 & rr2 & en2 & d2 & mn2 & ks2 & -> & A2 & -> & -> & Ec2).
  pose proof (rl_at_all_nodes _ _ _ _ A1 eq_refl) as X1.
  pose proof (rl_at_all_nodes _ _ _ _ A2 eq_refl) as X2.
  assert (P : [moved_name; mn1] = [moved_name; mn2]).
  { apply (rl_E_inj sz start s Hsz);
      [exact (rl_node_path_in _ X1)|exact (rl_node_path_in _ X2)|congruence]. }
  pose proof (rl_nodes_path_eq _ _ X1 X2 P) as Ex. injection Ex as <- <- <- <- <- <- <- <-.
  split; reflexivity.
Qed.

(* the parent a reader computes (PL if present, else the extent of '..') is the directory that
   holds the record or the placeholder: the logical parent *)
Lemma rl_parent x : In x (all_nodes s) -> rr_parent im (E (node_path x)) = Some (E (fst (fst x))).
Proof.
  intros Hx. unfold rr_parent, E, im. rewrite (rl_node_lookup sz start s Hsz Hinv x Hx).
  destruct (rl_all_nodes_at s x Hx) as [_ D]. destruct x as [[pcur pl] [i r e d [mn|] ks|]];
    [reflexivity|reflexivity|discriminate].
Qed.

(* PX link counts of the '.' and '..' records of every directory *)
Lemma rl_node_links pcur pl i r e d m ks : In (pcur, pl, Dir i r e d m ks) (all_nodes s) ->
  exists dotr ddr rest,
    lookup im (E (self_path pcur (Dir i r e d m ks))) = Some (dotr :: ddr :: rest) /\
    r_links dotr = 2 + ldirs (map erase ks) /\ e = 2 + ldirs (map erase ks) /\
    r_links ddr = match m with None => pl | Some _ => moved_ent s end.
Proof.
  intros Hx. pose proof (rl_node_lookup sz start s Hsz Hinv _ Hx) as L.
  unfold node_path in L. cbn [fst snd] in L. destruct (rl_all_nodes_at s _ Hx) as [A _]. cbn [fst snd] in A.
  destruct (rl_at_ok s _ _ _ Hinv A) as [Ok _]. inversion Ok as [? ? ? ? ? ? _ He Hd _ _|]; subst.
  rewrite rl_ldirs_erase. destruct m as [mn|]; cbn [entry snd dir_recs] in L;
    do 3 eexists; (split; [exact L|]); repeat split.
Qed.

Lemma rl_pl_value pcur pl n : rl_at s pcur pl n ->
  (pcur = [] /\ pl = s_dot s) \/
  (exists pc0 pl0 i r e d m ks, rl_at s pc0 pl0 (Dir i r e d m ks) /\
     pcur = self_path pc0 (Dir i r e d m ks) /\ pl = 2 + ldirs (map erase ks)).
Proof.
  intros A. destruct (rl_at_inv _ _ _ _ A) as [(-> & -> & _)|(pc0 & pl0 & i & r & e & d & m & ks & A0 & _ & -> & ->)];
    [left; split; reflexivity|].
  right. destruct (rl_at_ok s _ _ _ Hinv A0) as [Ok _]. inversion Ok as [? ? ? ? ? ? _ He Hd _ _|]; subst.
  exists pc0, pl0, i, r, (2 + ndirs ks), (2 + ndirs ks), m, ks. rewrite rl_ldirs_erase. repeat split. exact A0.
Qed.
End State.

(* ============================ theorems over every history =================================== *)
Variable ops : list op.
Let s := run init ops.
Let im := view sz start s.
Let E := ext_of sz start s.

Theorem reloc_reader_sees_logical_tree fuel : run_ok init ops = true -> (fuel_of s <= fuel)%nat ->
  rr_reader im start fuel = Some (expected (logical_spec ops)).
Proof.
  intros Hok Hf. unfold rr_reader. rewrite <- (rl_ext_root sz start (ppaths s)).
  pose proof (rl_read_root sz start s Hsz (reloc_invariant ops) fuel Hf) as R.
  fold im in R. unfold ext_of in R. rewrite R. cbn [option_map snd].
  unfold s. rewrite (reloc_logical_is_spec ops Hok). reflexivity.
Qed.

Theorem reloc_nlink_root fuel : run_ok init ops = true -> (fuel_of s <= fuel)%nat ->
  rr_root_nlink im start fuel = Some (2 + ldirs (logical_spec ops) + b2z (moved_live s)).
Proof.
  intros Hok Hf. unfold rr_root_nlink. rewrite <- (rl_ext_root sz start (ppaths s)).
  pose proof (rl_read_root sz start s Hsz (reloc_invariant ops) fuel Hf) as R.
  fold im in R. unfold ext_of in R. rewrite R. cbn [option_map fst].
  destruct (reloc_invariant ops) as [_ _ _ Id _ _]. fold s in Id. rewrite Id.
  rewrite <- (reloc_logical_is_spec ops Hok). fold s. unfold logical. rewrite rl_ldirs_erase. reflexivity.
Qed.

(* RR_MOVED's own counts, while it exists *)
Theorem reloc_nlink_moved : moved_live s = true ->
  moved_ent s = 2 + Z.of_nat (length (mnames (s_kids s))) /\ moved_dot s = moved_ent s.
Proof.
  destruct (reloc_invariant ops) as [_ _ _ _ _ Imv]. fold s in Imv. unfold moved_live, moved_ent, moved_dot.
  destruct (s_moved s) as [[e d]|]; [|discriminate]. intros _. destruct Imv as [-> ->]. split; reflexivity.
Qed.

Theorem reloc_links_consistent :
  (forall e recs r c, In (e, recs) im -> In r recs -> r_cl r = Some c ->
     exists dotr ddr rest mrecs mr,
       lookup im c = Some (dotr :: ddr :: rest) /\ r_ext dotr = c /\ r_pl ddr = Some e /\
       lookup im (E [moved_name]) = Some mrecs /\ In mr mrecs /\ r_re mr = true /\ r_ext mr = c /\
       r_rr mr = r_rr r /\ r_dir mr = true) /\
  (forall e recs mr, In (e, recs) im -> In mr recs -> r_re mr = true ->
     e = E [moved_name] /\
     exists e' recs' r, In (e', recs') im /\ In r recs' /\ r_cl r = Some (r_ext mr) /\ r_rr r = r_rr mr) /\
  (forall e1 recs1 r1 e2 recs2 r2 c,
     In (e1, recs1) im -> In r1 recs1 -> r_cl r1 = Some c ->
     In (e2, recs2) im -> In r2 recs2 -> r_cl r2 = Some c -> e1 = e2 /\ r1 = r2) /\
  NoDup (map fst im).
Proof.
  pose proof (reloc_invariant ops) as I. fold s in I. split; [|split; [|split]].
  - apply (rl_cl_target s I).
  - apply (rl_re_has_cl s).
  - apply (rl_cl_unique s I).
  - apply (rl_im_NoDup sz start s Hsz I).
Qed.

Theorem reloc_parent_logical x : In x (all_nodes s) ->
  rr_parent im (E (node_path x)) = Some (E (fst (fst x))).
Proof. apply (rl_parent s (reloc_invariant ops)). Qed.

Theorem reloc_nlink_records pcur pl i r e d m ks : In (pcur, pl, Dir i r e d m ks) (all_nodes s) ->
  (exists dotr ddr rest,
     lookup im (E (self_path pcur (Dir i r e d m ks))) = Some (dotr :: ddr :: rest) /\
     r_links dotr = 2 + ldirs (map erase ks) /\ e = 2 + ldirs (map erase ks) /\
     r_links ddr = match m with None => pl | Some _ => moved_ent s end) /\
  ((pcur = [] /\ pl = s_dot s) \/
   (exists pc0 pl0 i0 r0 e0 d0 m0 ks0, rl_at s pc0 pl0 (Dir i0 r0 e0 d0 m0 ks0) /\
      pcur = self_path pc0 (Dir i0 r0 e0 d0 m0 ks0) /\ pl = 2 + ldirs (map erase ks0))).
Proof.
  intros Hx. pose proof (reloc_invariant ops) as I. fold s in I. split.
  - apply (rl_node_links s I). exact Hx.
  - destruct (rl_all_nodes_at s _ Hx) as [A _]. exact (rl_pl_value s I _ _ _ A).
Qed.

Theorem reloc_nlink_placeholder e recs r c : In (e, recs) im -> In r recs -> r_cl r = Some c ->
  r_links r = 2 /\ r_dir r = false /\ r_ext r = 0.
Proof.
  intros Hin Hr Hc. pose proof (reloc_invariant ops) as I. fold s in I.
  destruct (rl_cl_record sz start s e recs r c Hin Hr Hc)
    as (pcur & pl & k & i & rr & en & d & mn & ks & -> & _ & _ & -> & _).
  repeat split.
Qed.

Theorem reloc_extents_disjoint p q : In p (ppaths s) -> bfs_lt p q = true -> E p + sz p <= E q.
Proof. intros Hp Hlt. apply rl_ext_lt; assumption. Qed.
End Final.

(* ============================ witnesses ====================================================== *)
Definition nm (c : Z) : name := [c].
Fixpoint chain (base : list name) (cs : list Z) : list op :=
  match cs with
  | [] => []
  | c :: r => AddDir (base ++ [nm c]) (nm (c + 32)) :: chain (base ++ [nm c]) r
  end.
Definition one : ppath -> Z := fun _ => 1.

(* /A/B/C/D/E/F/G/H: the root records 2 + 1 logical sub-directory + 1 for RR_MOVED *)
Theorem reloc_nlink_root_refuted : exists ops,
  run_ok init ops = true /\
  rr_root_nlink (view one 23 (run init ops)) 23 (fuel_of (run init ops)) <>
  Some (2 + ldirs (logical_spec ops)).
Proof. exists (chain [] [65; 66; 67; 68; 69; 70; 71; 72]). split; [reflexivity|]. vm_compute. discriminate. Qed.

(* two relocated directories H under /A/../G and /I/../G: the '..' record of the first carries
   RR_MOVED's count 4, its logical parent /A/../G has st_nlink 3 *)
Definition two_chains : list op :=
  chain [] [65; 66; 67; 68; 69; 70; 71; 72] ++ chain [] [73; 66; 67; 68; 69; 70; 71; 72].
Theorem reloc_dotdot_nlink_refuted :
  run_ok init two_chains = true /\
  let s := run init two_chains in
  let im := view one 23 s in
  exists dotr ddr rest pdot prest,
    lookup im (ext_of one 23 s [moved_name; nm 72]) = Some (dotr :: ddr :: rest) /\
    r_pl ddr = Some (ext_of one 23 s (map nm [65; 66; 67; 68; 69; 70; 71])) /\
    lookup im (ext_of one 23 s (map nm [65; 66; 67; 68; 69; 70; 71])) = Some (pdot :: prest) /\
    r_links ddr = 4 /\ r_links pdot = 3.
Proof. split; [reflexivity|]. vm_compute. do 5 eexists. repeat split. Qed.

(* a chain of 15: /RR_MOVED/H/I/J/K/L/M/N/O is a directory at level 10 of the physical hierarchy
   (ECMA-119 6.8.2.1 allows 8) *)
Theorem reloc_physical_depth_refuted : exists ops,
  run_ok init ops = true /\ exists p, In p (ppaths (run init ops)) /\ (8 < length p)%nat.
Proof.
  exists (chain [] [65; 66; 67; 68; 69; 70; 71; 72; 73; 74; 75; 76; 77; 78; 79]). split; [reflexivity|].
  exists (moved_name :: map nm [72; 73; 74; 75; 76; 77; 78; 79]). split; [vm_compute; tauto|cbn; lia].
Qed.

(* a complete example through the reader: depth 9 with a file and a symlink inside the relocated
   directory *)
Example reloc_example :
  let ops := chain [] [65; 66; 67; 68; 69; 70; 71; 72; 73] ++
             [AddLeaf false (map nm [65; 66; 67; 68; 69; 70; 71; 72] ++ [[70; 46; 59; 49]]) [102];
              AddLeaf true (map nm [65; 66; 67; 68; 69; 70; 71; 72; 73] ++ [[83]]) [115];
              RmDir (map nm [65; 66; 67; 68; 69; 70; 71; 72])] in
  outcomes init ops = [Acc; Acc; Acc; Acc; Acc; Acc; Acc; Acc; Acc; Acc; Acc; Ref] /\
  rr_reader (view one 23 (run init ops)) 23 (fuel_of (run init ops)) = Some (expected (logical_spec ops)).
Proof. vm_compute. split; reflexivity. Qed.

Print Assumptions reloc_logical_is_spec.
Print Assumptions reloc_reader_sees_logical_tree.
Print Assumptions reloc_links_consistent.
Print Assumptions reloc_parent_logical.
Print Assumptions reloc_nlink_root.
Print Assumptions reloc_nlink_moved.
Print Assumptions reloc_nlink_records.
Print Assumptions reloc_nlink_placeholder.
Print Assumptions reloc_extents_disjoint.
Print Assumptions reloc_refused_unchanged.
Print Assumptions reloc_nlink_root_refuted.
Print Assumptions reloc_dotdot_nlink_refuted.
Print Assumptions reloc_physical_depth_refuted.
Print Assumptions reloc_example.
