(* C11 / C02 -- Model/BootParse.v, part 9: two facts about EVERY edit history of AccountBoot (current
   code) that the parse theorems need: the stamps of the records are distinct and below lnext, and a
   record without inode is a name of the El Torito catalog ([PInv], preserved by every operation). *)
From Coq Require Import ZArith List Bool Lia ZifyBool Sorted Arith Permutation.
From PV.Base Require Import Prim.
From PV.Gen Require Import GenConst GenFun.
From PV.Model Require Import Names Checksums Pack Alloc Codec Eltorito Account AccountLinks AccountBoot BootParse.
From PV.Proofs Require Import PackProofs AllocProofs ChecksumsArithProofs AccountLemmas AccountProofs
     AccountLinksLemmas AccountLinksPurge AccountLinksInv EltoritoCatalogProofs EltoritoBuiltProofs
     AccountBootLemmas AccountBootInv AccountBootInv2 AccountBootFix BootParseLayout BootParseWalk
     BootParseLink BootParseTable BootParseProofs.
Import ListNotations.
Local Open Scope Z_scope.
Ltac Zify.zify_post_hook ::= Z.to_euclidean_division_equations.

(* the number of records with stamp st *)
Definition lw_st (st : nat) (n : lnode) : Z :=
  match n with LFile _ _ st' => if Nat.eqb st' st then 1 else 0 | _ => 0 end.
Definition bp_stcount (st : nat) (n : lnode) : Z := ltotal (lw_st st) n.

Lemma lw_st_nonneg st n : 0 <= lw_st st n.
Proof. destruct n as [nm i st'|nm dl k]; cbn [lw_st]; [destruct (Nat.eqb st' st)|]; lia. Qed.
Lemma bp_stcount_nonneg st n : 0 <= bp_stcount st n.
Proof. apply ltotal_nonneg, lw_st_nonneg. Qed.

Record PInv (s : bstate) : Prop := {
  pi_st_le : forall st, bp_stcount st (lroot (bl s)) <= 1;
  pi_st_fresh : forall st, (lnext (bl s) <= st)%nat -> bp_stcount st (lroot (bl s)) = 0;
  pi_cat : forall j, 0 < lrefcount j (lroot (bl s)) -> In j (ids (linodes (bl s))) \/ in_cat j (bboot s) = true;
  pi_one : forall j, ~ In j (ids (linodes (bl s))) -> lrefcount j (lroot (bl s)) <= 1 }.

Lemma bp_pinv_init : PInv binit.
Proof.
  constructor; cbn [binit bl bboot linit lroot linodes lnext].
  - intros st. unfold bp_stcount. rewrite ltotal_dir, ltotals_nil. cbn [lw_st]. lia.
  - intros st _. unfold bp_stcount. rewrite ltotal_dir, ltotals_nil. cbn [lw_st]. lia.
  - intros j. unfold lrefcount. rewrite ltotal_dir, ltotals_nil. cbn. lia.
  - intros j _. unfold lrefcount. rewrite ltotal_dir, ltotals_nil. cbn. lia.
Qed.

(* ---- the directory found at p is replaced ----------------------------------------------------------- *)

Lemma bp_update_pinv s p dn dl kids dl' kids' tbl' nx' ps' pe' sp' bt' bits' wr' :
  PInv s -> lsubtree p (lroot (bl s)) = Some (LDir dn dl kids) ->
  (forall st, bp_stcount st (lroot (bl s)) + (ltotals (lw_st st) kids' - ltotals (lw_st st) kids) <= 1) ->
  (forall st, (nx' <= st)%nat ->
     bp_stcount st (lroot (bl s)) + (ltotals (lw_st st) kids' - ltotals (lw_st st) kids) <= 0) ->
  (forall j, 0 < lrefcount j (lroot (bl s)) + (ltotals (lw_ref j) kids' - ltotals (lw_ref j) kids) ->
     In j (ids tbl') \/ in_cat j bt' = true) ->
  (forall j, ~ In j (ids tbl') ->
     lrefcount j (lroot (bl s)) + (ltotals (lw_ref j) kids' - ltotals (lw_ref j) kids) <= 1) ->
  PInv {| bl := {| lroot := lreplace p (LDir dn dl' kids') (lroot (bl s)); linodes := tbl'; lnext := nx';
                   lptr_size := ps'; lptr_ext := pe'; lspace := sp' |};
          bboot := bt'; bbits := bits'; bwreck := wr' |}.
Proof.
  intros HP Hsub H1 H2 H3 H4.
  assert (Est : forall st, bp_stcount st (lreplace p (LDir dn dl' kids') (lroot (bl s)))
                = bp_stcount st (lroot (bl s)) + (ltotals (lw_st st) kids' - ltotals (lw_st st) kids)).
  { intros st. unfold bp_stcount. rewrite (ltotal_replace _ p _ _ _ Hsub), !ltotal_dir. cbn [lw_st]. lia. }
  constructor; cbn [bl bboot lroot linodes lnext].
  - intros st. rewrite Est. apply H1.
  - intros st Hst. pose proof (bp_stcount_nonneg st (lreplace p (LDir dn dl' kids') (lroot (bl s)))) as N.
    rewrite Est in *. specialize (H2 st Hst). lia.
  - intros j. rewrite (lrefcount_replace j p _ _ _ _ _ _ Hsub). apply H3.
  - intros j. rewrite (lrefcount_replace j p _ _ _ _ _ _ Hsub). apply H4.
Qed.

(* ---- adding a record ------------------------------------------------------------------------------------ *)

Lemma bp_add_record_pinv s dirp nm ino tbl' extra bt' bits' wr' :
  PInv s -> BInv s -> snd (add_record (bl s) dirp nm ino tbl' extra) = true ->
  (forall j, In j (ids (linodes (bl s))) -> In j (ids tbl')) ->
  (forall j, in_cat j (bboot s) = true -> in_cat j bt' = true) ->
  (In ino (ids tbl') \/ (in_cat ino bt' = true /\ lrefcount ino (lroot (bl s)) = 0)) ->
  PInv {| bl := fst (add_record (bl s) dirp nm ino tbl' extra); bboot := bt'; bbits := bits'; bwreck := wr' |}.
Proof.
  intros HP HI Hacc Htbl Hcat Hino. revert Hacc. unfold add_record, lrefuse. cbv zeta.
  destruct (too_deep dirp); [discriminate|].
  destruct (lsubtree dirp (lroot (bl s))) as [[fn fi fs|dn dl kids]|] eqn:Hsub; try discriminate.
  destruct (check_iso9660_filename nm 3) eqn:Hchk; try discriminate.
  destruct (dr_len_of nm >? 255) eqn:Hx; [discriminate|].
  destruct (llookup nm kids) as [[k c]|] eqn:Hl; [discriminate|].
  intros _. cbn [fst].
  apply (bp_update_pinv s dirp dn dl kids); [exact HP|exact Hsub| | | |].
  - intros st. rewrite ltotals_insert_at, ltotal_file. cbn [lw_st].
    pose proof (pi_st_le s HP st). destruct (Nat.eqb_spec (lnext (bl s)) st) as [<-|_]; [|lia].
    rewrite (pi_st_fresh s HP (lnext (bl s)) (Nat.le_refl _)). lia.
  - intros st Hst. rewrite ltotals_insert_at, ltotal_file. cbn [lw_st].
    rewrite (pi_st_fresh s HP st) by lia. destruct (Nat.eqb_spec (lnext (bl s)) st); lia.
  - intros j. rewrite ltotals_insert_at, ltotal_file, lw_ref_file. destruct (Nat.eqb_spec ino j) as [<-|Hne].
    + intros _. destruct Hino as [H|[H _]]; [left|right]; exact H.
    + intros H. destruct (pi_cat s HP j) as [H'|H']; [lia|left; apply Htbl, H'|right; apply Hcat, H'].
  - intros j Hj. rewrite ltotals_insert_at, ltotal_file, lw_ref_file.
    assert (Hj' : ~ In j (ids (linodes (bl s)))) by (intros H; apply Hj, Htbl, H).
    pose proof (pi_one s HP j Hj'). destruct (Nat.eqb_spec ino j) as [<-|Hne]; [|lia].
    destruct Hino as [H'|[_ H']]; [contradiction|lia].
Qed.

Lemma bp_in_cat_app j b x : in_cat j (Some b) = true ->
  in_cat j (Some {| cat_recs := cat_recs b ++ [x]; bcat := bcat b; binos := binos b |}) = true.
Proof. cbn [in_cat cat_recs]. unfold mem. rewrite existsb_app. intros ->. reflexivity. Qed.

Lemma bp_add_cat_name_pinv s b dirp nm : PInv s -> BInv s -> bboot s = Some b -> PInv (fst (add_cat_name s b dirp nm)).
Proof.
  intros HP HI Hb. unfold add_cat_name, brefuse. cbv zeta.
  destruct (snd (add_record (bl s) dirp nm (lnext (bl s)) (linodes (bl s)) 0)) eqn:Hacc; [|exact HP].
  cbn [fst]. apply bp_add_record_pinv; [exact HP|exact HI|exact Hacc|tauto| |].
  - intros j. rewrite Hb. apply bp_in_cat_app.
  - right. split.
    + cbn [in_cat cat_recs]. unfold mem. rewrite existsb_app. cbn [existsb]. rewrite Nat.eqb_refl, orb_true_r. reflexivity.
    + apply (bi_fresh s HI). lia.
Qed.

(* ---- removing one record -------------------------------------------------------------------------------- *)

Lemma bp_rm_record_pinv s dirp dn dl kids k cn i st tbl' data bt' bits' wr' :
  PInv s -> lsubtree dirp (lroot (bl s)) = Some (LDir dn dl kids) -> nth_error kids k = Some (LFile cn i st) ->
  (forall j, j <> i -> In j (ids (linodes (bl s))) -> In j (ids tbl')) ->
  (forall j, In j (ids tbl') -> In j (ids (linodes (bl s)))) ->
  (forall j, j <> i -> in_cat j (bboot s) = true -> in_cat j bt' = true) ->
  (0 < lrefcount i (lroot (bl s)) - 1 -> In i (ids tbl') \/ in_cat i bt' = true) ->
  (~ In i (ids tbl') -> lrefcount i (lroot (bl s)) - 1 <= 1) ->
  PInv {| bl := rm_record (bl s) dirp dn dl kids k tbl' data; bboot := bt'; bbits := bits'; bwreck := wr' |}.
Proof.
  intros HP Hsub Hk Htbl Hsubset Hcat Hi1 Hi2. unfold rm_record. cbv zeta.
  apply (bp_update_pinv s dirp dn dl kids); [exact HP|exact Hsub| | | |].
  - intros st0. rewrite (ltotals_remove_at _ kids k _ Hk), ltotal_file.
    pose proof (pi_st_le s HP st0). pose proof (lw_st_nonneg st0 (LFile cn i st)). lia.
  - intros st0 Hst. rewrite (ltotals_remove_at _ kids k _ Hk), ltotal_file.
    rewrite (pi_st_fresh s HP st0 Hst). pose proof (lw_st_nonneg st0 (LFile cn i st)). lia.
  - intros j. rewrite (ltotals_remove_at _ kids k _ Hk), ltotal_file, lw_ref_file.
    destruct (Nat.eqb_spec i j) as [<-|Hne]; [intros H; apply Hi1; lia|].
    intros H. destruct (pi_cat s HP j) as [H'|H']; [lia|left; apply Htbl; [congruence|exact H']|right; apply Hcat; [congruence|exact H']].
  - intros j Hj. rewrite (ltotals_remove_at _ kids k _ Hk), ltotal_file, lw_ref_file.
    destruct (Nat.eqb_spec i j) as [<-|Hne]; [specialize (Hi2 Hj); lia|].
    assert (Hj' : ~ In j (ids (linodes (bl s)))) by (intros H; apply Hj, Htbl; [congruence|exact H]).
    pose proof (pi_one s HP j Hj'). lia.
Qed.

Lemma bp_in_cat_forget j i bt : j <> i -> in_cat j bt = true -> in_cat j (forget i bt) = true.
Proof.
  intros Hne. destruct bt as [b|]; [|discriminate]. cbn [forget in_cat].
  destruct (mem i (cat_recs b) && (1 <? Z.of_nat (length (cat_recs b)))); cbn [in_cat cat_recs]; [|tauto].
  intros H. apply ab_mem_in in H. apply ab_mem_in. induction (cat_recs b) as [|a r IH]; [destruct H|].
  cbn [remove1]. destruct (Nat.eqb_spec a i) as [->|Ha].
  - destruct H as [H|H]; [congruence|exact H].
  - destruct H as [H|H]; [left; exact H|right; apply IH, H].
Qed.

Lemma bp_rm_link_pinv s dirp nm : PInv s -> BInv s -> PInv (fst (bstep_rm_link s dirp nm)).
Proof.
  intros HP HI. unfold bstep_rm_link, brefuse. cbv zeta.
  destruct (lsubtree dirp (lroot (bl s))) as [[fn fi fs|dn dl kids]|] eqn:Hsub; try exact HP.
  destruct (llookup nm kids) as [[k [cn i st|cn cdl ckids]]|] eqn:Hl; try exact HP.
  apply llookup_spec in Hl. destruct Hl as (Hk & _ & _).
  destruct (bi_live s HI) as (HN & HL & HE). cbn [fst].
  rewrite ab_rm_record_root.
  rewrite (rm_record_refcount i (bl s) dirp dn dl kids k _ _ Hsub Hk), ltotal_file, lw_ref_file, Nat.eqb_refl.
  pose proof (ab_erefs_nonneg i (bboot s)) as Hq.
  assert (Hrc : 0 <= lrefcount i (lroot (bl s)) - 1).
  { pose proof (lrefcount_nonneg i (lreplace dirp (LDir dn dl (remove_at k kids)) (lroot (bl s)))) as N.
    rewrite (rm_record_refcount i (bl s) dirp dn dl kids k _ _ Hsub Hk), ltotal_file, lw_ref_file, Nat.eqb_refl in N.
    exact N. }
  assert (Hcatone : in_cat i (bboot s) = true -> lrefcount i (lroot (bl s)) <= 1).
  { intros Hc. apply (pi_one s HP). pose proof (bi_cat s HI) as HC. destruct (bboot s) as [b|]; [|discriminate].
    destruct HC as (_ & C2 & _). apply ab_mem_in in Hc. apply (C2 i Hc). }
  destruct (has_ino i (linodes (bl s)) && (lrefcount i (lroot (bl s)) - 1 + erefs i (bboot s) =? 0)) eqn:Hlast.
  - apply andb_prop in Hlast. destruct Hlast as [Hin Hz]. apply Z.eqb_eq in Hz.
    destruct (ids_del i (linodes (bl s)) HN) as (D1 & D2 & D3).
    apply (bp_rm_record_pinv s dirp dn dl kids k cn i st); try assumption.
    + intros j Hne Hj. apply D3; assumption.
    + intros j. apply ids_del_in.
    + intros j Hne. apply bp_in_cat_forget, Hne.
    + lia.
    + lia.
  - apply (bp_rm_record_pinv s dirp dn dl kids k cn i st); try assumption.
    + tauto.
    + tauto.
    + intros j Hne. apply bp_in_cat_forget, Hne.
    + intros Hpos. destruct (has_ino i (linodes (bl s))) eqn:Hh; [left; apply ab_has_ino_in, Hh|].
      exfalso. apply bp_has_ino_false in Hh. pose proof (pi_one s HP i Hh). lia.
    + intros Hn. pose proof (pi_one s HP i Hn). lia.
Qed.

(* ---- purge ------------------------------------------------------------------------------------------------- *)

Lemma bp_ltotals_filter_le w (P : lnode -> bool) l : (forall n, 0 <= w n) -> ltotals w (filter P l) <= ltotals w l.
Proof.
  intros Hw. induction l as [|c r IH]; [cbn [filter]; lia|]. cbn [filter]. pose proof (ltotal_nonneg w Hw c).
  destruct (P c); rewrite ?ltotals_cons; lia.
Qed.

Lemma bp_purge_le w i : (forall n, 0 <= w n) -> (forall nm dl dl', w (LDir nm dl []) = w (LDir nm dl' [])) ->
  forall n, ltotal w (purge_node i n) <= ltotal w n.
Proof.
  intros Hw Hd. apply lnode_ind'; [intros; cbn [purge_node]; lia|].
  intros nm dl kids HF. rewrite purge_node_dir, !ltotal_dir, (Hd nm _ dl).
  pose proof (bp_ltotals_filter_le w (notref i) (map (purge_node i) kids) Hw).
  assert (ltotals w (map (purge_node i) kids) <= ltotals w kids); [|lia].
  clear H. induction HF as [|c r Hc Hr IH]; [cbn; lia|]. cbn [map]. rewrite !ltotals_cons. lia.
Qed.

Lemma bp_purge_all_le w js : (forall n, 0 <= w n) -> (forall nm dl dl', w (LDir nm dl []) = w (LDir nm dl' [])) ->
  forall n, ltotal w (purge_all js n) <= ltotal w n.
Proof.
  intros Hw Hd. induction js as [|j r IH]; intros n; [cbn; lia|]. rewrite ab_purge_all_cons.
  pose proof (IH (purge_node j n)). pose proof (bp_purge_le w j Hw Hd n). lia.
Qed.

Lemma bp_purge_pinv s i tbl' sp' bits' : PInv s -> BInv s -> tbl' = del_ino i (linodes (bl s)) ->
  PInv {| bl := {| lroot := purge_node i (lroot (bl s)); linodes := tbl'; lnext := lnext (bl s);
                   lptr_size := lptr_size (bl s); lptr_ext := lptr_ext (bl s); lspace := sp' |};
          bboot := bboot s; bbits := bits'; bwreck := bwreck s |}.
Proof.
  intros HP HI ->. destruct (bi_live s HI) as (HN & _ & _). destruct (bi_root s HI) as [_ Hd].
  destruct (ids_del i (linodes (bl s)) HN) as (D1 & D2 & D3).
  constructor; cbn [bl bboot lroot linodes lnext].
  - intros st. pose proof (bp_purge_le (lw_st st) i (lw_st_nonneg st) (fun _ _ _ => eq_refl) (lroot (bl s))).
    pose proof (pi_st_le s HP st). unfold bp_stcount in *. lia.
  - intros st Hst. pose proof (bp_purge_le (lw_st st) i (lw_st_nonneg st) (fun _ _ _ => eq_refl) (lroot (bl s))).
    pose proof (pi_st_fresh s HP st Hst). pose proof (bp_stcount_nonneg st (purge_node i (lroot (bl s)))).
    unfold bp_stcount in *. lia.
  - intros j. destruct (Nat.eq_dec j i) as [->|Hne]; [rewrite (purge_refcount_self i _ Hd); lia|].
    rewrite (purge_refcount_other i j _ Hne). intros H. destruct (pi_cat s HP j H) as [H'|H']; [left; apply D3; assumption|right; exact H'].
  - intros j Hj. destruct (Nat.eq_dec j i) as [->|Hne]; [rewrite (purge_refcount_self i _ Hd); lia|].
    rewrite (purge_refcount_other i j _ Hne). apply (pi_one s HP). intros H. apply Hj, D3; assumption.
Qed.
