(* C10 -- Model/UdfLayout.v: the regions of a layout tile the partition in listing order (hence are
   pairwise disjoint), and the space the accounting granted (ul_part_length) is exactly the space the
   layout uses, for well-formed trees (every length <= 0xfffff800). *)
From Coq Require Import ZArith List Bool Lia ZifyBool Arith.
From PV.Base Require Import Prim.
From PV.Gen Require Import GenFun.
From PV.Model Require Import Codec Fid UdfDir UdfLayout.
From PV.Proofs Require Import ChecksumsArithProofs FidProofs UdfDirProofs UdfLayoutBfsProofs UdfLayoutViewProofs
     UdfLayoutFactsProofs.
Import ListNotations.
Local Open Scope Z_scope.

(* regions listed in increasing order without overlap, all inside [s, e) *)
Fixpoint ul_tiled (s : Z) (rg : list (Z * Z)) (e : Z) : Prop :=
  match rg with
  | [] => s <= e
  | (a, n) :: r => s <= a /\ 0 <= n /\ ul_tiled (a + n) r e
  end.

Lemma ul_tiled_le rg : forall s e, ul_tiled s rg e -> s <= e.
Proof.
  induction rg as [|[a n] r IH]; intros s e H; [exact H|]. cbn [ul_tiled] in H. destruct H as (H1 & H2 & H3).
  specialize (IH _ _ H3). lia.
Qed.
Lemma ul_tiled_weaken rg s s' e : s' <= s -> ul_tiled s rg e -> ul_tiled s' rg e.
Proof. destruct rg as [|[a n] r]; cbn [ul_tiled]; intros H1 H2; [lia|]. destruct H2 as (? & ? & ?). repeat split; [lia|lia|assumption]. Qed.
Lemma ul_tiled_app a : forall s m b e, ul_tiled s a m -> ul_tiled m b e -> ul_tiled s (a ++ b) e.
Proof.
  induction a as [|[x n] r IH]; intros s m b e Ha Hb; cbn [app ul_tiled] in *.
  - exact (ul_tiled_weaken b m s e Ha Hb).
  - destruct Ha as (H1 & H2 & H3). repeat split; [exact H1|exact H2|]. exact (IH _ _ _ _ H3 Hb).
Qed.
Lemma ul_tiled_in rg : forall s e a n, ul_tiled s rg e -> In (a, n) rg -> s <= a /\ a + n <= e.
Proof.
  induction rg as [|[x m] r IH]; intros s e a n H Hin; [destruct Hin|]. cbn [ul_tiled] in H. destruct H as (H1 & H2 & H3).
  destruct Hin as [E|Hin].
  - inversion E; subst. split; [exact H1|]. exact (ul_tiled_le _ _ _ H3).
  - destruct (IH _ _ _ _ H3 Hin). split; lia.
Qed.
(* an earlier region ends before a later one starts *)
Lemma ul_tiled_disjoint l1 : forall s e a n l2 b m l3,
  ul_tiled s (l1 ++ (a, n) :: l2 ++ (b, m) :: l3) e -> a + n <= b.
Proof.
  induction l1 as [|[x k] r IH]; intros s e a n l2 b m l3 H; cbn [app ul_tiled] in H.
  - destruct H as (_ & _ & H). exact (proj1 (ul_tiled_in _ _ _ b m H ltac:(apply in_or_app; right; left; reflexivity))).
  - destruct H as (_ & _ & H). exact (IH _ _ _ _ _ _ _ _ H).
Qed.

(* ---- the three groups of regions ---- *)
Lemma ul_dirs_tiled rs : forall cur, ul_chain cur rs -> Forall (fun r => ul_node_ok (dr_node r)) rs ->
  ul_tiled cur (flat_map (fun r => [(dr_fe r, 1); (dr_fe r + 1, ul_dir_blocks (dr_node r))]) rs) (ul_chain_end cur rs).
Proof.
  induction rs as [|r rs IH]; intros cur Hc Hok; cbn [ul_chain ul_chain_end flat_map app ul_tiled] in *; [lia|].
  destruct Hc as [Hfe Hc]. inversion Hok as [|? ? Hr Hrs]; subst. pose proof (ul_blocks_pos _ Hr).
  repeat split; try lia. replace (dr_fe r + 1 + ul_dir_blocks (dr_node r)) with (dr_fe r + 1 + ul_dir_blocks (dr_node r)) by lia.
  exact (IH _ Hc Hrs).
Qed.

Lemma ul_fes_tiled fs : forall cur seen,
  ul_tiled cur (map (fun '(_, fe, _) => (fe, 1)) (fst (ul_assign_fes cur seen fs))) (snd (ul_assign_fes cur seen fs)).
Proof.
  induction fs as [|[i l] r IH]; intros cur seen; cbn [ul_assign_fes]; [cbn [fst snd map ul_tiled]; lia|].
  destruct (nat_mem i seen); [apply IH|]. specialize (IH (cur + 1) (i :: seen)).
  destruct (ul_assign_fes (cur + 1) (i :: seen) r) as [a e]. cbn [fst snd map ul_tiled] in *. repeat split; try lia. exact IH.
Qed.

Lemma ul_ceil_nonneg l : 0 <= l -> 0 <= ceiling_div l 2048.
Proof. intros H. rewrite (ceiling_div_spec _ 2048 ltac:(lia)). apply Z.div_pos; lia. Qed.

Lemma ul_data_tiled fs : forall cur seen, Forall (fun x => 0 <= snd x) fs ->
  ul_tiled cur (map (fun '(_, d, l) => (d, ceiling_div l 2048)) (fst (ul_assign_data cur seen fs))) (snd (ul_assign_data cur seen fs)).
Proof.
  induction fs as [|[i l] r IH]; intros cur seen Hf; cbn [ul_assign_data]; [cbn [fst snd map ul_tiled]; lia|].
  inversion Hf as [|? ? Hl Hr]; subst. cbn [snd] in Hl.
  destruct (nat_mem i seen); [exact (IH _ _ Hr)|]. specialize (IH (cur + ceiling_div l 2048) (i :: seen) Hr).
  destruct (ul_assign_data (cur + ceiling_div l 2048) (i :: seen) r) as [a e]. cbn [fst snd map ul_tiled] in *.
  pose proof (ul_ceil_nonneg l Hl). repeat split; try lia. exact IH.
Qed.

Lemma ul_assign_data_nodup fs : forall cur seen,
  NoDup (map (fun x => fst (fst x)) (fst (ul_assign_data cur seen fs))) /\
  forall x, In x (fst (ul_assign_data cur seen fs)) -> ~ In (fst (fst x)) seen /\ In (fst (fst x), snd x) fs.
Proof.
  induction fs as [|[i l] r IH]; intros cur seen; cbn [ul_assign_data]; [split; [constructor|intros x []]|].
  destruct (nat_mem i seen) eqn:E.
  - destruct (IH cur seen) as [H1 H2]. split; [exact H1|]. intros x Hx. destruct (H2 x Hx). split; [assumption|right; assumption].
  - destruct (IH (cur + ceiling_div l 2048) (i :: seen)) as [H1 H2].
    destruct (ul_assign_data (cur + ceiling_div l 2048) (i :: seen) r) as [a e]. cbn [fst map] in *. split.
    + constructor; [|exact H1]. intros Hin. apply in_map_iff in Hin. destruct Hin as (x & Hx & Hin).
      destruct (H2 x Hin) as [H _]. apply H. left. symmetry. exact Hx.
    + intros x [<-|Hx].
      * cbn [fst snd]. split; [|left; reflexivity]. intros H. apply ul_nat_mem_iff in H. congruence.
      * destruct (H2 x Hx) as [H3 H4]. split; [|right; exact H4]. intros H. apply H3. right. exact H.
Qed.

Lemma ul_assign_data_find fs : forall cur seen i l, In (i, l) fs -> ~ In i seen ->
  exists d l', ul_find i (fst (ul_assign_data cur seen fs)) = Some d /\ In (i, d, l') (fst (ul_assign_data cur seen fs)).
Proof.
  induction fs as [|[j m] r IH]; intros cur seen i l Hin Hs; [destruct Hin|]. cbn [ul_assign_data].
  destruct (nat_mem j seen) eqn:E.
  - destruct Hin as [Hx|Hin]; [|exact (IH _ _ _ _ Hin Hs)]. inversion Hx; subst. apply ul_nat_mem_iff in E. contradiction.
  - pose proof (IH (cur + ceiling_div m 2048) (j :: seen) i l) as IH1.
    destruct (ul_assign_data (cur + ceiling_div m 2048) (j :: seen) r) as [a e]. cbn [fst ul_find] in *.
    destruct (Nat.eqb i j) eqn:Eij.
    + apply Nat.eqb_eq in Eij. subst j. exists cur, m. split; [reflexivity|left; reflexivity].
    + apply Nat.eqb_neq in Eij. destruct Hin as [Hx|Hin]; [inversion Hx; congruence|].
      destruct (IH1 Hin) as (d & l' & H1 & H2). { intros [H|H]; [congruence|contradiction]. }
      exists d, l'. split; [exact H1|right; exact H2].
Qed.

(* ---- the end of the data, as a state machine (for the comparison with the accounting) ---- *)
Fixpoint ul_data_state (cur : Z) (seen : list nat) (fs : list (nat * Z)) : Z * list nat :=
  match fs with
  | [] => (cur, seen)
  | (i, l) :: r => if nat_mem i seen then ul_data_state cur seen r
                   else ul_data_state (cur + ceiling_div l 2048) (i :: seen) r
  end.

Lemma ul_data_snd fs : forall cur seen, snd (ul_assign_data cur seen fs) = fst (ul_data_state cur seen fs).
Proof.
  induction fs as [|[i l] r IH]; intros cur seen; cbn [ul_assign_data ul_data_state]; [reflexivity|].
  destruct (nat_mem i seen); [apply IH|]. specialize (IH (cur + ceiling_div l 2048) (i :: seen)).
  destruct (ul_assign_data (cur + ceiling_div l 2048) (i :: seen) r) as [a e]. exact IH.
Qed.

Lemma ul_data_state_app a : forall b cur seen,
  ul_data_state cur seen (a ++ b) = ul_data_state (fst (ul_data_state cur seen a)) (snd (ul_data_state cur seen a)) b.
Proof.
  induction a as [|[i l] r IH]; intros b cur seen; cbn [app ul_data_state]; [reflexivity|].
  destruct (nat_mem i seen); apply IH.
Qed.

Lemma ul_data_state_shift fs : forall cur seen d,
  ul_data_state (cur + d) seen fs = (fst (ul_data_state cur seen fs) + d, snd (ul_data_state cur seen fs)).
Proof.
  induction fs as [|[i l] r IH]; intros cur seen d; cbn [ul_data_state]; [reflexivity|].
  destruct (nat_mem i seen); [apply IH|]. replace (cur + d + ceiling_div l 2048) with (cur + ceiling_div l 2048 + d) by lia. apply IH.
Qed.

Lemma ul_data_state_ext fs : forall cur s s', (forall j, In j (map fst fs) -> nat_mem j s = nat_mem j s') ->
  fst (ul_data_state cur s fs) = fst (ul_data_state cur s' fs).
Proof.
  induction fs as [|[i l] r IH]; intros cur s s' H; cbn [ul_data_state]; [reflexivity|].
  rewrite <- (H i (or_introl eq_refl)). destruct (nat_mem i s).
  - apply IH. intros j Hj. apply H. right. exact Hj.
  - apply IH. intros j Hj. unfold nat_mem. cbn [existsb]. f_equal. apply H. right. exact Hj.
Qed.

Lemma ul_data_state_filter F : NoDup (map fst F) -> Forall (fun x => 0 <= snd x) F -> forall cur seen,
  fst (ul_data_state cur seen F) = fst (ul_data_state cur seen (filter (fun x => snd x >? 0) F)).
Proof.
  induction F as [|[i l] r IH]; intros Hnd Hf cur seen; [reflexivity|]. cbn [map fst] in Hnd.
  inversion Hnd as [|? ? Hni Hnd']; subst. inversion Hf as [|? ? Hl Hr]; subst. cbn [snd] in Hl.
  cbn [filter snd]. destruct (l >? 0) eqn:E; cbn [ul_data_state].
  - destruct (nat_mem i seen); apply IH; assumption.
  - assert (l = 0) by lia. subst l. change (ceiling_div 0 2048) with 0. rewrite Z.add_0_r.
    destruct (nat_mem i seen) eqn:Em; [apply IH; assumption|]. rewrite (IH Hnd' Hr).
    apply ul_data_state_ext. intros j Hj. unfold nat_mem. cbn [existsb].
    destruct (Nat.eqb j i) eqn:Eji; [|reflexivity]. apply Nat.eqb_eq in Eji. subst j. exfalso. apply Hni.
    apply in_map_iff in Hj. destruct Hj as (x & Hx & Hin). apply filter_In in Hin. destruct Hin as [Hin _].
    rewrite <- Hx. apply in_map. exact Hin.
Qed.

(* ---- accounting = layout ---- *)
Lemma ul_chain_end_sum rs : forall cur, Forall (fun r => ul_node_ok (dr_node r)) rs ->
  ul_chain_end cur rs = cur + Fid.zsum (map (fun r => 1 + ceiling_div (ul_dir_info (dr_node r)) 2048) rs).
Proof.
  induction rs as [|r rs IH]; intros cur Hok; cbn [ul_chain_end map].
  - unfold Fid.zsum. cbn [fold_right]. lia.
  - inversion Hok as [|? ? Hr Hrs]; subst. rewrite fzsum_cons, (IH _ Hrs), (ul_blocks_ceiling _ Hr). lia.
Qed.

Lemma ul_last_piece_small l : 0 < l <= ul_max_piece -> ul_last_piece l = l.
Proof.
  intros H. unfold ul_last_piece. replace (l <=? 0) with false by lia. rewrite Z.mod_small; lia.
Qed.

Lemma ul_udf_files_filter fes : Forall (fun x => 0 <= snd x <= ul_max_piece) fes ->
  ul_udf_files fes = filter (fun x => snd x >? 0) (map (fun '(i, _, l) => (i, l)) fes).
Proof.
  unfold ul_udf_files. induction 1 as [|[[i fe] l] r Hl Hr IH]; [reflexivity|]. cbn [flat_map map filter snd] in *.
  rewrite IH. destruct (l >? 0) eqn:E.
  - rewrite (ul_last_piece_small l ltac:(lia)), E. reflexivity.
  - assert (l = 0) by lia. subst l. reflexivity.
Qed.

Lemma ul_file_kids_inv cs i l : In (i, l) (ul_file_kids cs) -> exists n, In (UFile n l i) cs.
Proof.
  unfold ul_file_kids. intros H. apply in_flat_map in H. destruct H as (c & Hc & H). destruct c as [n l' i'|]; [|destruct H].
  destruct H as [E|[]]. inversion E; subst. exists n. exact Hc.
Qed.

Lemma ul_fes_bounds ps iso t lo : ul_facts ps iso t lo -> Forall (fun x => 0 <= snd x <= ul_max_piece) (lo_fes lo).
Proof.
  intros F. apply Forall_forall. intros [[i fe] l] Hin. cbn [snd]. rewrite (uf_fes _ _ _ _ F) in Hin.
  destruct (ul_assign_fes_fresh _ _ _ _ Hin) as [_ Hn]. cbn [fst snd] in Hn. unfold ul_names in Hn.
  apply in_flat_map in Hn. destruct Hn as (r & Hr & Hk). destruct (ul_file_kids_inv _ _ _ Hk) as (n & Hc).
  exact (ul_wf_file _ n l i (proj1 (Forall_forall _ _) (uf_ok _ _ _ _ F) r Hr) Hc).
Qed.

Theorem ul_end_exact ps iso t lo : ul_facts ps iso t lo -> lo_end lo = ps + lo_part_length lo.
Proof.
  intros F. rewrite (uf_end _ _ _ _ F), (uf_part _ _ _ _ F). unfold ul_part_length. rewrite !ul_data_snd.
  pose proof (ul_fes_bounds _ _ _ _ F) as Hb. rewrite (ul_udf_files_filter _ Hb).
  rewrite (uf_udf_end _ _ _ _ F), ul_assign_fes_end, <- (uf_fes _ _ _ _ F), (ul_chain_end_sum _ _ (uf_ok _ _ _ _ F)).
  set (Fl := map (fun '(i, _, l) => (i, l)) (lo_fes lo)).
  assert (Hnd : NoDup (map fst Fl)).
  { unfold Fl. rewrite map_map. rewrite (map_ext _ (fun x => fst (fst x))) by (intros [[i fe] l]; reflexivity).
    rewrite (uf_fes _ _ _ _ F). apply ul_assign_fes_nodup. }
  assert (Hnn : Forall (fun x => 0 <= snd x) Fl).
  { unfold Fl. apply Forall_map. eapply Forall_impl; [|exact Hb]. intros [[i fe] l]. cbn [snd]. lia. }
  replace (ps + 2 + Fid.zsum (map (fun r => 1 + ceiling_div (ul_dir_info (dr_node r)) 2048) (lo_dirs lo)) + zlen (lo_fes lo) + iso_meta iso)
    with (0 + (ps + 2 + Fid.zsum (map (fun r => 1 + ceiling_div (ul_dir_info (dr_node r)) 2048) (lo_dirs lo)) + zlen (lo_fes lo) + iso_meta iso)) by lia.
  rewrite ul_data_state_shift. cbn [fst]. rewrite !ul_data_state_app.
  rewrite <- (ul_data_state_filter Fl Hnd Hnn). lia.
Qed.

(* ---- allocation descriptors of a file cover exactly ceil(len / 2048) consecutive blocks ---- *)
Fixpoint ul_ads_end (pos : Z) (ads : list (Z * Z)) : option Z :=
  match ads with
  | [] => Some pos
  | (p, a) :: r => if p =? pos then ul_ads_end (pos + ceiling_div a 2048) r else None
  end.

Lemma ul_max_ad_blocks : ul_max_ad = 524287 * 2048. Proof. reflexivity. Qed.

Lemma ul_file_ads_end fuel : forall pos len, 0 <= len <= Z.of_nat fuel * ul_max_ad ->
  ul_ads_end pos (ul_file_ads fuel pos len) = Some (pos + ceiling_div len 2048).
Proof.
  pose proof ul_max_ad_blocks as HM. induction fuel as [|f IH]; intros pos len H.
  - assert (len = 0) by lia. subst len. cbn [ul_file_ads ul_ads_end]. change (ceiling_div 0 2048) with 0. f_equal. lia.
  - cbn [ul_file_ads]. destruct (len >? 0) eqn:E.
    + cbn [ul_ads_end]. rewrite Z.eqb_refl, IH by lia. f_equal.
      rewrite !(ceiling_div_spec _ 2048 ltac:(lia)). destruct (Z.le_gt_cases len ul_max_ad) as [Hle|Hgt].
      * rewrite Z.min_l by lia. replace (len - len) with 0 by lia. change ((0 + 2048 - 1) / 2048) with 0. lia.
      * rewrite Z.min_r by lia. rewrite HM.
        replace (len + 2048 - 1) with (len - 524287 * 2048 + 2048 - 1 + 524287 * 2048) by lia.
        rewrite Z.div_add by lia. replace (524287 * 2048 + 2048 - 1) with (2047 + 524287 * 2048) by lia.
        rewrite Z.div_add by lia. change (2047 / 2048) with 0. lia.
    + assert (len = 0) by lia. subst len. cbn [ul_ads_end]. change (ceiling_div 0 2048) with 0. f_equal. lia.
Qed.

Lemma ul_ads_cover pos len : 0 <= len -> ul_ads_end pos (ul_ads pos len) = Some (pos + ceiling_div len 2048).
Proof.
  intros H. pose proof ul_max_ad_pos as HM. unfold ul_ads. apply ul_file_ads_end.
  rewrite Z2Nat.id by (pose proof (Z.div_pos len ul_max_ad H HM); lia).
  pose proof (Z.div_mod len ul_max_ad ltac:(lia)). pose proof (Z.mod_pos_bound len ul_max_ad HM). lia.
Qed.

Print Assumptions ul_end_exact.
Print Assumptions ul_tiled_disjoint.
Print Assumptions ul_ads_cover.
Print Assumptions ul_data_tiled.
