(* C11 / C04 -- El Torito as an edit-history state machine (Model/AccountBoot.v): the theorems.
   Invariant and preservation: AccountBootInv.v, AccountBootInv2.v; rm_eltorito and the refuted
   statements: AccountBootProofs2.v. *)
From Coq Require Import ZArith List Bool Lia ZifyBool Sorted Arith Permutation.
From PV.Base Require Import Prim.
From PV.Gen Require Import GenConst GenFun.
From PV.Model Require Import Names Checksums Pack Alloc Codec Eltorito Account AccountLinks AccountBoot.
From PV.Proofs Require Import PackProofs AllocProofs ChecksumsArithProofs AccountLemmas AccountProofs
     AccountLinksLemmas AccountLinksPurge AccountLinksInv EltoritoCatalogProofs EltoritoBuiltProofs
     AccountBootLemmas AccountBootInv AccountBootInv2 AccountBootFix.
Import ListNotations.
Local Open Scope Z_scope.
Ltac Zify.zify_post_hook ::= Z.to_euclidean_division_equations.

(* ---- 1. the declared volume size is exact after EVERY history ------------------------------------- *)

Theorem ab_space_exact ops : lspace (bl (brun binit ops)) = blayout_end (brun binit ops).
Proof. apply ab_inv_layout, ab_run_inv. Qed.

(* ---- 2. no accepted (or refused) sequence leaves a catalog entry whose inode has been released ----- *)

Theorem ab_boot_file_cannot_vanish ops :
  let s := brun binit ops in
  NoDup (ids (linodes (bl s))) /\
  (* every El Torito entry's inode is in self.inodes ... *)
  (forall b, bboot s = Some b -> Forall (fun i => In i (ids (linodes (bl s)))) (binos b)) /\
  (* ... and nothing stays in self.inodes without a directory record or an El Torito entry *)
  (forall i, In i (ids (linodes (bl s))) -> 0 < lrefcount i (lroot (bl s)) + erefs i (bboot s)).
Proof.
  intros s. destruct (bi_live s (ab_run_inv ops)) as (HN & HL & HE).
  split; [exact HN|]. split; [|exact HL].
  intros b Hb. apply Forall_forall. intros i Hi. apply HE. rewrite Hb. cbn [erefs].
  apply ab_count_pos, Hi.
Qed.

(* ---- 3. objects are pairwise disjoint and inside the declared volume --------------------------------- *)

Lemma ab_blk_nonneg s i : BInv s -> 0 <= blk_of s i.
Proof.
  intros HI. unfold blk_of. apply ceiling_div_nonneg; [unfold C; lia|].
  apply (len_of_in (fun l => 0 <= l) (linodes (bl s))); [|lia].
  eapply Forall_impl; [|apply (bi_len s HI)]. intros e He. cbv beta in He. lia.
Qed.

Lemma ab_objects_nonneg s : BInv s -> Forall (fun z => 0 <= z) (bobjects s).
Proof.
  intros HI. unfold bobjects, head_objects, cat_objects.
  assert (He : 0 <= lptr_ext (bl s)).
  { destruct (bi_ptr s HI) as [H0 He]. pose proof (ceiling_div_nonneg (lptr_size (bl s)) 4096). lia. }
  assert (HV : Forall lall_ok (lvisit (bl s))).
  { apply lbfs_all_ok. constructor; [apply (bi_tree s HI)|constructor]. }
  repeat (apply Forall_app; split).
  - repeat (constructor; [lia|]). constructor.
  - destruct (has_boot s); repeat (constructor; [lia|]); constructor.
  - repeat (constructor; [lia|]). constructor.
  - apply Forall_map. rewrite Forall_forall in *. intros n Hn. apply filter_In in Hn.
    destruct Hn as [Hn Hd]. specialize (HV n Hn). destruct n as [nm ino st|nm dl kids]; [discriminate|].
    apply lall_ok_dir in HV. destruct HV as [HV _]. apply dir_ok_dlen in HV.
    cbn [lw_dblk]. apply ceiling_div_nonneg; unfold C in *; lia.
  - destruct (has_boot s); repeat (constructor; [lia|]); constructor.
  - apply Forall_map, Forall_forall. intros i _. apply ab_blk_nonneg, HI.
Qed.

Theorem ab_objects_disjoint_and_inside ops :
  let s := brun binit ops in
  ForallOrdPairs disjoint (blayout s) /\
  Forall (fun iv => 0 <= fst iv /\ fst iv + snd iv <= lspace (bl s)) (blayout s).
Proof.
  intros s. pose proof (ab_run_inv ops) as HI. fold s in HI.
  pose proof (ab_objects_nonneg s HI) as HN. unfold blayout. split.
  - apply bump_disjoint, HN.
  - rewrite (ab_inv_layout s HI). apply bump_inside, HN.
Qed.

(* ---- 4. the catalog points at the boot files ------------------------------------------------------------ *)

Lemma ab_bump_app : forall a b st, bump st (a ++ b) = bump st a ++ bump (st + Alloc.zsum a) b.
Proof.
  induction a as [|x a IH]; intros b st; cbn [app bump].
  - unfold Alloc.zsum. cbn [fold_right]. rewrite Z.add_0_r. reflexivity.
  - rewrite IH, zsum_cons. f_equal. f_equal. f_equal. lia.
Qed.

(* _set_inode: an inode of the list is given the start computed by the bump allocation *)
Lemma ab_assoc_bump (f : nat -> Z) : (forall i, 0 <= f i) -> forall l st i, In i l ->
  exists e, assoc i (combine l (bump st (map f l))) = Some (e, f i) /\
            In (e, f i) (bump st (map f l)) /\ st <= e.
Proof.
  intros Hf. induction l as [|j r IH]; intros st i Hi; [destruct Hi|].
  cbn [map bump combine assoc]. destruct (Nat.eqb_spec j i) as [->|Hne].
  - exists st. split; [reflexivity|]. split; [left; reflexivity|lia].
  - destruct Hi as [E|Hi]; [congruence|]. destruct (IH (st + f j) i Hi) as (e & H1 & H2 & H3).
    exists e. split; [exact H1|]. split; [right; exact H2|]. specialize (Hf j). lia.
Qed.

Lemma ab_layout_split s :
  blayout s = bump 0 (head_objects s) ++ bump (cat_extent s) (cat_objects s)
              ++ bump (data_start s) (map (blk_of s) (data_inos s)).
Proof.
  unfold blayout, bobjects. rewrite ab_bump_app, ab_bump_app. unfold cat_extent, data_start, bump_end.
  rewrite zsum_app, Z.add_assoc. reflexivity.
Qed.

Theorem ab_catalog_points_at_files_inv s b : BInv s -> bboot s = Some b ->
  (* the boot record is the volume descriptor after the PVD, the catalog has its own block, where
     the boot record points *)
  In (17, 1) (blayout s) /\ In (cat_extent s, 1) (blayout s) /\
  (* one load_rba per catalog entry *)
  length (entry_rbas s) = S (length (c_sections (bcat b))) /\
  (* every entry: its inode is live, it has been given an extent, load_rba is that extent, the
     extent lies behind the catalog and inside the declared volume *)
  (forall k i, nth_error (binos b) k = Some i ->
     In i (ids (linodes (bl s))) /\
     exists e, ino_extent s i = Some e /\ nth_error (entry_rbas s) k = Some e /\
               In (e, blk_of s i) (blayout s) /\ cat_extent s < e /\
               e + blk_of s i <= lspace (bl s)).
Proof.
  intros HI Hb. assert (Hhb : has_boot s = true) by (unfold has_boot; rewrite Hb; reflexivity).
  pose proof (bi_cat s HI) as HC. rewrite Hb in HC. destruct HC as (_ & _ & _ & C4).
  destruct (bi_live s HI) as (HN & HL & HE).
  split; [|split; [|split]].
  - rewrite ab_layout_split. apply in_or_app. left. unfold head_objects. rewrite Hhb.
    cbn [app bump]. right. right. left. reflexivity.
  - rewrite ab_layout_split. apply in_or_app. right. apply in_or_app. left.
    unfold cat_objects. rewrite Hhb. left. reflexivity.
  - unfold entry_rbas. rewrite Hb, map_length. exact C4.
  - intros k i Hk. assert (Hi : In i (binos b)) by (eapply nth_error_In; exact Hk).
    assert (He : 0 < erefs i (bboot s)) by (rewrite Hb; cbn [erefs]; apply ab_count_pos, Hi).
    split; [apply HE, He|].
    assert (Hd : In i (data_inos s)).
    { unfold data_inos. apply in_or_app. left. apply ab_boot_order_in, He. }
    destruct (ab_assoc_bump (blk_of s) (fun j => ab_blk_nonneg s j HI) (data_inos s) (data_start s) i Hd)
      as (e & H1 & H2 & H3).
    assert (Hext : ino_extent s i = Some e).
    { unfold ino_extent, placed. rewrite H1. reflexivity. }
    exists e. split; [exact Hext|]. split; [|split; [|split]].
    + unfold entry_rbas. rewrite Hb, nth_error_map, Hk. cbn [option_map]. unfold rba_of. rewrite Hext. reflexivity.
    + rewrite ab_layout_split. apply in_or_app. right. apply in_or_app. right. exact H2.
    + unfold data_start, cat_extent, bump_end, cat_objects in *. rewrite Hhb, zsum_app in H3.
      unfold Alloc.zsum at 2 in H3. cbn [fold_right] in H3. lia.
    + pose proof (ab_objects_nonneg s HI) as HNn.
      pose proof (bump_inside (bobjects s) 0 HNn) as Hin. rewrite Forall_forall in Hin.
      assert (Hl : In (e, blk_of s i) (blayout s)).
      { rewrite ab_layout_split. apply in_or_app. right. apply in_or_app. right. exact H2. }
      specialize (Hin _ Hl). cbn [fst snd] in Hin. rewrite (ab_inv_layout s HI). unfold blayout_end. lia.
Qed.

(* ... for every history: also after the names of boot files have been removed (hidden boot file) and
   after any other edit *)
Theorem ab_catalog_points_at_files ops b :
  let s := brun binit ops in
  bboot s = Some b ->
  In (17, 1) (blayout s) /\ In (cat_extent s, 1) (blayout s) /\
  length (entry_rbas s) = S (length (c_sections (bcat b))) /\
  (forall k i, nth_error (binos b) k = Some i ->
     In i (ids (linodes (bl s))) /\
     exists e, ino_extent s i = Some e /\ nth_error (entry_rbas s) k = Some e /\
               In (e, blk_of s i) (blayout s) /\ cat_extent s < e /\
               e + blk_of s i <= lspace (bl s)).
Proof. intros s. apply ab_catalog_points_at_files_inv, ab_run_inv. Qed.

(* the strongest true form of "the entry points at the file's OWN data": a boot file that is not
   empty starts inside the volume (its blocks are disjoint from every other object by
   ab_objects_disjoint_and_inside) *)
Theorem ab_load_rba_inside_partial ops b k i :
  let s := brun binit ops in
  bboot s = Some b -> nth_error (binos b) k = Some i -> len_of i (linodes (bl s)) <> 0 ->
  exists e, nth_error (entry_rbas s) k = Some e /\ 0 < blk_of s i /\ e + blk_of s i <= lspace (bl s) /\
            e < lspace (bl s).
Proof.
  intros s Hb Hk Hlen. subst s. set (s := brun binit ops) in *.
  destruct (ab_catalog_points_at_files ops b Hb) as (_ & _ & _ & H). fold s in H.
  destruct (H k i Hk) as (_ & e & _ & H2 & _ & _ & H5). exists e. split; [exact H2|].
  assert (Hp : 0 < blk_of s i).
  { pose proof (ab_run_inv ops) as HI. fold s in HI. unfold blk_of.
    assert (0 <= len_of i (linodes (bl s))).
    { apply (len_of_in (fun l => 0 <= l) (linodes (bl s))); [|lia].
      eapply Forall_impl; [|apply (bi_len s HI)]. intros x Hx. cbv beta in Hx. lia. }
    unfold ceiling_div, C. lia. }
  split; [exact Hp|]. split; [exact H5|lia].
Qed.

(* the CURRENT code (d8f44b3): every boot file is non-empty, so every entry points at the boot
   file's OWN data: at least one block, inside the volume, and disjoint from the blocks of every
   other inode that has been placed *)
Lemma ab_assoc_lower (f : nat -> Z) : (forall i, 0 <= f i) -> forall l st j v,
  assoc j (combine l (bump st (map f l))) = Some v -> st <= fst v /\ snd v = f j.
Proof.
  intros Hf. induction l as [|a r IH]; intros st j v; cbn [map bump combine assoc]; [discriminate|].
  destruct (Nat.eqb_spec a j) as [->|Hne].
  - intros H. inversion H. cbn [fst snd]. split; [lia|reflexivity].
  - intros H. destruct (IH _ _ _ H) as [H1 H2]. specialize (Hf a). split; [lia|exact H2].
Qed.

Lemma ab_assoc_disjoint (f : nat -> Z) : (forall i, 0 <= f i) -> forall l st i j vi vj, i <> j ->
  assoc i (combine l (bump st (map f l))) = Some vi ->
  assoc j (combine l (bump st (map f l))) = Some vj -> disjoint vi vj.
Proof.
  intros Hf. induction l as [|a r IH]; intros st i j vi vj Hij; cbn [map bump combine assoc]; [discriminate|].
  destruct (Nat.eqb_spec a i) as [->|Hai]; destruct (Nat.eqb_spec i j) as [E|_]; try contradiction.
  - destruct (Nat.eqb_spec i j); [contradiction|]. intros H1 H2. inversion H1. subst vi.
    destruct (ab_assoc_lower f Hf _ _ _ _ H2) as [L _]. left. cbn [fst snd]. exact L.
  - destruct (Nat.eqb_spec a j) as [->|Haj].
    + intros H1 H2. inversion H2. subst vj.
      destruct (ab_assoc_lower f Hf _ _ _ _ H1) as [L _]. right. cbn [fst snd]. exact L.
    + apply IH, Hij.
Qed.

Theorem ab_load_rba_own_extent ops b k i :
  let s := brun binit ops in
  bboot s = Some b -> nth_error (binos b) k = Some i ->
  len_of i (linodes (bl s)) <> 0 /\
  exists e, nth_error (entry_rbas s) k = Some e /\ ino_extent s i = Some e /\
            0 < blk_of s i /\ cat_extent s < e /\ e + blk_of s i <= lspace (bl s) /\
            forall j ej, j <> i -> ino_extent s j = Some ej -> disjoint (e, blk_of s i) (ej, blk_of s j).
Proof.
  intros s Hb Hk. subst s. set (s := brun binit ops) in *.
  pose proof (ab_run_inv ops) as HI. fold s in HI. destruct (ab_run_fix ops) as [F1 _]. fold s in F1.
  assert (Hlen : len_of i (linodes (bl s)) <> 0).
  { apply F1. rewrite Hb. cbn [erefs]. apply ab_count_pos. eapply nth_error_In. exact Hk. }
  split; [exact Hlen|].
  destruct (ab_catalog_points_at_files ops b Hb) as (_ & _ & _ & H). fold s in H.
  destruct (H k i Hk) as (_ & e & H1 & H2 & _ & H4 & H5).
  destruct (ab_load_rba_inside_partial ops b k i Hb Hk Hlen) as (e' & E1 & Hp & _). fold s in E1, Hp.
  exists e. split; [exact H2|]. split; [exact H1|]. split; [exact Hp|]. split; [exact H4|]. split; [exact H5|].
  intros j ej Hne Hj. unfold ino_extent in H1, Hj.
  destruct (assoc i (placed s)) as [vi|] eqn:Ai; [|discriminate].
  destruct (assoc j (placed s)) as [vj|] eqn:Aj; [|discriminate].
  unfold placed in Ai, Aj.
  pose proof (ab_assoc_disjoint (blk_of s) (fun x => ab_blk_nonneg s x HI) _ _ _ _ _ _ (not_eq_sym Hne) Ai Aj) as D.
  destruct (ab_assoc_lower (blk_of s) (fun x => ab_blk_nonneg s x HI) _ _ _ _ Ai) as [_ Si].
  destruct (ab_assoc_lower (blk_of s) (fun x => ab_blk_nonneg s x HI) _ _ _ _ Aj) as [_ Sj].
  inversion H1. inversion Hj. subst e ej. rewrite <- Si, <- Sj. destruct vi, vj. exact D.
Qed.

(* the CURRENT code (6a3f4a5): a boot info table sits only on inodes that El Torito entries refer to *)
Theorem ab_bits_on_boot_files ops i :
  let s := brun binit ops in In i (bbits s) -> 0 < erefs i (bboot s) /\ In i (ids (linodes (bl s))).
Proof.
  intros s Hi. destruct (ab_run_fix ops) as [_ F2]. specialize (F2 i Hi). split; [exact F2|].
  destruct (bi_live s (ab_run_inv ops)) as (_ & _ & HE). apply HE, F2.
Qed.

(* ---- 5. refusals ------------------------------------------------------------------------------------------ *)

Ltac break_match :=
  repeat match goal with
         | |- context [match ?x with _ => _ end] => destruct x
         end.

Lemma ab_add_bit_same bit i bits :
  Nat.eqb (length (add_bit bit i bits)) (length bits) = true -> add_bit bit i bits = bits.
Proof.
  unfold add_bit. destruct (bit && negb (mem i bits)); [|reflexivity].
  cbn [length]. intros H. apply Nat.eqb_eq in H. lia.
Qed.

Lemma ab_state_eta s : {| bl := bl s; bboot := bboot s; bbits := bbits s; bwreck := bwreck s |} = s.
Proof. destruct s; reflexivity. Qed.

Lemma ab_add_eltorito_ref fx s bp cd cn ls pf bit efi m ba sg s' :
  bstep_add_eltorito fx s bp cd cn ls pf bit efi m ba sg = (s', Ref) -> s' = s.
Proof.
  unfold bstep_add_eltorito, brefuse. cbv zeta.
  destruct (m =? 2); [intros H; inversion H; reflexivity|].
  destruct (lsubtree bp (lroot (bl s))) as [[fn i fs|dn dl kids]|]; try (intros H; inversion H; reflexivity).
  destruct (negb (has_ino i (linodes (bl s)))); [intros H; inversion H; reflexivity|].
  destruct (fx && (len_of i (linodes (bl s)) =? 0)); [intros H; inversion H; reflexivity|].
  destruct (bboot s) as [b|] eqn:Hb.
  - destruct (cat_add_section _ _ _ _ _ _ _); [discriminate|].
    destruct fx.
    + rewrite Nat.eqb_refl. cbn [negb]. intros H. inversion H. rewrite <- Hb. apply ab_state_eta.
    + destruct (Nat.eqb (length (add_bit bit i (bbits s))) (length (bbits s))) eqn:E; cbn [negb]; [|discriminate].
      intros H. inversion H. rewrite (ab_add_bit_same _ _ _ E), <- Hb. apply ab_state_eta.
  - destruct (cat_new _ _ _ _ _ _); [|discriminate].
    destruct (snd (add_record _ _ _ _ _ _)); discriminate.
Qed.

(* an operation refused with outcome Ref leaves the state unchanged (both versions of the code) *)
Theorem ab_refused_unchanged_gen fx s o s' : bstep_gen fx s o = (s', Ref) -> s' = s.
Proof.
  unfold bstep_gen, brefuse. destruct (bwreck s); [intros H; inversion H; reflexivity|].
  destruct o; try apply ab_add_eltorito_ref;
    unfold lift, bstep_add_link, bstep_add_cat_link, add_cat_name, bstep_rm_link, bstep_rm_file,
      bstep_rm_eltorito, lift, brefuse; cbv zeta;
    break_match; intros H; inversion H; reflexivity.
Qed.

Theorem ab_refused_unchanged s o s' : bstep s o = (s', Ref) -> s' = s.
Proof. apply ab_refused_unchanged_gen. Qed.

(* the current code: the only refusal that changes anything is the FIRST add_eltorito failing after
   self.brs.append (the known late refusals); it changes nothing the model tracks but the wreck flag *)
Theorem ab_late_is_first_call s o s' : bstep s o = (s', Late) ->
  bboot s = None /\ bwreck s = false /\
  s' = {| bl := bl s; bboot := bboot s; bbits := bbits s; bwreck := true |}.
Proof.
  unfold bstep, bstep_gen, brefuse. destruct (bwreck s) eqn:Hw; [discriminate|].
  destruct o;
    try (unfold lift, bstep_add_link, bstep_add_cat_link, add_cat_name, bstep_rm_link, bstep_rm_file,
           bstep_rm_eltorito, lift, brefuse; cbv zeta; break_match; discriminate).
  unfold bstep_add_eltorito, brefuse. cbv zeta.
  destruct (media =? 2); [discriminate|].
  destruct (lsubtree bootp (lroot (bl s))) as [[fn i fs|dn dl kids]|]; try discriminate.
  destruct (negb (has_ino i (linodes (bl s)))); [discriminate|].
  destruct (true && (len_of i (linodes (bl s)) =? 0)); [discriminate|].
  rewrite Nat.eqb_refl. cbn [negb].
  destruct (bboot s) as [b|] eqn:Hb.
  - destruct (cat_add_section _ _ _ _ _ _ _); discriminate.
  - destruct (cat_new _ _ _ _ _ _); [destruct (snd (add_record _ _ _ _ _ _)); [discriminate|]|];
      intros H; inversion H; repeat split; reflexivity.
Qed.

(* ... so every refused call that adds a SECTION (6a3f4a5), and every other refused operation, leaves
   the object unchanged *)
Theorem ab_refused_unchanged_unless_first_call s o s' oc :
  bstep s o = (s', oc) -> oc <> Acc -> (forall b, bboot s = Some b -> s' = s) /\ (bwreck s' = bwreck s -> s' = s).
Proof.
  intros Hstep Hoc. destruct oc; [contradiction| |].
  - pose proof (ab_refused_unchanged s o s' Hstep) as E. split; intros; exact E.
  - destruct (ab_late_is_first_call s o s' Hstep) as (Hb & Hw & E). split.
    + intros b Hb'. congruence.
    + intros H. rewrite E in H. cbn [bwreck] in H. congruence.
Qed.

(* rm_file on a name of the boot catalog, or on a name of a boot file, is refused *)
Theorem ab_rm_file_refused s dirp nm dn dl kids k cn i st :
  bwreck s = false ->
  lsubtree dirp (lroot (bl s)) = Some (LDir dn dl kids) -> llookup nm kids = Some (k, LFile cn i st) ->
  in_cat i (bboot s) = true \/ (has_ino i (linodes (bl s)) = true /\ 0 < erefs i (bboot s)) ->
  bstep s (BRmFile dirp nm) = (s, Ref).
Proof.
  intros Hw Hsub Hl H. unfold bstep, bstep_gen. rewrite Hw. unfold bstep_rm_file. rewrite Hsub, Hl.
  destruct (in_cat i (bboot s)); [reflexivity|]. destruct H as [H|[H1 H2]]; [discriminate|].
  rewrite H1. apply Z.ltb_lt in H2. rewrite H2. reflexivity.
Qed.

(* rm_hard_link on the last name of a boot file hides it: the record goes, the inode and its data stay *)
Theorem ab_rm_link_hides_boot_file s dirp nm dn dl kids k cn i st s' :
  bwreck s = false ->
  lsubtree dirp (lroot (bl s)) = Some (LDir dn dl kids) -> llookup nm kids = Some (k, LFile cn i st) ->
  0 < erefs i (bboot s) ->
  bstep s (BRmLink dirp nm) = (s', Acc) ->
  linodes (bl s') = linodes (bl s) /\ erefs i (bboot s') = erefs i (bboot s) /\
  exists sh, (sh = 0 \/ sh = 1) /\ lspace (bl s') = lspace (bl s) - sh.
Proof.
  intros Hw Hsub Hl He. unfold bstep, bstep_gen. rewrite Hw. unfold bstep_rm_link. rewrite Hsub, Hl. cbv zeta.
  rewrite ab_rm_record_root.
  pose proof (lrefcount_nonneg i (lreplace dirp (LDir dn (dlen (dir_remove C (ldir_st dl kids) (2 + k)))
                                             (remove_at k kids)) (lroot (bl s)))) as N.
  destruct (Z.eqb_spec (lrefcount i (lreplace dirp (LDir dn (dlen (dir_remove C (ldir_st dl kids) (2 + k)))
                                             (remove_at k kids)) (lroot (bl s))) + erefs i (bboot s)) 0) as [E|E];
    [lia|].
  rewrite andb_false_r. intros H. inversion H. subst s'. cbn [bl bboot linodes lspace rm_record].
  split; [reflexivity|]. split; [apply ab_erefs_forget|].
  destruct (grow_cases (rm_underflows (ldir_st dl kids) (2 + k))) as [G|G]; rewrite G;
    [exists 0|exists 1]; (split; [tauto|]); unfold ceiling_div, C; lia.
Qed.

Print Assumptions ab_space_exact.
Print Assumptions ab_boot_file_cannot_vanish.
Print Assumptions ab_objects_disjoint_and_inside.
Print Assumptions ab_catalog_points_at_files.
Print Assumptions ab_load_rba_inside_partial.
Print Assumptions ab_load_rba_own_extent.
Print Assumptions ab_bits_on_boot_files.
Print Assumptions ab_refused_unchanged_gen.
Print Assumptions ab_late_is_first_call.
Print Assumptions ab_refused_unchanged_unless_first_call.
Print Assumptions ab_rm_file_refused.
Print Assumptions ab_rm_link_hides_boot_file.
