(* What Model/AccountRR.v needs to know about RockRidge.new (Model/RRPlace.v place): the length of every
   record it produces is even and in [drlen, 254]; a CE entry is created only with a non-empty continuation
   area (0 < len_cont_area), and AccountRR.rr_new passes on at most one block of it. *)
From Coq Require Import ZArith List Bool Lia ZifyBool.
From PV.Base Require Import Prim.
From PV.Model Require Import Codec RREntries RRWalk RRPlace AccountRR.
From PV.Model Require LongNames.
From PV.Proofs Require Import CodecProofs RREntriesProofs RRWalkProofs RRPlaceSLProofs RRPlaceProofs RRPlaceProofs2.
Import ListNotations.
Local Open Scope Z_scope.

Lemma arr_nm_lens_nonneg l : 0 <= nm_lens l.
Proof. apply nm_lens_hdr. Qed.

(* the record never shrinks below the plain directory record and fits the one-byte length *)
Lemma arr_place_len i r : place i = Some r -> 0 <= p_dr_len i ->
  p_dr_len i <= pl_len r <= ALLOWED_DR_SIZE /\ 0 <= pl_celen r.
Proof.
  intros H H0. destruct (place_pass i r H H0) as (hc & ws & nm_d & nm_c & sl_d & sl_c & F & _ & Hl & _).
  destruct (len_consts (p_v i)) as (L1 & L2 & L3 & L4 & L5 & L6 & L7).
  destruct (sl_facts _ _ _ _ _ _ _ _ _ F) as (SM & _ & _ & _).
  apply Forall_app in SM. destruct SM as [SMd SMc].
  pose proof (sl_lens_nonneg _ SMd) as Sd. pose proof (sl_lens_nonneg _ SMc) as Sc.
  pose proof (arr_nm_lens_nonneg nm_d) as Nd. pose proof (arr_nm_lens_nonneg nm_c) as Nc.
  pose proof (f_len _ _ _ _ _ _ _ _ _ F) as FL. pose proof (f_celen _ _ _ _ _ _ _ _ _ F) as FC.
  unfold cur_sl in FL.
  pose proof (wl_nonneg (w_sp ws) true _ L1). pose proof (wl_nonneg (w_rr ws) true _ L2).
  pose proof (wl_nonneg (w_px ws) true _ L3). pose proof (wl_nonneg (w_tf ws) true _ L4).
  pose proof (wl_nonneg (w_cl ws) true _ L5). pose proof (wl_nonneg (w_pl ws) true _ L5).
  pose proof (wl_nonneg (w_re ws) true _ L6). pose proof (wl_nonneg (w_er ws) true _ L7).
  pose proof (wl_nonneg (w_sp ws) false _ L1). pose proof (wl_nonneg (w_rr ws) false _ L2).
  pose proof (wl_nonneg (w_px ws) false _ L3). pose proof (wl_nonneg (w_tf ws) false _ L4).
  pose proof (wl_nonneg (w_cl ws) false _ L5). pose proof (wl_nonneg (w_pl ws) false _ L5).
  pose proof (wl_nonneg (w_re ws) false _ L6). pose proof (wl_nonneg (w_er ws) false _ L7).
  assert (0 <= (if hc then sl_lens sl_c else 0)) by (destruct hc; lia).
  assert (0 <= (if hc then len_ce else 0)) by (destruct hc; unfold len_ce; lia).
  repeat split; lia.
Qed.

(* a CE entry is only created when something was put into the continuation area *)
Theorem arr_celen_pos i r : place i = Some r -> 0 <= p_dr_len i ->
  is_some (ce_record (pl_dr r)) = true -> 0 < pl_celen r.
Proof.
  intros H H0 Hc. destruct (arr_place_len i r H H0) as (_ & Hn).
  destruct (Z.eq_dec (pl_celen r) 0) as [Hz|Hz]; [exfalso|lia].
  destruct (place_pass i r H H0) as (hc & ws & nm_d & nm_c & sl_d & sl_c & F & P1 & Hl & Hv & _).
  rewrite (f_dr _ _ _ _ _ _ _ _ _ F) in Hc. cbn [side_entries ce_record] in Hc.
  destruct hc; [|discriminate Hc].
  destruct (len_consts (p_v i)) as (L1 & L2 & L3 & L4 & L5 & L6 & L7).
  pose proof (f_celen _ _ _ _ _ _ _ _ _ F) as A0. rewrite Hz in A0.
  destruct (sl_facts _ _ _ _ _ _ _ _ _ F) as (SM & _ & _ & SU). rewrite sl_lens_app in SU.
  apply Forall_app in SM. pose proof (sl_lens_nonneg _ (proj2 SM)) as Sc.
  destruct (f_nm _ _ _ _ _ _ _ _ _ F) as (J & NF & _).
  pose proof (arr_nm_lens_nonneg nm_c). pose proof (nm_lens_ge _ _ J) as NG.
  assert (NA : nm_lens (nm_d ++ nm_c) = nm_lens nm_d + nm_lens nm_c)
    by (unfold nm_lens; rewrite map_app, sumz_app; reflexivity).
  pose proof (wl_nonneg (w_sp ws) false _ L1). pose proof (wl_nonneg (w_rr ws) false _ L2).
  pose proof (wl_nonneg (w_px ws) false _ L3). pose proof (wl_nonneg (w_tf ws) false _ L4).
  pose proof (wl_nonneg (w_cl ws) false _ L5). pose proof (wl_nonneg (w_pl ws) false _ L5).
  pose proof (wl_nonneg (w_re ws) false _ L6). pose proof (wl_nonneg (w_er ws) false _ L7).
  destruct (f_created _ _ _ _ _ _ _ _ _ F) as (C1 & C2 & C3 & C4 & C5 & C6 & C7 & C8).
  pose proof (wl_sum (w_sp ws) len_sp) as W1. pose proof (wl_sum (w_rr ws) len_rr) as W2.
  pose proof (wl_sum (w_px ws) (px_len (p_v i))) as W3. pose proof (wl_sum (w_tf ws) (len_tf TF_FLAGS)) as W4.
  pose proof (wl_sum (w_cl ws) len_link) as W5. pose proof (wl_sum (w_re ws) len_re) as W6.
  pose proof (wl_sum (w_pl ws) len_link) as W7. pose proof (wl_sum (w_er ws) (er_len (p_v i))) as W8.
  rewrite C1 in W1. rewrite C2 in W2. rewrite C3 in W3. rewrite C4 in W4. rewrite C5 in W5. rewrite C6 in W6.
  rewrite C7 in W7. rewrite C8 in W8. cbn [opt_len] in W3, W4.
  pose proof (f_len _ _ _ _ _ _ _ _ _ F) as FL. unfold cur_sl in FL.
  assert (Hf : first_fit i = true).
  { apply first_fit_closed. unfold before_sl, after_sl, ALLOWED_DR_SIZE, len_ce in *. lia. }
  destruct (first_fit_assign i Hv H0 Hf) as (r' & E). rewrite (P1 eq_refl) in E. discriminate E.
Qed.

(* ---- AccountRR.rr_new ------------------------------------------------------------------------ *)
Definition len_ok (x : Z) : Prop := 0 < x <= 254 /\ x mod 2 = 0.

Theorem arr_rr_new_spec v first drlen rr target mode x ce :
  rr_new v first drlen rr target mode = Some (x, ce) -> 0 < drlen ->
  drlen <= x <= 254 /\ x mod 2 = 0 /\ match ce with Some l => 0 < l <= M | None => True end.
Proof.
  unfold rr_new. intros H Hd.
  destruct (ALLOWED_DR_SIZE <? drlen + len_ce) eqn:G; [discriminate H|].
  destruct (place _) as [r|] eqn:P; [|discriminate H].
  assert (H0 : 0 <= p_dr_len (mk_pin v first rr mode (match target with [] => None | _ => Some target end)
                                     false false false 0 drlen rr_dates)) by (cbn [p_dr_len]; lia).
  destruct (arr_place_len _ _ P H0) as ((Ha & Hb) & Hc). cbn [p_dr_len] in Ha.
  assert (Hx : drlen <= new_dr_len_of r <= 254 /\ new_dr_len_of r mod 2 = 0).
  { unfold new_dr_len_of, ALLOWED_DR_SIZE in *.
    Ltac Zify.zify_post_hook ::= Z.to_euclidean_division_equations. lia. }
  destruct (is_some (ce_record (pl_dr r))) eqn:Hce.
  - destruct (M <? pl_celen r) eqn:GM; [discriminate H|]. inversion H; subst x ce.
    pose proof (arr_celen_pos _ _ P H0 Hce). split; [apply Hx|]. split; [apply Hx|]. lia.
  - inversion H; subst x ce. split; [apply Hx|]. split; [apply Hx|exact I].
Qed.

Corollary arr_rr_new_len_ok v first nm rr target mode x ce :
  rr_new v first (Account.dr_len_of nm) rr target mode = Some (x, ce) -> len_ok x.
Proof.
  intros H. assert (Hd : 0 < Account.dr_len_of nm).
  { unfold Account.dr_len_of. pose proof (zlen_nonneg nm). cbv zeta.
    Ltac Zify.zify_post_hook ::= Z.to_euclidean_division_equations. lia. }
  destruct (arr_rr_new_spec _ _ _ _ _ _ _ _ H Hd) as (A & B & _). split; [lia|exact B].
Qed.

(* the '.' and '..' records, for every Rock Ridge version *)
Lemma arr_dot_len_ok v b : len_ok (dot_len v b).
Proof. destruct v, b; vm_compute; repeat split; intro; discriminate. Qed.
Lemma arr_dotdot_len_ok v : len_ok (dotdot_len v).
Proof. destruct v; vm_compute; repeat split; intro; discriminate. Qed.
(* '.' and '..' never need a continuation area of their own, except the root's '.' (the ER entry) whose
   block is the fixed one after the directories *)
Lemma arr_dot_no_ce v : v <> V_unset ->
  (exists x, rr_new v false 34 [] [] DIR_MODE = Some (x, None)) /\
  (exists x l, rr_new v true 34 [] [] DIR_MODE = Some (x, Some l)).
Proof. destruct v; intros H; try congruence; vm_compute; split; eexists; try eexists; reflexivity. Qed.

Print Assumptions arr_celen_pos.
Print Assumptions arr_rr_new_spec.
