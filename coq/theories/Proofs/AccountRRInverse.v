(* C04 -- "what a removal releases is exactly what the matching add took" for Model/AccountRR.v.
   Adding a file / symlink / directory and removing it again restores the tree, the path table counters and the
   LIST of continuation blocks exactly (same objects, same entries; only the object-identity counter r_next may
   have advanced), and the volume size up to the data_length of the parent directory:
     arr_add_rm_file / arr_add_rm_symlink / arr_add_rm_dir   the exact statement (dl2 = the parent's length
                                                              after DirectoryRecord.remove_child)
     arr_add_rm_inverse_partial                              everything is restored when dl2 = dl
     arr_add_rm_inverse_refuted                              dl2 = dl + 2048 when the records fill the last
         block of the directory exactly: remove_child tests `data_length - total_size > block`, and
         4096 - 2048 > 2048 is false (reproduced on the library: /var/tmp/accountrr/probe_inverse.py). *)
From Coq Require Import ZArith List Bool Lia ZifyBool Permutation.
From PV.Base Require Import Prim.
From PV.Gen Require Import GenConst GenFun.
From PV.Model Require Import Names Checksums Pack Alloc CeAlloc RREntries RRWalk RRPlace Account AccountRR.
From PV.Proofs Require Import PackProofs AllocProofs ChecksumsArithProofs CeAllocProofs AccountLemmas
  AccountRRPlace AccountRRLemmas AccountRRCe AccountRRInv AccountRRProofs.
Import ListNotations.
Local Open Scope Z_scope.
Ltac Zify.zify_post_hook ::= Z.to_euclidean_division_equations.

(* ---- 1. list and tree surgery --------------------------------------------------------------------------- *)
Lemma arr_firstn_insert {A} k (c : A) l : (k <= length l)%nat -> firstn k (insert_at k c l) = firstn k l.
Proof.
  intros H. unfold insert_at. rewrite firstn_app, firstn_firstn, Nat.min_id, firstn_length, Nat.min_l by lia.
  rewrite Nat.sub_diag. cbn [firstn]. apply app_nil_r.
Qed.
Lemma arr_skipn_insert {A} k (c : A) l : (k <= length l)%nat -> skipn k (insert_at k c l) = c :: skipn k l.
Proof.
  intros H. unfold insert_at. rewrite skipn_app, firstn_length, Nat.min_l by lia.
  rewrite Nat.sub_diag. cbn [skipn]. rewrite skipn_all2 by (rewrite firstn_length; lia). reflexivity.
Qed.
Lemma arr_remove_insert {A} k (c : A) l : (k <= length l)%nat -> remove_at k (insert_at k c l) = l.
Proof.
  intros H. unfold remove_at. rewrite arr_firstn_insert by exact H.
  unfold insert_at. rewrite skipn_app, firstn_length, Nat.min_l by lia.
  rewrite skipn_all2 by (rewrite firstn_length; lia).
  replace (S k - k)%nat with 1%nat by lia. cbn [skipn app]. apply firstn_skipn.
Qed.
Lemma arr_nth_insert {A} k (c : A) l : (k <= length l)%nat -> nth_error (insert_at k c l) k = Some c.
Proof.
  intros H. unfold insert_at. rewrite nth_error_app2 by (rewrite firstn_length; lia).
  rewrite firstn_length, Nat.min_l, Nat.sub_diag by lia. reflexivity.
Qed.

Lemma arr_pos_insert nm : forall names, pos nm (insert_at (pos nm names) nm names) = pos nm names.
Proof.
  induction names as [|a r IH]; cbn [pos].
  - cbn. rewrite bytes_ltb_irrefl. reflexivity.
  - destruct (bytes_ltb a nm) eqn:E.
    + change (insert_at (S (pos nm r)) nm (a :: r)) with (a :: insert_at (pos nm r) nm r).
      cbn [pos]. rewrite E, IH. reflexivity.
    + change (insert_at 0 nm (a :: r)) with (nm :: a :: r). cbn [pos]. rewrite bytes_ltb_irrefl. reflexivity.
Qed.

Lemma arr_lookup_insert nm kids c : rname c = nm ->
  rlookup nm (insert_at (pos nm (map rname kids)) c kids) = Some (pos nm (map rname kids), c).
Proof.
  intros Hn. unfold rlookup. rewrite map_insert_at, Hn, arr_pos_insert.
  pose proof (pos_le nm (map rname kids)) as Hle. rewrite map_length in Hle.
  rewrite arr_nth_insert by exact Hle. rewrite Hn, bytes_eqb_refl. reflexivity.
Qed.

Lemma arr_nth_set_at {A} kids k (c c' : A) : nth_error kids k = Some c -> nth_error (set_at k c' kids) k = Some c'.
Proof.
  intros H. destruct (nth_error_decomp kids k c H) as (l1 & l2 & -> & Hl & Hs & _).
  rewrite Hs, nth_error_app2 by lia. rewrite Hl, Nat.sub_diag. reflexivity.
Qed.
Lemma arr_set_at_set_at {A} kids k (c c1 c2 : A) : nth_error kids k = Some c ->
  set_at k c2 (set_at k c1 kids) = set_at k c2 kids.
Proof.
  intros H. assert (Hk : (k < length kids)%nat) by (apply nth_error_Some; congruence).
  unfold set_at. f_equal.
  - rewrite firstn_app, firstn_firstn, Nat.min_id, firstn_length, Nat.min_l by lia.
    rewrite Nat.sub_diag. cbn [firstn]. apply app_nil_r.
  - f_equal. rewrite skipn_app, firstn_length, Nat.min_l by lia.
    rewrite skipn_all2 by (rewrite firstn_length; lia).
    replace (S k - k)%nat with 1%nat by lia. reflexivity.
Qed.
Lemma arr_set_at_same {A} kids k (c : A) : nth_error kids k = Some c -> set_at k c kids = kids.
Proof.
  intros H. destruct (nth_error_decomp kids k c H) as (l1 & l2 & -> & _ & Hs & _). apply Hs.
Qed.

Lemma arr_lookup_set_at kids k c c' x : rlookup x kids = Some (k, c) -> rname c' = rname c ->
  rlookup x (set_at k c' kids) = Some (k, c').
Proof.
  intros H E. apply arr_lookup_spec in H. destruct H as (Hk & Hn & Hp).
  assert (Hnames : map rname (set_at k c' kids) = map rname kids).
  { destruct (nth_error_decomp kids k c Hk) as (l1 & l2 & -> & _ & Hs & _).
    rewrite Hs, !map_app. cbn [map]. rewrite E. reflexivity. }
  unfold rlookup. rewrite Hnames, <- Hp, (arr_nth_set_at kids k c c' Hk), E, Hn, bytes_eqb_refl. reflexivity.
Qed.

Lemma arr_subtree_replace : forall p n t old, rsubtree p n = Some old -> meta_of t = meta_of old ->
  rsubtree p (rreplace p t n) = Some t.
Proof.
  induction p as [|x q IH]; intros n t old H E; cbn [rsubtree rreplace] in *; [reflexivity|].
  destruct n as [m len|m dl kids]; [discriminate|].
  destruct (rlookup x kids) as [[k c]|] eqn:L; [|discriminate]. cbn [rsubtree].
  rewrite (arr_lookup_set_at kids k c _ x L).
  - apply (IH c t old H E).
  - unfold rname. rewrite (arr_replace_meta q c t old H E). reflexivity.
Qed.

Lemma arr_replace_replace : forall p n t t' old, rsubtree p n = Some old -> meta_of t = meta_of old ->
  rreplace p t' (rreplace p t n) = rreplace p t' n.
Proof.
  induction p as [|x q IH]; intros n t t' old H E; cbn [rsubtree rreplace] in *; [reflexivity|].
  destruct n as [m len|m dl kids]; [discriminate|].
  destruct (rlookup x kids) as [[k c]|] eqn:L; [|discriminate]. cbn [rreplace].
  rewrite (arr_lookup_set_at kids k c _ x L)
    by (unfold rname; rewrite (arr_replace_meta q c t old H E); reflexivity).
  apply arr_lookup_spec in L. destruct L as (Hk & _ & _).
  rewrite (IH c t t' old H E), (arr_set_at_set_at kids k c _ _ Hk). reflexivity.
Qed.

Lemma arr_replace_same : forall p n old, rsubtree p n = Some old -> rreplace p old n = n.
Proof.
  induction p as [|x q IH]; intros n old H; cbn [rsubtree rreplace] in *; [inversion H; reflexivity|].
  destruct n as [m len|m dl kids]; [reflexivity|].
  destruct (rlookup x kids) as [[k c]|] eqn:L; [|reflexivity].
  apply arr_lookup_spec in L. destruct L as (Hk & _ & _).
  rewrite (IH c old H), (arr_set_at_same kids k c Hk). reflexivity.
Qed.

(* ---- 2. the continuation entry that was just placed is released again, block list restored ----------- *)
Lemma arr_remove_lin_insert o len : forall es, remove_entry (lin_insert (o, len) es) o len = Some es.
Proof.
  induction es as [|e tl IH]; cbn [lin_insert remove_entry fst snd].
  - rewrite !Z.eqb_refl. reflexivity.
  - unfold entry_lt. cbn [fst]. destruct (fst e <? o) eqn:E; cbn [remove_entry fst snd].
    + replace (fst e =? o) with false by lia. cbn [andb]. rewrite IH. reflexivity.
    + rewrite !Z.eqb_refl. reflexivity.
Qed.

Lemma arr_release_skip : forall B1 id off len rest, ~ In id (map fst B1) ->
  ce_release (B1 ++ rest) id off len =
  match ce_release rest id off len with Some (b, r') => Some (b, B1 ++ r') | None => None end.
Proof.
  induction B1 as [|[i es] B1 IH]; intros id off len rest Hn; cbn [app ce_release].
  - destruct (ce_release rest id off len) as [[b r']|]; reflexivity.
  - cbn [map fst] in Hn. destruct (Nat.eqb_spec i id) as [->|Hne]; [exfalso; apply Hn; left; reflexivity|].
    rewrite IH by (intros H; apply Hn; right; exact H).
    destruct (ce_release rest id off len) as [[b r']|]; reflexivity.
Qed.

Theorem arr_alloc_release bs nid celen added ky bs1 :
  blocks_ok bs -> ids_below bs nid -> 0 < celen <= M ->
  ce_alloc bs nid celen = (added, ky, bs1) ->
  ce_release bs1 (fst (fst ky)) (snd (fst ky)) (snd ky) = Some (added, bs).
Proof.
  intros [Hnd Hok] Hids Hlen. unfold ce_alloc, add_rr_ce_entry. cbv zeta.
  pose proof (add_rr_loop_spec M celen (map snd bs)) as S.
  destruct (fst (add_rr_loop M (map snd bs) celen)) as [[i o]|].
  - destruct S as (Ho & l1 & b & l2 & E1 & E2 & E3 & E4). rewrite E4.
    intros H. inversion H; subst added ky bs1. clear H.
    apply map_eq_app in E1. destruct E1 as (B1 & B2' & -> & <- & E1).
    apply map_eq_cons in E1. destruct E1 as ([id es] & B2 & -> & Eb & <-). cbn [snd] in Eb. subst b.
    assert (Hes : block_ok (id, es)).
    { rewrite Forall_forall in Hok. apply Hok. apply in_or_app. right. left. reflexivity. }
    destruct Hes as [Hw Hne]. cbn [snd] in Hw, Hne.
    set (es' := snd (add_entry M es celen)).
    assert (Ecomb : combine (map fst (B1 ++ (id, es) :: B2) ++ [nid]) (map snd B1 ++ es' :: map snd B2)
                    = B1 ++ (id, es') :: B2).
    { replace (map fst (B1 ++ (id, es) :: B2)) with (map fst (B1 ++ (id, es') :: B2))
        by (rewrite !map_app; reflexivity).
      replace (map snd B1 ++ es' :: map snd B2) with (map snd (B1 ++ (id, es') :: B2))
        by (rewrite !map_app; reflexivity).
      apply arr_combine_fst_snd. }
    rewrite Ecomb. rewrite map_length in E2. subst i.
    assert (Enth : nth (length B1) (map fst (B1 ++ (id, es) :: B2) ++ [nid]) nid = id).
    { rewrite map_app, <- app_assoc. rewrite app_nth2 by (rewrite map_length; lia).
      rewrite map_length, Nat.sub_diag. reflexivity. }
    rewrite Enth. cbn [fst snd].
    rewrite map_app in Hnd. cbn [map fst] in Hnd. apply NoDup_remove_2 in Hnd.
    rewrite arr_release_skip by (intros H; apply Hnd; apply in_or_app; left; exact H).
    cbn [ce_release]. rewrite Nat.eqb_refl.
    assert (Ees : es' = lin_insert (o, celen) es).
    { unfold es', add_entry. cbv zeta. rewrite <- add_entry_fst with (M := M), E3.
      replace (o >=? 0) with true by lia. cbn [snd].
      apply insort_left_sorted, (wf_sorted M), Hw. }
    rewrite Ees, arr_remove_lin_insert. destruct es as [|e es0]; [congruence|]. reflexivity.
  - destruct S as [E F]. rewrite E. intros H. inversion H; subst added ky bs1. clear H.
    rewrite arr_add_entry_empty by lia. cbn [fst snd].
    rewrite arr_combine_app by (rewrite !map_length; reflexivity).
    replace (combine (map fst bs) (map snd bs)) with bs
      by (symmetry; rewrite <- (app_nil_r (map fst bs)); apply arr_combine_fst_snd).
    cbn [combine]. rewrite map_length.
    assert (Enth : nth (length bs) (map fst bs ++ [nid]) nid = nid).
    { rewrite app_nth2 by (rewrite map_length; lia). rewrite map_length, Nat.sub_diag. reflexivity. }
    rewrite Enth. rewrite arr_release_skip.
    + cbn [ce_release remove_entry fst snd]. rewrite Nat.eqb_refl, !Z.eqb_refl. cbn [andb].
      rewrite app_nil_r. reflexivity.
    + intros Hin. apply in_map_iff in Hin. destruct Hin as (b & Hb & Hin).
      unfold ids_below in Hids. rewrite Forall_forall in Hids. specialize (Hids b Hin). lia.
Qed.

(* ---- 3. add_record followed by the matching removal ------------------------------------------------------ *)
(* the parent's data_length after the two calls *)
Definition dl_after (s : rstate) (dirp : path) (dl : Z) (kids : list rnode) (nm : ident) (x : Z) : Z :=
  let k := pos nm (map rname kids) in
  dlen (dir_remove C (dir_add C (rst_of (r_ver s) (is_root_path dirp) dl (rlens kids)) (2 + k) x) (2 + k)).

Record undone (s s2 : rstate) (dirp : path) (dm : meta) (dl2 : Z) (kids : list rnode) : Prop := {
  un_ver : r_ver s2 = r_ver s;
  un_root : r_root s2 = rreplace dirp (RDir dm dl2 kids) (r_root s);
  un_ptr : r_ptr_size s2 = r_ptr_size s /\ r_ptr_ext s2 = r_ptr_ext s;
  un_blocks : r_blocks s2 = r_blocks s;                        (* the same list, not just an equivalent one *)
  un_next : (r_next s <= r_next s2)%nat
}.

Section AddThenRemove.
Variables (s : rstate) (dirp : path) (dm : meta) (dl : Z) (kids : list rnode).
Variables (mk : option key -> rnode) (nm : ident) (x : Z) (ce : option Z) (b : bool) (ps pe extra : Z).
Hypothesis HI : RInv s.
Hypothesis Hsub : rsubtree dirp (r_root s) = Some (RDir dm dl kids).
Hypothesis Hce : match ce with Some l => 0 < l <= M | None => True end.
Hypothesis Hmk : forall ky, rname (mk ky) = nm /\ m_rlen (meta_of (mk ky)) = x /\ m_ce (meta_of (mk ky)) = ky.

Let k := pos nm (map rname kids).
Let d := rst_of (r_ver s) (is_root_path dirp) dl (rlens kids).
Let s1 := fst (add_record s dirp dm dl kids mk nm x ce (b, ps, pe) extra).

Lemma arr_added_shape : exists cebytes cekey,
  r_ver s1 = r_ver s /\ r_ptr_size s1 = ps /\ r_ptr_ext s1 = pe /\
  r_root s1 = rreplace dirp (RDir dm (dlen (dir_add C d (2 + k) x)) (insert_at k (mk cekey) kids)) (r_root s) /\
  r_space s1 = r_space s + ceiling_div (0 + (extra + (if add_overflows d (2 + k) x then C else 0) + cebytes
                                              + (if b then 4 * C else 0))) C /\
  release_of (r_blocks s1) (meta_of (mk cekey)) = Some (cebytes, r_blocks s) /\
  (r_next s <= r_next s1)%nat /\ (cebytes = 0 \/ cebytes = C).
Proof.
  unfold s1, add_record. cbv zeta. fold k. fold d.
  destruct ce as [celen|].
  - destruct (ce_alloc (r_blocks s) (r_next s) celen) as [[added ky] bs'] eqn:E. cbn [fst].
    exists (if added then C else 0), (Some ky). cbn [r_ver r_ptr_size r_ptr_ext r_root r_space r_blocks r_next].
    repeat split; try reflexivity.
    + unfold release_of. destruct (Hmk (Some ky)) as (_ & _ & ->). destruct ky as [[id off] len].
      pose proof (arr_alloc_release _ _ _ _ _ _ (ri_blocks s HI) (ri_ids s HI) Hce E) as R.
      cbn [fst snd] in R. rewrite R. reflexivity.
    + destruct added; lia.
    + destruct added; [right|left]; reflexivity.
  - cbn [fst]. exists 0, None. cbn [r_ver r_ptr_size r_ptr_ext r_root r_space r_blocks r_next].
    repeat split; try reflexivity; try lia.
    unfold release_of. destruct (Hmk None) as (_ & _ & ->). reflexivity.
Qed.

(* what the removal finds in s1, and what it leaves *)
Lemma arr_added_found cekey :
  r_root s1 = rreplace dirp (RDir dm (dlen (dir_add C d (2 + k) x)) (insert_at k (mk cekey) kids)) (r_root s) ->
  rsubtree dirp (r_root s1) = Some (RDir dm (dlen (dir_add C d (2 + k) x)) (insert_at k (mk cekey) kids)) /\
  rlookup nm (insert_at k (mk cekey) kids) = Some (k, mk cekey) /\
  remove_at k (insert_at k (mk cekey) kids) = kids /\
  (forall t, rreplace dirp t (r_root s1) = rreplace dirp t (r_root s)) /\
  dir_remove C (rst_of (r_ver s) (is_root_path dirp) (dlen (dir_add C d (2 + k) x))
                       (rlens (insert_at k (mk cekey) kids))) (2 + k)
  = dir_remove C (dir_add C d (2 + k) x) (2 + k) /\
  rm_underflows (rst_of (r_ver s) (is_root_path dirp) (dlen (dir_add C d (2 + k) x))
                        (rlens (insert_at k (mk cekey) kids))) (2 + k)
  = rm_underflows (dir_add C d (2 + k) x) (2 + k).
Proof.
  intros Hroot. destruct (Hmk cekey) as (Hn & Hx & _).
  pose proof (pos_le nm (map rname kids)) as Hle. rewrite map_length in Hle. fold k in Hle.
  assert (Hst : rst_of (r_ver s) (is_root_path dirp) (dlen (dir_add C d (2 + k) x))
                       (rlens (insert_at k (mk cekey) kids)) = dir_add C d (2 + k) x).
  { unfold rlens. rewrite map_insert_at, Hx. fold (rlens kids). symmetry. apply arr_st_add. }
  split; [rewrite Hroot; apply (arr_subtree_replace _ _ _ _ Hsub); reflexivity|].
  split; [apply arr_lookup_insert, Hn|]. split; [apply arr_remove_insert, Hle|].
  split; [intros t; rewrite Hroot; apply (arr_replace_replace _ _ _ _ _ Hsub); reflexivity|].
  rewrite Hst. split; reflexivity.
Qed.

Lemma arr_dl_after_cases :
  let dl1 := dlen (dir_add C d (2 + k) x) in
  let dl2 := dlen (dir_remove C (dir_add C d (2 + k) x) (2 + k)) in
  dl1 = dl + (if add_overflows d (2 + k) x then C else 0) /\
  dl2 = dl1 - (if rm_underflows (dir_add C d (2 + k) x) (2 + k) then C else 0).
Proof. cbv zeta. rewrite dlen_remove, dlen_add. split; reflexivity. Qed.
End AddThenRemove.

(* ---- 4. the three pairs ------------------------------------------------------------------------------------ *)
Ltac refuse_cases H := first [discriminate H | idtac].

Theorem arr_add_rm_file s dirp nm rr len s1 : RInv s -> step_add_file s dirp nm rr len = (s1, true) ->
  exists dm dl kids x s2,
    rsubtree dirp (r_root s) = Some (RDir dm dl kids) /\
    step_rm_file true s1 dirp nm = (s2, true) /\
    undone s s2 dirp dm (dl_after s dirp dl kids nm x) kids /\
    r_space s2 = r_space s + (dl_after s dirp dl kids nm x - dl) / C.
Proof.
  intros HI. unfold step_add_file, rrefuse.
  destruct (negb ((0 <=? len) && (len <=? max_len))) eqn:Hr; [discriminate|].
  destruct (negb (rr_name_ok rr)); [discriminate|].
  destruct (rsubtree dirp (r_root s)) as [parent|] eqn:Hsub; [|discriminate].
  destruct (check_iso9660_filename nm 3); try discriminate. cbv zeta.
  destruct (dr_len_of nm >? 255) eqn:Hx; [discriminate|].
  destruct (rr_new (r_ver s) false (dr_len_of nm) rr [] FILE_MODE) as [[x ce]|] eqn:Hnew; [|discriminate].
  destruct parent as [pm pl|dm dl kids]; [discriminate|].
  destruct (is_some (rlookup nm kids) && negb (dup_allowed (is_root_path dirp) dm)); [discriminate|].
  destruct (arr_rr_new_ce _ _ _ _ _ _ _ _ Hnew) as [Hlx Hce].
  intros Hs1. exists dm, dl, kids, x.
  set (mk := fun ky => RFile (mk_meta nm rr [] true x ky) len) in *.
  assert (Hmk : forall ky, rname (mk ky) = nm /\ m_rlen (meta_of (mk ky)) = x /\ m_ce (meta_of (mk ky)) = ky)
    by (intros ky; repeat split; reflexivity).
  destruct (arr_added_shape s dirp dm dl kids mk nm x ce false (r_ptr_size s) (r_ptr_ext s) len HI Hce Hmk)
    as (cebytes & cekey & Hv & Hps & Hpe & Hroot & Hsp & Hrel & Hnext & Hcb).
  assert (Es1 : s1 = fst (add_record s dirp dm dl kids mk nm x ce (false, r_ptr_size s, r_ptr_ext s) len))
    by (rewrite Hs1; reflexivity).
  rewrite <- Es1 in *.
  destruct (arr_added_found s dirp dm dl kids mk nm x ce false (r_ptr_size s) (r_ptr_ext s) len Hsub Hmk cekey)
    as (F1 & F2 & F3 & F4 & F5 & F6); [rewrite <- Es1; exact Hroot|]. rewrite <- Es1 in *.
  unfold step_rm_file. rewrite F1, F2. cbv zeta. cbn [m_ino mk meta_of orb].
  change (mk_meta nm rr [] true x cekey) with (meta_of (mk cekey)). rewrite Hrel, Hv, F3, F4, F5, F6.
  eexists. split; [reflexivity|]. split; [reflexivity|]. split.
  - constructor; cbn [r_ver r_root r_ptr_size r_ptr_ext r_blocks r_next]; auto.
  - cbn [r_space]. rewrite Hsp.
    destruct (arr_dl_after_cases s dirp dl kids nm x) as [D1 D2]. unfold dl_after. cbv zeta in *.
    set (d := rst_of (r_ver s) (is_root_path dirp) dl (rlens kids)) in *.
    set (k := pos nm (map rname kids)) in *.
    rewrite D2, D1.
    destruct (arr_grow_cases (add_overflows d (2 + k) x)) as [E|E]; rewrite E;
      destruct (arr_grow_cases (rm_underflows (dir_add C d (2 + k) x) (2 + k))) as [E'|E']; rewrite E';
      destruct Hcb as [-> | ->]; unfold ceiling_div, C; cbn [andb]; lia.
Qed.

Theorem arr_add_rm_symlink s dirp nm rr tg s1 : RInv s -> step_add_symlink s dirp nm rr tg = (s1, true) ->
  exists dm dl kids x s2,
    rsubtree dirp (r_root s) = Some (RDir dm dl kids) /\
    step_rm_file true s1 dirp nm = (s2, true) /\
    undone s s2 dirp dm (dl_after s dirp dl kids nm x) kids /\
    r_space s2 = r_space s + (dl_after s dirp dl kids nm x - dl) / C.
Proof.
  intros HI. unfold step_add_symlink, rrefuse.
  destruct (negb (plain_name nm)); [discriminate|].
  destruct (rsubtree dirp (r_root s)) as [parent|] eqn:Hsub; [|discriminate]. cbv zeta.
  destruct (dr_len_of nm >? 255) eqn:Hx; [discriminate|].
  destruct (rr_new (r_ver s) false (dr_len_of nm) rr tg LINK_MODE) as [[x ce]|] eqn:Hnew; [|discriminate].
  destruct parent as [pm pl|dm dl kids]; [discriminate|].
  destruct (is_some (rlookup nm kids) && negb (dup_allowed (is_root_path dirp) dm)); [discriminate|].
  destruct (arr_rr_new_ce _ _ _ _ _ _ _ _ Hnew) as [Hlx Hce].
  intros Hs1. exists dm, dl, kids, x.
  set (mk := fun ky => RFile (mk_meta nm rr tg false x ky) 0) in *.
  assert (Hmk : forall ky, rname (mk ky) = nm /\ m_rlen (meta_of (mk ky)) = x /\ m_ce (meta_of (mk ky)) = ky)
    by (intros ky; repeat split; reflexivity).
  destruct (arr_added_shape s dirp dm dl kids mk nm x ce false (r_ptr_size s) (r_ptr_ext s) 0 HI Hce Hmk)
    as (cebytes & cekey & Hv & Hps & Hpe & Hroot & Hsp & Hrel & Hnext & Hcb).
  assert (Es1 : s1 = fst (add_record s dirp dm dl kids mk nm x ce (false, r_ptr_size s, r_ptr_ext s) 0))
    by (rewrite Hs1; reflexivity).
  rewrite <- Es1 in *.
  destruct (arr_added_found s dirp dm dl kids mk nm x ce false (r_ptr_size s) (r_ptr_ext s) 0 Hsub Hmk cekey)
    as (F1 & F2 & F3 & F4 & F5 & F6); [rewrite <- Es1; exact Hroot|]. rewrite <- Es1 in *.
  unfold step_rm_file. rewrite F1, F2. cbv zeta. cbn [m_ino mk meta_of orb].
  change (mk_meta nm rr tg false x cekey) with (meta_of (mk cekey)). rewrite Hrel, Hv, F3, F4, F5, F6.
  eexists. split; [reflexivity|]. split; [reflexivity|]. split.
  - constructor; cbn [r_ver r_root r_ptr_size r_ptr_ext r_blocks r_next]; auto.
  - cbn [r_space]. rewrite Hsp.
    destruct (arr_dl_after_cases s dirp dl kids nm x) as [D1 D2]. unfold dl_after. cbv zeta in *.
    set (d := rst_of (r_ver s) (is_root_path dirp) dl (rlens kids)) in *.
    set (k := pos nm (map rname kids)) in *.
    rewrite D2, D1.
    destruct (arr_grow_cases (add_overflows d (2 + k) x)) as [E|E]; rewrite E;
      destruct (arr_grow_cases (rm_underflows (dir_add C d (2 + k) x) (2 + k))) as [E'|E']; rewrite E';
      destruct Hcb as [-> | ->]; unfold ceiling_div, C; lia.
Qed.

Lemma arr_unsnoc_app {A} (q : list A) y : unsnoc (q ++ [y]) = Some (q, y).
Proof.
  induction q as [|x q IH]; [reflexivity|]. cbn [app unsnoc]. rewrite IH. reflexivity.
Qed.

Theorem arr_add_rm_dir s parent nm rr s1 : RInv s -> step_add_dir s parent nm rr = (s1, true) ->
  exists dm dl kids x s2,
    rsubtree parent (r_root s) = Some (RDir dm dl kids) /\
    step_rm_dir s1 (parent ++ [nm]) = (s2, true) /\
    undone s s2 parent dm (dl_after s parent dl kids nm x) kids /\
    r_space s2 = r_space s + (dl_after s parent dl kids nm x - dl) / C.
Proof.
  intros HI. unfold step_add_dir, rrefuse.
  destruct (negb (rr_name_ok rr)); [discriminate|].
  destruct (rr_too_deep parent); [discriminate|].
  destruct (rsubtree parent (r_root s)) as [par|] eqn:Hsub; [|discriminate].
  destruct (check_iso9660_directory nm 3); try discriminate.
  destruct (existsb _ _ && _); [discriminate|]. cbv zeta.
  destruct (dr_len_of nm >? 255) eqn:Hx; [discriminate|].
  destruct (rr_new (r_ver s) false (dr_len_of nm) rr [] DIR_MODE) as [[x ce]|] eqn:Hnew; [|discriminate].
  destruct par as [pm pl|dm dl kids]; [discriminate|].
  destruct (is_some (rlookup nm kids) && negb (dup_allowed (is_root_path parent) dm)); [discriminate|].
  destruct (arr_rr_new_ce _ _ _ _ _ _ _ _ Hnew) as [Hlx Hce].
  pose proof (arr_dr_len_name nm Hx) as Hz. pose proof (zlen_nonneg nm) as Hz0.
  pose proof (ptr_record_length_range (zlen nm) (conj Hz0 Hz)) as Hrange.
  pose proof (add_to_ptr_size_inv _ _ _ (ri_ptr s HI) Hrange) as Hp.
  destruct (add_to_ptr_size (r_ptr_size s) (r_ptr_ext s) (ptr_record_length (zlen nm))) as [[b ps] pe].
  destruct Hp as (Hp1 & Hp2 & Hp3 & Hp4).
  intros Hs1. exists dm, dl, kids, x.
  set (mk := fun ky => RDir (mk_meta nm rr [] false x ky) C []) in *.
  assert (Hmk : forall ky, rname (mk ky) = nm /\ m_rlen (meta_of (mk ky)) = x /\ m_ce (meta_of (mk ky)) = ky)
    by (intros ky; repeat split; reflexivity).
  destruct (arr_added_shape s parent dm dl kids mk nm x ce b ps pe C HI Hce Hmk)
    as (cebytes & cekey & Hv & Hps & Hpe & Hroot & Hsp & Hrel & Hnext & Hcb).
  assert (Es1 : s1 = fst (add_record s parent dm dl kids mk nm x ce (b, ps, pe) C))
    by (rewrite Hs1; reflexivity).
  rewrite <- Es1 in *.
  destruct (arr_added_found s parent dm dl kids mk nm x ce b ps pe C Hsub Hmk cekey)
    as (F1 & F2 & F3 & F4 & F5 & F6); [rewrite <- Es1; exact Hroot|]. rewrite <- Es1 in *.
  assert (Hle : ptr_record_length (zlen nm) <= ps) by (destruct (ri_ptr s HI) as [H0 _]; lia).
  destruct (remove_from_ptr_size_inv ps pe _ Hp1 Hrange Hle) as (b2 & pe2 & Hrm & Hq1 & Hq3 & Hq4).
  assert (Epe : pe2 = r_ptr_ext s).
  { destruct Hq1 as [_ ->]. destruct (ri_ptr s HI) as [_ ->]. f_equal. f_equal. lia. }
  assert (Eb : b2 = b).
  { destruct b, b2; try reflexivity.
    - assert (pe <> r_ptr_ext s) by (apply Hp4; reflexivity).
      assert (Hf : false = true) by (apply Hq4; congruence). discriminate Hf.
    - assert (pe2 <> pe) by (apply Hq4; reflexivity).
      assert (Hf : false = true) by (apply Hp4; congruence). discriminate Hf. }
  unfold step_rm_dir. rewrite arr_unsnoc_app, F1, F2. cbv zeta. cbn [mk meta_of m_name].
  rewrite Hps, Hpe, Hrm.
  change (mk_meta nm rr [] false x cekey) with (meta_of (mk cekey)). rewrite Hrel, Hv, F3, F4, F5, F6.
  eexists. split; [reflexivity|]. split; [reflexivity|]. split.
  - constructor; cbn [r_ver r_root r_ptr_size r_ptr_ext r_blocks r_next]; auto. split; [lia|exact Epe].
  - cbn [r_space]. rewrite Hsp, Eb.
    destruct (arr_dl_after_cases s parent dl kids nm x) as [D1 D2]. unfold dl_after. cbv zeta in *.
    set (d := rst_of (r_ver s) (is_root_path parent) dl (rlens kids)) in *.
    set (k := pos nm (map rname kids)) in *.
    rewrite D2, D1.
    destruct (arr_grow_cases (add_overflows d (2 + k) x)) as [E|E]; rewrite E;
      destruct (arr_grow_cases (rm_underflows (dir_add C d (2 + k) x) (2 + k))) as [E'|E']; rewrite E';
      destruct Hcb as [-> | ->]; destruct b; unfold ceiling_div, C; lia.
Qed.

(* ---- 5. when is it an exact inverse ------------------------------------------------------------------------- *)
(* everything pycdlib keeps about the image (r_next is only the model's object-identity counter) *)
Definition same_image (s s2 : rstate) : Prop :=
  r_ver s2 = r_ver s /\ r_root s2 = r_root s /\ r_ptr_size s2 = r_ptr_size s /\ r_ptr_ext s2 = r_ptr_ext s /\
  r_space s2 = r_space s /\ r_blocks s2 = r_blocks s.

Theorem arr_add_rm_inverse_partial s s2 dirp dm dl kids dl2 :
  rsubtree dirp (r_root s) = Some (RDir dm dl kids) -> undone s s2 dirp dm dl2 kids ->
  r_space s2 = r_space s + (dl2 - dl) / C ->
  dl2 = dl ->                                            (* the parent's data_length came back *)
  same_image s s2.
Proof.
  intros Hsub [U1 U2 [U3 U4] U5 _] Hsp ->. unfold same_image.
  rewrite U2, (arr_replace_same _ _ _ Hsub), Hsp, Z.sub_diag. cbn. repeat split; try assumption; lia.
Qed.

(* ... and in general it is not: 136 + 102 + 6 * 254 + 142 + 144 = 2048 bytes of records in the root; a ninth
   file makes the root two blocks long, and removing it leaves it at two blocks *)
Definition full_root_ops : list rop :=
  map (fun i => RAddFile [] [70; 48 + Z.of_nat i; 46; 59; 49] (repeat 110 144) 0) (seq 0 6)
  ++ [RAddFile [] [71; 48; 46; 59; 49] (repeat 110 32) 0; RAddFile [] [71; 49; 46; 59; 49] (repeat 110 34) 0].

Theorem arr_add_rm_inverse_refuted :
  exists v ops d n rr len s1 s2,
    let s := rr_run (rr_init v) ops in
    rr_step s (RAddFile d n rr len) = (s1, true) /\ rr_step s1 (RRmFile d n) = (s2, true) /\
    r_space s = 25 /\ r_space s2 = 26 /\ ~ same_image s s2.
Proof.
  exists V109, full_root_ops, [], [72; 46; 59; 49], [104], 0.
  eexists. eexists. cbv zeta. split; [vm_compute; reflexivity|]. split; [vm_compute; reflexivity|].
  split; [vm_compute; reflexivity|]. split; [vm_compute; reflexivity|].
  intros (_ & _ & _ & _ & H & _). vm_compute in H. discriminate H.
Qed.

Print Assumptions arr_add_rm_file.
Print Assumptions arr_add_rm_symlink.
Print Assumptions arr_add_rm_dir.
Print Assumptions arr_add_rm_inverse_partial.
Print Assumptions arr_add_rm_inverse_refuted.
