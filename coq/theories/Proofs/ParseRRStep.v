(* ParseRR, part 3: one turn of the record loop of _walk_directories on a record MasterRR wrote.
     prr_read_slice    seek(bl * 2048 + off); read(len) inside one described block
     prr_first_sig     the System Use field of a record with Rock Ridge entries starts with one of the 15 signatures
     prr_record_ok     DirectoryRecord.parse, the CE branch, _set_rock_ridge, dirs.append, track_child on the bytes of
                       one record: the new state is the writer's record object appended (prr_spec_rec) *)
From Coq Require Import ZArith List Bool Lia ZifyBool.
From PV.Base Require Import Prim.
From PV.Gen Require Import GenConst GenFun.
From PV.Model Require Import Codec Pack PathTable CeAlloc RREntries RRWalk RRPlace.
From PV.Model Require Master Account LongNames.
From PV.Model Require Import ParseCore AccountRR MasterRR ParseRR ParseRRSpec.
From PV.Proofs Require Import CodecProofs PackProofs MasterPack MasterImage RREntriesProofs RRWalkProofs.
From PV.Proofs Require Import RRPlaceSLProofs RRPlaceProofs RRPlaceProofs2 ParseTrack.
From PV.Proofs Require Import MasterRRWalk MasterRRRec MasterRRLayout MasterRRDir ParseRRRec ParseRRRec2.
Import ListNotations.
Local Open Scope Z_scope.
Ltac Zify.zify_post_hook ::= Z.to_euclidean_division_equations.

Lemma prr_pad_eq r : prr_pad r = pad_sysuse r.
Proof. reflexivity. Qed.

(* ---- reading a continuation area ----------------------------------------------------------------------- *)
Lemma prr_read_slice img bl off len blk : Master.ms_get_block img bl = Some blk -> zlen blk = BS ->
  0 <= off -> 0 < len -> off + len <= BS ->
  prr_read_at img bl off len = Some (firstn (Z.to_nat len) (skipn (Z.to_nat off) blk)).
Proof.
  intros Hb Hz H0 H1 H2. unfold prr_read_at, Master.ms_img_read.
  replace (Z.to_nat (ceiling_div (off + len) Master.BS)) with 1%nat
    by (unfold ceiling_div; rewrite ms_BS; unfold BS in *; lia).
  cbn [Master.ms_read_blocks]. rewrite Hb, app_nil_r. f_equal.
  replace (Z.to_nat (off + len)) with (Z.to_nat off + Z.to_nat len)%nat by lia.
  symmetry. apply firstn_skipn_comm.
Qed.

(* ---- the first bytes of a recorded area ---------------------------------------------------------------------- *)
Lemma prr_first_sig v e es bs tail : mrr_readable v e -> record_list v (e :: es) = Some bs ->
  prr_has_rr (bs ++ tail) = true.
Proof.
  intros He Hr. destruct (record_list_cons v e es bs Hr) as (b & bs' & Hb & _ & ->).
  destruct (prr_norm_ok v e He) as (Hok & _ & Hrec & _).
  assert (Hok' : exists p, b = sig_of e ++ p).
  { rewrite <- Hrec in Hb. destruct (entry_layout v _ b Hok Hb) as (p & E & _). exists ([zlen b; 1] ++ p).
    rewrite E at 1. destruct e; reflexivity. }
  destruct Hok' as (p & ->). destruct e; cbn [mrr_readable] in He; try contradiction; reflexivity.
Qed.

Lemma prr_entries_nonempty E : (ce_record E <> None \/ px_record E <> None) -> entries_list E <> [].
Proof.
  intros [H|H] Hn.
  - destruct (ce_record E) as [c|] eqn:Ec; [|congruence]. apply mrr_ce_in in Ec. rewrite Hn in Ec. destruct Ec.
  - destruct (px_record E) as [c|] eqn:Ec; [|congruence]. apply mrr_px_in in Ec. rewrite Hn in Ec. destruct Ec.
Qed.

(* the state after a record: the writer's object appended, the directory queued *)
Definition prr_after (v : rrv) (dt : list Z) (x : rspec) (blk : option nat) (blocks1 : list (Z * block))
           (st : wstate) : wstate :=
  let r := prr_pad (mrr_drec v dt x) in
  let queued := ps_is_dir r && negb (prr_is_dots r) in
  let dirid := if queued then Some (length (w_dirs st) + 1 + length (w_queue st))%nat else None in
  let child := prr_spec_rec v dt x dirid blk in
  mk_wst (w_dirs st) (w_cur st ++ [child]) (prr_rrk_add child (w_rrk st))
         (if queued then w_queue st ++ [mk_qdir (rs_ext x) (rs_len x) false (rs_nm x) (Some 0)] else w_queue st)
         (w_seen st) blocks1 (prr_ver_of v).

Lemma prr_set_ver_ok v cur : v <> V_unset -> cur = V_unset \/ cur = prr_ver_of v ->
  prr_set_ver cur (prr_ver_of v) = Some (prr_ver_of v).
Proof. intros Hv [-> | ->]; destruct v; try congruence; reflexivity. Qed.

Section Step.
  Variables (v : rrv) (dt : list Z) (x : rspec) (r : placed) (img : Master.image).
  Hypothesis Hv : v <> V_unset.
  Hypothesis Hdt : length dt = 7%nat.
  Hypothesis Hpl : place (mrr_pin v dt x) = Some r.
  Hypothesis Hmode : u32_ok (rs_mode x) = true.
  Hypothesis Hlinks : u32_ok (rs_links x) = true.
  Hypothesis Hbl : u32_ok (rs_bl x) = true.
  Hypothesis Hoff : u32_ok (rs_off x) = true.
  Hypothesis Hcel : u32_ok (pl_celen r) = true.
  Hypothesis Hfit : rs_off x + pl_celen r <= BS.
  Hypothesis Hspce : sp_record (pl_ce r) = None.
  Variables (bd bc b : list Z).
  Hypothesis Ed : record_list v (map (mrr_patch x) (entries_list (pl_dr r))) = Some bd.
  Hypothesis Ec : record_list v (map (mrr_patch x) (entries_list (pl_ce r))) = Some bc.
  Hypothesis Hz : is_some (ce_record (pl_dr r)) = true -> zlen bc = pl_celen r.
  Hypothesis Es : sysuse (mrr_drec v dt x) = bd.
  Hypothesis Eb : enc_dr (mrr_drec v dt x) = Some b.
  Hypothesis Hblk : is_some (ce_record (pl_dr r)) = true ->
    exists blk, Master.ms_get_block img (rs_bl x) = Some blk /\ zlen blk = BS /\
                firstn (Z.to_nat (pl_celen r)) (skipn (Z.to_nat (rs_off x)) blk) = bc.

  Local Notation R := (prr_pad (mrr_drec v dt x)).
  Local Notation FD := (prr_fix_E x (pl_dr r)).
  Local Notation FC := (prr_fix_E x (pl_ce r)).

  Lemma prr_step_bytes : parse_dr b = Some R /\ znth 0 b = Codec.dr_len_of (mrr_drec v dt x) /\
    znth 32 b = zlen (rs_nm x).
  Proof.
    assert (Hw : wf_drec (mrr_drec v dt x)) by (split; [exact Hdt|left; reflexivity]).
    split; [rewrite prr_pad_eq; exact (parse_dr_enc _ b Hw Eb)|].
    destruct (dr_len_value _ b Eb) as [_ H0]. split; [exact H0|].
    pose proof Eb as Eb'. unfold enc_dr in Eb'. rewrite enc_dr_raw_eq in Eb'.
    destruct (dr_ranges_ok _ _ (mrr_drec v dt x)); [|discriminate Eb'].
    apply some_inv in Eb'. subst b. unfold znth. change (Z.to_nat 32) with 32%nat. rewrite ps_nth32. reflexivity.
  Qed.

  Lemma prr_step_tail : sysuse R = bd ++ repeat 0 (Z.to_nat (zlen bd mod 2)) /\
    pad_ok (repeat 0 (Z.to_nat (zlen bd mod 2))).
  Proof.
    split; [cbn [prr_pad sysuse]; rewrite Es; reflexivity|].
    pose proof (Z.mod_pos_bound (zlen bd) 2 ltac:(lia)) as Hm.
    destruct (Z.eq_dec (zlen bd mod 2) 0) as [-> | Hn]; [left; reflexivity|].
    right. replace (zlen bd mod 2) with 1 by lia. reflexivity.
  Qed.

  Lemma prr_step_complete : cl_record (pl_dr r) = None /\ cl_record (pl_ce r) = None /\
    pl_record (pl_dr r) = None /\ pl_record (pl_ce r) = None /\ re_record (pl_dr r) = false /\
    re_record (pl_ce r) = false /\ (ce_record (pl_dr r) = None -> px_record (pl_dr r) <> None) /\
    (forall c, ce_record (pl_dr r) = Some c -> ce_len c = pl_celen r).
  Proof.
    destruct (prr_complete v dt x r Hpl) as (P1 & _ & _ & _ & _ & (A1 & A2) & (A3 & A4) & (A5 & A6) & _ & _ & _ & P12).
    repeat (split; [assumption|]). split.
    - intros Hn Hp. destruct P1 as [[A _]|[_ B]]; [congruence|]. apply mrr_px_in in B. rewrite (P12 Hn) in B. destruct B.
    - intros c Hc.
      destruct (place_ce_len _ r c Hpl (mrr_input_ok v dt x r Hmode Hcel) Hc) as (bc1 & _ & -> & Z3 & _).
      cbn [ce_len]. symmetry. exact Z3.
  Qed.

  (* the area opens with a SUSP signature *)
  Lemma prr_step_sig : prr_has_rr (sysuse R) = true.
  Proof.
    destruct prr_step_tail as [Esu _]. rewrite Esu.
    destruct (mrr_rec_readable v dt x r Hpl Hmode Hlinks Hbl Hoff Hcel) as [Rd _].
    destruct prr_step_complete as (_ & _ & _ & _ & _ & _ & Hpx & _).
    assert (Hne : entries_list (pl_dr r) <> []).
    { apply prr_entries_nonempty. destruct (ce_record (pl_dr r)) eqn:E; [left; discriminate|right; apply Hpx; reflexivity]. }
    pose proof Ed as Ed'. destruct (entries_list (pl_dr r)) as [|e es]; [congruence|]. cbn [map] in Ed', Rd.
    exact (prr_first_sig v _ _ bd _ (Forall_inv Rd) Ed').
  Qed.

  (* the RockRidge object and the block table *)
  Lemma prr_rock_ok d cur blocks blk blocks1 :
    prr_skip_for d cur R = POk (rs_first x, 0) ->
    (is_some (ce_record (pl_dr r)) = false -> blk = None /\ blocks1 = blocks) ->
    (is_some (ce_record (pl_dr r)) = true ->
       if qd_root d && ps_is_dot R then blk = None /\ blocks1 = blocks
       else exists k, prr_track_ce blocks (rs_bl x) (rs_off x) (pl_celen r) = Some (k, blocks1) /\ blk = Some k) ->
    prr_rock img d cur blocks R = POk (prr_spec_rrd v dt x blk, blocks1).
  Proof.
    intros Hskip Hno Hyes. destruct prr_step_tail as [Esu Hpad].
    destruct (mrr_rec_readable v dt x r Hpl Hmode Hlinks Hbl Hoff Hcel) as [Rd _].
    destruct prr_step_complete as (_ & _ & _ & _ & _ & _ & Hpx & Hlen).
    unfold prr_rock. rewrite Hskip, Esu.
    assert (Hne : entries_list (pl_dr r) <> []).
    { apply prr_entries_nonempty. destruct (ce_record (pl_dr r)) eqn:E; [left; discriminate|right; apply Hpx; reflexivity]. }
    rewrite <- Esu, prr_step_sig, Esu. cbn [negb]. clear Rd.
    destruct (prr_rec_parse v dt x r Hv Hpl Hmode Hlinks Hbl Hoff Hcel Hspce bd bc _ Ed Ec Hpad) as (v0 & P1 & P2 & P3).
    rewrite P1. unfold prr_spec_rrd. rewrite Hpl.
    destruct (ce_record (pl_dr r)) as [c|] eqn:Ece; cbn [prr_fix_E ce_record is_some]; rewrite Ece.
    - specialize (Hyes eq_refl). destruct (Hblk eq_refl) as (blk0 & G1 & G2 & G3).
      cbn [ce_bl ce_off ce_len]. rewrite (Hlen c eq_refl).
      assert (Hpos : 0 < pl_celen r) by (apply (AccountRRPlace.arr_celen_pos _ r Hpl (mrr_drlen_nonneg x r)); rewrite Ece; reflexivity).
      rewrite (prr_read_slice img _ _ _ blk0 G1 G2) by (unfold u32_ok in Hoff; lia).
      rewrite G3, P3. destruct (qd_root d && ps_is_dot R).
      + destruct Hyes as [-> ->]. reflexivity.
      + destruct Hyes as (k & -> & ->). reflexivity.
    - destruct (Hno eq_refl) as [-> ->]. rewrite (P2 eq_refl). reflexivity.
  Qed.

  Lemma prr_spec_rrd_eq blk : prr_spec_rrd v dt x blk =
    Some (mk_rrd FD (if is_some (ce_record (pl_dr r)) then FC else empty_entries) (prr_ver_of v) 0 blk).
  Proof. unfold prr_spec_rrd. rewrite Hpl. reflexivity. Qed.

  Lemma prr_track_append d cur child last :
    (forall a, In a cur -> ps_lt (Codec.ident (q_rec a)) (Codec.ident (q_rec child)) = true) ->
    prr_track d cur child last = POk (cur ++ [child]).
  Proof.
    intros Hall. unfold prr_track.
    assert (Hb : ps_bisect (S (length cur)) (fun a => ps_lt (Codec.ident (p_rec a)) (Codec.ident (q_rec child)))
                   (map prr_prec cur) 0 (length (map prr_prec cur)) = length (map prr_prec cur)).
    { apply ps_bisect_all; [|lia|rewrite map_length; lia].
      intros a Ha. apply in_map_iff in Ha. destruct Ha as (c & <- & Hc). exact (Hall c Hc). }
    rewrite map_length in Hb.
    rewrite Hb. replace (nth_error cur (length cur)) with (@None qrec) by (symmetry; apply nth_error_None; lia).
    cbv iota. unfold insert_at. rewrite firstn_all, skipn_all. reflexivity.
  Qed.

  Theorem prr_record_ok d st last blk blocks1 :
    prr_skip_for d (w_cur st) R = POk (rs_first x, 0) ->
    (is_some (ce_record (pl_dr r)) = false -> blk = None /\ blocks1 = w_blocks st) ->
    (is_some (ce_record (pl_dr r)) = true ->
       if qd_root d && ps_is_dot R then blk = None /\ blocks1 = w_blocks st
       else exists k, prr_track_ce (w_blocks st) (rs_bl x) (rs_off x) (pl_celen r) = Some (k, blocks1) /\ blk = Some k) ->
    (w_ver st = V_unset \/ w_ver st = prr_ver_of v) ->
    (forall a, In a (w_cur st) -> ps_lt (Codec.ident (q_rec a)) (rs_nm x) = true) ->
    prr_record img d (st, last) b = POk (prr_after v dt x blk blocks1 st, Some (ps_printable R)).
  Proof.
    intros Hskip Hno Hyes Hver Hlt. destruct prr_step_bytes as (B1 & B2 & B3).
    destruct prr_step_complete as (A1 & A2 & A3 & A4 & A5 & A6 & _).
    unfold prr_record, prr_record_gen, prr_xa_probe. rewrite B1, B2, B3, prr_step_sig. cbn [andb].
    rewrite (prr_rock_ok d (w_cur st) (w_blocks st) blk blocks1 Hskip Hno Hyes).
    rewrite prr_spec_rrd_eq.
    assert (Hrel : prr_reloc (mk_rrd FD (if is_some (ce_record (pl_dr r)) then FC else empty_entries)
                                     (prr_ver_of v) 0 blk) = false).
    { unfold prr_reloc. cbn [rd_dr rd_ce prr_fix_E cl_record pl_record re_record]. rewrite A1, A3, A5.
      destruct (is_some (ce_record (pl_dr r))); cbn [prr_fix_E empty_entries cl_record pl_record re_record];
        rewrite ?A2, ?A4, ?A6; reflexivity. }
    rewrite Hrel. cbn [rd_ver rd_skip]. rewrite (prr_set_ver_ok v _ Hv Hver).
    rewrite prr_track_append; [|exact Hlt].
    unfold prr_after, prr_spec_rec. rewrite prr_spec_rrd_eq. reflexivity.
  Qed.
End Step.

Print Assumptions prr_record_ok.
