(* Proofs about the GENERATED additive checksums and geometry / size-accounting functions of
   Gen/GenFun.v (udf_compute_csum, et_checksum, calc_cc, ceiling_div, add_to_ptr_size,
   remove_from_ptr_size).  The CRCs are in Proofs/ChecksumsProofs.v. *)
From Coq Require Import ZArith List Bool Lia ZifyBool.
Import ListNotations.
From PV.Base Require Import Prim Sweep ListX.
From PV.Gen Require Import GenConst GenFun.
From PV.Model Require Import Checksums.
From PV.Proofs Require Import ChecksumsProofs.
Local Open Scope Z_scope.
Ltac Zify.zify_post_hook ::= Z.to_euclidean_division_equations.

(* ------------------------------------------------------------------------------------- *)
(* C. UDF tag checksum  (udf._compute_csum)                                               *)
(* ------------------------------------------------------------------------------------- *)

Lemma fold_add_zsum l c : fold_left (fun csum byte => csum + byte) l c = c + zsum l.
Proof.
  revert c; induction l as [|x l IH]; intros c; cbn [fold_left zsum fold_right]; [lia|].
  rewrite IH. unfold zsum. lia.
Qed.

Lemma udf_csum_unfold data : udf_compute_csum data = (zsum data - znth 4 data) mod 256.
Proof.
  unfold udf_compute_csum. cbv zeta.
  change (fun csum byte : Z => csum + byte) with (fun csum byte => csum + byte).
  rewrite fold_add_zsum. f_equal.
Qed.

Lemma udf_csum_range data : 0 <= udf_compute_csum data < 256.
Proof. rewrite udf_csum_unfold. lia. Qed.

(* on a list with at least 5 elements, replacing byte 4 *)
Lemma set4_shape tag v :
  (4 < length tag)%nat ->
  exists a b c d e r, tag = a :: b :: c :: d :: e :: r /\
                      set_nth 4 v tag = a :: b :: c :: d :: v :: r.
Proof.
  intros H. destruct tag as [|a [|b [|c [|d [|e r]]]]]; cbn [length] in H; try lia.
  exists a, b, c, d, e, r. split; reflexivity.
Qed.

Lemma set4_sum tag v :
  (4 < length tag)%nat ->
  znth 4 (set_nth 4 v tag) = v /\ zsum (set_nth 4 v tag) = zsum tag - znth 4 tag + v.
Proof.
  intros H. destruct (set4_shape tag v H) as (a & b & c & d & e & r & E1 & E2).
  rewrite E2, E1. split; [reflexivity|].
  change (znth 4 (a :: b :: c :: d :: e :: r)) with e.
  unfold zsum. cbn [fold_right]. lia.
Qed.

(* the result does not depend on byte 4 of the input *)
Theorem udf_csum_indep : forall tag v,
  (4 < length tag)%nat -> udf_compute_csum (set_nth 4 v tag) = udf_compute_csum tag.
Proof.
  intros tag v H. rewrite !udf_csum_unfold. destruct (set4_sum tag v H) as [E1 E2].
  rewrite E1, E2. f_equal. lia.
Qed.

(* a tag whose byte 4 holds the computed value passes the verifier of UDFTag.parse
   (`_compute_csum(data[:16]) != tag_checksum` with tag_checksum = data[4]) *)
Theorem udf_csum_verifies : forall tag,
  length tag = 16%nat -> bytes tag ->
  let c := udf_compute_csum tag in
  let tag' := set_nth 4 c tag in
  0 <= c < 256 /\
  (zsum tag' - c) mod 256 = c /\
  bytes tag' /\ length tag' = 16%nat /\
  udf_compute_csum tag' = znth 4 tag'.
Proof.
  intros tag Hlen Hb c tag'.
  assert (H4 : (4 < length tag)%nat) by lia.
  pose proof (udf_csum_range tag) as Hc. fold c in Hc.
  destruct (set4_sum tag c H4) as [E1 E2]. fold tag' in E1, E2.
  assert (Hi : udf_compute_csum tag' = c) by (apply udf_csum_indep; exact H4).
  split; [exact Hc|]. split.
  - rewrite udf_csum_unfold, E1 in Hi. exact Hi.
  - split; [|split].
    + unfold tag', set_nth, bytes. apply Forall_set; [exact Hb|exact Hc].
    + destruct (set4_shape tag c H4) as (a & b & x & d & e & r & T1 & T2).
      fold tag' in T2. rewrite T2. rewrite T1 in Hlen. exact Hlen.
    + rewrite E1. exact Hi.
Qed.

(* ------------------------------------------------------------------------------------- *)
(* D. El Torito validation entry checksum  (EltoritoValidationEntry._checksum)            *)
(* ------------------------------------------------------------------------------------- *)

(* the value added for a byte at an index of parity p, exactly as in the generated code *)
Definition et_adder_p (p val : Z) : Z :=
  let short := Z.land (Z.shiftl val (8 * p)) 65535 in
  if negb (Z.land short (Z.shiftl 1 15) =? 0) then Z.lor short 4294901760 else short.

Definition et_step : Z * Z -> Z -> Z * Z :=
  fun '(i, csum) val => (i + 1, csum + et_adder_p (i mod 2) val).

Lemma et_checksum_unfold data :
  et_checksum data = Z.land (- snd (fold_left et_step data (0, 0))) 65535.
Proof. reflexivity. Qed.

(* the sign-extension branch is irrelevant modulo 2^16: the value added is congruent to the byte
   (even index) or to the byte times 256 (odd index) *)
Definition et_adder_chk (p val : Z) : bool :=
  (et_adder_p p val) mod 65536 =? (if p =? 1 then 256 * val else val).

Lemma et_adder_sweep : sweep2 et_adder_chk 2 256 = true.
Proof. vm_compute. reflexivity. Qed.

Lemma et_adder_mod p val :
  0 <= p < 2 -> 0 <= val < 256 ->
  (et_adder_p p val) mod 65536 = (if p =? 1 then 256 * val else val).
Proof.
  intros Hp Hv. pose proof (sweep2_sound _ _ _ et_adder_sweep p val ltac:(lia) ltac:(lia)) as H.
  unfold et_adder_chk in H. apply Z.eqb_eq in H. exact H.
Qed.

(* the sign-extension branch IS taken (so the theorem is not vacuous about it) *)
Lemma et_sign_extension_taken : et_adder_p 1 128 = 4294934528 /\ et_adder_p 1 128 <> 128 * 256.
Proof. vm_compute. split; [reflexivity|discriminate]. Qed.

(* bytes weighted alternately by 1 and 256, starting with weight 256 iff q *)
Fixpoint alt_sum (q : bool) (l : list Z) : Z :=
  match l with
  | [] => 0
  | x :: r => (if q then 256 * x else x) + alt_sum (negb q) r
  end.

Lemma et_fold_mod data : bytes data -> forall (i c : Z) (q : bool),
  i mod 2 = (if q then 1 else 0) ->
  snd (fold_left et_step data (i, c)) mod 65536 = (c + alt_sum q data) mod 65536.
Proof.
  induction data as [|x data IH]; intros Hd i c q Hi.
  - cbn [fold_left snd alt_sum]. f_equal. lia.
  - apply fold_left_bytes_cons in Hd. destruct Hd as [Hx Hd].
    cbn [fold_left alt_sum]. unfold et_step at 2.
    rewrite (IH Hd (i + 1) (c + et_adder_p (i mod 2) x) (negb q)).
    + pose proof (et_adder_mod (i mod 2) x ltac:(lia) Hx) as Ha.
      remember (et_adder_p (i mod 2) x) as a eqn:Ea. remember (alt_sum (negb q) data) as t eqn:Et.
      destruct q; cbn [negb]; rewrite Hi in Ha;
        [change (1 =? 1) with true in Ha|change (0 =? 1) with false in Ha];
        cbv iota in Ha; clear Ea Et IH; lia.
    + destruct q; cbn [negb]; lia.
Qed.

Lemma alt_sum_words l : alt_sum false l = zsum (words16 l).
Proof.
  assert (H : forall n (l : list Z), (length l <= n)%nat -> alt_sum false l = zsum (words16 l)).
  { intros n; induction n as [|n IH]; intros l0 Hl.
    - destruct l0; [reflexivity|cbn [length] in Hl; lia].
    - destruct l0 as [|a [|b r]]; [reflexivity|cbn; lia|].
      cbn [alt_sum negb words16]. unfold zsum. cbn [fold_right]. fold (zsum (words16 r)).
      rewrite (IH r) by (cbn [length] in Hl; lia). lia. }
  apply (H (length l)). lia.
Qed.

(* characterisation: the checksum is the two's complement negation of the 16-bit word sum *)
Theorem et_checksum_char : forall data,
  bytes data -> et_checksum data = (- zsum (words16 data)) mod 65536.
Proof.
  intros data Hd. rewrite et_checksum_unfold. change 65535 with (Z.ones 16).
  rewrite Z.land_ones by lia. change (2 ^ 16) with 65536.
  pose proof (et_fold_mod data Hd 0 0 false eq_refl) as H. rewrite alt_sum_words in H.
  remember (snd (fold_left et_step data (0, 0))) as s eqn:Es.
  remember (zsum (words16 data)) as w eqn:Ew. clear Es Ew. lia.
Qed.

Lemma et_word_sum_words data : length data = 32%nat -> et_word_sum data = zsum (words16 data).
Proof.
  intros H.
  do 33 (destruct data as [|? data]; [try discriminate H|]); [|discriminate H].
  reflexivity.
Qed.

Theorem et_checksum_zero_sum : forall data,
  bytes data -> length data = 32%nat ->
  (et_word_sum data + et_checksum data) mod 65536 = 0.
Proof.
  intros data Hd Hl. rewrite (et_checksum_char data Hd), (et_word_sum_words data Hl).
  remember (zsum (words16 data)) as w eqn:Ew. clear Ew. lia.
Qed.

Lemma set_nth_length i v l : (i < length l)%nat -> length (set_nth i v l) = length l.
Proof.
  intros H. unfold set_nth. rewrite app_length, firstn_length. cbn [length].
  rewrite skipn_length. lia.
Qed.

(* EltoritoValidationEntry.new computes the checksum over the record with a zero checksum field
   (bytes 28,29) and stores it there little-endian; the resulting entry passes the check of
   EltoritoValidationEntry.parse (`self._checksum(valstr) != 0` raises). *)
Theorem et_checksum_roundtrip : forall data,
  bytes data -> length data = 32%nat -> znth 28 data = 0 -> znth 29 data = 0 ->
  let c := et_checksum data in
  let data' := set_nth 29 (c / 256) (set_nth 28 (c mod 256) data) in
  0 <= c < 65536 /\ bytes data' /\ length data' = 32%nat /\
  et_word_sum data' mod 65536 = 0 /\ et_checksum data' = 0.
Proof.
  intros data Hd Hl H28 H29 c data'.
  pose proof (et_checksum_char data Hd) as Hc. fold c in Hc.
  assert (Hcr : 0 <= c < 65536) by (rewrite Hc; lia).
  assert (Hb' : bytes data').
  { unfold data', set_nth, bytes. apply Forall_set; [apply Forall_set; [exact Hd|lia]|lia]. }
  assert (Hl' : length data' = 32%nat).
  { unfold data'. rewrite !set_nth_length; rewrite ?set_nth_length; lia. }
  assert (Hw : zsum (words16 data') = zsum (words16 data) + c).
  { clearbody c. subst data'. clear Hb' Hl' Hd.
    do 33 (destruct data as [|? data]; [try discriminate Hl|]); [|discriminate Hl].
    vm_compute in H28, H29. subst.
    unfold set_nth. cbn [firstn skipn app words16]. unfold zsum. cbn [fold_right]. lia. }
  split; [exact Hcr|]. split; [exact Hb'|]. split; [exact Hl'|].
  rewrite (et_word_sum_words data' Hl'), (et_checksum_char data' Hb'), Hw.
  remember (zsum (words16 data)) as w eqn:Ew. clear - Hc. split; lia.
Qed.

(* ------------------------------------------------------------------------------------- *)
(* F. utils.ceiling_div                                                                   *)
(* ------------------------------------------------------------------------------------- *)

Theorem ceiling_div_spec : forall a b, 0 < b -> ceiling_div a b = (a + b - 1) / b.
Proof.
  intros a b Hb. unfold ceiling_div.
  pose proof (Z.div_mod (- a) b ltac:(lia)) as Hdm.
  pose proof (Z.mod_pos_bound (- a) b Hb) as Hr.
  apply (Z.div_unique _ _ _ (b - 1 - (- a) mod b)); [left; lia|].
  remember ((- a) / b) as q. remember ((- a) mod b) as r. nia.
Qed.

(* least multiple of b that is >= a (holds for every integer a, in particular for a > 0) *)
Theorem ceiling_div_bounds : forall a b, 0 < b ->
  ceiling_div a b * b >= a /\ (ceiling_div a b - 1) * b < a.
Proof.
  intros a b Hb. unfold ceiling_div.
  pose proof (Z.div_mod (- a) b ltac:(lia)) as Hdm.
  pose proof (Z.mod_pos_bound (- a) b Hb) as Hr.
  remember ((- a) / b) as q. remember ((- a) mod b) as r. split; nia.
Qed.

Corollary ceiling_div_nonneg a b : 0 < b -> 0 <= a -> 0 <= ceiling_div a b.
Proof. intros Hb Ha. destruct (ceiling_div_bounds a b Hb) as [H1 H2]. nia. Qed.

(* ------------------------------------------------------------------------------------- *)
(* E. IsoHybrid._calc_cc                                                                  *)
(* ------------------------------------------------------------------------------------- *)

Lemma calc_cc_unfold h s size :
  calc_cc h s size =
  (let cyl := h * s * 512 in
   let pad := if size mod cyl >? 0 then cyl - size mod cyl else 0 in
   (Z.min ((size + pad) / cyl) 1024, pad)).
Proof. reflexivity. Qed.

Theorem calc_cc_padding : forall h s size, 0 < h -> 0 < s -> 0 <= size ->
  let '(cc, pad) := calc_cc h s size in
  let cyl := h * s * 512 in
  0 <= pad < cyl /\ (size + pad) mod cyl = 0 /\ cc = Z.min ((size + pad) / cyl) 1024.
Proof.
  intros h s size Hh Hs Hsz. rewrite calc_cc_unfold. cbv zeta.
  assert (Hcyl : 0 < h * s * 512) by nia.
  remember (h * s * 512) as cyl eqn:Ecyl. clear Ecyl Hh Hs h s.
  pose proof (Z.mod_pos_bound size cyl Hcyl) as Hr.
  destruct (size mod cyl >? 0) eqn:E.
  - split; [lia|]. split; [|reflexivity].
    replace (size + (cyl - size mod cyl)) with ((size / cyl + 1) * cyl)
      by (rewrite (Z.mod_eq size cyl) by lia; ring).
    apply Z.mod_mul. lia.
  - split; [lia|]. split; [|reflexivity].
    assert (E0 : size mod cyl = 0) by lia. rewrite Z.add_0_r. exact E0.
Qed.

Theorem calc_cc_exact_when_small : forall h s size, 0 < h -> 0 < s -> 0 <= size ->
  let '(cc, pad) := calc_cc h s size in
  let cyl := h * s * 512 in
  (size + pad) / cyl <= 1024 -> cc * cyl = size + pad.
Proof.
  intros h s size Hh Hs Hsz. pose proof (calc_cc_padding h s size Hh Hs Hsz) as H.
  destruct (calc_cc h s size) as [cc pad]. cbv zeta in *. destruct H as (Hp & Hm & Hcc).
  intros Hsmall. rewrite Hcc, Z.min_l by exact Hsmall.
  assert (Hcyl : 0 < h * s * 512) by nia.
  remember (h * s * 512) as cyl eqn:Ecyl. clear Ecyl.
  rewrite Z.mul_comm. symmetry. apply Z_div_exact_full_2; [lia|exact Hm].
Qed.

(* above 1024 cylinders the cylinder count is clamped and no longer describes the padded size *)
Theorem calc_cc_clamped : forall h s size, 0 < h -> 0 < s -> 0 <= size ->
  let '(cc, pad) := calc_cc h s size in
  let cyl := h * s * 512 in
  1024 < (size + pad) / cyl -> cc = 1024 /\ cc * cyl < size + pad.
Proof.
  intros h s size Hh Hs Hsz. pose proof (calc_cc_padding h s size Hh Hs Hsz) as H.
  destruct (calc_cc h s size) as [cc pad]. cbv zeta in *. destruct H as (Hp & Hm & Hcc).
  intros Hbig. rewrite Z.min_r in Hcc by lia. split; [exact Hcc|]. subst cc.
  assert (Hcyl : 0 < h * s * 512) by nia.
  remember (h * s * 512) as cyl eqn:Ecyl. clear Ecyl.
  pose proof (Z_div_exact_full_2 (size + pad) cyl ltac:(lia) Hm) as Hex.
  remember ((size + pad) / cyl) as q. nia.
Qed.

(* `cc * cyl = size + pad` is refuted for the default geometry (64 heads, 32 sectors) by an image
   of 1 GiB + 1 byte *)
Theorem calc_cc_exact_refuted :
  exists h s size, 0 < h /\ 0 < s /\ 0 <= size /\
    let '(cc, pad) := calc_cc h s size in
    ~ (cc * (h * s * 512) = size + pad) /\ cc * (h * s * 512) < size + pad.
Proof.
  exists 64, 32, 1073741825. vm_compute. repeat split; try reflexivity; discriminate.
Qed.

(* ------------------------------------------------------------------------------------- *)
(* G. path-table size accounting  (PrimaryOrSupplementaryVD.add/remove_from_ptr_size)     *)
(* ------------------------------------------------------------------------------------- *)

(* PrimaryOrSupplementaryVD.new: path_tbl_size = 10, extents = ceiling_div(10, 4096) * 2 *)
Lemma ptr_init : ceiling_div 10 4096 * 2 = 2 /\ PtrInv 10 2 /\ PtrInvW 10 2.
Proof.
  unfold PtrInv, PtrInvW. vm_compute ceiling_div.
  repeat split; try lia. exists 1; reflexivity.
Qed.

Lemma PtrInv_weaken size ext : PtrInv size ext -> PtrInvW size ext.
Proof.
  unfold PtrInv, PtrInvW. intros [H1 H2]. split; [exact H1|]. split; [|lia].
  exists (ceiling_div size 4096). exact H2.
Qed.

(* every real path table record length is in the range needed below *)
Lemma ptr_record_length_range len_di :
  0 <= len_di <= 255 -> 0 < ptr_record_length len_di <= 4096.
Proof. intros H. unfold ptr_record_length. lia. Qed.

Theorem add_to_ptr_size_inv : forall size ext p,
  PtrInv size ext -> 0 < p <= 4096 ->
  let '(b, size', ext') := add_to_ptr_size size ext p in
  PtrInv size' ext' /\ size' = size + p /\
  (ext' = ext \/ ext' = ext + 2) /\ (b = true <-> ext' <> ext).
Proof.
  intros size ext p [H0 He] Hp. unfold add_to_ptr_size, PtrInv, ceiling_div in *. cbv zeta.
  destruct (- (- (size + p) / 4096) * 2 >? ext) eqn:E.
  - repeat split; try lia; intros; lia.
  - repeat split; try lia; intros; try discriminate; lia.
Qed.

Theorem add_to_ptr_size_inv_weak : forall size ext p,
  PtrInvW size ext -> 0 <= p <= 4096 ->
  let '(b, size', ext') := add_to_ptr_size size ext p in
  PtrInvW size' ext' /\ size' = size + p /\ (b = true <-> ext' <> ext).
Proof.
  intros size ext p (H0 & [k Hk] & He) Hp.
  unfold add_to_ptr_size, PtrInvW, ceiling_div in *. cbv zeta.
  destruct (- (- (size + p) / 4096) * 2 >? ext) eqn:E.
  - repeat split; solve [lia|intros; lia|exists (k + 1); lia].
  - repeat split; solve [lia|intros; lia|intros; discriminate|exists k; lia].
Qed.

(* a single add grows the reservation by at most 2 extents: for a record larger than 4096 bytes
   the invariant (even the weak one) is lost *)
Theorem add_to_ptr_size_inv_refuted :
  exists size ext p, PtrInv size ext /\ 4096 < p /\
    let '(b, size', ext') := add_to_ptr_size size ext p in
    ~ PtrInvW size' ext' /\ ~ PtrInv size' ext'.
Proof.
  exists 10, 2, 8192. split; [apply ptr_init|]. split; [lia|].
  vm_compute add_to_ptr_size. unfold PtrInv, PtrInvW. vm_compute ceiling_div.
  split; intros H; lia.
Qed.

Theorem remove_from_ptr_size_inv : forall size ext p,
  PtrInv size ext -> 0 < p <= 4096 -> p <= size ->
  exists b ext',
    remove_from_ptr_size size ext p = Some (b, size - p, ext') /\
    PtrInv (size - p) ext' /\ (ext' = ext \/ ext' = ext - 2) /\ (b = true <-> ext' <> ext).
Proof.
  intros size ext p [H0 He] Hp Hps. unfold remove_from_ptr_size, PtrInv, ceiling_div in *.
  cbv zeta.
  destruct (- (- (size - p) / 4096) * 2 >? ext) eqn:E1; [lia|].
  destruct (- (- (size - p) / 4096) * 2 <? ext) eqn:E2.
  - exists true, (ext - 2). repeat split; try lia; intros; lia.
  - exists false, ext. repeat split; try lia; intros; try discriminate; lia.
Qed.

(* the "should never happen" PyCdlibInvalidInput is unreachable under the (weak) invariant, for
   any non-negative amount; and the weak invariant is preserved for any amount up to the size *)
Theorem remove_from_ptr_size_never_none : forall size ext p,
  PtrInvW size ext -> 0 <= p -> remove_from_ptr_size size ext p <> None.
Proof.
  intros size ext p (H0 & [k Hk] & He) Hp. unfold remove_from_ptr_size, PtrInvW, ceiling_div in *.
  cbv zeta.
  destruct (- (- (size - p) / 4096) * 2 >? ext) eqn:E1; [lia|].
  destruct (- (- (size - p) / 4096) * 2 <? ext); discriminate.
Qed.

Theorem remove_from_ptr_size_inv_weak : forall size ext p,
  PtrInvW size ext -> 0 <= p <= size ->
  exists b ext',
    remove_from_ptr_size size ext p = Some (b, size - p, ext') /\
    PtrInvW (size - p) ext' /\ (b = true <-> ext' <> ext).
Proof.
  intros size ext p (H0 & [k Hk] & He) Hp. unfold remove_from_ptr_size, PtrInvW, ceiling_div in *.
  cbv zeta.
  destruct (- (- (size - p) / 4096) * 2 >? ext) eqn:E1; [lia|].
  destruct (- (- (size - p) / 4096) * 2 <? ext) eqn:E2.
  - exists true, (ext - 2). repeat split; solve [lia|intros; lia|exists (k - 1); lia].
  - exists false, ext.
    repeat split; solve [lia|intros; lia|intros; discriminate|exists k; lia].
Qed.

(* removing more than 4096 bytes at once returns Some but loses the exact relation (too many
   extents stay reserved); a negative amount reaches the exception *)
Theorem remove_from_ptr_size_exact_refuted :
  (exists size ext p, PtrInv size ext /\ 4096 < p <= size /\
     exists b ext', remove_from_ptr_size size ext p = Some (b, size - p, ext') /\
                    ~ PtrInv (size - p) ext') /\
  (exists size ext p, PtrInv size ext /\ p < 0 /\ remove_from_ptr_size size ext p = None).
Proof.
  split.
  - exists 10000, 6, 9000. split; [unfold PtrInv; vm_compute ceiling_div; lia|]. split; [lia|].
    exists true, 4. split; [vm_compute; reflexivity|].
    unfold PtrInv. vm_compute ceiling_div. lia.
  - exists 10, 2, (-5000). split; [apply ptr_init|]. split; [lia|]. vm_compute. reflexivity.
Qed.

(* the accounting never reaches the exception and stays exact along any sequence of adds and
   removes of amounts in (0,4096] (a remove never taking more than is there), in particular from
   the state set up by PrimaryOrSupplementaryVD.new *)
Theorem ptr_run_inv : forall ops size ext,
  PtrInv size ext -> ptr_ops_ok ops size ->
  exists size' ext', ptr_run ops size ext = Some (size', ext') /\ PtrInv size' ext'.
Proof.
  induction ops as [|[p|p] ops IH]; intros size ext Hinv Hok.
  - exists size, ext. split; [reflexivity|exact Hinv].
  - cbn [ptr_ops_ok] in Hok. destruct Hok as [Hp Hok]. cbn [ptr_run].
    pose proof (add_to_ptr_size_inv size ext p Hinv Hp) as H.
    destruct (add_to_ptr_size size ext p) as [[b s'] e']. destruct H as (Hi & Es & _). subst s'.
    apply IH; assumption.
  - cbn [ptr_ops_ok] in Hok. destruct Hok as (Hp & Hps & Hok). cbn [ptr_run].
    destruct (remove_from_ptr_size_inv size ext p Hinv Hp Hps) as (b & e' & Er & Hi & _).
    rewrite Er. apply IH; assumption.
Qed.

Corollary ptr_run_from_new : forall ops,
  ptr_ops_ok ops 10 -> exists size' ext', ptr_run ops 10 2 = Some (size', ext') /\ PtrInv size' ext'.
Proof. intros ops H. apply ptr_run_inv; [apply ptr_init|exact H]. Qed.

Print Assumptions udf_csum_verifies.
Print Assumptions udf_csum_indep.
Print Assumptions et_checksum_zero_sum.
Print Assumptions et_checksum_roundtrip.
Print Assumptions calc_cc_padding.
Print Assumptions calc_cc_exact_when_small.
Print Assumptions calc_cc_clamped.
Print Assumptions calc_cc_exact_refuted.
Print Assumptions ceiling_div_spec.
Print Assumptions ceiling_div_bounds.
Print Assumptions add_to_ptr_size_inv.
Print Assumptions add_to_ptr_size_inv_refuted.
Print Assumptions remove_from_ptr_size_inv.
Print Assumptions remove_from_ptr_size_never_none.
Print Assumptions remove_from_ptr_size_inv_weak.
Print Assumptions remove_from_ptr_size_exact_refuted.
Print Assumptions ptr_run_inv.
