(* ParseRR, part 2: ONE record, both areas composed (deliverable (i)).
     prr_rec_parse    RockRidge.parse(record area + pad, first, 0, continuation=False) on a fresh object gives the placed
                      dr_entries (fixed: link count, CE pointer, parsed SL components) and SOME version; then
                      RockRidge.parse(continuation area, False, 0, continuation=True) adds exactly the placed ce_entries
                      and the version is 1.12 for a 1.12 image and 1.09 otherwise (1.10 cannot be told from 1.09);
                      without a CE entry the first parse already gives that version
     prr_rec_view     name (RRIP reading), PX mode and links, symlink target, CE triple of the parsed object are the ones
                      that were given *)
From Coq Require Import ZArith List Bool Lia ZifyBool.
From PV.Base Require Import Prim.
From PV.Model Require Import Codec RREntries RRWalk RRPlace.
From PV.Model Require LongNames Master Account.
From PV.Model Require Import AccountRR MasterRR ParseRR ParseRRSpec.
From PV.Proofs Require Import CodecProofs RREntriesProofs RRSLProofs RRWalkProofs RRPlaceSLProofs RRPlaceProofs RRPlaceProofs2.
From PV.Proofs Require Import MasterRRWalk MasterRRRec ParseRRRec.
Import ListNotations.
Local Open Scope Z_scope.

Lemma prr_px_aux v : v <> V_unset -> px_aux v = (match v with V112 => 44 | _ => 36 end).
Proof. destruct v; [congruence|reflexivity..]. Qed.

Lemma prr_er_id_lo v : v <> V112 -> er_id (er_of v) <> EXT_ID_112.
Proof. destruct v; try congruence; intros _; vm_compute; discriminate. Qed.

Lemma prr_rrv_dec (a b : rrv) : {a = b} + {a <> b}.
Proof. decide equality. Qed.

Section Rec.
  Variables (v : rrv) (dt : list Z) (x : rspec) (r : placed).
  Hypothesis Hv : v <> V_unset.
  Hypothesis Hpl : place (mrr_pin v dt x) = Some r.
  Hypothesis Hmode : u32_ok (rs_mode x) = true.
  Hypothesis Hlinks : u32_ok (rs_links x) = true.
  Hypothesis Hbl : u32_ok (rs_bl x) = true.
  Hypothesis Hoff : u32_ok (rs_off x) = true.
  Hypothesis Hcel : u32_ok (pl_celen r) = true.
  Hypothesis Hspce : sp_record (pl_ce r) = None.

  Local Notation i := (mrr_pin v dt x).
  Local Notation D := (pl_dr r).
  Local Notation C := (pl_ce r).
  Local Notation FD := (prr_fix_E x (pl_dr r)).
  Local Notation FC := (prr_fix_E x (pl_ce r)).

  Lemma prr_complete :
    one_of (px_record D) (px_record C) (px_of i) /\
    one_of (tf_record D) (tf_record C) (tf_of i) /\
    placed_as (rs_first x) (sp_record D) (sp_record C) 0 /\
    placed_as (rs_first x) (er_record D) (er_record C) (er_of v) /\
    placed_as (is_v109 v) (rr_record D) (rr_record C) (rr_flags_of i) /\
    placed_as false (cl_record D) (cl_record C) 0 /\ placed_as false (pl_record D) (pl_record C) 0 /\
    (re_record D = false /\ re_record C = false) /\ others_empty D /\ others_empty C /\ ce_record C = None /\
    (ce_record D = None -> entries_list C = []).
  Proof.
    destruct (place_complete i r Hpl (mrr_drlen_nonneg x r))
      as (_ & A1 & A2 & A3 & A4 & A5 & A6 & A7 & (A8 & A8') & A9 & A10 & A11 & A12 & _).
    cbn [p_first p_skip p_v p_child p_parent p_reloc mrr_pin] in A3, A4, A5, A6, A7, A8.
    repeat (split; [assumption|]). split; [|repeat (split; [assumption|]); assumption].
    destruct (re_record D), (re_record C); try discriminate; split; reflexivity.
  Qed.

  Lemma prr_compat_dc : compat FD FC.
  Proof.
    destruct prr_complete as (P1 & P2 & P3 & P4 & P5 & P6 & P7 & (P8 & P8') & P9 & P10 & P11 & _).
    destruct P9 as (_ & _ & S1 & S2 & _). destruct P10 as (_ & _ & S3 & S4 & _).
    unfold compat. cbn [prr_fix_E sp_record rr_record px_record tf_record cl_record pl_record re_record er_record
                         ce_record st_record sf_record slot_filled].
    change (zlist_eqb sig_SP sig_SP) with true. cbn [zlist_eqb].
    repeat split; intros H.
    - destruct (rs_first x); [destruct P3 as [[A B]|[A B]]|destruct P3 as [A B]]; rewrite ?A, ?B in *; try reflexivity; discriminate.
    - unfold slot_filled. cbn. destruct (is_v109 v); [destruct P5 as [[A B]|[A B]]|destruct P5 as [A B]]; rewrite ?A, ?B in *; try reflexivity; discriminate.
    - unfold slot_filled. cbn. destruct P1 as [[A B]|[A B]]; rewrite ?A, ?B in *; try reflexivity; discriminate.
    - unfold slot_filled. cbn. destruct P2 as [[A B]|[A B]]; rewrite ?A, ?B in *; try reflexivity; discriminate.
    - unfold slot_filled. cbn. destruct P6 as [A B]. rewrite B in H. discriminate.
    - unfold slot_filled. cbn. destruct P7 as [A B]. rewrite B in H. discriminate.
    - rewrite P8' in H. discriminate.
    - unfold slot_filled. cbn. destruct (rs_first x); [destruct P4 as [[A B]|[A B]]|destruct P4 as [A B]]; rewrite ?A, ?B in *; try reflexivity; discriminate.
    - rewrite P11 in H. discriminate.
    - rewrite S4 in H. discriminate.
    - rewrite S3 in H. discriminate.
  Qed.

  Local Notation dr := (map (mrr_patch x) (entries_list (pl_dr r))).
  Local Notation ce := (map (mrr_patch x) (entries_list (pl_ce r))).

  Lemma prr_infer_cont_112 vi hr hc : infer_version2 true V112 vi hr hc = V112.
  Proof. unfold infer_version2. destruct (_ || _); reflexivity. Qed.

  Theorem prr_rec_parse bd bc tail : record_list v dr = Some bd -> record_list v ce = Some bc -> pad_ok tail ->
    exists v0,
      rr_parse (bd ++ tail) (rs_first x) 0 false (empty_entries, empty_entries, V_unset)
      = Some (FD, empty_entries, v0) /\
      (ce_record D = None -> v0 = prr_ver_of v) /\
      rr_parse bc false 0 true (FD, empty_entries, v0) = Some (FD, FC, prr_ver_of v).
  Proof.
    intros Ed Ec Ht.
    destruct (mrr_rec_readable v dt x r Hpl Hmode Hlinks Hbl Hoff Hcel) as [Rd Rc].
    destruct prr_complete as (P1 & P2 & P3 & P4 & P5 & P6 & P7 & P8 & P9 & P10 & P11 & P12).
    assert (HspD : forall k, sp_record D = Some k -> rs_first x = true).
    { intros k Hk. destruct (rs_first x); [reflexivity|]. destruct P3 as [A _]. congruence. }
    assert (HerD : forall e, er_record D = Some e -> e = er_of v).
    { intros e He. destruct (rs_first x); [destruct P4 as [[A _]|[A _]]|destruct P4 as [A _]]; congruence. }
    assert (HerC : forall e, er_record C = Some e -> e = er_of v).
    { intros e He. destruct (rs_first x); [destruct P4 as [[_ A]|[_ A]]|destruct P4 as [_ A]]; congruence. }
    pose proof (prr_parse_area v x D empty_entries (rs_first x) tail bd Rd HspD (proj1 (proj2 P9))
                  (compat_empty _) Ht Ed) as PD.
    assert (PC : parse_su false 0 FD empty_entries bc =
                 Some (FC, fold_left vi_step (annot v (entries_list FC) (zlen (@nil Z))) vi0)).
    { rewrite <- (app_nil_r bc) at 1.
      apply (prr_parse_area v x C FD false [] bc Rc); [intros k Hk; congruence|exact (proj1 (proj2 P10))|
        exact prr_compat_dc|left; reflexivity|exact Ec]. }
    destruct (prr_area_vi v x D (zlen tail) Rd HerD) as (D1 & D2 & D3 & D4).
    destruct (prr_area_vi v x C (zlen (@nil Z)) Rc HerC) as (C1 & C2 & C3 & C4).
    cbv zeta in D1, D2, D3, D4, C1, C2, C3, C4.
    eexists. split; [unfold rr_parse; rewrite PD; reflexivity|].
    pose proof (prr_px_aux v Hv) as Hpx.
    assert (HpxC : ce_record D = None -> px_record C = None).
    { intros Hn. destruct (px_record C) as [p|] eqn:E; [|reflexivity]. apply mrr_px_in in E. rewrite (P12 Hn) in E. destruct E. }
    destruct (prr_rrv_dec v V112) as [E112 | Hlo].
    - (* 1.12 *)
      assert (H44 : px_aux v = 44) by (rewrite E112; reflexivity). rewrite H44 in D1, C1.
      replace (prr_ver_of v) with V112 by (rewrite E112; reflexivity).
      split.
      + intros Hn. apply prr_infer_hi. rewrite D1. destruct P1 as [[A _]|[A B]]; [rewrite A; reflexivity|].
        rewrite (HpxC Hn) in B. discriminate.
      + unfold rr_parse. rewrite PC. do 2 f_equal.
        destruct P1 as [[A B]|[A B]].
        * rewrite (prr_infer_hi false V_unset); [apply prr_infer_cont_112|]. rewrite D1, A. reflexivity.
        * apply prr_infer_hi. rewrite C1, B. reflexivity.
    - (* 1.09 / 1.10 *)
      assert (N44 : forall o : option px_rec, (if is_some o then Some (px_aux v) else None) <> Some 44).
      { intros o. destruct o; cbn [is_some]; [|discriminate]. rewrite Hpx. destruct v; try congruence; discriminate. }
      assert (Nid : forall a, a = None \/ a = Some (er_id (er_of v)) -> a <> Some EXT_ID_112).
      { intros a [-> | ->]; [discriminate|]. intros E. injection E as E. exact (prr_er_id_lo v Hlo E). }
      (* the RR entry: on exactly one side for 1.09, nowhere for 1.10 *)
      assert (HpxC' : ce_record D = None -> rr_record C = None).
      { intros Hn. destruct (rr_record C) as [k|] eqn:E; [|reflexivity].
        assert (Hin : In (E_RR k) (entries_list C)) by (unfold entries_list; rewrite E, !in_app_iff; right; left; left; reflexivity).
        rewrite (P12 Hn) in Hin. destruct Hin. }
      cbn [prr_fix_E rr_record empty_entries is_some]. rewrite !orb_false_r.
      set (vd := infer_version2 false V_unset (fold_left vi_step (annot v (entries_list FD) (zlen tail)) vi0)
                   (is_some (rr_record D)) false).
      assert (E0 : vd = if is_some (rr_record D) then V109 else V110).
      { unfold vd. rewrite prr_infer_lo; [reflexivity|rewrite D1; apply N44|exact D3|exact D2|exact (Nid _ D4)]. }
      split.
      + intros Hn. rewrite E0. unfold prr_ver_of. specialize (HpxC' Hn).
        destruct (is_v109 v) eqn:E9.
        * destruct P5 as [[A _]|[_ B]]; [rewrite A; destruct v; try discriminate E9; reflexivity|congruence].
        * destruct P5 as [A _]. rewrite A. destruct v; try congruence; try discriminate E9; reflexivity.
      + unfold rr_parse. rewrite PC. do 2 f_equal. cbn [prr_fix_E rr_record].
        rewrite prr_infer_lo; [|rewrite C1; apply N44|exact C3|exact C2|exact (Nid _ C4)].
        rewrite E0. unfold prr_ver_of.
        destruct (is_v109 v) eqn:E9.
        * destruct P5 as [[A B]|[A B]]; rewrite A, B; destruct v; try discriminate E9; reflexivity.
        * destruct P5 as [A B]. rewrite A, B. destruct v; try congruence; try discriminate E9; reflexivity.
  Qed.
End Rec.

Print Assumptions prr_rec_parse.
