(* C10 / C02 -- Model/UdfParse.v: the shape of the writer's graph ugraph_of (= what open builds, by
   udf_parse_layout): per directory the parent FID first and then one FID per child in insertion order,
   each with a File Entry object of its own (numbered 1, 2, 3, ... in walk order) whose parent is the
   directory's object; Inode indices name the tree's inodes one to one; the object of a directory FID
   is the object whose fi_descs are listed at the position the layout popped that directory. *)
From Coq Require Import ZArith List Bool Lia ZifyBool Arith.
From PV.Base Require Import Prim.
From PV.Gen Require Import GenFun.
From PV.Model Require Import Codec Fid UdfDir UdfLayout UdfParse.
From PV.Proofs Require Import UdfLayoutBfsProofs UdfLayoutViewProofs UdfParseTableProofs UdfParseWalkProofs.
Import ListNotations.
Local Open Scope Z_scope.

Definition up_ids (wt : list winode) : list nat := map wi_id wt.
Definition up_fid_objs (fs : list pfid) : list nat :=
  flat_map (fun f => match pf_entry f with Some e => [pe_obj e] | None => [] end) fs.
Definition up_dir_entries (fs : list pfid) : list pentry :=
  flat_map (fun f => match pf_entry f with Some e => if pf_isdir f then [e] else [] | None => [] end) fs.

(* the FID made for child c of directory object dobj; ids = the tree inode behind every Inode index *)
Definition up_kid_ok (dobj : nat) (ids : list nat) (c : utree) (f : pfid) : Prop :=
  pf_name f = ut_name c /\ pf_isdir f = ut_isdir c /\ pf_isparent f = false /\
  exists e, pf_entry f = Some e /\ pe_parent e = Some dobj /\ pe_isdir e = ut_isdir c /\
    match c with
    | UFile _ l i => pe_info e = l /\ exists ix, pe_inode e = Some ix /\ nth_error ids ix = Some i
    | UDir _ sub => pe_info e = ul_dir_info sub /\ pe_inode e = None
    end.

Definition up_dir_ok (lo : layout) (ids : list nat) (r : dirrec) (d : pdir) : Prop :=
  pd_block d = dr_fe r - lo_ps lo /\
  exists pf kids, pd_fids d = pf :: kids /\ pf_isparent pf = true /\ pf_isdir pf = true /\ pf_name pf = [] /\
    pf_entry pf = None /\ Forall2 (up_kid_ok (pd_obj d) ids) (dr_node r) kids.

(* ---- list helpers ---- *)
Lemma up_find_from_some {A} (p : A -> bool) l : forall k n, up_find_from p l k = Some n ->
  (k <= n)%nat /\ exists x, nth_error l (n - k) = Some x /\ p x = true.
Proof.
  induction l as [|x r IH]; intros k n H; [discriminate|]. cbn [up_find_from] in H. destruct (p x) eqn:E.
  - inversion H; subst. split; [lia|]. exists x. rewrite Nat.sub_diag. split; [reflexivity|exact E].
  - destruct (IH _ _ H) as [Hle (y & Hy & Hp)]. split; [lia|]. exists y. split; [|exact Hp].
    replace (n - k)%nat with (S (n - S k)) by lia. exact Hy.
Qed.

Lemma up_find_from_none {A} (p : A -> bool) l : forall k, up_find_from p l k = None -> forall x, In x l -> p x = false.
Proof.
  induction l as [|y r IH]; intros k H x Hx; [destruct Hx|]. cbn [up_find_from] in H. destruct (p y) eqn:E; [discriminate|].
  destruct Hx as [<-|Hx]; [exact E|exact (IH _ H x Hx)].
Qed.

Lemma up_update_map_same {A B} (f : A -> B) (g : A -> A) : (forall x, f (g x) = f x) ->
  forall l ix, map f (up_update g ix l) = map f l.
Proof.
  intros H. induction l as [|x r IH]; intros ix; [destruct ix; reflexivity|].
  destruct ix as [|j]; cbn [up_update map]; [rewrite H; reflexivity|rewrite IH; reflexivity].
Qed.

Lemma up_Forall2_impl {A B} (P Q : A -> B -> Prop) : (forall a b, P a b -> Q a b) ->
  forall l l', Forall2 P l l' -> Forall2 Q l l'.
Proof. intros H l l'. induction 1; constructor; auto. Qed.

Lemma up_kid_ok_ext dobj ids ext c f : up_kid_ok dobj ids c f -> up_kid_ok dobj (ids ++ ext) c f.
Proof.
  intros (H1 & H2 & H3 & e & H4 & H5 & H6 & H7). repeat split; try assumption. exists e. repeat split; try assumption.
  destruct c as [n l i|n sub]; [|exact H7]. destruct H7 as (H7 & ix & H8 & H9). split; [exact H7|]. exists ix. split; [exact H8|].
  rewrite nth_error_app1; [exact H9|]. apply nth_error_Some. rewrite H9. discriminate.
Qed.

Lemma up_dir_ok_ext lo ids ext r d : up_dir_ok lo ids r d -> up_dir_ok lo (ids ++ ext) r d.
Proof.
  intros (H1 & pf & kids & H2 & H3 & H4 & H5 & H6 & H7). split; [exact H1|]. exists pf, kids. repeat split; try assumption.
  eapply up_Forall2_impl; [|exact H7]. intros c f. apply up_kid_ok_ext.
Qed.

Lemma up_nodup_snoc {A} (l : list A) x : NoDup l -> ~ In x l -> NoDup (l ++ [x]).
Proof.
  induction 1 as [|y r Hy Hr IH]; intros Hx; cbn [app]; [constructor; [intros []|constructor]|].
  constructor.
  - intros Hin. apply in_app_or in Hin. destruct Hin as [Hin|[E|[]]]; [contradiction|]. apply Hx. left. symmetry. exact E.
  - apply IH. intros Hin. apply Hx. right. exact Hin.
Qed.

Lemma up_nodup_app {A} (a b : list A) : NoDup a -> NoDup b -> (forall x, In x a -> ~ In x b) -> NoDup (a ++ b).
Proof.
  induction 1 as [|y r Hy Hr IH]; intros Hb Hd; cbn [app]; [exact Hb|]. constructor.
  - intros Hin. apply in_app_or in Hin. destruct Hin as [Hin|Hin]; [contradiction|]. exact (Hd y (or_introl eq_refl) Hin).
  - apply IH; [exact Hb|]. intros x Hx. apply Hd. right. exact Hx.
Qed.

(* ---- one link ---- *)
Lemma up_ug_link_spec lo wt obj i l : NoDup (up_ids wt) ->
  (exists ext, up_ids (fst (ug_link lo wt obj i l)) = up_ids wt ++ ext) /\
  NoDup (up_ids (fst (ug_link lo wt obj i l))) /\
  nth_error (up_ids (fst (ug_link lo wt obj i l))) (snd (ug_link lo wt obj i l)) = Some i.
Proof.
  intros Hnd. unfold ug_link. destruct (up_find_from (fun w => Nat.eqb (wi_id w) i) wt 0) as [ix|] eqn:E; cbn [fst snd].
  - unfold up_ids. rewrite (up_update_map_same wi_id) by (intros w; reflexivity).
    split; [exists []; rewrite app_nil_r; reflexivity|]. split; [exact Hnd|].
    destruct (up_find_from_some _ _ _ _ E) as [_ (w & Hw & Hp)]. rewrite Nat.sub_0_r in Hw.
    rewrite nth_error_map, Hw. cbn [option_map]. apply Nat.eqb_eq in Hp. rewrite Hp. reflexivity.
  - unfold up_ids. rewrite map_app. cbn [map wi_id]. split; [exists [i]; reflexivity|]. split.
    + apply up_nodup_snoc; [exact Hnd|]. intros Hin. apply in_map_iff in Hin. destruct Hin as (w & Hw & Hin).
      pose proof (up_find_from_none _ _ _ E w Hin) as Hp. cbv beta in Hp. rewrite Hw, Nat.eqb_refl in Hp. discriminate.
    + rewrite nth_error_app2 by (rewrite map_length; lia). rewrite map_length, Nat.sub_diag. reflexivity.
Qed.

(* ---- the children of one directory ---- *)
Lemma up_fid_objs_cons f fs : up_fid_objs (f :: fs) = match pf_entry f with Some e => [pe_obj e] | None => [] end ++ up_fid_objs fs.
Proof. reflexivity. Qed.
Lemma up_dir_entries_cons f fs : up_dir_entries (f :: fs) =
  match pf_entry f with Some e => if pf_isdir f then [e] else [] | None => [] end ++ up_dir_entries fs.
Proof. reflexivity. Qed.

Lemma up_ug_kids_spec lo dobj : forall cs tags icbs j (next : nat) wt fs q (nx : nat) wt',
  length tags = length cs -> length icbs = length cs -> NoDup (up_ids wt) ->
  ug_kids lo dobj cs tags icbs j next wt = (fs, q, nx, wt') ->
  nx = (next + length cs)%nat /\
  (exists ext, up_ids wt' = up_ids wt ++ ext) /\ NoDup (up_ids wt') /\
  Forall2 (up_kid_ok dobj (up_ids wt')) cs fs /\
  up_fid_objs fs = seq next (length cs) /\ q = up_dir_entries fs.
Proof.
  induction cs as [|c r IH]; intros tags icbs j next wt fs q nx wt' Ht Hi Hnd H.
  - cbn [ug_kids] in H. inversion H; subst. cbn [length]. rewrite Nat.add_0_r. split; [reflexivity|].
    split; [exists []; rewrite app_nil_r; reflexivity|]. split; [exact Hnd|]. split; [constructor|]. split; reflexivity.
  - destruct tags as [|tg tags]; [discriminate|]. destruct icbs as [|icb icbs]; [discriminate|].
    cbn [length] in Ht, Hi. apply Nat.succ_inj in Ht. apply Nat.succ_inj in Hi. destruct c as [n l i|n sub]; cbn [ug_kids] in H.
    + pose proof (up_ug_link_spec lo wt next i l Hnd) as HL. destruct (ug_link lo wt next i l) as [wt1 ix] eqn:EL.
      cbn [fst snd] in HL. destruct HL as ((ext1 & E1) & Hnd1 & Hix).
      destruct (ug_kids lo dobj r tags icbs j (S next) wt1) as [[[fs1 q1] nx1] wt1'] eqn:EK. inversion H; subst fs q nx wt'.
      destruct (IH _ _ _ _ _ _ _ _ _ Ht Hi Hnd1 EK) as (Hnx & (ext2 & E2) & Hnd2 & HF & Hobjs & Hq).
      split; [cbn [length]; lia|]. split; [exists (ext1 ++ ext2); rewrite E2, E1, app_assoc; reflexivity|]. split; [exact Hnd2|].
      split; [|split].
      * constructor; [|exact HF]. repeat split. eexists. repeat split. exists ix. split; [reflexivity|].
        rewrite E2, nth_error_app1; [exact Hix|]. apply nth_error_Some. rewrite Hix. discriminate.
      * rewrite up_fid_objs_cons. cbn [pf_entry pe_obj length seq app]. rewrite Hobjs. reflexivity.
      * rewrite up_dir_entries_cons. cbn [pf_entry pf_isdir app]. exact Hq.
    + destruct (ug_kids lo dobj r tags icbs (S j) (S next) wt) as [[[fs1 q1] nx1] wt1'] eqn:EK. inversion H; subst fs q nx wt'.
      destruct (IH _ _ _ _ _ _ _ _ _ Ht Hi Hnd EK) as (Hnx & Hext & Hnd2 & HF & Hobjs & Hq).
      split; [cbn [length]; lia|]. split; [exact Hext|]. split; [exact Hnd2|]. split; [|split].
      * constructor; [|exact HF]. repeat split. eexists. repeat split.
      * rewrite up_fid_objs_cons. cbn [pf_entry pe_obj length seq app]. rewrite Hobjs. reflexivity.
      * rewrite up_dir_entries_cons. cbn [pf_entry pf_isdir app]. rewrite Hq. reflexivity.
Qed.

Lemma up_dir_entries_count dobj ids cs fs : Forall2 (up_kid_ok dobj ids) cs fs ->
  length (up_dir_entries fs) = length (ul_dir_children cs).
Proof.
  induction 1 as [|c f cs fs (H1 & H2 & H3 & e & H4 & H5) HF IH]; [reflexivity|]. rewrite up_dir_entries_cons, H4, H2, app_length, IH.
  destruct c; reflexivity.
Qed.

Lemma up_dir_entries_objs fs : NoDup (up_fid_objs fs) ->
  NoDup (map pe_obj (up_dir_entries fs)) /\ incl (map pe_obj (up_dir_entries fs)) (up_fid_objs fs).
Proof.
  induction fs as [|f fs IH]; intros Hnd; [split; [constructor|intros x []]|].
  rewrite up_fid_objs_cons in Hnd |- *. rewrite up_dir_entries_cons.
  destruct (pf_entry f) as [e|]; cbn [app] in *; [|exact (IH Hnd)].
  inversion Hnd as [|? ? Hx Hr]; subst. destruct (IH Hr) as [I1 I2].
  destruct (pf_isdir f); cbn [app map].
  - split; [constructor; [intros Hin; exact (Hx (I2 _ Hin))|exact I1]|]. intros x [<-|Hin]; [left; reflexivity|right; exact (I2 _ Hin)].
  - split; [exact I1|]. intros x Hin. right. exact (I2 _ Hin).
Qed.

Lemma up_kid_icbs_length lo : forall cs j, length (ul_kid_icbs lo j cs) = length cs.
Proof. induction cs as [|c r IH]; intros j; [reflexivity|]. destruct c; cbn [ul_kid_icbs length]; rewrite IH; reflexivity. Qed.

Lemma up_kid0_lb rs : forall k n m r, up_kid0 k n rs -> nth_error rs m = Some r -> (k + m < dr_kid0 r)%nat.
Proof.
  induction rs as [|x rs IH]; intros k n m r H Hm; [destruct m; discriminate|]. cbn [up_kid0] in H. destruct H as (H1 & H2 & H3).
  destruct m as [|m]; cbn [nth_error] in Hm; [inversion Hm; subst; lia|]. pose proof (IH _ _ _ _ H3 Hm). lia.
Qed.

(* ---- all directories ---- *)
Section Dirs.
  Variable lo : layout.

  Definition up_dirs_post (k : nat) (rs : list dirrec) (objs : list nat) (next : nat) (wt : list winode)
             (ds : list pdir) (wt' : list winode) : Prop :=
    (exists ext, up_ids wt' = up_ids wt ++ ext) /\ NoDup (up_ids wt') /\
    Forall2 (up_dir_ok lo (up_ids wt')) rs ds /\
    (forall m o, nth_error objs m = Some o -> exists d, nth_error ds m = Some d /\ pd_obj d = o) /\
    (forall m r d, nth_error rs m = Some r -> nth_error ds m = Some d ->
       forall jj e, nth_error (up_dir_entries (pd_fids d)) jj = Some e ->
         exists d', nth_error ds (dr_kid0 r - k + jj) = Some d' /\ pd_obj d' = pe_obj e) /\
    NoDup (map pd_obj ds) /\ Forall (fun d => In (pd_obj d) objs \/ (next <= pd_obj d)%nat) ds /\
    exists total, flat_map (fun d => up_fid_objs (pd_fids d)) ds = seq next total.

  Lemma up_ug_dirs_spec : forall rs k objs (next : nat) wt ds wt',
    Forall (fun r => length (ul_dir_tags lo r) = S (length (dr_node r))) rs ->
    up_kid0 k (length objs) rs ->
    (forall m r, nth_error rs m = Some r -> (dr_kid0 r + length (ul_dir_children (dr_node r)) <= k + length rs)%nat) ->
    (length objs <= length rs)%nat ->
    NoDup (up_ids wt) -> NoDup objs -> Forall (fun o => (o < next)%nat) objs ->
    ug_dirs lo rs objs next wt = (ds, wt') ->
    up_dirs_post k rs objs next wt ds wt'.
  Proof.
    induction rs as [|r rs' IH]; intros k objs next wt ds wt' Hlen Hk0 Hbound Hql Hnd Hno Hlt H.
    - destruct objs as [|o objs']; [|cbn [length] in Hql; lia]. cbn [ug_dirs] in H. inversion H; subst ds wt'.
      unfold up_dirs_post. split; [exists []; rewrite app_nil_r; reflexivity|]. split; [exact Hnd|]. split; [constructor|].
      split; [intros [|m] o Hm; discriminate|]. split; [intros [|m] r d Hm; discriminate|]. split; [constructor|].
      split; [constructor|]. exists 0%nat. reflexivity.
    - cbn [up_kid0] in Hk0. destruct Hk0 as (Hkid & Hn1 & Hk0). destruct objs as [|o objs']; [cbn [length] in Hn1; lia|].
      cbn [length] in Hkid, Hk0, Hql.
      pose proof (Forall_inv Hlen) as Hl0. pose proof (Forall_inv_tail Hlen) as Hlen'. cbv beta in Hl0.
      cbn [ug_dirs] in H. unfold ug_dir in H. unfold ul_dir_icbs in H.
      destruct (ul_dir_tags lo r) as [|ptag tags]; [discriminate|]. cbn [length] in Hl0. apply Nat.succ_inj in Hl0.
      destruct (ug_kids lo o (dr_node r) tags (ul_kid_icbs lo (dr_kid0 r) (dr_node r)) (dr_kid0 r) next wt)
        as [[[fs q] nx] wt1] eqn:EK.
      destruct (ug_dirs lo rs' (objs' ++ map pe_obj q) nx wt1) as [ds2 wt2] eqn:ED. inversion H; subst ds wt'. clear H.
      destruct (up_ug_kids_spec lo o _ _ _ _ _ _ _ _ _ _ Hl0 (up_kid_icbs_length lo _ _) Hnd EK)
        as (Hnx & (ext1 & E1) & Hnd1 & HF & Hobjs & Hq).
      pose proof (up_dir_entries_count _ _ _ _ HF) as Hcount. rewrite <- Hq in Hcount.
      assert (Hseqnd : NoDup (up_fid_objs fs)) by (rewrite Hobjs; apply seq_NoDup).
      destruct (up_dir_entries_objs fs Hseqnd) as [Hqnd Hqin]. rewrite <- Hq in Hqnd, Hqin.
      assert (Hqrange : forall x, In x (map pe_obj q) -> (next <= x < nx)%nat).
      { intros x Hx. apply Hqin in Hx. rewrite Hobjs in Hx. apply in_seq in Hx. lia. }
      pose proof (Hbound 0%nat r eq_refl) as Hb0. cbn [length] in Hb0.
      apply NoDup_cons_iff in Hno. destruct Hno as [Hon Hno'].
      pose proof (Forall_inv Hlt) as Holt. pose proof (Forall_inv_tail Hlt) as Hlt'. cbv beta in Holt.
      assert (Hpost : up_dirs_post (S k) rs' (objs' ++ map pe_obj q) nx wt1 ds2 wt2).
      { apply IH; try assumption.
        - rewrite app_length, map_length, Hcount.
          replace (length objs' + length (ul_dir_children (dr_node r)))%nat
            with (S (length objs') - 1 + length (ul_dir_children (dr_node r)))%nat by lia. exact Hk0.
        - intros m r' Hm. pose proof (Hbound (S m) r' Hm). cbn [length] in *. lia.
        - rewrite app_length, map_length, Hcount. lia.
        - apply up_nodup_app; [exact Hno'|exact Hqnd|]. intros x Hx Hx2. apply Hqrange in Hx2.
          pose proof (proj1 (Forall_forall _ _) Hlt' x Hx). cbv beta in *. lia.
        - apply Forall_app. split.
          + eapply Forall_impl; [|exact Hlt']. cbv beta. intros; lia.
          + apply Forall_forall. intros x Hx. apply Hqrange in Hx. lia. }
      destruct Hpost as ((ext2 & E2) & Hnd2 & HF2 & Hq2 & Hlink2 & Hpd2 & Hrange2 & (total2 & Htot2)).
      unfold up_dirs_post. split; [exists (ext1 ++ ext2); rewrite E2, E1, app_assoc; reflexivity|]. split; [exact Hnd2|].
      split; [|split; [|split; [|split; [|split]]]].
      + constructor; [|exact HF2]. split; [reflexivity|]. eexists. eexists. split; [reflexivity|]. repeat split.
        cbn [pd_obj]. rewrite E2. eapply up_Forall2_impl; [|exact HF]. intros c f. apply up_kid_ok_ext.
      + intros [|m] o' Hm; cbn [nth_error] in Hm.
        * inversion Hm; subst o'. eexists. split; reflexivity.
        * cbn [nth_error]. apply Hq2. rewrite nth_error_app1; [exact Hm|]. apply nth_error_Some. rewrite Hm. discriminate.
      + intros [|m] r' d Hr Hd jj e He; cbn [nth_error] in Hr, Hd.
        * inversion Hr; subst r'. inversion Hd; subst d. cbn [pd_fids] in He.
          rewrite up_dir_entries_cons in He. cbn [pf_entry app] in He. rewrite <- Hq in He.
          destruct (Hq2 (length objs' + jj)%nat (pe_obj e)) as (d' & Hd' & Ho').
          { rewrite nth_error_app2 by lia. replace (length objs' + jj - length objs')%nat with jj by lia.
            rewrite nth_error_map, He. reflexivity. }
          exists d'. split; [|exact Ho']. replace (dr_kid0 r - k + jj)%nat with (S (length objs' + jj)) by lia. exact Hd'.
        * destruct (Hlink2 m r' d Hr Hd jj e He) as (d' & Hd' & Ho'). exists d'. split; [|exact Ho'].
          pose proof (up_kid0_lb _ _ _ _ _ Hk0 Hr).
          replace (dr_kid0 r' - k + jj)%nat with (S (dr_kid0 r' - S k + jj)) by lia. exact Hd'.
      + cbn [map pd_obj]. constructor; [|exact Hpd2]. intros Hin. apply in_map_iff in Hin. destruct Hin as (d & Ed & Hin).
        pose proof (proj1 (Forall_forall _ _) Hrange2 d Hin) as Hr. cbv beta in Hr. rewrite Ed in Hr. destruct Hr as [Hr|Hr]; [|lia].
        apply in_app_or in Hr. destruct Hr as [Hr|Hr]; [contradiction|]. apply Hqrange in Hr. lia.
      + constructor; [left; left; reflexivity|]. apply Forall_forall. intros d Hin.
        pose proof (proj1 (Forall_forall _ _) Hrange2 d Hin) as Hr. cbv beta in Hr. destruct Hr as [Hr|Hr]; [|right; lia].
        apply in_app_or in Hr. destruct Hr as [Hr|Hr]; [left; right; exact Hr|]. apply Hqrange in Hr. right. lia.
      + exists (length (dr_node r) + total2)%nat. cbn [flat_map pd_fids]. rewrite up_fid_objs_cons. cbn [pf_entry app].
        rewrite Hobjs, Htot2, Hnx, seq_app. reflexivity.
  Qed.
End Dirs.

Print Assumptions up_ug_dirs_spec.
