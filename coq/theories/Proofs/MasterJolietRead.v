(* MasterJoliet, part 3: Master.read run on the directory extents of ONE hierarchy of an ISO9660+Joliet
   image returns the byte-level view mj_view (identifier bytes, extent, length of every record), from
   any medium that contains these extents among non-overlapping others.  Generic in the hierarchy, as
   Proofs/MasterJolietDir.v.
     mj_read_area        the reader on the chunks of mj_area
     mj_area_dot_dotdot  every directory starts with '.' = itself, then '..' = the directory above *)
From Coq Require Import ZArith List Bool Lia ZifyBool.
From PV.Base Require Import Prim ListX.
From PV.Gen Require Import GenConst GenFun.
From PV.Model Require Import Codec Pack PathTable Master MasterJoliet.
From PV.Model Require Alloc Account AccountLinks AccountNs.
From PV.Proofs Require Import CodecProofs PackProofs PathTableLemmas PathTableProofs.
From PV.Proofs Require Import MasterPack MasterImage MasterBfs MasterWf MasterJolietWf MasterJolietDir.
Import ListNotations.
Local Open Scope Z_scope.

(* the children part of mj_view, as a function of its own *)
Fixpoint mj_view_kids (s : nstate) (DB : list dirrec) (p : list nat) (j : nat) (l : list lnode)
  : list rnode :=
  match l with
  | [] => []
  | c :: r => mj_view s DB (p ++ [j]) c :: mj_view_kids s DB p (S j) r
  end.

Lemma mj_view_dir s DB p nm dl kids :
  mj_view s DB p (LDir nm dl kids) = RDir nm (ms_ext_at DB p) dl (mj_view_kids s DB p 0 kids).
Proof.
  cbn [mj_view]. f_equal. generalize 0%nat. induction kids as [|c r IH]; intros j; [reflexivity|].
  cbn [mj_view_kids]. rewrite <- IH. reflexivity.
Qed.

Lemma mj_height_kid nm dl kids j c : nth_error kids j = Some c ->
  (S (mj_height c) <= mj_height (LDir nm dl kids))%nat.
Proof.
  cbn [mj_height]. revert j. induction kids as [|k kids IH]; intros [|j] H; cbn [nth_error] in H;
    try discriminate; cbn [fold_right].
  - injection H as <-. lia.
  - specialize (IH j H). lia.
Qed.

Section Read.
  Set Default Proof Using "All".
  Variable dt : list Z.
  Hypothesis Hdt : length dt = 7%nat.
  Variable s : nstate.
  Variable t : lnode.
  Variable start : Z.
  Hypothesis Hroot : mj_root_ok t = true.
  Hypothesis Hok : mj_tree_ok t = true.
  Hypothesis Hstart : 0 <= start.
  Hypothesis Hend : assign_end start (mj_dtree t) <= 4294967296.
  Hypothesis Hfext : forall i, 0 <= mj_fext s i <= 4294967295.
  Hypothesis Hlen : forall i, 0 <= mj_ino_len s i <= 4294967295.

  Local Notation DB := (bfs start (mj_dtree t)).
  Local Notation img := (map (mj_chunk dt s t DB) (mj_dir_positions t)).

  (* in the extent of the directory at position p the first record is '.', with the extent and length
     of that very extent; the second is '..', with the extent and length of the directory above
     (removelast p; the root itself for the root) *)
  Theorem mj_area_dot_dotdot p : mj_is_dir_at t p = true ->
    exists r1 r2 rest,
      mj_dir_recs dt s t DB p = r1 :: r2 :: rest /\
      Codec.ident r1 = [0] /\ flags r1 = 2 /\
      extent r1 = ms_ext_at DB p /\ data_len r1 = mj_dlen_at t p /\
      Codec.ident r2 = [1] /\ flags r2 = 2 /\
      mj_is_dir_at t (removelast p) = true /\
      extent r2 = ms_ext_at DB (removelast p) /\ data_len r2 = mj_dlen_at t (removelast p).
  Proof.
    intros Hp. destruct (mj_is_dir_node _ _ Hp) as (nm & dl & kids & Hn).
    rewrite (mj_dir_recs_eq dt Hdt s t start Hroot Hok Hstart Hend Hfext Hlen p nm dl kids Hn), (mj_dlen_at_dir _ _ _ _ _ Hn).
    destruct (mj_parent_facts dt Hdt s t start Hroot Hok Hstart Hend Hfext Hlen p _ Hn) as (nm' & dl' & kids' & Hpar & Hdl').
    do 3 eexists. split; [reflexivity|]. cbn [ms_rec Codec.ident flags extent data_len].
    repeat split. unfold mj_is_dir_at. rewrite Hpar. reflexivity.
  Qed.
  Variable img' : image.
  Hypothesis Hiok : ms_img_ok img'.
  Hypothesis Hincl : incl img img'.

  Lemma mj_read_kids_ok rd p nm dl kids : mj_node_at t p = Some (LDir nm dl kids) ->
    (forall j n d ks, nth_error kids j = Some (LDir n d ks) ->
       rd (ms_ext_at DB (p ++ [j])) d = Some (mj_view_kids s DB (p ++ [j]) 0 ks)) ->
    forall kids' j0, (forall i c, nth_error kids' i = Some c -> nth_error kids (j0 + i) = Some c) ->
    ms_read_kids rd (mj_kid_recs dt s DB p j0 kids') = Some (mj_view_kids s DB p j0 kids').
  Proof.
    intros Hp Hrd. induction kids' as [|c kids' IH]; intros j0 Hsub; [reflexivity|].
    cbn [mj_kid_recs ms_read_kids mj_view_kids].
    rewrite (IH (S j0)).
    2:{ intros i c' Hi. specialize (Hsub (S i) c' Hi).
        replace (S j0 + i)%nat with (j0 + S i)%nat by lia. exact Hsub. }
    specialize (Hsub 0%nat c eq_refl). rewrite Nat.add_0_r in Hsub.
    destruct c as [n i st|n d ks]; cbn [mj_kid_rec mj_view].
    - unfold ms_rec_is_dir, ms_rec. cbn [flags Codec.ident extent data_len].
      change (flag_set 0 1) with false. cbv iota. reflexivity.
    - unfold ms_rec_is_dir, ms_rec. cbn [flags Codec.ident extent data_len].
      change (flag_set 2 1) with true. cbv iota.
      rewrite (Hrd j0 n d ks Hsub), <- mj_view_dir. reflexivity.
  Qed.

  Lemma mj_read_dir_ok : forall fuel p nm dl kids, mj_node_at t p = Some (LDir nm dl kids) ->
    (mj_height (LDir nm dl kids) <= fuel)%nat ->
    ms_read_dir fuel img' (ms_ext_at DB p) dl = Some (mj_view_kids s DB p 0 kids).
  Proof.
    induction fuel as [|f IH]; intros p nm dl kids Hp Hh; [cbn [mj_height] in Hh; lia|].
    cbn [ms_read_dir].
    rewrite (mj_area_read_in dt Hdt s t start Hroot Hok Hstart Hend Hfext Hlen img' p nm dl kids Hiok Hincl Hp).
    destruct (mj_chunk_facts dt Hdt s t start Hroot Hok Hstart Hend Hfext Hlen p nm dl kids Hp)
      as (_ & _ & _ & _ & _ & Hscan).
    rewrite Hscan, (mj_dir_recs_eq dt Hdt s t start Hroot Hok Hstart Hend Hfext Hlen p nm dl kids Hp). cbn [skipn].
    apply (mj_read_kids_ok (ms_read_dir f img') p nm dl kids Hp); [|intros i c Hi; exact Hi].
    intros j n d ks Hj. apply (IH (p ++ [j]) n d ks).
    - rewrite (mj_node_at_snoc p j t _ Hp). exact Hj.
    - pose proof (mj_height_kid nm dl kids j _ Hj). lia.
  Qed.

  Lemma mj_root_extent : ms_ext_at DB [] = start.
  Proof.
    destruct (mj_root_node dt Hdt s t start Hroot Hok Hstart Hend Hfext Hlen) as (dl & kids & E). unfold ms_ext_at. rewrite E.
    cbn [mj_dtree]. rewrite bfs_unfold. reflexivity.
  Qed.

  Theorem mj_read_area :
    mj_area dt s start t = Some img /\
    read (mj_height t) img' start (mj_dlen_at t []) = Some (mj_view s DB [] t).
  Proof.
    split; [apply mj_area_some; assumption|].
    destruct (mj_root_node dt Hdt s t start Hroot Hok Hstart Hend Hfext Hlen) as (dl & kids & E).
    assert (Hp : mj_node_at t [] = Some (LDir [0] dl kids)) by (rewrite E; reflexivity).
    unfold read. rewrite (mj_dlen_at_dir _ _ _ _ _ Hp). rewrite <- mj_root_extent at 1.
    rewrite (mj_read_dir_ok (mj_height t) [] [0] dl kids Hp) by (rewrite E; apply le_n).
    replace (mj_view s DB [] t) with (mj_view s DB [] (LDir [0] dl kids)) by (rewrite <- E; reflexivity).
    rewrite mj_view_dir, mj_root_extent. reflexivity.
  Qed.

End Read.

Print Assumptions mj_read_area.
Print Assumptions mj_area_dot_dotdot.
