(* Queue-level lemmas about Model/PathTable.v (the deque loops of _reassign_vd_dirrecord_extents
   and _write_directory_records), used by Proofs/PathTableProofs.v.

   go_ind        induction over a run of the loop (any queue, enough fuel)
   go_nums / go_length / go_parent / go_items      numbering, parents, inherited item properties
   wgo_go        the writer's walk visits the same positions in the same order
   go_lower / qinv / qinv_step / go_sorted          the visiting order is strictly key-sorted
   go_sum / go_chain / chain_* / go_paths           sums, consecutive extents, visited paths *)
From Coq Require Import ZArith List Bool Lia ZifyBool Permutation Sorted.
From PV.Base Require Import Prim.
From PV.Gen Require Import GenConst GenFun.
From PV.Model Require Import Codec PathTable.
Import ListNotations.
Local Open Scope Z_scope.
Ltac Zify.zify_post_hook ::= Z.to_euclidean_division_equations.

(* ---- trees and queues ---------------------------------------------------------------------- *)

Lemma dtree_ind' (P : dtree -> Prop) :
  (forall n b ks, Forall P ks -> P (Node n b ks)) -> forall t, P t.
Proof.
  intros H. fix IH 1. intros [n b ks]. apply H.
  induction ks as [|k ks IHks]; constructor; [apply IH | exact IHks].
Qed.

Definition itree (it : qitem) : dtree := fst (fst (fst it)).
Definition ipn (it : qitem) : Z := snd (fst (fst it)).
Definition ipos (it : qitem) : list nat := snd (fst it).
Definition ipath (it : qitem) : list (list Z) := snd it.

Lemma tsize_pos t : (1 <= tsize t)%nat.
Proof. destruct t; cbn; lia. Qed.

Lemma qsize_app a b : qsize (a ++ b) = (qsize a + qsize b)%nat.
Proof. unfold qsize. rewrite map_app, list_sum_app. reflexivity. Qed.

Lemma qsize_cons' (it : qitem) q : qsize (it :: q) = (tsize (fst (fst (fst it))) + qsize q)%nat.
Proof. reflexivity. Qed.

Lemma qsize_child i ks pn pos path :
  qsize (child_items_from i ks pn pos path) = list_sum (map tsize ks).
Proof.
  revert i; induction ks as [|k ks IH]; intros i; [reflexivity|].
  cbn [child_items_from]. rewrite qsize_cons'. rewrite IH. reflexivity.
Qed.

Lemma qsize_cons nm bl ks pn pos path q :
  qsize ((Node nm bl ks, pn, pos, path) :: q) = S (list_sum (map tsize ks) + qsize q).
Proof. reflexivity. Qed.

(* induction over the run of the deque loop *)
Lemma go_ind (P : list qitem -> Z -> Z -> list dirrec * Z -> Prop) :
  (forall idx cur, P [] idx cur ([], cur)) ->
  (forall f nm bl ks pn pos path q idx cur,
      (qsize (q ++ child_items ks idx pos path) <= f)%nat ->
      P (q ++ child_items ks idx pos path) (idx + 1) (cur + bl)
        (go f (q ++ child_items ks idx pos path) (idx + 1) (cur + bl)) ->
      P ((Node nm bl ks, pn, pos, path) :: q) idx cur
        (mk_dirrec idx pn nm bl cur pos path
           :: fst (go f (q ++ child_items ks idx pos path) (idx + 1) (cur + bl)),
         snd (go f (q ++ child_items ks idx pos path) (idx + 1) (cur + bl)))) ->
  forall f q idx cur, (qsize q <= f)%nat -> P q idx cur (go f q idx cur).
Proof.
  intros Hnil Hstep. induction f as [|f IH]; intros q idx cur Hf.
  - destruct q as [|[[[t pn] pos] path] q]; [apply Hnil|].
    exfalso. rewrite qsize_cons' in Hf. cbn [fst] in Hf. pose proof (tsize_pos t). lia.
  - destruct q as [|[[[[nm bl ks] pn] pos] path] q]; [apply Hnil|].
    assert (Hq : (qsize (q ++ child_items ks idx pos path) <= f)%nat).
    { rewrite qsize_app. unfold child_items. rewrite qsize_child. rewrite qsize_cons in Hf. lia. }
    apply (Hstep f nm bl ks pn pos path q idx cur Hq). apply IH. exact Hq.
Qed.

Lemma in_child_items i ks pn pos path it :
  In it (child_items_from i ks pn pos path) ->
  exists k j, it = (k, pn, pos ++ [j], path ++ [tname k]) /\
              nth_error ks (j - i) = Some k /\ (i <= j)%nat.
Proof.
  revert i; induction ks as [|k ks IH]; intros i H; [destruct H|].
  destruct H as [<-|H].
  - exists k, i. rewrite Nat.sub_diag. auto.
  - apply IH in H. destruct H as (k' & j & -> & Hn & Hle). exists k', j.
    split; [reflexivity|]. split; [|lia].
    replace (j - i)%nat with (S (j - S i)) by lia. exact Hn.
Qed.

(* ---- 1. numbering --------------------------------------------------------------------------- *)

Lemma go_nums f q idx cur : (qsize q <= f)%nat ->
  forall i r, nth_error (fst (go f q idx cur)) i = Some r -> d_num r = idx + Z.of_nat i.
Proof.
  revert f q idx cur.
  apply (go_ind (fun q idx cur res =>
           forall i r, nth_error (fst res) i = Some r -> d_num r = idx + Z.of_nat i)).
  - intros idx cur i r H. destruct i; discriminate.
  - intros f nm bl ks pn pos path q idx cur Hf IH i r H. cbn [fst] in H. destruct i as [|i].
    + cbn in H. injection H as <-. cbn. lia.
    + cbn [nth_error] in H. apply IH in H. lia.
Qed.

Lemma go_length f q idx cur : (qsize q <= f)%nat -> length (fst (go f q idx cur)) = qsize q.
Proof.
  revert f q idx cur. apply (go_ind (fun q idx cur res => length (fst res) = qsize q)).
  - reflexivity.
  - intros f nm bl ks pn pos path q idx cur Hf IH. cbn [fst length]. rewrite IH.
    rewrite qsize_app. unfold child_items. rewrite qsize_child, qsize_cons. lia.
Qed.

Definition from_item (r : dirrec) (it : qitem) : Prop :=
  d_parent r = ipn it /\ d_pos r = ipos it /\ d_path r = ipath it /\
  d_name r = tname (itree it) /\ d_blocks r = tblocks (itree it).

(* the parent directory's record is in the list, carries the recorded parent number, which is
   smaller than the own number; position and path extend the parent's *)
Definition has_parent (out : list dirrec) (r : dirrec) : Prop :=
  exists p j, In p out /\ d_num p = d_parent r /\ d_num p < d_num r /\
              d_pos r = d_pos p ++ [j] /\ d_path r = d_path p ++ [d_name r].

Lemma has_parent_cons x out r : has_parent out r -> has_parent (x :: out) r.
Proof. intros (p & j & Hin & H). exists p, j. split; [right; exact Hin|exact H]. Qed.

Lemma go_parent f q idx cur : (qsize q <= f)%nat ->
  forall r, In r (fst (go f q idx cur)) ->
    (exists it, In it q /\ from_item r it) \/ has_parent (fst (go f q idx cur)) r.
Proof.
  revert f q idx cur.
  apply (go_ind (fun q idx cur res => forall r, In r (fst res) ->
           (exists it, In it q /\ from_item r it) \/ has_parent (fst res) r)).
  - intros idx cur r [].
  - intros f nm bl ks pn pos path q idx cur Hf IH r H. cbn [fst] in *. destruct H as [<-|H].
    + left. eexists. split; [left; reflexivity|]. repeat split.
    + destruct (IH r H) as [(it & Hin & Hfrom)|Hp].
      * apply in_app_or in Hin. destruct Hin as [Hin|Hin].
        -- left. exists it. split; [right; exact Hin|exact Hfrom].
        -- right. apply in_child_items in Hin. destruct Hin as (k & j & -> & _ & _).
           destruct Hfrom as (Hpn & Hpos & Hpath & Hname & _).
           unfold ipn, ipos, ipath, itree in *. cbn [fst snd] in *.
           exists (mk_dirrec idx pn nm bl cur pos path), j. cbn [d_num d_pos d_path].
           split; [left; reflexivity|]. split; [symmetry; exact Hpn|]. split.
           { apply In_nth_error in H. destruct H as [i Hi].
             apply (go_nums f _ _ _ Hf) in Hi. lia. }
           split; [exact Hpos|]. rewrite Hname. exact Hpath.
      * right. apply has_parent_cons. exact Hp.
Qed.

(* a property of queue items inherited by the enqueued children holds of every visited record *)
Lemma go_items (Q : qitem -> Prop) :
  (forall nm bl ks pn pos path idx it, Q (Node nm bl ks, pn, pos, path) ->
      In it (child_items ks idx pos path) -> Q it) ->
  forall f q idx cur, (qsize q <= f)%nat -> (forall it, In it q -> Q it) ->
  forall r, In r (fst (go f q idx cur)) ->
    exists ks, Q (Node (d_name r) (d_blocks r) ks, d_parent r, d_pos r, d_path r).
Proof.
  intros Hch.
  apply (go_ind (fun q idx cur res => (forall it, In it q -> Q it) ->
           forall r, In r (fst res) ->
           exists ks, Q (Node (d_name r) (d_blocks r) ks, d_parent r, d_pos r, d_path r))).
  - intros idx cur _ r [].
  - intros f nm bl ks pn pos path q idx cur Hf IH HQ r H. cbn [fst] in H. destruct H as [<-|H].
    + exists ks. cbn. apply HQ. left. reflexivity.
    + apply IH; [|exact H]. intros it Hin. apply in_app_or in Hin. destruct Hin as [Hin|Hin].
      * apply HQ. right. exact Hin.
      * eapply Hch; [|exact Hin]. apply HQ. left. reflexivity.
Qed.

Lemma subtree_snoc T pos t' j :
  subtree T pos = Some t' -> subtree T (pos ++ [j]) = nth_error (tkids t') j.
Proof.
  revert T; induction pos as [|i p IH]; intros T H; cbn [subtree app] in *.
  - injection H as ->. destruct (nth_error (tkids t') j); reflexivity.
  - destruct (nth_error (tkids T) i); [apply IH; exact H|discriminate].
Qed.

(* ---- the writer's walk --------------------------------------------------------------------- *)

Lemma child_pos_map i ks idx pos path :
  map (fun it : qitem => (itree it, ipos it)) (child_items_from i ks idx pos path)
  = child_pos_from i ks pos.
Proof.
  revert i; induction ks as [|k ks IH]; intros i; [reflexivity|].
  cbn [child_items_from child_pos_from map]. rewrite IH. reflexivity.
Qed.

Lemma wgo_go f : forall q idx cur,
  wgo f (map (fun it : qitem => (itree it, ipos it)) q) = map d_pos (fst (go f q idx cur)).
Proof.
  induction f as [|f IH]; intros q idx cur; [reflexivity|].
  destruct q as [|[[[[nm bl ks] pn] pos] path] q]; [reflexivity|].
  cbn [map go fst]. unfold itree at 1, ipos at 1. cbn [fst snd wgo d_pos]. f_equal.
  rewrite <- (IH _ (idx + 1) (cur + bl)), map_app. unfold child_items.
  rewrite child_pos_map. reflexivity.
Qed.

(* ---- 2. order of the written table ------------------------------------------------------------ *)

(* strict (level, parent number, identifier) order; identifiers compared like Python bytes *)
Definition key_lt (a b : key) : Prop :=
  (fst (fst a) < fst (fst b))%nat \/
  (fst (fst a) = fst (fst b) /\
   (snd (fst a) < snd (fst b) \/ (snd (fst a) = snd (fst b) /\ name_ltb (snd a) (snd b) = true))).

Lemma key_ltb_spec a b : key_ltb name_ltb a b = true <-> key_lt a b.
Proof.
  destruct a as [[l1 p1] n1], b as [[l2 p2] n2]. unfold key_ltb, key_lt. cbn [fst snd].
  destruct (name_ltb n1 n2); lia.
Qed.

Lemma name_ltb_trans a : forall b c,
  name_ltb a b = true -> name_ltb b c = true -> name_ltb a c = true.
Proof.
  induction a as [|x a IH]; intros [|y b] [|z c]; cbn [name_ltb]; try congruence.
  destruct (x <? y) eqn:E1; destruct (y <? x) eqn:E2; destruct (y <? z) eqn:E3;
  destruct (z <? y) eqn:E4; destruct (x <? z) eqn:E5; destruct (z <? x) eqn:E6;
  intros H1 H2; try congruence; try lia; eauto.
Qed.

Lemma names_sorted_strong l :
  names_sortedb l = true -> StronglySorted (fun a b => name_ltb a b = true) l.
Proof.
  induction l as [|a r IH]; intros H; [constructor|]. cbn [names_sortedb] in H.
  apply andb_prop in H. destruct H as [H1 H2]. specialize (IH H2). constructor; [exact IH|].
  destruct r as [|b r']; [constructor|]. constructor; [exact H1|].
  apply StronglySorted_inv in IH. destruct IH as [_ Hb]. eapply Forall_impl; [|exact Hb].
  intros c Hc. eapply name_ltb_trans; eassumption.
Qed.

Definition ikey (it : qitem) : key := (length (ipos it), ipn it, tname (itree it)).
Definition ilt (a b : qitem) : Prop := key_lt (ikey a) (ikey b).
Definition rlt (a b : dirrec) : Prop := key_lt (rkey a) (rkey b).

Lemma child_items_sorted i ks idx pos path :
  StronglySorted (fun a b => name_ltb a b = true) (map tname ks) ->
  StronglySorted ilt (child_items_from i ks idx pos path).
Proof.
  revert i; induction ks as [|k ks IH]; intros i H; [constructor|]. cbn [map] in H.
  apply StronglySorted_inv in H. destruct H as [Hs Hf]. cbn [child_items_from].
  constructor; [apply IH; exact Hs|]. apply Forall_forall. intros it Hin.
  apply in_child_items in Hin. destruct Hin as (k' & j & -> & Hn & _).
  apply nth_error_In in Hn. rewrite Forall_forall in Hf.
  specialize (Hf (tname k') (in_map tname _ _ Hn)).
  unfold ilt, ikey, key_lt, ipos, ipn, itree; cbn [fst snd]. rewrite !app_length. cbn [length].
  right. split; [reflexivity|]. right. split; [reflexivity|exact Hf].
Qed.

Lemma key_lt_level_succ k0 l p n :
  key_lt k0 (l, p, n) -> forall p' n', key_lt k0 (S l, p', n').
Proof. unfold key_lt. cbn [fst snd]. intros H p' n'. left. lia. Qed.

Lemma go_lower f q idx cur : (qsize q <= f)%nat ->
  forall k0, (forall it, In it q -> key_lt k0 (ikey it)) ->
  forall r, In r (fst (go f q idx cur)) -> key_lt k0 (rkey r).
Proof.
  revert f q idx cur.
  apply (go_ind (fun q idx cur res => forall k0, (forall it, In it q -> key_lt k0 (ikey it)) ->
           forall r, In r (fst res) -> key_lt k0 (rkey r))).
  - intros idx cur k0 _ r [].
  - intros f nm bl ks pn pos path q idx cur Hf IH k0 Hk r H. cbn [fst] in H.
    destruct H as [<-|H].
    + exact (Hk _ (or_introl eq_refl)).
    + apply (IH k0); [|exact H]. intros it Hin. apply in_app_or in Hin.
      destruct Hin as [Hin|Hin]; [apply Hk; right; exact Hin|].
      apply in_child_items in Hin. destruct Hin as (k & j & -> & _ & _).
      unfold ikey, ipos, ipn, itree; cbn [fst snd]. rewrite app_length, Nat.add_1_r.
      apply (key_lt_level_succ k0 (length pos) pn nm). exact (Hk _ (or_introl eq_refl)).
Qed.

(* invariant of the deque: sorted by key, parent numbers already issued, at most two levels *)
Definition qinv (q : list qitem) (idx : Z) : Prop :=
  StronglySorted ilt q /\ Forall (fun it => ipn it < idx) q /\
  (forall h q', q = h :: q' ->
     Forall (fun it => (length (ipos it) <= S (length (ipos h)))%nat) q') /\
  Forall (fun it => sorted_tree (itree it) = true) q.

Lemma StronglySorted_app {A} (R : A -> A -> Prop) a b :
  StronglySorted R a -> StronglySorted R b -> (forall x y, In x a -> In y b -> R x y) ->
  StronglySorted R (a ++ b).
Proof.
  induction a as [|x a IH]; intros Ha Hb H; [exact Hb|]. cbn [app].
  apply StronglySorted_inv in Ha. destruct Ha as [Ha Hf]. constructor.
  - apply IH; auto. intros; apply H; [right|]; assumption.
  - apply Forall_app. split; [exact Hf|]. apply Forall_forall. intros y Hy.
    apply H; [left; reflexivity|exact Hy].
Qed.

Lemma qinv_step nm bl ks pn pos path q idx :
  qinv ((Node nm bl ks, pn, pos, path) :: q) idx ->
  qinv (q ++ child_items ks idx pos path) (idx + 1).
Proof.
  intros (Hs & Hp & Hl & Ht). apply StronglySorted_inv in Hs. destruct Hs as [Hs Hh].
  apply Forall_cons_iff in Hp. destruct Hp as [_ Hp].
  apply Forall_cons_iff in Ht. destruct Ht as [Ht0 Ht]. specialize (Hl _ _ eq_refl).
  unfold itree in Ht0; cbn [fst sorted_tree] in Ht0. apply andb_prop in Ht0.
  destruct Ht0 as [Hn Hk]. rewrite Forall_forall in Hh, Hp, Hl.
  change (ipos (Node nm bl ks, pn, pos, path)) with pos in Hl.
  assert (Hc : forall it, In it (child_items ks idx pos path) ->
            length (ipos it) = S (length pos) /\ ipn it = idx /\ sorted_tree (itree it) = true).
  { intros it Hin. apply in_child_items in Hin. destruct Hin as (k & j & -> & Hnth & _).
    unfold ipos, ipn, itree; cbn [fst snd]. rewrite app_length, Nat.add_1_r.
    repeat split. apply nth_error_In in Hnth. rewrite forallb_forall in Hk. apply Hk, Hnth. }
  assert (Hlev : forall h', In h' q -> (length pos <= length (ipos h'))%nat).
  { intros h' Hin. specialize (Hh h' Hin). unfold ilt, ikey, key_lt, ipos in *.
    cbn [fst snd] in Hh. lia. }
  split; [|split; [|split]].
  - apply StronglySorted_app;
      [exact Hs|apply child_items_sorted, names_sorted_strong, Hn|].
    intros x y Hx Hy. destruct (Hc y Hy) as (Ly & Py & _). specialize (Hl x Hx).
    specialize (Hp x Hx). unfold ilt, ikey, key_lt. cbn [fst snd]. rewrite Ly, Py.
    destruct (Nat.eq_dec (length (ipos x)) (S (length pos))) as [E|E];
      [right; split; [exact E|left; exact Hp]|left; lia].
  - apply Forall_app; split; apply Forall_forall; intros x Hx.
    + specialize (Hp x Hx). cbn beta. lia.
    + destruct (Hc x Hx) as (_ & E & _). cbn beta. lia.
  - intros h q' E. destruct q as [|h' q'']; cbn [app] in E.
    + apply Forall_forall. intros x Hx.
      assert (H1 : In h (child_items ks idx pos path)) by (rewrite E; left; reflexivity).
      assert (H2 : In x (child_items ks idx pos path)) by (rewrite E; right; exact Hx).
      destruct (Hc h H1) as (E1 & _), (Hc x H2) as (E2 & _). lia.
    + injection E as <- <-. pose proof (Hlev h' (or_introl eq_refl)) as Hh'.
      apply Forall_app; split; apply Forall_forall; intros x Hx.
      * specialize (Hl x (or_intror Hx)). lia.
      * destruct (Hc x Hx) as (E2 & _). lia.
  - apply Forall_app; split; [exact Ht|]. apply Forall_forall; intros x Hx. apply (Hc x Hx).
Qed.

Lemma go_sorted f q idx cur : (qsize q <= f)%nat -> qinv q idx ->
  StronglySorted rlt (fst (go f q idx cur)).
Proof.
  revert f q idx cur.
  apply (go_ind (fun q idx cur res => qinv q idx -> StronglySorted rlt (fst res))).
  - intros; constructor.
  - intros f nm bl ks pn pos path q idx cur Hf IH Hq. cbn [fst]. constructor.
    + apply IH. apply qinv_step with (1 := Hq).
    + apply Forall_forall. intros r Hr. unfold rlt.
      refine (go_lower f _ _ _ Hf (rkey (mk_dirrec idx pn nm bl cur pos path)) _ r Hr).
      intros it Hin. destruct Hq as (Hs & _). apply StronglySorted_inv in Hs.
      destruct Hs as [_ Hh]. rewrite Forall_forall in Hh. apply in_app_or in Hin.
      destruct Hin as [Hin|Hin]; [exact (Hh it Hin)|].
      apply in_child_items in Hin. destruct Hin as (k & j & -> & _ & _).
      unfold key_lt, rkey, ikey, ipos; cbn [fst snd d_pos]. rewrite app_length. left. cbn. lia.
Qed.

Lemma SS_nth {A} (R : A -> A -> Prop) l : StronglySorted R l ->
  forall i j a b, (i < j)%nat -> nth_error l i = Some a -> nth_error l j = Some b -> R a b.
Proof.
  induction 1 as [|x l Hs IH Hf]; intros i j a b Hij Ha Hb; [destruct i; discriminate|].
  destruct j as [|j]; [lia|]. cbn [nth_error] in Hb. destruct i as [|i].
  - cbn in Ha. injection Ha as <-. rewrite Forall_forall in Hf. apply Hf.
    eapply nth_error_In. exact Hb.
  - cbn [nth_error] in Ha. apply (IH i j); [lia|assumption|assumption].
Qed.

(* ---- 3./4. sums over the directories, extents ----------------------------------------------- *)

Fixpoint tree_sum (g : list Z -> Z -> Z) (t : dtree) : Z :=
  match t with Node n b ks => g n b + sumZ (map (tree_sum g) ks) end.

Lemma tree_blocks_sum t : tree_blocks t = tree_sum (fun _ b => b) t.
Proof.
  induction t as [n b ks IH] using dtree_ind'. cbn [tree_blocks tree_sum]. f_equal. f_equal.
  apply map_ext_Forall. exact IH.
Qed.
Lemma tree_ptr_size_sum t : tree_ptr_size t = tree_sum (fun n _ => ptr_record_length (zlen n)) t.
Proof.
  induction t as [n b ks IH] using dtree_ind'. cbn [tree_ptr_size tree_sum]. f_equal. f_equal.
  apply map_ext_Forall. exact IH.
Qed.

Lemma sumZ_app a b : sumZ (a ++ b) = sumZ a + sumZ b.
Proof. unfold sumZ. induction a as [|x a IH]; cbn [app fold_right] in *; lia. Qed.

Lemma sumZ_cons x a : sumZ (x :: a) = x + sumZ a.
Proof. reflexivity. Qed.

Definition qsum (g : list Z -> Z -> Z) (q : list qitem) : Z :=
  sumZ (map (fun it => tree_sum g (itree it)) q).

Lemma qsum_child g i ks idx pos path :
  qsum g (child_items_from i ks idx pos path) = sumZ (map (tree_sum g) ks).
Proof.
  revert i; induction ks as [|k ks IH]; intros i; [reflexivity|].
  unfold qsum in *. cbn [child_items_from map]. rewrite !sumZ_cons, <- (IH (S i)). reflexivity.
Qed.

Lemma go_sum g f q idx cur : (qsize q <= f)%nat ->
  sumZ (map (fun r => g (d_name r) (d_blocks r)) (fst (go f q idx cur))) = qsum g q.
Proof.
  revert f q idx cur.
  apply (go_ind (fun q idx cur res =>
           sumZ (map (fun r => g (d_name r) (d_blocks r)) (fst res)) = qsum g q)).
  - reflexivity.
  - intros f nm bl ks pn pos path q idx cur Hf IH. cbn [fst map] in *.
    rewrite sumZ_cons, IH. unfold qsum. rewrite map_app, sumZ_app.
    fold (qsum g (child_items ks idx pos path)).
    unfold child_items. rewrite qsum_child. cbn [map d_name d_blocks]. rewrite sumZ_cons.
    unfold itree at 2. cbn [fst tree_sum]. lia.
Qed.

(* consecutive extents: each directory starts where the previous one ends *)
Fixpoint chain (e : Z) (rs : list dirrec) : Prop :=
  match rs with [] => True | r :: rs' => d_extent r = e /\ chain (e + d_blocks r) rs' end.

Lemma go_chain f q idx cur : (qsize q <= f)%nat ->
  chain cur (fst (go f q idx cur)) /\
  snd (go f q idx cur) = cur + sumZ (map d_blocks (fst (go f q idx cur))).
Proof.
  revert f q idx cur.
  apply (go_ind (fun q idx cur res =>
           chain cur (fst res) /\ snd res = cur + sumZ (map d_blocks (fst res)))).
  - intros idx cur. cbn. split; [exact I|lia].
  - intros f nm bl ks pn pos path q idx cur Hf [IH1 IH2].
    cbn [fst snd chain map d_extent d_blocks]. split; [split; [reflexivity|exact IH1]|].
    rewrite IH2, sumZ_cons. lia.
Qed.

Lemma chain_next e rs : chain e rs -> forall i a b,
  nth_error rs i = Some a -> nth_error rs (S i) = Some b -> d_extent b = d_extent a + d_blocks a.
Proof.
  revert e; induction rs as [|r rs IH]; intros e H i a b Ha Hb; [destruct i; discriminate|].
  destruct H as [He H]. destruct i as [|i].
  - cbn in Ha. injection Ha as <-. destruct rs as [|r' rs']; [discriminate|].
    cbn in Hb. injection Hb as <-. destruct H as [H _]. lia.
  - exact (IH _ H i a b Ha Hb).
Qed.

Lemma chain_lower e rs : Forall (fun r => 0 <= d_blocks r) rs -> chain e rs ->
  forall r, In r rs -> e <= d_extent r.
Proof.
  revert e; induction rs as [|x rs IH]; intros e Hf H r Hin; [destruct Hin|].
  apply Forall_cons_iff in Hf. destruct Hf as [Hx Hf]. destruct H as [He H].
  destruct Hin as [<-|Hin]; [lia|]. specialize (IH _ Hf H r Hin). lia.
Qed.

Lemma chain_disjoint e rs : Forall (fun r => 0 <= d_blocks r) rs -> chain e rs ->
  forall i j a b, (i < j)%nat -> nth_error rs i = Some a -> nth_error rs j = Some b ->
  d_extent a + d_blocks a <= d_extent b.
Proof.
  revert e; induction rs as [|x rs IH]; intros e Hf H i j a b Hij Ha Hb;
    [destruct i; discriminate|].
  apply Forall_cons_iff in Hf. destruct Hf as [Hx Hf]. destruct H as [He H].
  destruct j as [|j]; [lia|]. cbn [nth_error] in Hb. destruct i as [|i].
  - cbn in Ha. injection Ha as <-. apply nth_error_In in Hb.
    pose proof (chain_lower _ _ Hf H b Hb). lia.
  - cbn [nth_error] in Ha. apply (IH _ Hf H i j); [lia|assumption|assumption].
Qed.

Definition qpaths (q : list qitem) : list (list (list Z)) :=
  concat (map (fun it => tree_paths (ipath it) (itree it)) q).

Lemma qpaths_child i ks idx pos path :
  qpaths (child_items_from i ks idx pos path)
  = concat (map (fun k => tree_paths (path ++ [tname k]) k) ks).
Proof.
  revert i; induction ks as [|k ks IH]; intros i; [reflexivity|].
  unfold qpaths in *. cbn [child_items_from map concat]. rewrite IH. reflexivity.
Qed.

Lemma go_paths f q idx cur : (qsize q <= f)%nat ->
  Permutation (map d_path (fst (go f q idx cur))) (qpaths q).
Proof.
  revert f q idx cur.
  apply (go_ind (fun q idx cur res => Permutation (map d_path (fst res)) (qpaths q))).
  - intros. constructor.
  - intros f nm bl ks pn pos path q idx cur Hf IH. cbn [fst map d_path].
    unfold qpaths at 1. cbn [map concat]. unfold ipath at 1, itree at 1. cbn [fst snd tree_paths].
    cbn [app]. apply perm_skip. eapply Permutation_trans; [exact IH|].
    unfold qpaths. rewrite map_app, concat_app. fold (qpaths (child_items ks idx pos path)).
    unfold child_items. rewrite qpaths_child. apply Permutation_app_comm.
Qed.

