(* C04 -- the volume size maintained by per-edit deltas (pvd.space_size) always equals the end
   of the from-scratch extent assignment (_reshuffle_extents), for every edit history of the
   fragment modelled in Model/Account.v. *)
From Coq Require Import ZArith List Bool Lia ZifyBool Sorted.
From PV.Base Require Import Prim.
From PV.Gen Require Import GenConst GenFun.
From PV.Model Require Import Names Checksums Pack Alloc Account.
From PV.Proofs Require Import PackProofs AllocProofs ChecksumsArithProofs AccountLemmas.
Import ListNotations.
Local Open Scope Z_scope.
Ltac Zify.zify_post_hook ::= Z.to_euclidean_division_equations.

(* ---- the invariant ------------------------------------------------------------------------ *)

Record Inv (s : state) : Prop := {
  inv_space : space s = layout_end s;                       (* THE key equation *)
  inv_root : name_of (root s) = [0] /\ is_dir (root s) = true;
  inv_tree : all_ok (root s);     (* every directory: Pack's Inv, children strictly sorted (hence
                                     duplicate-free), every dr_len even and in [34, 254];
                                     every file length in [0, 0xfffff800] *)
  inv_ptr : PtrInv (ptr_size s) (ptr_ext s);
  inv_ptr_sum : ptr_size s = total w_ptr (root s)           (* sum of the PTR record lengths *)
}.

(* ptr_size = 10 (the root's record) + the records of all other directories *)
Lemma ptr_sum_root s : Inv s -> ptr_size s = 10 + totals w_ptr (kids_of (root s)).
Proof.
  intros HI. rewrite (inv_ptr_sum s HI). destruct (inv_root s HI) as [Hn Hd].
  destruct (root s) as [nm len|nm dl kids]; [discriminate|]. cbn [name_of] in Hn. subst nm.
  rewrite total_dir. reflexivity.
Qed.

(* ---- 1. the fresh image -------------------------------------------------------------------- *)

Theorem init_ok : Inv init.
Proof.
  constructor.
  - rewrite layout_end_closed. vm_compute. reflexivity.
  - split; reflexivity.
  - apply all_ok_dir. split; [apply dir_ok_new|constructor].
  - destruct ptr_init as (_ & H & _). exact H.
  - vm_compute. reflexivity.
Qed.

(* ---- 2. one generic update ----------------------------------------------------------------- *)

Lemma replace_is_dir : forall p n t old, subtree p n = Some old -> is_dir t = is_dir old ->
  is_dir (replace p t n) = is_dir n.
Proof.
  intros [|x q] n t old H E; cbn [subtree replace] in *.
  - inversion H. subst. exact E.
  - destruct n as [nm len|nm dl kids]; [reflexivity|].
    destruct (lookup x kids) as [[k c]|]; reflexivity.
Qed.

Lemma found_dir s p dn dl kids : Inv s -> subtree p (root s) = Some (Dir dn dl kids) ->
  dir_ok dl (map name_of kids) /\ Forall all_ok kids.
Proof.
  intros HI H. apply (all_ok_dir dn). eapply subtree_all_ok; [apply (inv_tree s HI)|exact H].
Qed.

Lemma update_inv s p dn dl kids dl' kids' ps' pe' sp' :
  Inv s -> subtree p (root s) = Some (Dir dn dl kids) ->
  all_ok (Dir dn dl' kids') ->
  PtrInv ps' pe' ->
  ps' = ptr_size s + (totals w_ptr kids' - totals w_ptr kids) ->
  sp' = space s + 2 * (pe' - ptr_ext s) + (ceiling_div dl' C - ceiling_div dl C)
        + (totals w_dblk kids' - totals w_dblk kids) + (totals w_fblk kids' - totals w_fblk kids) ->
  Inv {| root := replace p (Dir dn dl' kids') (root s);
         ptr_size := ps'; ptr_ext := pe'; space := sp' |}.
Proof.
  intros HI Hsub Hok Hptr Hps Hsp. constructor; cbn [root ptr_size ptr_ext space].
  - rewrite layout_end_closed. cbn [root ptr_ext].
    rewrite !(total_replace _ p _ _ _ Hsub), !total_dir.
    pose proof (inv_space s HI) as E. rewrite layout_end_closed in E.
    cbn [w_dblk w_fblk]. lia.
  - destruct (inv_root s HI) as [Hn Hd]. split.
    + rewrite (replace_name p _ _ _ Hsub); [exact Hn|reflexivity].
    + rewrite (replace_is_dir p _ _ _ Hsub); [exact Hd|reflexivity].
  - apply (all_ok_replace p _ _ _ Hsub); [reflexivity|apply (inv_tree s HI)|exact Hok].
  - exact Hptr.
  - rewrite (total_replace _ p _ _ _ Hsub), !total_dir, Hps, (inv_ptr_sum s HI). cbn [w_ptr]. lia.
Qed.

Lemma total_leaf_dir w nm dl : total w (Dir nm dl []) = w true nm dl.
Proof. rewrite total_dir. unfold totals. cbn. lia. Qed.

Lemma name_ok_of nm : nm <> [] -> (dr_len_of nm >? 255) = false -> name_ok nm.
Proof.
  intros Hne Hx. pose proof (dr_len_of_even nm) as He. split; [|exact He].
  destruct nm as [|c r]; [congruence|]. unfold dr_len_of in *. rewrite zlen_cons in *.
  pose proof (zlen_nonneg r). cbv zeta in *. lia.
Qed.

Lemma name_ok_ptr nm : name_ok nm -> 0 < ptr_record_length (zlen nm) <= 4096.
Proof.
  intros [H _]. unfold dr_len_of in H. cbv zeta in H. unfold ptr_record_length.
  pose proof (zlen_nonneg nm). lia.
Qed.

Lemma w_ptr_nonneg d nm v : 0 <= w_ptr d nm v.
Proof.
  unfold w_ptr, ptr_record_length. destruct d; [|lia]. pose proof (zlen_nonneg nm). lia.
Qed.

Lemma totals_nonneg w : (forall d nm v, 0 <= w d nm v) -> forall l, 0 <= totals w l.
Proof.
  intros Hw l. induction l as [|c r IH]; [unfold totals; cbn; lia|].
  rewrite totals_cons. pose proof (total_nonneg w Hw c). lia.
Qed.

Lemma file_name_nonempty nm : check_iso9660_filename nm 3 = Accept -> nm <> [].
Proof. intros H E. subst nm. vm_compute in H. discriminate. Qed.

Lemma dir_name_nonempty nm : check_iso9660_directory nm 3 = Accept -> nm <> [].
Proof. intros H E. subst nm. vm_compute in H. discriminate. Qed.

Lemma grow_cases (b : bool) : (if b then C else 0) = 0 \/ (if b then C else 0) = 2048.
Proof. destruct b; [right|left]; reflexivity. Qed.

(* ---- 3. the four operations ---------------------------------------------------------------- *)

Lemma step_add_file_inv s dirp nm len : Inv s -> Inv (fst (step_add_file s dirp nm len)).
Proof.
  intros HI. unfold step_add_file, refuse. cbv zeta.
  destruct (negb ((0 <=? len) && (len <=? max_len))) eqn:Hr; [exact HI|].
  destruct (too_deep dirp); [exact HI|].
  destruct (subtree dirp (root s)) as [[fn fl|dn dl kids]|] eqn:Hsub; try exact HI.
  destruct (check_iso9660_filename nm 3) eqn:Hchk; try exact HI.
  destruct (dr_len_of nm >? 255) eqn:Hx; [exact HI|].
  destruct (lookup nm kids) as [[k c]|] eqn:Hl; [exact HI|].
  cbn [fst]. destruct (found_dir s dirp dn dl kids HI Hsub) as [Hd HF].
  assert (Hnm : name_ok nm) by (apply name_ok_of; [apply file_name_nonempty, Hchk|exact Hx]).
  unfold dir_st. set (names := map name_of kids) in *.
  apply (update_inv s dirp dn dl kids _ _ _ _ _ HI Hsub).
  - apply all_ok_dir. split.
    + rewrite map_insert_at. cbn [name_of]. fold names.
      apply dir_ok_add; [exact Hd|exact Hnm|]. intros y Hy. eapply lookup_none; eassumption.
    + apply Forall_insert_at; [exact HF|]. cbn [all_ok]. unfold file_ok. lia.
  - apply (inv_ptr s HI).
  - rewrite totals_insert_at. cbn [total w_ptr]. lia.
  - rewrite !totals_insert_at, dlen_add. cbn [total w_dblk w_fblk st_of dlen].
    destruct (grow_cases (add_overflows (st_of dl names) (2 + pos nm names) (dr_len_of nm))) as [E|E];
      rewrite E; unfold ceiling_div, C; lia.
Qed.

Lemma step_add_dir_inv s parent nm : Inv s -> Inv (fst (step_add_dir s parent nm)).
Proof.
  intros HI. unfold step_add_dir, refuse. cbv zeta.
  destruct (too_deep parent); [exact HI|].
  destruct (subtree parent (root s)) as [[fn fl|dn dl kids]|] eqn:Hsub; try exact HI.
  destruct (check_iso9660_directory nm 3) eqn:Hchk; try exact HI.
  destruct (dr_len_of nm >? 255) eqn:Hx; [exact HI|].
  destruct (lookup nm kids) as [[k c]|] eqn:Hl; [exact HI|].
  destruct (found_dir s parent dn dl kids HI Hsub) as [Hd HF].
  assert (Hnm : name_ok nm) by (apply name_ok_of; [apply dir_name_nonempty, Hchk|exact Hx]).
  pose proof (add_to_ptr_size_inv _ _ _ (inv_ptr s HI) (name_ok_ptr nm Hnm)) as Hp.
  destruct (add_to_ptr_size (ptr_size s) (ptr_ext s) (ptr_record_length (zlen nm))) as [[b ps] pe].
  destruct Hp as (Hp1 & Hp2 & Hp3 & Hp4).
  cbn [fst]. unfold dir_st. set (names := map name_of kids) in *.
  apply (update_inv s parent dn dl kids _ _ _ _ _ HI Hsub).
  - apply all_ok_dir. split.
    + rewrite map_insert_at. cbn [name_of]. fold names.
      apply dir_ok_add; [exact Hd|exact Hnm|]. intros y Hy. eapply lookup_none; eassumption.
    + apply Forall_insert_at; [exact HF|]. apply all_ok_dir. split; [apply dir_ok_new|constructor].
  - exact Hp1.
  - rewrite totals_insert_at, total_leaf_dir. cbn [w_ptr]. lia.
  - rewrite !totals_insert_at, !total_leaf_dir, dlen_add. cbn [w_dblk w_fblk st_of dlen].
    destruct (grow_cases (add_overflows (st_of dl names) (2 + pos nm names) (dr_len_of nm))) as [E|E];
      rewrite E; destruct b; unfold ceiling_div, C; lia.
Qed.

Lemma step_rm_file_inv s dirp nm : Inv s -> Inv (fst (step_rm_file s dirp nm)).
Proof.
  intros HI. unfold step_rm_file, refuse. cbv zeta.
  destruct (subtree dirp (root s)) as [[fn fl|dn dl kids]|] eqn:Hsub; try exact HI.
  destruct (lookup nm kids) as [[k [cn len|cn cdl ckids]]|] eqn:Hl; try exact HI.
  apply lookup_spec in Hl. destruct Hl as (Hk & _ & _).
  destruct (found_dir s dirp dn dl kids HI Hsub) as [Hd HF].
  cbn [fst]. unfold dir_st. set (names := map name_of kids) in *.
  apply (update_inv s dirp dn dl kids _ _ _ _ _ HI Hsub).
  - apply all_ok_dir. split.
    + rewrite map_remove_at. fold names. apply dir_ok_remove, Hd.
    + apply Forall_remove_at, HF.
  - apply (inv_ptr s HI).
  - rewrite (totals_remove_at _ kids k _ Hk). cbn [total w_ptr]. lia.
  - rewrite !(totals_remove_at _ kids k _ Hk), dlen_remove. cbn [total w_dblk w_fblk st_of dlen].
    destruct (grow_cases (rm_underflows (st_of dl names) (2 + k))) as [E|E];
      rewrite E; unfold ceiling_div, C; lia.
Qed.

(* the PyCdlibInvalidInput('Extent number should never grow when removing PTR') of
   remove_from_ptr_size is unreachable from rm_directory *)
Lemma rm_dir_ptr_ok s q dn dl kids k cn cdl ckids :
  Inv s -> subtree q (root s) = Some (Dir dn dl kids) -> nth_error kids k = Some (Dir cn cdl ckids) ->
  exists b pe,
    remove_from_ptr_size (ptr_size s) (ptr_ext s) (ptr_record_length (zlen cn)) =
      Some (b, ptr_size s - ptr_record_length (zlen cn), pe) /\
    PtrInv (ptr_size s - ptr_record_length (zlen cn)) pe /\
    (pe = ptr_ext s \/ pe = ptr_ext s - 2) /\ (b = true <-> pe <> ptr_ext s).
Proof.
  intros HI Hsub Hk. destruct (found_dir s q dn dl kids HI Hsub) as [(_ & _ & Hn) _].
  assert (Hcn : name_ok cn).
  { rewrite Forall_forall in Hn. apply Hn.
    change cn with (name_of (Dir cn cdl ckids)). apply in_map. eapply nth_error_In. exact Hk. }
  apply remove_from_ptr_size_inv; [apply (inv_ptr s HI)|apply name_ok_ptr, Hcn|].
  rewrite (inv_ptr_sum s HI).
  pose proof (total_replace w_ptr q (root s) (Dir dn dl (remove_at k kids)) _ Hsub) as E.
  pose proof (total_nonneg w_ptr w_ptr_nonneg (replace q (Dir dn dl (remove_at k kids)) (root s))) as N.
  rewrite !total_dir, (totals_remove_at _ kids k _ Hk), total_dir in E.
  pose proof (totals_nonneg w_ptr w_ptr_nonneg ckids) as N'.
  pose proof (w_ptr_nonneg true cn cdl) as N''.
  cbn [w_ptr] in *. lia.
Qed.

Lemma step_rm_dir_inv s p : Inv s -> Inv (fst (step_rm_dir s p)).
Proof.
  intros HI. unfold step_rm_dir, refuse. cbv zeta.
  destruct (unsnoc p) as [[q y]|]; [|exact HI].
  destruct (subtree q (root s)) as [[fn fl|dn dl kids]|] eqn:Hsub; try exact HI.
  destruct (lookup y kids) as [[k [cn len|cn cdl [|c0 ckids]]]|] eqn:Hl; try exact HI.
  apply lookup_spec in Hl. destruct Hl as (Hk & _ & _).
  destruct (rm_dir_ptr_ok s q dn dl kids k cn cdl [] HI Hsub Hk) as (b & pe & Hr & Hp1 & Hp3 & Hp4).
  rewrite Hr. destruct (found_dir s q dn dl kids HI Hsub) as [Hd HF].
  cbn [fst]. unfold dir_st. set (names := map name_of kids) in *.
  apply (update_inv s q dn dl kids _ _ _ _ _ HI Hsub).
  - apply all_ok_dir. split.
    + rewrite map_remove_at. fold names. apply dir_ok_remove, Hd.
    + apply Forall_remove_at, HF.
  - exact Hp1.
  - rewrite (totals_remove_at _ kids k _ Hk), total_leaf_dir. cbn [w_ptr]. lia.
  - rewrite !(totals_remove_at _ kids k _ Hk), !total_leaf_dir, dlen_remove.
    cbn [w_dblk w_fblk st_of dlen].
    destruct (grow_cases (rm_underflows (st_of dl names) (2 + k))) as [E|E];
      rewrite E; destruct b; unfold ceiling_div, C; lia.
Qed.

Theorem step_preserves_inv s o : Inv s -> Inv (fst (step s o)).
Proof.
  destruct o; cbn [step];
    [apply step_add_file_inv|apply step_add_dir_inv|apply step_rm_file_inv|apply step_rm_dir_inv].
Qed.

(* ---- 4. arbitrary edit histories ----------------------------------------------------------- *)

Theorem run_inv_from ops : forall s, Inv s -> Inv (run s ops).
Proof.
  unfold run. induction ops as [|o r IH]; intros s HI; cbn [fold_left]; [exact HI|].
  apply IH, step_preserves_inv, HI.
Qed.

Theorem run_inv ops : Inv (run init ops).
Proof. apply run_inv_from, init_ok. Qed.

(* the declared volume size is exactly the end of the from-scratch extent assignment *)
Theorem C04_declared_size_is_exact ops : space (run init ops) = layout_end (run init ops).
Proof. apply inv_space, run_inv. Qed.

(* ... and the 'should never happen' exception of remove_from_ptr_size is never reached *)
Theorem C04_ptr_exception_unreachable ops q dn dl kids y k cn cdl ckids :
  let s := run init ops in
  subtree q (root s) = Some (Dir dn dl kids) -> lookup y kids = Some (k, Dir cn cdl ckids) ->
  remove_from_ptr_size (ptr_size s) (ptr_ext s) (ptr_record_length (zlen cn)) <> None.
Proof.
  intros s Hsub Hl. apply lookup_spec in Hl. destruct Hl as (Hk & _ & _).
  destruct (rm_dir_ptr_ok s q dn dl kids k cn cdl ckids (run_inv ops) Hsub Hk) as (b & pe & Hr & _).
  rewrite Hr. discriminate.
Qed.

(* ---- 5. objects are pairwise disjoint and inside the declared volume ----------------------- *)

Lemma bfs_all_ok : forall fuel queue, Forall all_ok queue -> Forall all_ok (bfs fuel queue).
Proof.
  induction fuel as [|f IH]; intros queue HQ; cbn [bfs]; [constructor|].
  destruct queue as [|n q]; [constructor|]. inversion HQ as [|? ? Hn Hq]; subst.
  constructor; [exact Hn|]. apply IH, Forall_app. split; [exact Hq|].
  destruct n as [nm len|nm dl kids]; cbn [kids_of]; [constructor|].
  apply all_ok_dir in Hn. apply Hn.
Qed.

(* every directory has at least one block *)
Lemma dir_ok_dlen dl names : dir_ok dl names -> C <= dl.
Proof.
  intros ((_ & Hle) & _ & Hn).
  assert (HS : sized C (recs (st_of dl names))).
  { cbn [st_of recs]. unfold sized, C. constructor; [lia|]. constructor; [lia|].
    apply Forall_map. eapply Forall_impl; [|exact Hn]. intros nm [H _]. lia. }
  pose proof (num_extents_lower C _ ltac:(unfold C; lia) HS) as (H1 & _).
  cbn [st_of dlen recs] in *. unfold C in *. lia.
Qed.

Lemma obj_size_nonneg n : all_ok n -> 0 <= obj_size n.
Proof.
  destruct n as [nm len|nm dl kids]; intros H; cbn [obj_size].
  - cbn [all_ok] in H. unfold file_ok in H. apply ceiling_div_nonneg; unfold C; lia.
  - apply all_ok_dir in H. destruct H as [H _]. apply dir_ok_dlen in H.
    apply ceiling_div_nonneg; unfold C in *; lia.
Qed.

Lemma objects_nonneg s : Inv s -> Forall (fun z => 0 <= z) (objects s).
Proof.
  intros HI. unfold objects.
  assert (He : 0 <= ptr_ext s).
  { destruct (inv_ptr s HI) as [H0 He]. pose proof (ceiling_div_nonneg (ptr_size s) 4096). lia. }
  assert (HV : Forall all_ok (visit s)).
  { apply bfs_all_ok. constructor; [apply (inv_tree s HI)|constructor]. }
  repeat (constructor; [lia|]). apply Forall_app. split.
  - apply Forall_map. rewrite Forall_forall in *. intros n Hn. apply filter_In in Hn.
    apply obj_size_nonneg, HV, Hn.
  - apply Forall_map. rewrite Forall_forall in *. intros n Hn. apply filter_In in Hn.
    apply obj_size_nonneg, HV, Hn.
Qed.

Theorem objects_disjoint s : Inv s ->
  ForallOrdPairs disjoint (layout s) /\
  Forall (fun iv => 0 <= fst iv /\ fst iv + snd iv <= space s) (layout s).
Proof.
  intros HI. pose proof (objects_nonneg s HI) as HN. unfold layout. split.
  - apply bump_disjoint, HN.
  - rewrite (inv_space s HI). apply bump_inside, HN.
Qed.

Corollary C04_objects_disjoint_and_inside ops :
  let s := run init ops in
  ForallOrdPairs disjoint (layout s) /\
  Forall (fun iv => 0 <= fst iv /\ fst iv + snd iv <= space s) (layout s).
Proof. apply objects_disjoint, run_inv. Qed.

(* ---- 6. a refused operation leaves the state unchanged ------------------------------------- *)

Ltac break_match :=
  repeat match goal with
         | |- context [match ?x with _ => _ end] => destruct x
         end.

Lemma refused_fst s o : snd (step s o) = false -> fst (step s o) = s.
Proof.
  destruct o; cbn [step];
    unfold step_add_file, step_add_dir, step_rm_file, step_rm_dir, refuse; cbv zeta;
    break_match; cbn [fst snd]; intros H; try reflexivity; discriminate.
Qed.

Theorem refused_unchanged s o s' : step s o = (s', false) -> s' = s.
Proof.
  intros H. pose proof (refused_fst s o) as R. rewrite H in R. cbn [fst snd] in R.
  apply R. reflexivity.
Qed.

(* ---- 7. non-vacuity ------------------------------------------------------------------------ *)

(* the fresh image, as PyCdlib.new(interchange_level=3) reports it: space_size 24, path_tbl_size
   10, path_table_num_extents 2, root data_length 2048, no file; objects: system area, PVD,
   terminator, version block, L table, M table, root directory *)
Example init_values :
  probe init = [24; 10; 2; 2048; 0] /\ layout_end init = 24 /\
  objects init = [16; 1; 1; 1; 2; 2; 1] /\
  layout init = [(0, 16); (16, 1); (17, 1); (18, 1); (19, 2); (21, 2); (23, 1)].
Proof. vm_compute. repeat split; reflexivity. Qed.

(* 37 operations (8 of them refused): twelve files with 202-byte names (dr_len 236) of lengths
   0, 1000, ..., 11000 make the root directory grow to two blocks at the ninth; a sub-tree /D/E
   with one file; then everything is removed again and the root shrinks back to one block.
   Library-checked copies of this and other histories are in Proofs/AccountTraces.v. *)
Definition ex_name (i : nat) : ident := repeat 78 199 ++ [65 + Z.of_nat i; 59; 49].
Definition ex_D : ident := [68].
Definition ex_E : ident := [69].
Definition ex_X : ident := [88; 46; 84; 88; 84; 59; 49].            (* X.TXT;1 *)
Definition ex_ops : list op :=
  map (fun i => AddFile [] (ex_name i) (Z.of_nat i * 1000)) (seq 0 12)
  ++ [AddFile [] (ex_name 3) 9;                                     (* duplicate *)
      AddDir [] ex_D; AddDir [ex_D] ex_E;
      AddDir [ex_D; [90]] ex_E;                                     (* no such parent *)
      AddFile [ex_D; ex_E] ex_X 7;
      AddFile [ex_D; ex_E] [120] 7;                                 (* lower case *)
      RmDir [ex_D];                                                 (* not empty *)
      RmFile [] ex_D;                                               (* a directory *)
      RmDir []]                                                     (* the root *)
  ++ map (fun i => RmFile [] (ex_name i)) [0; 5; 11; 2; 8; 3; 7]%nat
  ++ [RmFile [] (ex_name 3);                                        (* already removed *)
      RmFile [ex_D; ex_E] ex_X; RmDir [ex_D; ex_E]; RmDir [ex_D]]
  ++ map (fun i => RmFile [] (ex_name i)) [1; 4; 6; 9; 10]%nat.

Example ex_history :
  length ex_ops = 37%nat /\
  (* (space, layout_end) after every operation *)
  run_ends ex_ops =
    [(24, 24); (25, 25); (26, 26); (28, 28); (30, 30); (33, 33); (36, 36); (40, 40); (45, 45);
     (50, 50); (55, 55); (61, 61); (61, 61); (62, 62); (63, 63); (63, 63); (64, 64); (64, 64);
     (64, 64); (64, 64); (64, 64); (64, 64); (61, 61); (55, 55); (53, 53); (49, 49); (47, 47);
     (43, 43); (43, 43); (42, 42); (41, 41); (40, 40); (39, 39); (37, 37); (34, 34); (29, 29);
     (24, 24)] /\
  run_flags ex_ops =
    [true; true; true; true; true; true; true; true; true; true; true; true; false; true; true;
     false; true; false; false; false; false; true; true; true; true; true; true; true; false;
     true; true; true; true; true; true; true; true] /\
  (* sum of the directory data_lengths: the root is 4096 from the 9th file until 5 are left *)
  map (fun p => nth 3 p 0) (run_probe ex_ops) =
    [2048; 2048; 2048; 2048; 2048; 2048; 2048; 2048; 4096; 4096; 4096; 4096; 4096; 6144; 8192;
     8192; 8192; 8192; 8192; 8192; 8192; 8192; 8192; 8192; 6144; 6144; 6144; 6144; 6144; 6144;
     4096; 2048; 2048; 2048; 2048; 2048; 2048] /\
  probe (run init ex_ops) = [24; 10; 2; 2048; 0] /\
  (* the state after the 17th operation: root (2 blocks), D, E, eleven non-empty files, X.TXT *)
  probe (run init (firstn 17 ex_ops)) = [64; 30; 2; 8192; 13] /\
  layout (run init (firstn 17 ex_ops)) =
    [(0, 16); (16, 1); (17, 1); (18, 1); (19, 2); (21, 2); (23, 2); (25, 1); (26, 1); (27, 1);
     (28, 1); (29, 2); (31, 2); (33, 3); (36, 3); (39, 4); (43, 4); (47, 5); (52, 5); (57, 6);
     (63, 1)].
Proof. vm_compute. repeat split; reflexivity. Qed.

(* the theorems apply to it (and say the same thing) *)
Example ex_history_inv :
  Inv (run init ex_ops) /\ space (run init (firstn 17 ex_ops)) = 64 /\
  layout_end (run init (firstn 17 ex_ops)) = 64.
Proof.
  split; [apply run_inv|]. rewrite <- C04_declared_size_is_exact. split; vm_compute; reflexivity.
Qed.

Print Assumptions init_ok.
Print Assumptions step_preserves_inv.
Print Assumptions run_inv.
Print Assumptions C04_declared_size_is_exact.
Print Assumptions C04_ptr_exception_unreachable.
Print Assumptions C04_objects_disjoint_and_inside.
Print Assumptions refused_unchanged.
Print Assumptions ptr_sum_root.
Print Assumptions ex_history.
Print Assumptions ex_history_inv.
