(* C12 / C02 -- theorems about Model/HybridParse.v (reopening a hybrid image). *)
From Coq Require Import ZArith List Bool Arith Lia.
From PV.Base Require Import Prim.
From PV.Gen Require Import GenConst GenFun.
From PV.Model Require Import Names Pack Alloc Codec Eltorito Account AccountLinks AccountBoot Hybrid HybridHist
     HybridParse.
From PV.Proofs Require Import CodecProofs HybridProofs HybridHistProofs.
Import ListNotations.
Local Open Scope Z_scope.

(* ---- 1. round trip of a hybrid without EFI, every object ----------------------------------------- *)

Lemma hp_head_slice (b rest : list Z) : length b = 512%nat -> exists rest', slice 0 32768 (b ++ rest) = b ++ rest'.
Proof.
  intros Hl. unfold slice. change (Z.to_nat 0) with 0%nat. cbn [skipn].
  assert (Hn : (length b <= Z.to_nat (32768 - 0))%nat).
  { rewrite Hl. apply Nat2Z.inj_le. rewrite Z2Nat.id by lia. lia. }
  rewrite firstn_app. rewrite (firstn_all2 b) by exact Hn.
  eexists. reflexivity.
Qed.

(* BEFORE f7c6de3: open(write(y)) for a hybrid without efi gave every field back except
   geometry_sectors, re-derived as min(psize // ((ecyle + 1) * heads), 63) = Hybrid.parsed_sectors *)
Theorem hp_reopen_roundtrip_old y iso :
  ih_wf (hy_ih y) -> ih_efi (hy_ih y) = false ->
  ih_heads (hy_ih y) * ih_sectors (hy_ih y) * 512 <> 0 -> record_ok y iso = true ->
  hp_reopen_old y iso =
  OHy (mk_hy (ih_set_sectors (hy_ih y) (parsed_sectors (hy_ih y) iso)) (empty_gpt true) (empty_gpt false)).
Proof.
  intros W He Hg Hr. unfold hp_reopen_old, hp_reopen_gen, hp_written.
  destruct (ih_heads (hy_ih y) * ih_sectors (hy_ih y) * 512 =? 0) eqn:E0; [apply Z.eqb_eq in E0; contradiction|].
  unfold record_ok in Hr. unfold hy_record in *. destruct (ih_record_mbr (hy_ih y) iso) as [b|] eqn:Eb; [|discriminate].
  rewrite He in *. unfold hp_open_gen, hp_read. cbn [im_head im_sec_at im_sec im_len].
  change (0 <? 0) with false. change (0 <=? -1) with false. cbn [andb]. change (0 + 32768) with 32768.
  change (32768 <=? 32768) with true. cbv iota.
  pose proof (mbr_length _ _ _ Eb) as Hl.
  destruct (hp_head_slice b (repeat 0 (Z.to_nat (32768 - zlen b))) Hl) as [rest' Hs]. rewrite Hs.
  unfold hp_parse_gen, hp_parse_mbr. rewrite (mbr_roundtrip _ _ _ rest' W Eb).
  destruct (hy_ih y); cbn [ih_set_sectors Hybrid.ih_efi] in *. rewrite He. reflexivity.
Qed.

(* byte 6 of the active entry is the end sector: sectors + the two high bits of cc - 1 *)
Lemma hp_esect h iso b rest : ih_wf h -> ih_record_mbr h iso = Some b ->
  nth 6 (active_entry (b ++ rest) (ih_part_entry h)) 0 = chs_esect (ih_sectors h) (ih_cc h iso).
Proof.
  intros (_ & _ & Wpe & We & Wm & _) Eb. pose proof (mbr_length _ _ _ Eb) as Hl.
  unfold active_entry. rewrite (firstn_app_exact 512 b rest Hl).
  destruct (mbr_layout _ _ _ Eb) as (_ & _ & Hk). specialize (Hk (ih_part_entry h) Wpe).
  change (slice (446 + 16 * (ih_part_entry h - 1)) (446 + 16 * ih_part_entry h) b)
    with (mbr_entry_at b (ih_part_entry h)).
  unfold ih_entry in Hk. rewrite Z.eqb_refl in Hk.
  assert (H2 : (ih_part_entry h =? 2) && ih_efi h = false).
  { destruct (ih_efi h); [|apply andb_false_r]. rewrite andb_true_r. apply Z.eqb_neq. apply We. reflexivity. }
  assert (H3 : (ih_part_entry h =? 3) && ih_mac h = false).
  { destruct (ih_mac h); [|apply andb_false_r]. rewrite andb_true_r. apply Z.eqb_neq. apply Wm. reflexivity. }
  rewrite H2, H3 in Hk. destruct (ih_part_raw h iso) as [raw|] eqn:Ep; [|discriminate].
  injection Hk as Hk. rewrite <- Hk. unfold ih_part_raw in Ep. destruct (_ && _); [|discriminate].
  injection Ep as <-. reflexivity.
Qed.

(* f7c6de3: open(write(y)) gives back EVERY field of a hybrid without efi that add_isohybrid can make
   (1 <= sectors <= 63, 1 <= heads <= 256), for every part_offset, part_entry and image size -- above
   256 and above 1024 cylinders too *)
Theorem hp_reopen_roundtrip y iso :
  ih_wf (hy_ih y) -> ih_efi (hy_ih y) = false ->
  1 <= ih_sectors (hy_ih y) <= 63 -> 1 <= ih_heads (hy_ih y) <= 256 -> 0 < iso -> record_ok y iso = true ->
  hp_reopen y iso = OHy (mk_hy (hy_ih y) (empty_gpt true) (empty_gpt false)).
Proof.
  intros W He Hs Hh Hiso Hr. unfold hp_reopen, hp_reopen_gen, hp_written.
  destruct (ih_heads (hy_ih y) * ih_sectors (hy_ih y) * 512 =? 0) eqn:E0; [apply Z.eqb_eq in E0; nia|].
  unfold record_ok in Hr. unfold hy_record in *. destruct (ih_record_mbr (hy_ih y) iso) as [b|] eqn:Eb; [|discriminate].
  rewrite He in *. unfold hp_open_gen, hp_read. cbn [im_head im_sec_at im_sec im_len].
  change (0 <? 0) with false. change (0 <=? -1) with false. cbn [andb]. change (0 + 32768) with 32768.
  change (32768 <=? 32768) with true. cbv iota.
  pose proof (mbr_length _ _ _ Eb) as Hl.
  destruct (hp_head_slice b (repeat 0 (Z.to_nat (32768 - zlen b))) Hl) as [rest' Hsl]. rewrite Hsl.
  unfold hp_parse_gen, hp_parse_mbr. rewrite (mbr_roundtrip _ _ _ rest' W Eb).
  replace (ih_part_entry (ih_set_sectors (hy_ih y) (parsed_sectors (hy_ih y) iso))) with (ih_part_entry (hy_ih y))
    by (destruct (hy_ih y); reflexivity).
  rewrite (hp_esect _ _ _ rest' W Eb).
  assert (Hcc : 1 <= ih_cc (hy_ih y) iso <= 1024) by (unfold ih_cc; apply cc_range; lia).
  destruct (chs_end_decodes (ih_cc (hy_ih y) iso) (ih_heads (hy_ih y)) (ih_sectors (hy_ih y)) Hcc Hh Hs) as [Hd _].
  unfold chs_decode in Hd. injection Hd as _ Hland. rewrite Hland.
  destruct (ih_sectors (hy_ih y) =? 0) eqn:Ez; [apply Z.eqb_eq in Ez; lia|].
  destruct (hy_ih y); cbn [ih_set_sectors Hybrid.ih_efi Hybrid.ih_sectors] in *. rewrite He. reflexivity.
Qed.

(* hence every such image reopens as a hybrid, and writing the reopened object gives the same bytes *)
Theorem hp_reopen_always_opens y iso :
  ih_wf (hy_ih y) -> ih_efi (hy_ih y) = false ->
  1 <= ih_sectors (hy_ih y) <= 63 -> 1 <= ih_heads (hy_ih y) <= 256 -> 0 < iso -> record_ok y iso = true ->
  exists y', hp_reopen y iso = OHy y'.
Proof. intros. eexists. apply hp_reopen_roundtrip; assumption. Qed.

Theorem hp_rewrite_identical y iso :
  ih_wf (hy_ih y) -> ih_efi (hy_ih y) = false ->
  1 <= ih_sectors (hy_ih y) <= 63 -> 1 <= ih_heads (hy_ih y) <= 256 -> 0 < iso -> record_ok y iso = true ->
  forall y', hp_reopen y iso = OHy y' -> hy_record y' iso = hy_record y iso /\ image_len y' iso = image_len y iso.
Proof.
  intros W He Hs Hh Hiso Hr y' H. rewrite (hp_reopen_roundtrip y iso W He Hs Hh Hiso Hr) in H.
  injection H as <-. unfold hy_record, image_len. cbn [hy_ih]. rewrite He. split; reflexivity.
Qed.

(* ---- concrete objects --------------------------------------------------------------------------- *)

Definition mk_plain (pe po gs gh : Z) : option hybrid :=
  match hy_new false false pe 7 po gs gh 23 (fst hh_noguid) (snd hh_noguid) with
  | Some y => Some (hy_update_rba y 26)
  | None => None
  end.

Definition reopened_geometry_gen (fs : bool) (o : option hybrid) (iso : Z) : list Z :=
  match o with
  | Some y => match hp_reopen_gen fs y iso with
              | OHy y' => [ih_heads (hy_ih y'); ih_sectors (hy_ih y'); b2z (hp_rewrite_same_gen fs y iso)]
              | _ => [-1]
              end
  | None => [-2]
  end.
Definition reopened_geometry := reopened_geometry_gen true.
Definition reopened_geometry_old := reopened_geometry_gen false.

(* BEFORE f7c6de3 open + write was NOT a fixpoint.  [heads; sectors; rewrite identical] of the reopened object:
   (a) 64x32, part_offset 1: sectors 31;  (b) 1x32, 309 cylinders (> 256): sectors 63;
   (c) 1x1, 1280 cylinders (clamped at 1024): sectors 4;  while (d) 64x32, (e) 256x63, (f) 255x63 and
   (g) part_entry 4 with offset 0 and few cylinders were fixpoints.
   Reproduction (on the tree before f7c6de3): /var/tmp/hybridhist/repro_reopen.py *)
Theorem hp_rewrite_identical_old_refuted :
  reopened_geometry_old (mk_plain 1 1 32 64) 110592 = [64; 31; 0] /\
  reopened_geometry_old (mk_plain 1 0 32 1) 5062656 = [1; 63; 0] /\
  reopened_geometry_old (mk_plain 1 0 1 1) 655360 = [1; 4; 0] /\
  reopened_geometry_old (mk_plain 1 0 32 64) 110592 = [64; 32; 1] /\
  reopened_geometry_old (mk_plain 1 0 63 256) 110592 = [256; 63; 1] /\
  reopened_geometry_old (mk_plain 1 0 63 255) 110592 = [255; 63; 1] /\
  reopened_geometry_old (mk_plain 4 0 32 64) 110592 = [64; 32; 1].
Proof. vm_compute. repeat split. Qed.
(* the same objects (and offsets on tiny geometries) under the current rule: all fixpoints *)
Theorem hp_rewrite_identical_witnesses :
  reopened_geometry (mk_plain 1 1 32 64) 110592 = [64; 32; 1] /\
  reopened_geometry (mk_plain 1 0 32 1) 5062656 = [1; 32; 1] /\
  reopened_geometry (mk_plain 1 0 1 1) 655360 = [1; 1; 1] /\
  reopened_geometry (mk_plain 1 16 1 1) 110592 = [1; 1; 1] /\
  reopened_geometry (mk_plain 1 0 63 256) 110592 = [256; 63; 1] /\
  reopened_geometry (mk_plain 4 64 63 255) 110592 = [255; 63; 1].
Proof. vm_compute. repeat split. Qed.

(* BEFORE f7c6de3 a reopened object could have geometry_sectors = 0 (1x1, part_offset 16): write_fp of it
   raised ZeroDivisionError in _calc_cc ([hp_written] = None) *)
Theorem hp_reopened_zero_sectors_old :
  match mk_plain 1 16 1 1 with
  | Some y => match hp_reopen_old y 110592 with
              | OHy y' => ih_sectors (hy_ih y') = 0 /\ hp_written y' 110592 = None
              | _ => False
              end
  | None => False
  end.
Proof. vm_compute. split; reflexivity. Qed.

(* ---- histories of Model/HybridHist.v ------------------------------------------------------------- *)

Definition reopen_of (ops : list hop) : open_res :=
  let s := hrun hinit ops in
  match hhyb s with Some y => hp_reopen y (iso_size_of s) | None => ONone end.
Definition written_fields (ops : list hop) : list (list Z) :=
  match hhyb (hrun hinit ops) with Some y => hp_fields y | None => [] end.
Definition rewrite_same_of (ops : list hop) : bool :=
  let s := hrun hinit ops in
  match hhyb s with Some y => hp_rewrite_same y (iso_size_of s) | None => false end.

(* EFI + Mac (HybridHistProofs.w_two_names, default geometry, offset 0): every field of the MBR, both GPT
   headers, both entry arrays and the APM comes back, and open + write is a fixpoint *)
Theorem hp_reopen_roundtrip_efi_mac :
  open_fields (reopen_of w_two_names) = written_fields w_two_names /\
  length (written_fields w_two_names) = 7%nat /\ rewrite_same_of w_two_names = true.
Proof. vm_compute. repeat split. Qed.

(* BEFORE d0ed30b (HybridHist rule [true false]) part_entry = 2 with efi was accepted: the written table
   had no 0x80 entry and open_fp raised 'No valid partition found in IsoHybrid!'.  Now add_isohybrid
   refuses it (and part_entry 0 / 5, and 3 with mac), nothing changed. *)
Definition w_pe2_efi :=
  h_boot ++ h_efi n_efi ++ [HAddHybrid 2 7 0 32 64 None false (Some true) hh_noguid; HWrite].
Theorem hp_reopen_no_active_entry_old :
  let s := hrun_old2 hinit w_pe2_efi in
  match hhyb s with Some y => hp_reopen y (iso_size_of s) = ORaise | None => False end.
Proof. vm_compute. reflexivity. Qed.
Theorem hp_part_entry_refused :
  let pre := h_boot ++ h_efi n_efi ++ h_efi n_efi2 in
  let s := hrun hinit pre in
  map (fun o => out_code (snd (hstep s o)))
      [HAddHybrid 2 7 0 32 64 None false (Some true) hh_noguid;
       HAddHybrid 3 7 0 32 64 None true (Some true) hh_noguid;
       HAddHybrid 0 7 0 32 64 None false None hh_noguid;
       HAddHybrid 5 7 0 32 64 None false None hh_noguid;
       HAddHybrid 3 7 0 32 64 None false (Some true) hh_noguid;
       HAddHybrid 2 7 0 32 64 None false None hh_noguid] = [0; 0; 0; 0; 1; 1].
Proof. vm_compute. reflexivity. Qed.

(* ---- 3. what parse refuses ------------------------------------------------------------------------ *)

Definition mbr_bytes (o : option hybrid) (iso : Z) : list Z :=
  match o with Some y => match hy_record y iso with Some b => b | None => [] end | None => [] end.
Definition set_byte (k : nat) (v : Z) (l : list Z) : list Z := firstn k l ++ [v] ++ skipn (S k) l.

Theorem hp_parse_rejects :
  let b := mbr_bytes (mk_plain 1 0 32 64) 110592 in
  hp_parse (repeat 0 32768) = HFalse /\                    (* a zero system area: not a hybrid *)
  hp_parse (set_byte 0 0 b) = HFalse /\                    (* neither ORIG_HEADER nor MAC_AFP *)
  hp_parse (firstn 511 b) = HRaise /\                      (* less than 512 bytes *)
  hp_parse (set_byte 436 1 b) = HRaise /\                  (* unused1 <> 0 *)
  hp_parse (set_byte 444 1 b) = HRaise /\                  (* unused2 <> 0 *)
  hp_parse (set_byte 446 0 b) = HRaise /\                  (* no entry with 0x80 *)
  hp_parse (set_byte 511 0 b) = HRaise /\                  (* tail is not 55 aa *)
  (exists y, hp_parse b = HOk y).
Proof. vm_compute. repeat split. eexists. reflexivity. Qed.

Theorem hp_open_plain_image : forall n, hp_open (mk_img (repeat 0 32768) (-1) [] n) = ONone.
Proof. intros n. vm_compute. reflexivity. Qed.

(* ---- 4. an edit after the reopen ------------------------------------------------------------------- *)

(* EFI + Mac image reopened, a directory added (every boot file moves one extent up), written: the
   MBR rba, the EFI / Mac slots and GPT partitions 2 / 3 of both arrays follow the entries *)
Theorem hp_edit_after_reopen :
  let s := hrun hinit w_two_names in
  let s2 := hrun (set_hyb s (reopen_of w_two_names)) [HBase (BAddDir [] [68]); HWrite] in
  entry_rbas (hb s2) = [27; 28; 30] /\
  option_map v_rba (hybrid_view s2) = Some 108 /\
  option_map v_efi (hybrid_view s2) = Some [112; 8] /\
  option_map v_mac (hybrid_view s2) = Some [120; 12] /\
  option_map (fun v => skipn 2 (v_pri_parts v)) (hybrid_view s2) = Some [112; 119; 120; 131] /\
  option_map (fun v => skipn 2 (v_sec_parts v)) (hybrid_view s2) = Some [112; 119; 120; 131].
Proof. vm_compute. repeat split. Qed.

(* rm_isohybrid on the reopened object, then add_isohybrid again (new geometry), written *)
Theorem hp_rm_add_after_reopen :
  let s := hrun hinit w_two_names in
  let s2 := hrun (set_hyb s (reopen_of w_two_names))
                 [HRmHybrid; HAddHybrid 1 9 0 63 255 None false (Some true) hh_noguid; HWrite] in
  option_map v_efi (hybrid_view s2) = Some [108; 8] /\ option_map v_mac (hybrid_view s2) = Some [] /\
  option_map v_len (hybrid_view s2) = Some 8225280.
Proof. vm_compute. repeat split. Qed.

Print Assumptions hp_reopen_roundtrip_old.
Print Assumptions hp_reopen_roundtrip.
Print Assumptions hp_reopen_always_opens.
Print Assumptions hp_rewrite_identical.
Print Assumptions hp_rewrite_identical_old_refuted.
Print Assumptions hp_rewrite_identical_witnesses.
Print Assumptions hp_reopened_zero_sectors_old.
Print Assumptions hp_reopen_roundtrip_efi_mac.
Print Assumptions hp_reopen_no_active_entry_old.
Print Assumptions hp_part_entry_refused.
Print Assumptions hp_parse_rejects.
Print Assumptions hp_open_plain_image.
Print Assumptions hp_edit_after_reopen.
Print Assumptions hp_rm_add_after_reopen.
