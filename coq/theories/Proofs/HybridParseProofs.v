(* C12 / C02 -- theorems about Model/HybridParse.v (reopening a hybrid image). *)
From Coq Require Import ZArith List Bool Arith Lia.
From PV.Base Require Import Prim.
From PV.Gen Require Import GenConst GenFun.
From PV.Model Require Import Names Pack Alloc Codec Eltorito Account AccountLinks AccountBoot Hybrid HybridHist
     HybridParse.
From PV.Proofs Require Import HybridProofs HybridHistProofs.
Import ListNotations.
Local Open Scope Z_scope.

(* ---- 1. round trip of a hybrid without EFI, every object ----------------------------------------- *)

Lemma hp_head_slice (b rest : list Z) : length b = 512%nat -> exists rest', slice 0 32768 (b ++ rest) = b ++ rest'.
Proof.
  intros Hl. unfold slice. change (Z.to_nat 0) with 0%nat. cbn [skipn].
  assert (Hn : (length b <= Z.to_nat (32768 - 0))%nat).
  { rewrite Hl. apply Nat2Z.inj_le. rewrite Z2Nat.id by lia. lia. }
  rewrite firstn_app. rewrite (firstn_all2 b) by exact Hn.
  eexists. reflexivity.
Qed.

(* open(write(y)) for a hybrid without efi: EVERY field comes back except geometry_sectors, which
   is re-derived as min(psize // ((ecyle + 1) * heads), 63) = Hybrid.parsed_sectors *)
Theorem hp_reopen_roundtrip y iso :
  ih_wf (hy_ih y) -> ih_efi (hy_ih y) = false ->
  ih_heads (hy_ih y) * ih_sectors (hy_ih y) * 512 <> 0 -> record_ok y iso = true ->
  hp_reopen y iso =
  OHy (mk_hy (ih_set_sectors (hy_ih y) (parsed_sectors (hy_ih y) iso)) (empty_gpt true) (empty_gpt false)).
Proof.
  intros W He Hg Hr. unfold hp_reopen, hp_written.
  destruct (ih_heads (hy_ih y) * ih_sectors (hy_ih y) * 512 =? 0) eqn:E0; [apply Z.eqb_eq in E0; contradiction|].
  unfold record_ok in Hr. unfold hy_record in *. destruct (ih_record_mbr (hy_ih y) iso) as [b|] eqn:Eb; [|discriminate].
  rewrite He in *. unfold hp_open, hp_read. cbn [im_head im_sec_at im_sec im_len].
  change (0 <? 0) with false. change (0 <=? -1) with false. cbn [andb]. change (0 + 32768) with 32768.
  change (32768 <=? 32768) with true. cbv iota.
  pose proof (mbr_length _ _ _ Eb) as Hl.
  destruct (hp_head_slice b (repeat 0 (Z.to_nat (32768 - zlen b))) Hl) as [rest' Hs]. rewrite Hs.
  unfold hp_parse. rewrite (mbr_roundtrip _ _ _ rest' W Eb).
  destruct (hy_ih y); cbn [ih_set_sectors Hybrid.ih_efi] in *. rewrite He. reflexivity.
Qed.

(* ... and geometry_sectors too exactly when part_offset = 0 and at most 256 cylinders: then the
   reopened object IS the written one and a second write gives the same bytes *)
Theorem hp_reopen_roundtrip_exact y iso :
  ih_wf (hy_ih y) -> ih_efi (hy_ih y) = false -> 1 <= ih_sectors (hy_ih y) <= 63 -> 0 < ih_heads (hy_ih y) ->
  ih_part_offset (hy_ih y) = 0 -> 1 <= ih_cc (hy_ih y) iso <= 256 -> record_ok y iso = true ->
  hp_reopen y iso = OHy (mk_hy (hy_ih y) (empty_gpt true) (empty_gpt false)).
Proof.
  intros W He Hs Hh Hpo Hcc Hr. rewrite (hp_reopen_roundtrip y iso W He ltac:(nia) Hr).
  rewrite (parsed_sectors_exact _ _ W Hs Hh Hpo Hcc). destruct (hy_ih y); reflexivity.
Qed.

(* ---- concrete objects --------------------------------------------------------------------------- *)

Definition mk_plain (pe po gs gh : Z) : option hybrid :=
  match hy_new false false pe 7 po gs gh 23 (fst hh_noguid) (snd hh_noguid) with
  | Some y => Some (hy_update_rba y 26)
  | None => None
  end.

Definition reopened_geometry (o : option hybrid) (iso : Z) : list Z :=
  match o with
  | Some y => match hp_reopen y iso with
              | OHy y' => [ih_heads (hy_ih y'); ih_sectors (hy_ih y'); b2z (hp_rewrite_same y iso)]
              | _ => [-1]
              end
  | None => [-2]
  end.

(* 2. open + write is NOT a fixpoint: REFUTED.  [heads; sectors; rewrite identical] of the reopened object:
   (a) 64x32, part_offset 1: sectors 31;  (b) 1x32, 309 cylinders (> 256): sectors 63;
   (c) 1x1, 1280 cylinders (clamped at 1024): sectors 4;  while (d) 64x32, (e) 256x63, (f) 255x63 and
   (g) part_entry 4 with offset 0 and few cylinders are fixpoints.
   Reproduction: /var/tmp/hybridhist/repro_reopen.py *)
Theorem hp_rewrite_identical_refuted :
  reopened_geometry (mk_plain 1 1 32 64) 110592 = [64; 31; 0] /\
  reopened_geometry (mk_plain 1 0 32 1) 5062656 = [1; 63; 0] /\
  reopened_geometry (mk_plain 1 0 1 1) 655360 = [1; 4; 0] /\
  reopened_geometry (mk_plain 1 0 32 64) 110592 = [64; 32; 1] /\
  reopened_geometry (mk_plain 1 0 63 256) 110592 = [256; 63; 1] /\
  reopened_geometry (mk_plain 1 0 63 255) 110592 = [255; 63; 1] /\
  reopened_geometry (mk_plain 4 0 32 64) 110592 = [64; 32; 1].
Proof. vm_compute. repeat split. Qed.

(* the fixpoint under the exact condition, for a hybrid without efi *)
Theorem hp_rewrite_identical_partial y iso :
  ih_wf (hy_ih y) -> ih_efi (hy_ih y) = false -> 1 <= ih_sectors (hy_ih y) <= 63 -> 0 < ih_heads (hy_ih y) ->
  ih_part_offset (hy_ih y) = 0 -> 1 <= ih_cc (hy_ih y) iso <= 256 -> record_ok y iso = true ->
  forall y', hp_reopen y iso = OHy y' -> hy_record y' iso = hy_record y iso /\ image_len y' iso = image_len y iso.
Proof.
  intros W He Hs Hh Hpo Hcc Hr y' H. rewrite (hp_reopen_roundtrip_exact y iso W He Hs Hh Hpo Hcc Hr) in H.
  injection H as <-. unfold hy_record, image_len. cbn [hy_ih]. rewrite He. split; reflexivity.
Qed.

(* a reopened object can have geometry_sectors = 0 (1x1, part_offset 16): write_fp of it raises
   ZeroDivisionError in _calc_cc ([hp_written] = None) *)
Theorem hp_reopened_zero_sectors :
  match mk_plain 1 16 1 1 with
  | Some y => match hp_reopen y 110592 with
              | OHy y' => ih_sectors (hy_ih y') = 0 /\ hp_written y' 110592 = None
              | _ => False
              end
  | None => False
  end.
Proof. vm_compute. split; reflexivity. Qed.

(* ---- histories of Model/HybridHist.v ------------------------------------------------------------- *)

Definition reopen_of (ops : list hop) : open_res :=
  let s := hrun hinit ops in
  match hhyb s with Some y => hp_reopen y (iso_size_of s) | None => ONone end.
Definition written_fields (ops : list hop) : list (list Z) :=
  match hhyb (hrun hinit ops) with Some y => hp_fields y | None => [] end.
Definition rewrite_same_of (ops : list hop) : bool :=
  let s := hrun hinit ops in
  match hhyb s with Some y => hp_rewrite_same y (iso_size_of s) | None => false end.

(* EFI + Mac (HybridHistProofs.w_two_names, default geometry, offset 0): every field of the MBR, both GPT
   headers, both entry arrays and the APM comes back, and open + write is a fixpoint *)
Theorem hp_reopen_roundtrip_efi_mac :
  open_fields (reopen_of w_two_names) = written_fields w_two_names /\
  length (written_fields w_two_names) = 7%nat /\ rewrite_same_of w_two_names = true.
Proof. vm_compute. repeat split. Qed.

(* part_entry = 2 with efi: the written table has no 0x80 entry; open_fp raises
   'No valid partition found in IsoHybrid!' -- an image pycdlib wrote and cannot open *)
Definition w_pe2_efi :=
  h_boot ++ h_efi n_efi ++ [HAddHybrid 2 7 0 32 64 None false (Some true) hh_noguid; HWrite].
Theorem hp_reopen_no_active_entry :
  all_acc w_pe2_efi = true /\ reopen_of w_pe2_efi = ORaise.
Proof. vm_compute. split; reflexivity. Qed.

(* ---- 3. what parse refuses ------------------------------------------------------------------------ *)

Definition mbr_bytes (o : option hybrid) (iso : Z) : list Z :=
  match o with Some y => match hy_record y iso with Some b => b | None => [] end | None => [] end.
Definition set_byte (k : nat) (v : Z) (l : list Z) : list Z := firstn k l ++ [v] ++ skipn (S k) l.

Theorem hp_parse_rejects :
  let b := mbr_bytes (mk_plain 1 0 32 64) 110592 in
  hp_parse (repeat 0 32768) = HFalse /\                    (* a zero system area: not a hybrid *)
  hp_parse (set_byte 0 0 b) = HFalse /\                    (* neither ORIG_HEADER nor MAC_AFP *)
  hp_parse (firstn 511 b) = HRaise /\                      (* less than 512 bytes *)
  hp_parse (set_byte 436 1 b) = HRaise /\                  (* unused1 <> 0 *)
  hp_parse (set_byte 444 1 b) = HRaise /\                  (* unused2 <> 0 *)
  hp_parse (set_byte 446 0 b) = HRaise /\                  (* no entry with 0x80 *)
  hp_parse (set_byte 511 0 b) = HRaise /\                  (* tail is not 55 aa *)
  (exists y, hp_parse b = HOk y).
Proof. vm_compute. repeat split. eexists. reflexivity. Qed.

Theorem hp_open_plain_image : forall n, hp_open (mk_img (repeat 0 32768) (-1) [] n) = ONone.
Proof. intros n. vm_compute. reflexivity. Qed.

(* ---- 4. an edit after the reopen ------------------------------------------------------------------- *)

(* EFI + Mac image reopened, a directory added (every boot file moves one extent up), written: the
   MBR rba, the EFI / Mac slots and GPT partitions 2 / 3 of both arrays follow the entries *)
Theorem hp_edit_after_reopen :
  let s := hrun hinit w_two_names in
  let s2 := hrun (set_hyb s (reopen_of w_two_names)) [HBase (BAddDir [] [68]); HWrite] in
  entry_rbas (hb s2) = [27; 28; 30] /\
  option_map v_rba (hybrid_view s2) = Some 108 /\
  option_map v_efi (hybrid_view s2) = Some [112; 8] /\
  option_map v_mac (hybrid_view s2) = Some [120; 12] /\
  option_map (fun v => skipn 2 (v_pri_parts v)) (hybrid_view s2) = Some [112; 119; 120; 131] /\
  option_map (fun v => skipn 2 (v_sec_parts v)) (hybrid_view s2) = Some [112; 119; 120; 131].
Proof. vm_compute. repeat split. Qed.

(* rm_isohybrid on the reopened object, then add_isohybrid again (new geometry), written *)
Theorem hp_rm_add_after_reopen :
  let s := hrun hinit w_two_names in
  let s2 := hrun (set_hyb s (reopen_of w_two_names))
                 [HRmHybrid; HAddHybrid 1 9 0 63 255 None false (Some true) hh_noguid; HWrite] in
  option_map v_efi (hybrid_view s2) = Some [108; 8] /\ option_map v_mac (hybrid_view s2) = Some [] /\
  option_map v_len (hybrid_view s2) = Some 8225280.
Proof. vm_compute. repeat split. Qed.

Print Assumptions hp_reopen_roundtrip.
Print Assumptions hp_reopen_roundtrip_exact.
Print Assumptions hp_rewrite_identical_refuted.
Print Assumptions hp_rewrite_identical_partial.
Print Assumptions hp_reopened_zero_sectors.
Print Assumptions hp_reopen_roundtrip_efi_mac.
Print Assumptions hp_reopen_no_active_entry.
Print Assumptions hp_parse_rejects.
Print Assumptions hp_open_plain_image.
Print Assumptions hp_edit_after_reopen.
Print Assumptions hp_rm_add_after_reopen.
