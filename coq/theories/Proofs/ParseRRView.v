(* ParseRR, part 10: what the parsed RockRidge object of a record says (completes deliverable (i)).
     prr_rec_view    for the object graph_of gives a record (the placed entries, fixed; ce_entries only with a CE entry):
                     the RRIP reading of the NM pieces is the Rock Ridge name that was given, PX mode and link count are
                     the ones written, the SL records reassemble to the symlink target, and dr_entries.ce_record is
                     (extent of the block, offset, length) of the record's continuation area *)
From Coq Require Import ZArith List Bool Lia ZifyBool.
From PV.Base Require Import Prim.
From PV.Model Require Import Codec RREntries RRWalk RRPlace.
From PV.Model Require LongNames Master Account.
From PV.Model Require Import AccountRR MasterRR ParseRR ParseRRSpec.
From PV.Proofs Require Import CodecProofs RREntriesProofs RRSLProofs RRWalkProofs RRPlaceSLProofs RRPlaceProofs RRPlaceProofs2.
From PV.Proofs Require Import MasterRRWalk MasterRRRec ParseRRRec ParseRRRec2.
Import ListNotations.
Local Open Scope Z_scope.

Lemma prr_view_norm_comp c : made c ->
  LongNames.pair_comp (c_flags (prr_norm_comp c), c_data (prr_norm_comp c)) = LongNames.pair_comp (c_flags c, c_data c).
Proof.
  intros (s & H). destruct H as [-> | [-> | ->]]; [|reflexivity..].
  destruct (factory_cases s) as [[-> ->]|[[-> ->]|[[-> ->]| -> ]]]; reflexivity.
Qed.

Lemma prr_view_norm_sl s : sl_made s -> sl_view (prr_norm_sl s) = sl_view s.
Proof.
  intros [Hc _]. unfold sl_view, prr_norm_sl. cbn [sl_flags sl_comps]. f_equal. rewrite map_map.
  induction Hc as [|c cs H1 _ IH]; [reflexivity|]. cbn [map]. rewrite IH, (prr_view_norm_comp c H1). reflexivity.
Qed.

Lemma prr_nil_of_entries {A} (f : A -> su_entry) (l : list A) E :
  (forall a, In a l -> In (f a) (entries_list E)) -> entries_list E = [] -> l = [].
Proof. intros H Hn. destruct l as [|a l]; [reflexivity|]. specialize (H a (or_introl eq_refl)). rewrite Hn in H. destruct H. Qed.

Section View.
  Variables (v : rrv) (dt : list Z) (x : rspec) (r : placed) (blk : option nat).
  Hypothesis Hpl : place (mrr_pin v dt x) = Some r.
  Hypothesis Hmode : u32_ok (rs_mode x) = true.
  Hypothesis Hcel : u32_ok (pl_celen r) = true.

  Local Notation i := (mrr_pin v dt x).
  Local Notation D := (pl_dr r).
  Local Notation C := (pl_ce r).
  Local Notation d := (mk_rrd (prr_fix_E x D) (if is_some (ce_record D) then prr_fix_E x C else empty_entries)
                              (prr_ver_of v) 0 blk).

  Lemma prr_view_nm_in E n : In n (nm_records E) -> In (E_NM n) (entries_list E).
  Proof. intros H. unfold entries_list. rewrite !in_app_iff. right. right. left. apply in_map. exact H. Qed.
  Lemma prr_view_sl_in E n : In n (sl_records E) -> In (E_SL n) (entries_list E).
  Proof. intros H. unfold entries_list. rewrite !in_app_iff. do 4 right. left. apply in_map. exact H. Qed.

  (* without a CE entry the continuation side is empty *)
  Lemma prr_view_noce : ce_record D = None -> nm_records C = [] /\ sl_records C = [] /\ px_record C = None.
  Proof.
    intros Hn. destruct (prr_complete v dt x r Hpl) as (_ & _ & _ & _ & _ & _ & _ & _ & _ & _ & _ & P12).
    pose proof (P12 Hn) as He. split; [exact (prr_nil_of_entries E_NM _ C (prr_view_nm_in C) He)|].
    split; [exact (prr_nil_of_entries E_SL _ C (prr_view_sl_in C) He)|].
    destruct (px_record C) as [p|] eqn:E; [|reflexivity]. apply mrr_px_in in E. rewrite He in E. destruct E.
  Qed.

  Theorem prr_rec_view :
    prr_rrip_name d = rs_rr x /\ prr_mode d = rs_mode x /\ prr_links d = rs_links x /\
    prr_target d = rs_target x /\
    prr_ce d = (if is_some (ce_record D) then Some (rs_bl x, rs_off x, pl_celen r) else None).
  Proof.
    pose proof (mrr_drlen_nonneg x r) as H0.
    destruct (place_complete i r Hpl H0) as (Hnm & Hpx & _ & _ & _ & _ & _ & _ & _ & _ & _ & _ & _ & Hsl).
    assert (Enm : prr_nms d = nm_records D ++ nm_records C).
    { unfold prr_nms. cbn [rd_dr rd_ce prr_fix_E nm_records]. destruct (ce_record D) eqn:E; cbn [is_some]; [reflexivity|].
      rewrite (proj1 (prr_view_noce E)). reflexivity. }
    assert (Epx : prr_px d = Some (mk_px (rs_mode x) (rs_links x) (px_uid (px_of i)) (px_gid (px_of i)) (px_serial (px_of i)))).
    { unfold prr_px. cbn [rd_dr rd_ce prr_fix_E px_record]. destruct Hpx as [[A B]|[A B]]; rewrite A.
      - reflexivity.
      - destruct (ce_record D) eqn:E; cbn [is_some prr_fix_E px_record].
        + rewrite B. reflexivity.
        + rewrite (proj2 (proj2 (prr_view_noce E))) in B. discriminate. }
    split; [unfold prr_rrip_name; rewrite Enm; exact Hnm|].
    split; [unfold prr_mode; rewrite Epx; reflexivity|]. split; [unfold prr_links; rewrite Epx; reflexivity|].
    split.
    - (* the target *)
      destruct (mrr_place_readable i r Hpl (mrr_input_ok v dt x r Hmode Hcel)) as [Rd Rc].
      assert (Hmade : forall E, Forall (mrr_readable v) (entries_list E) -> map sl_view (map prr_norm_sl (sl_records E)) = map sl_view (sl_records E)).
      { intros E HE. rewrite map_map. apply map_ext_in. intros s0 Hs0. apply prr_view_norm_sl.
        pose proof (proj1 (Forall_forall _ _) HE _ (prr_view_sl_in E s0 Hs0)) as Hr. exact (proj1 Hr). }
      assert (Esl : map sl_view (prr_sls d) = map sl_view (sl_records D ++ sl_records C)).
      { unfold prr_sls. cbn [rd_dr rd_ce prr_fix_E sl_records]. rewrite !map_app, (Hmade D Rd).
        destruct (ce_record D) eqn:E; cbn [is_some prr_fix_E sl_records empty_entries].
        - rewrite (Hmade C Rc). reflexivity.
        - rewrite (proj1 (proj2 (prr_view_noce E))). reflexivity. }
      unfold prr_target. rewrite Esl.
      assert (Evis : sl_records D ++ sl_records C = sl_of (visible r)).
      { rewrite (mrr_vis_split v dt x r Hpl). unfold sl_of. rewrite flat_map_app.
        fold (sl_of (entries_list D)). fold (sl_of (entries_list C)). rewrite !mrr_sl_of_entries. reflexivity. }
      rewrite Evis. fold (read_target r).
      destruct (rs_target x) as [|c0 t0] eqn:Et.
      + destruct Hsl as [S1 S2]; [unfold target_of; cbn [p_target mrr_pin]; rewrite Et; reflexivity|].
        unfold read_target. rewrite <- Evis, S1, S2. reflexivity.
      + apply (place_reads_target i r (c0 :: t0) Hpl H0); [cbn [p_target mrr_pin]; rewrite Et; reflexivity|discriminate].
    - unfold prr_ce. cbn [rd_dr prr_fix_E ce_record]. destruct (ce_record D) as [c|] eqn:E; cbn [is_some]; [|reflexivity].
      cbn [ce_bl ce_off ce_len].
      destruct (place_ce_len i r c Hpl (mrr_input_ok v dt x r Hmode Hcel) E) as (bc1 & _ & -> & Z3 & _).
      cbn [ce_len]. rewrite Z3. reflexivity.
  Qed.
End View.

Print Assumptions prr_rec_view.
