(* MasterRR, part 10: EVERY state an edit history reaches is well-formed, as soon as its 32-bit fields fit.
     mrr_keys_run        the continuation areas of two different records of a reachable state: different blocks or
                         ranges that do not meet (from AccountRR's reference counting of the tracked blocks)
     mrr_run_wf          rr_run (rr_init v) ops passes mrr_wf when mrr_sizes_ok (link counts, directory lengths and
                         the last extent fit 32 bits: what struct.pack would refuse otherwise)
     read_master_rr_run / master_rr_su_wellformed_run / master_rr_root_er_run   the theorems of MasterRRProofs.v for
                         every history of add_fp / add_directory / add_symlink / rm_file / rm_directory *)
From Coq Require Import ZArith List Bool Lia ZifyBool.
From PV.Base Require Import Prim.
From PV.Gen Require Import GenConst GenFun.
From PV.Model Require Import Names Checksums Pack Alloc CeAlloc Codec RREntries RRWalk RRPlace Account AccountRR.
From PV.Model Require Master.
From PV.Model Require Import MasterRR.
From PV.Proofs Require Import PackProofs CeAllocProofs AccountLemmas AccountRRPlace AccountRRLemmas AccountRRCe
                              AccountRRInv AccountRRProofs.
From PV.Proofs Require Import MasterRRTree MasterRRRunInv MasterRRProofs.
Import ListNotations.
Local Open Scope Z_scope.
Ltac Zify.zify_post_hook ::= Z.to_euclidean_division_equations.

(* ---- additive measures by position ---------------------------------------------------------------------- *)
Section Totals.
  Variable w : bool -> meta -> Z -> Z.
  Hypothesis Hw : forall d m v, 0 <= w d m v.

  Lemma mrr_totals_nth : forall kids j c, nth_error kids j = Some c -> rtotal w c <= rtotals w kids.
  Proof.
    induction kids as [|k kids IH]; intros [|j] c H; cbn [nth_error] in H; try discriminate; rewrite arr_totals_cons.
    - injection H as <-. pose proof (arr_totals_nonneg w Hw kids). lia.
    - pose proof (IH j c H). pose proof (arr_total_nonneg w Hw k). lia.
  Qed.

  Lemma mrr_totals_two : forall kids j1 j2 c1 c2, (j1 < j2)%nat -> nth_error kids j1 = Some c1 ->
    nth_error kids j2 = Some c2 -> rtotal w c1 + rtotal w c2 <= rtotals w kids.
  Proof.
    induction kids as [|k kids IH]; intros j1 j2 c1 c2 Hlt H1 H2; [destruct j1; discriminate|].
    destruct j2 as [|j2]; [lia|]. cbn [nth_error] in H2. rewrite arr_totals_cons.
    destruct j1 as [|j1]; cbn [nth_error] in H1.
    - injection H1 as <-. pose proof (mrr_totals_nth kids j2 c2 H2). lia.
    - pose proof (IH j1 j2 c1 c2 ltac:(lia) H1 H2). pose proof (arr_total_nonneg w Hw k). lia.
  Qed.

  Lemma mrr_total_pos : forall q n c, mrr_node_at n q = Some c -> rshallow w c <= rtotal w n.
  Proof.
    induction q as [|j q IH]; intros n c H; cbn [mrr_node_at] in H.
    - injection H as <-. rewrite arr_total_shallow. pose proof (arr_totals_nonneg w Hw (rkids n)). lia.
    - destruct (nth_error (rkids n) j) as [k|] eqn:E; [|discriminate].
      rewrite arr_total_shallow. pose proof (mrr_totals_nth _ _ _ E). pose proof (IH k c H).
      assert (0 <= rshallow w n) by (destruct n; apply Hw). lia.
  Qed.

  Lemma mrr_total_two_pos : forall q1 n q2 c1 c2, q1 <> q2 -> mrr_node_at n q1 = Some c1 ->
    mrr_node_at n q2 = Some c2 -> rshallow w c1 + rshallow w c2 <= rtotal w n.
  Proof.
    assert (Top : forall n j q c, mrr_node_at n (j :: q) = Some c -> rshallow w n + rshallow w c <= rtotal w n).
    { intros n j q c H. cbn [mrr_node_at] in H. destruct (nth_error (rkids n) j) as [k|] eqn:E; [|discriminate].
      rewrite arr_total_shallow. pose proof (mrr_totals_nth _ _ _ E). pose proof (mrr_total_pos q k c H). lia. }
    induction q1 as [|j1 q1 IH]; intros n q2 c1 c2 Hne H1 H2.
    - destruct q2 as [|j2 q2]; [congruence|]. cbn [mrr_node_at] in H1. injection H1 as <-. exact (Top n j2 q2 c2 H2).
    - destruct q2 as [|j2 q2].
      + cbn [mrr_node_at] in H2. injection H2 as <-. pose proof (Top n j1 q1 c1 H1). lia.
      + cbn [mrr_node_at] in H1, H2.
        destruct (nth_error (rkids n) j1) as [k1|] eqn:E1; [|discriminate].
        destruct (nth_error (rkids n) j2) as [k2|] eqn:E2; [|discriminate].
        rewrite arr_total_shallow. assert (0 <= rshallow w n) by (destruct n; apply Hw).
        destruct (Nat.eq_dec j1 j2) as [->|Hj].
        * rewrite E1 in E2. injection E2 as <-. pose proof (mrr_totals_nth _ _ _ E1).
          pose proof (IH k1 q2 c1 c2 ltac:(congruence) H1 H2). lia.
        * pose proof (mrr_total_pos q1 k1 c1 H1). pose proof (mrr_total_pos q2 k2 c2 H2).
          destruct (Nat.lt_ge_cases j1 j2) as [Hlt|Hge].
          -- pose proof (mrr_totals_two _ j1 j2 k1 k2 Hlt E1 E2). lia.
          -- pose proof (mrr_totals_two _ j2 j1 k2 k1 ltac:(lia) E2 E1). lia.
  Qed.
End Totals.

(* ---- entries of one tracked block ---------------------------------------------------------------------------- *)
Lemma mrr_wf_from_lower M : forall es lo e, wf_from M lo es -> In e es -> lo <= fst e /\ 0 < snd e.
Proof.
  induction es as [|x es IH]; intros lo e H Hin; [destruct Hin|]. cbn [wf_from] in H. destruct H as (A & B & _ & D).
  destruct Hin as [<-|Hin]; [split; assumption|]. destruct (IH _ e D Hin). split; lia.
Qed.
Lemma mrr_wf_from_apart M : forall es lo e1 e2, wf_from M lo es -> In e1 es -> In e2 es -> e1 <> e2 ->
  fst e1 + snd e1 <= fst e2 \/ fst e2 + snd e2 <= fst e1.
Proof.
  induction es as [|x es IH]; intros lo e1 e2 H H1 H2 Hne; [destruct H1|]. cbn [wf_from] in H. destruct H as (A & B & _ & D).
  destruct H1 as [<-|H1]; destruct H2 as [<-|H2].
  - congruence.
  - left. exact (proj1 (mrr_wf_from_lower M es _ e2 D H2)).
  - right. exact (proj1 (mrr_wf_from_lower M es _ e1 D H1)).
  - exact (IH _ e1 e2 D H1 H2 Hne).
Qed.

Lemma mrr_nodup_fst {A B} (l : list (A * B)) a b : NoDup (map fst l) -> In a l -> In b l -> fst a = fst b -> a = b.
Proof.
  induction l as [|x l IH]; intros Hnd Ha Hb E; [destruct Ha|]. cbn [map] in Hnd. inversion Hnd as [|? ? Hn Hnd']; subst.
  destruct Ha as [<-|Ha]; destruct Hb as [<-|Hb]; [reflexivity| | |exact (IH Hnd' Ha Hb E)]; exfalso; apply Hn.
  - rewrite E. apply in_map. exact Hb.
  - rewrite <- E. apply in_map. exact Ha.
Qed.

(* ---- the continuation areas of a reachable state ----------------------------------------------------------------- *)
Theorem mrr_keys_run s : RInv s -> forall q1 q2 n1 n2 k1 k2, q1 <> q2 ->
  mrr_node_at (r_root s) q1 = Some n1 -> mrr_node_at (r_root s) q2 = Some n2 ->
  m_ce (meta_of n1) = Some k1 -> m_ce (meta_of n2) = Some k2 -> mrr_apartP k1 k2.
Proof.
  intros HI q1 q2 n1 n2 k1 k2 Hne H1 H2 K1 K2.
  pose proof (mrr_total_two_pos (rw_ref k1) (arr_rw_ref_nonneg k1) q1 _ q2 n1 n2 Hne H1 H2) as T2.
  rewrite !arr_shallow_ref, K1, K2, (ri_refs s HI) in T2. unfold kind in T2. rewrite arr_key_eqb_refl in T2.
  pose proof (arr_blocks_count _ k1 (ri_blocks s HI)) as C1.
  destruct (key_eqb k2 k1) eqn:Eq; [lia|].
  assert (In1 : In k1 (flat (r_blocks s))) by (apply arr_kcount_pos; lia).
  pose proof (mrr_total_pos (rw_ref k2) (arr_rw_ref_nonneg k2) q2 _ n2 H2) as T1.
  rewrite arr_shallow_ref, K2, (ri_refs s HI) in T1. unfold kind in T1. rewrite arr_key_eqb_refl in T1.
  assert (In2 : In k2 (flat (r_blocks s))) by (apply arr_kcount_pos; lia).
  destruct k1 as [[i1 o1] l1], k2 as [[i2 o2] l2]. unfold mrr_apartP, mrr_key_apart.
  destruct (Nat.eqb i1 i2) eqn:Ei; [|reflexivity]. apply Nat.eqb_eq in Ei. subst i2. cbn [negb orb].
  apply arr_in_flat in In1. apply arr_in_flat in In2. cbn [fst snd] in In1, In2.
  destruct In1 as (b1 & B1 & F1 & E1). destruct In2 as (b2 & B2 & F2 & E2).
  destruct (ri_blocks s HI) as [Hnd Hok].
  assert (b1 = b2) by (apply (mrr_nodup_fst (r_blocks s)); [exact Hnd|exact B1|exact B2|congruence]). subst b2.
  rewrite Forall_forall in Hok. destruct (Hok b1 B1) as [Hwf _]. apply wf_wf_from in Hwf.
  assert (Hd : (o1, l1) <> (o2, l2)).
  { intros E. injection E as -> ->. unfold key_eqb in Eq. rewrite Nat.eqb_refl, !Z.eqb_refl in Eq. discriminate. }
  destruct (mrr_wf_from_apart M (snd b1) 0 (o1, l1) (o2, l2) Hwf E1 E2 Hd) as [A|A]; cbn [fst snd] in A; lia.
Qed.

(* ---- from positions back to the key list ----------------------------------------------------------------------------- *)
Lemma mrr_key_in_inv : forall n k, In k (mrr_keys n) ->
  exists q c, mrr_node_at n q = Some c /\ m_ce (meta_of c) = Some k.
Proof.
  apply (arr_node_ind (fun n => forall k, In k (mrr_keys n) ->
                         exists q c, mrr_node_at n q = Some c /\ m_ce (meta_of c) = Some k)).
  - intros m len k H. rewrite mrr_keys_unfold in H. cbn [rkids flat_map] in H. rewrite app_nil_r in H.
    exists [], (RFile m len). split; [reflexivity|]. cbn [meta_of] in *. destruct (m_ce m); [|destruct H].
    destruct H as [->|[]]. reflexivity.
  - intros m dl kids IH k H. rewrite mrr_keys_unfold in H. apply in_app_or in H. destruct H as [H|H].
    + exists [], (RDir m dl kids). split; [reflexivity|]. cbn [meta_of] in *. destruct (m_ce m); [|destruct H].
      destruct H as [->|[]]. reflexivity.
    + cbn [rkids] in H. apply in_flat_map in H. destruct H as (c' & Hc & Hk). rewrite Forall_forall in IH.
      destruct (IH c' Hc k Hk) as (q & c & Hq & Hm). destruct (In_nth_error _ _ Hc) as [j Hj].
      exists (j :: q), c. split; [cbn [mrr_node_at rkids]; rewrite Hj; exact Hq|exact Hm].
Qed.

Lemma mrr_fop_app_intro {A} (R : A -> A -> Prop) l1 : forall l2, ForallOrdPairs R l1 -> ForallOrdPairs R l2 ->
  (forall a b, In a l1 -> In b l2 -> R a b) -> ForallOrdPairs R (l1 ++ l2).
Proof.
  induction l1 as [|x l1 IH]; intros l2 H1 H2 Hx; [exact H2|]. inversion H1 as [|? ? Fx F1]; subst.
  cbn [app]. constructor.
  - apply Forall_app. split; [exact Fx|]. apply Forall_forall. intros b Hb. apply Hx; [left; reflexivity|exact Hb].
  - apply IH; [exact F1|exact H2|]. intros a b Ha Hb. apply Hx; [right; exact Ha|exact Hb].
Qed.

Lemma mrr_fop_flat_intro {A B} (R : B -> B -> Prop) (f : A -> list B) : forall l,
  (forall c, In c l -> ForallOrdPairs R (f c)) ->
  (forall j1 j2 c1 c2 a b, (j1 < j2)%nat -> nth_error l j1 = Some c1 -> nth_error l j2 = Some c2 ->
     In a (f c1) -> In b (f c2) -> R a b) ->
  ForallOrdPairs R (flat_map f l).
Proof.
  induction l as [|c l IH]; intros H1 H2; [constructor|]. cbn [flat_map]. apply mrr_fop_app_intro.
  - apply H1. left. reflexivity.
  - apply IH; [intros c' Hc'; apply H1; right; exact Hc'|].
    intros j1 j2 c1 c2 a b Hlt E1 E2 Ha Hb. apply (H2 (S j1) (S j2) c1 c2 a b); [lia|exact E1|exact E2|exact Ha|exact Hb].
  - intros a b Ha Hb. apply in_flat_map in Hb. destruct Hb as (c' & Hc' & Hb). destruct (In_nth_error _ _ Hc') as [j Hj].
    apply (H2 0%nat (S j) c c' a b); [lia|reflexivity|exact Hj|exact Ha|exact Hb].
Qed.

Definition mrr_pairwise (n : rnode) : Prop := forall q1 q2 n1 n2 k1 k2, q1 <> q2 ->
  mrr_node_at n q1 = Some n1 -> mrr_node_at n q2 = Some n2 ->
  m_ce (meta_of n1) = Some k1 -> m_ce (meta_of n2) = Some k2 -> mrr_apartP k1 k2.

Lemma mrr_keys_fop : forall n, mrr_pairwise n -> ForallOrdPairs mrr_apartP (mrr_keys n).
Proof.
  apply (arr_node_ind (fun n => mrr_pairwise n -> ForallOrdPairs mrr_apartP (mrr_keys n))).
  - intros m len _. rewrite mrr_keys_unfold. cbn [rkids flat_map meta_of]. rewrite app_nil_r.
    destruct (m_ce m); repeat constructor.
  - intros m dl kids IH Hp. rewrite mrr_keys_unfold. cbn [rkids]. rewrite Forall_forall in IH.
    apply mrr_fop_app_intro.
    + destruct (m_ce (meta_of (RDir m dl kids))); repeat constructor.
    + apply mrr_fop_flat_intro.
      * intros c Hc. apply (IH c Hc). destruct (In_nth_error _ _ Hc) as [j Hj].
        intros q1 q2 n1 n2 k1 k2 Hne H1 H2 K1 K2.
        apply (Hp (j :: q1) (j :: q2) n1 n2 k1 k2); [congruence| | |exact K1|exact K2];
          cbn [mrr_node_at rkids]; rewrite Hj; assumption.
      * intros j1 j2 c1 c2 a b Hlt E1 E2 Ha Hb.
        destruct (mrr_key_in_inv c1 a Ha) as (q1 & n1 & H1 & K1). destruct (mrr_key_in_inv c2 b Hb) as (q2 & n2 & H2 & K2).
        apply (Hp (j1 :: q1) (j2 :: q2) n1 n2 a b); [intros E; injection E as E _; lia| | |exact K1|exact K2];
          cbn [mrr_node_at rkids]; [rewrite E1|rewrite E2]; assumption.
    + intros a b Ha Hb. destruct (m_ce (meta_of (RDir m dl kids))) as [k0|] eqn:E0; [|destruct Ha].
      destruct Ha as [<-|[]]. apply in_flat_map in Hb. destruct Hb as (c' & Hc' & Hb).
      destruct (In_nth_error _ _ Hc') as [j Hj]. destruct (mrr_key_in_inv c' b Hb) as (q & c & Hq & Hk).
      apply (Hp [] (j :: q) (RDir m dl kids) c k0 b); [discriminate|reflexivity| |exact E0|exact Hk].
      cbn [mrr_node_at rkids]. rewrite Hj. exact Hq.
Qed.

Lemma mrr_fop_keys_apart l : ForallOrdPairs mrr_apartP l -> mrr_keys_apart l = true.
Proof.
  induction 1 as [|k r Hk _ IH]; [reflexivity|]. cbn [mrr_keys_apart]. rewrite IH, andb_true_r.
  apply forallb_forall. intros x Hx. rewrite Forall_forall in Hk. exact (Hk x Hx).
Qed.

(* ---- the node check, from the invariants ------------------------------------------------------------------------------ *)
Lemma mrr_wf_node_of v dt : length dt = 7%nat -> forall b n isroot, (mrr_height n <= b)%nat ->
  rall_ok v isroot n -> (isroot = false -> mrr_metaP v n) -> mrr_allP (mrr_metaP v) n -> mrr_sizes n = true ->
  mrr_wf_node v dt b isroot n = true.
Proof.
  intros Hdt. induction b as [|f IH]; intros n isroot Hh Hok Hm Hall Hsz; [destruct n; cbn [mrr_height] in Hh; lia|].
  cbn [mrr_wf_node].
  assert (A1 : isroot || mrr_meta_ok v dt (mrr_spec0 n) (meta_of n) = true).
  { destruct isroot; [reflexivity|]. cbn [orb]. apply mrr_metaP_ok; [exact Hdt|apply Hm; reflexivity]. }
  rewrite A1. cbn [andb].
  destruct n as [m len|m dl kids]; cbn [mrr_sizes] in Hsz; apply andb_prop in Hsz; destruct Hsz as [S1 S2]; rewrite S1; cbn [andb].
  - cbn [rall_ok] in Hok. destruct Hok as [Hl Hi]. destruct (m_ino m) eqn:Ei; [cbn [orb]; lia|].
    rewrite (Hi eq_refl). reflexivity.
  - apply andb_prop in S2. destruct S2 as [S2 S3]. rewrite S2. apply arr_all_ok_dir in Hok. destruct Hok as (_ & [Hinv _] & HF).
    apply Invb_spec in Hinv. change BS with C. rewrite Hinv. cbn [andb].
    apply forallb_forall. intros c Hc. rewrite Forall_forall in HF. rewrite forallb_forall in S3.
    apply mrr_allP_dir in Hall. rewrite Forall_forall in Hall. destruct (Hall c Hc) as [Pc Ac].
    destruct (In_nth_error _ _ Hc) as [j Hj]. pose proof (mrr_height_kid m dl kids j c Hj).
    apply IH; [lia|exact (HF c Hc)|intros _; exact Pc|exact Ac|exact (S3 c Hc)].
Qed.

Theorem mrr_inv_wf dt s : length dt = 7%nat -> r_ver s <> V_unset -> RInv s -> mrr_MI s ->
  mrr_sizes_ok s = true -> mrr_wf dt s = true.
Proof.
  intros Hdt Hv HI HM Hsz. unfold mrr_sizes_ok in Hsz. apply andb_prop in Hsz. destruct Hsz as [S1 S2].
  destruct (ri_root s HI) as [Rm Rd]. destruct (r_root s) as [m len|m dl kids] eqn:Et; [discriminate Rd|].
  cbn [meta_of] in Rm. subst m.
  assert (W : Account.bytes_eqb (m_name root_meta) [0] && negb (is_some (m_ce root_meta)) &&
              mrr_wf_node (r_ver s) dt (mrr_height (RDir root_meta dl kids)) true (RDir root_meta dl kids) &&
              mrr_keys_apart (mrr_keys (RDir root_meta dl kids)) && (0 <=? r_ptr_ext s) &&
              (mrr_layout_end s <=? 4294967296) = true).
  { rewrite S2, andb_true_r. cbn [root_meta m_name m_ce is_some negb Account.bytes_eqb Z.eqb andb].
    rewrite (mrr_wf_node_of (r_ver s) dt Hdt _ _ true (le_n _)); cycle 1.
    - rewrite <- Et. exact (ri_tree s HI).
    - discriminate.
    - rewrite <- Et. exact HM.
    - exact S1.
    - cbn [andb]. rewrite mrr_fop_keys_apart; cycle 1.
      { apply mrr_keys_fop. rewrite <- Et. exact (mrr_keys_run s HI). }
      cbn [andb]. destruct (ri_ptr s HI) as [P0 P1]. rewrite P1. unfold ceiling_div. lia. }
  unfold mrr_wf. rewrite Et. destruct (r_ver s); [congruence|exact W..].
Qed.

Theorem mrr_run_wf v ops dt : v <> V_unset -> length dt = 7%nat ->
  mrr_sizes_ok (rr_run (rr_init v) ops) = true -> mrr_wf dt (rr_run (rr_init v) ops) = true.
Proof.
  intros Hv Hdt Hsz. destruct (mrr_run_meta v ops) as (HI & HM & Ev).
  apply mrr_inv_wf; [exact Hdt|rewrite Ev; exact Hv|exact HI|exact HM|exact Hsz].
Qed.

(* ---- the theorems for every edit history ---------------------------------------------------------------------------------- *)
Section Run.
  Variables (v : rrv) (ops : list rop) (dt : list Z).
  Hypothesis Hv : v <> V_unset.
  Hypothesis Hdt : length dt = 7%nat.
  Let s := rr_run (rr_init v) ops.
  Hypothesis Hsz : mrr_sizes_ok s = true.

  Theorem read_master_rr_run : exists img, master_rr dt s = Some img /\
    read_rr (mrr_fuel s) img (mrr_root_extent s) (mrr_root_len s) = Some (mrr_view s).
  Proof. apply read_master_rr; [exact Hdt|exact (mrr_run_wf v ops dt Hv Hdt Hsz)]. Qed.

  Theorem master_rr_root_er_run img : master_rr dt s = Some img ->
    exists m dl kids r rest c bc blk,
      r_root s = RDir m dl kids /\ place (mrr_pin (r_ver s) dt (MasterRRImage.mrr_dot_spec s [] dl)) = Some r /\
      entries_list (pl_dr r) = E_SP 0 :: rest /\ ce_record (pl_dr r) = Some c /\
      In (E_CE (mk_ce (l_er (mrr_layout s)) 0 (zlen bc)))
         (map (mrr_patch (MasterRRImage.mrr_dot_spec s [] dl)) (entries_list (pl_dr r))) /\
      entries_list (pl_ce r) = [E_ER (er_of (r_ver s))] /\ rec_entry (r_ver s) (E_ER (er_of (r_ver s))) = Some bc /\
      In (l_er (mrr_layout s), blk) img /\ firstn (Z.to_nat (zlen bc)) blk = bc /\
      er_id (er_of (r_ver s)) = (match r_ver s with V112 => EXT_ID_112 | _ => EXT_ID_109 end).
  Proof. apply master_rr_root_er; [exact Hdt|exact (mrr_run_wf v ops dt Hv Hdt Hsz)]. Qed.

  Theorem master_rr_su_wellformed_run img : master_rr dt s = Some img ->
    forall p m dl kids x, mrr_node_at (r_root s) p = Some (RDir m dl kids) ->
    In x (mrr_dir_specs (r_root s) (mrr_layout s) p) ->
    exists r b bd bc ents cents,
      place (mrr_pin (r_ver s) dt x) = Some r /\
      enc_dr (mrr_drec (r_ver s) dt x) = Some b /\ sysuse (mrr_drec (r_ver s) dt x) = bd /\
      record_list (r_ver s) (map (mrr_patch x) (entries_list (pl_dr r))) = Some bd /\
      bd = concat ents /\ Forall mrr_entry_wf ents /\
      zlen b = 33 + zlen (rs_nm x) + (1 - zlen (rs_nm x) mod 2) + zlen bd + zlen bd mod 2 /\ zlen b <= 254 /\
      record_list (r_ver s) (map (mrr_patch x) (entries_list (pl_ce r))) = Some bc /\
      bc = concat cents /\ Forall mrr_entry_wf cents /\
      (forall a, mrr_su_walk (length bc) bc a =
                 fold_left MasterRRWalk.mrr_absorb_e (map (mrr_patch x) (entries_list (pl_ce r))) a) /\
      (ce_record (pl_dr r) = None -> bc = []) /\
      (forall c, ce_record (pl_dr r) = Some c ->
         In (E_CE (mk_ce (rs_bl x) (rs_off x) (zlen bc))) (map (mrr_patch x) (entries_list (pl_dr r))) /\
         0 < zlen bc /\ 0 <= rs_off x /\ rs_off x + zlen bc <= 2048 /\
         exists blk, In (rs_bl x, blk) img /\ zlen blk = 2048 /\
                     firstn (Z.to_nat (zlen bc)) (skipn (Z.to_nat (rs_off x)) blk) = bc).
  Proof. apply (master_rr_su_wellformed dt s Hdt (mrr_run_wf v ops dt Hv Hdt Hsz)). Qed.

  Theorem master_rr_areas_disjoint_run q1 q2 n1 n2 i1 o1 l1 i2 o2 l2 : q1 <> q2 ->
    mrr_node_at (r_root s) q1 = Some n1 -> mrr_node_at (r_root s) q2 = Some n2 ->
    m_ce (meta_of n1) = Some (i1, o1, l1) -> m_ce (meta_of n2) = Some (i2, o2, l2) ->
    (mrr_ce_ext (r_root s) (mrr_layout s) i1 <> mrr_ce_ext (r_root s) (mrr_layout s) i2 \/ o1 + l1 <= o2 \/ o2 + l2 <= o1) /\
    mrr_start s <= mrr_ce_ext (r_root s) (mrr_layout s) i1 < l_er (mrr_layout s).
  Proof. apply (master_rr_areas_disjoint dt s Hdt (mrr_run_wf v ops dt Hv Hdt Hsz)). Qed.
End Run.

Print Assumptions mrr_keys_run.
Print Assumptions mrr_run_wf.
Print Assumptions read_master_rr_run.
Print Assumptions master_rr_root_er_run.
Print Assumptions master_rr_su_wellformed_run.
Print Assumptions master_rr_areas_disjoint_run.
