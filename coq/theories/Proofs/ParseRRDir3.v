(* ParseRR, part 7: the record loop over a whole directory extent.
     prr_kids_fold    the loop over children[2:] = ParseRRSpec.prr_spec_kids, with the table invariant
     prr_dir_scan     seek + read + `while offset < length` on the extent of the directory at position p
                      = ParseRRSpec.prr_spec_dir *)
From Coq Require Import ZArith List Bool Lia ZifyBool.
From PV.Base Require Import Prim.
From PV.Gen Require Import GenConst GenFun.
From PV.Model Require Import Codec Pack PathTable CeAlloc RREntries RRWalk RRPlace.
From PV.Model Require Master Account LongNames.
From PV.Model Require Import ParseCore AccountRR MasterRR ParseRR ParseRRSpec.
From PV.Proofs Require Import CodecProofs PackProofs PathTableLemmas PathTableProofs MasterPack MasterImage MasterBfs.
From PV.Proofs Require Import RREntriesProofs RRWalkProofs RRPlaceSLProofs RRPlaceProofs RRPlaceProofs2.
From PV.Proofs Require Import MasterRRWalk MasterRRRec MasterRRBlock MasterRRTree MasterRRLayout MasterRRDir
                              MasterRRImage MasterRRRead MasterRRProofs.
From PV.Proofs Require Import ParseScan ParseTrack ParseDir.
From PV.Proofs Require Import ParseRRRec ParseRRRec2 ParseRRStep ParseRRTable ParseRRDir ParseRRDir2.
Import ListNotations.
Local Open Scope Z_scope.

Lemma prr_sorted_head a l : Master.ms_sorted (a :: l) = true ->
  Master.ms_sorted l = true /\ forall b, In b l -> Account.bytes_ltb a b = true.
Proof.
  intros H. split; [cbn [Master.ms_sorted] in H; apply andb_prop in H; exact (proj2 H)|].
  intros b Hb. apply In_nth_error in Hb. destruct Hb as [k Hk].
  apply (ps_sorted_nth (a :: l) H 0%nat (S k) a b); [lia|reflexivity|exact Hk].
Qed.

Section Dir3.
  Variable dt : list Z.
  Variable s : rstate.
  Hypothesis Hdt : length dt = 7%nat.
  Hypothesis Hwf : mrr_wf dt s = true.
  Hypothesis Hsorted : prr_tree_ok s = true.
  Variable img' : Master.image.
  Hypothesis Hok : ms_img_ok img'.
  Hypothesis Hincl : incl (mrr_img dt s) img'.

  Local Notation t := (r_root s).
  Local Notation v := (r_ver s).
  Local Notation L := (mrr_layout s).
  Local Notation DB := (l_DB L).
  Local Notation enc := (fun x => Master.ms_enc (mrr_drec v dt x)).

  Lemma prr_kids_fold p m dl kids d : mrr_node_at t p = Some (RDir m dl kids) ->
    forall kids' j0 st done last,
    (forall i c, nth_error kids' i = Some c -> nth_error kids (j0 + i) = Some c) ->
    Master.ms_sorted (map rname kids') = true ->
    prr_skip_ok d (w_cur st) ->
    (forall a c, In a (w_cur st) -> In c kids' -> ps_lt (Codec.ident (q_rec a)) (rname c) = true) ->
    prr_tinv s (w_blocks st) done -> (forall i, (j0 <= i < j0 + length kids')%nat -> ~ In (p ++ [i]) done) ->
    w_ver st = prr_ver_of v ->
    exists last',
      ps_fold (prr_record img' d) (st, last) (map enc (mrr_kid_specs t L p j0 kids'))
      = POk (prr_spec_kids v dt t L p j0 kids' st, last') /\
      prr_tinv s (w_blocks (prr_spec_kids v dt t L p j0 kids' st))
               (done ++ map (fun i => p ++ [i]) (seq j0 (length kids'))).
  Proof.
    intros Hp. destruct (prr_dir_names dt s Hwf Hsorted p m dl kids Hp) as [_ Hplain].
    induction kids' as [|c r IH]; intros j0 st done last Hsub Hs Hskip Hlt Htb Hnew Hver.
    - exists last. split; [reflexivity|]. cbn [length seq map prr_spec_kids]. rewrite app_nil_r. exact Htb.
    - assert (Hj : nth_error kids j0 = Some c) by (specialize (Hsub 0%nat c eq_refl); rewrite Nat.add_0_r in Hsub; exact Hsub).
      cbn [map] in Hs. destruct (prr_sorted_head _ _ Hs) as [Hs' Hhead].
      destruct (prr_kid_step dt s Hdt Hwf Hsorted img' Hok Hincl p m dl kids j0 c st d done last Hp Hj Hskip
                  (fun a Ha => Hlt a c Ha (or_introl eq_refl)) Htb (Hnew j0 ltac:(cbn [length]; lia)) Hver)
        as (st1 & last1 & Hrec & Hspec & Hcur & Hskip1 & Htb1 & Hver1).
      destruct (IH (S j0) st1 (done ++ [p ++ [j0]]) last1) as (last' & Hf & Ht).
      + intros i c' Hi. specialize (Hsub (S i) c' Hi). replace (S j0 + i)%nat with (j0 + S i)%nat by lia. exact Hsub.
      + exact Hs'.
      + exact Hskip1.
      + intros a c' Ha Hc'. destruct (Hcur a Ha) as [Ha'|Ea]; [apply (Hlt a c' Ha'); right; exact Hc'|].
        rewrite Ea.
        assert (Hin : forall c0, In c0 (c :: r) -> In c0 kids).
        { intros c0 Hc0. apply In_nth_error in Hc0. destruct Hc0 as [k Hk]. exact (nth_error_In _ _ (Hsub k c0 Hk)). }
        rewrite (ps_lt_plain _ _ (Hplain c (Hin c (or_introl eq_refl))) (Hplain c' (Hin c' (or_intror Hc')))).
        apply Hhead. apply in_map. exact Hc'.
      + exact Htb1.
      + intros i Hi Hin. apply in_app_or in Hin. destruct Hin as [Hin|[E|[]]]; [exact (Hnew i ltac:(cbn [length]; lia) Hin)|].
        apply app_inv_head in E. injection E as E. lia.
      + exact Hver1.
      + exists last'. cbn [mrr_kid_specs map ps_fold]. rewrite Hrec, (Hspec r). split; [exact Hf|].
        cbn [length seq map]. rewrite <- app_assoc in Ht. exact Ht.
  Qed.

  (* ---- '.' and '..' ------------------------------------------------------------------------------------------------ *)
  Lemma prr_dots_after x blk b1 st : rs_nm x = [0] \/ rs_nm x = [1] ->
    prr_after v dt x blk b1 st =
    mk_wst (w_dirs st) (w_cur st ++ [prr_spec_rec v dt x None blk]) (w_rrk st) (w_queue st) (w_seen st) b1 (prr_ver_of v).
  Proof.
    intros Hn. unfold prr_after.
    assert (Hd : prr_is_dots (prr_pad (mrr_drec v dt x)) = true).
    { unfold prr_is_dots, ps_is_dot, ps_is_dotdot. cbn [prr_pad Codec.ident mrr_drec]. destruct Hn as [-> | ->]; reflexivity. }
    rewrite Hd. cbn [negb]. rewrite andb_false_r. f_equal.
    unfold prr_rrk_add. cbn [prr_spec_rec q_rr q_rec]. rewrite Hd. destruct (prr_spec_rrd v dt x blk); reflexivity.
  Qed.

  Lemma prr_blk_noce x : (forall r, place (mrr_pin v dt x) = Some r -> is_some (ce_record (pl_dr r)) = false) ->
    prr_blk_ok dt s img' x.
  Proof. intros H r bc Hpl Hs _. rewrite (H r Hpl) in Hs. discriminate. Qed.

  Theorem prr_dir_scan p m dl kids st q d done :
    mrr_node_at t p = Some (RDir m dl kids) ->
    qd_ext d = Master.ms_ext_at DB p -> qd_len d = dl -> qd_root d = mrr_is_root p ->
    (qd_root d = false -> qd_rr d = Some 0) ->
    w_queue st = d :: q ->
    prr_tinv s (w_blocks st) done -> (forall i, (i < length kids)%nat -> ~ In (p ++ [i]) done) ->
    (w_ver st = V_unset \/ w_ver st = prr_ver_of v) ->
    exists data st2 last',
      Master.ms_img_read img' (qd_ext d) (qd_len d) = Some data /\
      ps_scan (prr_record img' d) (S (length data)) data 0 (qd_len d)
              (prr_begin_dir st q (prr_range (qd_ext d) (qd_len d) ++ w_seen st), None) = POk (st2, last') /\
      prr_end_dir st2 = prr_spec_dir v dt t L p dl kids st /\
      prr_tinv s (w_blocks (prr_spec_dir v dt t L p dl kids st))
               (done ++ map (fun i => p ++ [i]) (seq 0 (length kids))).
  Proof.
    intros Hp Eext Elen Eroot Hrr Hq Htb Hnew Hver. rewrite Eext, Elen.
    pose proof (prr_v dt s Hwf) as Hv.
    exists (snd (mrr_dir_chunk v dt t L p)).
    (* the bytes *)
    assert (Hread : Master.ms_img_read img' (Master.ms_ext_at DB p) dl = Some (snd (mrr_dir_chunk v dt t L p)))
      by exact (mrr_read_chunk dt s Hdt Hwf img' Hok Hincl p m dl kids Hp).
    destruct (mrr_dir_good dt s Hdt Hwf p m dl kids Hp) as (HG & HL & _).
    destruct (mrr_dir_dl dt s Hdt Hwf p m dl kids Hp) as (Hm & Hr & Hi).
    unfold Invb in Hi. cbn [rst_of recs dlen] in Hi, HL. apply andb_prop in Hi. destruct Hi as [_ Hn]. rewrite <- HL in Hn.
    assert (Hbg : Forall ps_bgood (map enc (mrr_dir_specs t L p))).
    { clear -HG. induction HG as [|r0 b0 rs bs Hg _ IH]; constructor; [exact (ps_good_bgood _ _ Hg)|exact IH]. }
    assert (Hdata : snd (mrr_dir_chunk v dt t L p) = Master.ms_dir_bytes dl (map enc (mrr_dir_specs t L p))).
    { unfold mrr_dir_chunk. cbn [snd]. unfold mrr_dlen_at. rewrite Hp. reflexivity. }
    change BS with Master.BS in Hn, Hm.
    set (B := prr_begin_dir st q (prr_range (Master.ms_ext_at DB p) dl ++ w_seen st)).
    assert (Hscan : ps_scan (prr_record img' d) (S (length (snd (mrr_dir_chunk v dt t L p))))
                      (snd (mrr_dir_chunk v dt t L p)) 0 dl (B, None)
                    = ps_fold (prr_record img' d) (B, None) (map enc (mrr_dir_specs t L p))).
    { rewrite Hdata. apply ps_scan_dir; [exact Hbg|exact Hm|lia]. }
    (* the three kinds of records *)
    unfold mrr_dir_specs in Hscan. rewrite Hp in Hscan. cbn [map ps_fold] in Hscan.
    fold (mrr_dot_spec s p dl) in Hscan.
    set (xd := mrr_dot_spec s p dl) in *.
    set (xdd := mk_rspec false [1] [] [] DIR_MODE (mrr_links_at t (removelast p)) (Master.ms_ext_at DB (removelast p))
                         (mrr_dlen_at t (removelast p)) 2 0 0) in *.
    pose proof (mrr_dot_good dt s Hdt Hwf p m dl kids Hp) as Gd. fold (mrr_dot_spec s p dl) in Gd. fold xd in Gd.
    pose proof (mrr_dotdot_good dt s Hdt Hwf p m dl kids Hp) as Gdd. fold xdd in Gdd.
    (* '.' *)
    assert (S1 : prr_record img' d (B, None) (enc xd) =
                 POk (prr_after v dt xd None (w_blocks st) B, Some (ps_printable (prr_pad (mrr_drec v dt xd))))).
    { apply (prr_record_good dt s Hdt Hwf img' xd _ d B None None (w_blocks st) Gd).
      - destruct p as [|j0 p0].
        + destruct (mrr_wf_root dt s Hwf) as (_ & m0 & dl0 & kids0 & Et & _).
          assert (E : dl0 = dl) by (cbn [mrr_node_at] in Hp; rewrite Et in Hp; congruence).
          subst dl0. exact (prr_blk_rootdot dt s Hdt Hwf img' Hok Hincl m0 dl kids0 Et).
        + apply prr_blk_noce. intros r0 Hr0. apply (prr_nodot_noce dt s Hdt Hwf xd r0); auto.
      - intros r0 Hr0. destruct p as [|j0 p0].
        + pose proof (mrr_rootdot_shape v dt Hdt Hv) as Hsh.
          change (mk_pin v true [] DIR_MODE None false false false 0 (Account.dr_len_of [0]) [dt; dt; dt])
            with (mrr_pin v dt xd) in Hsh. rewrite Hr0 in Hsh. destruct Hsh as [_ Hc].
          destruct (sp_record (pl_ce r0)) as [k|] eqn:Ek; [|reflexivity]. apply mrr_sp_in in Ek. rewrite Hc in Ek.
          destruct Ek as [Ek|[]]. discriminate Ek.
        + destruct (prr_complete v dt xd r0 Hr0) as (_ & _ & P3 & _). exact (proj2 P3).
      - unfold prr_skip_for. rewrite Eroot. destruct p as [|j0 p0]; cbn [mrr_is_root].
        + reflexivity.
        + rewrite (Hrr ltac:(rewrite Eroot; reflexivity)). reflexivity.
      - intros r0 Hr0. split; [auto|]. intros Hs. rewrite Eroot. destruct p as [|j0 p0]; cbn [mrr_is_root andb].
        + change (ps_is_dot (prr_pad (mrr_drec v dt xd))) with true. cbn [andb]. auto.
        + exfalso. rewrite (prr_nodot_noce dt s Hdt Hwf xd r0) in Hs; auto. discriminate.
      - exact Hver.
      - intros a []. }
    rewrite S1 in Hscan. rewrite (prr_dots_after xd None (w_blocks st) B (or_introl eq_refl)) in Hscan.
    set (B1 := mk_wst (w_dirs B) (w_cur B ++ [prr_spec_rec v dt xd None None]) (w_rrk B) (w_queue B) (w_seen B)
                      (w_blocks st) (prr_ver_of v)) in *.
    (* '..' *)
    destruct Gd as (rd0 & Hpd & _).
    assert (S2 : exists l2, prr_record img' d (B1, Some (ps_printable (prr_pad (mrr_drec v dt xd)))) (enc xdd) =
                 POk (prr_after v dt xdd None (w_blocks st) B1, l2)).
    { eexists. apply (prr_record_good dt s Hdt Hwf img' xdd _ d B1 _ None (w_blocks st) Gdd).
      - apply prr_blk_noce. intros r0 Hr0. apply (prr_nodot_noce dt s Hdt Hwf xdd r0); auto.
      - intros r0 Hr0. destruct (prr_complete v dt xdd r0 Hr0) as (_ & _ & P3 & _). exact (proj2 P3).
      - unfold prr_skip_for. destruct (qd_root d) eqn:Er.
        + change (ps_is_dot (prr_pad (mrr_drec v dt xdd))) with false. cbv iota.
          cbn [B1 w_cur B prr_begin_dir app prr_spec_rec q_rr]. unfold prr_spec_rrd. rewrite Hpd. reflexivity.
        + rewrite (Hrr eq_refl). reflexivity.
      - intros r0 Hr0. split; [auto|]. intros Hs. exfalso.
        rewrite (prr_nodot_noce dt s Hdt Hwf xdd r0) in Hs; auto. discriminate.
      - right. reflexivity.
      - intros a Ha. cbn [B1 w_cur B prr_begin_dir app] in Ha. destruct Ha as [<-|[]]. reflexivity. }
    destruct S2 as (l2 & S2). rewrite S2 in Hscan.
    rewrite (prr_dots_after xdd None (w_blocks st) B1 (or_intror eq_refl)) in Hscan.
    set (B2 := mk_wst (w_dirs B1) (w_cur B1 ++ [prr_spec_rec v dt xdd None None]) (w_rrk B1) (w_queue B1) (w_seen B1)
                      (w_blocks st) (prr_ver_of v)) in *.
    (* children[2:] *)
    destruct (prr_dir_names dt s Hwf Hsorted p m dl kids Hp) as [Hs Hplain].
    destruct (prr_kids_fold p m dl kids d Hp kids 0%nat B2 done l2) as (last' & Hf & Ht).
    - intros i c Hi. exact Hi.
    - exact Hs.
    - split; [|exact Hrr]. intros _. eexists. eexists. eexists. split; [reflexivity|].
      cbn [prr_spec_rec q_rr]. unfold prr_spec_rrd. rewrite Hpd. split; reflexivity.
    - intros a c Ha Hc. destruct (Hplain c Hc) as [N0 N1].
      cbn [B2 B1 w_cur B prr_begin_dir app] in Ha. destruct Ha as [<-|[<-|[]]]; cbn [prr_spec_rec q_rec prr_pad Codec.ident mrr_drec].
      + apply ps_lt_dot. exact N0.
      + apply ps_lt_dotdot. exact N0.
    - exact Htb.
    - intros i Hi. apply Hnew. lia.
    - reflexivity.
    - rewrite Hf in Hscan. exists (prr_spec_kids v dt t L p 0 kids B2), last'.
      split; [exact Hread|]. split; [exact Hscan|].
      assert (Espec : prr_spec_dir v dt t L p dl kids st = prr_end_dir (prr_spec_kids v dt t L p 0 kids B2)).
      { unfold prr_spec_dir, mrr_dir_specs. rewrite Hp. fold (mrr_dot_spec s p dl). fold xd. fold xdd.
        rewrite Hq. reflexivity. }
      split; [symmetry; exact Espec|]. rewrite Espec. exact Ht.
  Qed.
End Dir3.

Print Assumptions prr_dir_scan.
