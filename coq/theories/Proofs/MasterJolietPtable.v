(* MasterJoliet, part 6: the path table of one hierarchy (PathTable's walk over mj_ptree) against the
   directory extents of the same hierarchy (Master's walk over mj_dtree), for any mj_tree_ok hierarchy.
     mj_pt_extents / mj_pt_names / mj_pt_paths   the k-th record of the table carries the extent, the
                     identifier and (through its parent chain) the name path of the k-th WRITTEN directory
     mj_pt_fields    every record's fields fit their struct formats when there are at most 65535
                     directories
     mj_pt_bytes     both tables encode, have ltotal lw_ptr bytes, hold the same records; the L table
                     parses back to these records and PathTable's independent reader rebuilds from it
                     the name path of every directory, in the order of the written extents *)
From Coq Require Import ZArith List Bool Lia ZifyBool.
From PV.Base Require Import Prim ListX.
From PV.Gen Require Import GenConst GenFun.
From PV.Model Require Import Codec Pack PathTable Master MasterJoliet.
From PV.Model Require Alloc Account AccountLinks AccountNs.
From PV.Proofs Require Import CodecProofs PackProofs PathTableLemmas PathTableProofs.
From PV.Proofs Require AccountLemmas AccountLinksLemmas.
From PV.Proofs Require Import MasterPack MasterBfs MasterWf MasterJolietWf MasterJolietWalk.
Import ListNotations.
Local Open Scope Z_scope.
Ltac Zify.zify_post_hook ::= Z.to_euclidean_division_equations.

Definition mj_name_at (t : lnode) (p : list nat) : list Z :=
  match mj_node_at t p with Some n => lname n | None => [] end.

Lemma mj_ext_at_self B : NoDup (map d_pos B) -> forall r, In r B -> ms_ext_at B (d_pos r) = d_extent r.
Proof.
  unfold ms_ext_at. induction B as [|x B IH]; intros Hnd r Hr; [destruct Hr|].
  cbn [map] in Hnd. inversion Hnd as [|? ? Hx Hnd']; subst. cbn [find].
  destruct (ms_pos_eqb (d_pos x) (d_pos r)) eqn:E.
  - apply ms_pos_eqb_eq in E. destruct Hr as [->|Hr]; [reflexivity|].
    exfalso. apply Hx. rewrite E. apply in_map. exact Hr.
  - destruct Hr as [->|Hr]; [|apply IH; assumption].
    exfalso. assert (ms_pos_eqb (d_pos r) (d_pos r) = true) by (apply ms_pos_eqb_eq; reflexivity). congruence.
Qed.

Lemma mj_opt_concat_some {A} (f : A -> option (list Z)) l :
  (forall x, In x l -> exists b, f x = Some b) -> exists b, opt_concat (map f l) = Some b.
Proof.
  induction l as [|x l IH]; intros H; [exists []; reflexivity|].
  destruct (H x (or_introl eq_refl)) as [b Hb]. destruct IH as [bs Hbs]; [intros y Hy; apply H; right; exact Hy|].
  exists (b ++ bs). cbn [map opt_concat]. rewrite Hb, Hbs. reflexivity.
Qed.

Section Ptable.
  Variable t : lnode.
  Variable start : Z.
  Hypothesis Hroot : mj_root_ok t = true.
  Hypothesis Hok : mj_tree_ok t = true.
  Hypothesis Hstart : 0 <= start.
  Hypothesis Hend : assign_end start (mj_dtree t) <= 4294967296.

  Local Notation DB := (bfs start (mj_dtree t)).
  Local Notation PB := (bfs start (mj_ptree t)).
  Local Notation DBd := (filter mj_big DB).
  Local Notation ps := (mj_dir_positions t).

  Lemma mj_pt_isdir : AccountLinks.l_is_dir t = true.
  Proof. destruct t; [discriminate|reflexivity]. Qed.

  Lemma mj_pt_proj : map mj_proj DBd = map mj_proj PB.
  Proof. exact (proj1 (mj_walk_sim start t mj_pt_isdir Hok)). Qed.

  Lemma mj_pt_ps : ps = map d_pos DBd.
  Proof. apply mj_positions_walk. exact Hok. Qed.

  Lemma mj_pt_length : length PB = length ps.
  Proof. rewrite mj_pt_ps, map_length, <- (map_length mj_proj PB), <- mj_pt_proj, map_length. reflexivity. Qed.

  Lemma mj_pt_via {A} (f : dirrec -> A) (g : list Z * Z * Z * list (list Z) -> A) :
    (forall r, f r = g (mj_proj r)) -> map f PB = map f DBd.
  Proof.
    intros H. rewrite (map_ext f (fun r => g (mj_proj r)) H), <- (map_map mj_proj g), <- mj_pt_proj, map_map.
    symmetry. apply map_ext. exact H.
  Qed.

  Lemma mj_DBd_in r : In r DBd -> In r DB /\ 0 < d_blocks r.
  Proof. intros H. apply filter_In in H. destruct H as [H1 H2]. unfold mj_big in H2. split; [exact H1|lia]. Qed.

  (* the k-th record carries the extent of the k-th written directory *)
  Theorem mj_pt_extents : map d_extent PB = map (ms_ext_at DB) ps.
  Proof.
    rewrite (mj_pt_via d_extent (fun x => snd (fst x))) by reflexivity.
    rewrite mj_pt_ps, map_map. apply map_ext_in. intros r Hr. symmetry.
    apply mj_ext_at_self; [apply ms_bfs_nodup|apply (mj_DBd_in r Hr)].
  Qed.

  (* ... its identifier *)
  Theorem mj_pt_names : map d_name PB = map (mj_name_at t) ps.
  Proof.
    rewrite (mj_pt_via d_name (fun x => fst (fst (fst x)))) by reflexivity.
    rewrite mj_pt_ps, map_map. apply map_ext_in. intros r Hr. destruct (mj_DBd_in r Hr) as [Hin _].
    destruct (bfs_describes_tree _ _ _ Hin) as (ks & Hs & _). rewrite mj_subtree_dtree in Hs.
    unfold mj_name_at. destruct (mj_node_at t (d_pos r)) as [n|]; [|discriminate].
    cbn [option_map] in Hs. injection Hs as Hs. rewrite <- mj_tname_dtree, Hs. reflexivity.
  Qed.

  (* ... and the name path the walk recorded for it is the list of identifiers down to it *)
  Theorem mj_pt_paths : map d_path PB = map (mj_names_at t) ps.
  Proof.
    rewrite (mj_pt_via d_path (fun x => snd x)) by reflexivity.
    rewrite mj_pt_ps, map_map. apply map_ext_in. intros r Hr. destruct (mj_DBd_in r Hr) as [Hin _].
    apply (mj_walk_names start). exact Hin.
  Qed.

  Lemma mj_pt_extent_range r : In r DBd -> 0 <= d_extent r <= 4294967295.
  Proof.
    intros Hr. destruct (mj_DBd_in r Hr) as [Hin Hb].
    pose proof (ms_bfs_bounds _ _ r (mj_blocks_ok t Hok) Hin). lia.
  Qed.

  Lemma mj_pt_name_range p : In p ps -> 0 <= zlen (mj_name_at t p) <= 255.
  Proof.
    intros Hp. unfold mj_dir_positions in Hp. apply filter_In in Hp. destruct Hp as [_ Hd].
    destruct (mj_is_dir_node _ _ Hd) as (nm & dl & kids & Hn). unfold mj_name_at. rewrite Hn.
    pose proof (mj_ok_name _ (mj_ok_at _ _ _ Hok Hn)) as H. cbn [AccountLinks.lname] in *.
    unfold Account.dr_len_of in H. pose proof (zlen_nonneg nm). lia.
  Qed.

  Hypothesis Hnd : Z.of_nat (length ps) <= 65535.

  Theorem mj_pt_fields r : In r PB ->
    0 <= zlen (d_name r) <= 255 /\ 0 <= d_extent r <= 4294967295 /\ 1 <= d_parent r <= 65535.
  Proof.
    intros Hr. split; [|split].
    - assert (H : In (d_name r) (map d_name PB)) by (apply in_map; exact Hr).
      rewrite mj_pt_names in H. apply in_map_iff in H. destruct H as (p & <- & Hp).
      apply mj_pt_name_range. exact Hp.
    - assert (H : In (d_extent r) (map d_extent PB)) by (apply in_map; exact Hr).
      rewrite (mj_pt_via d_extent (fun x => snd (fst x))) in H by reflexivity.
      apply in_map_iff in H. destruct H as (r' & <- & Hr'). apply mj_pt_extent_range. exact Hr'.
    - apply In_nth_error in Hr. destruct Hr as [k Hk].
      destruct (bfs_numbers start (mj_ptree t)) as (_ & Hn & (rest & Hhd) & Hp).
      assert (Hlt : (k < length PB)%nat) by (apply nth_error_Some; congruence).
      rewrite mj_pt_length in Hlt.
      destruct k as [|k].
      + rewrite Hhd in Hk. cbn [nth_error] in Hk. injection Hk as <-. cbn [d_parent]. lia.
      + destruct (Hp k r Hk) as (p & j & _ & _ & Hr & _). pose proof (Hn _ _ Hk). lia.
  Qed.

  Lemma mj_pt_enc r : In r PB ->
    (exists b, enc_ptr_le (ptrec_of r) = Some b) /\ (exists b, enc_ptr_be (ptrec_of r) = Some b).
  Proof.
    intros Hr. destruct (mj_pt_fields r Hr) as (H1 & H2 & H3).
    assert (Hle : exists b, enc_ptr_le (ptrec_of r) = Some b).
    { unfold enc_ptr_le, enc_ptr_raw, ptrec_of. cbn [pt_xattr pt_extent pt_parent pt_dirid].
      replace (u8_ok (zlen (d_name r)) && u8_ok 0 && u32_ok (d_extent r) && u16_ok (d_parent r)) with true
        by (unfold u8_ok, u16_ok, u32_ok; lia).
      eexists. reflexivity. }
    split; [exact Hle|]. apply ptr_le_be_same_domain. exact Hle.
  Qed.

  Theorem mj_pt_bytes :
    exists L M,
      ptable_bytes_le start (mj_ptree t) = Some L /\ ptable_bytes_be start (mj_ptree t) = Some M /\
      zlen L = AccountLinks.ltotal AccountLinks.lw_ptr t /\
      zlen M = AccountLinks.ltotal AccountLinks.lw_ptr t /\
      (exists rs, parse_ptable (length L) L = Some rs /\
                  map tuple_of_ptrec rs = map rec_tuple PB) /\
      reader_of_bytes L = Some (map (mj_names_at t) ps).
  Proof.
    destruct (mj_opt_concat_some (fun r => enc_ptr_le (ptrec_of r)) PB) as [L HL];
      [intros r Hr; apply (mj_pt_enc r Hr)|].
    destruct (mj_opt_concat_some (fun r => enc_ptr_be (ptrec_of r)) PB) as [M HM];
      [intros r Hr; apply (mj_pt_enc r Hr)|].
    exists L, M. fold (ptable_bytes_le start (mj_ptree t)) in HL. fold (ptable_bytes_be start (mj_ptree t)) in HM.
    split; [exact HL|]. split; [exact HM|].
    pose proof (ptable_bytes_length start (mj_ptree t) L (or_introl HL)) as SL.
    pose proof (ptable_bytes_length start (mj_ptree t) M (or_intror HM)) as SM.
    unfold ptable_size in SL, SM. rewrite (mj_ptree_size t mj_pt_isdir) in SL, SM.
    split; [exact SL|]. split; [exact SM|]. split.
    - destruct (parse_ptable_sound start (mj_ptree t) L HL) as (rs & H1 & H2). exists rs. split; assumption.
    - rewrite (reader_of_bytes_sound start (mj_ptree t) L HL), mj_pt_paths. reflexivity.
  Qed.
End Ptable.

Print Assumptions mj_pt_extents.
Print Assumptions mj_pt_names.
Print Assumptions mj_pt_fields.
Print Assumptions mj_pt_bytes.
