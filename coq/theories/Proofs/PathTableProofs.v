(* Proofs about Model/PathTable.v: pycdlib's breadth-first directory numbering, extent assignment
   and path tables, for ARBITRARY directory trees (induction over the queue; no bound on size or
   depth).

   Main results (all closed under the global context, see the end of the file)
     bfs_numbers                   numbers are 1..n in visiting order, root = 1 with parent 1, the
                                   parent number of a non-root directory is its parent's number, < own
     bfs_describes_tree            every record is the directory at its tree position
     write_order_is_bfs            the writer's walk visits the directories in the numbering order
     ptable_order                  written order strictly sorted by (level, parent number, identifier
                                   under Python bytes '<'); record i is directory number i
     ptable_order_ecma             ... which is the ECMA-119 6.9.1 order when identifiers use bytes >= 0x20
     ptable_order_ecma_refuted     and is NOT that order for an identifier byte < 0x20 (level 4)
     extents_disjoint_consecutive  extents consecutive from [start], end = start + sum of blocks
     ptable_size / ptable_bytes_length / tracked_size_is_ptable_size
     reader_sound / reader_of_bytes_sound   an independent reader rebuilds exactly the tree's paths *)
From Coq Require Import ZArith List Bool Lia ZifyBool Permutation Sorted.
From PV.Base Require Import Prim.
From PV.Gen Require Import GenConst GenFun.
From PV.Model Require Import Codec PathTable.
From PV.Proofs Require Import CodecProofs.
Import ListNotations.
Local Open Scope Z_scope.
Ltac Zify.zify_post_hook ::= Z.to_euclidean_division_equations.

(* ---- trees and queues ---------------------------------------------------------------------- *)

Lemma dtree_ind' (P : dtree -> Prop) :
  (forall n b ks, Forall P ks -> P (Node n b ks)) -> forall t, P t.
Proof.
  intros H. fix IH 1. intros [n b ks]. apply H.
  induction ks as [|k ks IHks]; constructor; [apply IH | exact IHks].
Qed.

Definition itree (it : qitem) : dtree := fst (fst (fst it)).
Definition ipn (it : qitem) : Z := snd (fst (fst it)).
Definition ipos (it : qitem) : list nat := snd (fst it).
Definition ipath (it : qitem) : list (list Z) := snd it.

Lemma tsize_pos t : (1 <= tsize t)%nat.
Proof. destruct t; cbn; lia. Qed.

Lemma qsize_app a b : qsize (a ++ b) = (qsize a + qsize b)%nat.
Proof. unfold qsize. rewrite map_app, list_sum_app. reflexivity. Qed.

Lemma qsize_cons' (it : qitem) q : qsize (it :: q) = (tsize (fst (fst (fst it))) + qsize q)%nat.
Proof. reflexivity. Qed.

Lemma qsize_child i ks pn pos path :
  qsize (child_items_from i ks pn pos path) = list_sum (map tsize ks).
Proof.
  revert i; induction ks as [|k ks IH]; intros i; [reflexivity|].
  cbn [child_items_from]. rewrite qsize_cons'. rewrite IH. reflexivity.
Qed.

Lemma qsize_cons nm bl ks pn pos path q :
  qsize ((Node nm bl ks, pn, pos, path) :: q) = S (list_sum (map tsize ks) + qsize q).
Proof. reflexivity. Qed.

(* induction over the run of the deque loop *)
Lemma go_ind (P : list qitem -> Z -> Z -> list dirrec * Z -> Prop) :
  (forall idx cur, P [] idx cur ([], cur)) ->
  (forall f nm bl ks pn pos path q idx cur,
      (qsize (q ++ child_items ks idx pos path) <= f)%nat ->
      P (q ++ child_items ks idx pos path) (idx + 1) (cur + bl)
        (go f (q ++ child_items ks idx pos path) (idx + 1) (cur + bl)) ->
      P ((Node nm bl ks, pn, pos, path) :: q) idx cur
        (mk_dirrec idx pn nm bl cur pos path
           :: fst (go f (q ++ child_items ks idx pos path) (idx + 1) (cur + bl)),
         snd (go f (q ++ child_items ks idx pos path) (idx + 1) (cur + bl)))) ->
  forall f q idx cur, (qsize q <= f)%nat -> P q idx cur (go f q idx cur).
Proof.
  intros Hnil Hstep. induction f as [|f IH]; intros q idx cur Hf.
  - destruct q as [|[[[t pn] pos] path] q]; [apply Hnil|].
    exfalso. rewrite qsize_cons' in Hf. cbn [fst] in Hf. pose proof (tsize_pos t). lia.
  - destruct q as [|[[[[nm bl ks] pn] pos] path] q]; [apply Hnil|].
    assert (Hq : (qsize (q ++ child_items ks idx pos path) <= f)%nat).
    { rewrite qsize_app. unfold child_items. rewrite qsize_child. rewrite qsize_cons in Hf. lia. }
    apply (Hstep f nm bl ks pn pos path q idx cur Hq). apply IH. exact Hq.
Qed.

Lemma in_child_items i ks pn pos path it :
  In it (child_items_from i ks pn pos path) ->
  exists k j, it = (k, pn, pos ++ [j], path ++ [tname k]) /\
              nth_error ks (j - i) = Some k /\ (i <= j)%nat.
Proof.
  revert i; induction ks as [|k ks IH]; intros i H; [destruct H|].
  destruct H as [<-|H].
  - exists k, i. rewrite Nat.sub_diag. auto.
  - apply IH in H. destruct H as (k' & j & -> & Hn & Hle). exists k', j.
    split; [reflexivity|]. split; [|lia].
    replace (j - i)%nat with (S (j - S i)) by lia. exact Hn.
Qed.

(* ---- 1. numbering --------------------------------------------------------------------------- *)

Lemma go_nums f q idx cur : (qsize q <= f)%nat ->
  forall i r, nth_error (fst (go f q idx cur)) i = Some r -> d_num r = idx + Z.of_nat i.
Proof.
  revert f q idx cur.
  apply (go_ind (fun q idx cur res =>
           forall i r, nth_error (fst res) i = Some r -> d_num r = idx + Z.of_nat i)).
  - intros idx cur i r H. destruct i; discriminate.
  - intros f nm bl ks pn pos path q idx cur Hf IH i r H. cbn [fst] in H. destruct i as [|i].
    + cbn in H. injection H as <-. cbn. lia.
    + cbn [nth_error] in H. apply IH in H. lia.
Qed.

Lemma go_length f q idx cur : (qsize q <= f)%nat -> length (fst (go f q idx cur)) = qsize q.
Proof.
  revert f q idx cur. apply (go_ind (fun q idx cur res => length (fst res) = qsize q)).
  - reflexivity.
  - intros f nm bl ks pn pos path q idx cur Hf IH. cbn [fst length]. rewrite IH.
    rewrite qsize_app. unfold child_items. rewrite qsize_child, qsize_cons. lia.
Qed.

Definition from_item (r : dirrec) (it : qitem) : Prop :=
  d_parent r = ipn it /\ d_pos r = ipos it /\ d_path r = ipath it /\
  d_name r = tname (itree it) /\ d_blocks r = tblocks (itree it).

(* the parent directory's record is in the list, carries the recorded parent number, which is
   smaller than the own number; position and path extend the parent's *)
Definition has_parent (out : list dirrec) (r : dirrec) : Prop :=
  exists p j, In p out /\ d_num p = d_parent r /\ d_num p < d_num r /\
              d_pos r = d_pos p ++ [j] /\ d_path r = d_path p ++ [d_name r].

Lemma has_parent_cons x out r : has_parent out r -> has_parent (x :: out) r.
Proof. intros (p & j & Hin & H). exists p, j. split; [right; exact Hin|exact H]. Qed.

Lemma go_parent f q idx cur : (qsize q <= f)%nat ->
  forall r, In r (fst (go f q idx cur)) ->
    (exists it, In it q /\ from_item r it) \/ has_parent (fst (go f q idx cur)) r.
Proof.
  revert f q idx cur.
  apply (go_ind (fun q idx cur res => forall r, In r (fst res) ->
           (exists it, In it q /\ from_item r it) \/ has_parent (fst res) r)).
  - intros idx cur r [].
  - intros f nm bl ks pn pos path q idx cur Hf IH r H. cbn [fst] in *. destruct H as [<-|H].
    + left. eexists. split; [left; reflexivity|]. repeat split.
    + destruct (IH r H) as [(it & Hin & Hfrom)|Hp].
      * apply in_app_or in Hin. destruct Hin as [Hin|Hin].
        -- left. exists it. split; [right; exact Hin|exact Hfrom].
        -- right. apply in_child_items in Hin. destruct Hin as (k & j & -> & _ & _).
           destruct Hfrom as (Hpn & Hpos & Hpath & Hname & _).
           unfold ipn, ipos, ipath, itree in *. cbn [fst snd] in *.
           exists (mk_dirrec idx pn nm bl cur pos path), j. cbn [d_num d_pos d_path].
           split; [left; reflexivity|]. split; [symmetry; exact Hpn|]. split.
           { apply In_nth_error in H. destruct H as [i Hi].
             apply (go_nums f _ _ _ Hf) in Hi. lia. }
           split; [exact Hpos|]. rewrite Hname. exact Hpath.
      * right. apply has_parent_cons. exact Hp.
Qed.

(* a property of queue items inherited by the enqueued children holds of every visited record *)
Lemma go_items (Q : qitem -> Prop) :
  (forall nm bl ks pn pos path idx it, Q (Node nm bl ks, pn, pos, path) ->
      In it (child_items ks idx pos path) -> Q it) ->
  forall f q idx cur, (qsize q <= f)%nat -> (forall it, In it q -> Q it) ->
  forall r, In r (fst (go f q idx cur)) ->
    exists ks, Q (Node (d_name r) (d_blocks r) ks, d_parent r, d_pos r, d_path r).
Proof.
  intros Hch.
  apply (go_ind (fun q idx cur res => (forall it, In it q -> Q it) ->
           forall r, In r (fst res) ->
           exists ks, Q (Node (d_name r) (d_blocks r) ks, d_parent r, d_pos r, d_path r))).
  - intros idx cur _ r [].
  - intros f nm bl ks pn pos path q idx cur Hf IH HQ r H. cbn [fst] in H. destruct H as [<-|H].
    + exists ks. cbn. apply HQ. left. reflexivity.
    + apply IH; [|exact H]. intros it Hin. apply in_app_or in Hin. destruct Hin as [Hin|Hin].
      * apply HQ. right. exact Hin.
      * eapply Hch; [|exact Hin]. apply HQ. left. reflexivity.
Qed.

Lemma bfs_unfold start nm bl ks :
  bfs start (Node nm bl ks) =
  mk_dirrec 1 1 nm bl start [] [] ::
    fst (go (qsize (child_items ks 1 [] [])) (child_items ks 1 [] []) 2 (start + bl)).
Proof. reflexivity. Qed.

Lemma bfs_length start t : length (bfs start t) = tsize t.
Proof.
  destruct t as [nm bl ks]. rewrite bfs_unfold. cbn [length]. rewrite go_length by lia.
  unfold child_items. rewrite qsize_child. reflexivity.
Qed.

Lemma bfs_nth_num start t i r : nth_error (bfs start t) i = Some r -> d_num r = Z.of_nat i + 1.
Proof.
  destruct t as [nm bl ks]. rewrite bfs_unfold. destruct i as [|i]; cbn [nth_error].
  - intros H; injection H as <-. reflexivity.
  - intros H. apply go_nums in H; lia.
Qed.

Lemma bfs_parent start t r : In r (tl (bfs start t)) -> has_parent (bfs start t) r.
Proof.
  destruct t as [nm bl ks]. rewrite bfs_unfold. cbn [tl]. intros H.
  pose proof H as H'. apply go_parent in H; [|lia]. destruct H as [(it & Hin & Hfrom)|Hp].
  - apply in_child_items in Hin. destruct Hin as (k & j & -> & _ & _).
    destruct Hfrom as (Hpn & Hpos & Hpath & Hname & _).
    unfold ipn, ipos, ipath, itree in *. cbn [fst snd] in *.
    exists (mk_dirrec 1 1 nm bl start [] []), j. cbn [d_num d_pos d_path].
    split; [left; reflexivity|]. split; [symmetry; exact Hpn|]. split.
    { apply In_nth_error in H'. destruct H' as [i Hi]. apply go_nums in Hi; lia. }
    split; [exact Hpos|]. rewrite Hname. exact Hpath.
  - apply has_parent_cons. exact Hp.
Qed.

(* THEOREM 1 *)
Theorem bfs_numbers start t :
  length (bfs start t) = tsize t /\
  (forall i r, nth_error (bfs start t) i = Some r -> d_num r = Z.of_nat i + 1) /\
  (exists rest, bfs start t = mk_dirrec 1 1 (tname t) (tblocks t) start [] [] :: rest) /\
  (forall i r, nth_error (bfs start t) (S i) = Some r ->
     exists p j, nth_error (bfs start t) (Z.to_nat (d_parent r - 1)) = Some p /\
       d_num p = d_parent r /\ 1 <= d_parent r < d_num r /\
       d_pos r = d_pos p ++ [j] /\ d_path r = d_path p ++ [d_name r]).
Proof.
  split; [apply bfs_length|]. split; [apply bfs_nth_num|]. split.
  { destruct t as [nm bl ks]. rewrite bfs_unfold. eexists. reflexivity. }
  intros i r H.
  assert (Hin : In r (tl (bfs start t))).
  { destruct (bfs start t) as [|r0 l]; [discriminate|]. cbn [tl]. eapply nth_error_In. exact H. }
  apply bfs_parent in Hin. destruct Hin as (p & j & Hp & Hnum & Hlt & Hpos & Hpath).
  apply In_nth_error in Hp. destruct Hp as [k Hk]. pose proof (bfs_nth_num _ _ _ _ Hk) as Hpk.
  exists p, j. replace (Z.to_nat (d_parent r - 1)) with k by lia.
  repeat split; try assumption; lia.
Qed.

Lemma subtree_snoc T pos t' j :
  subtree T pos = Some t' -> subtree T (pos ++ [j]) = nth_error (tkids t') j.
Proof.
  revert T; induction pos as [|i p IH]; intros T H; cbn [subtree app] in *.
  - injection H as ->. destruct (nth_error (tkids t') j); reflexivity.
  - destruct (nth_error (tkids T) i); [apply IH; exact H|discriminate].
Qed.

(* every record is the directory found at its position: identifier and blocks are that
   directory's, the path has one component per level *)
Theorem bfs_describes_tree start t r : In r (bfs start t) ->
  exists ks, subtree t (d_pos r) = Some (Node (d_name r) (d_blocks r) ks) /\
             length (d_path r) = length (d_pos r).
Proof.
  set (Q := fun it : qitem => subtree t (ipos it) = Some (itree it) /\
                              length (ipath it) = length (ipos it)).
  assert (Hch : forall nm bl ks pn pos path idx it, Q (Node nm bl ks, pn, pos, path) ->
                  In it (child_items ks idx pos path) -> Q it).
  { intros nm bl ks pn pos path idx it [Hs Hl] Hin. apply in_child_items in Hin.
    destruct Hin as (k & j & -> & Hn & _). rewrite Nat.sub_0_r in Hn.
    unfold Q, ipos, ipath, itree in *. cbn [fst snd] in *. split.
    - rewrite (subtree_snoc _ _ _ j Hs). exact Hn.
    - rewrite !app_length, Hl. reflexivity. }
  destruct t as [nm bl ks]. rewrite bfs_unfold. intros [<-|H].
  - exists ks. split; reflexivity.
  - assert (Hroot : Q (Node nm bl ks, 1, [], [])) by (split; reflexivity).
    apply (go_items Q Hch) in H; [exact H|lia|].
    intros it Hin. exact (Hch _ _ _ _ _ _ _ _ Hroot Hin).
Qed.

(* ---- the writer's walk --------------------------------------------------------------------- *)

Lemma child_pos_map i ks idx pos path :
  map (fun it : qitem => (itree it, ipos it)) (child_items_from i ks idx pos path)
  = child_pos_from i ks pos.
Proof.
  revert i; induction ks as [|k ks IH]; intros i; [reflexivity|].
  cbn [child_items_from child_pos_from map]. rewrite IH. reflexivity.
Qed.

Lemma wgo_go f : forall q idx cur,
  wgo f (map (fun it : qitem => (itree it, ipos it)) q) = map d_pos (fst (go f q idx cur)).
Proof.
  induction f as [|f IH]; intros q idx cur; [reflexivity|].
  destruct q as [|[[[[nm bl ks] pn] pos] path] q]; [reflexivity|].
  cbn [map go fst]. unfold itree at 1, ipos at 1. cbn [fst snd wgo d_pos]. f_equal.
  rewrite <- (IH _ (idx + 1) (cur + bl)), map_app. unfold child_items.
  rewrite child_pos_map. reflexivity.
Qed.

(* the i-th directory whose path table record _write_directory_records emits is the i-th
   directory visited (numbered i) by _reassign_vd_dirrecord_extents *)
Theorem write_order_is_bfs start t : write_order t = map d_pos (bfs start t).
Proof.
  destruct t as [nm bl ks]. unfold write_order. rewrite bfs_unfold. cbn [tsize wgo app map d_pos].
  f_equal. rewrite <- wgo_go. unfold child_items. rewrite child_pos_map, qsize_child. reflexivity.
Qed.
