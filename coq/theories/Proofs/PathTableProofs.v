(* Proofs about Model/PathTable.v: pycdlib's breadth-first directory numbering, extent assignment
   and path tables, for ARBITRARY directory trees (induction over the queue; no bound on size or
   depth).

   Main results (all closed under the global context, see the end of the file)
     bfs_numbers                   numbers are 1..n in visiting order, root = 1 with parent 1, the
                                   parent number of a non-root directory is its parent's number, < own
     bfs_describes_tree            every record is the directory at its tree position
     write_order_is_bfs            the writer's walk visits the directories in the numbering order
     ptable_order                  written order strictly sorted by (level, parent number, identifier
                                   under Python bytes '<'); record i is directory number i
     ptable_order_ecma             ... which is the ECMA-119 6.9.1 order when identifiers use bytes >= 0x20
     ptable_order_ecma_refuted     and is NOT that order for an identifier byte < 0x20 (level 4)
     extents_disjoint_consecutive  extents consecutive from [start], end = start + sum of blocks
     ptable_size / ptable_bytes_length / tracked_size_is_ptable_size
     reader_sound / reader_of_bytes_sound   an independent reader rebuilds exactly the tree's paths *)
From Coq Require Import ZArith List Bool Lia ZifyBool Permutation Sorted.
From PV.Base Require Import Prim.
From PV.Gen Require Import GenConst GenFun.
From PV.Model Require Import Codec PathTable.
From PV.Proofs Require Import CodecProofs.
Import ListNotations.
Local Open Scope Z_scope.
Ltac Zify.zify_post_hook ::= Z.to_euclidean_division_equations.

(* ---- trees and queues ---------------------------------------------------------------------- *)

Lemma dtree_ind' (P : dtree -> Prop) :
  (forall n b ks, Forall P ks -> P (Node n b ks)) -> forall t, P t.
Proof.
  intros H. fix IH 1. intros [n b ks]. apply H.
  induction ks as [|k ks IHks]; constructor; [apply IH | exact IHks].
Qed.

Definition itree (it : qitem) : dtree := fst (fst (fst it)).
Definition ipn (it : qitem) : Z := snd (fst (fst it)).
Definition ipos (it : qitem) : list nat := snd (fst it).
Definition ipath (it : qitem) : list (list Z) := snd it.

Lemma tsize_pos t : (1 <= tsize t)%nat.
Proof. destruct t; cbn; lia. Qed.

Lemma qsize_app a b : qsize (a ++ b) = (qsize a + qsize b)%nat.
Proof. unfold qsize. rewrite map_app, list_sum_app. reflexivity. Qed.

Lemma qsize_cons' (it : qitem) q : qsize (it :: q) = (tsize (fst (fst (fst it))) + qsize q)%nat.
Proof. reflexivity. Qed.

Lemma qsize_child i ks pn pos path :
  qsize (child_items_from i ks pn pos path) = list_sum (map tsize ks).
Proof.
  revert i; induction ks as [|k ks IH]; intros i; [reflexivity|].
  cbn [child_items_from]. rewrite qsize_cons'. rewrite IH. reflexivity.
Qed.

Lemma qsize_cons nm bl ks pn pos path q :
  qsize ((Node nm bl ks, pn, pos, path) :: q) = S (list_sum (map tsize ks) + qsize q).
Proof. reflexivity. Qed.

(* induction over the run of the deque loop *)
Lemma go_ind (P : list qitem -> Z -> Z -> list dirrec * Z -> Prop) :
  (forall idx cur, P [] idx cur ([], cur)) ->
  (forall f nm bl ks pn pos path q idx cur,
      (qsize (q ++ child_items ks idx pos path) <= f)%nat ->
      P (q ++ child_items ks idx pos path) (idx + 1) (cur + bl)
        (go f (q ++ child_items ks idx pos path) (idx + 1) (cur + bl)) ->
      P ((Node nm bl ks, pn, pos, path) :: q) idx cur
        (mk_dirrec idx pn nm bl cur pos path
           :: fst (go f (q ++ child_items ks idx pos path) (idx + 1) (cur + bl)),
         snd (go f (q ++ child_items ks idx pos path) (idx + 1) (cur + bl)))) ->
  forall f q idx cur, (qsize q <= f)%nat -> P q idx cur (go f q idx cur).
Proof.
  intros Hnil Hstep. induction f as [|f IH]; intros q idx cur Hf.
  - destruct q as [|[[[t pn] pos] path] q]; [apply Hnil|].
    exfalso. rewrite qsize_cons' in Hf. cbn [fst] in Hf. pose proof (tsize_pos t). lia.
  - destruct q as [|[[[[nm bl ks] pn] pos] path] q]; [apply Hnil|].
    assert (Hq : (qsize (q ++ child_items ks idx pos path) <= f)%nat).
    { rewrite qsize_app. unfold child_items. rewrite qsize_child. rewrite qsize_cons in Hf. lia. }
    apply (Hstep f nm bl ks pn pos path q idx cur Hq). apply IH. exact Hq.
Qed.

Lemma in_child_items i ks pn pos path it :
  In it (child_items_from i ks pn pos path) ->
  exists k j, it = (k, pn, pos ++ [j], path ++ [tname k]) /\
              nth_error ks (j - i) = Some k /\ (i <= j)%nat.
Proof.
  revert i; induction ks as [|k ks IH]; intros i H; [destruct H|].
  destruct H as [<-|H].
  - exists k, i. rewrite Nat.sub_diag. auto.
  - apply IH in H. destruct H as (k' & j & -> & Hn & Hle). exists k', j.
    split; [reflexivity|]. split; [|lia].
    replace (j - i)%nat with (S (j - S i)) by lia. exact Hn.
Qed.

(* ---- 1. numbering --------------------------------------------------------------------------- *)

Lemma go_nums f q idx cur : (qsize q <= f)%nat ->
  forall i r, nth_error (fst (go f q idx cur)) i = Some r -> d_num r = idx + Z.of_nat i.
Proof.
  revert f q idx cur.
  apply (go_ind (fun q idx cur res =>
           forall i r, nth_error (fst res) i = Some r -> d_num r = idx + Z.of_nat i)).
  - intros idx cur i r H. destruct i; discriminate.
  - intros f nm bl ks pn pos path q idx cur Hf IH i r H. cbn [fst] in H. destruct i as [|i].
    + cbn in H. injection H as <-. cbn. lia.
    + cbn [nth_error] in H. apply IH in H. lia.
Qed.

Lemma go_length f q idx cur : (qsize q <= f)%nat -> length (fst (go f q idx cur)) = qsize q.
Proof.
  revert f q idx cur. apply (go_ind (fun q idx cur res => length (fst res) = qsize q)).
  - reflexivity.
  - intros f nm bl ks pn pos path q idx cur Hf IH. cbn [fst length]. rewrite IH.
    rewrite qsize_app. unfold child_items. rewrite qsize_child, qsize_cons. lia.
Qed.

Definition from_item (r : dirrec) (it : qitem) : Prop :=
  d_parent r = ipn it /\ d_pos r = ipos it /\ d_path r = ipath it /\
  d_name r = tname (itree it) /\ d_blocks r = tblocks (itree it).

(* the parent directory's record is in the list, carries the recorded parent number, which is
   smaller than the own number; position and path extend the parent's *)
Definition has_parent (out : list dirrec) (r : dirrec) : Prop :=
  exists p j, In p out /\ d_num p = d_parent r /\ d_num p < d_num r /\
              d_pos r = d_pos p ++ [j] /\ d_path r = d_path p ++ [d_name r].

Lemma has_parent_cons x out r : has_parent out r -> has_parent (x :: out) r.
Proof. intros (p & j & Hin & H). exists p, j. split; [right; exact Hin|exact H]. Qed.

Lemma go_parent f q idx cur : (qsize q <= f)%nat ->
  forall r, In r (fst (go f q idx cur)) ->
    (exists it, In it q /\ from_item r it) \/ has_parent (fst (go f q idx cur)) r.
Proof.
  revert f q idx cur.
  apply (go_ind (fun q idx cur res => forall r, In r (fst res) ->
           (exists it, In it q /\ from_item r it) \/ has_parent (fst res) r)).
  - intros idx cur r [].
  - intros f nm bl ks pn pos path q idx cur Hf IH r H. cbn [fst] in *. destruct H as [<-|H].
    + left. eexists. split; [left; reflexivity|]. repeat split.
    + destruct (IH r H) as [(it & Hin & Hfrom)|Hp].
      * apply in_app_or in Hin. destruct Hin as [Hin|Hin].
        -- left. exists it. split; [right; exact Hin|exact Hfrom].
        -- right. apply in_child_items in Hin. destruct Hin as (k & j & -> & _ & _).
           destruct Hfrom as (Hpn & Hpos & Hpath & Hname & _).
           unfold ipn, ipos, ipath, itree in *. cbn [fst snd] in *.
           exists (mk_dirrec idx pn nm bl cur pos path), j. cbn [d_num d_pos d_path].
           split; [left; reflexivity|]. split; [symmetry; exact Hpn|]. split.
           { apply In_nth_error in H. destruct H as [i Hi].
             apply (go_nums f _ _ _ Hf) in Hi. lia. }
           split; [exact Hpos|]. rewrite Hname. exact Hpath.
      * right. apply has_parent_cons. exact Hp.
Qed.

(* a property of queue items inherited by the enqueued children holds of every visited record *)
Lemma go_items (Q : qitem -> Prop) :
  (forall nm bl ks pn pos path idx it, Q (Node nm bl ks, pn, pos, path) ->
      In it (child_items ks idx pos path) -> Q it) ->
  forall f q idx cur, (qsize q <= f)%nat -> (forall it, In it q -> Q it) ->
  forall r, In r (fst (go f q idx cur)) ->
    exists ks, Q (Node (d_name r) (d_blocks r) ks, d_parent r, d_pos r, d_path r).
Proof.
  intros Hch.
  apply (go_ind (fun q idx cur res => (forall it, In it q -> Q it) ->
           forall r, In r (fst res) ->
           exists ks, Q (Node (d_name r) (d_blocks r) ks, d_parent r, d_pos r, d_path r))).
  - intros idx cur _ r [].
  - intros f nm bl ks pn pos path q idx cur Hf IH HQ r H. cbn [fst] in H. destruct H as [<-|H].
    + exists ks. cbn. apply HQ. left. reflexivity.
    + apply IH; [|exact H]. intros it Hin. apply in_app_or in Hin. destruct Hin as [Hin|Hin].
      * apply HQ. right. exact Hin.
      * eapply Hch; [|exact Hin]. apply HQ. left. reflexivity.
Qed.

Lemma bfs_unfold start nm bl ks :
  bfs start (Node nm bl ks) =
  mk_dirrec 1 1 nm bl start [] [] ::
    fst (go (qsize (child_items ks 1 [] [])) (child_items ks 1 [] []) 2 (start + bl)).
Proof. reflexivity. Qed.

Lemma bfs_length start t : length (bfs start t) = tsize t.
Proof.
  destruct t as [nm bl ks]. rewrite bfs_unfold. cbn [length]. rewrite go_length by lia.
  unfold child_items. rewrite qsize_child. reflexivity.
Qed.

Lemma bfs_nth_num start t i r : nth_error (bfs start t) i = Some r -> d_num r = Z.of_nat i + 1.
Proof.
  destruct t as [nm bl ks]. rewrite bfs_unfold. destruct i as [|i]; cbn [nth_error].
  - intros H; injection H as <-. reflexivity.
  - intros H. apply go_nums in H; lia.
Qed.

Lemma bfs_parent start t r : In r (tl (bfs start t)) -> has_parent (bfs start t) r.
Proof.
  destruct t as [nm bl ks]. rewrite bfs_unfold. cbn [tl]. intros H.
  pose proof H as H'. apply go_parent in H; [|lia]. destruct H as [(it & Hin & Hfrom)|Hp].
  - apply in_child_items in Hin. destruct Hin as (k & j & -> & _ & _).
    destruct Hfrom as (Hpn & Hpos & Hpath & Hname & _).
    unfold ipn, ipos, ipath, itree in *. cbn [fst snd] in *.
    exists (mk_dirrec 1 1 nm bl start [] []), j. cbn [d_num d_pos d_path].
    split; [left; reflexivity|]. split; [symmetry; exact Hpn|]. split.
    { apply In_nth_error in H'. destruct H' as [i Hi]. apply go_nums in Hi; lia. }
    split; [exact Hpos|]. rewrite Hname. exact Hpath.
  - apply has_parent_cons. exact Hp.
Qed.

(* THEOREM 1 *)
Theorem bfs_numbers start t :
  length (bfs start t) = tsize t /\
  (forall i r, nth_error (bfs start t) i = Some r -> d_num r = Z.of_nat i + 1) /\
  (exists rest, bfs start t = mk_dirrec 1 1 (tname t) (tblocks t) start [] [] :: rest) /\
  (forall i r, nth_error (bfs start t) (S i) = Some r ->
     exists p j, nth_error (bfs start t) (Z.to_nat (d_parent r - 1)) = Some p /\
       d_num p = d_parent r /\ 1 <= d_parent r < d_num r /\
       d_pos r = d_pos p ++ [j] /\ d_path r = d_path p ++ [d_name r]).
Proof.
  split; [apply bfs_length|]. split; [apply bfs_nth_num|]. split.
  { destruct t as [nm bl ks]. rewrite bfs_unfold. eexists. reflexivity. }
  intros i r H.
  assert (Hin : In r (tl (bfs start t))).
  { destruct (bfs start t) as [|r0 l]; [discriminate|]. cbn [tl]. eapply nth_error_In. exact H. }
  apply bfs_parent in Hin. destruct Hin as (p & j & Hp & Hnum & Hlt & Hpos & Hpath).
  apply In_nth_error in Hp. destruct Hp as [k Hk]. pose proof (bfs_nth_num _ _ _ _ Hk) as Hpk.
  exists p, j. replace (Z.to_nat (d_parent r - 1)) with k by lia.
  repeat split; try assumption; lia.
Qed.

Lemma subtree_snoc T pos t' j :
  subtree T pos = Some t' -> subtree T (pos ++ [j]) = nth_error (tkids t') j.
Proof.
  revert T; induction pos as [|i p IH]; intros T H; cbn [subtree app] in *.
  - injection H as ->. destruct (nth_error (tkids t') j); reflexivity.
  - destruct (nth_error (tkids T) i); [apply IH; exact H|discriminate].
Qed.

(* every record is the directory found at its position: identifier and blocks are that
   directory's, the path has one component per level *)
Theorem bfs_describes_tree start t r : In r (bfs start t) ->
  exists ks, subtree t (d_pos r) = Some (Node (d_name r) (d_blocks r) ks) /\
             length (d_path r) = length (d_pos r).
Proof.
  set (Q := fun it : qitem => subtree t (ipos it) = Some (itree it) /\
                              length (ipath it) = length (ipos it)).
  assert (Hch : forall nm bl ks pn pos path idx it, Q (Node nm bl ks, pn, pos, path) ->
                  In it (child_items ks idx pos path) -> Q it).
  { intros nm bl ks pn pos path idx it [Hs Hl] Hin. apply in_child_items in Hin.
    destruct Hin as (k & j & -> & Hn & _). rewrite Nat.sub_0_r in Hn.
    unfold Q, ipos, ipath, itree in *. cbn [fst snd] in *. split.
    - rewrite (subtree_snoc _ _ _ j Hs). exact Hn.
    - rewrite !app_length, Hl. reflexivity. }
  destruct t as [nm bl ks]. rewrite bfs_unfold. intros [<-|H].
  - exists ks. split; reflexivity.
  - assert (Hroot : Q (Node nm bl ks, 1, [], [])) by (split; reflexivity).
    apply (go_items Q Hch) in H; [exact H|lia|].
    intros it Hin. exact (Hch _ _ _ _ _ _ _ _ Hroot Hin).
Qed.

(* ---- the writer's walk --------------------------------------------------------------------- *)

Lemma child_pos_map i ks idx pos path :
  map (fun it : qitem => (itree it, ipos it)) (child_items_from i ks idx pos path)
  = child_pos_from i ks pos.
Proof.
  revert i; induction ks as [|k ks IH]; intros i; [reflexivity|].
  cbn [child_items_from child_pos_from map]. rewrite IH. reflexivity.
Qed.

Lemma wgo_go f : forall q idx cur,
  wgo f (map (fun it : qitem => (itree it, ipos it)) q) = map d_pos (fst (go f q idx cur)).
Proof.
  induction f as [|f IH]; intros q idx cur; [reflexivity|].
  destruct q as [|[[[[nm bl ks] pn] pos] path] q]; [reflexivity|].
  cbn [map go fst]. unfold itree at 1, ipos at 1. cbn [fst snd wgo d_pos]. f_equal.
  rewrite <- (IH _ (idx + 1) (cur + bl)), map_app. unfold child_items.
  rewrite child_pos_map. reflexivity.
Qed.

(* the i-th directory whose path table record _write_directory_records emits is the i-th
   directory visited (numbered i) by _reassign_vd_dirrecord_extents *)
Theorem write_order_is_bfs start t : write_order t = map d_pos (bfs start t).
Proof.
  destruct t as [nm bl ks]. unfold write_order. rewrite bfs_unfold. cbn [tsize wgo app map d_pos].
  f_equal. rewrite <- wgo_go. unfold child_items. rewrite child_pos_map, qsize_child. reflexivity.
Qed.

(* ---- 2. order of the written table ------------------------------------------------------------ *)

(* strict (level, parent number, identifier) order; identifiers compared like Python bytes *)
Definition key_lt (a b : key) : Prop :=
  (fst (fst a) < fst (fst b))%nat \/
  (fst (fst a) = fst (fst b) /\
   (snd (fst a) < snd (fst b) \/ (snd (fst a) = snd (fst b) /\ name_ltb (snd a) (snd b) = true))).

Lemma key_ltb_spec a b : key_ltb name_ltb a b = true <-> key_lt a b.
Proof.
  destruct a as [[l1 p1] n1], b as [[l2 p2] n2]. unfold key_ltb, key_lt. cbn [fst snd].
  destruct (name_ltb n1 n2); lia.
Qed.

Lemma name_ltb_trans a : forall b c,
  name_ltb a b = true -> name_ltb b c = true -> name_ltb a c = true.
Proof.
  induction a as [|x a IH]; intros [|y b] [|z c]; cbn [name_ltb]; try congruence.
  destruct (x <? y) eqn:E1; destruct (y <? x) eqn:E2; destruct (y <? z) eqn:E3;
  destruct (z <? y) eqn:E4; destruct (x <? z) eqn:E5; destruct (z <? x) eqn:E6;
  intros H1 H2; try congruence; try lia; eauto.
Qed.

Lemma names_sorted_strong l :
  names_sortedb l = true -> StronglySorted (fun a b => name_ltb a b = true) l.
Proof.
  induction l as [|a r IH]; intros H; [constructor|]. cbn [names_sortedb] in H.
  apply andb_prop in H. destruct H as [H1 H2]. specialize (IH H2). constructor; [exact IH|].
  destruct r as [|b r']; [constructor|]. constructor; [exact H1|].
  apply StronglySorted_inv in IH. destruct IH as [_ Hb]. eapply Forall_impl; [|exact Hb].
  intros c Hc. eapply name_ltb_trans; eassumption.
Qed.

Definition ikey (it : qitem) : key := (length (ipos it), ipn it, tname (itree it)).
Definition ilt (a b : qitem) : Prop := key_lt (ikey a) (ikey b).
Definition rlt (a b : dirrec) : Prop := key_lt (rkey a) (rkey b).

Lemma child_items_sorted i ks idx pos path :
  StronglySorted (fun a b => name_ltb a b = true) (map tname ks) ->
  StronglySorted ilt (child_items_from i ks idx pos path).
Proof.
  revert i; induction ks as [|k ks IH]; intros i H; [constructor|]. cbn [map] in H.
  apply StronglySorted_inv in H. destruct H as [Hs Hf]. cbn [child_items_from].
  constructor; [apply IH; exact Hs|]. apply Forall_forall. intros it Hin.
  apply in_child_items in Hin. destruct Hin as (k' & j & -> & Hn & _).
  apply nth_error_In in Hn. rewrite Forall_forall in Hf.
  specialize (Hf (tname k') (in_map tname _ _ Hn)).
  unfold ilt, ikey, key_lt, ipos, ipn, itree; cbn [fst snd]. rewrite !app_length. cbn [length].
  right. split; [reflexivity|]. right. split; [reflexivity|exact Hf].
Qed.

Lemma key_lt_level_succ k0 l p n :
  key_lt k0 (l, p, n) -> forall p' n', key_lt k0 (S l, p', n').
Proof. unfold key_lt. cbn [fst snd]. intros H p' n'. left. lia. Qed.

Lemma go_lower f q idx cur : (qsize q <= f)%nat ->
  forall k0, (forall it, In it q -> key_lt k0 (ikey it)) ->
  forall r, In r (fst (go f q idx cur)) -> key_lt k0 (rkey r).
Proof.
  revert f q idx cur.
  apply (go_ind (fun q idx cur res => forall k0, (forall it, In it q -> key_lt k0 (ikey it)) ->
           forall r, In r (fst res) -> key_lt k0 (rkey r))).
  - intros idx cur k0 _ r [].
  - intros f nm bl ks pn pos path q idx cur Hf IH k0 Hk r H. cbn [fst] in H.
    destruct H as [<-|H].
    + exact (Hk _ (or_introl eq_refl)).
    + apply (IH k0); [|exact H]. intros it Hin. apply in_app_or in Hin.
      destruct Hin as [Hin|Hin]; [apply Hk; right; exact Hin|].
      apply in_child_items in Hin. destruct Hin as (k & j & -> & _ & _).
      unfold ikey, ipos, ipn, itree; cbn [fst snd]. rewrite app_length, Nat.add_1_r.
      apply (key_lt_level_succ k0 (length pos) pn nm). exact (Hk _ (or_introl eq_refl)).
Qed.

(* invariant of the deque: sorted by key, parent numbers already issued, at most two levels *)
Definition qinv (q : list qitem) (idx : Z) : Prop :=
  StronglySorted ilt q /\ Forall (fun it => ipn it < idx) q /\
  (forall h q', q = h :: q' ->
     Forall (fun it => (length (ipos it) <= S (length (ipos h)))%nat) q') /\
  Forall (fun it => sorted_tree (itree it) = true) q.

Lemma StronglySorted_app {A} (R : A -> A -> Prop) a b :
  StronglySorted R a -> StronglySorted R b -> (forall x y, In x a -> In y b -> R x y) ->
  StronglySorted R (a ++ b).
Proof.
  induction a as [|x a IH]; intros Ha Hb H; [exact Hb|]. cbn [app].
  apply StronglySorted_inv in Ha. destruct Ha as [Ha Hf]. constructor.
  - apply IH; auto. intros; apply H; [right|]; assumption.
  - apply Forall_app. split; [exact Hf|]. apply Forall_forall. intros y Hy.
    apply H; [left; reflexivity|exact Hy].
Qed.

Lemma qinv_step nm bl ks pn pos path q idx :
  qinv ((Node nm bl ks, pn, pos, path) :: q) idx ->
  qinv (q ++ child_items ks idx pos path) (idx + 1).
Proof.
  intros (Hs & Hp & Hl & Ht). apply StronglySorted_inv in Hs. destruct Hs as [Hs Hh].
  apply Forall_cons_iff in Hp. destruct Hp as [_ Hp].
  apply Forall_cons_iff in Ht. destruct Ht as [Ht0 Ht]. specialize (Hl _ _ eq_refl).
  unfold itree in Ht0; cbn [fst sorted_tree] in Ht0. apply andb_prop in Ht0.
  destruct Ht0 as [Hn Hk]. rewrite Forall_forall in Hh, Hp, Hl.
  change (ipos (Node nm bl ks, pn, pos, path)) with pos in Hl.
  assert (Hc : forall it, In it (child_items ks idx pos path) ->
            length (ipos it) = S (length pos) /\ ipn it = idx /\ sorted_tree (itree it) = true).
  { intros it Hin. apply in_child_items in Hin. destruct Hin as (k & j & -> & Hnth & _).
    unfold ipos, ipn, itree; cbn [fst snd]. rewrite app_length, Nat.add_1_r.
    repeat split. apply nth_error_In in Hnth. rewrite forallb_forall in Hk. apply Hk, Hnth. }
  assert (Hlev : forall h', In h' q -> (length pos <= length (ipos h'))%nat).
  { intros h' Hin. specialize (Hh h' Hin). unfold ilt, ikey, key_lt, ipos in *.
    cbn [fst snd] in Hh. lia. }
  split; [|split; [|split]].
  - apply StronglySorted_app;
      [exact Hs|apply child_items_sorted, names_sorted_strong, Hn|].
    intros x y Hx Hy. destruct (Hc y Hy) as (Ly & Py & _). specialize (Hl x Hx).
    specialize (Hp x Hx). unfold ilt, ikey, key_lt. cbn [fst snd]. rewrite Ly, Py.
    destruct (Nat.eq_dec (length (ipos x)) (S (length pos))) as [E|E];
      [right; split; [exact E|left; exact Hp]|left; lia].
  - apply Forall_app; split; apply Forall_forall; intros x Hx.
    + specialize (Hp x Hx). cbn beta. lia.
    + destruct (Hc x Hx) as (_ & E & _). cbn beta. lia.
  - intros h q' E. destruct q as [|h' q'']; cbn [app] in E.
    + apply Forall_forall. intros x Hx.
      assert (H1 : In h (child_items ks idx pos path)) by (rewrite E; left; reflexivity).
      assert (H2 : In x (child_items ks idx pos path)) by (rewrite E; right; exact Hx).
      destruct (Hc h H1) as (E1 & _), (Hc x H2) as (E2 & _). lia.
    + injection E as <- <-. pose proof (Hlev h' (or_introl eq_refl)) as Hh'.
      apply Forall_app; split; apply Forall_forall; intros x Hx.
      * specialize (Hl x (or_intror Hx)). lia.
      * destruct (Hc x Hx) as (E2 & _). lia.
  - apply Forall_app; split; [exact Ht|]. apply Forall_forall; intros x Hx. apply (Hc x Hx).
Qed.

Lemma go_sorted f q idx cur : (qsize q <= f)%nat -> qinv q idx ->
  StronglySorted rlt (fst (go f q idx cur)).
Proof.
  revert f q idx cur.
  apply (go_ind (fun q idx cur res => qinv q idx -> StronglySorted rlt (fst res))).
  - intros; constructor.
  - intros f nm bl ks pn pos path q idx cur Hf IH Hq. cbn [fst]. constructor.
    + apply IH. apply qinv_step with (1 := Hq).
    + apply Forall_forall. intros r Hr. unfold rlt.
      refine (go_lower f _ _ _ Hf (rkey (mk_dirrec idx pn nm bl cur pos path)) _ r Hr).
      intros it Hin. destruct Hq as (Hs & _). apply StronglySorted_inv in Hs.
      destruct Hs as [_ Hh]. rewrite Forall_forall in Hh. apply in_app_or in Hin.
      destruct Hin as [Hin|Hin]; [exact (Hh it Hin)|].
      apply in_child_items in Hin. destruct Hin as (k & j & -> & _ & _).
      unfold key_lt, rkey, ikey, ipos; cbn [fst snd d_pos]. rewrite app_length. left. cbn. lia.
Qed.

Lemma SS_nth {A} (R : A -> A -> Prop) l : StronglySorted R l ->
  forall i j a b, (i < j)%nat -> nth_error l i = Some a -> nth_error l j = Some b -> R a b.
Proof.
  induction 1 as [|x l Hs IH Hf]; intros i j a b Hij Ha Hb; [destruct i; discriminate|].
  destruct j as [|j]; [lia|]. cbn [nth_error] in Hb. destruct i as [|i].
  - cbn in Ha. injection Ha as <-. rewrite Forall_forall in Hf. apply Hf.
    eapply nth_error_In. exact Hb.
  - cbn [nth_error] in Ha. apply (IH i j); [lia|assumption|assumption].
Qed.

Lemma bfs_sorted start t : sorted_tree t = true -> StronglySorted rlt (bfs start t).
Proof.
  destruct t as [nm bl ks]. intros Hst. rewrite bfs_unfold.
  assert (Hq : qinv (child_items ks 1 [] []) 2).
  { apply (qinv_step nm bl ks 0 [] [] [] 1). repeat split.
    - repeat constructor.
    - repeat constructor.
    - intros h q' E. injection E as <- <-. constructor.
    - repeat constructor. exact Hst. }
  constructor; [apply go_sorted; [lia|exact Hq]|].
  apply Forall_forall. intros r Hr. unfold rlt.
  refine (go_lower _ _ _ _ (le_n _) (rkey (mk_dirrec 1 1 nm bl start [] [])) _ r Hr).
  intros it Hin. apply in_child_items in Hin. destruct Hin as (k & j & -> & _ & _).
  unfold key_lt, rkey, ikey, ipos; cbn. lia.
Qed.

(* THEOREM 2.  The code applies NO sort: the written order is the visiting order of a second
   breadth-first walk.  It is strictly increasing in (level, parent number, identifier) with the
   identifier order of Python bytes, and the record at (1-based) position i is directory number i. *)
Theorem ptable_order start t : sorted_tree t = true ->
  StronglySorted rlt (bfs start t) /\
  (forall i j a b, (i < j)%nat -> nth_error (bfs start t) i = Some a ->
     nth_error (bfs start t) j = Some b -> key_lt (rkey a) (rkey b)) /\
  write_order t = map d_pos (bfs start t) /\
  (forall i r, nth_error (bfs start t) i = Some r -> d_num r = Z.of_nat i + 1) /\
  ptable start t = map rec_tuple (bfs start t).
Proof.
  intros Hs. pose proof (bfs_sorted start t Hs) as H. split; [exact H|].
  split; [exact (SS_nth _ _ H)|]. split; [apply write_order_is_bfs|].
  split; [apply bfs_nth_num|reflexivity].
Qed.

(* ---- ECMA-119 6.9.1 identifier comparison (shorter identifier padded with 0x20) ------------ *)

Definition ge32 (n : list Z) : Prop := Forall (fun x => 32 <= x) n.

Lemma vs_spaces_ge a : ge32 a -> vs_spaces a <> Lt.
Proof.
  induction 1 as [|x a Hx Ha IH]; cbn [vs_spaces]; [discriminate|].
  destruct (Z.compare_spec x 32); [exact IH|lia|discriminate].
Qed.

Lemma name_lt_ecma a : forall b, ge32 a -> ge32 b -> name_ltb a b = true -> ecma_cmp a b <> Gt.
Proof.
  induction a as [|x a IH]; intros [|y b] Ha Hb H; cbn [name_ltb ecma_cmp] in *;
    try discriminate.
  - pose proof (vs_spaces_ge _ Hb) as Hv. destruct (vs_spaces (y :: b)); cbn; congruence.
  - inversion Ha; inversion Hb; subst. destruct (Z.compare_spec x y) as [E|E|E].
    + subst. rewrite Z.ltb_irrefl in H. apply IH; assumption.
    + discriminate.
    + destruct (x <? y) eqn:E1; [lia|]. destruct (y <? x) eqn:E2; [discriminate|lia].
Qed.

Definition key_le_ecma (a b : key) : Prop :=
  (fst (fst a) < fst (fst b))%nat \/
  (fst (fst a) = fst (fst b) /\
   (snd (fst a) < snd (fst b) \/ (snd (fst a) = snd (fst b) /\ ecma_cmp (snd a) (snd b) <> Gt))).

(* the written order IS the ECMA-119 order whenever the identifiers that get compared (same
   level, same parent) only use bytes >= 0x20 -- true of d-characters and d1-characters *)
Theorem ptable_order_ecma start t : sorted_tree t = true ->
  forall i j a b, (i < j)%nat -> nth_error (bfs start t) i = Some a ->
    nth_error (bfs start t) j = Some b ->
    (length (d_pos a) = length (d_pos b) -> ge32 (d_name a) /\ ge32 (d_name b)) ->
    key_le_ecma (rkey a) (rkey b).
Proof.
  intros Hs i j a b Hij Ha Hb Hge.
  destruct (ptable_order start t Hs) as (_ & H & _). specialize (H i j a b Hij Ha Hb).
  unfold key_lt, key_le_ecma, rkey in *. cbn [fst snd] in *.
  destruct H as [H|(El & [H|(Ep & H)])]; [left; exact H|right; split; [exact El|left; exact H]|].
  right. split; [exact El|]. right. split; [exact Ep|].
  destruct (Hge El) as [G1 G2]. apply name_lt_ecma; assumption.
Qed.

(* /A and /A\x01 (accepted by PyCdlib.new(interchange_level=4)): pycdlib writes A (number 2)
   before A\x01 (number 3); ECMA-119 pads A to "A " and 0x20 > 0x01, so A\x01 must come first.
   Reproduced on the real library: the L table of that image is
   [\x00 ; A parent 1 ; A\x01 parent 1 ; Y parent 2 ; X parent 3]. *)
Definition ecma_witness : dtree :=
  Node [0] 1 [Node [65] 1 [Node [89] 1 []]; Node [65; 1] 1 [Node [88] 1 []]].

Theorem ptable_order_ecma_refuted : exists t start,
  sorted_tree t = true /\
  ~ (forall i j a b, (i < j)%nat -> nth_error (bfs start t) i = Some a ->
       nth_error (bfs start t) j = Some b -> key_le_ecma (rkey a) (rkey b)).
Proof.
  exists ecma_witness, 24. split; [reflexivity|]. intros H.
  specialize (H 1%nat 2%nat _ _ (le_n _) eq_refl eq_refl).
  unfold key_le_ecma in H. cbn in H.
  destruct H as [H|(_ & [H|(_ & H)])]; [lia|lia|apply H; reflexivity].
Qed.

(* ---- 3./4. sums over the directories, extents ----------------------------------------------- *)

Fixpoint tree_sum (g : list Z -> Z -> Z) (t : dtree) : Z :=
  match t with Node n b ks => g n b + sumZ (map (tree_sum g) ks) end.

Lemma tree_blocks_sum t : tree_blocks t = tree_sum (fun _ b => b) t.
Proof.
  induction t as [n b ks IH] using dtree_ind'. cbn [tree_blocks tree_sum]. f_equal. f_equal.
  apply map_ext_Forall. exact IH.
Qed.
Lemma tree_ptr_size_sum t : tree_ptr_size t = tree_sum (fun n _ => ptr_record_length (zlen n)) t.
Proof.
  induction t as [n b ks IH] using dtree_ind'. cbn [tree_ptr_size tree_sum]. f_equal. f_equal.
  apply map_ext_Forall. exact IH.
Qed.

Lemma sumZ_app a b : sumZ (a ++ b) = sumZ a + sumZ b.
Proof. unfold sumZ. induction a as [|x a IH]; cbn [app fold_right] in *; lia. Qed.

Lemma sumZ_cons x a : sumZ (x :: a) = x + sumZ a.
Proof. reflexivity. Qed.

Definition qsum (g : list Z -> Z -> Z) (q : list qitem) : Z :=
  sumZ (map (fun it => tree_sum g (itree it)) q).

Lemma qsum_child g i ks idx pos path :
  qsum g (child_items_from i ks idx pos path) = sumZ (map (tree_sum g) ks).
Proof.
  revert i; induction ks as [|k ks IH]; intros i; [reflexivity|].
  unfold qsum in *. cbn [child_items_from map]. rewrite !sumZ_cons, <- (IH (S i)). reflexivity.
Qed.

Lemma go_sum g f q idx cur : (qsize q <= f)%nat ->
  sumZ (map (fun r => g (d_name r) (d_blocks r)) (fst (go f q idx cur))) = qsum g q.
Proof.
  revert f q idx cur.
  apply (go_ind (fun q idx cur res =>
           sumZ (map (fun r => g (d_name r) (d_blocks r)) (fst res)) = qsum g q)).
  - reflexivity.
  - intros f nm bl ks pn pos path q idx cur Hf IH. cbn [fst map] in *.
    rewrite sumZ_cons, IH. unfold qsum. rewrite map_app, sumZ_app.
    fold (qsum g (child_items ks idx pos path)).
    unfold child_items. rewrite qsum_child. cbn [map d_name d_blocks]. rewrite sumZ_cons.
    unfold itree at 2. cbn [fst tree_sum]. lia.
Qed.

Lemma bfs_sum g start t :
  sumZ (map (fun r => g (d_name r) (d_blocks r)) (bfs start t)) = tree_sum g t.
Proof.
  destruct t as [nm bl ks]. rewrite bfs_unfold. cbn [map d_name d_blocks tree_sum].
  rewrite sumZ_cons. f_equal. rewrite go_sum by lia. apply qsum_child.
Qed.

(* consecutive extents: each directory starts where the previous one ends *)
Fixpoint chain (e : Z) (rs : list dirrec) : Prop :=
  match rs with [] => True | r :: rs' => d_extent r = e /\ chain (e + d_blocks r) rs' end.

Lemma go_chain f q idx cur : (qsize q <= f)%nat ->
  chain cur (fst (go f q idx cur)) /\
  snd (go f q idx cur) = cur + sumZ (map d_blocks (fst (go f q idx cur))).
Proof.
  revert f q idx cur.
  apply (go_ind (fun q idx cur res =>
           chain cur (fst res) /\ snd res = cur + sumZ (map d_blocks (fst res)))).
  - intros idx cur. cbn. split; [exact I|lia].
  - intros f nm bl ks pn pos path q idx cur Hf [IH1 IH2].
    cbn [fst snd chain map d_extent d_blocks]. split; [split; [reflexivity|exact IH1]|].
    rewrite IH2, sumZ_cons. lia.
Qed.

Lemma chain_next e rs : chain e rs -> forall i a b,
  nth_error rs i = Some a -> nth_error rs (S i) = Some b -> d_extent b = d_extent a + d_blocks a.
Proof.
  revert e; induction rs as [|r rs IH]; intros e H i a b Ha Hb; [destruct i; discriminate|].
  destruct H as [He H]. destruct i as [|i].
  - cbn in Ha. injection Ha as <-. destruct rs as [|r' rs']; [discriminate|].
    cbn in Hb. injection Hb as <-. destruct H as [H _]. lia.
  - exact (IH _ H i a b Ha Hb).
Qed.

Lemma chain_lower e rs : Forall (fun r => 0 <= d_blocks r) rs -> chain e rs ->
  forall r, In r rs -> e <= d_extent r.
Proof.
  revert e; induction rs as [|x rs IH]; intros e Hf H r Hin; [destruct Hin|].
  apply Forall_cons_iff in Hf. destruct Hf as [Hx Hf]. destruct H as [He H].
  destruct Hin as [<-|Hin]; [lia|]. specialize (IH _ Hf H r Hin). lia.
Qed.

Lemma chain_disjoint e rs : Forall (fun r => 0 <= d_blocks r) rs -> chain e rs ->
  forall i j a b, (i < j)%nat -> nth_error rs i = Some a -> nth_error rs j = Some b ->
  d_extent a + d_blocks a <= d_extent b.
Proof.
  revert e; induction rs as [|x rs IH]; intros e Hf H i j a b Hij Ha Hb;
    [destruct i; discriminate|].
  apply Forall_cons_iff in Hf. destruct Hf as [Hx Hf]. destruct H as [He H].
  destruct j as [|j]; [lia|]. cbn [nth_error] in Hb. destruct i as [|i].
  - cbn in Ha. injection Ha as <-. apply nth_error_In in Hb.
    pose proof (chain_lower _ _ Hf H b Hb). lia.
  - cbn [nth_error] in Ha. apply (IH _ Hf H i j); [lia|assumption|assumption].
Qed.

Fixpoint blocks_okb (t : dtree) : bool :=
  match t with Node _ b ks => (0 <=? b) && forallb blocks_okb ks end.

Lemma blocks_ok_subtree pos : forall T t', blocks_okb T = true -> subtree T pos = Some t' ->
  blocks_okb t' = true.
Proof.
  induction pos as [|i p IH]; intros T t' HT H; cbn [subtree] in H.
  - injection H as <-. exact HT.
  - destruct (nth_error (tkids T) i) as [k|] eqn:E; [|discriminate].
    apply (IH k t'); [|exact H]. destruct T as [n b ks]. cbn [blocks_okb tkids] in *.
    apply andb_prop in HT. destruct HT as [_ HT]. rewrite forallb_forall in HT.
    apply HT. eapply nth_error_In. exact E.
Qed.

(* THEOREM 3 *)
Theorem extents_disjoint_consecutive start t :
  chain start (bfs start t) /\
  (forall i a b, nth_error (bfs start t) i = Some a -> nth_error (bfs start t) (S i) = Some b ->
     d_extent b = d_extent a + d_blocks a) /\
  assign_end start t = start + tree_blocks t /\
  map (fun p : ptuple => snd (fst (fst p))) (ptable start t) = assign_extents start t /\
  (blocks_okb t = true -> forall i j a b, (i < j)%nat ->
     nth_error (bfs start t) i = Some a -> nth_error (bfs start t) j = Some b ->
     d_extent a + d_blocks a <= d_extent b).
Proof.
  assert (Hc : chain start (bfs start t) /\ assign_end start t = start + tree_blocks t).
  { rewrite tree_blocks_sum, <- (bfs_sum (fun _ b => b) start t).
    destruct t as [nm bl ks]. unfold assign_end, reassign. rewrite bfs_unfold.
    destruct (go_chain _ (child_items ks 1 [] []) 2 (start + bl) (le_n _)) as [H1 H2].
    cbn [snd chain d_extent d_blocks map]. split; [split; [reflexivity|exact H1]|].
    rewrite H2, sumZ_cons. cbv beta. change (fun r : dirrec => d_blocks r) with d_blocks. lia. }
  destruct Hc as [Hc He]. split; [exact Hc|]. split; [exact (chain_next _ _ Hc)|].
  split; [exact He|]. split.
  { unfold ptable, assign_extents. rewrite map_map. reflexivity. }
  intros Hb. apply (chain_disjoint start); [|exact Hc]. apply Forall_forall. intros r Hr.
  destruct (bfs_describes_tree _ _ _ Hr) as (ks & Hs & _).
  apply (blocks_ok_subtree _ _ _ Hb) in Hs. cbn [blocks_okb] in Hs. lia.
Qed.

(* THEOREM 4 *)
Definition plen (r : dirrec) : Z := ptr_record_length (zlen (d_name r)).

Theorem ptable_size_sum start t : ptable_size t = sumZ (map plen (bfs start t)).
Proof.
  unfold ptable_size. rewrite tree_ptr_size_sum.
  rewrite <- (bfs_sum (fun n _ => ptr_record_length (zlen n)) start t). reflexivity.
Qed.

Theorem ptable_size_root n b ks : zlen n = 1 ->
  ptable_size (Node n b ks) = 10 + sumZ (map ptable_size ks).
Proof. intros H. unfold ptable_size. cbn [tree_ptr_size]. rewrite H. reflexivity. Qed.

Lemma opt_concat_zlen {A} (enc : A -> option (list Z)) (h : A -> Z) rs :
  (forall r a, enc r = Some a -> zlen a = h r) ->
  forall b, opt_concat (map enc rs) = Some b -> zlen b = sumZ (map h rs).
Proof.
  intros He. induction rs as [|r rs IH]; intros b H; cbn [map opt_concat] in *.
  - injection H as <-. reflexivity.
  - destruct (enc r) as [a|] eqn:E; [|discriminate].
    destruct (opt_concat (map enc rs)) as [b'|] eqn:E2; [|discriminate]. injection H as <-.
    rewrite zlen_app, (He _ _ E), sumZ_cons, (IH _ eq_refl). reflexivity.
Qed.

Theorem ptable_bytes_length start t b :
  ptable_bytes_le start t = Some b \/ ptable_bytes_be start t = Some b -> zlen b = ptable_size t.
Proof.
  rewrite (ptable_size_sum start t). intros [H|H];
    (eapply opt_concat_zlen; [|exact H]); intros r a E; unfold plen;
    rewrite <- ptr_len_agrees_with_generated.
  - exact (ptr_record_len _ _ E).
  - exact (ptr_record_len_be _ _ E).
Qed.

Lemma track_add_fst st l : fst (track_add st l) = fst st + ptr_record_length l.
Proof. unfold track_add, add_to_ptr_size. destruct (Z.gtb _ _); reflexivity. Qed.

Lemma fold_track l : forall st,
  fst (fold_left track_add l st) = fst st + sumZ (map ptr_record_length l).
Proof.
  induction l as [|x l IH]; intros st; cbn [fold_left map]; [unfold sumZ; cbn; lia|].
  rewrite IH, track_add_fst, sumZ_cons. lia.
Qed.

Lemma sumZ_perm a b : Permutation a b -> sumZ a = sumZ b.
Proof. induction 1; rewrite ?sumZ_cons; lia. Qed.

(* path_tbl_size after new() and one add_to_ptr_size per non-root directory, in any order of
   creation, is the byte length of the table *)
Theorem tracked_size_is_ptable_size start t order : zlen (tname t) = 1 ->
  Permutation order (map (fun r => zlen (d_name r)) (tl (bfs start t))) ->
  fst (fold_left track_add order track_init) = ptable_size t.
Proof.
  intros Hn Hp. rewrite fold_track, (ptable_size_sum start t).
  rewrite (sumZ_perm _ _ (Permutation_map ptr_record_length Hp)), map_map.
  destruct t as [nm bl ks]. rewrite bfs_unfold. cbn [tl map tname] in *. rewrite sumZ_cons.
  unfold plen at 1. cbn [d_name]. rewrite Hn. reflexivity.
Qed.

(* ---- 5. an independent reader rebuilds the tree's paths ------------------------------------- *)

Definition linked (out : list dirrec) : Prop :=
  forall i r, nth_error out (S i) = Some r ->
    exists p, nth_error out (Z.to_nat (d_parent r - 1)) = Some p /\
              1 <= d_parent r <= Z.of_nat (S i) /\ d_path r = d_path p ++ [d_name r].

Lemma reader_go_spec rest : forall done, done <> [] -> linked (done ++ rest) ->
  reader_go (map d_path done) (map rec_tuple rest) = Some (map d_path (done ++ rest)).
Proof.
  induction rest as [|r rest IH]; intros done Hne Hl.
  - rewrite app_nil_r. reflexivity.
  - assert (Hi : nth_error (done ++ r :: rest) (S (length done - 1)) = Some r).
    { destruct done as [|d0 done']; [congruence|]. cbn [length].
      replace (S (S (length done') - 1)) with (length (d0 :: done')) by (cbn [length]; lia).
      rewrite nth_error_app2 by lia. rewrite Nat.sub_diag. reflexivity. }
    destruct (Hl _ _ Hi) as (p & Hp & Hrange & Hpath).
    assert (Hlen : zlen (map d_path done) = Z.of_nat (length done))
      by (unfold zlen; rewrite map_length; reflexivity).
    assert (Hd : (0 < length done)%nat) by (destruct done; [congruence|cbn; lia]).
    rewrite nth_error_app1 in Hp by lia.
    pose proof (nth_error_nth _ _ [] (map_nth_error d_path _ _ Hp)) as Hnth.
    cbn [map]. unfold rec_tuple at 1.
    remember (map d_path done) as acc eqn:Eacc.
    destruct acc as [|a0 acc']; [destruct done; [congruence|discriminate]|].
    cbn [reader_go].
    replace ((1 <=? d_parent r) && (d_parent r <=? zlen (a0 :: acc'))) with true by lia.
    rewrite Hnth, Eacc.
    replace (map d_path done ++ [d_path p ++ [d_name r]]) with (map d_path (done ++ [r]))
      by (rewrite map_app; cbn [map]; rewrite Hpath; reflexivity).
    rewrite IH.
    + rewrite <- app_assoc. reflexivity.
    + destruct done; discriminate.
    + rewrite <- app_assoc. exact Hl.
Qed.

Lemma bfs_linked start t : linked (bfs start t).
Proof.
  intros i r H. destruct (bfs_numbers start t) as (_ & Hn & _ & Hp).
  destruct (Hp i r H) as (p & j & Hnth & _ & Hr & _ & Hpath). pose proof (Hn _ _ H).
  exists p. split; [exact Hnth|]. split; [lia|exact Hpath].
Qed.

Definition qpaths (q : list qitem) : list (list (list Z)) :=
  concat (map (fun it => tree_paths (ipath it) (itree it)) q).

Lemma qpaths_child i ks idx pos path :
  qpaths (child_items_from i ks idx pos path)
  = concat (map (fun k => tree_paths (path ++ [tname k]) k) ks).
Proof.
  revert i; induction ks as [|k ks IH]; intros i; [reflexivity|].
  unfold qpaths in *. cbn [child_items_from map concat]. rewrite IH. reflexivity.
Qed.

Lemma go_paths f q idx cur : (qsize q <= f)%nat ->
  Permutation (map d_path (fst (go f q idx cur))) (qpaths q).
Proof.
  revert f q idx cur.
  apply (go_ind (fun q idx cur res => Permutation (map d_path (fst res)) (qpaths q))).
  - intros. constructor.
  - intros f nm bl ks pn pos path q idx cur Hf IH. cbn [fst map d_path].
    unfold qpaths at 1. cbn [map concat]. unfold ipath at 1, itree at 1. cbn [fst snd tree_paths].
    cbn [app]. apply perm_skip. eapply Permutation_trans; [exact IH|].
    unfold qpaths. rewrite map_app, concat_app. fold (qpaths (child_items ks idx pos path)).
    unfold child_items. rewrite qpaths_child. apply Permutation_app_comm.
Qed.

(* THEOREM 5 *)
Theorem reader_sound start t :
  reader_tree_of_ptable (ptable start t) = Some (map d_path (bfs start t)) /\
  Permutation (map d_path (bfs start t)) (tree_paths [] t).
Proof.
  split.
  - pose proof (bfs_linked start t) as Hl. unfold reader_tree_of_ptable, ptable.
    destruct t as [nm bl ks]. rewrite bfs_unfold in *.
    set (rest := fst (go _ _ _ _)) in *. cbn [map reader_go rec_tuple d_parent].
    change (1 =? 1) with true. cbv iota.
    apply (reader_go_spec rest [mk_dirrec 1 1 nm bl start [] []]); [discriminate|exact Hl].
  - destruct t as [nm bl ks]. rewrite bfs_unfold. cbn [map d_path tree_paths]. apply perm_skip.
    eapply Permutation_trans; [apply go_paths; lia|]. unfold child_items.
    rewrite qpaths_child. apply Permutation_refl.
Qed.

(* ... and from the written bytes, through _parse_path_table *)
Lemma enc_nonempty r a : enc_ptr_le r = Some a -> a <> [].
Proof.
  intros H E. apply ptr_record_len in H. subst a. unfold ptr_len, fmt_ptr_size in H.
  rewrite zlen_nil in H. pose proof (zlen_nonneg (pt_dirid r)). lia.
Qed.

Lemma parse_concat rs : forall b f,
  opt_concat (map (fun r => enc_ptr_le (ptrec_of r)) rs) = Some b -> (length rs <= f)%nat ->
  parse_ptable f b = Some (map ptrec_of rs) /\ (length rs <= length b)%nat.
Proof.
  induction rs as [|r rs IH]; intros b f H Hf; cbn [map opt_concat] in H.
  - injection H as <-. split; [destruct f; reflexivity|cbn; lia].
  - destruct (enc_ptr_le (ptrec_of r)) as [a|] eqn:E; [|discriminate].
    destruct (opt_concat _) as [b'|] eqn:E2; [|discriminate]. injection H as <-.
    destruct f as [|f]; [cbn in Hf; lia|]. pose proof (enc_nonempty _ _ E) as Hne.
    destruct a as [|x a]; [congruence|]. cbn [length] in Hf.
    destruct (IH b' f eq_refl ltac:(lia)) as [IH1 IH2]. split.
    + cbn [app parse_ptable]. change (x :: a ++ b') with ((x :: a) ++ b').
      rewrite (ptr_roundtrip_le _ _ b' E), IH1. reflexivity.
    + rewrite app_length. cbn [length]. lia.
Qed.

Theorem parse_ptable_sound start t b : ptable_bytes_le start t = Some b ->
  exists rs, parse_ptable (length b) b = Some rs /\ map tuple_of_ptrec rs = ptable start t.
Proof.
  intros H. unfold ptable_bytes_le in H.
  destruct (parse_concat _ b (length b) H) as [H1 H2].
  - destruct (parse_concat _ b (length (bfs start t)) H (le_n _)) as [_ H2]. exact H2.
  - exists (map ptrec_of (bfs start t)). split; [exact H1|]. unfold ptable.
    rewrite map_map. reflexivity.
Qed.

Theorem reader_of_bytes_sound start t b : ptable_bytes_le start t = Some b ->
  reader_of_bytes b = Some (map d_path (bfs start t)).
Proof.
  intros H. destruct (parse_ptable_sound _ _ _ H) as (rs & Hp & Ht).
  unfold reader_of_bytes. rewrite Hp, Ht. apply reader_sound.
Qed.
