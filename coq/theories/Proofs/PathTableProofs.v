(* Proofs about Model/PathTable.v: pycdlib's breadth-first directory numbering, extent assignment
   and path tables, for ARBITRARY directory trees (induction over the queue; no bound on size or
   depth).  The queue-level lemmas (go_ind etc.) are in Proofs/PathTableLemmas.v.

   Main results (all closed under the global context, see the end of the file)
     bfs_numbers                   numbers are 1..n in visiting order, root = 1 with parent 1, the
                                   parent number of a non-root directory is its parent's number, < own
     bfs_describes_tree            every record is the directory at its tree position
     write_order_is_bfs            the writer's walk visits the directories in the numbering order
     ptable_order                  written order strictly sorted by (level, parent number, identifier
                                   under Python bytes '<'); record i is directory number i
     ptable_order_ecma             ... which is the ECMA-119 6.9.1 order when identifiers use bytes >= 0x20
     ptable_order_ecma_refuted     and is NOT that order for an identifier byte < 0x20 (level 4)
     extents_disjoint_consecutive  extents consecutive from [start], end = start + sum of blocks
     ptable_size / ptable_bytes_length / tracked_size_is_ptable_size
     reader_sound / reader_of_bytes_sound   an independent reader rebuilds exactly the tree's paths *)
From Coq Require Import ZArith List Bool Lia ZifyBool Permutation Sorted.
From PV.Base Require Import Prim.
From PV.Gen Require Import GenConst GenFun.
From PV.Model Require Import Codec PathTable.
From PV.Proofs Require Import CodecProofs PathTableLemmas.
Import ListNotations.
Local Open Scope Z_scope.
Ltac Zify.zify_post_hook ::= Z.to_euclidean_division_equations.

Lemma bfs_unfold start nm bl ks :
  bfs start (Node nm bl ks) =
  mk_dirrec 1 1 nm bl start [] [] ::
    fst (go (qsize (child_items ks 1 [] [])) (child_items ks 1 [] []) 2 (start + bl)).
Proof. reflexivity. Qed.

Lemma bfs_length start t : length (bfs start t) = tsize t.
Proof.
  destruct t as [nm bl ks]. rewrite bfs_unfold. cbn [length]. rewrite go_length by lia.
  unfold child_items. rewrite qsize_child. reflexivity.
Qed.

Lemma bfs_nth_num start t i r : nth_error (bfs start t) i = Some r -> d_num r = Z.of_nat i + 1.
Proof.
  destruct t as [nm bl ks]. rewrite bfs_unfold. destruct i as [|i]; cbn [nth_error].
  - intros H; injection H as <-. reflexivity.
  - intros H. apply go_nums in H; lia.
Qed.

Lemma bfs_parent start t r : In r (tl (bfs start t)) -> has_parent (bfs start t) r.
Proof.
  destruct t as [nm bl ks]. rewrite bfs_unfold. cbn [tl]. intros H.
  pose proof H as H'. apply go_parent in H; [|lia]. destruct H as [(it & Hin & Hfrom)|Hp].
  - apply in_child_items in Hin. destruct Hin as (k & j & -> & _ & _).
    destruct Hfrom as (Hpn & Hpos & Hpath & Hname & _).
    unfold ipn, ipos, ipath, itree in *. cbn [fst snd] in *.
    exists (mk_dirrec 1 1 nm bl start [] []), j. cbn [d_num d_pos d_path].
    split; [left; reflexivity|]. split; [symmetry; exact Hpn|]. split.
    { apply In_nth_error in H'. destruct H' as [i Hi]. apply go_nums in Hi; lia. }
    split; [exact Hpos|]. rewrite Hname. exact Hpath.
  - apply has_parent_cons. exact Hp.
Qed.

(* THEOREM 1 *)
Theorem bfs_numbers start t :
  length (bfs start t) = tsize t /\
  (forall i r, nth_error (bfs start t) i = Some r -> d_num r = Z.of_nat i + 1) /\
  (exists rest, bfs start t = mk_dirrec 1 1 (tname t) (tblocks t) start [] [] :: rest) /\
  (forall i r, nth_error (bfs start t) (S i) = Some r ->
     exists p j, nth_error (bfs start t) (Z.to_nat (d_parent r - 1)) = Some p /\
       d_num p = d_parent r /\ 1 <= d_parent r < d_num r /\
       d_pos r = d_pos p ++ [j] /\ d_path r = d_path p ++ [d_name r]).
Proof.
  split; [apply bfs_length|]. split; [apply bfs_nth_num|]. split.
  { destruct t as [nm bl ks]. rewrite bfs_unfold. eexists. reflexivity. }
  intros i r H.
  assert (Hin : In r (tl (bfs start t))).
  { destruct (bfs start t) as [|r0 l]; [discriminate|]. cbn [tl]. eapply nth_error_In. exact H. }
  apply bfs_parent in Hin. destruct Hin as (p & j & Hp & Hnum & Hlt & Hpos & Hpath).
  apply In_nth_error in Hp. destruct Hp as [k Hk]. pose proof (bfs_nth_num _ _ _ _ Hk) as Hpk.
  exists p, j. replace (Z.to_nat (d_parent r - 1)) with k by lia.
  repeat split; try assumption; lia.
Qed.

(* every record is the directory found at its position: identifier and blocks are that
   directory's, the path has one component per level *)
Theorem bfs_describes_tree start t r : In r (bfs start t) ->
  exists ks, subtree t (d_pos r) = Some (Node (d_name r) (d_blocks r) ks) /\
             length (d_path r) = length (d_pos r).
Proof.
  set (Q := fun it : qitem => subtree t (ipos it) = Some (itree it) /\
                              length (ipath it) = length (ipos it)).
  assert (Hch : forall nm bl ks pn pos path idx it, Q (Node nm bl ks, pn, pos, path) ->
                  In it (child_items ks idx pos path) -> Q it).
  { intros nm bl ks pn pos path idx it [Hs Hl] Hin. apply in_child_items in Hin.
    destruct Hin as (k & j & -> & Hn & _). rewrite Nat.sub_0_r in Hn.
    unfold Q, ipos, ipath, itree in *. cbn [fst snd] in *. split.
    - rewrite (subtree_snoc _ _ _ j Hs). exact Hn.
    - rewrite !app_length, Hl. reflexivity. }
  destruct t as [nm bl ks]. rewrite bfs_unfold. intros [<-|H].
  - exists ks. split; reflexivity.
  - assert (Hroot : Q (Node nm bl ks, 1, [], [])) by (split; reflexivity).
    apply (go_items Q Hch) in H; [exact H|lia|].
    intros it Hin. exact (Hch _ _ _ _ _ _ _ _ Hroot Hin).
Qed.

(* the i-th directory whose path table record _write_directory_records emits is the i-th
   directory visited (numbered i) by _reassign_vd_dirrecord_extents *)
Theorem write_order_is_bfs start t : write_order t = map d_pos (bfs start t).
Proof.
  destruct t as [nm bl ks]. unfold write_order. rewrite bfs_unfold. cbn [tsize wgo app map d_pos].
  f_equal. rewrite <- wgo_go. unfold child_items. rewrite child_pos_map, qsize_child. reflexivity.
Qed.

Lemma bfs_sorted start t : sorted_tree t = true -> StronglySorted rlt (bfs start t).
Proof.
  destruct t as [nm bl ks]. intros Hst. rewrite bfs_unfold.
  assert (Hq : qinv (child_items ks 1 [] []) 2).
  { apply (qinv_step nm bl ks 0 [] [] [] 1). repeat split.
    - repeat constructor.
    - repeat constructor.
    - intros h q' E. injection E as <- <-. constructor.
    - repeat constructor. exact Hst. }
  constructor; [apply go_sorted; [lia|exact Hq]|].
  apply Forall_forall. intros r Hr. unfold rlt.
  refine (go_lower _ _ _ _ (le_n _) (rkey (mk_dirrec 1 1 nm bl start [] [])) _ r Hr).
  intros it Hin. apply in_child_items in Hin. destruct Hin as (k & j & -> & _ & _).
  unfold key_lt, rkey, ikey, ipos; cbn. lia.
Qed.

(* THEOREM 2.  The code applies NO sort: the written order is the visiting order of a second
   breadth-first walk.  It is strictly increasing in (level, parent number, identifier) with the
   identifier order of Python bytes, and the record at (1-based) position i is directory number i. *)
Theorem ptable_order start t : sorted_tree t = true ->
  StronglySorted rlt (bfs start t) /\
  (forall i j a b, (i < j)%nat -> nth_error (bfs start t) i = Some a ->
     nth_error (bfs start t) j = Some b -> key_lt (rkey a) (rkey b)) /\
  write_order t = map d_pos (bfs start t) /\
  (forall i r, nth_error (bfs start t) i = Some r -> d_num r = Z.of_nat i + 1) /\
  ptable start t = map rec_tuple (bfs start t).
Proof.
  intros Hs. pose proof (bfs_sorted start t Hs) as H. split; [exact H|].
  split; [exact (SS_nth _ _ H)|]. split; [apply write_order_is_bfs|].
  split; [apply bfs_nth_num|reflexivity].
Qed.

(* ---- ECMA-119 6.9.1 identifier comparison (shorter identifier padded with 0x20) ------------ *)

Definition ge32 (n : list Z) : Prop := Forall (fun x => 32 <= x) n.

Lemma vs_spaces_ge a : ge32 a -> vs_spaces a <> Lt.
Proof.
  induction 1 as [|x a Hx Ha IH]; cbn [vs_spaces]; [discriminate|].
  destruct (Z.compare_spec x 32); [exact IH|lia|discriminate].
Qed.

Lemma name_lt_ecma a : forall b, ge32 a -> ge32 b -> name_ltb a b = true -> ecma_cmp a b <> Gt.
Proof.
  induction a as [|x a IH]; intros [|y b] Ha Hb H; cbn [name_ltb ecma_cmp] in *;
    try discriminate.
  - pose proof (vs_spaces_ge _ Hb) as Hv. destruct (vs_spaces (y :: b)); cbn; congruence.
  - inversion Ha; inversion Hb; subst. destruct (Z.compare_spec x y) as [E|E|E].
    + subst. rewrite Z.ltb_irrefl in H. apply IH; assumption.
    + discriminate.
    + destruct (x <? y) eqn:E1; [lia|]. destruct (y <? x) eqn:E2; [discriminate|lia].
Qed.

Definition key_le_ecma (a b : key) : Prop :=
  (fst (fst a) < fst (fst b))%nat \/
  (fst (fst a) = fst (fst b) /\
   (snd (fst a) < snd (fst b) \/ (snd (fst a) = snd (fst b) /\ ecma_cmp (snd a) (snd b) <> Gt))).

(* the written order IS the ECMA-119 order whenever the identifiers that get compared (same
   level, same parent) only use bytes >= 0x20 -- true of d-characters and d1-characters *)
Theorem ptable_order_ecma start t : sorted_tree t = true ->
  forall i j a b, (i < j)%nat -> nth_error (bfs start t) i = Some a ->
    nth_error (bfs start t) j = Some b ->
    (length (d_pos a) = length (d_pos b) -> ge32 (d_name a) /\ ge32 (d_name b)) ->
    key_le_ecma (rkey a) (rkey b).
Proof.
  intros Hs i j a b Hij Ha Hb Hge.
  destruct (ptable_order start t Hs) as (_ & H & _). specialize (H i j a b Hij Ha Hb).
  unfold key_lt, key_le_ecma, rkey in *. cbn [fst snd] in *.
  destruct H as [H|(El & [H|(Ep & H)])]; [left; exact H|right; split; [exact El|left; exact H]|].
  right. split; [exact El|]. right. split; [exact Ep|].
  destruct (Hge El) as [G1 G2]. apply name_lt_ecma; assumption.
Qed.

(* /A and /A\x01 (accepted by PyCdlib.new(interchange_level=4)): pycdlib writes A (number 2)
   before A\x01 (number 3); ECMA-119 pads A to "A " and 0x20 > 0x01, so A\x01 must come first.
   Reproduced on the real library: the L table of that image is
   [\x00 ; A parent 1 ; A\x01 parent 1 ; Y parent 2 ; X parent 3]. *)
Definition ecma_witness : dtree :=
  Node [0] 1 [Node [65] 1 [Node [89] 1 []]; Node [65; 1] 1 [Node [88] 1 []]].

Theorem ptable_order_ecma_refuted : exists t start,
  sorted_tree t = true /\
  ~ (forall i j a b, (i < j)%nat -> nth_error (bfs start t) i = Some a ->
       nth_error (bfs start t) j = Some b -> key_le_ecma (rkey a) (rkey b)).
Proof.
  exists ecma_witness, 24. split; [reflexivity|]. intros H.
  specialize (H 1%nat 2%nat _ _ (le_n _) eq_refl eq_refl).
  unfold key_le_ecma in H. cbn in H.
  destruct H as [H|(_ & [H|(_ & H)])]; [lia|lia|apply H; reflexivity].
Qed.

Lemma bfs_sum g start t :
  sumZ (map (fun r => g (d_name r) (d_blocks r)) (bfs start t)) = tree_sum g t.
Proof.
  destruct t as [nm bl ks]. rewrite bfs_unfold. cbn [map d_name d_blocks tree_sum].
  rewrite sumZ_cons. f_equal. rewrite go_sum by lia. apply qsum_child.
Qed.

Fixpoint blocks_okb (t : dtree) : bool :=
  match t with Node _ b ks => (0 <=? b) && forallb blocks_okb ks end.

Lemma blocks_ok_subtree pos : forall T t', blocks_okb T = true -> subtree T pos = Some t' ->
  blocks_okb t' = true.
Proof.
  induction pos as [|i p IH]; intros T t' HT H; cbn [subtree] in H.
  - injection H as <-. exact HT.
  - destruct (nth_error (tkids T) i) as [k|] eqn:E; [|discriminate].
    apply (IH k t'); [|exact H]. destruct T as [n b ks]. cbn [blocks_okb tkids] in *.
    apply andb_prop in HT. destruct HT as [_ HT]. rewrite forallb_forall in HT.
    apply HT. eapply nth_error_In. exact E.
Qed.

(* THEOREM 3 *)
Theorem extents_disjoint_consecutive start t :
  chain start (bfs start t) /\
  (forall i a b, nth_error (bfs start t) i = Some a -> nth_error (bfs start t) (S i) = Some b ->
     d_extent b = d_extent a + d_blocks a) /\
  assign_end start t = start + tree_blocks t /\
  map (fun p : ptuple => snd (fst (fst p))) (ptable start t) = assign_extents start t /\
  (blocks_okb t = true -> forall i j a b, (i < j)%nat ->
     nth_error (bfs start t) i = Some a -> nth_error (bfs start t) j = Some b ->
     d_extent a + d_blocks a <= d_extent b).
Proof.
  assert (Hc : chain start (bfs start t) /\ assign_end start t = start + tree_blocks t).
  { rewrite tree_blocks_sum, <- (bfs_sum (fun _ b => b) start t).
    destruct t as [nm bl ks]. unfold assign_end, reassign. rewrite bfs_unfold.
    destruct (go_chain _ (child_items ks 1 [] []) 2 (start + bl) (le_n _)) as [H1 H2].
    cbn [snd chain d_extent d_blocks map]. split; [split; [reflexivity|exact H1]|].
    rewrite H2, sumZ_cons. cbv beta. change (fun r : dirrec => d_blocks r) with d_blocks. lia. }
  destruct Hc as [Hc He]. split; [exact Hc|]. split; [exact (chain_next _ _ Hc)|].
  split; [exact He|]. split.
  { unfold ptable, assign_extents. rewrite map_map. reflexivity. }
  intros Hb. apply (chain_disjoint start); [|exact Hc]. apply Forall_forall. intros r Hr.
  destruct (bfs_describes_tree _ _ _ Hr) as (ks & Hs & _).
  apply (blocks_ok_subtree _ _ _ Hb) in Hs. cbn [blocks_okb] in Hs. lia.
Qed.

(* THEOREM 4 *)
Definition plen (r : dirrec) : Z := ptr_record_length (zlen (d_name r)).

Theorem ptable_size_sum start t : ptable_size t = sumZ (map plen (bfs start t)).
Proof.
  unfold ptable_size. rewrite tree_ptr_size_sum.
  rewrite <- (bfs_sum (fun n _ => ptr_record_length (zlen n)) start t). reflexivity.
Qed.

Theorem ptable_size_root n b ks : zlen n = 1 ->
  ptable_size (Node n b ks) = 10 + sumZ (map ptable_size ks).
Proof. intros H. unfold ptable_size. cbn [tree_ptr_size]. rewrite H. reflexivity. Qed.

Lemma opt_concat_zlen {A} (enc : A -> option (list Z)) (h : A -> Z) rs :
  (forall r a, enc r = Some a -> zlen a = h r) ->
  forall b, opt_concat (map enc rs) = Some b -> zlen b = sumZ (map h rs).
Proof.
  intros He. induction rs as [|r rs IH]; intros b H; cbn [map opt_concat] in *.
  - injection H as <-. reflexivity.
  - destruct (enc r) as [a|] eqn:E; [|discriminate].
    destruct (opt_concat (map enc rs)) as [b'|] eqn:E2; [|discriminate]. injection H as <-.
    rewrite zlen_app, (He _ _ E), sumZ_cons, (IH _ eq_refl). reflexivity.
Qed.

Theorem ptable_bytes_length start t b :
  ptable_bytes_le start t = Some b \/ ptable_bytes_be start t = Some b -> zlen b = ptable_size t.
Proof.
  rewrite (ptable_size_sum start t). intros [H|H];
    (eapply opt_concat_zlen; [|exact H]); intros r a E; unfold plen;
    rewrite <- ptr_len_agrees_with_generated.
  - exact (ptr_record_len _ _ E).
  - exact (ptr_record_len_be _ _ E).
Qed.

Lemma track_add_fst st l : fst (track_add st l) = fst st + ptr_record_length l.
Proof. unfold track_add, add_to_ptr_size. destruct (Z.gtb _ _); reflexivity. Qed.

Lemma fold_track l : forall st,
  fst (fold_left track_add l st) = fst st + sumZ (map ptr_record_length l).
Proof.
  induction l as [|x l IH]; intros st; cbn [fold_left map]; [unfold sumZ; cbn; lia|].
  rewrite IH, track_add_fst, sumZ_cons. lia.
Qed.

Lemma sumZ_perm a b : Permutation a b -> sumZ a = sumZ b.
Proof. induction 1; rewrite ?sumZ_cons; lia. Qed.

(* path_tbl_size after new() and one add_to_ptr_size per non-root directory, in any order of
   creation, is the byte length of the table *)
Theorem tracked_size_is_ptable_size start t order : zlen (tname t) = 1 ->
  Permutation order (map (fun r => zlen (d_name r)) (tl (bfs start t))) ->
  fst (fold_left track_add order track_init) = ptable_size t.
Proof.
  intros Hn Hp. rewrite fold_track, (ptable_size_sum start t).
  rewrite (sumZ_perm _ _ (Permutation_map ptr_record_length Hp)), map_map.
  destruct t as [nm bl ks]. rewrite bfs_unfold. cbn [tl map tname] in *. rewrite sumZ_cons.
  unfold plen at 1. cbn [d_name]. rewrite Hn. reflexivity.
Qed.

(* ---- 5. an independent reader rebuilds the tree's paths ------------------------------------- *)

Definition linked (out : list dirrec) : Prop :=
  forall i r, nth_error out (S i) = Some r ->
    exists p, nth_error out (Z.to_nat (d_parent r - 1)) = Some p /\
              1 <= d_parent r <= Z.of_nat (S i) /\ d_path r = d_path p ++ [d_name r].

Lemma reader_go_spec rest : forall done, done <> [] -> linked (done ++ rest) ->
  reader_go (map d_path done) (map rec_tuple rest) = Some (map d_path (done ++ rest)).
Proof.
  induction rest as [|r rest IH]; intros done Hne Hl.
  - rewrite app_nil_r. reflexivity.
  - assert (Hi : nth_error (done ++ r :: rest) (S (length done - 1)) = Some r).
    { destruct done as [|d0 done']; [congruence|]. cbn [length].
      replace (S (S (length done') - 1)) with (length (d0 :: done')) by (cbn [length]; lia).
      rewrite nth_error_app2 by lia. rewrite Nat.sub_diag. reflexivity. }
    destruct (Hl _ _ Hi) as (p & Hp & Hrange & Hpath).
    assert (Hlen : zlen (map d_path done) = Z.of_nat (length done))
      by (unfold zlen; rewrite map_length; reflexivity).
    assert (Hd : (0 < length done)%nat) by (destruct done; [congruence|cbn; lia]).
    rewrite nth_error_app1 in Hp by lia.
    pose proof (nth_error_nth _ _ [] (map_nth_error d_path _ _ Hp)) as Hnth.
    cbn [map]. unfold rec_tuple at 1.
    remember (map d_path done) as acc eqn:Eacc.
    destruct acc as [|a0 acc']; [destruct done; [congruence|discriminate]|].
    cbn [reader_go].
    replace ((1 <=? d_parent r) && (d_parent r <=? zlen (a0 :: acc'))) with true by lia.
    rewrite Hnth, Eacc.
    replace (map d_path done ++ [d_path p ++ [d_name r]]) with (map d_path (done ++ [r]))
      by (rewrite map_app; cbn [map]; rewrite Hpath; reflexivity).
    rewrite IH.
    + rewrite <- app_assoc. reflexivity.
    + destruct done; discriminate.
    + rewrite <- app_assoc. exact Hl.
Qed.

Lemma bfs_linked start t : linked (bfs start t).
Proof.
  intros i r H. destruct (bfs_numbers start t) as (_ & Hn & _ & Hp).
  destruct (Hp i r H) as (p & j & Hnth & _ & Hr & _ & Hpath). pose proof (Hn _ _ H).
  exists p. split; [exact Hnth|]. split; [lia|exact Hpath].
Qed.

(* THEOREM 5 *)
Theorem reader_sound start t :
  reader_tree_of_ptable (ptable start t) = Some (map d_path (bfs start t)) /\
  Permutation (map d_path (bfs start t)) (tree_paths [] t).
Proof.
  split.
  - pose proof (bfs_linked start t) as Hl. unfold reader_tree_of_ptable, ptable.
    destruct t as [nm bl ks]. rewrite bfs_unfold in *.
    set (rest := fst (go _ _ _ _)) in *. cbn [map reader_go rec_tuple d_parent].
    change (1 =? 1) with true. cbv iota.
    apply (reader_go_spec rest [mk_dirrec 1 1 nm bl start [] []]); [discriminate|exact Hl].
  - destruct t as [nm bl ks]. rewrite bfs_unfold. cbn [map d_path tree_paths]. apply perm_skip.
    eapply Permutation_trans; [apply go_paths; lia|]. unfold child_items.
    rewrite qpaths_child. apply Permutation_refl.
Qed.

(* ... and from the written bytes, through _parse_path_table *)
Lemma enc_nonempty r a : enc_ptr_le r = Some a -> a <> [].
Proof.
  intros H E. apply ptr_record_len in H. subst a. unfold ptr_len, fmt_ptr_size in H.
  rewrite zlen_nil in H. pose proof (zlen_nonneg (pt_dirid r)). lia.
Qed.

Lemma parse_concat rs : forall b f,
  opt_concat (map (fun r => enc_ptr_le (ptrec_of r)) rs) = Some b -> (length rs <= f)%nat ->
  parse_ptable f b = Some (map ptrec_of rs) /\ (length rs <= length b)%nat.
Proof.
  induction rs as [|r rs IH]; intros b f H Hf; cbn [map opt_concat] in H.
  - injection H as <-. split; [destruct f; reflexivity|cbn; lia].
  - destruct (enc_ptr_le (ptrec_of r)) as [a|] eqn:E; [|discriminate].
    destruct (opt_concat _) as [b'|] eqn:E2; [|discriminate]. injection H as <-.
    destruct f as [|f]; [cbn in Hf; lia|]. pose proof (enc_nonempty _ _ E) as Hne.
    destruct a as [|x a]; [congruence|]. cbn [length] in Hf.
    destruct (IH b' f eq_refl ltac:(lia)) as [IH1 IH2]. split.
    + cbn [app parse_ptable]. change (x :: a ++ b') with ((x :: a) ++ b').
      rewrite (ptr_roundtrip_le _ _ b' E), IH1. reflexivity.
    + rewrite app_length. cbn [length]. lia.
Qed.

Theorem parse_ptable_sound start t b : ptable_bytes_le start t = Some b ->
  exists rs, parse_ptable (length b) b = Some rs /\ map tuple_of_ptrec rs = ptable start t.
Proof.
  intros H. unfold ptable_bytes_le in H.
  destruct (parse_concat _ b (length b) H) as [H1 H2].
  - destruct (parse_concat _ b (length (bfs start t)) H (le_n _)) as [_ H2]. exact H2.
  - exists (map ptrec_of (bfs start t)). split; [exact H1|]. unfold ptable.
    rewrite map_map. reflexivity.
Qed.

Theorem reader_of_bytes_sound start t b : ptable_bytes_le start t = Some b ->
  reader_of_bytes b = Some (map d_path (bfs start t)).
Proof.
  intros H. destruct (parse_ptable_sound _ _ _ H) as (rs & Hp & Ht).
  unfold reader_of_bytes. rewrite Hp, Ht. apply reader_sound.
Qed.


(* the extent bookkeeping of add_to_ptr_size / remove_from_ptr_size *)
Lemma track_add_extents st l : 0 <= ptr_record_length l <= 4096 ->
  ceiling_div (fst st) 4096 * 2 <= snd st ->
  ceiling_div (fst (track_add st l)) 4096 * 2 <= snd (track_add st l).
Proof.
  unfold track_add, add_to_ptr_size, ceiling_div. intros Hl H.
  destruct (Z.gtb _ _) eqn:E; cbn [fst snd]; lia.
Qed.

Lemma track_remove_add st l : ceiling_div (fst st) 4096 * 2 <= snd st ->
  exists e, track_remove (track_add st l) l = Some (fst st, e).
Proof.
  intros H. pose proof (track_add_fst st l) as Hs.
  assert (He : snd st <= snd (track_add st l))
    by (unfold track_add, add_to_ptr_size; destruct (Z.gtb _ _); cbn [snd]; lia).
  destruct (track_add st l) as [s e]. cbn [fst snd] in *.
  unfold track_remove, remove_from_ptr_size. cbn [fst snd].
  replace (s - ptr_record_length l) with (fst st) by lia.
  destruct (Z.gtb (ceiling_div (fst st) 4096 * 2) e) eqn:E2; [lia|].
  destruct (Z.ltb _ _); eexists; reflexivity.
Qed.

(* ---- non-vacuity: images built by the real library --------------------------------------------
   PyCdlib().new(); add_directory(...); force_consistency(); write_fp; the tree literal is read off
   iso.pvd.root_directory_record() (blocks = ceiling_div(data_length, 2048)), [start] is the root's
   extent_location(), the expected tuples are parsed from the written L table (and equal
   (ptr.len_di, ptr.extent_location, ptr.parent_directory_num, ptr.directory_identifier) of the
   objects). *)

(* /A /AA /B /A/AA /A/B /AA/A /B/A /A/B/C : three levels, siblings A < AA < B under different parents *)
Definition ex0_tree : dtree :=
  Node [0] 1 [Node [65] 1 [Node [65; 65] 1 []; Node [66] 1 [Node [67] 1 []]];
              Node [65; 65] 1 [Node [65] 1 []]; Node [66] 1 [Node [65] 1 []]].
Definition ex0_expected : list ptuple :=
  [(1, 23, 1, [0]); (1, 24, 1, [65]); (2, 25, 1, [65; 65]); (1, 26, 1, [66]); (2, 27, 2, [65; 65]);
   (1, 28, 2, [66]); (1, 29, 3, [65]); (1, 30, 4, [65]); (1, 31, 6, [67])].
Definition ex0_le : list Z :=
  [1; 0; 23; 0; 0; 0; 1; 0; 0; 0; 1; 0; 24; 0; 0; 0; 1; 0; 65; 0; 2; 0; 25; 0; 0; 0; 1; 0; 65; 65;
   1; 0; 26; 0; 0; 0; 1; 0; 66; 0; 2; 0; 27; 0; 0; 0; 2; 0; 65; 65; 1; 0; 28; 0; 0; 0; 2; 0; 66; 0;
   1; 0; 29; 0; 0; 0; 3; 0; 65; 0; 1; 0; 30; 0; 0; 0; 4; 0; 65; 0; 1; 0; 31; 0; 0; 0; 6; 0; 67; 0].
Definition ex0_be : list Z :=
  [1; 0; 0; 0; 0; 23; 0; 1; 0; 0; 1; 0; 0; 0; 0; 24; 0; 1; 65; 0; 2; 0; 0; 0; 0; 25; 0; 1; 65; 65;
   1; 0; 0; 0; 0; 26; 0; 1; 66; 0; 2; 0; 0; 0; 0; 27; 0; 2; 65; 65; 1; 0; 0; 0; 0; 28; 0; 2; 66; 0;
   1; 0; 0; 0; 0; 29; 0; 3; 65; 0; 1; 0; 0; 0; 0; 30; 0; 4; 65; 0; 1; 0; 0; 0; 0; 31; 0; 6; 67; 0].

Example ex0_matches_pycdlib :
  check_ptable_case ex0_tree 23 ex0_expected = true /\
  check_ptable_bytes_case ex0_tree 23 ex0_le ex0_be = true /\
  ptable_size ex0_tree = 90 /\ assign_end 23 ex0_tree = 32 /\
  reader_of_bytes ex0_le =
    Some [[]; [[65]]; [[65; 65]]; [[66]]; [[65]; [65; 65]]; [[65]; [66]]; [[65; 65]; [65]];
          [[66]; [65]]; [[65]; [66]; [67]]].
Proof. vm_compute. repeat split. Qed.

(* interchange_level=4: /A /A\x01 /A\x01/X /A/Y -- the witness of ptable_order_ecma_refuted *)
Example ex1_matches_pycdlib :
  check_ptable_case ecma_witness 24
    [(1, 24, 1, [0]); (1, 25, 1, [65]); (2, 26, 1, [65; 1]); (1, 27, 2, [89]); (1, 28, 3, [88])]
  = true /\
  keys_sortedb (key_ltb name_ltb) (map rkey (bfs 24 ecma_witness)) = true /\
  keys_sortedb (key_ltb ecma_ltb) (map rkey (bfs 24 ecma_witness)) = false.
Proof. vm_compute. repeat split. Qed.

(* /B /B/Q /B/Q/LONGNAME /X /X/A /X/Y /X/Y/Z /X/Y/Z/W /X/Y/Z/W/V plus files /F.;1 /X/G.;1 : six
   levels; the files do not take part in the numbering *)
Definition ex2_tree : dtree :=
  Node [0] 1 [Node [66] 1 [Node [81] 1 [Node [76; 79; 78; 71; 78; 65; 77; 69] 1 []]];
              Node [88] 1 [Node [65] 1 [];
                           Node [89] 1 [Node [90] 1 [Node [87] 1 [Node [86] 1 []]]]]].
Example ex2_matches_pycdlib :
  check_ptable_case ex2_tree 23
    [(1, 23, 1, [0]); (1, 24, 1, [66]); (1, 25, 1, [88]); (1, 26, 2, [81]); (1, 27, 3, [65]);
     (1, 28, 3, [89]); (8, 29, 4, [76; 79; 78; 71; 78; 65; 77; 69]); (1, 30, 6, [90]);
     (1, 31, 8, [87]); (1, 32, 9, [86])] = true /\
  ptable_size ex2_tree = 106 /\ write_order ex2_tree = map d_pos (bfs 23 ex2_tree) /\
  fst (fold_left track_add [1; 1; 1; 1; 1; 8; 1; 1; 1] track_init) = 106.
Proof. vm_compute. repeat split. Qed.

Print Assumptions bfs_numbers.
Print Assumptions bfs_describes_tree.
Print Assumptions write_order_is_bfs.
Print Assumptions ptable_order.
Print Assumptions ptable_order_ecma.
Print Assumptions ptable_order_ecma_refuted.
Print Assumptions extents_disjoint_consecutive.
Print Assumptions ptable_size_sum.
Print Assumptions ptable_bytes_length.
Print Assumptions tracked_size_is_ptable_size.
Print Assumptions reader_sound.
Print Assumptions parse_ptable_sound.
Print Assumptions reader_of_bytes_sound.
Print Assumptions track_remove_add.
