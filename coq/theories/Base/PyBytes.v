(* Python == on bytes / ASCII str values, both represented as lists of byte values.  Used by the generated
   Gen/GenRR.v (string and bytes comparisons of the translated source). *)
From Coq Require Import ZArith List Bool.
Import ListNotations.
Local Open Scope Z_scope.

Fixpoint py_bytes_eqb (a b : list Z) : bool :=
  match a, b with
  | [], [] => true
  | x :: a', y :: b' => (x =? y) && py_bytes_eqb a' b'
  | _, _ => false
  end.

Lemma py_bytes_eqb_spec a : forall b, py_bytes_eqb a b = true <-> a = b.
Proof.
  induction a as [|x a IH]; intros [|y b]; cbn [py_bytes_eqb]; split; intro H; try reflexivity; try discriminate.
  - apply andb_true_iff in H. destruct H as [H1 H2]. apply Z.eqb_eq in H1. apply IH in H2. subst; reflexivity.
  - injection H as -> ->. rewrite Z.eqb_refl. cbn [andb]. apply IH. reflexivity.
Qed.
