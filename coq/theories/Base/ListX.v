(* List lemmas missing from the 8.16 standard library. *)
From Coq Require Import List Arith Lia.
Import ListNotations.

Lemma skipn_skipn {A} (a b : nat) (l : list A) : skipn a (skipn b l) = skipn (b + a) l.
Proof.
  revert l; induction b as [|b IH]; intros l; cbn [skipn plus]; [reflexivity|].
  destruct l as [|x l]; [destruct a; reflexivity|]. apply IH.
Qed.

Lemma In_firstn {A} (n : nat) (l : list A) x : In x (firstn n l) -> In x l.
Proof.
  revert l; induction n as [|n IH]; intros [|y l]; cbn; try tauto.
  intros [H|H]; [left; exact H|right; apply IH; exact H].
Qed.

Lemma In_skipn {A} (n : nat) (l : list A) x : In x (skipn n l) -> In x l.
Proof.
  revert l; induction n as [|n IH]; intros [|y l]; cbn; try tauto.
  intros H; right; apply IH; exact H.
Qed.

Lemma skipn_nth_error {A} (i : nat) (l : list A) s :
  nth_error l i = Some s -> skipn i l = s :: skipn (S i) l.
Proof.
  revert i; induction l as [|a l IH]; intros [|i] Hn; cbn in *; try discriminate.
  - inversion Hn; reflexivity.
  - apply IH; exact Hn.
Qed.

Lemma set_same {A} (i : nat) (l : list A) s :
  nth_error l i = Some s -> firstn i l ++ s :: skipn (S i) l = l.
Proof.
  intros H. rewrite <- (skipn_nth_error i l s H). apply firstn_skipn.
Qed.

Lemma Forall_set {A} (P : A -> Prop) i s (l : list A) :
  Forall P l -> P s -> Forall P (firstn i l ++ s :: skipn (S i) l).
Proof.
  intros Hl Hs. rewrite Forall_forall in Hl. apply Forall_app; split.
  - apply Forall_forall; intros x Hx. apply Hl. eapply In_firstn; eauto.
  - constructor; [exact Hs|].
    apply Forall_forall; intros x Hx. apply Hl. eapply In_skipn; eauto.
Qed.
