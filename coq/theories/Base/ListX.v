(* List lemmas missing from the 8.16 standard library. *)
From Coq Require Import List Arith Lia.
Import ListNotations.

Lemma skipn_skipn {A} (a b : nat) (l : list A) : skipn a (skipn b l) = skipn (b + a) l.
Proof.
  revert l; induction b as [|b IH]; intros l; cbn [skipn plus]; [reflexivity|].
  destruct l as [|x l]; [destruct a; reflexivity|]. apply IH.
Qed.

Lemma In_firstn {A} (n : nat) (l : list A) x : In x (firstn n l) -> In x l.
Proof.
  revert l; induction n as [|n IH]; intros [|y l]; cbn; try tauto.
  intros [H|H]; [left; exact H|right; apply IH; exact H].
Qed.

Lemma In_skipn {A} (n : nat) (l : list A) x : In x (skipn n l) -> In x l.
Proof.
  revert l; induction n as [|n IH]; intros [|y l]; cbn; try tauto.
  intros H; right; apply IH; exact H.
Qed.

Lemma skipn_nth_error {A} (i : nat) (l : list A) s :
  nth_error l i = Some s -> skipn i l = s :: skipn (S i) l.
Proof.
  revert i; induction l as [|a l IH]; intros [|i] Hn; cbn in *; try discriminate.
  - inversion Hn; reflexivity.
  - apply IH; exact Hn.
Qed.

Lemma set_same {A} (i : nat) (l : list A) s :
  nth_error l i = Some s -> firstn i l ++ s :: skipn (S i) l = l.
Proof.
  intros H. rewrite <- (skipn_nth_error i l s H). apply firstn_skipn.
Qed.

Lemma Forall_set {A} (P : A -> Prop) i s (l : list A) :
  Forall P l -> P s -> Forall P (firstn i l ++ s :: skipn (S i) l).
Proof.
  intros Hl Hs. rewrite Forall_forall in Hl. apply Forall_app; split.
  - apply Forall_forall; intros x Hx. apply Hl. eapply In_firstn; eauto.
  - constructor; [exact Hs|].
    apply Forall_forall; intros x Hx. apply Hl. eapply In_skipn; eauto.
Qed.

Lemma NoDup_app_single {A} (l : list A) x : NoDup l -> ~ In x l -> NoDup (l ++ [x]).
Proof.
  intros Hl Hx. induction l as [|a l IH]; cbn.
  - constructor; [intros []|constructor].
  - inversion Hl as [|? ? Ha Hl']; subst. constructor.
    + intros H. apply in_app_or in H. destruct H as [H|[H|[]]]; [auto|]. subst. apply Hx. left. reflexivity.
    + apply IH; [exact Hl'|]. intros H. apply Hx. right. exact H.
Qed.

Lemma NoDup_map_filter {A B} (f : A -> B) (p : A -> bool) (l : list A) :
  NoDup (map f l) -> NoDup (map f (filter p l)).
Proof.
  induction l as [|a l IH]; cbn; intros H; [constructor|].
  inversion H as [|? ? Ha Hl]; subst. destruct (p a); cbn.
  - constructor; [|apply IH; exact Hl].
    intros Hin. apply Ha. apply in_map_iff in Hin. destruct Hin as (x & Hx1 & Hx2).
    apply filter_In in Hx2. apply in_map_iff. exists x. tauto.
  - apply IH. exact Hl.
Qed.
