(* file.read(n) of a Python file object at position pos, on the contents [data]: the bytes (clipped at the end of the
   file) and the new position.  Used by the generated Gen/GenIO.v (translation of pycdlibio.py); Model/Stream.v [fread] is
   the same function. *)
From Coq Require Import ZArith List.
From PV.Base Require Import Prim.
Import ListNotations.
Local Open Scope Z_scope.

Definition py_fread (data : list Z) (pos n : Z) : list Z * Z :=
  let r := slice pos (pos + n) data in (r, pos + zlen r).
