(* Finite sweeps over an interval of Z, indexed by a positive counter (no unary nat of data size). *)
From Coq Require Import ZArith List Bool Lia.
Local Open Scope Z_scope.

Definition sweep_step (f : Z -> bool) (st : Z * bool) : Z * bool :=
  (fst st + 1, snd st && f (fst st)).

Definition sweep (f : Z -> bool) (start : Z) (count : positive) : bool :=
  snd (Pos.iter (sweep_step f) (start, true) count).

Lemma sweep_nat f start n :
  snd (Nat.iter n (sweep_step f) (start, true)) = true ->
  fst (Nat.iter n (sweep_step f) (start, true)) = start + Z.of_nat n /\
  forall d, start <= d < start + Z.of_nat n -> f d = true.
Proof.
  induction n as [|n IH]; intros H.
  - cbn. split; [lia|]. intros d Hd; lia.
  - change (Nat.iter (S n) (sweep_step f) (start, true))
      with (sweep_step f (Nat.iter n (sweep_step f) (start, true))) in *.
    destruct (Nat.iter n (sweep_step f) (start, true)) as [c ok] eqn:Ex.
    unfold sweep_step in H |- *. cbn [fst snd] in H, IH |- *.
    apply andb_prop in H. destruct H as [H1 H2].
    destruct (IH H1) as [IHa IHb]. split; [lia|].
    intros d Hd. destruct (Z.eq_dec d (start + Z.of_nat n)) as [->|Hne].
    + rewrite <- IHa. exact H2.
    + apply IHb. lia.
Qed.

Theorem sweep_sound f start count :
  sweep f start count = true -> forall d, start <= d < start + Z.pos count -> f d = true.
Proof.
  unfold sweep. rewrite Pos2Nat.inj_iter. intros H d Hd.
  apply (proj2 (sweep_nat f start (Pos.to_nat count) H)). lia.
Qed.
