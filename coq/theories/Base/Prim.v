(* Primitive helpers used by generated and hand-written models. *)
From Coq Require Import ZArith List Lia.
Import ListNotations.
Local Open Scope Z_scope.

(* Python subscript on a tuple / bytes with a non-negative in-range index. *)
Definition znth (i : Z) (l : list Z) : Z := nth (Z.to_nat i) l 0.

(* list(range(a, b, step)) for step > 0, by explicit fuel. *)
Fixpoint zrange_fuel (fuel : nat) (a b step : Z) : list Z :=
  match fuel with
  | O => []
  | S f => if a <? b then a :: zrange_fuel f (a + step) b step else []
  end.
Definition zrange (a b step : Z) : list Z :=
  if step <=? 0 then [] else zrange_fuel (Z.to_nat ((b - a) / step + 1)) a b step.

Definition zlen {A} (l : list A) : Z := Z.of_nat (length l).

(* slicing l[a:b] for 0 <= a *)
Definition slice {A} (a b : Z) (l : list A) : list A :=
  firstn (Z.to_nat (b - a)) (skipn (Z.to_nat a) l).

Lemma zlen_nonneg {A} (l : list A) : 0 <= zlen l.
Proof. unfold zlen; lia. Qed.

Lemma zlen_app {A} (l1 l2 : list A) : zlen (l1 ++ l2) = zlen l1 + zlen l2.
Proof. unfold zlen; rewrite app_length; lia. Qed.

Lemma zlen_cons {A} (x : A) (l : list A) : zlen (x :: l) = 1 + zlen l.
Proof. unfold zlen; cbn [length]; lia. Qed.

Lemma zlen_nil {A} : zlen (@nil A) = 0.
Proof. reflexivity. Qed.
