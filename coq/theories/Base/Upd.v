(* Functional update of one list element: the model of `obj_list[i].attr = v` in generated code. *)
From Coq Require Import ZArith List Lia.
From PV.Base Require Import Prim.
Import ListNotations.
Local Open Scope Z_scope.

Definition zupd (i v : Z) (l : list Z) : list Z :=
  firstn (Z.to_nat i) l ++ v :: skipn (S (Z.to_nat i)) l.

Lemma zupd_length i v l : 0 <= i < zlen l -> length (zupd i v l) = length l.
Proof.
  unfold zupd, zlen; intros H. rewrite app_length; cbn [length].
  rewrite firstn_length, skipn_length. lia.
Qed.

Lemma zupd_firstn_S i v l : 0 <= i < zlen l ->
  firstn (S (Z.to_nat i)) (zupd i v l) = firstn (Z.to_nat i) l ++ [v].
Proof.
  unfold zupd, zlen; intros H.
  assert (Hl : length (firstn (Z.to_nat i) l) = Z.to_nat i) by (rewrite firstn_length; lia).
  rewrite firstn_app, Hl.
  replace (S (Z.to_nat i) - Z.to_nat i)%nat with 1%nat by lia.
  rewrite firstn_all2 by lia. reflexivity.
Qed.

Lemma zrange_step a b : a < b -> zrange a b 1 = a :: zrange (a + 1) b 1.
Proof.
  intros H. unfold zrange. cbn [Z.leb Z.compare].
  rewrite !Z.div_1_r.
  replace (Z.to_nat (b - a + 1)) with (S (Z.to_nat (b - a))) by lia.
  cbn [zrange_fuel]. destruct (a <? b) eqn:E; [|lia].
  replace (b - (a + 1) + 1) with (b - a) by lia. reflexivity.
Qed.

Lemma zrange_empty a b : b <= a -> zrange a b 1 = [].
Proof.
  intros H. unfold zrange. cbn [Z.leb Z.compare].
  destruct (Z.to_nat ((b - a) / 1 + 1)) eqn:E; [reflexivity|].
  cbn [zrange_fuel]. destruct (a <? b) eqn:E2; [lia|reflexivity].
Qed.
