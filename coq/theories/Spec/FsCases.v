(* Evaluation support for the system-level correspondence: run the abstract spec on an edit
   history and compare per-edit outcomes and the final view with what the implementation showed. *)
From Coq Require Import ZArith List Bool.
From PV.Spec Require Import FsSpec.
Import ListNotations.
Local Open Scope Z_scope.

Definition ventry := (ns * path * Z * Z * bool * Z)%type.   (* ns, path, kind code, value, hidden, rr *)

Fixpoint key_of (tbl : list (Z * Z)) (b : Z) : Z :=
  match tbl with
  | [] => if b <=? -1000 then 0 else b
  | (k, v) :: r => if k =? b then v else key_of r b
  end.

Definition view_entry (tbl : list (Z * Z)) (udf_targets : bool) (n : ns) (e : entry) : ventry :=
  match e_kind e with
  | KDir => (n, e_path e, 0, 0, e_hidden e, e_rr e)
  | KFile b => (n, e_path e, 1, key_of tbl b, e_hidden e, e_rr e)
  | KSym t => (n, e_path e, 2, match n with NsUdf => if udf_targets then t else 0 | _ => t end, e_hidden e, e_rr e)
  end.

Definition view_of (tbl : list (Z * Z)) (udf_targets : bool) (s : fs) : list ventry :=
  map (view_entry tbl udf_targets NsIso) (f_iso s) ++ map (view_entry tbl udf_targets NsJoliet) (f_jol s) ++
  map (view_entry tbl udf_targets NsUdf) (f_udf s).

Definition ventry_eqb (a b : ventry) : bool :=
  let '(n1, p1, k1, v1, h1, r1) := a in
  let '(n2, p2, k2, v2, h2, r2) := b in
  ns_eqb n1 n2 && path_eqb p1 p2 && (k1 =? k2) && (v1 =? v2) && Bool.eqb h1 h2 && (r1 =? r2).

Definition subset (a b : list ventry) : bool := forallb (fun x => existsb (ventry_eqb x) b) a.
Definition view_eqb (a b : list ventry) : bool :=
  subset a b && subset b a && (length a =? length b)%nat.

Definition outcome_code (o : outcome) : Z := match o with Ok => 0 | Refused => 1 end.

(* index of the first edit whose outcome differs (impl: 0 ok, 1 refused, 2+ fault), or None *)
Fixpoint first_diff (k : Z) (spec : list outcome) (impl : list Z) : option Z :=
  match spec, impl with
  | [], [] => None
  | o :: r, x :: r' => if outcome_code o =? x then first_diff (k + 1) r r' else Some k
  | _, _ => Some k
  end.

Record syscase := { y_ops : list op; y_outcomes : list Z; y_view : list ventry; y_tbl : list (Z * Z); y_start : fs }.

(* 0 = agree; 1000+i = outcome of edit i differs; 1 = final views differ *)
Definition syscase_result (c : syscase) : Z :=
  let '(s, outs) := run (y_start c) (y_ops c) in
  match first_diff 0 outs (y_outcomes c) with
  | Some i => 1000 + i
  | None => if view_eqb (view_of (y_tbl c) false s) (y_view c) then 0 else 1
  end.

Fixpoint results (cs : list syscase) : list Z :=
  match cs with [] => [] | c :: r => syscase_result c :: results r end.

(* ---------------------------------------------------------------- C07: space held by live contents
   After every edit the implementation's data space (sum over PyCdlib.inodes of
   ceil(data_length / 2048)) must equal the space of the DISTINCT live blobs of the specification:
   content is stored once and released exactly when its last reference goes. *)
Fixpoint size_of (sizes : list (Z * Z)) (b : Z) : Z :=
  match sizes with
  | [] => 0
  | (k, v) :: r => if k =? b then v else size_of r b
  end.

Fixpoint nodupZ (l : list Z) : list Z :=
  match l with
  | [] => []
  | x :: r => if existsb (Z.eqb x) r then nodupZ r else x :: nodupZ r
  end.

Definition data_sectors (sizes : list (Z * Z)) (s : fs) : Z :=
  fold_right Z.add 0 (map (fun b => (size_of sizes b + 2047) / 2048) (nodupZ (live_blobs s))).

Fixpoint run_probe (sizes : list (Z * Z)) (s : fs) (ops : list op) : list Z :=
  match ops with
  | [] => []
  | o :: r => let s1 := fst (step s o) in data_sectors sizes s1 :: run_probe sizes s1 r
  end.

Fixpoint first_mismatch (k : Z) (a b : list Z) : Z :=
  match a, b with
  | [], [] => -1
  | x :: r, y :: r' => if x =? y then first_mismatch (k + 1) r r' else k
  | _, _ => k
  end.

Record probecase := { q_ops : list op; q_expected : list Z; q_sizes : list (Z * Z) }.

(* -1 = agree at every step; i = first edit after which the data space differs *)
Definition probe_result (c : probecase) : Z := first_mismatch 0 (run_probe (q_sizes c) empty_fs (q_ops c)) (q_expected c).

Fixpoint probe_results (cs : list probecase) : list Z :=
  match cs with [] => [] | c :: r => probe_result c + 1 :: probe_results r end.   (* +1: 0 = agree (nat-parsable) *)
