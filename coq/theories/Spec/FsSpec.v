(* The abstract file system: what a sequence of edits through pycdlib's public API IMPLIES.
   Three namespaces (ISO9660 with optional Rock Ridge names, Joliet, UDF), each a finite map
   path -> entry; file entries are bound to blob identifiers (one blob per add_fp call; hard
   links add names to a blob).  Names are abstract identifiers (Z): legality of concrete
   identifiers is C13/C18's business; an edit the generator knows to be illegal is the op [Bad].
   This is "the sequence of edits implies" of C01/C02/C07/C13/C14. *)
From Coq Require Import ZArith List Bool Lia.
Import ListNotations.
Local Open Scope Z_scope.

Inductive ns := NsIso | NsJoliet | NsUdf.
Definition path := list Z.                       (* component identifiers; root = [] *)

Inductive kind :=
| KDir
| KFile (blob : Z)       (* blob 0 = "no data": zero-length placeholder without an inode *)
| KSym (target : Z).

Record entry := { e_path : path; e_kind : kind; e_hidden : bool; e_rr : Z }.   (* e_rr = 0: no RR name *)

Record boot := { b_blobs : list Z; b_catalog_names : list (ns * path) }.   (* boot files of all sections *)

Record fs := { f_iso : list entry; f_jol : list entry; f_udf : list entry; f_boot : option boot }.

Definition empty_fs : fs := {| f_iso := []; f_jol := []; f_udf := []; f_boot := None |}.

Fixpoint path_eqb (a b : path) : bool :=
  match a, b with
  | [], [] => true
  | x :: a', y :: b' => (x =? y) && path_eqb a' b'
  | _, _ => false
  end.

Definition ns_eqb (a b : ns) : bool :=
  match a, b with NsIso, NsIso | NsJoliet, NsJoliet | NsUdf, NsUdf => true | _, _ => false end.

Definition get_ns (s : fs) (n : ns) : list entry :=
  match n with NsIso => f_iso s | NsJoliet => f_jol s | NsUdf => f_udf s end.

Definition set_ns (s : fs) (n : ns) (l : list entry) : fs :=
  match n with
  | NsIso => {| f_iso := l; f_jol := f_jol s; f_udf := f_udf s; f_boot := f_boot s |}
  | NsJoliet => {| f_iso := f_iso s; f_jol := l; f_udf := f_udf s; f_boot := f_boot s |}
  | NsUdf => {| f_iso := f_iso s; f_jol := f_jol s; f_udf := l; f_boot := f_boot s |}
  end.

Definition lookup (l : list entry) (p : path) : option entry :=
  find (fun e => path_eqb (e_path e) p) l.

Definition remove_path (l : list entry) (p : path) : list entry :=
  filter (fun e => negb (path_eqb (e_path e) p)) l.

Definition parent_of (p : path) : path := removelast p.

Definition is_dir_at (l : list entry) (p : path) : bool :=
  match p with
  | [] => true                                   (* the root always exists *)
  | _ => match lookup l p with Some e => match e_kind e with KDir => true | _ => false end | None => false end
  end.

(* may a new entry be created at p? non-root, parent is an existing directory, name is free *)
Definition can_add (l : list entry) (p : path) : bool :=
  match p with
  | [] => false
  | _ => is_dir_at l (parent_of p) && match lookup l p with None => true | Some _ => false end
  end.

Definition has_children (l : list entry) (p : path) : bool :=
  existsb (fun e => match e_path e with [] => false | _ => path_eqb (parent_of (e_path e)) p end) l.

Definition mk (p : path) (k : kind) (rr : Z) : entry := {| e_path := p; e_kind := k; e_hidden := false; e_rr := rr |}.

(* Rock Ridge names must also be unique within a directory for the RR view to be a function;
   the library does not check this (it is not among the listed rules), so neither does the spec:
   the generator keeps RR names in bijection with ISO names. *)

Inductive linksrc := SrcPath (n : ns) (p : path) | SrcBootCatalog.

Inductive op :=
| AddFp (blob : Z) (iso : option (path * Z)) (jol : option path) (udf : option path)
| AddDir (iso : option (path * Z)) (jol : option path) (udf : option path)
| RmFile (n : ns) (p : path)
| RmDir (iso : option path) (jol : option path) (udf : option path)
| AddLink (src : linksrc) (n : ns) (p : path) (rr : Z)
| RmLink (n : ns) (p : path)
| AddSymlinkRR (p : path) (rr : Z) (target : Z)
| AddSymlinkUdf (iso : path) (udfp : path) (target : Z)     (* ISO placeholder without data + UDF symlink *)
| SetHidden (n : ns) (p : path) (h : bool)
| AddEltorito (bootfile : path) (catalog : path) (catalog_rr : Z) (catalog_jol : option path) (catalog_udf : option path)
| AddEltoritoSection (bootfile : path)           (* add_eltorito when a catalog already exists *)
| RmEltorito
| Reopen (empties : list Z) (base : Z)
    (* write the image and open it again.  On disc a zero-length file has no data extent, so which
       names were links to one empty content cannot be recovered: after reopening, every name bound
       to an empty blob (listed in [empties], or already renumbered) is its own content.  [base]
       (<= -1000, distinct per generation) seeds the fresh blob identifiers. *)
| Bad.                                           (* an edit that must be refused; changes nothing *)

Inductive outcome := Ok | Refused.

Definition opt_ok {A} (f : A -> bool) (o : option A) : bool := match o with None => true | Some a => f a end.

Definition blob_of (l : list entry) (p : path) : option Z :=
  match lookup l p with Some e => match e_kind e with KFile b => Some b | _ => None end | None => None end.

Definition drop_blob (b : Z) (l : list entry) : list entry :=
  filter (fun e => match e_kind e with KFile b' => negb (b' =? b) | _ => true end) l.

Definition is_boot_blob (s : fs) (b : Z) : bool :=
  match f_boot s with Some bt => existsb (Z.eqb b) (b_blobs bt) | None => false end.

Definition is_catalog_name (s : fs) (n : ns) (p : path) : bool :=
  match f_boot s with
  | Some bt => existsb (fun x => ns_eqb (fst x) n && path_eqb (snd x) p) (b_catalog_names bt)
  | None => false
  end.

Definition catalog_blob : Z := -1.    (* the boot catalog is presented as a file with this blob id *)

Definition set_hidden_in (l : list entry) (p : path) (h : bool) : list entry :=
  map (fun e => if path_eqb (e_path e) p
                then {| e_path := e_path e; e_kind := e_kind e; e_hidden := h; e_rr := e_rr e |} else e) l.

Definition is_empty_blob (empties : list Z) (b : Z) : bool := (b <=? -1000) || existsb (Z.eqb b) empties.

Fixpoint renum (empties : list Z) (base k : Z) (l : list entry) : list entry :=
  match l with
  | [] => []
  | e :: r =>
    (match e_kind e with
     | KFile b => if is_empty_blob empties b
                  then {| e_path := e_path e; e_kind := KFile (base - k); e_hidden := e_hidden e; e_rr := e_rr e |}
                  else e
     | _ => e
     end) :: renum empties base (k + 1) r
  end.

(* In UDF two names of one empty content still share a File Entry on disc, so they stay linked to
   each other (but not to names in the other namespaces): the fresh identifier is derived from the
   position of the first UDF entry bound to the same blob. *)
Fixpoint first_idx (b : Z) (l : list entry) (k : Z) : Z :=
  match l with
  | [] => k
  | e :: r => match e_kind e with
              | KFile b' => if b' =? b then k else first_idx b r (k + 1)
              | _ => first_idx b r (k + 1)
              end
  end.

Definition renum_shared (empties : list Z) (base : Z) (l : list entry) : list entry :=
  map (fun e => match e_kind e with
                | KFile b => if is_empty_blob empties b
                             then {| e_path := e_path e; e_kind := KFile (base - first_idx b l 0);
                                     e_hidden := e_hidden e; e_rr := e_rr e |}
                             else e
                | _ => e
                end) l.

Definition step (s : fs) (o : op) : fs * outcome :=
  match o with
  | Bad => (s, Refused)
  | Reopen empties base =>
    ({| f_iso := renum empties base 0 (f_iso s); f_jol := renum empties (base - 300000) 0 (f_jol s);
        f_udf := renum_shared empties (base - 600000) (f_udf s); f_boot := f_boot s |}, Ok)
  | AddFp blob iso jol udf =>
    if (match iso, jol, udf with None, None, None => false | _, _, _ => true end) &&
       opt_ok (fun x => can_add (f_iso s) (fst x)) iso && opt_ok (can_add (f_jol s)) jol &&
       opt_ok (can_add (f_udf s)) udf
    then
      let s1 := match iso with Some (p, rr) => set_ns s NsIso (f_iso s ++ [mk p (KFile blob) rr]) | None => s end in
      let s2 := match jol with Some p => set_ns s1 NsJoliet (f_jol s1 ++ [mk p (KFile blob) 0]) | None => s1 end in
      let s3 := match udf with Some p => set_ns s2 NsUdf (f_udf s2 ++ [mk p (KFile blob) 0]) | None => s2 end in
      (s3, Ok)
    else (s, Refused)
  | AddDir iso jol udf =>
    if (match iso, jol, udf with None, None, None => false | _, _, _ => true end) &&
       opt_ok (fun x => can_add (f_iso s) (fst x)) iso && opt_ok (can_add (f_jol s)) jol &&
       opt_ok (can_add (f_udf s)) udf
    then
      let s1 := match iso with Some (p, rr) => set_ns s NsIso (f_iso s ++ [mk p KDir rr]) | None => s end in
      let s2 := match jol with Some p => set_ns s1 NsJoliet (f_jol s1 ++ [mk p KDir 0]) | None => s1 end in
      let s3 := match udf with Some p => set_ns s2 NsUdf (f_udf s2 ++ [mk p KDir 0]) | None => s2 end in
      (s3, Ok)
    else (s, Refused)
  | RmFile n p =>
    match lookup (get_ns s n) p with
    | Some e =>
      match e_kind e with
      | KFile b =>
        if is_catalog_name s n p || ((negb (b =? 0)) && is_boot_blob s b) then (s, Refused)
        else if b =? 0 then (set_ns s n (remove_path (get_ns s n) p), Ok)
        else ({| f_iso := drop_blob b (f_iso s); f_jol := drop_blob b (f_jol s);
                 f_udf := drop_blob b (f_udf s); f_boot := f_boot s |}, Ok)
      | _ => (s, Refused)
      end
    | None => (s, Refused)
    end
  | RmDir iso jol udf =>
    let ok1 (l : list entry) (p : path) :=
      match p with [] => false | _ => is_dir_at l p && negb (has_children l p) end in
    if (match iso, jol, udf with None, None, None => false | _, _, _ => true end) &&
       opt_ok (ok1 (f_iso s)) iso && opt_ok (ok1 (f_jol s)) jol && opt_ok (ok1 (f_udf s)) udf
    then
      ({| f_iso := match iso with Some p => remove_path (f_iso s) p | None => f_iso s end;
          f_jol := match jol with Some p => remove_path (f_jol s) p | None => f_jol s end;
          f_udf := match udf with Some p => remove_path (f_udf s) p | None => f_udf s end;
          f_boot := f_boot s |}, Ok)
    else (s, Refused)
  | AddLink src n p rr =>
    let b := match src with
             | SrcPath n0 p0 => if is_catalog_name s n0 p0 then None else blob_of (get_ns s n0) p0
             | SrcBootCatalog => match f_boot s with Some _ => Some catalog_blob | None => None end
             end in
    match b with
    | Some blob =>
      if can_add (get_ns s n) p then
        let s' := set_ns s n (get_ns s n ++ [mk p (KFile blob) rr]) in
        (match src, f_boot s' with
         | SrcBootCatalog, Some bt =>
           {| f_iso := f_iso s'; f_jol := f_jol s'; f_udf := f_udf s';
              f_boot := Some {| b_blobs := b_blobs bt; b_catalog_names := b_catalog_names bt ++ [(n, p)] |} |}
         | _, _ => s'
         end, Ok)
      else (s, Refused)
    | None => (s, Refused)
    end
  | RmLink n p =>
    match lookup (get_ns s n) p with
    | Some e => match e_kind e with
                | KFile _ => (set_ns s n (remove_path (get_ns s n) p), Ok)
                | KSym _ => match n with
                            | NsUdf => (set_ns s n (remove_path (get_ns s n) p), Ok)
                            | _ => (set_ns s n (remove_path (get_ns s n) p), Ok)
                            end
                | KDir => (s, Refused)
                end
    | None => (s, Refused)
    end
  | AddSymlinkRR p rr target =>
    if can_add (f_iso s) p then (set_ns s NsIso (f_iso s ++ [mk p (KSym target) rr]), Ok) else (s, Refused)
  | AddSymlinkUdf isop udfp target =>
    if can_add (f_iso s) isop && can_add (f_udf s) udfp then
      let s1 := set_ns s NsIso (f_iso s ++ [mk isop (KFile 0) 0]) in
      (set_ns s1 NsUdf (f_udf s1 ++ [mk udfp (KSym target) 0]), Ok)
    else (s, Refused)
  | SetHidden n p h =>
    match p, lookup (get_ns s n) p with
    | _ :: _, Some _ => (set_ns s n (set_hidden_in (get_ns s n) p h), Ok)
    | _, _ => (s, Refused)
    end
  | AddEltorito bootfile catalog crr cjol cudf =>
    match f_boot s, blob_of (f_iso s) bootfile with
    | None, Some b =>
      if (negb (b =? 0)) && can_add (f_iso s) catalog && opt_ok (can_add (f_jol s)) cjol &&
         opt_ok (can_add (f_udf s)) cudf then
        let s1 := set_ns s NsIso (f_iso s ++ [mk catalog (KFile catalog_blob) crr]) in
        let s2 := match cjol with Some p => set_ns s1 NsJoliet (f_jol s1 ++ [mk p (KFile catalog_blob) 0]) | None => s1 end in
        let s3 := match cudf with Some p => set_ns s2 NsUdf (f_udf s2 ++ [mk p (KFile catalog_blob) 0]) | None => s2 end in
        ({| f_iso := f_iso s3; f_jol := f_jol s3; f_udf := f_udf s3;
            f_boot := Some {| b_blobs := [b];
                              b_catalog_names := (NsIso, catalog) ::
                                match cjol with Some p => [(NsJoliet, p)] | None => [] end ++
                                match cudf with Some p => [(NsUdf, p)] | None => [] end |} |},
         Ok)
      else (s, Refused)
    | _, _ => (s, Refused)
    end
  | AddEltoritoSection bootfile =>
    match f_boot s, blob_of (f_iso s) bootfile with
    | Some bt, Some b =>
      if negb (b =? 0) && negb (b =? catalog_blob) then
        ({| f_iso := f_iso s; f_jol := f_jol s; f_udf := f_udf s;
            f_boot := Some {| b_blobs := b_blobs bt ++ [b]; b_catalog_names := b_catalog_names bt |} |}, Ok)
      else (s, Refused)
    | _, _ => (s, Refused)
    end
  | RmEltorito =>
    match f_boot s with
    | Some bt =>
      ({| f_iso := drop_blob catalog_blob (f_iso s); f_jol := drop_blob catalog_blob (f_jol s);
          f_udf := drop_blob catalog_blob (f_udf s); f_boot := None |}, Ok)
    | None => (s, Refused)
    end
  end.

Fixpoint run (s : fs) (ops : list op) : fs * list outcome :=
  match ops with
  | [] => (s, [])
  | o :: r => let '(s1, x) := step s o in let '(s2, xs) := run s1 r in (s2, x :: xs)
  end.

(* blobs that are alive: have a name in some namespace or are referenced by El Torito *)
Definition blobs_of (l : list entry) : list Z :=
  flat_map (fun e => match e_kind e with KFile b => [b] | _ => [] end) l.
Definition live_blobs (s : fs) : list Z :=
  blobs_of (f_iso s) ++ blobs_of (f_jol s) ++ blobs_of (f_udf s) ++
  match f_boot s with Some bt => b_blobs bt | None => [] end.
