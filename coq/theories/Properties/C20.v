(* C20 -- Tools round trip.  Level: proof (partial).  Proved (closed) over Model/Tools.v (hand model of
   build_iso_path's collision numbering and of mm3hashfromfile's block chaining over the TRANSLATED
   mm3hash): every ISO9660 name the tool hands out within a directory is new (C20_names_distinct, for
   every sequence of files and directories); the numbered name is NOT always legal: the five-character
   prefix is cut from the mangled name including its separator, extension or version
   (C20_collision_name_illegal_refuted: "AB.C;1" twice -> "AB.C;000.C;1", refused by the library;
   known finding); duplicate linking on size + 32-bit hash alone is unsound (C20_dedup_hash_collision
   _refuted: two different 8-byte contents with one murmur3 value; known finding); chaining the block
   hashes is what makes the hash depend on every block (C20_unchained_hash_ignores_all_but_last_block).
   The round trip itself (genisoimage -> extract-files, per view and option set, identical contents
   and symlinks, distinct legal ISO9660 identifiers, duplicate linking never changing what a path
   reads) is evaluated with the real tools on generated source trees. *)
From Coq Require Import ZArith List Bool.
From PV.Gen Require Import GenFun.
From PV.Model Require Import Tools Names.
From PV.Proofs Require Import ToolsProofs.
Import ListNotations.
Local Open Scope Z_scope.

Theorem C20_names_distinct : forall items used, NoDup used ->
  NoDup (snd (assign_all items used)) /\
  (forall n, In (Some n) (fst (assign_all items used)) -> In n (snd (assign_all items used)) /\ ~ In n used).
Proof. intros items used ND. exact (assign_all_distinct items used ND). Qed.

Theorem C20_collision_name_illegal_refuted :
  exists fm ext used n used',
    check_iso9660_filename fm 1 = Accept /\ mem_name fm used = true /\
    assign_name_old false fm ext used = Some (n, used') /\ check_iso9660_filename n 1 = Refuse.
Proof. exact collision_name_illegal_refuted. Qed.

Example C20_collision_name_legal_after_the_fix :
  exists n used', assign_name false [65; 66; 46; 67; 59; 49] [67; 59; 49] [[65; 66; 46; 67; 59; 49]] = Some (n, used')
                  /\ n = [65; 66; 48; 48; 48; 46; 67; 59; 49] /\ check_iso9660_filename n 1 = Accept.
Proof. exact collision_name_legal_after_the_fix. Qed.

Theorem C20_dedup_hash_collision_refuted :
  exists a b : list Z, a <> b /\ length a = length b /\ hash_blocks [a] = hash_blocks [b].
Proof. exact dedup_hash_collision_refuted. Qed.

Theorem C20_unchained_hash_ignores_all_but_last_block : forall pre pre' last,
  hash_blocks_unchained (pre ++ [last]) = hash_blocks_unchained (pre' ++ [last]).
Proof. exact unchained_hash_ignores_all_but_last_block. Qed.

Theorem C20_chained_hash_sees_first_block :
  hash_blocks [[1; 2; 3; 4]; [9; 9]] <> hash_blocks [[1; 2; 3; 5]; [9; 9]].
Proof. exact chained_hash_sees_first_block. Qed.
