(* C16 -- Reading files: exact bytes, stream semantics, no interference.
   Only statements; proofs live in Proofs/StreamProofs.v. *)
From Coq Require Import ZArith List.
From PV.Base Require Import Prim.
From PV.Model Require Import Stream.
From PV.Proofs Require Import StreamProofs.
Import ListNotations.
Local Open Scope Z_scope.

(* For every backing file, every set of open streams over files that lie inside it, and every
   interleaved script of stream operations (of any stream) and arbitrary movements of the shared
   OS-level position by other readers, every value returned equals what an in-memory binary
   stream over that file's content alone returns. *)
Theorem C16_refines : forall ops w,
  wf w -> Forall (op_ok (w_data w)) ops ->
  run true w ops = spec_run (w_data w) (abs w) ops.
Proof. exact run_refines. Qed.

(* The same statement is false of the model of the pinned original source (fixed = false). *)
Theorem C16_original_interleave_refuted :
  wf demo_world /\ Forall (op_ok (w_data demo_world)) interleave_ops /\
  run false demo_world interleave_ops <> spec_run (w_data demo_world) (abs demo_world) interleave_ops.
Proof. exact interleave_refuted. Qed.

Theorem C16_original_readinto_refuted :
  wf demo_world /\ Forall (op_ok (w_data demo_world)) readinto_ops /\
  run false demo_world readinto_ops <> spec_run (w_data demo_world) (abs demo_world) readinto_ops.
Proof. exact readinto_refuted. Qed.

Theorem C16_nonvacuous :
  exists w ops, wf w /\ Forall (op_ok (w_data w)) ops /\ length ops = 6%nat /\
                run true w ops = [OUnit; OUnit; OBytes [10; 11]; OInt 1; OBytes [21; 22; 23]; OBytes [12; 13]].
Proof. exact refines_nonvacuous. Qed.

(* The stream model (the repaired code, fixed = true) IS pycdlibio.py as TRANSLATED from the current source on this run
   (Gen/GenIO.v: PyCdlibIO.seek / readall / read / readinto; `self._fp.seek(p, 0)` = the shared file position becomes p,
   `self._fp.read(n)` = PyIO.py_fread at the shared position): dropping the seek before a read, not advancing the offset in
   readinto, or changing a bound in seek changes the generated definitions and breaks this theorem. *)
From PV.Base Require PyIO.
From PV.Gen Require GenIO.
From PV.Proofs Require StreamGenProofs.
Theorem C16_model_is_the_source : forall w i s, nth_error (Stream.w_streams w) i = Some s ->
  (forall off wh,
     match GenIO.pyio_seek (Stream.st_off s) (Stream.st_len s) (Stream.st_start s) (Stream.w_pos w) off wh with
     | Some (r, o', p') => Stream.do_seek w i s off wh = (Stream.upd w i (Stream.with_off s o') p', Stream.OInt r)
     | None => Stream.do_seek w i s off wh = (w, Stream.ORefused)
     end) /\
  match GenIO.pyio_readall (Stream.st_off s) (Stream.st_len s) (Stream.st_start s) (Stream.w_data w) (Stream.w_pos w) with
  | Some (d, o', p') => Stream.do_readall true w i s = (Stream.upd w i (Stream.with_off s o') p', Stream.OBytes d)
  | None => False
  end /\
  (forall size,
     match GenIO.pyio_read (Stream.st_off s) (Stream.st_len s) (Stream.st_start s) (Stream.w_data w) (Stream.w_pos w) size with
     | Some (d, o', p') => Stream.do_read true w i s (Some size) = (Stream.upd w i (Stream.with_off s o') p', Stream.OBytes d)
     | None => False
     end) /\
  (forall b : list Z,
     match GenIO.pyio_readinto (Stream.st_off s) (Stream.st_len s) (Stream.st_start s) (Stream.w_data w) (Stream.w_pos w) b with
     | Some (n, o', p', d) =>
         Stream.do_readinto true w i s (Prim.zlen b) = (Stream.upd w i (Stream.with_off s o') p', Stream.OBytes d) /\ n = Prim.zlen d
     | None => False
     end).
Proof.
  intros w i s H. split; [intros off wh; apply StreamGenProofs.sg_seek|].
  split; [apply StreamGenProofs.sg_readall, H|]. split; [intros size; apply StreamGenProofs.sg_read, H|].
  intros b; apply StreamGenProofs.sg_readinto, H.
Qed.
