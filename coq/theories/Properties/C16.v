(* C16 -- Reading files: exact bytes, stream semantics, no interference.
   Only statements; proofs live in Proofs/StreamProofs.v. *)
From Coq Require Import ZArith List.
From PV.Base Require Import Prim.
From PV.Model Require Import Stream.
From PV.Proofs Require Import StreamProofs.
Import ListNotations.
Local Open Scope Z_scope.

(* For every backing file, every set of open streams over files that lie inside it, and every
   interleaved script of stream operations (of any stream) and arbitrary movements of the shared
   OS-level position by other readers, every value returned equals what an in-memory binary
   stream over that file's content alone returns. *)
Theorem C16_refines : forall ops w,
  wf w -> Forall (op_ok (w_data w)) ops ->
  run true w ops = spec_run (w_data w) (abs w) ops.
Proof. exact run_refines. Qed.

(* The same statement is false of the model of the pinned original source (fixed = false). *)
Theorem C16_original_interleave_refuted :
  wf demo_world /\ Forall (op_ok (w_data demo_world)) interleave_ops /\
  run false demo_world interleave_ops <> spec_run (w_data demo_world) (abs demo_world) interleave_ops.
Proof. exact interleave_refuted. Qed.

Theorem C16_original_readinto_refuted :
  wf demo_world /\ Forall (op_ok (w_data demo_world)) readinto_ops /\
  run false demo_world readinto_ops <> spec_run (w_data demo_world) (abs demo_world) readinto_ops.
Proof. exact readinto_refuted. Qed.

Theorem C16_nonvacuous :
  exists w ops, wf w /\ Forall (op_ok (w_data w)) ops /\ length ops = 6%nat /\
                run true w ops = [OUnit; OUnit; OBytes [10; 11]; OInt 1; OBytes [21; 22; 23]; OBytes [12; 13]].
Proof. exact refines_nonvacuous. Qed.
