(* C02 -- Editing an existing image preserves everything that was not edited.
   Reopening is the identity on the specification state (FsSpec has no notion of generation), so
   "original content plus exactly those edits, across any number of generations" is: the final
   view equals FsSpec.run of the CONCATENATED edits -- checked against pycdlib by the multi-
   generation differential run.  The frame theorems say what "no entry other than the one
   addressed is affected" means in the specification. *)
From Coq Require Import ZArith List.
From PV.Spec Require Import FsSpec.
From PV.Proofs Require Import FsSpecProofs.
Import ListNotations.
Local Open Scope Z_scope.

Theorem C02_rm_link_frame : forall s n p s',
  step s (RmLink n p) = (s', Ok) ->
  lookup (get_ns s' n) p = None /\
  (forall q, q <> p -> lookup (get_ns s' n) q = lookup (get_ns s n) q) /\
  (forall m, m <> n -> get_ns s' m = get_ns s m) /\ f_boot s' = f_boot s.
Proof. exact rm_link_frame. Qed.

Theorem C02_rm_file_exact : forall s n p s' e b,
  step s (RmFile n p) = (s', Ok) -> lookup (get_ns s n) p = Some e -> e_kind e = KFile b -> b <> 0 ->
  forall m x, In x (get_ns s' m) <-> (In x (get_ns s m) /\ e_kind x <> KFile b).
Proof. exact rm_file_exact. Qed.

(* running generation after generation is running the concatenation *)
Lemma run_app : forall a b s,
  fst (run s (a ++ b)) = fst (run (fst (run s a)) b).
Proof.
  induction a as [|o a IH]; intros b s; cbn [run app]; [reflexivity|].
  destruct (step s o) as [s1 x]. specialize (IH b s1).
  destruct (run s1 (a ++ b)) as [s2 xs]. destruct (run s1 a) as [s3 ys]. cbn [fst] in *. exact IH.
Qed.

Theorem C02_spec_invariant : forall gens, wf_fs (fst (run empty_fs (concat gens))).
Proof. intros gens. apply run_preserves_wf. exact wf_empty. Qed.

Theorem C02_nonvacuous :
  f_jol (fst (run empty_fs (concat [[AddFp 5 (Some ([1], 0)) (Some [2]) None; AddFp 6 (Some ([3], 0)) (Some [4]) None];
                                    [RmLink NsIso [1]]; [RmFile NsJoliet [4]]]))) = [mk [2] (KFile 5) 0].
Proof. vm_compute. reflexivity. Qed.
