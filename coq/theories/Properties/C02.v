(* C02 -- Editing an existing image preserves everything that was not edited.
   Reopening is the identity on the specification state (FsSpec has no notion of generation), so
   "original content plus exactly those edits, across any number of generations" is: the final
   view equals FsSpec.run of the CONCATENATED edits -- checked against pycdlib by the multi-
   generation differential run.  The frame theorems say what "no entry other than the one
   addressed is affected" means in the specification. *)
From Coq Require Import ZArith List.
From PV.Spec Require Import FsSpec.
From PV.Proofs Require Import FsSpecProofs.
Import ListNotations.
Local Open Scope Z_scope.

Theorem C02_rm_link_frame : forall s n p s',
  step s (RmLink n p) = (s', Ok) ->
  lookup (get_ns s' n) p = None /\
  (forall q, q <> p -> lookup (get_ns s' n) q = lookup (get_ns s n) q) /\
  (forall m, m <> n -> get_ns s' m = get_ns s m) /\ f_boot s' = f_boot s.
Proof. exact rm_link_frame. Qed.

Theorem C02_rm_file_exact : forall s n p s' e b,
  step s (RmFile n p) = (s', Ok) -> lookup (get_ns s n) p = Some e -> e_kind e = KFile b -> b <> 0 ->
  forall m x, In x (get_ns s' m) <-> (In x (get_ns s m) /\ e_kind x <> KFile b).
Proof. exact rm_file_exact. Qed.

(* running generation after generation is running the concatenation *)
Lemma run_app : forall a b s,
  fst (run s (a ++ b)) = fst (run (fst (run s a)) b).
Proof.
  induction a as [|o a IH]; intros b s; cbn [run app]; [reflexivity|].
  destruct (step s o) as [s1 x]. specialize (IH b s1).
  destruct (run s1 (a ++ b)) as [s2 xs]. destruct (run s1 a) as [s3 ys]. cbn [fst] in *. exact IH.
Qed.

Theorem C02_spec_invariant : forall gens, wf_fs (fst (run empty_fs (concat gens))).
Proof. intros gens. apply run_preserves_wf. exact wf_empty. Qed.

Theorem C02_nonvacuous :
  f_jol (fst (run empty_fs (concat [[AddFp 5 (Some ([1], 0)) (Some [2]) None; AddFp 6 (Some ([3], 0)) (Some [4]) None];
                                    [RmLink NsIso [1]]; [RmFile NsJoliet [4]]]))) = [mk [2] (KFile 5) 0].
Proof. vm_compute. reflexivity. Qed.

(* ---- opening an image: Model/Parse.v (pycdlib's OWN parser of the directory area, _walk_directories, statement by statement; plain ISO9660) composed with the writer model Model/Master.v.  For EVERY well-formed tree: the opened object is the object graph that wrote the image; nothing valid is rejected; and (for ANY image the parser accepts) two file records share an Inode iff both have data and the same extent -- every empty file gets an Inode of its own: *)
From PV.Base Require Prim ListX.
From PV.Gen Require GenConst GenFun.
From PV.Model Require Codec Pack PathTable Names Master Parse.
From PV.Proofs Require MasterPack MasterImage MasterBfs MasterWf MasterDir MasterChecker MasterProofs ParseScan ParseTrack ParseRecord ParseDir ParseDirAll ParseWalk ParseTree ParseProofs ParseShare ParseShareWalk ParseWrite ParseExamples.
Section ParseStatementsC02.
Import PV.Base.Prim PV.Base.ListX PV.Gen.GenConst PV.Gen.GenFun PV.Model.Codec PV.Model.Pack PV.Model.PathTable PV.Model.Names PV.Model.Master PV.Model.Parse PV.Proofs.MasterPack PV.Proofs.MasterImage PV.Proofs.MasterBfs PV.Proofs.MasterWf PV.Proofs.MasterDir PV.Proofs.MasterChecker PV.Proofs.MasterProofs PV.Proofs.ParseScan PV.Proofs.ParseTrack PV.Proofs.ParseRecord PV.Proofs.ParseDir PV.Proofs.ParseDirAll PV.Proofs.ParseWalk PV.Proofs.ParseTree PV.Proofs.ParseProofs PV.Proofs.ParseShare PV.Proofs.ParseShareWalk PV.Proofs.ParseWrite PV.Proofs.ParseExamples.
Local Open Scope Z_scope.
Theorem C02_open_gives_the_object_graph_that_wrote dt t img F isz : length dt = 7%nat -> ps_tree_ok t = true ->
  master dt t = Some img -> (tsize (ms_dtree t) < F)%nat -> ms_layout_end t * BS <= isz ->
  parse F img (ps_ptr_exts t) isz (root_extent t) (root_len t) = POk (graph_of dt t).
Proof. first [exact (@parse_master) | apply (@parse_master) | intros; eapply (@parse_master); eassumption]. Qed.

Theorem C02_open_gives_the_object_graph_from_any_larger_medium dt t img img' F isz : length dt = 7%nat -> ps_tree_ok t = true ->
  master dt t = Some img -> ms_img_ok img' -> incl img img' ->
  (tsize (ms_dtree t) < F)%nat -> ms_layout_end t * BS <= isz ->
  parse F img' (ps_ptr_exts t) isz (root_extent t) (root_len t) = POk (graph_of dt t).
Proof. first [exact (@parse_master_frame) | apply (@parse_master_frame) | intros; eapply (@parse_master_frame); eassumption]. Qed.

Theorem C02_open_rejects_nothing_valid dt t img F isz : length dt = 7%nat -> ps_tree_ok t = true ->
  master dt t = Some img -> (tsize (ms_dtree t) < F)%nat -> ms_layout_end t * BS <= isz ->
  (forall w, parse F img (ps_ptr_exts t) isz (root_extent t) (root_len t) <> PInvalid w) /\
  (forall w, parse F img (ps_ptr_exts t) isz (root_extent t) (root_len t) <> PUnsupported w) /\
  parse F img (ps_ptr_exts t) isz (root_extent t) (root_len t) <> PFuel.
Proof. first [exact (@parse_rejects_nothing_valid) | apply (@parse_rejects_nothing_valid) | intros; eapply (@parse_rejects_nothing_valid); eassumption]. Qed.

Theorem C02_open_shares_inodes_iff_same_extent fuel img ptr isz re rl g :
  parse fuel img ptr isz re rl = POk g ->
  forall l1 c1 l2 c2 l3, ps_all_recs g = l1 ++ c1 :: l2 ++ c2 :: l3 ->
  ps_is_dir (p_rec c1) = false -> ps_is_dir (p_rec c2) = false ->
  (exists i1 i2, p_ino c1 = Some i1 /\ p_ino c2 = Some i2 /\
                 (i1 < length (g_inodes g))%nat /\ (i2 < length (g_inodes g))%nat) /\
  (p_ino c1 = p_ino c2 <->
   data_len (p_rec c1) <> 0 /\ data_len (p_rec c2) <> 0 /\ extent (p_rec c1) = extent (p_rec c2)).
Proof. first [exact (@parse_shares_inodes_iff_same_extent) | apply (@parse_shares_inodes_iff_same_extent) | intros; eapply (@parse_shares_inodes_iff_same_extent); eassumption]. Qed.

Theorem C02_open_empty_files_get_their_own_inode fuel img ptr isz re rl g :
  parse fuel img ptr isz re rl = POk g ->
  forall l1 c1 l2 c2 l3, ps_all_recs g = l1 ++ c1 :: l2 ++ c2 :: l3 ->
  ps_is_dir (p_rec c1) = false -> ps_is_dir (p_rec c2) = false ->
  data_len (p_rec c1) = 0 \/ data_len (p_rec c2) = 0 -> p_ino c1 <> p_ino c2.
Proof. first [exact (@parse_empty_file_own_inode) | apply (@parse_empty_file_own_inode) | intros; eapply (@parse_empty_file_own_inode); eassumption]. Qed.

Theorem C02_open_infers_the_interchange_level_refuted :
  exists dt t, ps_tree_ok t = true /\
    forallb (fun c => match Names.check_iso9660_filename (Account.name_of c) 1 with
                      | Names.Accept => true | _ => false end) (Account.kids_of t) = true /\
    ~ g_level (graph_of dt t) = 1.
Proof. first [exact (@parse_infers_level_refuted) | apply (@parse_infers_level_refuted) | intros; eapply (@parse_infers_level_refuted); eassumption]. Qed.


Theorem C02_parse_nonvacuous :
  ps_tree_ok ps_ex_t = true /\
  ps_ex_parse = POk (graph_of ps_ex_dt ps_ex_t) /\
  map (fun c => ps_oz (p_ino c)) (ps_all_recs (graph_of ps_ex_dt ps_ex_t))
    = [-1; -1; 0; 1; 2; -1;  -1; -1; 3; -1;  -1; -1] /\
  g_inodes (graph_of ps_ex_dt ps_ex_t) = [(0, 0); (0, 0); (26, 5); (27, 3000)] /\
  tree_of (graph_of ps_ex_dt ps_ex_t) (root_len ps_ex_t) = ps_ex_t /\
  ps_write (graph_of ps_ex_dt ps_ex_t) (root_extent ps_ex_t) (root_len ps_ex_t) = master ps_ex_dt ps_ex_t.
Proof. first [exact (@ps_example_ok) | apply (@ps_example_ok) | intros; eapply (@ps_example_ok); eassumption]. Qed.

End ParseStatementsC02.

(* ---- truncated images (the repaired code, 10cfb30): for ANY image the parser accepts, a record that reaches past the end of the image -- and every record linked to the same Inode -- carries the bytes that are left; the code before the fix gave the records the absolute end offset: *)
From PV.Base Require Prim ListX.
From PV.Gen Require GenConst GenFun.
From PV.Model Require Codec Pack PathTable Names Master Parse.
From PV.Proofs Require ParseShare ParseShareWalk ParseTrunc ParseExamples.
Section ParseTruncStatements.
Import PV.Base.Prim PV.Base.ListX PV.Gen.GenConst PV.Gen.GenFun PV.Model.Codec PV.Model.Pack PV.Model.PathTable PV.Model.Names PV.Model.Master PV.Model.Parse PV.Proofs.ParseShare PV.Proofs.ParseShareWalk PV.Proofs.ParseTrunc PV.Proofs.ParseExamples.
Local Open Scope Z_scope.
Theorem C02_open_of_a_truncated_image_lengths fuel img ptr isz re rl g :
  parse fuel img ptr isz re rl = POk g ->
  forall c i, In c (ps_all_recs g) -> p_ino c = Some i ->
  let e := ps_euse (p_rec c) in
  exists l, nth_error (g_inodes g) i = Some (e, l) /\
    (p_dlen c = data_len (p_rec c) \/ (p_dlen c = isz - e * BS /\ l = isz - e * BS)) /\
    (e * BS + data_len (p_rec c) > isz -> p_dlen c = isz - e * BS /\ l = isz - e * BS).
Proof. first [exact (@parse_truncation_lengths) | apply (@parse_truncation_lengths) | intros; eapply (@parse_truncation_lengths); eassumption]. Qed.

Theorem C02_open_of_a_truncated_image_example :
  exists g c, ps_ex_cut_parse = POk g /\ nth_error (ps_all_recs g) 2 = Some c /\
    p_ino c = Some 0%nat /\ nth_error (g_inodes g) 0 = Some (24, 2000) /\
    data_len (p_rec c) = 5000 /\ p_dlen c = 2000.
Proof. first [exact (@parse_truncation_example) | apply (@parse_truncation_example) | intros; eapply (@parse_truncation_example); eassumption]. Qed.

Theorem C02_open_of_a_truncated_image_before_the_fix_refuted :
  exists isz st ext dl i d st1 e l,
    ps_link_gen false isz st ext dl = (i, d, st1) /\ nth_error (s_inodes st1) i = Some (e, l) /\
    l = isz - ext * 2048 /\ d = ext * 2048 + dl /\ d <> l.
Proof. first [exact (@parse_truncation_refuted_old) | apply (@parse_truncation_refuted_old) | intros; eapply (@parse_truncation_refuted_old); eassumption]. Qed.

End ParseTruncStatements.

(* ---- opening a Rock Ridge image: Model/ParseRR.v (RockRidge.parse on every record's System Use area and continuation area,
   the continuation-block table rebuilt by track_rr_ce_entry, the version inference -- the repaired code) composed with the
   writer model Model/MasterRR.v.  For EVERY edit history whose sibling identifiers are distinct: the opened object is the
   graph the writer had, with the writer's Rock Ridge version; edits after reopen are NOT byte-identical to edits on the
   original (continuation blocks are re-numbered in walk order: prr_reopen_space_refuted in Proofs/ParseRRRefuted.v) *)
From PV.Model Require AccountRR MasterRR ParseCore ParseRR ParseRRSpec.
From PV.Proofs Require ParseRRProofs.
Section ParseRRStatements.
Import PV.Model.AccountRR PV.Model.MasterRR PV.Model.ParseRR PV.Model.ParseRRSpec.
Theorem C02_open_of_a_rock_ridge_image_gives_the_writers_graph : forall (v : RREntries.rrv) (ops : list rop) (dt : list Z) (img : image),
  v <> RREntries.V_unset -> length dt = 7%nat -> let s := rr_run (rr_init v) ops in
  mrr_sizes_ok s = true -> prr_tree_ok s = true -> master_rr dt s = Some img ->
  parse_rr (prr_fuel s) img (mrr_root_extent s) (mrr_root_len s) = ParseCore.POk (graph_of dt s).
Proof. exact ParseRRProofs.parse_rr_master_run. Qed.

Theorem C02_open_recognizes_the_rock_ridge_version : forall (dt : list Z) (s : rstate), mrr_wf dt s = true -> g_ver (graph_of dt s) = r_ver s.
Proof. exact ParseRRProofs.parse_rr_version. Qed.
End ParseRRStatements.
