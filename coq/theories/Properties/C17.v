(* C17 -- In-place modification touches only what it must.
   modify_file_in_place rewrites, for every name of the file, dr_len bytes at
   parent_extent + extents_to_here - 1, offset_to_here - dr_len: the CACHED position of the record.
   Proved for all directories (closed, Model/Pack.v): that is exactly where the writer put the
   record (C17_cached_position_is_written_position), the record lies inside one block
   and is disjoint from every other record of the directory (C17_rewritten_record_touches_no_other),
   so rewriting those bytes replaces this record and nothing else; with the same number of sectors
   (the call's precondition, on the TRANSLATED ceiling_div) the new data and its zero padding stay
   inside the file's own sectors (C17_same_sector_count_stays_inside).
   Tie: Pack.v vs dr.py on every run (packleaf.py).  The property itself: on generated images (deep and
   multi-sector directories, directory blocks filled exactly, hard links, Joliet/UDF/XA/Rock Ridge
   names) files are modified in place; the backing bytes before/after are diffed and every changed
   byte attributed (independent reader) to the file's sectors, its own records / file entries or a
   volume descriptor; the result is reopened and read through every name; refused calls must leave
   the bytes identical. *)
From Coq Require Import ZArith List Bool Lia.
From PV.Model Require Import Pack.
From PV.Proofs Require Import PackProofs ChecksumsArithProofs.
From PV.Gen Require Import GenFun.
Import ListNotations.
Local Open Scope Z_scope.

Theorem C17_cached_position_is_written_position : forall C ls, written C ls = cached_places C ls.
Proof. exact written_eq_cached. Qed.

Theorem C17_rewritten_record_touches_no_other : forall C ls i j, 0 < C -> sized C ls -> (i < j < length ls)%nat ->
  before C (nth i (combine (cached C ls) ls) (0, 0, 0)) (nth j (combine (cached C ls) ls) (0, 0, 0)).
Proof. intros C ls i j HC Hs Hij. exact (pack_disjoint C ls i j HC Hs Hij). Qed.

Theorem C17_record_inside_one_block : forall C ls, 0 < C -> sized C ls ->
  forall e o x, In (e, o, x) (combine (cached C ls) ls) -> 1 <= e /\ 0 <= o - x /\ x <= o /\ o <= C.
Proof. exact pack_inside. Qed.

(* same sector count => the new content (and its padding to the sector boundary) stays in the old sectors *)
Theorem C17_same_sector_count_stays_inside : forall old new lbs, 0 < lbs -> 0 <= new ->
  ceiling_div old lbs = ceiling_div new lbs -> new <= ceiling_div old lbs * lbs.
Proof.
  intros old new lbs Hl Hn E. rewrite E. destruct (ceiling_div_bounds new lbs Hl) as [A _]. lia.
Qed.

(* ... and a different count is what the call refuses: the two cases are exhaustive and exclusive *)
Theorem C17_refusal_condition_decidable : forall old new lbs,
  {ceiling_div old lbs = ceiling_div new lbs} + {ceiling_div old lbs <> ceiling_div new lbs}.
Proof. intros. apply Z.eq_dec. Qed.

(* ---- modify_file_in_place itself: Model/InPlace.v (the call as a function from the opened image and object graph to the ordered list of writes it issues, statement by statement incl. utils.copy_data / zero_pad, every linked directory record and UDF File Entry re-recorded, the volume descriptors rewritten).  For EVERY well-formed state and every new content: *)
From PV.Base Require Prim.
From PV.Gen Require GenConst GenFun.
From PV.Model Require Codec Checksums Udf InPlace InPlaceExamples.
From PV.Proofs Require CodecProofs UdfProofs UdfFeProofs InPlaceImgProofs InPlaceBytesProofs InPlaceStepProofs InPlaceProofs InPlaceAfterProofs InPlaceDecodeProofs InPlaceExamplesProofs.
Section InPlaceStatements.
Import PV.Base.Prim PV.Gen.GenConst PV.Gen.GenFun PV.Model.Codec PV.Model.Checksums PV.Model.Udf PV.Model.InPlace PV.Model.InPlaceExamples PV.Proofs.CodecProofs PV.Proofs.UdfProofs PV.Proofs.UdfFeProofs PV.Proofs.InPlaceImgProofs PV.Proofs.InPlaceBytesProofs PV.Proofs.InPlaceStepProofs PV.Proofs.InPlaceProofs PV.Proofs.InPlaceAfterProofs PV.Proofs.InPlaceDecodeProofs PV.Proofs.InPlaceExamplesProofs.
Local Open Scope Z_scope.
Theorem C17_frame_only_allowed_bytes_change st m d now ws : wf_state st m = true -> length now = 17%nat ->
  modify st d now = Done ws -> forall a, outside a (allowed st) = true -> apply_writes ws m a = m a.
Proof. first [exact (@inplace_frame) | apply (@inplace_frame) | intros; eapply (@inplace_frame); eassumption]. Qed.

Theorem C17_data_region_after_the_call st m d now ws ext : wf_state st m = true -> length now = 17%nat ->
  st_child st = ChFile ext -> modify st d now = Done ws ->
  (* the new bytes *)
  read (apply_writes ws m) (ext * 2048) (length d) = d /\
  (* what follows them up to the end of the last sector: the OLD bytes, except the very last one *)
  (forall a, ext * 2048 + zlen d <= a < ext * 2048 + ceiling_div (zlen d) 2048 * 2048 ->
     apply_writes ws m a = if a =? ext * 2048 + ceiling_div (zlen d) 2048 * 2048 - 1 then 0 else m a).
Proof. first [exact (@inplace_content_data) | apply (@inplace_content_data) | intros; eapply (@inplace_content_data); eassumption]. Qed.

Theorem C17_linked_records_after_the_call st m d now ws ext l b' : wf_state st m = true -> length now = 17%nat ->
  st_child st = ChFile ext -> modify st d now = Done ws ->
  In l (st_linked st) -> relink_one 2048 (zlen d) l = StWrite (lrec_pos 2048 l, b') ->
  read (apply_writes ws m) (lrec_pos 2048 l) (length b') = b'.
Proof. first [exact (@inplace_content_record) | apply (@inplace_content_record) | intros; eapply (@inplace_content_record); eassumption]. Qed.

Theorem C17_accepted_only_with_the_same_sector_count st length fp now :
  modify_run st length fp now <> Refused ->
  ceiling_div (child_len st) (st_lbs st) = ceiling_div length (st_lbs st) /\ 0 <= length.
Proof. first [exact (@inplace_same_sector_count) | apply (@inplace_same_sector_count) | intros; eapply (@inplace_same_sector_count); eassumption]. Qed.

Theorem C17_accepted_iff_same_sector_count st m d now ext : wf_state st m = true -> st_child st = ChFile ext ->
  st_initialized st = true -> mode_ok (st_mode st) = true -> length now = 17%nat ->
  ((exists ws, modify st d now = Done ws) <-> ceiling_div (st_ino_len st) 2048 = ceiling_div (zlen d) 2048).
Proof. first [exact (@inplace_accepted_iff) | apply (@inplace_accepted_iff) | intros; eapply (@inplace_accepted_iff); eassumption]. Qed.

Theorem C17_refused_call_writes_nothing st m d now : wf_state st m = true -> length now = 17%nat ->
  modify st d now = Refused \/ exists ws, modify st d now = Done ws.
Proof. first [exact (@inplace_refused_writes_nothing) | apply (@inplace_refused_writes_nothing) | intros; eapply (@inplace_refused_writes_nothing); eassumption]. Qed.

Theorem C17_negative_length_refused st n fp now : n < 0 -> modify_run st n fp now = Refused.
Proof. first [exact (@inplace_negative_refused) | apply (@inplace_negative_refused) | intros; eapply (@inplace_negative_refused); eassumption]. Qed.

Theorem C17_read_only_refused st d now s : st_mode st = Some s -> mode_ok (Some s) = false ->
  modify st d now = Refused.
Proof. first [exact (@inplace_read_only_refused) | apply (@inplace_read_only_refused) | intros; eapply (@inplace_read_only_refused); eassumption]. Qed.

Theorem C17_state_stays_well_formed_for_the_next_call st m d now ws ext : wf_state st m = true -> length now = 17%nat ->
  st_child st = ChFile ext -> modify st d now = Done ws ->
  wf_state (state_after st (zlen d)) (apply_writes ws m) = true.
Proof. first [exact (@inplace_wf_preserved) | apply (@inplace_wf_preserved) | intros; eapply (@inplace_wf_preserved); eassumption]. Qed.

Theorem C17_rewritten_directory_record_decodes st m d now ws ext j pe eth oth dl lf r rest :
  wf_state st m = true -> length now = 17%nat -> st_child st = ChFile ext -> modify st d now = Done ws ->
  In (LDr j (Some pe) eth oth dl lf r) (st_linked st) ->
  dec_dr (read (apply_writes ws m) ((pe + eth - 1) * 2048 + (oth - dl)) (Z.to_nat dl) ++ rest)
  = Some (pad_sysuse (dr_set_len r (zlen d)), rest) /\
  (* the record was the old one before *)
  dec_dr (read m ((pe + eth - 1) * 2048 + (oth - dl)) (Z.to_nat dl) ++ rest) = Some (pad_sysuse r, rest).
Proof. first [exact (@inplace_dr_decodes) | apply (@inplace_dr_decodes) | intros; eapply (@inplace_dr_decodes); eassumption]. Qed.

Theorem C17_rewritten_file_entry_decodes st m d now ws ext x e rest abs :
  wf_state st m = true -> length now = 17%nat -> st_child st = ChFile ext -> modify st d now = Done ws ->
  In (LFe x e) (st_linked st) ->
  exists ds' b',
    fe_set_len e (zlen d) = Some (fe_with_len e (zlen d) ds') /\
    map ad_extent_length ds' = fe_ad_lengths (zlen d) /\ map ad_pos ds' = map ad_pos (fe_ads e) /\
    fe_record (fe_with_len e (zlen d) ds') = Some b' /\
    fe_parse (read (apply_writes ws m) (x * 2048) (length b') ++ rest) abs (tg_location (fe_tag e))
    = Some (fe_with_len e (zlen d) ds') /\
    fe_parse (read m (x * 2048) (length b') ++ rest) abs (tg_location (fe_tag e)) = Some e.
Proof. first [exact (@inplace_fe_decodes) | apply (@inplace_fe_decodes) | intros; eapply (@inplace_fe_decodes); eassumption]. Qed.

Theorem C17_zero_padding_after_a_shrink_refuted :
  exists st m d now ws ext a,
    wf_state st m = true /\ length now = 17%nat /\ st_child st = ChFile ext /\ modify st d now = Done ws /\
    ext * 2048 + zlen d <= a < ext * 2048 + ceiling_div (zlen d) 2048 * 2048 /\
    apply_writes ws m a = m a /\ m a <> 0.
Proof. first [exact (@inplace_zero_padding_refuted) | apply (@inplace_zero_padding_refuted) | intros; eapply (@inplace_zero_padding_refuted); eassumption]. Qed.

Theorem C17_refused_call_before_the_negative_length_fix_refuted :
  exists st m len fp now ws,
    wf_state st m = true /\ length now = 17%nat /\ st_ino_len st = 0 /\ len = -5 /\
    modify_run_before_0411073 st len fp now = Partial ws /\ In (4, [0]) ws.
Proof. first [exact (@inplace_refused_writes_nothing_refuted) | apply (@inplace_refused_writes_nothing_refuted) | intros; eapply (@inplace_refused_writes_nothing_refuted); eassumption]. Qed.

Example C17_inplace_nonvacuous_two_links : wf_state ex2_st ex2_m = true.
Proof. first [exact (@ip_ex2_wf) | apply (@ip_ex2_wf) | intros; eapply (@ip_ex2_wf); eassumption]. Qed.

Example C17_inplace_nonvacuous_all_namespaces : wf_state ex5_st ex5_m = true.
Proof. first [exact (@ip_ex5_wf) | apply (@ip_ex5_wf) | intros; eapply (@ip_ex5_wf); eassumption]. Qed.

End InPlaceStatements.
