(* C17 -- In-place modification touches only what it must.
   modify_file_in_place rewrites, for every name of the file, dr_len bytes at
   parent_extent + extents_to_here - 1, offset_to_here - dr_len: the CACHED position of the record.
   Proved for all directories (closed, Model/Pack.v): that is exactly where the writer put the
   record (C17_cached_position_is_written_position), the record lies inside one block
   and is disjoint from every other record of the directory (C17_rewritten_record_touches_no_other),
   so rewriting those bytes replaces this record and nothing else; with the same number of sectors
   (the call's precondition, on the TRANSLATED ceiling_div) the new data and its zero padding stay
   inside the file's own sectors (C17_same_sector_count_stays_inside).
   Tie: Pack.v vs dr.py on every run (packleaf.py).  The property itself: on generated images (deep and
   multi-sector directories, directory blocks filled exactly, hard links, Joliet/UDF/XA/Rock Ridge
   names) files are modified in place; the backing bytes before/after are diffed and every changed
   byte attributed (independent reader) to the file's sectors, its own records / file entries or a
   volume descriptor; the result is reopened and read through every name; refused calls must leave
   the bytes identical. *)
From Coq Require Import ZArith List Bool Lia.
From PV.Model Require Import Pack.
From PV.Proofs Require Import PackProofs ChecksumsArithProofs.
From PV.Gen Require Import GenFun.
Import ListNotations.
Local Open Scope Z_scope.

Theorem C17_cached_position_is_written_position : forall C ls, written C ls = cached_places C ls.
Proof. exact written_eq_cached. Qed.

Theorem C17_rewritten_record_touches_no_other : forall C ls i j, 0 < C -> sized C ls -> (i < j < length ls)%nat ->
  before C (nth i (combine (cached C ls) ls) (0, 0, 0)) (nth j (combine (cached C ls) ls) (0, 0, 0)).
Proof. intros C ls i j HC Hs Hij. exact (pack_disjoint C ls i j HC Hs Hij). Qed.

Theorem C17_record_inside_one_block : forall C ls, 0 < C -> sized C ls ->
  forall e o x, In (e, o, x) (combine (cached C ls) ls) -> 1 <= e /\ 0 <= o - x /\ x <= o /\ o <= C.
Proof. exact pack_inside. Qed.

(* same sector count => the new content (and its padding to the sector boundary) stays in the old sectors *)
Theorem C17_same_sector_count_stays_inside : forall old new lbs, 0 < lbs -> 0 <= new ->
  ceiling_div old lbs = ceiling_div new lbs -> new <= ceiling_div old lbs * lbs.
Proof.
  intros old new lbs Hl Hn E. rewrite E. destruct (ceiling_div_bounds new lbs Hl) as [A _]. lia.
Qed.

(* ... and a different count is what the call refuses: the two cases are exhaustive and exclusive *)
Theorem C17_refusal_condition_decidable : forall old new lbs,
  {ceiling_div old lbs = ceiling_div new lbs} + {ceiling_div old lbs <> ceiling_div new lbs}.
Proof. intros. apply Z.eq_dec. Qed.
