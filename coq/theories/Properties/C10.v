(* C10 -- UDF bridge fidelity.  Proved (closed) about functions TRANSLATED from /repo on every run
   (Gen/GenFun.v): the table-driven CRC of every descriptor tag equals the bitwise CRC-16/XMODEM
   (polynomial 0x1021) for ALL byte strings; a tag whose checksum byte holds _compute_csum verifies;
   the File Identifier Descriptor length is a multiple of 4 that covers header + name; ceiling_div
   covers.  Everything else the property lists (anchors, partition bounds, information lengths, tree,
   names, symlink targets, file bytes) is decided on generated UDF images by the independent
   ECMA-167 reader, which verifies every tag it passes; that part is sampled, not proved. *)
From Coq Require Import ZArith List Bool Lia.
From PV.Base Require Import Prim.
From PV.Gen Require Import GenConst GenFun.
From PV.Model Require Import Checksums.
From PV.Proofs Require Import ChecksumsProofs ChecksumsArithProofs.
Import ListNotations.
Local Open Scope Z_scope.

Theorem C10_tag_crc_is_crc16_xmodem : forall data, bytes data -> crc_ccitt data = crc16_bit data.
Proof. exact crc_ccitt_spec. Qed.

Theorem C10_crc_reference_value : crc16_bit [49; 50; 51; 52; 53; 54; 55; 56; 57] = 0x31C3.
Proof. exact (proj1 crc_check_values). Qed.

Theorem C10_tag_checksum_verifies : forall tag, length tag = 16%nat -> bytes tag ->
  let c := udf_compute_csum tag in
  let tag' := set_nth 4 c tag in
  0 <= c < 256 /\ (zsum tag' - c) mod 256 = c /\ bytes tag' /\ length tag' = 16%nat /\
  udf_compute_csum tag' = znth 4 tag'.
Proof. exact udf_csum_verifies. Qed.

Ltac Zify.zify_post_hook ::= Z.to_euclidean_division_equations.

(* File Identifier Descriptors are padded to a multiple of four bytes and never shorter than their content *)
Theorem C10_fid_length : forall n, 0 <= n ->
  udf_fid_length n mod 4 = 0 /\ 38 + n <= udf_fid_length n <= 38 + n + 4.
Proof.
  intros n Hn. unfold udf_fid_length, udf_fid_pad.
  destruct (Z.gtb_spec n 0) as [H|H]; lia.
Qed.

Theorem C10_ceiling_div_covers : forall a b, 0 < b -> ceiling_div a b * b >= a /\ (ceiling_div a b - 1) * b < a.
Proof. exact ceiling_div_bounds. Qed.
