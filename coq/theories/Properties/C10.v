(* C10 -- UDF bridge fidelity.  Proved (closed) about functions TRANSLATED from /repo on every run
   (Gen/GenFun.v): the table-driven CRC of every descriptor tag equals the bitwise CRC-16/XMODEM
   (polynomial 0x1021) for ALL byte strings; a tag whose checksum byte holds _compute_csum verifies;
   the File Identifier Descriptor length is a multiple of 4 that covers header + name; ceiling_div
   covers.  Everything else the property lists (anchors, partition bounds, information lengths, tree,
   names, symlink targets, file bytes) is decided on generated UDF images by the independent
   ECMA-167 reader, which verifies every tag it passes; that part is sampled, not proved. *)
From Coq Require Import ZArith List Bool Lia.
From PV.Base Require Import Prim.
From PV.Gen Require Import GenConst GenFun.
From PV.Model Require Import Checksums Fid.
From PV.Proofs Require Import ChecksumsProofs ChecksumsArithProofs FidProofs.
Import ListNotations.
Local Open Scope Z_scope.

Theorem C10_tag_crc_is_crc16_xmodem : forall data, bytes data -> crc_ccitt data = crc16_bit data.
Proof. exact crc_ccitt_spec. Qed.

Theorem C10_crc_reference_value : crc16_bit [49; 50; 51; 52; 53; 54; 55; 56; 57] = 0x31C3.
Proof. exact (proj1 crc_check_values). Qed.

Theorem C10_tag_checksum_verifies : forall tag, length tag = 16%nat -> bytes tag ->
  let c := udf_compute_csum tag in
  let tag' := set_nth 4 c tag in
  0 <= c < 256 /\ (zsum tag' - c) mod 256 = c /\ bytes tag' /\ length tag' = 16%nat /\
  udf_compute_csum tag' = znth 4 tag'.
Proof. exact udf_csum_verifies. Qed.

Ltac Zify.zify_post_hook ::= Z.to_euclidean_division_equations.

(* File Identifier Descriptors of a directory (Model/Fid.v: the loop of _udf_assign_extents): each recorded
   tag location is the block holding the descriptor's first byte, the area takes ceil(total/block) blocks,
   and the deltas reported to the space accounting are the change of that ceiling *)
Theorem C10_fid_location_is_block_of_first_byte : forall lbs lens, 0 < lbs -> fits lbs lens ->
  fid_locations lbs lens = map (fun s => s / lbs) (starts 0 lens).
Proof. exact fid_location_is_block_of_first_byte. Qed.

Theorem C10_fid_area_blocks : forall lbs lens, 0 < lbs -> fits lbs lens -> lens <> [] ->
  fid_blocks lbs lens = ceiling_div (Fid.zsum lens) lbs.
Proof. exact fid_blocks_is_ceiling. Qed.

Theorem C10_fid_boundary_test_is_decisive_refuted :
  exists lens, fits 2048 lens /\ fid_walk_gt 2048 0 0 lens <> map (fun s => s / 2048) (starts 0 lens).
Proof. exact fid_walk_gt_refuted. Qed.

Theorem C10_fid_add_delta : forall lbs info n, 0 < lbs -> 0 <= info -> 0 <= n ->
  let '(info', d) := fid_add lbs info n in
  info' = info + udf_fid_length n /\ d = ceiling_div info' lbs - ceiling_div info lbs /\ 0 <= d.
Proof. exact fid_add_delta. Qed.

Theorem C10_fid_remove_delta : forall lbs info n, 0 < lbs -> 0 <= n -> udf_fid_length n <= info ->
  let '(info', d) := fid_remove lbs info n in
  info' = info - udf_fid_length n /\ d = ceiling_div info lbs - ceiling_div info' lbs /\ 0 <= d.
Proof. exact fid_remove_delta. Qed.

(* File Identifier Descriptors are padded to a multiple of four bytes and never shorter than their content *)
Theorem C10_fid_length : forall n, 0 <= n ->
  udf_fid_length n mod 4 = 0 /\ 38 + n <= udf_fid_length n <= 38 + n + 4.
Proof.
  intros n Hn. unfold udf_fid_length, udf_fid_pad.
  destruct (Z.gtb_spec n 0) as [H|H]; lia.
Qed.

Theorem C10_ceiling_div_covers : forall a b, 0 < b -> ceiling_div a b * b >= a /\ (ceiling_div a b - 1) * b < a.
Proof. exact ceiling_div_bounds. Qed.
