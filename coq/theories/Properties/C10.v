(* C10 -- UDF bridge fidelity.  Proved (closed) about functions TRANSLATED from /repo on every run
   (Gen/GenFun.v): the table-driven CRC of every descriptor tag equals the bitwise CRC-16/XMODEM
   (polynomial 0x1021) for ALL byte strings; a tag whose checksum byte holds _compute_csum verifies;
   the File Identifier Descriptor length is a multiple of 4 that covers header + name; ceiling_div
   covers.  Everything else the property lists (anchors, partition bounds, information lengths, tree,
   names, symlink targets, file bytes) is decided on generated UDF images by the independent
   ECMA-167 reader, which verifies every tag it passes; that part is sampled, not proved.
   Model/Udf.v is a byte-level hand model of UDFTag, the short/long allocation descriptors, the ICB
   tag, the File Identifier Descriptor and the File Entry (header + allocation descriptors) of
   udf.py, tied to /repo by udfleaf.py: every recorded tag / FID / File Entry VERIFIES for a reader
   that recomputes the checksum and the CRC independently, parse . record is the identity, the
   allocation descriptors of a file of ANY length sum to the length, chain without gaps and all but
   the last are whole blocks.  Lemmas that are false of the faithful model are stated as _refuted
   (a FID with implementation-use bytes is longer than length() says; parse drops the extent type of
   a short_ad): both concern descriptors of foreign images, pycdlib never writes such. *)
From Coq Require Import ZArith List Bool Lia.
From PV.Base Require Import Prim.
From PV.Gen Require Import GenConst GenFun.
From PV.Model Require Import Checksums Fid.
From PV.Proofs Require Import ChecksumsProofs ChecksumsArithProofs FidProofs.
From PV.Model Require Udf.
From PV.Proofs Require UdfProofs UdfFidProofs UdfFeProofs.
From PV.Model Require UdfVds UdfVdsBook.
From PV.Proofs Require CodecProofs UdfVdsProofs UdfVdsDescProofs UdfVdsLvProofs.
From PV.Model Require UdfDir.
From PV.Proofs Require UdfDirProofs.
Import ListNotations.
Local Open Scope Z_scope.

Theorem C10_tag_crc_is_crc16_xmodem : forall data, bytes data -> crc_ccitt data = crc16_bit data.
Proof. exact crc_ccitt_spec. Qed.

Theorem C10_crc_reference_value : crc16_bit [49; 50; 51; 52; 53; 54; 55; 56; 57] = 0x31C3.
Proof. exact (proj1 crc_check_values). Qed.

Theorem C10_tag_checksum_verifies : forall tag, length tag = 16%nat -> bytes tag ->
  let c := udf_compute_csum tag in
  let tag' := set_nth 4 c tag in
  0 <= c < 256 /\ (zsum tag' - c) mod 256 = c /\ bytes tag' /\ length tag' = 16%nat /\
  udf_compute_csum tag' = znth 4 tag'.
Proof. exact udf_csum_verifies. Qed.

Ltac Zify.zify_post_hook ::= Z.to_euclidean_division_equations.

(* File Identifier Descriptors of a directory (Model/Fid.v: the loop of _udf_assign_extents): each recorded
   tag location is the block holding the descriptor's first byte, the area takes ceil(total/block) blocks,
   and the deltas reported to the space accounting are the change of that ceiling *)
Theorem C10_fid_location_is_block_of_first_byte : forall lbs lens, 0 < lbs -> fits lbs lens ->
  fid_locations lbs lens = map (fun s => s / lbs) (starts 0 lens).
Proof. exact fid_location_is_block_of_first_byte. Qed.

Theorem C10_fid_area_blocks : forall lbs lens, 0 < lbs -> fits lbs lens -> lens <> [] ->
  fid_blocks lbs lens = ceiling_div (Fid.zsum lens) lbs.
Proof. exact fid_blocks_is_ceiling. Qed.

Theorem C10_fid_boundary_test_is_decisive_refuted :
  exists lens, fits 2048 lens /\ fid_walk_gt 2048 0 0 lens <> map (fun s => s / 2048) (starts 0 lens).
Proof. exact fid_walk_gt_refuted. Qed.

Theorem C10_fid_add_delta : forall lbs info n, 0 < lbs -> 0 <= info -> 0 <= n ->
  let '(info', d) := fid_add lbs info n in
  info' = info + udf_fid_length n /\ d = ceiling_div info' lbs - ceiling_div info lbs /\ 0 <= d.
Proof. exact fid_add_delta. Qed.

Theorem C10_fid_remove_delta : forall lbs info n, 0 < lbs -> 0 <= n -> udf_fid_length n <= info ->
  let '(info', d) := fid_remove lbs info n in
  info' = info - udf_fid_length n /\ d = ceiling_div info lbs - ceiling_div info' lbs /\ 0 <= d.
Proof. exact fid_remove_delta. Qed.

(* File Identifier Descriptors are padded to a multiple of four bytes and never shorter than their content *)
Theorem C10_fid_length : forall n, 0 <= n ->
  udf_fid_length n mod 4 = 0 /\ 38 + n <= udf_fid_length n <= 38 + n + 4.
Proof.
  intros n Hn. unfold udf_fid_length, udf_fid_pad.
  destruct (Z.gtb_spec n 0) as [H|H]; lia.
Qed.

Theorem C10_ceiling_div_covers : forall a b, 0 < b -> ceiling_div a b * b >= a /\ (ceiling_div a b - 1) * b < a.
Proof. exact ceiling_div_bounds. Qed.

(* ---- Model/Udf.v -------------------------------------------------------------------------------- *)
Theorem C10_new_tag_verifies : forall ident serial loc cb r,
  bytes cb -> Udf.tag_record (Udf.mk_utag ident 2 serial loc (-1)) cb = Some r -> Udf.verify_tag (r ++ cb) = true.
Proof. exact UdfProofs.tag_new_record_verifies. Qed.

Theorem C10_tag_roundtrip : forall t cb r rest,
  Udf.tag_record t cb = Some r -> (Udf.tg_version t = 2 \/ Udf.tg_version t = 3) -> Udf.tg_crclen t = zlen cb ->
  Udf.tag_parse (r ++ cb ++ rest) (Udf.tg_location t) = Some t.
Proof. exact UdfProofs.tag_roundtrip_exact. Qed.

Theorem C10_tag_checksum_detects_any_single_byte_change : forall hdr i v,
  length hdr = 16%nat -> Udf.tag_csum_ok hdr = true ->
  (i < 16)%nat -> i <> 4%nat -> 0 <= nth i hdr 0 < 256 -> 0 <= v < 256 -> v <> nth i hdr 0 ->
  Udf.tag_csum_ok (set_nth i v hdr) = false.
Proof. exact UdfProofs.tag_csum_detects_single_byte. Qed.

Theorem C10_fid_record_verifies : forall f b, Udf.fid_record f = Some b ->
  bytes (Udf.fd_impl_use f) -> bytes (Udf.fd_fi f) -> bytes (Udf.la_impl (Udf.fd_icb f)) ->
  (Udf.tg_crclen (Udf.fd_tag f) < 0 \/ Udf.tg_crclen (Udf.fd_tag f) <= zlen b - 16) ->
  Udf.verify_tag b = true /\
  (Udf.tg_crclen (Udf.fd_tag f) < 0 -> nth 10 b 0 + 256 * nth 11 b 0 = zlen b - 16).
Proof. exact UdfFidProofs.fid_record_verifies. Qed.

Theorem C10_fid_record_length_refuted :
  exists f b, UdfFidProofs.fid_lens_ok f /\ Udf.fid_record f = Some b /\ zlen b = 48 /\ udf_fid_length (zlen (Udf.fd_fi f)) = 44.
Proof. exact UdfFidProofs.fid_length_is_method_refuted. Qed.

Theorem C10_file_entry_extents_sum_to_length : forall len, 0 <= len -> Checksums.zsum (Udf.fe_ad_lengths len) = len.
Proof. exact UdfFeProofs.fe_ad_lengths_sum. Qed.

Theorem C10_file_entry_extents_whole_blocks : forall len,
  Forall (fun l => l = Udf.UDF_MAX_AD /\ l mod 2048 = 0) (removelast (Udf.fe_ad_lengths len)) /\
  Forall (fun l => 0 < l <= Udf.UDF_MAX_AD) (Udf.fe_ad_lengths len) /\
  zlen (Udf.fe_ad_lengths len) = ceiling_div (Z.max len 0) Udf.UDF_MAX_AD.
Proof. exact UdfFeProofs.fe_ad_lengths_all_but_last. Qed.

Theorem C10_file_entry_verifies : forall e b, Udf.fe_record e = Some b -> UdfFeProofs.fe_zbytes e ->
  (Udf.tg_crclen (Udf.fe_tag e) < 0 \/ Udf.tg_crclen (Udf.fe_tag e) <= zlen b - 16) ->
  Udf.verify_tag b = true.
Proof. exact UdfFeProofs.fe_record_verifies. Qed.

(* ---- volume-level descriptors: Model/UdfVds.v (anchors, volume descriptor sequence, integrity, file set; tied by
   vdleaf.py on the descriptors of every generated UDF image) ---------------------------------------------------- *)
Section UdfVdsStatements.
Import Prim Codec CodecProofs Checksums Udf UdfVds UdfVdsBook UdfProofs UdfVdsProofs UdfVdsLvProofs.

(* every volume-level descriptor: 512 bytes, verifies for an independent checker, parses back *)
Theorem C10_descriptor_sound : forall P ident (wf : P -> Prop) body pb, body_spec wf body pb ->
  forall t p r, wf p -> desc_record t (body p) = Some r -> tag_wf ident t ->
    length r = 512%nat /\ verify_tag r = true /\
    forall rest ext, desc_parse ident pb (r ++ rest) ext = Some (retag t ext (crclen_rec t), p).
Proof. exact (@UdfVdsProofs.desc_sound). Qed.

Theorem C10_anchor_designates_the_sequences : forall loc main reserve, u32 loc -> u32 main -> u32 reserve ->
  exists r, anchor_record (anchor_set_extent_location anchor_new loc main reserve) = Some r /\
    length r = 512%nat /\ verify_tag r = true /\
    slice 16 32 r = le32 32768 ++ le32 main ++ le32 32768 ++ le32 reserve /\
    forall rest, anchor_parse (r ++ rest) loc =
      Some (mk_utag 2 2 0 loc 496, mk_anchor (mk_extent_ad 32768 main) (mk_extent_ad 32768 reserve)).
Proof. exact UdfVdsProofs.anchor_designates. Qed.

(* partition length (main and reserve copies) and the integrity descriptor's size table move together for ANY
   sequence of accounting updates; the file and directory counters are exactly the net number of events *)
Theorem C10_partition_and_integrity_sizes_in_step : forall evs s s', sizes_run s evs = Some s' -> sizes_synced s ->
  sizes_synced s' /\ tl (uz_size_tables s') = tl (uz_size_tables s).
Proof. exact UdfVdsLvProofs.sizes_sync. Qed.

Theorem C10_integrity_counters : forall evs u,
  lu_num_files (lvimpl_run u evs) = lu_num_files u + net_files evs /\
  lu_num_dirs (lvimpl_run u evs) = lu_num_dirs u + net_dirs evs /\
  lu_impl_id (lvimpl_run u evs) = lu_impl_id u /\ lu_impl_use (lvimpl_run u evs) = lu_impl_use u.
Proof. exact UdfVdsLvProofs.counters_invariant. Qed.

(* false of the faithful model (12 partition maps fill the 72-byte table; parse tests >= 72): foreign images only *)
Theorem C10_lvd_roundtrip_refuted : exists d r,
  lvd_wf0 d /\ zlen (lvd_all_partmaps d) = 72 /\ lvd_record (tag_new 6 0, d) = Some r /\
  verify_tag r = true /\ lvd_parse r 0 = None.
Proof. exact UdfVdsLvProofs.lvd_roundtrip_refuted. Qed.
End UdfVdsStatements.

(* ---- one UDF directory under adds and removals: Model/UdfDir.v -------------------------------------------------
   (hand model of UDFFileEntry.add_file_ident_desc / remove_file_ident_desc_by_name and of the identifier area laid
   out at mastering; tied by udfdirleaf.py after every operation of random histories).  For EVERY history, refused
   operations included: the information length is the sum of the descriptor lengths, the space granted is exactly
   the blocks the area needs (after growth past a block, shrink back and growth again), Logical Blocks Recorded is
   that number (false of the code before fix 5867ccb: stale after removals), names are unique and in insertion order,
   descriptors lie where Fid.fid_locations says. *)
Section UdfDirStatements.
Import Prim Codec Checksums Fid Udf UdfDir FidProofs UdfDirProofs.

Theorem C10_udf_directory_accounting : forall ops,
  let st := fst (udfdir_run ops) in
  ud_info_len st = udf_fid_length 0 +
                   Fid.zsum (map (fun c => udf_fid_length (zlen (fst c))) (dir_names st)) /\
  ud_ad_len st = ud_info_len st /\
  snd (udfdir_run ops) = ceiling_div (ud_info_len st) 2048.
Proof. exact UdfDirProofs.udfdir_inv. Qed.

Theorem C10_udf_directory_blocks_recorded : forall ops,
  ud_lbr (fst (udfdir_run ops)) = ceiling_div (ud_info_len (fst (udfdir_run ops))) 2048.
Proof. exact UdfDirProofs.udfdir_lbr_fresh. Qed.

Theorem C10_udf_directory_names : forall ops,
  let st := fst (udfdir_run ops) in let cs := dir_names st in
  ud_descs st = parent_fident :: map child_fident cs /\
  NoDup (map fst cs) /\ Forall (fun c => zlen (fst c) <= 254) cs /\
  (forall n d, In n (map fst cs) \/ 254 < zlen n -> udfdir_step 2048 st (Add n d) = (st, false, 0)) /\
  (forall n d, ~ In n (map fst cs) -> zlen n <= 254 ->
     exists st' dl, udfdir_step 2048 st (Add n d) = (st', true, dl) /\ dir_names st' = cs ++ [(n, d)]) /\
  (forall n ne, ~ In n (map fst cs) -> udfdir_step 2048 st (Remove n ne) = (st, false, 0)) /\
  (forall n d ne, In (n, d) cs -> n = [] \/ d && ne = true ->
     udfdir_step 2048 st (Remove n ne) = (st, false, 0)) /\
  (forall n d ne, In (n, d) cs -> n <> [] -> d && ne = false ->
     exists st' dl, udfdir_step 2048 st (Remove n ne) = (st', true, - dl) /\
                    dir_names st' = remove_name n cs).
Proof. exact UdfDirProofs.udfdir_names. Qed.

Theorem C10_udf_directory_layout : forall ops,
  let st := fst (udfdir_run ops) in let lens := udfdir_lens st in let blocks := snd (udfdir_run ops) in
  lens = udf_fid_length 0 :: map (fun c => udf_fid_length (zlen (fst c))) (dir_names st) /\
  fits 2048 lens /\ Fid.zsum lens = ud_info_len st /\
  fid_locations 2048 lens = map (fun s => s / 2048) (starts 0 lens) /\
  Forall (fun l => 0 <= l < blocks) (fid_locations 2048 lens) /\
  fid_blocks 2048 lens = blocks /\ udfdir_data_blocks st = blocks /\
  ud_info_len st <= 2048 * blocks.
Proof. exact UdfDirProofs.udfdir_layout. Qed.

Theorem C10_udf_directory_refused_edit_changes_nothing : forall ops o,
  udfdir_accepts (fst (udfdir_run ops)) o = false -> udfdir_run (ops ++ [o]) = udfdir_run ops.
Proof. exact UdfDirProofs.udfdir_refused_unchanged. Qed.
End UdfDirStatements.

(* ---- the whole UDF tree: Model/UdfLayout.v ---------------------------------------------------------------------
   Where _udf_assign_extents / _reshuffle_extents put every File Entry, identifier area and file content of a whole UDF
   tree, and what every pointer says, for EVERY well-formed tree (names distinct per directory, shared inodes of equal
   length, ...) and -- for the counters -- after EVERY edit history. *)
From PV.Model Require UdfLayout.
From PV.Proofs Require UdfLayoutBfsProofs UdfLayoutViewProofs UdfLayoutFactsProofs UdfLayoutWalkProofs UdfLayoutSpaceProofs UdfLayoutProofs
  UdfLayoutHistoryProofs.
Section UdfLayoutStatements.
Import PV.Model.UdfLayout.
Import PV.Proofs.UdfLayoutBfsProofs PV.Proofs.UdfLayoutViewProofs PV.Proofs.UdfLayoutFactsProofs PV.Proofs.UdfLayoutWalkProofs
  PV.Proofs.UdfLayoutSpaceProofs PV.Proofs.UdfLayoutProofs.

Theorem C10_udf_reader_recovers_the_namespace s t fuel : wf_utree t = true -> (ul_depth t <= fuel)%nat ->
  udf_walk fuel (view (udf_layout s t)) = Some (namespace t).
Proof. first [exact (@udf_walk_layout) | apply (@udf_walk_layout)]. Qed.

Theorem C10_udf_layout_disjoint ps iso t : wf_utree t = true -> wf_iso iso t = true ->
  let lo := udf_layout_iso ps iso t in
  ul_tiled (ps + 2) (ul_regions lo) (ps + lo_part_length lo) /\
  lo_end lo = ps + lo_part_length lo /\
  NoDup (map (fun x => fst (fst x)) (lo_fes lo)) /\ NoDup (map (fun x => fst (fst x)) (lo_data lo)).
Proof. first [exact (@udf_layout_disjoint) | apply (@udf_layout_disjoint)]. Qed.

Theorem C10_udf_descriptors_cover_the_data_partial ps iso t i fe l : wf_utree t = true -> wf_iso iso t = true ->
  let lo := udf_layout_iso ps iso t in
  In (i, fe, l) (lo_fes lo) -> 0 < l ->
  exists d, ul_find i (lo_data lo) = Some d /\ In (i, d, l) (lo_data lo) /\
            ul_ads_end (d - ps) (ul_ads (ul_data_pos lo i) l) = Some (d - ps + ceiling_div l 2048).
Proof. first [exact (@udf_layout_ads_partial) | apply (@udf_layout_ads_partial)]. Qed.

Theorem C10_udf_layout_disjoint_refuted :
  exists t, let lo := udf_layout udf_part_start t in
    exists i fe l j d l' p a,
      In (i, fe, l) (lo_fes lo) /\ In (j, d, l') (lo_data lo) /\ i <> j /\
      In (p, a) (ul_ads (ul_data_pos lo i) l) /\ p <= d - lo_ps lo < p + ceiling_div a 2048 /\
      lo_end lo < lo_ps lo + lo_part_length lo.
Proof. first [exact (@udf_layout_disjoint_refuted) | apply (@udf_layout_disjoint_refuted)]. Qed.

Theorem C10_udf_parent_fid_all_directories ps iso t : wf_utree t = true ->
  let lo := udf_layout_iso ps iso t in
  (exists r0, nth_error (lo_dirs lo) 0 = Some r0 /\ dr_path r0 = [] /\ dr_fe r0 = ps + 2 /\ dr_parent_fe r0 = dr_fe r0) /\
  (forall r, In r (lo_dirs lo) -> exists fids,
     vlookup (dr_fe r + 1 - ps) (snd (view lo)) =
     Some (SArea ((dr_fe r + 1 - ps, [], true, true, dr_parent_fe r - ps) :: fids))) /\
  (forall r j n cs', In r (lo_dirs lo) -> nth_error (ul_dir_children (dr_node r)) j = Some (n, cs') ->
     exists r', nth_error (lo_dirs lo) (dr_kid0 r + j) = Some r' /\
                dr_path r' = dr_path r ++ [n] /\ dr_parent_fe r' = dr_fe r /\ dr_node r' = cs') /\
  length (lo_dirs lo) = ul_count_dirs t.
Proof. first [exact (@udf_parent_fid) | apply (@udf_parent_fid)]. Qed.

Theorem C10_udf_counts ps iso t : wf_utree t = true ->
  let lo := udf_layout_iso ps iso t in
  lo_num_files lo = Z.of_nat (ul_count_files t) /\            (* file NAMES: a hard link counts again *)
  lo_num_dirs lo = Z.of_nat (ul_count_dirs t) /\              (* directories, the root included *)
  zlen (lo_fes lo) <= lo_num_files lo /\                       (* File Entries of files: one per inode *)
  lo_unique_id lo = lo_udf_end lo /\
  (forall r, In r (lo_dirs lo) -> ps + 2 <= dr_fe r < lo_unique_id lo) /\          (* FE.unique_id = FE extent *)
  (forall i fe l, In (i, fe, l) (lo_fes lo) -> ps + 2 <= fe < lo_unique_id lo).
Proof. first [exact (@udf_counts) | apply (@udf_counts)]. Qed.

Example C10_udf_layout_nonvacuous : wf_utree ul_ex_tree = true.
Proof. exact ul_ex_wf. Qed.

Example C10_udf_layout_nonvacuous_shape :
  ul_depth ul_ex_tree = 3%nat /\
  map (fun r => ul_dir_blocks (dr_node r)) (lo_dirs (udf_layout 257 ul_ex_tree)) = [1; 1; 2; 1] /\
  map (fun r => (dr_fe r, dr_parent_fe r)) (lo_dirs (udf_layout 257 ul_ex_tree)) = [(259, 259); (261, 259); (263, 259); (266, 261)] /\
  lo_fes (udf_layout 257 ul_ex_tree) = [(0%nat, 268, 5000); (48%nat, 269, 1); (49%nat, 270, 1); (50%nat, 271, 1); (51%nat, 272, 1);
                                        (52%nat, 273, 1); (53%nat, 274, 1); (54%nat, 275, 1); (55%nat, 276, 1); (1%nat, 277, 0)] /\
  ul_globals (udf_layout 257 ul_ex_tree) = [257; 37; 37; 11; 4; 278; 295; 294].
Proof. exact ul_ex_shape. Qed.

Example C10_udf_layout_nonvacuous_walk : udf_walk 3 (view (udf_layout 257 ul_ex_tree)) = Some (namespace ul_ex_tree).
Proof. first [exact (@ul_ex_walk) | apply (@ul_ex_walk)]. Qed.

Import PV.Proofs.UdfLayoutHistoryProofs.
Theorem C10_udf_counts_after_every_history ops :
  let '(cs, _, nf, nd) := ul_run_state ops in
  nf = Z.of_nat (ul_count_files (ul_run ops)) /\ nd = Z.of_nat (ul_count_dirs (ul_run ops)).
Proof. exact (udf_counts_history ops). Qed.
End UdfLayoutStatements.

(* ---- opening a UDF image: Model/UdfParse.v (pycdlib's OWN parser of the UDF tree, _walk_udf_directories / _parse_udf_file_entry, on the recorded summaries of Model/UdfLayout.v).  For EVERY well-formed tree: the opened object IS the graph the writer had, nothing valid is rejected, laying the opened tree out again gives the same layout; every name gets a File Entry object of its own, and two names share an Inode iff they name the same content: *)
From PV.Base Require Prim.
From PV.Gen Require GenFun.
From PV.Model Require Codec Fid UdfDir UdfLayout UdfParse.
From PV.Proofs Require UdfLayoutBfsProofs UdfLayoutViewProofs UdfLayoutFactsProofs UdfLayoutWalkProofs UdfParseTableProofs UdfParseWalkProofs UdfParseKeysProofs UdfParseProofs UdfParseShapeProofs UdfParseSharesProofs UdfParseRelabelProofs UdfParseReopenProofs.
Section UdfParseStatements.
Import PV.Base.Prim PV.Gen.GenFun PV.Model.Codec PV.Model.Fid PV.Model.UdfDir PV.Model.UdfLayout PV.Model.UdfParse PV.Proofs.UdfLayoutBfsProofs PV.Proofs.UdfLayoutViewProofs PV.Proofs.UdfLayoutFactsProofs PV.Proofs.UdfLayoutWalkProofs PV.Proofs.UdfParseTableProofs PV.Proofs.UdfParseWalkProofs PV.Proofs.UdfParseKeysProofs PV.Proofs.UdfParseProofs PV.Proofs.UdfParseShapeProofs PV.Proofs.UdfParseSharesProofs PV.Proofs.UdfParseRelabelProofs PV.Proofs.UdfParseReopenProofs.
Local Open Scope Z_scope.
Theorem C10_udf_open_gives_the_writers_graph s t fuel : wf_utree t = true -> 0 <= s -> (ul_count_dirs t <= fuel)%nat ->
  udf_parse s fuel (view (udf_layout s t)) (fst (view (udf_layout s t))) = POk (ugraph_of (udf_layout s t)).
Proof. first [exact (@udf_parse_layout) | apply (@udf_parse_layout) | intros; eapply (@udf_parse_layout); eassumption]. Qed.

Theorem C10_udf_open_rejects_nothing_valid s t fuel : wf_utree t = true -> 0 <= s -> (ul_count_dirs t <= fuel)%nat ->
  (forall n, udf_parse s fuel (view (udf_layout s t)) 2 <> PInvalid n) /\
  (forall n, udf_parse s fuel (view (udf_layout s t)) 2 <> PUnsupported n) /\
  udf_parse s fuel (view (udf_layout s t)) 2 <> PFuel.
Proof. first [exact (@udf_parse_rejects_nothing_valid) | apply (@udf_parse_rejects_nothing_valid) | intros; eapply (@udf_parse_rejects_nothing_valid); eassumption]. Qed.

Theorem C10_udf_open_result_is_the_writers_graph s t fuel g : wf_utree t = true -> 0 <= s -> (ul_count_dirs t <= fuel)%nat ->
  udf_parse s fuel (view (udf_layout s t)) 2 = POk g -> g = ugraph_of (udf_layout s t).
Proof. first [exact (@udf_parse_is_writer_graph) | apply (@udf_parse_is_writer_graph) | intros; eapply (@udf_parse_is_writer_graph); eassumption]. Qed.

Theorem C10_udf_open_empty_file_with_iso_name_refuted :
  exists g, up_mixed_parse 0 [] (fun _ => [mk_pinode None 0 0 []]) = POk g /\
            length (g_inodes g) = 2%nat /\ map pi_links (g_inodes g) = [[]; [1%nat]].
Proof. first [exact (@udf_parse_shares_mixed_empty_refuted) | apply (@udf_parse_shares_mixed_empty_refuted) | intros; eapply (@udf_parse_shares_mixed_empty_refuted); eassumption]. Qed.

Theorem C10_udf_open_shares_inode_iff_same_extent s t k1 k2 r1 r2 j1 j2 n1 l1 i1 n2 l2 i2 : wf_utree t = true -> 0 <= s ->
  let lo := udf_layout s t in
  nth_error (lo_dirs lo) k1 = Some r1 -> nth_error (lo_dirs lo) k2 = Some r2 ->
  nth_error (dr_node r1) j1 = Some (UFile n1 l1 i1) -> nth_error (dr_node r2) j2 = Some (UFile n2 l2 i2) ->
  (i1 = i2 <-> ug_key lo i1 l1 = ug_key lo i2 l2).
Proof. first [exact (@udf_parse_shares_extent) | apply (@udf_parse_shares_extent) | intros; eapply (@udf_parse_shares_extent); eassumption]. Qed.

Theorem C10_udf_reopen_layout_fixpoint s t fuel : wf_utree t = true -> 0 <= s -> (ul_count_dirs t <= fuel)%nat ->
  exists g t',
    udf_parse s fuel (view (udf_layout s t)) 2 = POk g /\
    utree_of_graph (S (ul_depth t)) g = Some t' /\
    let lo := udf_layout s t in let lo' := udf_layout s t' in
    view lo' = view lo /\ lo_ps lo' = lo_ps lo /\ lo_udf_end lo' = lo_udf_end lo /\ lo_end lo' = lo_end lo /\
    lo_part_length lo' = lo_part_length lo /\ lo_num_files lo' = lo_num_files lo /\ lo_num_dirs lo' = lo_num_dirs lo /\
    lo_unique_id lo' = lo_unique_id lo /\
    map (fun x => (snd (fst x), snd x)) (lo_fes lo') = map (fun x => (snd (fst x), snd x)) (lo_fes lo) /\
    map (fun x => (snd (fst x), snd x)) (lo_data lo') = map (fun x => (snd (fst x), snd x)) (lo_data lo) /\
    map dr_fe (lo_dirs lo') = map dr_fe (lo_dirs lo).
Proof. first [exact (@udf_reopen_layout_fixpoint) | apply (@udf_reopen_layout_fixpoint) | intros; eapply (@udf_reopen_layout_fixpoint); eassumption]. Qed.

End UdfParseStatements.
Section UdfParseSectionedStatements.
Import PV.Model.UdfLayout PV.Model.UdfParse PV.Proofs.UdfParseSharesProofs.
Theorem C10_udf_open_file_entry_objects_never_shared : forall (ps : Z) (iso : iso_side) (t : utree), wf_utree t = true ->
  NoDup (up_all_objs (ugraph_of (udf_layout_iso ps iso t))) /\ ~ In 0%nat (up_all_objs (ugraph_of (udf_layout_iso ps iso t))).
Proof. exact UdfParseSharesProofs.udf_parse_fe_never_shared. Qed.
End UdfParseSectionedStatements.
