(* C18 -- Derived names are always legal: mangling is total and level-correct.
   Only statements; proofs live in Proofs/NamesProofs.v.  [up] is str.upper() on one code point:
   an ARBITRARY function in the legality theorems (only: never empty), so they hold for every
   Unicode version; the fixed-point theorems additionally need it to be the identity on
   d-characters (validated on the running interpreter by the harness). *)
From Coq Require Import ZArith List.
From PV.Base Require Import Prim.
From PV.Model Require Import Names.
From PV.Proofs Require Import NamesProofs.
Import ListNotations.
Local Open Scope Z_scope.

Theorem C18_file_legal : forall (up : Z -> list Z), (forall c, up c <> []) ->
  forall orig lvl, lvl = 1 \/ lvl = 2 \/ lvl = 3 -> orig <> [] ->
  check_iso9660_filename (mangled_file_name up true orig lvl) lvl = Accept /\
  legal_file lvl (mangled_file_name up true orig lvl).
Proof. exact mangle_file_legal. Qed.

Theorem C18_dir_legal : forall (up : Z -> list Z), (forall c, up c <> []) ->
  forall orig lvl, lvl = 1 \/ lvl = 2 \/ lvl = 3 -> orig <> [] ->
  check_iso9660_directory (mangle_dir up true orig lvl) lvl = Accept /\
  legal_dir lvl (mangle_dir up true orig lvl).
Proof. exact mangle_dir_legal. Qed.

(* level 4 ("anything"): the full statement fails for names containing ';' (next theorem) *)
Theorem C18_level4_partial : forall up fixed orig,
  orig <> [] -> orig <> [dot] -> mem semi orig = false ->
  check_iso9660_filename (mangled_file_name up fixed orig 4) 4 = Accept.
Proof. exact mangle_level4. Qed.

Theorem C18_level4_semicolon_refuted :
  check_iso9660_filename (mangled_file_name up_ascii true [97; 59] 4) 4 = Refuse /\
  check_iso9660_filename_gen false (mangled_file_name up_ascii false [97; 59] 4) 4 = Fault.
Proof. exact level4_semicolon_refuted. Qed.

Theorem C18_fixed_file : forall (up : Z -> list Z), (forall c, is_d1 c = true -> up c = [c]) ->
  forall name ext lvl, lvl = 1 \/ lvl = 2 \/ lvl = 3 -> all_d1 name = true -> all_d1 ext = true ->
  1 <= zlen ext <= 3 -> zlen name <= maxlen_of lvl false ->
  mangle_file up true (name ++ dot :: ext) lvl = (name, ext ++ [semi; 49]).
Proof. exact mangle_file_fixed. Qed.

Theorem C18_fixed_file_noext : forall (up : Z -> list Z), (forall c, is_d1 c = true -> up c = [c]) ->
  forall name lvl, lvl = 1 \/ lvl = 2 \/ lvl = 3 -> all_d1 name = true -> zlen name <= maxlen_of lvl false ->
  mangle_file up true name lvl = (name, [semi; 49]).
Proof. exact mangle_file_fixed_noext. Qed.

Theorem C18_fixed_dir : forall (up : Z -> list Z), (forall c, is_d1 c = true -> up c = [c]) ->
  forall s lvl, lvl = 1 \/ lvl = 2 \/ lvl = 3 -> all_d1 s = true -> zlen s <= maxlen_of lvl true ->
  mangle_dir up true s lvl = s.
Proof. exact mangle_dir_fixed. Qed.

(* the pinned original (truncate, then upper-case) violates C18_file_legal *)
Theorem C18_original_refuted :
  check_iso9660_filename (mangled_file_name up_ascii false (repeat 223 8) 1) 1 = Refuse /\
  check_iso9660_filename (mangled_file_name up_ascii true (repeat 223 8) 1) 1 = Accept.
Proof. exact original_refuted. Qed.

(* legal level-2/3 inputs that the helpers nevertheless change (known findings) *)
Theorem C18_long_ext_changed_refuted :
  legal_file 3 [65; 46; 72; 84; 77; 76] /\
  mangle_file up_ascii true [65; 46; 72; 84; 77; 76] 3 = ([65; 95; 72; 84; 77; 76], [59; 49]).
Proof. exact long_ext_changed. Qed.

Theorem C18_long_dir_changed_refuted :
  legal_dir 3 (repeat 90 32) /\ mangle_dir up_ascii true (repeat 90 32) 3 = repeat 90 31.
Proof. exact long_dir_changed. Qed.

Theorem C18_nonvacuous :
  mangled_file_name up_ascii true [102; 111; 111; 46; 116; 120; 116] 1 = [70; 79; 79; 46; 84; 88; 84; 59; 49] /\
  (forall c, up_ascii c <> []).
Proof. exact names_nonvacuous. Qed.
