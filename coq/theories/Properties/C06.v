(* C06 -- Lazy metadata is transparent: bytes depend only on the edits.
   Stated over Model/Lazy.v, the state machine of PyCdlib's deferred recomputation, for ANY core /
   derived / image types, ANY mutation function, ANY from-scratch recomputation and ANY mastering
   function, and for every schedule (mode, force_consistency, queries, extra writes interleaved
   anywhere).  The one hypothesis -- an edit either flags the metadata or does not influence it --
   is exactly what the harness validates against PyCdlib._needs_reshuffle after every call, and
   C06_flag_hypothesis_necessary shows it cannot be dropped. *)
From Coq Require Import List Bool.
From PV.Model Require Import Lazy.
From PV.Proofs Require Import LazyProofs.
Import ListNotations.

Theorem C06_bytes_depend_only_on_edits :
  forall (core derived image edit : Type) (apply : edit -> core -> core) (reshuffle : core -> derived)
         (master : core -> derived -> image) (marks : edit -> bool),
    (forall e, marks e = false -> forall c0, reshuffle (apply e c0) = reshuffle c0) ->
    forall (mode1 mode2 : bool) (c0 : core) (acts1 acts2 : list (act edit)),
      edits_of edit acts1 = edits_of edit acts2 ->
      final_image core derived image edit apply reshuffle master marks mode1 c0 acts1 =
      final_image core derived image edit apply reshuffle master marks mode2 c0 acts2.
Proof. intros. apply schedule_independent; assumption. Qed.

Theorem C06_final_image_is_from_scratch :
  forall (core derived image edit : Type) (apply : edit -> core -> core) (reshuffle : core -> derived)
         (master : core -> derived -> image) (marks : edit -> bool),
    (forall e, marks e = false -> forall c0, reshuffle (apply e c0) = reshuffle c0) ->
    forall (mode : bool) (c0 : core) (acts : list (act edit)),
      final_image core derived image edit apply reshuffle master marks mode c0 acts =
      master (apply_all core edit apply (edits_of edit acts) c0)
             (reshuffle (apply_all core edit apply (edits_of edit acts) c0)).
Proof. intros. apply final_image_only_edits; assumption. Qed.

Theorem C06_every_write_consistent :
  forall (core derived image edit : Type) (apply : edit -> core -> core) (reshuffle : core -> derived)
         (master : core -> derived -> image) (marks : edit -> bool),
    (forall e, marks e = false -> forall c0, reshuffle (apply e c0) = reshuffle c0) ->
    forall (mode : bool) (c0 : core) (acts : list (act edit)),
      Forall (fun i => exists k, i = master (apply_all core edit apply (edits_of edit (firstn k acts)) c0)
                                            (reshuffle (apply_all core edit apply (edits_of edit (firstn k acts)) c0)))
             (snd (run core derived image edit apply reshuffle master marks mode (init core derived reshuffle c0) acts)).
Proof. intros. apply (every_write_consistent core derived image edit apply reshuffle master marks H mode acts (init core derived reshuffle c0)). apply Inv_init. Qed.

Theorem C06_flag_hypothesis_necessary :
  exists acts1 acts2,
    edits_of bool acts1 = edits_of bool acts2 /\
    final_image nat nat (nat * nat) bool r_apply r_reshuffle r_master r_marks false 0 acts1 <>
    final_image nat nat (nat * nat) bool r_apply r_reshuffle r_master r_marks false 0 acts2.
Proof. exact unflagged_edit_breaks_transparency. Qed.

(* the flag sequence the harness compares with PyCdlib._needs_reshuffle (edits that mark: true) *)
Definition flag_trace (always : bool) (acts : list (act bool)) : list bool :=
  flags unit unit unit bool (fun _ c => c) (fun _ => tt) (fun _ _ => tt) (fun e => e) always
        (init unit unit (fun _ => tt) tt) acts.

Example C06_nonvacuous :
  flag_trace false [Edit bool true; Query bool; Edit bool true; Edit bool false; Write bool; Edit bool true; Force bool]
  = [true; false; true; true; false; true; false] /\
  flag_trace true [Edit bool true; Edit bool false; Write bool] = [false; false; false].
Proof. split; vm_compute; reflexivity. Qed.
