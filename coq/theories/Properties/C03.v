(* C03 -- Written images are structurally valid ISO9660 for an independent reader.
   What is PROVED here (for all inputs) are the arithmetic facts that make the directory and
   path-table parts of that claim true:
   - Model/Pack.v is the hand model of DirectoryRecord._recalculate_extents_and_offsets (the
     cached place of every record), of the loop of PyCdlib._write_directory_records (where the
     bytes really go) and of the directory length policy of _add_child / remove_child;
   - add_to_ptr_size / remove_from_ptr_size / ceiling_div are TRANSLATED from /repo on every run.
   The models are tied to the code by the leaf-level runs of harness/props/packleaf.py (exhaustive
   small-block grids against the real method; record positions decoded from real images), and
   the property itself is evaluated on every generated image by the independent reader. *)
From Coq Require Import ZArith List Bool Sorted Permutation.
From PV.Model Require Import Pack Checksums.
From PV.Base Require Import Prim Upd.
From PV.Proofs Require Import PackProofs ChecksumsArithProofs PackGenProofs.
From PV.Gen Require Import GenFun GenObj.
From PV.Model Require PathTable.
From PV.Proofs Require PathTableLemmas PathTableProofs.
Import ListNotations.
Local Open Scope Z_scope.

(* "directory records packed inside sectors": no record crosses a block boundary, none overlaps another *)
Theorem C03_records_inside_blocks : forall C ls, 0 < C -> sized C ls ->
  (forall e o x, In (e, o, x) (combine (cached C ls) ls) -> 1 <= e /\ 0 <= o - x /\ x <= o /\ o <= C) /\
  (forall i j, (i < j < length ls)%nat ->
     before C (nth i (combine (cached C ls) ls) (0, 0, 0)) (nth j (combine (cached C ls) ls) (0, 0, 0))).
Proof.
  intros C ls HC Hs. split.
  - apply pack_inside; assumption.
  - intros i j Hij. apply (pack_disjoint C ls i j HC Hs Hij).
Qed.

(* the writer puts every record exactly where the bookkeeping said (also what modify_file_in_place relies on) *)
Theorem C03_written_where_cached : forall C ls, written C ls = cached_places C ls.
Proof. exact written_eq_cached. Qed.

(* ... and that hinges on the two sites using the same comparison: with >= in the writer it is false *)
Theorem C03_writer_test_is_decisive :
  written 2048 full_block_dir = cached_places 2048 full_block_dir /\
  written_ge 2048 full_block_dir <> cached_places 2048 full_block_dir.
Proof. destruct written_eq_cached_iff_test as (A & B & _). split; assumption. Qed.

(* recomputing from index k with the cached state of child k-1 is recomputing everything *)
Theorem C03_restart_sound : forall C pre y post,
  let st := last (cached C (pre ++ [y])) (1, 0) in
  nf C (fst st) (snd st) post = nf C 1 0 ((pre ++ [y]) ++ post) /\
  cached C ((pre ++ [y]) ++ post) = cached C (pre ++ [y]) ++ nf_pos C (fst st) (snd st) post.
Proof. exact nf_restart_cached. Qed.

(* "sizes that match": after ANY sequence of insertions and removals a directory's recorded length is a
   whole number of blocks and covers every block its records need (records <= half a block: dr_len <= 254) *)
Theorem C03_dir_length_inv : forall C ops, 68 <= C -> Forall (op_ok C) ops ->
  let d := dir_run C (dir_init C) ops in
  dlen d mod C = 0 /\ num_extents C (recs d) * C <= dlen d.
Proof. intros C ops HC Hops. exact (dir_inv_reachable C ops HC Hops). Qed.

(* the step lemmas behind it: one insertion needs at most one more block, a removal never needs more *)
Theorem C03_insert_le1 : forall C ls k x, nonneg ls -> 0 <= x -> 2 * x <= C ->
  num_extents C (insert_at k x ls) <= num_extents C ls + 1.
Proof. exact insert_le1. Qed.

Theorem C03_remove_le0 : forall C ls k, nonneg ls -> num_extents C (remove_at k ls) <= num_extents C ls.
Proof. exact remove_le0. Qed.

(* path tables: after any sequence of directory additions / removals the number of extents reserved for
   the L and M tables is exactly 2 * ceil(size / 4096), and the removal path never raises *)
Theorem C03_ptr_extents_inv : forall ops, ptr_ops_ok ops 10 ->
  exists size' ext', ptr_run ops 10 2 = Some (size', ext') /\ 0 <= size' /\ ext' = 2 * ceiling_div size' 4096.
Proof. intros ops H. destruct (ptr_run_from_new ops H) as (s & e & R & I). exists s, e. split; [exact R|exact I]. Qed.

Theorem C03_nonvacuous :
  forallb (Invb 2048) (dir_trace 2048 (dir_init 2048) ex_ops) = true /\
  length (recs (dir_run 2048 (dir_init 2048) ex_ops)) = 62%nat /\ dlen (dir_run 2048 (dir_init 2048) ex_ops) = 4096.
Proof. destruct ex_dir_trace as (A & B & C & _). repeat split; assumption. Qed.

(* The packing model IS the source: dr_recalculate (Gen/GenObj.v) is the translation of
   DirectoryRecord._recalculate_extents_and_offsets regenerated from /repo on every run; from ANY
   restart index, with ANY stale cached values behind it, it returns Pack.nf of the remaining record
   lengths started from the cached state of the previous child, stores Pack.nf_pos in the children
   and numbers them by position.  So every theorem above about nf / nf_pos / cached is a theorem
   about the current text of dr.py. *)
Theorem C03_recalculate_is_the_model : forall C pre r offs exts idxs,
  length offs = length (pre ++ r) -> length exts = length (pre ++ r) -> length idxs = length (pre ++ r) ->
  let n0 := fst (start offs exts (zlen pre)) in
  let off0 := snd (start offs exts (zlen pre)) in
  dr_recalculate (pre ++ r) offs exts idxs (zlen pre) C =
  (nf C n0 off0 r,
   firstn (length pre) offs ++ map snd (nf_pos C n0 off0 r),
   firstn (length pre) exts ++ map fst (nf_pos C n0 off0 r),
   firstn (length pre) idxs ++ zrange (zlen pre) (zlen (pre ++ r)) 1).
Proof. exact dr_recalculate_spec. Qed.

Theorem C03_recalculate_from_zero : forall C lens offs exts idxs,
  length offs = length lens -> length exts = length lens -> length idxs = length lens ->
  dr_recalculate lens offs exts idxs 0 C =
  ((num_extents C lens, last_offset C lens),
   map snd (cached C lens), map fst (cached C lens), zrange 0 (zlen lens) 1).
Proof. exact dr_recalculate_from_zero. Qed.

(* ---- directory numbering and the path table: Model/PathTable.v --------------------------------------------------
   (hand model of the breadth-first walk of _reassign_vd_dirrecord_extents -- directory extents, directory numbers,
   parent numbers -- and of the order in which _write_directory_records emits the path table; tied by ptableleaf.py on
   the ISO9660 and Joliet hierarchies of generated images).  For EVERY directory tree, of any size and depth: *)
Section PathTableStatements.
Import Prim Codec PathTable PathTableLemmas PathTableProofs.

Theorem C03_directory_numbers : forall start t,
  length (bfs start t) = tsize t /\
  (forall i r, nth_error (bfs start t) i = Some r -> d_num r = Z.of_nat i + 1) /\
  (exists rest, bfs start t = mk_dirrec 1 1 (tname t) (tblocks t) start [] [] :: rest) /\
  (forall i r, nth_error (bfs start t) (S i) = Some r ->
     exists p j, nth_error (bfs start t) (Z.to_nat (d_parent r - 1)) = Some p /\
       d_num p = d_parent r /\ 1 <= d_parent r < d_num r /\
       d_pos r = d_pos p ++ [j] /\ d_path r = d_path p ++ [d_name r]).
Proof. exact PathTableProofs.bfs_numbers. Qed.

Theorem C03_path_table_order : forall start t,
  sorted_tree t = true ->
  StronglySorted rlt (bfs start t) /\
  (forall i j a b, (i < j)%nat -> nth_error (bfs start t) i = Some a ->
     nth_error (bfs start t) j = Some b -> key_lt (rkey a) (rkey b)) /\
  write_order t = map d_pos (bfs start t) /\
  (forall i r, nth_error (bfs start t) i = Some r -> d_num r = Z.of_nat i + 1) /\
  ptable start t = map rec_tuple (bfs start t).
Proof. exact PathTableProofs.ptable_order. Qed.

Theorem C03_path_table_reader_recovers_the_tree : forall start t,
  reader_tree_of_ptable (ptable start t) = Some (map d_path (bfs start t)) /\
  Permutation (map d_path (bfs start t)) (tree_paths [] t).
Proof. exact PathTableProofs.reader_sound. Qed.

Theorem C03_directory_extents_consecutive : forall start t,
  chain start (bfs start t) /\
  (forall i a b, nth_error (bfs start t) i = Some a -> nth_error (bfs start t) (S i) = Some b ->
     d_extent b = d_extent a + d_blocks a) /\
  assign_end start t = start + tree_blocks t /\
  map (fun p : ptuple => snd (fst (fst p))) (ptable start t) = assign_extents start t /\
  (blocks_okb t = true -> forall i j a b, (i < j)%nat ->
     nth_error (bfs start t) i = Some a -> nth_error (bfs start t) j = Some b ->
     d_extent a + d_blocks a <= d_extent b).
Proof. exact PathTableProofs.extents_disjoint_consecutive. Qed.

Theorem C03_tracked_path_table_size : forall start t order,
  zlen (tname t) = 1 ->
  Permutation order (map (fun r => zlen (d_name r)) (tl (bfs start t))) ->
  fst (fold_left track_add order track_init) = ptable_size t.
Proof. exact PathTableProofs.tracked_size_is_ptable_size. Qed.

Theorem C03_path_table_ecma_order_refuted :
  exists t start,
  sorted_tree t = true /\
  ~ (forall i j a b, (i < j)%nat -> nth_error (bfs start t) i = Some a ->
       nth_error (bfs start t) j = Some b -> key_le_ecma (rkey a) (rkey b)).
Proof. exact PathTableProofs.ptable_order_ecma_refuted. Qed.
End PathTableStatements.

(* ---- the directory area, written and read back: Model/Master.v ---------------------------------------------------
   master = the bytes of every directory extent of a plain ISO9660 image exactly as _write_directory_records emits them;
   read = an independent mount-style reader that uses the bytes and the root pointer only.  For EVERY well-formed tree
   (depth <= 7, names 1..221 bytes, strictly sorted, Pack invariant per directory): *)
From PV.Base Require ListX.
From PV.Model Require Master.
From PV.Proofs Require MasterPack MasterImage MasterBfs MasterWf MasterDir MasterProofs MasterLayout MasterExamples.
Section MasterStatements.
Import PV.Base.Prim PV.Base.ListX PV.Gen.GenConst PV.Gen.GenFun PV.Model.Codec PV.Model.Pack PV.Model.PathTable PV.Model.Master.
Import PV.Proofs.MasterPack PV.Proofs.MasterImage PV.Proofs.MasterBfs PV.Proofs.MasterWf PV.Proofs.MasterDir PV.Proofs.MasterProofs
  PV.Proofs.MasterExamples.
Local Open Scope Z_scope.

Theorem C03_reader_recovers_the_mastered_tree dt t : length dt = 7%nat -> wf_tree t = true ->
  exists img, master dt t = Some img /\
              read (fuel_for t) img (root_extent t) (root_len t) = Some (view t).
Proof. first [exact (@read_master) | apply (@read_master)]. Qed.

Theorem C03_reader_recovers_the_tree_from_any_larger_image dt t img img' : length dt = 7%nat -> wf_tree t = true ->
  master dt t = Some img -> ms_img_ok img' -> incl img img' ->
  read (fuel_for t) img' (root_extent t) (root_len t) = Some (view t).
Proof. first [exact (@read_master_frame) | apply (@read_master_frame)]. Qed.

Theorem C03_directory_extents_are_exactly_the_directories dt t img : length dt = 7%nat -> wf_tree t = true -> master dt t = Some img ->
  img = map (ms_chunk dt t (ms_DB t) (ms_FB t)) (ms_dir_positions t) /\
  NoDup (ms_dir_positions t) /\
  (forall p, In p (ms_dir_positions t) <-> ms_is_dir_at t p = true).
Proof. first [exact (@master_chunks) | apply (@master_chunks)]. Qed.

Theorem C03_directory_extents_disjoint dt t img : length dt = 7%nat -> wf_tree t = true ->
  master dt t = Some img ->
  (forall i j a b, i <> j -> nth_error img i = Some a -> nth_error img j = Some b ->
     fst a + ms_cblocks a <= fst b \/ fst b + ms_cblocks b <= fst a) /\
  (forall c, In c img ->
     first_dir_extent t <= fst c /\
     fst c + ms_cblocks c <= assign_end (first_dir_extent t) (ms_dtree t) /\
     0 < ms_cblocks c /\ zlen (snd c) = ms_cblocks c * BS).
Proof. first [exact (@master_dirs_disjoint) | apply (@master_dirs_disjoint)]. Qed.

Theorem C03_dot_and_dotdot_records dt t img : length dt = 7%nat -> wf_tree t = true ->
  master dt t = Some img ->
  forall p, ms_is_dir_at t p = true ->
  exists bytes r1 rest1 r2 rest2 pbytes,
    In (ms_ext_at (ms_DB t) p, bytes) img /\ zlen bytes = ms_dlen_at t p /\
    dec_dr bytes = Some (r1, rest1) /\ dec_dr rest1 = Some (r2, rest2) /\
    Codec.ident r1 = [0] /\ flags r1 = 2 /\
    extent r1 = ms_ext_at (ms_DB t) p /\ data_len r1 = zlen bytes /\
    Codec.ident r2 = [1] /\ flags r2 = 2 /\
    ms_is_dir_at t (removelast p) = true /\
    In (extent r2, pbytes) img /\ data_len r2 = zlen pbytes /\
    extent r2 = ms_ext_at (ms_DB t) (removelast p) /\ data_len r2 = ms_dlen_at t (removelast p).
Proof. first [exact (@master_dot_dotdot) | apply (@master_dot_dotdot)]. Qed.

Example C03_master_nonvacuous : wf_tree ms_ex_tree = true /\ fuel_for ms_ex_tree = 5%nat /\
                   ms_dlen_at ms_ex_tree [0%nat] = 4096.
Proof. exact ms_ex_wf. Qed.
End MasterStatements.
