(* C15 -- placeholder until Proofs/WalkProofs.v is available *)
From Coq Require Import List.
Theorem C15_placeholder : True. Proof. exact I. Qed.
