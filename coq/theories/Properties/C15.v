(* C15 -- Hostile or damaged images: open terminates with a documented error.
   Level "other".  What is PROVED (closed) is about the control skeleton of the two directory
   walks of _open_fp (Model/Walk.v: breadth-first queue over the sub-directory extents an
   ADVERSARIAL image lists, with the seen-set added by fix: commit 279a8b6): for every image,
   the walk reads each directory extent at most once, ends within |extents| + 1 iterations with
   Finished or the documented refusal (never runs on), its queue stays proportional to the
   image, and on honest (tree-shaped) images the check never fires; for the pinned original the
   claim is refuted: on a directory that lists itself (or a two-directory cycle) the loop runs
   for EVERY fuel with a visited list that grows without bound.
   What is NOT proved: that none of the ~3000 lines of record parsers lets an undocumented
   exception type escape -- explored on every run by structured corruption of every structure
   kind (truncations, field mutations, consistent both-endian rewrites, self/ancestor references)
   opened in subprocesses under time and memory limits. *)
From Coq Require Import ZArith List.
From PV.Model Require Import Walk.
From PV.Proofs Require Import WalkProofs.
Import ListNotations.
Local Open Scope Z_scope.

Theorem C15_each_directory_read_at_most_once : forall sd fuel q v,
  NoDup v -> NoDup (outcome_visited (walk_checked sd fuel q v)).
Proof. exact walk_checked_visited_nodup. Qed.

Theorem C15_walk_terminates : forall sd (U : list Z) (root : Z),
  In root U -> (forall e, In e U -> incl (sd e) U) ->
  forall v q, open_walk sd root (S (length (nodup Z.eq_dec U))) <> OutOfFuel v q.
Proof. exact walk_checked_terminates. Qed.

Theorem C15_walk_memory_bounded : forall sd root (U : list Z) (maxfan : nat) fuel v q,
  In root U -> (forall e, In e U -> incl (sd e) U) -> (forall e, (length (sd e) <= maxfan)%nat) ->
  open_walk sd root fuel = OutOfFuel v q ->
  (length v <= length (nodup Z.eq_dec U))%nat /\ (length q <= length (nodup Z.eq_dec U) * maxfan + 1)%nat.
Proof. exact walk_checked_queue_bound_universe. Qed.

Theorem C15_check_silent_on_honest_images : forall sd fuel q v,
  NoDup (outcome_visited (walk_unchecked sd fuel q v)) -> walk_checked sd fuel q v = walk_unchecked sd fuel q v.
Proof. exact walk_checked_on_tree. Qed.

Theorem C15_original_walk_never_ends_refuted :
  (forall fuel, exists v q, walk_unchecked sd_self fuel [0] [] = OutOfFuel v q /\ length v = fuel) /\
  (forall fuel, exists v q, walk_unchecked sd_two fuel [0] [] = OutOfFuel v q /\ length v = fuel).
Proof. exact walk_unchecked_refuted. Qed.

Theorem C15_nonvacuous :
  open_walk sd_diamond 0 10 = Loop [3; 2; 1; 0] 3 /\ open_walk_unchecked sd_diamond 0 10 = Finished [3; 3; 2; 1; 0].
Proof. exact walk_checked_rejects_diamond. Qed.
