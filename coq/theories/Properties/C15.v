(* C15 -- Hostile or damaged images: open terminates with a documented error.
   Level "other".  What is PROVED (closed) is about the control skeleton of the two directory
   walks of _open_fp (Model/Walk.v: breadth-first queue over the sub-directory extents an
   ADVERSARIAL image lists, with the seen-set added by fix: commit 279a8b6): for every image,
   the walk reads each directory extent at most once, ends within |extents| + 1 iterations with
   Finished or the documented refusal (never runs on), its queue stays proportional to the
   image, and on honest (tree-shaped) images the check never fires; for the pinned original the
   claim is refuted: on a directory that lists itself (or a two-directory cycle) the loop runs
   for EVERY fuel with a visited list that grows without bound.
   What is NOT proved: that none of the ~3000 lines of record parsers lets an undocumented
   exception type escape -- explored on every run by structured corruption of every structure
   kind (truncations, field mutations, consistent both-endian rewrites, self/ancestor references)
   opened in subprocesses under time and memory limits. *)
From Coq Require Import ZArith List.
From PV.Model Require Import Walk.
From PV.Proofs Require Import WalkProofs.
Import ListNotations.
Local Open Scope Z_scope.

Theorem C15_each_directory_read_at_most_once : forall sd fuel q v,
  NoDup v -> NoDup (outcome_visited (walk_checked sd fuel q v)).
Proof. exact walk_checked_visited_nodup. Qed.

Theorem C15_walk_terminates : forall sd (U : list Z) (root : Z),
  In root U -> (forall e, In e U -> incl (sd e) U) ->
  forall v q, open_walk sd root (S (length (nodup Z.eq_dec U))) <> OutOfFuel v q.
Proof. exact walk_checked_terminates. Qed.

Theorem C15_walk_memory_bounded : forall sd root (U : list Z) (maxfan : nat) fuel v q,
  In root U -> (forall e, In e U -> incl (sd e) U) -> (forall e, (length (sd e) <= maxfan)%nat) ->
  open_walk sd root fuel = OutOfFuel v q ->
  (length v <= length (nodup Z.eq_dec U))%nat /\ (length q <= length (nodup Z.eq_dec U) * maxfan + 1)%nat.
Proof. exact walk_checked_queue_bound_universe. Qed.

Theorem C15_check_silent_on_honest_images : forall sd fuel q v,
  NoDup (outcome_visited (walk_unchecked sd fuel q v)) -> walk_checked sd fuel q v = walk_unchecked sd fuel q v.
Proof. exact walk_checked_on_tree. Qed.

Theorem C15_original_walk_never_ends_refuted :
  (forall fuel, exists v q, walk_unchecked sd_self fuel [0] [] = OutOfFuel v q /\ length v = fuel) /\
  (forall fuel, exists v q, walk_unchecked sd_two fuel [0] [] = OutOfFuel v q /\ length v = fuel).
Proof. exact walk_unchecked_refuted. Qed.

Theorem C15_nonvacuous :
  open_walk sd_diamond 0 10 = Loop [3; 2; 1; 0] 3 /\ open_walk_unchecked sd_diamond 0 10 = Finished [3; 3; 2; 1; 0].
Proof. exact walk_checked_rejects_diamond. Qed.

(* ---- the directory walk on ANY bytes: Model/Parse.v (faithful model of _walk_directories with the repaired overlap check, 863c802; parse_file reads the whole file, short at its end).  For EVERY byte string and EVERY root pointer -- no well-formedness at all: the walk terminates within a fuel bound LINEAR in the length of the file; when it succeeds, the number of records and of Inodes it created is linear in the length of the file; every failure is one of the nine raise points, each a documented library exception (builtin exception types are converted in _open_fp_checked).  The walk before the overlap check is refuted: 304 records from a 3-block image. *)
From PV.Base Require Prim ListX.
From PV.Gen Require GenConst GenFun.
From PV.Model Require Codec Pack Master Parse.
From PV.Proofs Require MasterPack MasterChecker ParseShareWalk ParseTotal ParseTotalInst.
Section ParseTotalStatements.
Import PV.Base.Prim PV.Base.ListX PV.Gen.GenConst PV.Gen.GenFun PV.Model.Codec PV.Model.Pack PV.Model.Master PV.Model.Parse PV.Proofs.MasterPack PV.Proofs.MasterChecker PV.Proofs.ParseShareWalk PV.Proofs.ParseTotal PV.Proofs.ParseTotalInst.
Local Open Scope Z_scope.
Theorem C15_directory_walk_terminates_on_any_bytes bytes ptr re rl :
  parse_file (ps_file_fuel bytes) bytes ptr re rl <> PFuel.
Proof. first [exact (@parse_file_total_any_image) | apply (@parse_file_total_any_image) | intros; eapply (@parse_file_total_any_image); eassumption]. Qed.

Theorem C15_directory_walk_work_is_linear_in_the_file bytes fuel ptr re rl g : parse_file fuel bytes ptr re rl = POk g ->
  (33 * length (ps_all_recs g) <= length bytes + 2048)%nat /\
  (33 * length (g_inodes g) <= length bytes + 2048)%nat.
Proof. first [exact (@parse_work_linear) | apply (@parse_work_linear) | intros; eapply (@parse_work_linear); eassumption]. Qed.

Theorem C15_directory_walk_terminates_on_any_chunk_map img ptr isz re rl : parse (ps_img_fuel img) img ptr isz re rl <> PFuel.
Proof. first [exact (@parse_total_any_image) | apply (@parse_total_any_image) | intros; eapply (@parse_total_any_image); eassumption]. Qed.

Theorem C15_walk_before_the_overlap_check_refuted :
  zlen (ps_chain 3 50) = 6144 /\ ps_chain_records 3 50 = Some 304%nat /\ 33 * 304 > 6144 + 2048 /\
  ps_chain_records 1 10 = Some 12%nat /\ ps_chain_records 2 10 = Some 33%nat /\
  ps_chain_records 3 10 = Some 64%nat /\ ps_chain_records 4 10 = Some 105%nat /\
  ps_chain_parse true 3 50 = PInvalid 9 /\ ps_chain_parse true 2 10 = PInvalid 9.
Proof. first [exact (@parse_work_bounded_refuted_old) | apply (@parse_work_bounded_refuted_old) | intros; eapply (@parse_work_bounded_refuted_old); eassumption]. Qed.

Theorem C15_walk_fails_only_at_documented_raise_points fixed fuel rd ptr isz re rl :
  match ps_parse_gen fixed fuel rd ptr isz re rl with
  | PInvalid w => exists e, ps_exn_of w = Some e       (* a PyCdlibInvalidISO, or for 4 a PyCdlibInvalidInput *)
  | PUnsupported w => 1 <= w <= 3                     (* outside the modelled fragment *)
  | _ => True
  end.
Proof. first [exact (@parse_only_documented_errors) | apply (@parse_only_documented_errors) | intros; eapply (@parse_only_documented_errors); eassumption]. Qed.

End ParseTotalStatements.
