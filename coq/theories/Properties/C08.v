(* C08 -- Rock Ridge fidelity for an independent SUSP/RRIP reader.
   Proved for all inputs (closed) over Model/LongNames.v (hand model of RockRidge._add_name,
   _new_symlink, RRSLRecord and its components, symlink_path) and Model/CeAlloc.v (hand model of the
   continuation-area allocator):
   - a name of ANY length is split into NM entries whose concatenation is the name, every piece
     fits its entry, CONTINUE is set on all but the last;
   - a symlink target of ANY length (any number of SL records and components, '.', '..', empty
     pieces, leading and trailing '/') is reassembled -- by an RRIP 4.1.3 reader -- to exactly the
     target (C08_symlink_roundtrip_all: unconditional).  The first faithful models REFUTED this twice (a cut
     slice spelling "." was recorded as the CURRENT component; with no continuation entry planned the
     last components of a many-component target went to a record that is never written); both witnesses
     were reproduced on pycdlib, the placement model (RRPlace.v) gave the exact cause, fix bead951
     repaired both, and the models follow the repaired code;
   - the record-level and the component-level CONTINUE flags obey the discipline a reader relies on;
   - continuation areas never overlap and stay inside their sector for every add/remove history;
   - link counts (Model/Nlink.v, hand model of the PX posix_file_links bookkeeping of
     DirectoryRecord._rr_new / remove_child / the '..' refresh of _reassign_vd_dirrecord_extents):
     after ANY history of add_directory / rm_directory, accepted or refused, and the recomputation
     every directory carries st_nlink = 2 + number of sub-directories on its own record and on its
     '.', and every '..' carries its parent's value.  (The first faithful model REFUTED this: a
     refused duplicate add_directory left the parent's counts bumped; reproduced on pycdlib,
     repaired by fix 32b487c, and the model follows the repaired code.)
   Tie: both models are compared with the real methods on every run (namesleaf.py, celeaf.py); the
   property itself is evaluated on generated Rock Ridge images by the independent reader (names,
   types, modes, link counts, targets, CE/CL/PL pointers, relocation). *)
From Coq Require Import ZArith List Bool.
From PV.Model Require Import LongNames CeAlloc.
From PV.Proofs Require Import LongNamesProofs CeAllocProofs.
From PV.Model Require Nlink.
From PV.Proofs Require NlinkProofs.
From PV.Model Require RREntries RRWalk.
From PV.Proofs Require RREntriesProofs RRWalkProofs RRSLProofs.
From PV.Model Require RRPlace.
From PV.Proofs Require RRPlaceSLProofs RRPlaceProofs RRPlaceProofs2 RRPlaceCases.
Import ListNotations.
Local Open Scope Z_scope.

Theorem C08_name_roundtrip : forall room name, 0 <= room -> nm_join (nm_split room name) = name.
Proof. exact nm_roundtrip. Qed.

Theorem C08_name_pieces_fit : forall room name, 0 <= room ->
  exists first rest, map snd (nm_split room name) = first ++ rest
    /\ Forall (fun p => len p <= room) first /\ Forall (fun p => 1 <= len p <= 250) rest.
Proof. exact nm_piece_bounds. Qed.

Theorem C08_symlink_roundtrip : forall r1 r2 target, 5 <= r2 -> no_dot_names target = true ->
  sl_reassemble (sl_records r1 r2 (sl_components target)) = target.
Proof. exact sl_roundtrip. Qed.

Theorem C08_symlink_roundtrip_partial : forall r1 r2 target, 3 <= r2 -> sl_ok r1 r2 target = true ->
  sl_reassemble (sl_records r1 r2 (sl_components target)) = target.
Proof. exact sl_roundtrip_partial. Qed.

Theorem C08_symlink_roundtrip_all : forall r1 r2 target, 3 <= r2 -> target <> [] ->
  sl_reassemble (sl_records r1 r2 (sl_components target)) = target.
Proof. exact sl_roundtrip_all. Qed.

Theorem C08_symlink_records_fit_their_rooms : forall r1 r2 cs, 3 <= r2 ->
  exists r0 rs, sl_records r1 r2 cs = r0 :: rs /\ comps_size (snd r0) <= Z.max 0 r1 /\
                Forall (fun r => comps_size (snd r) <= r2) rs.
Proof. exact sl_rooms. Qed.

Theorem C08_symlink_without_ce_single_record : forall r1 r2 target, target <> [] -> sl_accepts_no_ce r1 target = true ->
  sl_records r1 r2 (sl_components target) = [(false, sl_components target)].
Proof. exact sl_no_ce_single_record. Qed.

Theorem C08_symlink_without_ce_roundtrip : forall r1 r2 target, target <> [] -> sl_accepts_no_ce r1 target = true ->
  sl_reassemble (sl_written false (sl_records r1 r2 (sl_components target))) = target.
Proof. exact sl_no_ce_roundtrip. Qed.

Theorem C08_record_continue_flags : forall r1 r2 cs, all_but_last true false (map fst (sl_records r1 r2 cs)).
Proof. exact sl_record_flags. Qed.

Theorem C08_continuation_areas_disjoint : forall M ops, 0 < M -> Forall op_ok ops -> Forall (wf M) (final_blocks M ops).
Proof. exact run_inv. Qed.

Theorem C08_ce_pointer_designates_its_area : forall M len es o, wf M es -> fst (add_entry M es len) = o -> 0 <= o ->
  In (o, len) (snd (add_entry M es len)) /\ o + len <= M /\
  Forall (fun e => o + len <= fst e \/ fst e + snd e <= o) es.
Proof. intros M len es o W E O. destruct (add_entry_placed M len es o W E O) as (A & B & _ & D). repeat split; assumption. Qed.

(* ---- link counts ------------------------------------------------------------------------------ *)
Theorem C08_nlink : forall ops,
  NlinkProofs.nlink_ok (Nlink.reshuffle (Nlink.run Nlink.init ops)).
Proof. exact NlinkProofs.C08_nlink. Qed.

Theorem C08_nlink_invariant_before_recomputation : forall ops, NlinkProofs.Inv (Nlink.run Nlink.init ops).
Proof. exact NlinkProofs.Inv_run. Qed.

Theorem C08_nlink_refused_edit_changes_nothing : forall s o, Nlink.accepts s o = false -> Nlink.step s o = s.
Proof. exact NlinkProofs.step_refused_unchanged. Qed.

Theorem C08_nlink_recomputation_idempotent : forall s, Nlink.reshuffle (Nlink.reshuffle s) = Nlink.reshuffle s.
Proof. exact NlinkProofs.reshuffle_idempotent. Qed.

Theorem C08_nlink_example :
  Nlink.run_probe [Nlink.AddDir [1]; Nlink.AddDir [1]] = [([], 0, 3, 3); ([1], 2, 2, 3)].
Proof. exact NlinkProofs.nlink_ex_dup. Qed.

(* ---- System Use entry codecs and the walker: Model/RREntries.v, Model/RRWalk.v ---------------------
   (byte-level hand model of every entry class of rockridge.py -- SP RR CE PX ER ES PN SL NM CL PL RE TF SF
   PD AL ST -- of the dispatcher loop of RockRidge.parse and of the recorder; tied by rrleaf.py) *)
Theorem C08_entry_roundtrip : forall v e rest, RREntries.entry_ok v e = true -> (RREntriesProofs.is_pd e = true -> rest = []) ->
  exists b, RREntries.rec_entry v e = Some b /\
            RREntries.parse_entry (RREntries.sig_of e) (b ++ rest) = Some (e, RREntriesProofs.entry_aux v e).
Proof. exact RREntriesProofs.entry_roundtrip. Qed.

(* what a generic SUSP walker relies on: signature, then the entry's own total length, then version 1 *)
Theorem C08_entry_self_describing : forall v e b, RREntries.entry_ok v e = true -> RREntries.rec_entry v e = Some b ->
  firstn 2 b = RREntries.sig_of e /\ nth 2 b 0 = Prim.zlen b /\ nth 3 b 0 = 1.
Proof. exact RREntriesProofs.entry_len_byte. Qed.

(* a System Use area made of ANY list of recordable entries is walked back to exactly those entries *)
Theorem C08_area_walk : forall v first tail, RRWalkProofs.pad_ok tail -> forall es, Forall (RRWalkProofs.good v first) es ->
  forall bs pre fuel, RRWalk.record_list v es = Some bs -> (length es < fuel)%nat ->
  RRWalk.walk_su fuel first (pre ++ bs ++ tail) (Prim.zlen pre) (Prim.zlen bs + Prim.zlen tail) =
  Some (RRWalkProofs.annot v es (Prim.zlen tail)).
Proof. exact RRWalkProofs.walk_su_records. Qed.

Theorem C08_symlink_components_name_target : forall t, RREntries.sl_name (RREntries.components_of_target t) = t.
Proof. exact RRSLProofs.sl_name_factory. Qed.

(* the two known findings about symlink targets, as theorems about the faithful model *)
Theorem C08_cut_slices_read_back : forall fl pieces rest,
  Codec.u8_ok fl = true ->
  Forall (fun sl => sl <> [] /\ Forall (fun q => ~ In 47 q) sl) pieces ->
  let cs := flat_map RRSLProofs.slice_comps pieces in
  RREntries.sl_current_length (RREntries.mk_sl fl cs) <= 255 ->
  exists b s', RREntries.rec_sl (RREntries.mk_sl fl cs) = Some b /\ RREntries.parse_sl (b ++ rest) = Some s' /\
    RREntries.sl_flags s' = fl /\
    RREntries.sl_name (RREntries.sl_comps s') = LongNames.join_slash (map (@concat Z) pieces).
Proof. exact RRSLProofs.sl_slices_roundtrip. Qed.

Theorem C08_continued_dot_slice_reads_back :
  exists comps b s',
    comps = RRSLProofs.slice_comps [[46]; [98]] /\ RREntries.sl_name comps = [46; 98] /\
    RREntries.rec_sl (RREntries.mk_sl 0 comps) = Some b /\ b = [83; 76; 11; 1; 0; 1; 1; 46; 0; 1; 98] /\
    RREntries.parse_sl b = Some s' /\ RREntries.sl_name (RREntries.sl_comps s') = [46; 98].
Proof. exact RRSLProofs.sl_continued_dot_roundtrip. Qed.

Theorem C08_root_only_target_refuted :
  RREntries.parse_sl [83; 76; 7; 1; 0; 8; 0] = Some (RREntries.mk_sl 0 [RREntries.mk_comp 8 0 []]) /\
  RREntries.sl_name [RREntries.mk_comp 8 0 []] = [] /\
  LongNames.render [LongNames.pair_comp (8, [])] = [47].
Proof. exact RRSLProofs.sl_name_root_only_refuted. Qed.

Theorem C08_tf_roundtrip : forall t rest, RREntries.tf_ok t = true ->
  RREntries.rec_tf t = Some (RREntries.enc_tf t) /\ RREntries.parse_tf (RREntries.enc_tf t ++ rest) = Some t /\
  Prim.zlen (RREntries.enc_tf t) = RREntries.len_tf (RREntries.tf_flags t) /\
  RREntries.len_tf (RREntries.tf_flags t) =
    5 + RREntries.tf_each (RREntries.tf_flags t) * RREntriesProofs.count_set (RREntries.tf_flags t) RREntries.tf_indices.
Proof. exact RREntriesProofs.tf_roundtrip. Qed.

(* ---- entry placement: Model/RRPlace.v -------------------------------------------------------------------------
   (hand model of RockRidge.new / _assign_entries: which System Use entries are created for a record and whether
   each goes into the directory record or into the continuation area, for every name, symlink target, version,
   XA and relocation flag; two passes, the second with a CE entry; tied by rrplaceleaf.py on a boundary grid of real
   RockRidge.new calls, byte for byte).  For ALL inputs: *)
Section RRPlaceStatements.
Import Prim Codec RREntries RRWalk RRPlace RRPlaceSLProofs RRPlaceProofs RRPlaceProofs2 RRPlaceCases.
Local Open Scope Z_scope.

Theorem C08_placement_fits_the_record : forall i r,
  place i = Some r -> input_ok i r ->
  exists bd, record_entries (p_v i) (pl_dr r) = Some bd /\
    p_dr_len i + zlen bd = pl_len r /\ pl_len r <= ALLOWED_DR_SIZE /\
    p_dr_len i + zlen bd <= new_dr_len_of r <= ALLOWED_DR_SIZE /\ new_dr_len_of r mod 2 = 0.
Proof. exact RRPlaceProofs.place_dr_fits. Qed.

Theorem C08_ce_entry_length_is_the_area : forall i r c,
  place i = Some r -> input_ok i r -> ce_record (pl_dr r) = Some c ->
  exists bc, record_entries (p_v i) (pl_ce r) = Some bc /\ c = mk_ce 0 0 (zlen bc) /\ pl_celen r = zlen bc
             /\ ce_record (pl_ce r) = None.
Proof. exact RRPlaceProofs.place_ce_len. Qed.

Theorem C08_placed_name_reads_back : forall i r,
  place i = Some r -> 0 <= p_dr_len i -> read_name r = p_name i.
Proof. exact RRPlaceProofs2.place_reads_name. Qed.

Theorem C08_placed_target_reads_back : forall i r t,
  place i = Some r -> 0 <= p_dr_len i -> p_target i = Some t -> t <> [] -> read_target r = t.
Proof. exact RRPlaceProofs2.place_reads_target. Qed.

Theorem C08_ce_entry_iff_continuation_part : forall i r, place i = Some r -> 0 <= p_dr_len i ->
  (ce_record (pl_dr r) = None <-> entries_list (pl_ce r) = []).
Proof. exact RRPlaceProofs2.place_ce_iff. Qed.

Theorem C08_first_fit_closed : forall i,
  first_fit i = true <-> before_sl i + sl_uncut i + after_sl i <= ALLOWED_DR_SIZE.
Proof. exact RRPlaceProofs2.first_fit_closed. Qed.

Theorem C08_no_continuation_iff_first_fit : forall i r,
  place i = Some r -> 0 <= p_dr_len i ->
  (ce_record (pl_dr r) = None <-> first_fit i = true).
Proof. exact RRPlaceProofs2.place_first_pass_iff. Qed.

Theorem C08_placement_total : forall i,
  p_v i <> V_unset -> dates_ok i = true -> 0 <= p_dr_len i ->
  p_dr_len i + len_ce <= ALLOWED_DR_SIZE -> exists r, place i = Some r.
Proof. exact RRPlaceProofs2.place_total. Qed.

Theorem C08_former_truncation_witness_reads_back : exists r, place w_trunc = Some r /\ input_ok w_trunc r /\
  is_some (ce_record (pl_dr r)) = true /\ entries_list (pl_ce r) <> [] /\ first_fit w_trunc = false /\
  read_target r = repeat 47 13%nat /\ read_name r = p_name w_trunc.
Proof. exact RRPlaceCases.w_trunc_reads_back. Qed.

Theorem C08_former_dot_cut_witness_reads_back : exists r, place w_dot = Some r /\ input_ok w_dot r /\
  is_some (ce_record (pl_dr r)) = true /\ read_target r = [47; 46; 98] /\ read_name r = [110] /\
  map sl_view (sl_of (visible r)) =
    [(true, [LongNames.CRoot; LongNames.CName true [46]]); (false, [LongNames.CName false [98]])].
Proof. exact RRPlaceCases.w_dot_reads_back. Qed.
End RRPlaceStatements.

(* The entry lengths used by the models above are the `length()` static methods of rockridge.py as TRANSLATED from the
   current source on this run (Gen/GenRR.v, regenerated by every check): a change of one of those methods changes the
   generated definition and breaks this theorem. *)
From PV.Gen Require GenRR.
From PV.Model Require RREntries.
From PV.Proofs Require RRGenProofs.
Theorem C08_entry_lengths_are_the_source :
  (RREntries.len_sp = GenRR.rr_sp_length /\ RREntries.len_rr = GenRR.rr_rr_length /\ RREntries.len_ce = GenRR.rr_ce_length /\
   RREntries.len_es = GenRR.rr_es_length /\ RREntries.len_pn = GenRR.rr_pn_length /\ RREntries.len_link = GenRR.rr_cl_length /\
   RREntries.len_link = GenRR.rr_pl_length /\ RREntries.len_re = GenRR.rr_re_length /\ RREntries.len_re = GenRR.rr_st_length) /\
  (forall v, RREntries.len_px v = GenRR.rr_px_length (RRGenProofs.rrv_str v)) /\
  (forall v, RREntries.len_sf v = GenRR.rr_sf_length (RRGenProofs.rrv_str v)) /\
  (forall id des src, RREntries.len_er id des src = GenRR.rr_er_length id des src) /\
  (forall name, RREntries.len_nm name = GenRR.rr_nm_length name) /\
  (forall p, RREntries.len_pd p = GenRR.rr_pd_length p) /\
  (forall name, RREntries.sl_comp_length name = GenRR.rr_sl_component_length name) /\
  (forall names, RREntries.len_sl names =
     fold_left (fun l n => (l + GenRR.rr_sl_component_length n)%Z) names GenRR.rr_sl_header_length) /\
  (GenRR.rr_sl_max_component_area = 250 /\ GenRR.rr_al_max_component_area = 250 /\ GenRR.rr_sl_header_length = 5 /\
   GenRR.rr_al_header_length = 5)%Z.
Proof.
  split; [exact RRGenProofs.rrgen_constants|]. split; [exact RRGenProofs.rrgen_px|]. split; [exact RRGenProofs.rrgen_sf|].
  split; [exact RRGenProofs.rrgen_er|]. split; [exact RRGenProofs.rrgen_nm|]. split; [exact RRGenProofs.rrgen_pd|].
  split; [exact RRGenProofs.rrgen_sl_component|]. split; [exact RRGenProofs.rrgen_sl_record|]. exact RRGenProofs.rrgen_areas.
Qed.

(* ---- relocation of deep directories: Model/Reloc.v --------------------------------------------------------------
   The object graph under add_directory / rm_directory / add_fp / add_symlink / rm_file with RR_MOVED, placeholders (CL),
   relocated directories (RE) and their `..` (PL), as a state machine (the repaired code: 6984eda, cd1f033, 4a3ef6f, 3cc255b,
   42db27e); `view` is the physical layout (per directory extent the records with names, flags, extents, CL/PL/RE, link
   counts), `rr_reader` an independent reader in the style of the Linux isofs driver (follows CL taking the name from the
   placeholder, skips RE, hides the root's RR_MOVED), `logical_spec` what the edits imply.  For EVERY accepted history: *)
From PV.Model Require RelocCore RelocView Reloc.
From PV.Proofs Require RelocProofs.
Section RelocStatements.
Import PV.Model.RelocCore PV.Model.RelocView PV.Model.Reloc.
Local Open Scope Z_scope.

Theorem C08_relocation_reader_sees_the_logical_tree : forall (sz : ppath -> Z) (start : Z), (forall x, 1 <= sz x) ->
  forall (ops : list op) (fuel : nat), run_ok init ops = true -> (fuel_of (run init ops) <= fuel)%nat ->
  rr_reader (view sz start (run init ops)) start fuel = Some (expected (logical_spec ops)).
Proof. exact RelocProofs.reloc_reader_sees_logical_tree. Qed.

Theorem C08_relocation_logical_tree_is_the_specification : forall ops, run_ok init ops = true -> logical (run init ops) = logical_spec ops.
Proof. exact RelocProofs.reloc_logical_is_spec. Qed.

(* every CL lands on exactly one directory that RR_MOVED lists with RE and whose `..` carries PL back to the placeholder's
   directory; every RE record lies in RR_MOVED and is reached by a CL; two CLs never share a target; each extent names one directory *)
Theorem C08_relocation_links_consistent : forall (sz : ppath -> Z) (start : Z), (forall x, 1 <= sz x) -> forall ops : list op,
  (forall e recs r c, In (e, recs) (view sz start (run init ops)) -> In r recs -> r_cl r = Some c ->
     exists dotr ddr rest mrecs mr,
       lookup (view sz start (run init ops)) c = Some (dotr :: ddr :: rest) /\ r_ext dotr = c /\ r_pl ddr = Some e /\
       lookup (view sz start (run init ops)) (ext_of sz start (run init ops) [moved_name]) = Some mrecs /\
       In mr mrecs /\ r_re mr = true /\ r_ext mr = c /\ r_rr mr = r_rr r /\ r_dir mr = true) /\
  (forall e recs mr, In (e, recs) (view sz start (run init ops)) -> In mr recs -> r_re mr = true ->
     e = ext_of sz start (run init ops) [moved_name] /\
     exists e' recs' r, In (e', recs') (view sz start (run init ops)) /\ In r recs' /\ r_cl r = Some (r_ext mr) /\ r_rr r = r_rr mr) /\
  (forall e1 recs1 r1 e2 recs2 r2 c, In (e1, recs1) (view sz start (run init ops)) -> In r1 recs1 -> r_cl r1 = Some c ->
     In (e2, recs2) (view sz start (run init ops)) -> In r2 recs2 -> r_cl r2 = Some c -> e1 = e2 /\ r1 = r2) /\
  NoDup (map fst (view sz start (run init ops))).
Proof. exact RelocProofs.reloc_links_consistent. Qed.

Theorem C08_relocation_refused_edit_changes_nothing : forall s o, snd (step s o) <> Acc -> fst (step s o) = s.
Proof. exact RelocProofs.reloc_refused_unchanged. Qed.

(* what the library records deviates from "2 + logical sub-directories" exactly here (stated, not repaired: the root counts
   RR_MOVED, and the `..` of a relocated directory carries RR_MOVED's count); and descendants of a relocated directory can
   sit deeper than 8 physical levels *)
Theorem C08_relocation_root_link_count_refuted : exists ops : list op, run_ok init ops = true /\
  rr_root_nlink (view RelocProofs.one 23 (run init ops)) 23 (fuel_of (run init ops)) <> Some (2 + ldirs (logical_spec ops)).
Proof. exact RelocProofs.reloc_nlink_root_refuted. Qed.

Theorem C08_relocation_physical_depth_refuted : exists ops : list op, run_ok init ops = true /\
  exists p : ppath, In p (ppaths (run init ops)) /\ (8 < length p)%nat.
Proof. exact RelocProofs.reloc_physical_depth_refuted. Qed.
End RelocStatements.

(* ---- the whole Rock Ridge image as BYTES: Model/MasterRR.v ------------------------------------------------------
   master_rr = the bytes of every directory extent (records with their System Use area) and of every continuation block of an
   ISO9660 + Rock Ridge image; read_rr = an independent SUSP/RRIP reader in the style of the Linux isofs driver (walks the
   System Use area entry by entry, follows CE into the continuation block, joins NM pieces, reassembles SL, takes PX).
   For EVERY edit history (state of Model/AccountRR.v; names and targets of any length; versions 1.09/1.10/1.12): the reader
   recovers every Rock Ridge name, mode (hence kind), link count and symlink target; continuation areas of different records
   never meet and never lie in the ER sector; the root `.` starts with SP and points through CE at the ER entry of the version. *)
From PV.Model Require AccountRR MasterRR RRWalk RRPlace.
From PV.Proofs Require MasterRRImage MasterRRProofs MasterRRRun.
Section MasterRRStatements.
Import PV.Model.AccountRR PV.Model.MasterRR.
Local Open Scope Z_scope.

Theorem C08_rr_reader_recovers_every_entry_after_every_history : forall (v : RREntries.rrv) (ops : list rop) (dt : list Z),
  v <> RREntries.V_unset -> length dt = 7%nat -> mrr_sizes_ok (rr_run (rr_init v) ops) = true ->
  exists img : image,
    master_rr dt (rr_run (rr_init v) ops) = Some img /\
    read_rr (mrr_fuel (rr_run (rr_init v) ops)) img (mrr_root_extent (rr_run (rr_init v) ops)) (mrr_root_len (rr_run (rr_init v) ops)) =
    Some (mrr_view (rr_run (rr_init v) ops)).
Proof. exact MasterRRRun.read_master_rr_run. Qed.

Theorem C08_rr_reader_recovers_every_entry : forall dt s, length dt = 7%nat -> mrr_wf dt s = true ->
  exists img, master_rr dt s = Some img /\ read_rr (mrr_fuel s) img (mrr_root_extent s) (mrr_root_len s) = Some (mrr_view s).
Proof. exact MasterRRProofs.read_master_rr. Qed.

Theorem C08_rr_continuation_areas_disjoint_after_every_history : forall (v : RREntries.rrv) (ops : list rop) (dt : list Z),
  v <> RREntries.V_unset -> length dt = 7%nat -> mrr_sizes_ok (rr_run (rr_init v) ops) = true ->
  forall (q1 q2 : list nat) (n1 n2 : rnode) (i1 : nat) (o1 l1 : Z) (i2 : nat) (o2 l2 : Z), q1 <> q2 ->
  mrr_node_at (r_root (rr_run (rr_init v) ops)) q1 = Some n1 -> mrr_node_at (r_root (rr_run (rr_init v) ops)) q2 = Some n2 ->
  m_ce (meta_of n1) = Some (i1, o1, l1) -> m_ce (meta_of n2) = Some (i2, o2, l2) ->
  (mrr_ce_ext (r_root (rr_run (rr_init v) ops)) (mrr_layout (rr_run (rr_init v) ops)) i1 <>
   mrr_ce_ext (r_root (rr_run (rr_init v) ops)) (mrr_layout (rr_run (rr_init v) ops)) i2 \/ o1 + l1 <= o2 \/ o2 + l2 <= o1) /\
  mrr_start (rr_run (rr_init v) ops) <= mrr_ce_ext (r_root (rr_run (rr_init v) ops)) (mrr_layout (rr_run (rr_init v) ops)) i1 /\
  mrr_ce_ext (r_root (rr_run (rr_init v) ops)) (mrr_layout (rr_run (rr_init v) ops)) i1 < l_er (mrr_layout (rr_run (rr_init v) ops)).
Proof. exact MasterRRRun.master_rr_areas_disjoint_run. Qed.
End MasterRRStatements.

(* ---- continuation areas of a PARSED image are tracked exactly: Model/ParseRR.v.  For EVERY edit history the continuation
   block table that open rebuilds (track_rr_ce_entry) holds entry (offset, length) at extent e iff some block of the writer
   holds it and was placed at e; one block per extent -- so new entries never land on a parsed one *)
From PV.Model Require ParseRR ParseRRSpec.
From PV.Proofs Require ParseRRTable ParseRRBlocks.
Section ParseRRBlocksStatement.
Import PV.Model.AccountRR PV.Model.MasterRR PV.Model.ParseRR PV.Model.ParseRRSpec.
Theorem C08_open_tracks_exactly_the_written_continuation_entries : forall (v : RREntries.rrv) (ops : list rop) (dt : list Z),
  let s := rr_run (rr_init v) ops in
  (forall e o l : Z, ParseRRTable.tbl_has (g_blocks (graph_of dt s)) e o l <->
     (exists (i : nat) (es : CeAlloc.block), In (i, es) (r_blocks s) /\ In (o, l) es /\ mrr_ce_ext (r_root s) (mrr_layout s) i = e)) /\
  NoDup (map fst (g_blocks (graph_of dt s))).
Proof. exact ParseRRBlocks.parse_rr_blocks_run. Qed.
End ParseRRBlocksStatement.
