(* C11 -- El Torito boot structures.  Proved (closed) about the TRANSLATED
   EltoritoValidationEntry._checksum: for EVERY 32-byte entry the computed value makes the sixteen
   little-endian words sum to zero modulo 2^16 (the sign-extension branch of the code is irrelevant
   modulo 2^16 and is reached), and storing it yields an entry that verifies.  Removal of El Torito
   in the specification removes exactly the catalog names and boot references (from LinksProofs).
   Model/Eltorito.v is a byte-level hand model of eltorito.py (validation entry, initial/section
   entries, section headers, EltoritoBootCatalog.record / parse state machine / add_section, the
   reader loop of _check_and_parse_eltorito, the boot info table and its checksum), tied to /repo by
   etleaf.py on every run.  For EVERY catalog that new + add_section can build (any number of
   sections up to 31, bootable or not) the bytes of the catalog extent, followed by ANYTHING, parse
   back to the same catalog; every entry `new` accepts can be recorded; the boot info checksum is
   the 32-bit sum of the file's own words from offset 64.  The first faithful model REFUTED four of
   these statements (non-bootable section entry taken for the terminator, 31-section catalog
   unterminated, sector count > 65535 accepted, checksum over-reading the file object); each witness
   was reproduced on pycdlib and repaired (fixes acaa253, 351102c, 262580a, ec27ab7), and the model
   follows the repaired code.  Pointers, media/platform/load size and read-back are decided on
   generated bootable images by the independent reader and the API. *)
From Coq Require Import ZArith List Bool.
From PV.Base Require Import Prim.
From PV.Gen Require Import GenFun.
From PV.Model Require Import Checksums.
From PV.Proofs Require Import ChecksumsArithProofs FsSpecProofs LinksProofs.
From PV.Spec Require Import FsSpec.
From PV.Model Require Eltorito.
From PV.Proofs Require EltoritoProofs EltoritoCatalogProofs EltoritoBuiltProofs EltoritoBitProofs.
Import ListNotations.
Local Open Scope Z_scope.

Theorem C11_validation_checksum_zero_sum : forall data, bytes data -> length data = 32%nat ->
  (et_word_sum data + et_checksum data) mod 65536 = 0.
Proof. exact et_checksum_zero_sum. Qed.

Theorem C11_validation_entry_verifies : forall data,
  bytes data -> length data = 32%nat -> znth 28 data = 0 -> znth 29 data = 0 ->
  let c := et_checksum data in
  let data' := set_nth 29 (c / 256) (set_nth 28 (c mod 256) data) in
  0 <= c < 65536 /\ bytes data' /\ length data' = 32%nat /\ et_word_sum data' mod 65536 = 0 /\ et_checksum data' = 0.
Proof. exact et_checksum_roundtrip. Qed.

Theorem C11_rm_eltorito_removes_all_of_it_and_nothing_else : forall s s',
  step s RmEltorito = (s', Ok) ->
  f_boot s' = None /\
  (forall bt x, f_boot s = Some bt -> x <> catalog_blob -> ~ In x (b_blobs bt) -> refs s' x = refs s x) /\
  refs s' catalog_blob = 0%nat.
Proof.
  intros s s' S.
  assert (F : exists bt, f_boot s = Some bt).
  { cbn [step] in S. destruct (f_boot s) as [bt|]; [exists bt; reflexivity|discriminate]. }
  destruct F as [bt F]. split.
  - cbn [step] in S. rewrite F in S. inversion S. reflexivity.
  - split.
    + intros bt' x F' X N. exact (refs_rm_eltorito_unrelated s s' bt' x S F' X N).
    + destruct (refs_rm_eltorito s s' bt S F) as (A & _). exact A.
Qed.

(* ---- Model/Eltorito.v --------------------------------------------------------------------------- *)
Theorem C11_catalog_extent_roundtrip : forall c ab beyond, EltoritoBuiltProofs.built c ab ->
  Eltorito.parse_catalog_extent (Eltorito.cat_extent_bytes c ++ beyond) = Some c.
Proof. exact EltoritoBuiltProofs.built_extent_roundtrip. Qed.

Theorem C11_full_catalog_roundtrip : forall c ab beyond, EltoritoBuiltProofs.built c ab -> zlen (Eltorito.c_sections c) = 31 ->
  length (Eltorito.cat_bytes c) = 2048%nat /\ Eltorito.cat_extent_bytes c = Eltorito.cat_bytes c /\
  Eltorito.parse_catalog_extent (Eltorito.cat_bytes c ++ beyond) = Some c /\
  (forall sc ls m st efi b, Eltorito.cat_add_section c sc ls m st efi b = None).
Proof. exact EltoritoBuiltProofs.full_catalog_roundtrip. Qed.

Theorem C11_every_accepted_entry_can_be_recorded : forall sc ls m st b e, Eltorito.entry_new sc ls m st b = Some e ->
  Eltorito.entry_record e <> None /\ Eltorito.entry_record e = Some (Eltorito.entry_bytes e) /\
  Eltorito.entry_parse (Eltorito.entry_bytes e) = Some e.
Proof. exact EltoritoProofs.entry_new_record_total. Qed.

Theorem C11_boot_info_checksum_is_over_the_files_own_bytes : forall fp data_len,
  Eltorito.bit_csum fp data_len =
  Some (Eltorito.zsum32 (skipn 64 (firstn (Z.to_nat data_len) fp)) mod 4294967296).
Proof. exact EltoritoBitProofs.bit_csum_exact_prefix. Qed.

Theorem C11_validation_entry_of_new_verifies : forall pid, Eltorito.platform_ok pid = true ->
  exists v, Eltorito.val_new pid = Some v /\ Eltorito.val_ok v = true /\ Eltorito.v_platform_id v = pid /\
            et_word_sum (Eltorito.val_bytes v) mod 65536 = 0 /\ Eltorito.val_parse (Eltorito.val_bytes v) = Some v.
Proof. exact EltoritoProofs.val_new_ok. Qed.

(* ---- El Torito over whole edit histories: Model/AccountBoot.v (state machine on top of AccountLinks: add_eltorito first call and further sections, boot info tables, rm_eltorito, hard links and removals of boot files and catalog names; plain ISO9660 level 3).  For EVERY history: *)
From PV.Base Require Prim.
From PV.Gen Require GenConst GenFun.
From PV.Model Require Names Pack Alloc Codec Eltorito Account AccountLinks AccountBoot.
From PV.Proofs Require PackProofs AllocProofs AccountLemmas AccountProofs AccountLinksLemmas AccountLinksPurge AccountLinksInv AccountBootLemmas AccountBootInv AccountBootInv2 AccountBootFix AccountBootProofs AccountBootProofs2.
Section AccountBootStatements.
Import PV.Base.Prim PV.Gen.GenConst PV.Gen.GenFun PV.Model.Names PV.Model.Pack PV.Model.Alloc PV.Model.Codec PV.Model.Eltorito PV.Model.Account PV.Model.AccountLinks PV.Model.AccountBoot PV.Proofs.PackProofs PV.Proofs.AllocProofs PV.Proofs.AccountLemmas PV.Proofs.AccountProofs PV.Proofs.AccountLinksLemmas PV.Proofs.AccountLinksPurge PV.Proofs.AccountLinksInv PV.Proofs.AccountBootLemmas PV.Proofs.AccountBootInv PV.Proofs.AccountBootInv2 PV.Proofs.AccountBootFix PV.Proofs.AccountBootProofs PV.Proofs.AccountBootProofs2.
Local Open Scope Z_scope.
Theorem C11_boot_declared_size_is_exact ops : lspace (bl (brun binit ops)) = blayout_end (brun binit ops).
Proof. first [exact (@ab_space_exact) | apply (@ab_space_exact) | intros; eapply (@ab_space_exact); eassumption]. Qed.

Theorem C11_boot_file_cannot_vanish ops :
  let s := brun binit ops in
  NoDup (ids (linodes (bl s))) /\
  (* every El Torito entry's inode is in self.inodes ... *)
  (forall b, bboot s = Some b -> Forall (fun i => In i (ids (linodes (bl s)))) (binos b)) /\
  (* ... and nothing stays in self.inodes without a directory record or an El Torito entry *)
  (forall i, In i (ids (linodes (bl s))) -> 0 < lrefcount i (lroot (bl s)) + erefs i (bboot s)).
Proof. first [exact (@ab_boot_file_cannot_vanish) | apply (@ab_boot_file_cannot_vanish) | intros; eapply (@ab_boot_file_cannot_vanish); eassumption]. Qed.

Theorem C11_boot_objects_disjoint_and_inside ops :
  let s := brun binit ops in
  ForallOrdPairs disjoint (blayout s) /\
  Forall (fun iv => 0 <= fst iv /\ fst iv + snd iv <= lspace (bl s)) (blayout s).
Proof. first [exact (@ab_objects_disjoint_and_inside) | apply (@ab_objects_disjoint_and_inside) | intros; eapply (@ab_objects_disjoint_and_inside); eassumption]. Qed.

Theorem C11_catalog_points_at_files ops b :
  let s := brun binit ops in
  bboot s = Some b ->
  In (17, 1) (blayout s) /\ In (cat_extent s, 1) (blayout s) /\
  length (entry_rbas s) = S (length (c_sections (bcat b))) /\
  (forall k i, nth_error (binos b) k = Some i ->
     In i (ids (linodes (bl s))) /\
     exists e, ino_extent s i = Some e /\ nth_error (entry_rbas s) k = Some e /\
               In (e, blk_of s i) (blayout s) /\ cat_extent s < e /\
               e + blk_of s i <= lspace (bl s)).
Proof. first [exact (@ab_catalog_points_at_files) | apply (@ab_catalog_points_at_files) | intros; eapply (@ab_catalog_points_at_files); eassumption]. Qed.

Theorem C11_load_rba_is_the_files_own_extent ops b k i :
  let s := brun binit ops in
  bboot s = Some b -> nth_error (binos b) k = Some i ->
  len_of i (linodes (bl s)) <> 0 /\
  exists e, nth_error (entry_rbas s) k = Some e /\ ino_extent s i = Some e /\
            0 < blk_of s i /\ cat_extent s < e /\ e + blk_of s i <= lspace (bl s) /\
            forall j ej, j <> i -> ino_extent s j = Some ej -> disjoint (e, blk_of s i) (ej, blk_of s j).
Proof. first [exact (@ab_load_rba_own_extent) | apply (@ab_load_rba_own_extent) | intros; eapply (@ab_load_rba_own_extent); eassumption]. Qed.

Theorem C11_boot_info_tables_only_on_boot_files ops i :
  let s := brun binit ops in In i (bbits s) -> 0 < erefs i (bboot s) /\ In i (ids (linodes (bl s))).
Proof. first [exact (@ab_bits_on_boot_files) | apply (@ab_bits_on_boot_files) | intros; eapply (@ab_bits_on_boot_files); eassumption]. Qed.

Theorem C11_boot_refused_edit_changes_nothing s o s' : bstep s o = (s', Ref) -> s' = s.
Proof. first [exact (@ab_refused_unchanged) | apply (@ab_refused_unchanged) | intros; eapply (@ab_refused_unchanged); eassumption]. Qed.

Theorem C11_late_refusal_only_on_first_call s o s' : bstep s o = (s', Late) ->
  bboot s = None /\ bwreck s = false /\
  s' = {| bl := bl s; bboot := bboot s; bbits := bbits s; bwreck := true |}.
Proof. first [exact (@ab_late_is_first_call) | apply (@ab_late_is_first_call) | intros; eapply (@ab_late_is_first_call); eassumption]. Qed.

Theorem C11_rm_eltorito_exact_after_every_history ops b :
  let s := brun binit ops in
  bwreck s = false -> bboot s = Some b ->
  let s' := fst (bstep s BRmEltorito) in
  snd (bstep s BRmEltorito) = Acc /\ bboot s' = None /\
  lrecords [] (lroot (bl s')) =
    filter (fun r => negb (mem (snd r) (cat_recs b))) (lrecords [] (lroot (bl s))) /\
  (forall i, In i (ids (linodes (bl s'))) <->
             In i (ids (linodes (bl s))) /\ ~ (In i (binos b) /\ lrefcount i (lroot (bl s)) = 0)) /\
  lspace (bl s') = lspace (bl s) - 2
                   - (ltotal lw_dblk (lroot (bl s)) - ltotal lw_dblk (lroot (bl s')))
                   - (tbl_sum (linodes (bl s)) - tbl_sum (linodes (bl s'))).
Proof. first [exact (@ab_rm_eltorito_exact_run) | apply (@ab_rm_eltorito_exact_run) | intros; eapply (@ab_rm_eltorito_exact_run); eassumption]. Qed.

Theorem C11_load_rba_before_the_empty_boot_file_fix_refuted :
  (exists ops i j, let s := brun_gen false binit ops in
     bwreck s = false /\ (exists b, bboot s = Some b /\ In i (binos b)) /\ i <> j /\
     len_of j (linodes (bl s)) <> 0 /\ ino_extent s i = ino_extent s j /\ ino_extent s i <> None) /\
  (exists ops, let s := brun_gen false binit ops in
     bwreck s = false /\ entry_rbas s = [lspace (bl s)]).
Proof. first [exact (@ab_load_rba_own_extent_refuted_old) | apply (@ab_load_rba_own_extent_refuted_old) | intros; eapply (@ab_load_rba_own_extent_refuted_old); eassumption]. Qed.

Theorem C11_refused_add_eltorito_before_the_fix_refuted :
  exists ops o, let s := brun_gen false binit ops in
    snd (bstep_gen false s o) = Late /\ bwreck (fst (bstep_gen false s o)) = false /\
    bbits s = [] /\ bbits (fst (bstep_gen false s o)) = [1%nat] /\
    erefs 1 (bboot (fst (bstep_gen false s o))) = 0 /\
    (* the current code on the same input: refused, nothing changed *)
    bstep (brun binit ops) o = (brun binit ops, Ref).
Proof. first [exact (@ab_refused_unchanged_refuted_old) | apply (@ab_refused_unchanged_refuted_old) | intros; eapply (@ab_refused_unchanged_refuted_old); eassumption]. Qed.

Theorem C11_first_call_late_refusal_wrecks :
  exists ops o, let s := brun binit ops in
    bwreck s = false /\ snd (bstep s o) = Late /\ bwreck (fst (bstep s o)) = true.
Proof. first [exact (@ab_late_refusal_wrecks) | apply (@ab_late_refusal_wrecks) | intros; eapply (@ab_late_refusal_wrecks); eassumption]. Qed.

Example C11_boot_history_nonvacuous :
  BInv (brun binit ab_ex_ops) /\ check_case (combine ab_ex_ops (brun_obs ab_ex_ops)) = true.
Proof. first [exact (@ab_ex_history_inv) | apply (@ab_ex_history_inv) | intros; eapply (@ab_ex_history_inv); eassumption]. Qed.

Theorem C11_boot_files_nonempty_after_every_history ops : BFix (brun binit ops).
Proof. first [exact (@ab_run_fix) | apply (@ab_run_fix) | intros; eapply (@ab_run_fix); eassumption]. Qed.

End AccountBootStatements.

(* ---- opening a bootable image: Model/BootParse.v (what open reconstructs of El Torito -- boot record, catalog bytes, entries, boot files with and without names via _link_eltorito / _hidden_boot_file_length -- composed with the edit-history model AccountBoot).  For EVERY history: open(write(s)) is the explicit state [reopened s]; it differs from s only as reopened_equiv says (a boot file without name keeps its extent and ALL its bytes, plus zero padding to the block end); every state reachable by ANY number of edit / write / open rounds satisfies AccountBoot's invariants again (space exact, entries point at live boot files of their own); rm_eltorito after reopen releases everything.  The code before the two repairs this model exposed (063269b, 9223b0e) is refuted. *)
From PV.Base Require Prim.
From PV.Gen Require GenConst GenFun.
From PV.Model Require Names Pack Alloc Codec Eltorito Account AccountLinks AccountBoot BootParse.
From PV.Proofs Require PackProofs AllocProofs AccountLemmas AccountProofs AccountLinksLemmas AccountLinksPurge AccountLinksInv AccountBootLemmas AccountBootInv AccountBootInv2 AccountBootFix AccountBootProofs BootParseLayout BootParseCat BootParseWalk BootParseLink BootParseTable BootParseProofs BootParseReopen BootParseRoom BootParseExact BootParseInv BootParseInv2 BootParseReopen2 BootParseMain BootParseRefuted.
Section BootParseStatements.
Import PV.Base.Prim PV.Gen.GenConst PV.Gen.GenFun PV.Model.Names PV.Model.Pack PV.Model.Alloc PV.Model.Codec PV.Model.Eltorito PV.Model.Account PV.Model.AccountLinks PV.Model.AccountBoot PV.Model.BootParse PV.Proofs.PackProofs PV.Proofs.AllocProofs PV.Proofs.AccountLemmas PV.Proofs.AccountProofs PV.Proofs.AccountLinksLemmas PV.Proofs.AccountLinksPurge PV.Proofs.AccountLinksInv PV.Proofs.AccountBootLemmas PV.Proofs.AccountBootInv PV.Proofs.AccountBootInv2 PV.Proofs.AccountBootFix PV.Proofs.AccountBootProofs PV.Proofs.BootParseLayout PV.Proofs.BootParseCat PV.Proofs.BootParseWalk PV.Proofs.BootParseLink PV.Proofs.BootParseTable PV.Proofs.BootParseProofs PV.Proofs.BootParseReopen PV.Proofs.BootParseRoom PV.Proofs.BootParseExact PV.Proofs.BootParseInv PV.Proofs.BootParseInv2 PV.Proofs.BootParseReopen2 PV.Proofs.BootParseMain PV.Proofs.BootParseRefuted.
Local Open Scope Z_scope.
Theorem C11_open_reconstructs_the_boot_state ops :
  let s := brun binit ops in
  lspace (bl s) <= 4294967295 -> boot_parse (boot_view s) = POk (reopened s).
Proof. first [exact (@boot_parse_view) | apply (@boot_parse_view) | intros; eapply (@boot_parse_view); eassumption]. Qed.

Theorem C11_reopened_state_differs_only_by_padding ops :
  let s := brun binit ops in
  let r := reopened s in
  let tbl := linodes (bl s) in
  (* the hierarchy: only the records of EMPTY files change their inode (each gets one of its own) *)
  lroot (bl r) = lmap_ino (bp_relabel (lnext (bl s)) tbl) (lroot (bl s)) /\
  (* the PVD numbers *)
  lspace (bl r) = lspace (bl s) /\ lptr_size (bl r) = lptr_size (bl s) /\ lptr_ext (bl r) = lptr_ext (bl s) /\
  (* the catalog: same contents, same inodes behind the entries; its names are the records that point at it,
     in the order of the walk, or the FAKEELT record *)
  (forall b, bboot s = Some b ->
     exists names, bboot r = Some {| cat_recs := names; bcat := bcat b; binos := binos b |} /\
       names = match noino_labels tbl (lvisit (bl s)) with [] => [bp_fake (lnext (bl s))] | ns => ns end) /\
  (bboot s = None -> bboot r = None) /\
  (* every non-empty file that has a name keeps its inode and its length, and its data is where it was written *)
  (forall i, bp_placed s i -> 0 < lrefcount i (lroot (bl s)) ->
     len_of i (linodes (bl r)) = len_of i tbl /\ In (i, (rba_of s i, len_of i tbl)) (reopened_src s)) /\
  (* a boot file WITHOUT name: same inode, same extent; with a boot info table (and at least 64 bytes) its exact
     length, else all the blocks it was written with: the original bytes and the zero padding of the last block *)
  (forall b i, bboot s = Some b -> In i (binos b) -> lrefcount i (lroot (bl s)) = 0 ->
     let len' := len_of i (linodes (bl r)) in
     len' = (if mem i (bbits s) && (64 <=? len_of i tbl) then len_of i tbl else blk_of s i * C) /\
     len_of i tbl <= len' <= blk_of s i * C /\ In (i, (rba_of s i, len')) (reopened_src s)).
Proof. first [exact (@reopened_equiv) | apply (@reopened_equiv) | intros; eapply (@reopened_equiv); eassumption]. Qed.

Theorem C11_invariants_after_any_edit_write_open_rounds s : bp_reach s -> BInv s /\ BFix s /\ PInv s.
Proof. first [exact (@bp_reach_inv) | apply (@bp_reach_inv) | intros; eapply (@bp_reach_inv); eassumption]. Qed.

Theorem C11_space_exact_after_any_edit_write_open_rounds s : bp_reach s -> lspace (bl s) = blayout_end s.
Proof. first [exact (@boot_reopen_space_exact) | apply (@boot_reopen_space_exact) | intros; eapply (@boot_reopen_space_exact); eassumption]. Qed.

Theorem C11_catalog_points_at_files_after_reopen s b : bp_reach s -> bboot s = Some b ->
  In (17, 1) (blayout s) /\ In (cat_extent s, 1) (blayout s) /\
  length (entry_rbas s) = S (length (c_sections (bcat b))) /\
  (forall k i, nth_error (binos b) k = Some i ->
     In i (ids (linodes (bl s))) /\ len_of i (linodes (bl s)) <> 0 /\
     exists e, ino_extent s i = Some e /\ nth_error (entry_rbas s) k = Some e /\
               In (e, blk_of s i) (blayout s) /\ cat_extent s < e /\ e + blk_of s i <= lspace (bl s)).
Proof. first [exact (@boot_reopen_catalog_points_at_files) | apply (@boot_reopen_catalog_points_at_files) | intros; eapply (@boot_reopen_catalog_points_at_files); eassumption]. Qed.

Theorem C11_rm_eltorito_after_reopen s : bp_reach s -> bwreck s = false ->
  let r := reopened s in
  let r1 := fst (bstep r BRmEltorito) in
  (* accepted exactly when it is accepted on the never-closed object *)
  snd (bstep r BRmEltorito) = snd (bstep s BRmEltorito) /\
  (bboot s <> None ->
     (* boot record and catalog are gone, no boot info table is left *)
     bboot r1 = None /\ bbits r1 = [] /\
     (* the names of the catalog are gone: every record that is left has an inode *)
     (forall nm i st, In (LFile nm i st) (lvisit (bl r1)) -> In i (ids (linodes (bl r1)))) /\
     (* every boot file without name is released: an inode that stays has a name *)
     (forall i, In i (ids (linodes (bl r1))) -> 0 < lrefcount i (lroot (bl r1))) /\
     (* and the volume size is exact, now and after every further edit *)
     lspace (bl r1) = blayout_end r1 /\ bp_reach r1).
Proof. first [exact (@boot_reopen_rm_eltorito) | apply (@boot_reopen_rm_eltorito) | intros; eapply (@boot_reopen_rm_eltorito); eassumption]. Qed.

Theorem C11_reopen_hidden_boot_files_overlap_refuted_old :
  let s := brun binit bp_overlap_ops in
  entry_rbas s = [26; 27] /\
  reopened_src_gen Old s = [(2%nat, (29, 100)); (0%nat, (26, 4096)); (1%nat, (27, 4096))] /\
  ~ disjoint (26, ceiling_div 4096 C) (27, ceiling_div 4096 C) /\
  lspace (bl (reopened_gen Old s)) = 30 /\ blayout_end (reopened_gen Old s) = 31 /\
  bp_wrecked (reopened_gen Old s) = true /\
  (* the current code: no overlap, exact *)
  reopened_src s = [(2%nat, (29, 100)); (0%nat, (26, 2048)); (1%nat, (27, 4096))] /\
  lspace (bl (reopened s)) = 30 /\ blayout_end (reopened s) = 30.
Proof. first [exact (@boot_reopen_hidden_overlap_refuted_old) | apply (@boot_reopen_hidden_overlap_refuted_old) | intros; eapply (@boot_reopen_hidden_overlap_refuted_old); eassumption]. Qed.

Theorem C11_reopen_hidden_boot_file_tail_lost_refuted_old :
  let s := brun binit bp_shrink_ops in
  len_of 0%nat (linodes (bl s)) = 70000 /\ len_of 0%nat (linodes (bl (reopened_gen Mid s))) = 2048 /\
  lspace (bl (reopened_gen Mid s)) = 62 /\ blayout_end (reopened_gen Mid s) = 28 /\
  (let r' := fst (bstep (reopened_gen Mid s) (BAddFile [] bp_nB 1)) in lspace (bl r') = 63 /\ blayout_end r' = 29) /\
  (* the current code: every block (the bytes and the padding of the last block) comes back *)
  len_of 0%nat (linodes (bl (reopened s))) = 35 * 2048 /\
  lspace (bl (reopened s)) = 62 /\ blayout_end (reopened s) = 62.
Proof. first [exact (@boot_reopen_hidden_tail_lost_refuted_old) | apply (@boot_reopen_hidden_tail_lost_refuted_old) | intros; eapply (@boot_reopen_hidden_tail_lost_refuted_old); eassumption]. Qed.

End BootParseStatements.
