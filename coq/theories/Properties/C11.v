(* C11 -- El Torito boot structures.  Proved (closed) about the TRANSLATED
   EltoritoValidationEntry._checksum: for EVERY 32-byte entry the computed value makes the sixteen
   little-endian words sum to zero modulo 2^16 (the sign-extension branch of the code is irrelevant
   modulo 2^16 and is reached), and storing it yields an entry that verifies.  Removal of El Torito
   in the specification removes exactly the catalog names and boot references (from LinksProofs).
   Model/Eltorito.v is a byte-level hand model of eltorito.py (validation entry, initial/section
   entries, section headers, EltoritoBootCatalog.record / parse state machine / add_section, the
   reader loop of _check_and_parse_eltorito, the boot info table and its checksum), tied to /repo by
   etleaf.py on every run.  For EVERY catalog that new + add_section can build (any number of
   sections up to 31, bootable or not) the bytes of the catalog extent, followed by ANYTHING, parse
   back to the same catalog; every entry `new` accepts can be recorded; the boot info checksum is
   the 32-bit sum of the file's own words from offset 64.  The first faithful model REFUTED four of
   these statements (non-bootable section entry taken for the terminator, 31-section catalog
   unterminated, sector count > 65535 accepted, checksum over-reading the file object); each witness
   was reproduced on pycdlib and repaired (fixes acaa253, 351102c, 262580a, ec27ab7), and the model
   follows the repaired code.  Pointers, media/platform/load size and read-back are decided on
   generated bootable images by the independent reader and the API. *)
From Coq Require Import ZArith List Bool.
From PV.Base Require Import Prim.
From PV.Gen Require Import GenFun.
From PV.Model Require Import Checksums.
From PV.Proofs Require Import ChecksumsArithProofs FsSpecProofs LinksProofs.
From PV.Spec Require Import FsSpec.
From PV.Model Require Eltorito.
From PV.Proofs Require EltoritoProofs EltoritoCatalogProofs EltoritoBuiltProofs EltoritoBitProofs.
Import ListNotations.
Local Open Scope Z_scope.

Theorem C11_validation_checksum_zero_sum : forall data, bytes data -> length data = 32%nat ->
  (et_word_sum data + et_checksum data) mod 65536 = 0.
Proof. exact et_checksum_zero_sum. Qed.

Theorem C11_validation_entry_verifies : forall data,
  bytes data -> length data = 32%nat -> znth 28 data = 0 -> znth 29 data = 0 ->
  let c := et_checksum data in
  let data' := set_nth 29 (c / 256) (set_nth 28 (c mod 256) data) in
  0 <= c < 65536 /\ bytes data' /\ length data' = 32%nat /\ et_word_sum data' mod 65536 = 0 /\ et_checksum data' = 0.
Proof. exact et_checksum_roundtrip. Qed.

Theorem C11_rm_eltorito_removes_all_of_it_and_nothing_else : forall s s',
  step s RmEltorito = (s', Ok) ->
  f_boot s' = None /\
  (forall bt x, f_boot s = Some bt -> x <> catalog_blob -> ~ In x (b_blobs bt) -> refs s' x = refs s x) /\
  refs s' catalog_blob = 0%nat.
Proof.
  intros s s' S.
  assert (F : exists bt, f_boot s = Some bt).
  { cbn [step] in S. destruct (f_boot s) as [bt|]; [exists bt; reflexivity|discriminate]. }
  destruct F as [bt F]. split.
  - cbn [step] in S. rewrite F in S. inversion S. reflexivity.
  - split.
    + intros bt' x F' X N. exact (refs_rm_eltorito_unrelated s s' bt' x S F' X N).
    + destruct (refs_rm_eltorito s s' bt S F) as (A & _). exact A.
Qed.

(* ---- Model/Eltorito.v --------------------------------------------------------------------------- *)
Theorem C11_catalog_extent_roundtrip : forall c ab beyond, EltoritoBuiltProofs.built c ab ->
  Eltorito.parse_catalog_extent (Eltorito.cat_extent_bytes c ++ beyond) = Some c.
Proof. exact EltoritoBuiltProofs.built_extent_roundtrip. Qed.

Theorem C11_full_catalog_roundtrip : forall c ab beyond, EltoritoBuiltProofs.built c ab -> zlen (Eltorito.c_sections c) = 31 ->
  length (Eltorito.cat_bytes c) = 2048%nat /\ Eltorito.cat_extent_bytes c = Eltorito.cat_bytes c /\
  Eltorito.parse_catalog_extent (Eltorito.cat_bytes c ++ beyond) = Some c /\
  (forall sc ls m st efi b, Eltorito.cat_add_section c sc ls m st efi b = None).
Proof. exact EltoritoBuiltProofs.full_catalog_roundtrip. Qed.

Theorem C11_every_accepted_entry_can_be_recorded : forall sc ls m st b e, Eltorito.entry_new sc ls m st b = Some e ->
  Eltorito.entry_record e <> None /\ Eltorito.entry_record e = Some (Eltorito.entry_bytes e) /\
  Eltorito.entry_parse (Eltorito.entry_bytes e) = Some e.
Proof. exact EltoritoProofs.entry_new_record_total. Qed.

Theorem C11_boot_info_checksum_is_over_the_files_own_bytes : forall fp data_len,
  Eltorito.bit_csum fp data_len =
  Some (Eltorito.zsum32 (skipn 64 (firstn (Z.to_nat data_len) fp)) mod 4294967296).
Proof. exact EltoritoBitProofs.bit_csum_exact_prefix. Qed.

Theorem C11_validation_entry_of_new_verifies : forall pid, Eltorito.platform_ok pid = true ->
  exists v, Eltorito.val_new pid = Some v /\ Eltorito.val_ok v = true /\ Eltorito.v_platform_id v = pid /\
            et_word_sum (Eltorito.val_bytes v) mod 65536 = 0 /\ Eltorito.val_parse (Eltorito.val_bytes v) = Some v.
Proof. exact EltoritoProofs.val_new_ok. Qed.
