(* C11 -- El Torito boot structures.  Proved (closed) about the TRANSLATED
   EltoritoValidationEntry._checksum: for EVERY 32-byte entry the computed value makes the sixteen
   little-endian words sum to zero modulo 2^16 (the sign-extension branch of the code is irrelevant
   modulo 2^16 and is reached), and storing it yields an entry that verifies.  Removal of El Torito
   in the specification removes exactly the catalog names and boot references (from LinksProofs).
   Pointers, media/platform/load size, boot-info-table contents and read-back are decided on
   generated bootable images by the independent reader and the API. *)
From Coq Require Import ZArith List Bool.
From PV.Base Require Import Prim.
From PV.Gen Require Import GenFun.
From PV.Model Require Import Checksums.
From PV.Proofs Require Import ChecksumsArithProofs FsSpecProofs LinksProofs.
From PV.Spec Require Import FsSpec.
Import ListNotations.
Local Open Scope Z_scope.

Theorem C11_validation_checksum_zero_sum : forall data, bytes data -> length data = 32%nat ->
  (et_word_sum data + et_checksum data) mod 65536 = 0.
Proof. exact et_checksum_zero_sum. Qed.

Theorem C11_validation_entry_verifies : forall data,
  bytes data -> length data = 32%nat -> znth 28 data = 0 -> znth 29 data = 0 ->
  let c := et_checksum data in
  let data' := set_nth 29 (c / 256) (set_nth 28 (c mod 256) data) in
  0 <= c < 65536 /\ bytes data' /\ length data' = 32%nat /\ et_word_sum data' mod 65536 = 0 /\ et_checksum data' = 0.
Proof. exact et_checksum_roundtrip. Qed.

Theorem C11_rm_eltorito_removes_all_of_it_and_nothing_else : forall s s',
  step s RmEltorito = (s', Ok) ->
  f_boot s' = None /\
  (forall bt x, f_boot s = Some bt -> x <> catalog_blob -> ~ In x (b_blobs bt) -> refs s' x = refs s x) /\
  refs s' catalog_blob = 0%nat.
Proof.
  intros s s' S.
  assert (F : exists bt, f_boot s = Some bt).
  { cbn [step] in S. destruct (f_boot s) as [bt|]; [exists bt; reflexivity|discriminate]. }
  destruct F as [bt F]. split.
  - cbn [step] in S. rewrite F in S. inversion S. reflexivity.
  - split.
    + intros bt' x F' X N. exact (refs_rm_eltorito_unrelated s s' bt' x S F' X N).
    + destruct (refs_rm_eltorito s s' bt S F) as (A & _). exact A.
Qed.
