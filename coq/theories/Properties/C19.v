(* C19 -- Recorded timestamps denote the instant they were made from.
   Only statements; proofs live in Proofs/DatesProofs.v.
   Quantifier: every instant t in 1970-01-01 .. 2099-12-31 (0 <= t < t_max) and every zone offset
   900*q seconds with -48 <= q <= 56 (-12h .. +14h in 15-minute steps) in force at t.  Daylight
   saving and year/leap-day boundaries are covered because the statements are pointwise in (t, q). *)
From Coq Require Import ZArith List.
From PV.Base Require Import Prim.
From PV.Gen Require Import GenFun.
From PV.Model Require Import Dates.
From PV.Proofs Require Import DatesProofs.
Import ListNotations.
Local Open Scope Z_scope.

(* the TRANSLATED utils.gmtoffset_from_tm computes the zone offset in 15-minute units *)
Theorem C19_offset : forall t q,
  0 <= t < t_max -> -48 <= q <= 56 -> gmtoffset (900 * q) t = q.
Proof. exact gmtoffset_correct. Qed.

(* 7-byte directory-record date (also the payload of Rock Ridge TF entries): decoding the local
   fields with the recorded offset gives back t; the fields fit their bytes (no struct.error);
   parse after record is the identity and re-recording reproduces the bytes *)
Theorem C19_decode_dr : forall t q,
  0 <= t < t_max -> -48 <= q <= 56 ->
  dr_date_decode (dr_date_new (900 * q) t) = t /\
  exists b, dr_date_record (dr_date_new (900 * q) t) = Some b /\
            dr_date_parse b = dr_date_new (900 * q) t /\
            dr_date_record (dr_date_parse b) = Some b.
Proof. exact dr_date_decodes. Qed.

(* 17-byte volume-descriptor date.  new(0.0) is the documented way to ask for "date not
   specified" (all zeros), so the epoch second itself is outside this statement. *)
Theorem C19_decode_vd : forall t q,
  0 < t < t_max -> -48 <= q <= 56 ->
  exists b, vd_date_new (900 * q) t = Some b /\ length b = 17%nat /\ vd_date_decode b = t.
Proof. exact vd_date_decodes. Qed.

Theorem C19_vd_zero_is_unspecified : forall off, vd_date_new off 0 = Some vd_empty.
Proof. exact vd_date_zero. Qed.

(* UDF timestamp (offset field in minutes, 12-bit two's complement), for the repaired new() *)
Theorem C19_decode_udf : forall t q,
  0 <= t < t_max -> -48 <= q <= 56 ->
  let u := udf_ts_new 15 (900 * q) t in
  udf_ts_decode u = t /\ udf_ts_parse (udf_ts_record u) = u /\
  udf_ts_record (udf_ts_parse (udf_ts_record u)) = udf_ts_record u /\
  Forall (fun b => 0 <= b <= 255) (udf_ts_record u).
Proof. exact udf_ts_decodes. Qed.

(* the pinned original UDFTimestamp.new (15-minute count stored in the minutes field) violates it *)
Theorem C19_udf_original_refuted :
  exists t q, 0 <= t < t_max /\ -48 <= q <= 56 /\ udf_ts_decode (udf_ts_new 1 (900 * q) t) <> t.
Proof. exact udf_original_refuted. Qed.

Theorem C19_nonvacuous :
  dr_date_new (900 * 22) 1000000000 = [101; 9; 9; 7; 16; 40; 22] /\
  gmtoffset (900 * (-32)) 1704067199 = -32.
Proof. exact dates_nonvacuous. Qed.
