(* C01 -- Mastering fidelity.  The specification of "what the edits imply" is Spec/FsSpec.v; the
   claim that a written-and-reopened pycdlib image shows exactly FsSpec's view is established by
   the differential run of harness/props/c01.py on every check (correspondence), not by a theorem.
   The theorems below are about the specification itself: it is a sound notion of file system
   (names unique per directory and namespace, every entry's parent is an existing directory --
   "nothing else appears, nothing is missing" is then a statement about finite maps), refused
   edits change nothing, and add_fp binds exactly the names given. *)
From Coq Require Import ZArith List.
From PV.Spec Require Import FsSpec.
From PV.Proofs Require Import FsSpecProofs.
Import ListNotations.
Local Open Scope Z_scope.

Theorem C01_spec_invariant : forall ops, wf_fs (fst (run empty_fs ops)).
Proof. intros ops. apply run_preserves_wf. exact wf_empty. Qed.

Theorem C01_refused_changes_nothing : forall s o s', step s o = (s', Refused) -> s' = s.
Proof. exact refused_unchanged. Qed.

Theorem C01_add_fp_exact : forall s blob iso jol udf s',
  wf_fs s -> step s (AddFp blob iso jol udf) = (s', Ok) ->
  (forall p rr, iso = Some (p, rr) -> lookup (f_iso s') p = Some (mk p (KFile blob) rr)) /\
  (forall p, jol = Some p -> lookup (f_jol s') p = Some (mk p (KFile blob) 0)) /\
  (forall p, udf = Some p -> lookup (f_udf s') p = Some (mk p (KFile blob) 0)) /\
  (forall q, (forall rr, iso <> Some (q, rr)) -> lookup (f_iso s') q = lookup (f_iso s) q) /\
  (forall q, jol <> Some q -> lookup (f_jol s') q = lookup (f_jol s) q) /\
  (forall q, udf <> Some q -> lookup (f_udf s') q = lookup (f_udf s) q) /\
  f_boot s' = f_boot s.
Proof. exact add_fp_exact. Qed.

Theorem C01_nonvacuous :
  snd (run empty_fs [AddDir (Some ([1], 0)) None (Some [2]); AddFp 7 (Some ([1; 3], 0)) None (Some [2; 4]);
                     AddFp 8 (Some ([1; 3], 0)) None None; RmFile NsUdf [2; 4]]) = [Ok; Ok; Refused; Ok] /\
  f_iso (fst (run empty_fs [AddDir (Some ([1], 0)) None (Some [2]); AddFp 7 (Some ([1; 3], 0)) None (Some [2; 4]);
                            RmFile NsUdf [2; 4]])) = [mk [1] KDir 0].
Proof. split; vm_compute; reflexivity. Qed.
