(* C01 -- Mastering fidelity.  The specification of "what the edits imply" is Spec/FsSpec.v; the
   claim that a written-and-reopened pycdlib image shows exactly FsSpec's view is established by
   the differential run of harness/props/c01.py on every check (correspondence), not by a theorem.
   The theorems below are about the specification itself: it is a sound notion of file system
   (names unique per directory and namespace, every entry's parent is an existing directory --
   "nothing else appears, nothing is missing" is then a statement about finite maps), refused
   edits change nothing, and add_fp binds exactly the names given. *)
From Coq Require Import ZArith List.
From PV.Spec Require Import FsSpec.
From PV.Proofs Require Import FsSpecProofs.
From PV.Spec Require FsCases.
From PV.Model Require AccountNs.
From PV.Proofs Require AccountLinksLemmas AccountNsLemmas AccountNsInv AccountNsProofs AccountNsRefineLemmas AccountNsRefineTree AccountNsRefine AccountNsRefineRun.
Import ListNotations.
Local Open Scope Z_scope.

Theorem C01_spec_invariant : forall ops, wf_fs (fst (run empty_fs ops)).
Proof. intros ops. apply run_preserves_wf. exact wf_empty. Qed.

Theorem C01_refused_changes_nothing : forall s o s', step s o = (s', Refused) -> s' = s.
Proof. exact refused_unchanged. Qed.

Theorem C01_add_fp_exact : forall s blob iso jol udf s',
  wf_fs s -> step s (AddFp blob iso jol udf) = (s', Ok) ->
  (forall p rr, iso = Some (p, rr) -> lookup (f_iso s') p = Some (mk p (KFile blob) rr)) /\
  (forall p, jol = Some p -> lookup (f_jol s') p = Some (mk p (KFile blob) 0)) /\
  (forall p, udf = Some p -> lookup (f_udf s') p = Some (mk p (KFile blob) 0)) /\
  (forall q, (forall rr, iso <> Some (q, rr)) -> lookup (f_iso s') q = lookup (f_iso s) q) /\
  (forall q, jol <> Some q -> lookup (f_jol s') q = lookup (f_jol s) q) /\
  (forall q, udf <> Some q -> lookup (f_udf s') q = lookup (f_udf s) q) /\
  f_boot s' = f_boot s.
Proof. exact add_fp_exact. Qed.

Theorem C01_nonvacuous :
  snd (run empty_fs [AddDir (Some ([1], 0)) None (Some [2]); AddFp 7 (Some ([1; 3], 0)) None (Some [2; 4]);
                     AddFp 8 (Some ([1; 3], 0)) None None; RmFile NsUdf [2; 4]]) = [Ok; Ok; Refused; Ok] /\
  f_iso (fst (run empty_fs [AddDir (Some ([1], 0)) None (Some [2]); AddFp 7 (Some ([1; 3], 0)) None (Some [2; 4]);
                            RmFile NsUdf [2; 4]])) = [mk [1] KDir 0].
Proof. split; vm_compute; reflexivity. Qed.

(* ---- for the ISO9660 + Joliet fragment the object graph REFINES the specification: Model/AccountNs.v --------------
   A state machine of pycdlib's object graph for images with the ISO9660 (level 3, no Rock Ridge) and Joliet namespaces:
   two directory trees sharing inodes, both volume sizes and path-table trackers, and the six edits add_fp /
   add_directory / add_hard_link / rm_hard_link / rm_file / rm_directory within and across the namespaces, with the
   library's early refusals (nothing changes) and its LATE refusals (the ISO9660 half of a two-namespace call stays
   behind: the C14 known findings, modelled as the code behaves).  Tied to /repo by accountnsleaf.py: outcome, counters,
   layout end and the API VIEW of both hierarchies after EVERY operation of random histories.
   Proved: a simulation between this machine and Spec/FsSpec.v (abs : object graph -> specification state, tr : edit ->
   specification edit): for every history without a late refusal the API view of the object graph IS the view of the
   specification (up to the order of entries), accepted/refused agree edit by edit, and the declared sizes equal the end
   of the layout.  So for this fragment "the image shows exactly what the sequence of edits implies" is a theorem about
   a model that is compared with the library after every edit -- not a sample of final views. *)
Section AccountNsStatements.
Import Bool Permutation Prim Account AccountLinks AccountLinksLemmas AccountNs AccountNsLemmas AccountNsInv AccountNsProofs
       AccountNsRefineLemmas AccountNsRefineTree AccountNsRefine AccountNsRefineRun.

Theorem C01_object_graph_refines_the_specification : forall ops,
  forallb bytes_op ops = true -> clean ops = true ->
  let a := fst (F.run F.empty_fs (tr_ops ops)) in
  Permutation (F.f_iso (abs (nrun ops))) (F.f_iso a) /\
  Permutation (F.f_jol (abs (nrun ops))) (F.f_jol a) /\
  F.f_udf (abs (nrun ops)) = F.f_udf a /\ F.f_boot (abs (nrun ops)) = F.f_boot a /\
  map nok (nouts ops) = map sok (snd (F.run F.empty_fs (tr_ops ops))).
Proof. exact AccountNsRefineRun.C01_view_refines_spec. Qed.

Theorem C01_api_view_is_the_specification_view : forall ops tbl udft,
  forallb bytes_op ops = true -> clean ops = true ->
  Permutation (FsCases.view_of tbl udft (abs (nrun ops)))
              (FsCases.view_of tbl udft (fst (F.run F.empty_fs (tr_ops ops)))).
Proof. exact AccountNsRefineRun.C01_view_eq. Qed.

Theorem C01_simulation_step : forall j k c a o,
  NInv j c -> Rel c a -> bytes_op o = true ->
  let r := nstep k c o in
  let r' := F.step a (tr k o) in
  (snd r = NOk <-> snd r' = F.Ok) /\ (snd r = NOk -> Rel (fst r) (fst r')).
Proof. exact AccountNsRefineRun.sim_step. Qed.

Theorem C01_late_refusal_is_spec_refusal_with_leftover : forall j k c a o c',
  NInv j c -> Rel c a -> bytes_op o = true ->
  nstep k c o = (c', NLate) -> F.step a (tr k o) = (a, F.Refused) /\ niso c' <> niso c.
Proof. exact AccountNsRefineRun.C01_late_is_spec_refusal_with_leftover. Qed.

Theorem C01_declared_sizes_exact_two_namespaces : forall ops,
  clean ops = true ->
  ispace (nrun ops) = nlayout_end (nrun ops) /\ jspace (nrun ops) = nlayout_end (nrun ops).
Proof. exact AccountNsProofs.C01_space_exact_two_namespaces. Qed.

Theorem C01_declared_sizes_after_late_refusal_refuted :
  exists ops, clean ops = false /\ ispace (nrun ops) <> nlayout_end (nrun ops) /\
              nouts ops = [NLate] /\ ispace (nrun ops) = 30 /\ nlayout_end (nrun ops) = 32 /\
              ~ (forall i, In i (ids (ninodes (nrun ops))) <->
                           0 < nrefcount i (niso (nrun ops)) (njol (nrun ops))).
Proof. exact AccountNsProofs.C01_space_exact_two_namespaces_refuted. Qed.

Theorem C01_early_refusal_changes_nothing_two_namespaces : forall k s o s',
  nstep k s o = (s', NRefused) -> s' = s.
Proof. exact AccountNsProofs.nrefused_unchanged. Qed.
End AccountNsStatements.

(* ---- what is mastered is what an independent reader finds: Model/Master.v (plain ISO9660; see Properties/C03.v for the
   companion theorems and harness/props/masterleaf.py for the tie to the images pycdlib writes) *)
From PV.Model Require Master.
From PV.Proofs Require MasterProofs.
Theorem C01_reader_recovers_the_mastered_tree : forall dt t, length dt = 7%nat -> Master.wf_tree t = true ->
  exists img, Master.master dt t = Some img /\
              Master.read (Master.fuel_for t) img (Master.root_extent t) (Master.root_len t) = Some (Master.view t).
Proof. exact MasterProofs.read_master. Qed.
