(* C05 -- Re-mastering is a fixpoint.  Proved for all values (closed): the byte codecs that parse
   and record the core ISO9660 structures are mutually inverse, so parsing neither loses nor
   invents anything mastering depends on, for directory records (header per the generated FMT
   widths, identifier, padding, system use), path table records in both byte orders, both-byte-order
   integers and 7-byte dates.  Model/Codec.v is a hand model of record()/parse() whose field layout
   is TIED TO THE GENERATED struct layouts (dr_layout / dr_header_len) and which is compared byte
   for byte with dr.py / path_table_record.py on every run (harness/props/codecleaf.py).  The
   whole-image fixpoint (all structures incl. Rock Ridge, UDF, El Torito, hybrid) is the property
   evaluated directly on every generated image. *)
From Coq Require Import ZArith List Bool.
From PV.Model Require Import Codec.
From PV.Proofs Require Import CodecProofs.
From PV.Model Require VolDesc.
From PV.Proofs Require VolDescProofs VolDescPairProofs SpaceGenProofs.
From PV.Gen Require GenObj.
Import ListNotations.
Local Open Scope Z_scope.

Theorem C05_both32_roundtrip : forall v, u32 v ->
  dle32 (firstn 4 (both32 v)) = v /\ dbe32 (skipn 4 (both32 v)) = v.
Proof. exact both32_copies_agree. Qed.

Theorem C05_dr_roundtrip : forall r, wf_drec r -> forall b rest, enc_dr r = Some b ->
  dec_dr (b ++ rest) = Some (pad_sysuse r, rest).
Proof. exact dr_roundtrip. Qed.

(* the direction "open then write reproduces the image": what parse returns records to the same bytes *)
Theorem C05_dr_record_parse_record : forall r0 b r, wf_drec r0 -> enc_dr r0 = Some b ->
  dec_dr b = Some (r, []) -> enc_dr r = Some b.
Proof. exact dr_record_parse_record. Qed.

(* ... and only for bytes the library itself produced: for arbitrary bytes it is false *)
Definition C05_dr_parse_record_general_refuted := dr_parse_record_general_refuted.

Theorem C05_dr_fits : forall r, (exists b, enc_dr r = Some b) <-> (dr_len_of r <= 255 /\ fields_ok r).
Proof. exact dr_fits. Qed.

Theorem C05_ptr_roundtrip : forall r bl bb, enc_ptr_le r = Some bl -> enc_ptr_be r = Some bb ->
  dec_ptr_le bl = Some (r, []) /\ dec_ptr_be bb = Some (r, []).
Proof. exact ptr_le_be_same_content. Qed.

Theorem C05_date7_roundtrip : forall ys m d h mi s off,
  byte ys -> byte m -> byte d -> byte h -> byte mi -> byte s -> -128 <= off <= 127 ->
  exists b, enc_date7 ys m d h mi s off = Some b /\ length b = 7%nat /\ bytes b /\
            dec_date7 b = Some (ys, m, d, h, mi, s, off).
Proof. exact date7_roundtrip. Qed.

(* the model's layout is the generated struct layout *)
Definition C05_layout_is_generated := dr_header_len.

(* ---- volume descriptors: Model/VolDesc.v (hand model of headervd.py record()/parse(); tied by vdleaf.py on the
   descriptor sectors of every generated image) ------------------------------------------------------------------ *)
Section VolDescStatements.
Import Codec CodecProofs VolDesc VolDescProofs VolDescPairProofs.
Local Open Scope Z_scope.

Theorem C05_vd_is_one_sector : forall now v b, record_vd now v = Some b -> length b = 2048%nat.
Proof. exact VolDescProofs.record_vd_length. Qed.

(* PVD, Joliet SVD (three levels) and the version-2 enhanced VD: parse . record is the identity except for the
   modification date, which record() stamps with the current time -- exactly the field the property masks *)
Theorem C05_vd_roundtrip : forall now v, vd_ok v = true -> vddate_ok now = true ->
  exists b, record_vd now v = Some b /\ length b = 2048%nat /\
            parse_vd (vd_type v) b = Some (vd_set_mdate now v).
Proof. exact VolDescProofs.vd_roundtrip. Qed.

(* both-endian discipline: altering either half of any both-endian pair of a recorded descriptor makes parse refuse it *)
Theorem C05_vd_parse_rejects_altered_half : forall now v b ty i x,
  record_vd now v = Some b -> In i pair_halves -> bytes x -> length x = pair_width i ->
  x <> firstn (pair_width i) (skipn (pair_offset i) b) ->
  parse_vd ty (splice (pair_offset i) x b) = None.
Proof. exact VolDescPairProofs.parse_rejects_altered_half. Qed.

Theorem C05_vdst_roundtrip : length record_vdst = 2048%nat /\ parse_vdst record_vdst = Some tt.
Proof. exact VolDescProofs.vdst_roundtrip. Qed.

Theorem C05_boot_record_roundtrip : forall b, br_ok b = true -> parse_br (record_br b) = Some b.
Proof. exact VolDescProofs.br_roundtrip. Qed.

(* the space counters: one add and one remove of the same amount cancel, but the per-call rounding is not additive --
   the mechanism behind several accounting defects that were repaired (rm_eltorito, path tables) *)
Theorem C05_space_add_remove_same : forall s l n, remove_from_space_size (add_to_space_size s l n) l n = s.
Proof. exact VolDescPairProofs.add_remove_same. Qed.

Theorem C05_space_accounting_not_additive_refuted :
  exists s l a b, 0 < l /\ 0 <= a /\ 0 <= b /\
    remove_from_space_size (add_to_space_size (add_to_space_size s l a) l b) l (a + b) <> s.
Proof. exact VolDescPairProofs.space_accounting_not_additive_refuted. Qed.

(* the counters of the model ARE the translated source (regenerated on every run) *)
Theorem C05_space_counters_are_the_source : forall s l n,
  GenObj.vd_add_to_space_size s l n = add_to_space_size s l n /\
  GenObj.vd_remove_from_space_size s l n = remove_from_space_size s l n.
Proof. intros s l n. split; [apply SpaceGenProofs.add_to_space_size_is_the_source | apply SpaceGenProofs.remove_from_space_size_is_the_source]. Qed.
End VolDescStatements.

(* ---- re-mastering is a fixpoint, for EVERY well-formed tree (plain ISO9660 directory area): Model/Parse.v + Model/Master.v.  Mastering the tree of the opened object reproduces the directory area byte for byte with the same layout, and write_fp of the opened, unedited object (no reshuffle) gives the image back: *)
From PV.Base Require Prim ListX.
From PV.Gen Require GenConst GenFun.
From PV.Model Require Codec Pack PathTable Names Master Parse.
From PV.Proofs Require MasterPack MasterImage MasterBfs MasterWf MasterDir MasterChecker MasterProofs ParseScan ParseTrack ParseRecord ParseDir ParseDirAll ParseWalk ParseTree ParseProofs ParseShare ParseShareWalk ParseWrite ParseExamples.
Section ParseStatementsC05.
Import PV.Base.Prim PV.Base.ListX PV.Gen.GenConst PV.Gen.GenFun PV.Model.Codec PV.Model.Pack PV.Model.PathTable PV.Model.Names PV.Model.Master PV.Model.Parse PV.Proofs.MasterPack PV.Proofs.MasterImage PV.Proofs.MasterBfs PV.Proofs.MasterWf PV.Proofs.MasterDir PV.Proofs.MasterChecker PV.Proofs.MasterProofs PV.Proofs.ParseScan PV.Proofs.ParseTrack PV.Proofs.ParseRecord PV.Proofs.ParseDir PV.Proofs.ParseDirAll PV.Proofs.ParseWalk PV.Proofs.ParseTree PV.Proofs.ParseProofs PV.Proofs.ParseShare PV.Proofs.ParseShareWalk PV.Proofs.ParseWrite PV.Proofs.ParseExamples.
Local Open Scope Z_scope.
Theorem C05_remaster_fixpoint_every_tree dt t img F isz g : length dt = 7%nat -> ps_tree_ok t = true ->
  master dt t = Some img -> (tsize (ms_dtree t) < F)%nat -> ms_layout_end t * BS <= isz ->
  parse F img (ps_ptr_exts t) isz (root_extent t) (root_len t) = POk g ->
  tree_of g (root_len t) = t /\
  master dt (tree_of g (root_len t)) = Some img /\
  ms_layout_pairs (tree_of g (root_len t)) = ms_layout_pairs t /\
  root_extent (tree_of g (root_len t)) = root_extent t /\
  ms_layout_end (tree_of g (root_len t)) = ms_layout_end t.
Proof. first [exact (@remaster_fixpoint) | apply (@remaster_fixpoint) | intros; eapply (@remaster_fixpoint); eassumption]. Qed.

Theorem C05_writer_on_the_writers_graph dt t : length dt = 7%nat -> ps_tree_ok t = true ->
  ps_write (graph_of dt t) (root_extent t) (root_len t) = master dt t.
Proof. first [exact (@ps_write_graph_of) | apply (@ps_write_graph_of) | intros; eapply (@ps_write_graph_of); eassumption]. Qed.

Theorem C05_reopen_write_fixpoint_every_tree dt t img F isz g : length dt = 7%nat -> ps_tree_ok t = true ->
  master dt t = Some img -> (tsize (ms_dtree t) < F)%nat -> ms_layout_end t * BS <= isz ->
  parse F img (ps_ptr_exts t) isz (root_extent t) (root_len t) = POk g ->
  ps_write g (root_extent t) (root_len t) = Some img.
Proof. first [exact (@reopen_write_fixpoint) | apply (@reopen_write_fixpoint) | intros; eapply (@reopen_write_fixpoint); eassumption]. Qed.

End ParseStatementsC05.
