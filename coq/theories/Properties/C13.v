(* C13 -- Namespace rules: unique names, legal identifiers, refused otherwise.
   Proved for ALL byte strings (closed) over Model/Names.v, the hand model of
   _check_iso9660_filename / _check_iso9660_directory / _split_iso9660_filename with the d-character
   set TRANSLATED from /repo: an accepted identifier obeys every documented rule of its level; the
   checkers only ever accept or refuse with the invalid-input error (the pinned original let a
   ValueError escape: _refuted witness, repaired by a fix: commit); level-1 names and directory names
   are bounded so that they fit their record; file names at levels 2-4 are NOT bounded by the checker
   (explicit witness; the record-length check happens when the record is built).  Uniqueness of names
   per directory and namespace is an invariant of the specification for every history.
   Tie: the checker model is compared with the real checkers on an exhaustive short-string grid; the
   property itself: every rule-breaking edit of a catalogue (duplicates of every kind in every
   namespace, illegal identifiers, over-long names, depth) must raise PyCdlibInvalidInput at once on
   generated images; identifiers of written images are unique and legal (independent reader). *)
From Coq Require Import ZArith List Bool.
From PV.Model Require Import Names.
From PV.Proofs Require Import NamesProofs NamesCheckProofs FsSpecProofs.
From PV.Spec Require Import FsSpec.
Import ListNotations.
Local Open Scope Z_scope.

Theorem C13_accepted_file_identifier_is_legal : forall s lvl, (lvl = 1 \/ lvl = 2 \/ lvl = 3) ->
  check_iso9660_filename s lvl = Accept -> legal_file lvl s.
Proof. exact accept_file_legal. Qed.

Theorem C13_accepted_dir_identifier_is_legal : forall s lvl, (lvl = 1 \/ lvl = 2 \/ lvl = 3) ->
  check_iso9660_directory s lvl = Accept -> legal_dir lvl s.
Proof. exact accept_dir_legal. Qed.

Theorem C13_checker_refuses_with_invalid_input_only : forall s lvl,
  check_iso9660_filename s lvl <> Fault /\ check_iso9660_directory s lvl <> Fault.
Proof. exact checker_never_faults. Qed.

Theorem C13_original_checker_fault_refuted : exists s lvl, check_iso9660_filename_gen false s lvl = Fault.
Proof. exact original_checker_faults. Qed.

Theorem C13_level1_and_directory_names_fit :
  (forall s, check_iso9660_filename s 1 = Accept -> Z.of_nat (length s) <= 8 + 1 + 3 + 1 + 5) /\
  (forall s lvl, (lvl = 1 \/ lvl = 2 \/ lvl = 3) -> check_iso9660_directory s lvl = Accept -> 33 + Z.of_nat (length s) + 1 <= 241).
Proof. split; [exact accepted_level1_fits|exact accepted_dir_fits]. Qed.

Theorem C13_checker_alone_does_not_bound_file_names_refuted :
  exists s, check_iso9660_filename s 3 = Accept /\ 33 + Z.of_nat (length s) > 255.
Proof. exact accepted_name_may_not_fit. Qed.

Theorem C13_names_unique_in_every_namespace : forall ops, wf_fs (fst (run empty_fs ops)).
Proof. intros ops. apply run_preserves_wf. exact wf_empty. Qed.
