(* C14 -- Failure atomicity: a refused edit changes nothing.
   Proved (closed): (i) in the specification a refused edit leaves the state unchanged, for every
   operation and every state; (ii) for the staged execution model of a multi-namespace API call
   (Model/Atomic.v): a call that validates everything before it mutates anything is atomic
   whatever it refuses (C14_validate_first_atomic); a refusal raised before the first mutation is
   atomic even in a call that is not written that way (C14_early_refusal_atomic); a refusal raised
   after a mutation leaves behind exactly the partially applied state (C14_late_refusal_leftover),
   and one check placed after an effective mutation breaks atomicity (C14_discipline_necessary).
   pycdlib's calls interleave validation and mutation per namespace, so the full claim is FALSE for
   the late causes; which cause of which call is early or late is the catalogue of
   harness/props/c14.py, validated on every run by fork-and-compare on the implementation: every
   EARLY cause must leave write_fp's bytes identical; LATE causes that do not are known findings
   identified by (call, cause). *)
From Coq Require Import List Bool.
From PV.Model Require Import Atomic.
From PV.Proofs Require Import AtomicProofs FsSpecProofs.
From PV.Spec Require Import FsSpec.
Import ListNotations.

Theorem C14_spec_refused_changes_nothing : forall s o s', step s o = (s', FsSpec.Refused) -> s' = s.
Proof. exact refused_unchanged. Qed.

Theorem C14_validate_first_atomic : forall (state : Type) (stages : list (stage state)) s left,
  validate_first state stages = true -> exec state stages s = Atomic.Refused state left -> left = s.
Proof. exact validate_first_atomic. Qed.

Theorem C14_early_refusal_atomic : forall (state : Type) (stages : list (stage state)) s left,
  exec state stages s = Atomic.Refused state left -> refusal_after_mutation state stages s false = Some false -> left = s.
Proof. exact early_refusal_atomic. Qed.

Theorem C14_late_refusal_leftover : forall (state : Type) (pre : list (stage state)) ok (post : list (stage state)) s,
  forallb (fun st => negb (is_check state st)) pre = true ->
  forall s1, exec state pre s = Done state s1 -> ok s1 = false ->
  exec state (pre ++ Check state ok :: post) s = Atomic.Refused state s1.
Proof. exact late_refusal_leftover. Qed.

Theorem C14_discipline_necessary :
  exists (stages : list (stage nat)) s left, exec nat stages s = Atomic.Refused nat left /\ left <> s.
Proof. exact check_after_mutation_not_atomic. Qed.
