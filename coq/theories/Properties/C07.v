(* C07 -- Hard-link semantics: content lives exactly as long as its last name.
   In the specification (Spec/FsSpec.v) the multiplicity of a blob in [live_blobs] is its
   reference count ([refs]): one per name in any namespace plus one per El Torito entry.
   Proved (closed) for every specification state: adding a link adds one reference, removing a
   name removes exactly one and touches no other content, the content is released exactly when
   the count reaches zero, rm_file removes precisely the names of the addressed content, El Torito
   references keep a content alive and rm_eltorito releases only what had no other name.
   pycdlib is tied to the specification on every run: data space held after EVERY edit (sum over
   PyCdlib.inodes) vs the distinct live blobs of the specification evaluated in Coq; API views
   after write+reopen; data extents shared iff linked in the written image. *)
From Coq Require Import ZArith List.
From PV.Spec Require Import FsSpec FsCases.
From PV.Proofs Require Import FsSpecProofs LinksProofs.
Import ListNotations.

Theorem C07_add_link_adds_one_reference : forall s n0 p0 n p rr s' b,
  step s (AddLink (SrcPath n0 p0) n p rr) = (s', Ok) -> blob_of (get_ns s n0) p0 = Some b ->
  refs s' b = S (refs s b) /\ forall b', b' <> b -> refs s' b' = refs s b'.
Proof. exact refs_add_link. Qed.

Theorem C07_rm_link_removes_one_reference : forall s n p s' e b,
  wf_fs s -> step s (RmLink n p) = (s', Ok) -> lookup (get_ns s n) p = Some e -> e_kind e = KFile b ->
  refs s b = S (refs s' b) /\ forall b', b' <> b -> refs s' b' = refs s b'.
Proof. exact refs_rm_link. Qed.

Theorem C07_content_survives_until_last_reference : forall s n p s' e b,
  wf_fs s -> step s (RmLink n p) = (s', Ok) -> lookup (get_ns s n) p = Some e -> e_kind e = KFile b ->
  (2 <= refs s b -> In b (live_blobs s')) /\ (refs s b = 1 -> ~ In b (live_blobs s')).
Proof.
  intros s n p s' e b W S L K. split.
  - apply (rm_link_content_survives s n p s' e b W S L K).
  - apply (rm_link_last_releases s n p s' e b W S L K).
Qed.

Theorem C07_rm_link_removes_one_name : forall s n p s',
  step s (RmLink n p) = (s', Ok) ->
  lookup (get_ns s' n) p = None /\
  (forall q, q <> p -> lookup (get_ns s' n) q = lookup (get_ns s n) q) /\
  (forall m, m <> n -> get_ns s' m = get_ns s m) /\ f_boot s' = f_boot s.
Proof. exact rm_link_frame. Qed.

Theorem C07_rm_file_removes_exactly_the_names_of_the_content : forall s n p s' e b,
  step s (RmFile n p) = (s', Ok) -> lookup (get_ns s n) p = Some e -> e_kind e = KFile b -> b <> 0%Z ->
  (forall m x, In x (get_ns s' m) <-> (In x (get_ns s m) /\ e_kind x <> KFile b)) /\
  refs s' b = 0 /\ forall b', b' <> b -> refs s' b' = refs s b'.
Proof.
  intros s n p s' e b S L K B. split; [exact (rm_file_exact s n p s' e b S L K B)|exact (refs_rm_file s n p s' e b S L K B)].
Qed.

Theorem C07_boot_reference_protects_content : forall s n p e b,
  lookup (get_ns s n) p = Some e -> e_kind e = KFile b -> b <> 0%Z -> is_boot_blob s b = true ->
  step s (RmFile n p) = (s, Refused).
Proof. exact rm_file_refused_when_boot. Qed.

Theorem C07_rm_eltorito_releases_only_unnamed_boot_content : forall s s',
  step s RmEltorito = (s', Ok) ->
  (forall bt x, f_boot s = Some bt -> x <> catalog_blob -> ~ In x (b_blobs bt) -> refs s' x = refs s x) /\
  (forall x, names s x = 0 -> ~ In x (live_blobs s')).
Proof.
  intros s s' S. split.
  - intros bt x F X N. exact (refs_rm_eltorito_unrelated s s' bt x S F X N).
  - intros x N. exact (rm_eltorito_releases_boot_only s s' x S N).
Qed.

Theorem C07_reopen_keeps_nonempty_contents : forall s em base s' b,
  (base <= -1000)%Z -> step s (Reopen em base) = (s', Ok) -> is_empty_blob em b = false -> refs s' b = refs s b.
Proof. exact reopen_preserves_nonempty_partial. Qed.

Example C07_nonvacuous :
  run_probe [(7, 5000)]%Z empty_fs
    [AddFp 7 (Some ([1], 0)) (Some [2]) None; AddLink (SrcPath NsIso [1]) NsIso [3] 0; RmLink NsIso [1];
     RmLink NsJoliet [2]; RmLink NsIso [3]]%Z = [3; 3; 3; 3; 0]%Z.
Proof. vm_compute. reflexivity. Qed.
