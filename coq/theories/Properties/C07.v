(* C07 -- Hard-link semantics: content lives exactly as long as its last name.
   In the specification (Spec/FsSpec.v) the multiplicity of a blob in [live_blobs] is its
   reference count ([refs]): one per name in any namespace plus one per El Torito entry.
   Proved (closed) for every specification state: adding a link adds one reference, removing a
   name removes exactly one and touches no other content, the content is released exactly when
   the count reaches zero, rm_file removes precisely the names of the addressed content, El Torito
   references keep a content alive and rm_eltorito releases only what had no other name.
   pycdlib is tied to the specification on every run: data space held after EVERY edit (sum over
   PyCdlib.inodes) vs the distinct live blobs of the specification evaluated in Coq; API views
   after write+reopen; data extents shared iff linked in the written image. *)
From Coq Require Import ZArith List.
From PV.Spec Require Import FsSpec FsCases.
From PV.Proofs Require Import FsSpecProofs LinksProofs.
From PV.Model Require AccountLinks.
From PV.Proofs Require AccountLinksLemmas AccountLinksPurge AccountLinksInv AccountLinksProofs.
Import ListNotations.

Theorem C07_add_link_adds_one_reference : forall s n0 p0 n p rr s' b,
  step s (AddLink (SrcPath n0 p0) n p rr) = (s', Ok) -> blob_of (get_ns s n0) p0 = Some b ->
  refs s' b = S (refs s b) /\ forall b', b' <> b -> refs s' b' = refs s b'.
Proof. exact refs_add_link. Qed.

Theorem C07_rm_link_removes_one_reference : forall s n p s' e b,
  wf_fs s -> step s (RmLink n p) = (s', Ok) -> lookup (get_ns s n) p = Some e -> e_kind e = KFile b ->
  refs s b = S (refs s' b) /\ forall b', b' <> b -> refs s' b' = refs s b'.
Proof. exact refs_rm_link. Qed.

Theorem C07_content_survives_until_last_reference : forall s n p s' e b,
  wf_fs s -> step s (RmLink n p) = (s', Ok) -> lookup (get_ns s n) p = Some e -> e_kind e = KFile b ->
  (2 <= refs s b -> In b (live_blobs s')) /\ (refs s b = 1 -> ~ In b (live_blobs s')).
Proof.
  intros s n p s' e b W S L K. split.
  - apply (rm_link_content_survives s n p s' e b W S L K).
  - apply (rm_link_last_releases s n p s' e b W S L K).
Qed.

Theorem C07_rm_link_removes_one_name : forall s n p s',
  step s (RmLink n p) = (s', Ok) ->
  lookup (get_ns s' n) p = None /\
  (forall q, q <> p -> lookup (get_ns s' n) q = lookup (get_ns s n) q) /\
  (forall m, m <> n -> get_ns s' m = get_ns s m) /\ f_boot s' = f_boot s.
Proof. exact rm_link_frame. Qed.

Theorem C07_rm_file_removes_exactly_the_names_of_the_content : forall s n p s' e b,
  step s (RmFile n p) = (s', Ok) -> lookup (get_ns s n) p = Some e -> e_kind e = KFile b -> b <> 0%Z ->
  (forall m x, In x (get_ns s' m) <-> (In x (get_ns s m) /\ e_kind x <> KFile b)) /\
  refs s' b = 0 /\ forall b', b' <> b -> refs s' b' = refs s b'.
Proof.
  intros s n p s' e b S L K B. split; [exact (rm_file_exact s n p s' e b S L K B)|exact (refs_rm_file s n p s' e b S L K B)].
Qed.

Theorem C07_boot_reference_protects_content : forall s n p e b,
  lookup (get_ns s n) p = Some e -> e_kind e = KFile b -> b <> 0%Z -> is_boot_blob s b = true ->
  step s (RmFile n p) = (s, Refused).
Proof. exact rm_file_refused_when_boot. Qed.

Theorem C07_rm_eltorito_releases_only_unnamed_boot_content : forall s s',
  step s RmEltorito = (s', Ok) ->
  (forall bt x, f_boot s = Some bt -> x <> catalog_blob -> ~ In x (b_blobs bt) -> refs s' x = refs s x) /\
  (forall x, names s x = 0 -> ~ In x (live_blobs s')).
Proof.
  intros s s' S. split.
  - intros bt x F X N. exact (refs_rm_eltorito_unrelated s s' bt x S F X N).
  - intros x N. exact (rm_eltorito_releases_boot_only s s' x S N).
Qed.

Theorem C07_reopen_keeps_nonempty_contents : forall s em base s' b,
  (base <= -1000)%Z -> step s (Reopen em base) = (s', Ok) -> is_empty_blob em b = false -> refs s' b = refs s b.
Proof. exact reopen_preserves_nonempty_partial. Qed.

Example C07_nonvacuous :
  run_probe [(7, 5000)]%Z empty_fs
    [AddFp 7 (Some ([1], 0)) (Some [2]) None; AddLink (SrcPath NsIso [1]) NsIso [3] 0; RmLink NsIso [1];
     RmLink NsJoliet [2]; RmLink NsIso [3]]%Z = [3; 3; 3; 3; 0]%Z.
Proof. vm_compute. reflexivity. Qed.

(* ---- the mechanism behind "content lives exactly as long as its last name": Model/AccountLinks.v ------
   The space accounting state machine of Model/Account.v extended with hard links inside the ISO9660
   namespace (add_hard_link / rm_hard_link / rm_file over shared inodes, the inode table in creation
   order, file data laid out once per inode), tied to /repo by accountlinksleaf.py after EVERY operation.
   For every history of the six operations, accepted or refused: *)
Section AccountLinksStatements.
Import AccountLinks AccountLinksLemmas AccountLinksPurge AccountLinksInv.
Local Open Scope Z_scope.

Theorem C07_space_exact : forall ops,
  AccountLinks.lspace (AccountLinks.lrun AccountLinks.linit ops) =
  AccountLinks.llayout_end (AccountLinks.lrun AccountLinks.linit ops).
Proof. exact AccountLinksProofs.C07_space_exact. Qed.

Theorem C07_stored_once : forall s,
  NoDup (AccountLinks.laid_out s) /\
  forall i, In i (AccountLinks.laid_out s) <->
            0 < AccountLinks.lrefcount i (AccountLinks.lroot s) /\ AccountLinks.len_of i (AccountLinks.linodes s) <> 0.
Proof. exact AccountLinksProofs.C07_stored_once. Qed.

Theorem C07_inode_table_is_the_referenced_set : forall ops,
  let s := AccountLinks.lrun AccountLinks.linit ops in
  NoDup (AccountLinksLemmas.ids (AccountLinks.linodes s)) /\
  forall i, In i (AccountLinksLemmas.ids (AccountLinks.linodes s)) <-> 0 < AccountLinks.lrefcount i (AccountLinks.lroot s).
Proof. exact AccountLinksProofs.C07_inode_table_is_the_referenced_set. Qed.

Theorem C07_add_link_shares_the_content : forall s src dirp nm s',
  AccountLinks.lstep s (AccountLinks.LAddLink src dirp nm) = (s', true) ->
  AccountLinks.linodes s' = AccountLinks.linodes s /\
  exists g, (g = 0 \/ g = 1) /\ AccountLinks.lspace s' = AccountLinks.lspace s + g.
Proof. exact AccountLinksProofs.C07_add_link_shares_the_content. Qed.

Theorem C07_refused_link_edit_changes_nothing : forall s o s', AccountLinks.lstep s o = (s', false) -> s' = s.
Proof. exact AccountLinksProofs.lrefused_unchanged. Qed.


Theorem C07_content_released_at_last_name_in_the_accounting : forall s dirp nm dn dl kids k cn i st s',
  LInv s ->
  lsubtree dirp (lroot s) = Some (LDir dn dl kids) ->
  llookup nm kids = Some (k, LFile cn i st) ->            (* the name points to inode i *)
  lstep s (LRmLink dirp nm) = (s', true) ->
  let len := len_of i (linodes s) in
  (* one reference less *)
  lrefcount i (lroot s') = lrefcount i (lroot s) - 1 /\
  (* its blocks are in the layout iff some record still references it (and it is not empty) *)
  (In i (laid_out s') <-> 0 < lrefcount i (lroot s') /\ len <> 0) /\
  (In i (ids (linodes s')) <-> 0 < lrefcount i (lroot s')) /\
  (0 < lrefcount i (lroot s') -> len_of i (linodes s') = len) /\
  (* space: the directory may give back one block; the data blocks are released iff this was
     the last name *)
  (exists sh, (sh = 0 \/ sh = 1) /\
     lspace s' = lspace s - sh - (if lrefcount i (lroot s') =? 0 then blocks_of len else 0)) /\
  (* nothing else changes *)
  (forall j, j <> i -> lrefcount j (lroot s') = lrefcount j (lroot s) /\
                       len_of j (linodes s') = len_of j (linodes s) /\
                       (In j (laid_out s') <-> In j (laid_out s))).
Proof. exact AccountLinksProofs.C07_content_released_exactly_at_last_name. Qed.

Theorem C07_rm_file_exact_in_the_accounting : forall s dirp nm dn dl kids k cn i st s',
  LInv s ->
  lsubtree dirp (lroot s) = Some (LDir dn dl kids) ->
  llookup nm kids = Some (k, LFile cn i st) ->
  lstep s (LRmFile dirp nm) = (s', true) ->
  (* the file records left are those that were there and do not point to inode i, in the same
     directories and in the same order; the directories are the same *)
  lrecords [] (lroot s') = filter (notrec i) (lrecords [] (lroot s)) /\
  ldirs [] (lroot s') = ldirs [] (lroot s) /\
  (* the content is gone: no reference, not in self.inodes, no extents *)
  lrefcount i (lroot s') = 0 /\ ~ In i (ids (linodes s')) /\ ~ In i (laid_out s') /\
  (* its data blocks are released once, together with the directory blocks freed *)
  lspace s' = lspace s - (ltotal lw_dblk (lroot s) - ltotal lw_dblk (lroot s'))
              - blocks_of (len_of i (linodes s)) /\
  (* every other content is untouched *)
  (forall j, j <> i -> lrefcount j (lroot s') = lrefcount j (lroot s) /\
                       len_of j (linodes s') = len_of j (linodes s) /\
                       (In j (laid_out s') <-> In j (laid_out s))).
Proof. exact AccountLinksProofs.C07_rm_file_removes_exactly_the_names_of_the_content. Qed.

End AccountLinksStatements.
