(* C09 -- Joliet fidelity.  Proved for all inputs (closed) over Model/LongNames.v: the UTF-16BE
   codec used for Joliet identifiers is lossless for every Unicode scalar sequence (surrogate pairs
   included); a name accepted by the rule AS CODED (at most 64 UTF-8 bytes) needs at most 64 UCS-2
   units, so its identifier fits the 128 bytes and its directory record the 254-byte limit, with or
   without XA: accepted names are never truncated or mangled.  The coded rule over-refuses (22 CJK
   characters are refused although they fit): a refusal, which the property allows.
   Tie: the codec model is compared with Python's str.encode('utf-16_be') / len(encode('utf-8')) on
   every run; independence of the Joliet tree from the ISO9660 tree and the frame of single-namespace
   edits are theorems of the specification (C09_joliet_only_edit_frame); the property itself is
   evaluated on generated images: the independent reader's Joliet tree (names, extents, path
   tables, sizes) against the specification and the ISO9660 links. *)
From Coq Require Import ZArith List Bool.
From PV.Model Require Import LongNames.
From PV.Proofs Require Import LongNamesProofs FsSpecProofs.
From PV.Spec Require Import FsSpec.
Import ListNotations.
Local Open Scope Z_scope.

Theorem C09_codec_roundtrip : forall s, Forall scalar s -> utf16be_dec (utf16be_enc s) = Some s.
Proof. exact utf16_roundtrip. Qed.

Theorem C09_accepted_names_fit : forall xa s, joliet_accepts s = true ->
  len (utf16be_enc s) <= 128 /\ 34 <= joliet_dr_len xa s <= 254 /\ joliet_dr_len xa s mod 2 = 0.
Proof. exact joliet_dr_fits. Qed.

Theorem C09_rule_never_accepts_too_long : forall s, joliet_accepts s = true -> joliet_spec_fits s = true.
Proof. exact joliet_accepts_sound. Qed.

Theorem C09_rule_over_refuses : exists s, Forall scalar s /\ joliet_accepts s = false /\ utf16_units s <= 64
  /\ joliet_spec_fits s = true.
Proof. exact joliet_over_refusal. Qed.

(* removing a Joliet name leaves the ISO9660 and UDF namespaces (and every other Joliet name) untouched *)
Theorem C09_joliet_only_edit_frame : forall s p s',
  step s (RmLink NsJoliet p) = (s', Ok) ->
  lookup (f_jol s') p = None /\ (forall q, q <> p -> lookup (f_jol s') q = lookup (f_jol s) q) /\
  f_iso s' = f_iso s /\ f_udf s' = f_udf s.
Proof.
  intros s p s' H. destruct (rm_link_frame s NsJoliet p s' H) as (A & B & C & _).
  split; [exact A|]. split; [exact B|]. split; [apply (C NsIso); discriminate|apply (C NsUdf); discriminate].
Qed.

(* ---- the Joliet directory area and path tables, written and read back: Model/MasterJoliet.v ----------------------
   master_joliet = the bytes of every JOLIET directory extent and of both Joliet path tables of an ISO9660+Joliet image as
   the library writes them (object graph of Model/AccountNs.v: two trees sharing inodes; the common layout); read_joliet = an
   independent reader that starts at the SVD root pointer and decodes identifiers as UTF-16BE. *)
From PV.Model Require AccountNs Master MasterJoliet.
From PV.Proofs Require MasterJolietProofs MasterJolietSorted MasterJolietReach.
Section MasterJolietStatements.
Import PV.Model.AccountNs PV.Model.MasterJoliet PV.Proofs.MasterJolietProofs.
Local Open Scope Z_scope.

(* for every well-formed state: the reader recovers exactly the Joliet tree (Unicode names, kinds, lengths, extents) *)
Theorem C09_joliet_reader_recovers_the_tree : forall (dt : list Z) (s : nstate), length dt = 7%nat -> mj_wf s = true ->
  mj_kid_names_ok (njol s) = true -> Z.of_nat (length (mj_dir_positions (njol s))) <= 65535 ->
  exists img : Master.image, master_joliet dt s = Some img /\
    read_joliet (mj_height (njol s)) img (nth 4 (mj_svd s) 0) (nth 5 (mj_svd s) 0) = Some (mj_uview s).
Proof. exact MasterJolietProofs.joliet_read_master. Qed.

(* ... and for every state reached by an accepted history of AccountNs (byte names) *)
Theorem C09_joliet_reader_recovers_the_tree_after_every_history : forall (dt : list Z) (ops : list nop), length dt = 7%nat ->
  clean ops = true -> forallb bytes_op ops = true -> nlayout_end (nrun ops) <= 4294967296 ->
  mj_dl_ok (niso (nrun ops)) = true -> mj_dl_ok (njol (nrun ops)) = true ->
  Z.of_nat (length (mj_dir_positions (njol (nrun ops)))) <= 65535 ->
  exists img : Master.image, master_joliet dt (nrun ops) = Some img /\
    read_joliet (mj_height (njol (nrun ops))) img (nth 4 (mj_svd (nrun ops)) 0) (nth 5 (mj_svd (nrun ops)) 0) = Some (mj_uview (nrun ops)).
Proof. exact MasterJolietReach.joliet_read_master_reachable. Qed.

(* each Joliet file points at the same data sectors as its ISO9660 link; data of different contents never meet *)
Theorem C09_joliet_same_sectors_as_the_iso9660_link : forall s : nstate, mj_wf s = true ->
  (forall (pi pj : list nat) (ni nj : Account.ident) (i sti stj : nat),
     mj_node_at (niso s) pi = Some (LFile ni i sti) -> mj_node_at (njol s) pj = Some (LFile nj i stj) ->
     mj_rnode_at (mj_iview s) pi = Some (Master.RFile ni (mj_fext s i) (mj_ino_len s i)) /\
     mj_rnode_at (mj_jview s) pj = Some (Master.RFile nj (mj_fext s i) (mj_ino_len s i))) /\
  (forall i : nat, 0 < nrefcount i (niso s) (njol s) -> mj_ino_len s i <> 0 ->
     mj_data_start s <= mj_fext s i /\ mj_fext s i + GenFun.ceiling_div (mj_ino_len s i) Master.BS <= mj_end s) /\
  (forall i j : nat, i <> j -> 0 < nrefcount i (niso s) (njol s) -> mj_ino_len s i <> 0 ->
     0 < nrefcount j (niso s) (njol s) -> mj_ino_len s j <> 0 ->
     mj_fext s i + GenFun.ceiling_div (mj_ino_len s i) Master.BS <= mj_fext s j \/
     mj_fext s j + GenFun.ceiling_div (mj_ino_len s j) Master.BS <= mj_fext s i).
Proof. exact MasterJolietProofs.joliet_same_sectors. Qed.
End MasterJolietStatements.
