(* C09 -- Joliet fidelity.  Proved for all inputs (closed) over Model/LongNames.v: the UTF-16BE
   codec used for Joliet identifiers is lossless for every Unicode scalar sequence (surrogate pairs
   included); a name accepted by the rule AS CODED (at most 64 UTF-8 bytes) needs at most 64 UCS-2
   units, so its identifier fits the 128 bytes and its directory record the 254-byte limit, with or
   without XA: accepted names are never truncated or mangled.  The coded rule over-refuses (22 CJK
   characters are refused although they fit): a refusal, which the property allows.
   Tie: the codec model is compared with Python's str.encode('utf-16_be') / len(encode('utf-8')) on
   every run; independence of the Joliet tree from the ISO9660 tree and the frame of single-namespace
   edits are theorems of the specification (C09_joliet_only_edit_frame); the property itself is
   evaluated on generated images: the independent reader's Joliet tree (names, extents, path
   tables, sizes) against the specification and the ISO9660 links. *)
From Coq Require Import ZArith List Bool.
From PV.Model Require Import LongNames.
From PV.Proofs Require Import LongNamesProofs FsSpecProofs.
From PV.Spec Require Import FsSpec.
Import ListNotations.
Local Open Scope Z_scope.

Theorem C09_codec_roundtrip : forall s, Forall scalar s -> utf16be_dec (utf16be_enc s) = Some s.
Proof. exact utf16_roundtrip. Qed.

Theorem C09_accepted_names_fit : forall xa s, joliet_accepts s = true ->
  len (utf16be_enc s) <= 128 /\ 34 <= joliet_dr_len xa s <= 254 /\ joliet_dr_len xa s mod 2 = 0.
Proof. exact joliet_dr_fits. Qed.

Theorem C09_rule_never_accepts_too_long : forall s, joliet_accepts s = true -> joliet_spec_fits s = true.
Proof. exact joliet_accepts_sound. Qed.

Theorem C09_rule_over_refuses : exists s, Forall scalar s /\ joliet_accepts s = false /\ utf16_units s <= 64
  /\ joliet_spec_fits s = true.
Proof. exact joliet_over_refusal. Qed.

(* removing a Joliet name leaves the ISO9660 and UDF namespaces (and every other Joliet name) untouched *)
Theorem C09_joliet_only_edit_frame : forall s p s',
  step s (RmLink NsJoliet p) = (s', Ok) ->
  lookup (f_jol s') p = None /\ (forall q, q <> p -> lookup (f_jol s') q = lookup (f_jol s) q) /\
  f_iso s' = f_iso s /\ f_udf s' = f_udf s.
Proof.
  intros s p s' H. destruct (rm_link_frame s NsJoliet p s' H) as (A & B & C & _).
  split; [exact A|]. split; [exact B|]. split; [apply (C NsIso); discriminate|apply (C NsUdf); discriminate].
Qed.
