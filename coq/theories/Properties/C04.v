(* C04 -- Sector allocation is sound: no overlap, in bounds, exact size.
   Proved for all inputs: (i) a bump allocation -- the discipline of _reshuffle_extents and its
   helpers: give the object the current extent, advance by its size -- places every two objects
   disjointly and inside [start, start + sum), WHATEVER the traversal order and the sizes;
   (ii) the sizes used are sufficient: ceiling_div (TRANSLATED) covers the bytes, a directory's
   blocks cover its records (Model/Pack.v), the path-table reservation covers the table
   (TRANSLATED add_to/remove_from_ptr_size); (iii) the Rock Ridge continuation allocator
   (Model/CeAlloc.v, hand model of RockRidgeContinuationBlock and add_rr_ce_entry) never hands out
   overlapping areas and keeps them inside their block, for every add/remove sequence.
   Tie: leaf runs against the real allocator / packing methods (celeaf.py, packleaf.py); the
   property itself is evaluated on every generated image (objects decoded by the independent reader,
   write log of the mastering run). *)
From Coq Require Import ZArith List Bool.
From PV.Model Require Import Alloc Pack CeAlloc Checksums.
From PV.Proofs Require Import AllocProofs PackProofs CeAllocProofs ChecksumsArithProofs.
From PV.Model Require Account.
From PV.Proofs Require AccountProofs.
From PV.Gen Require Import GenFun.
Import ListNotations.
Local Open Scope Z_scope.

Theorem C04_bump_disjoint : forall sizes start, Forall (fun s => 0 <= s) sizes ->
  ForallOrdPairs disjoint (bump start sizes).
Proof. exact bump_disjoint. Qed.

Theorem C04_bump_inside : forall sizes start, Forall (fun s => 0 <= s) sizes ->
  Forall (fun iv => start <= fst iv /\ fst iv + snd iv <= bump_end start sizes) (bump start sizes).
Proof. exact bump_inside. Qed.

Theorem C04_ceiling_div_covers : forall a b, 0 < b ->
  ceiling_div a b * b >= a /\ (ceiling_div a b - 1) * b < a.
Proof. exact ceiling_div_bounds. Qed.

(* the blocks of a directory cover its records: the last record ends inside block num_extents *)
Theorem C04_dir_blocks_cover_records : forall C ls, 0 < C -> sized C ls ->
  1 <= num_extents C ls /\ 0 <= last_offset C ls <= C /\
  Pack.zsum ls <= (num_extents C ls - 1) * C + last_offset C ls /\ Pack.zsum ls <= num_extents C ls * C.
Proof. exact num_extents_lower. Qed.

(* continuation areas: entries of a block are pairwise disjoint, inside [0, M), for every history *)
Theorem C04_ce_blocks_inv : forall M ops, 0 < M -> Forall op_ok ops -> Forall (wf M) (final_blocks M ops).
Proof. exact run_inv. Qed.

Theorem C04_ce_entry_placed : forall M len es o, wf M es -> fst (add_entry M es len) = o -> 0 <= o ->
  In (o, len) (snd (add_entry M es len)) /\ o + len <= M /\
  Forall (fun e => o + len <= fst e \/ fst e + snd e <= o) es.
Proof.
  intros M len es o W E O. destruct (add_entry_placed M len es o W E O) as (A & B & _ & D). repeat split; assumption.
Qed.

(* the classic off-by-one in the gap computation breaks exactly this *)
Theorem C04_ce_gap_offbyone_refuted :
  exists es len, 0 < len /\ wf 2048 es /\ ~ wf 2048 (snd (add_entry_gapbug 2048 es len)).
Proof. exact add_entry_gapbug_refuted. Qed.

Theorem C04_ptr_extents_cover : forall size ext p, PtrInv size ext -> 0 < p <= 4096 ->
  let '(b, size', ext') := add_to_ptr_size size ext p in
  PtrInv size' ext' /\ size' = size + p /\ (ext' = ext \/ ext' = ext + 2) /\ (b = true <-> ext' <> ext).
Proof. exact add_to_ptr_size_inv. Qed.

Theorem C04_nonvacuous :
  bump 16 [1; 1; 1; 2; 2; 3; 1; 5] = [(16, 1); (17, 1); (18, 1); (19, 2); (21, 2); (23, 3); (26, 1); (27, 5)] /\
  bump_end 16 [1; 1; 1; 2; 2; 3; 1; 5] = 32.
Proof. exact bump_nonvacuous. Qed.

(* ---- the two ways of computing the allocation agree: Model/Account.v --------------------------
   A state machine of the plain ISO9660 core: a directory tree with file lengths, the path table
   size/extents and pvd.space_size, edited by add_fp / add_directory / rm_file / rm_directory with
   EXACTLY the per-edit byte deltas of the source (one ceiling_div per edit; Pack.dir_add /
   dir_remove for directory growth; the TRANSLATED add_to_ptr_size / remove_from_ptr_size /
   ptr_record_length; the name checks of Names.v), against the from-scratch layout
   objects = [16;1;1;1;ptr_ext;ptr_ext] ++ directory blocks (BFS) ++ file blocks (BFS).
   For EVERY history, valid and refused edits mixed: *)
Theorem C04_declared_size_is_exact : forall ops, Account.space (Account.run Account.init ops) = Account.layout_end (Account.run Account.init ops).
Proof. exact AccountProofs.C04_declared_size_is_exact. Qed.

Theorem C04_objects_disjoint_and_inside : forall ops,
  let s := Account.run Account.init ops in
  ForallOrdPairs disjoint (Account.layout s) /\
  Forall (fun iv => 0 <= fst iv /\ fst iv + snd iv <= Account.space s) (Account.layout s).
Proof. exact AccountProofs.C04_objects_disjoint_and_inside. Qed.

Theorem C04_account_invariant : forall ops, AccountProofs.Inv (Account.run Account.init ops).
Proof. exact AccountProofs.run_inv. Qed.

Theorem C04_refused_edit_changes_nothing : forall s o s', Account.step s o = (s', false) -> s' = s.
Proof. exact AccountProofs.refused_unchanged. Qed.

Theorem C04_account_nonvacuous :
  AccountProofs.Inv (Account.run Account.init AccountProofs.ex_ops) /\ Account.space (Account.run Account.init (firstn 17 AccountProofs.ex_ops)) = 64 /\
  Account.layout_end (Account.run Account.init (firstn 17 AccountProofs.ex_ops)) = 64.
Proof. exact AccountProofs.ex_history_inv. Qed.

(* ---- the same with Rock Ridge: Model/AccountRR.v ------------------------------------------------
   The state machine of an ISO9660 + Rock Ridge image (versions 1.09 / 1.10 / 1.12): directory records whose length
   and continuation-area need are Model/RRPlace.v [place], the continuation blocks are Model/CeAlloc.v, edited by
   add_fp / add_directory / add_symlink / rm_file / rm_directory with the refusals the library has (incl. "entries
   exceed one continuation block").  For EVERY history from a fresh image: *)
From PV.Model Require AccountRR RREntries.
From PV.Proofs Require AccountRRLemmas AccountRRProofs AccountRRInverse.

Theorem C04_rr_declared_size_is_exact : forall v ops,
  AccountRR.r_space (AccountRR.rr_run (AccountRR.rr_init v) ops) = AccountRR.rr_layout_end (AccountRR.rr_run (AccountRR.rr_init v) ops).
Proof. exact AccountRRProofs.arr_space_exact. Qed.

Theorem C04_rr_objects_disjoint_and_inside : forall v ops, let s := AccountRR.rr_run (AccountRR.rr_init v) ops in
  ForallOrdPairs disjoint (AccountRR.rr_layout s) /\
  Forall (fun iv => 0 <= fst iv /\ fst iv + snd iv <= AccountRR.r_space s) (AccountRR.rr_layout s).
Proof. exact AccountRRProofs.arr_objects_disjoint. Qed.

(* continuation entries: every record's area lies in exactly one tracked block, inside 2048 bytes; the areas of one block are
   pairwise disjoint; every entry of every tracked block is owned by exactly one live record (nothing leaks); no tracked
   block is empty *)
Theorem C04_rr_continuation_entries_sound : forall v ops, AccountRRProofs.ce_sound (AccountRR.rr_run (AccountRR.rr_init v) ops).
Proof. exact AccountRRProofs.arr_ce_sound. Qed.

Theorem C04_rr_every_block_gets_one_extent : forall v ops, let s := AccountRR.rr_run (AccountRR.rr_init v) ops in
  AccountRRLemmas.fresh [] (AccountRR.rvisit s) = length (AccountRR.r_blocks s).
Proof. exact AccountRRProofs.arr_blocks_placed. Qed.

Theorem C04_rr_refused_edit_changes_nothing : forall fx s o s', AccountRR.rr_step_gen fx s o = (s', false) -> s' = s.
Proof. exact AccountRRProofs.arr_refused_unchanged. Qed.

(* the code before fix 958cd03 (rr_step_gen false): rm_file of a symlink kept its continuation entry -- the witness that
   was replayed on pycdlib *)
Theorem C04_rr_declared_size_before_the_symlink_fix_refuted : exists v ops,
  AccountRR.r_space (AccountRR.rr_run_gen false (AccountRR.rr_init v) ops) <>
  AccountRR.rr_layout_end (AccountRR.rr_run_gen false (AccountRR.rr_init v) ops).
Proof. exact AccountRRProofs.arr_space_exact_old_refuted. Qed.

Example C04_rr_nonvacuous :
  AccountRR.run_obs true (AccountRR.rr_init RREntries.V109) AccountRRProofs.leak_ops =
    [(true, [26; 10; 2; 2048; 0], [[(0, 103)]], 26, [24]); (true, [25; 10; 2; 2048; 0], [], 25, [])]
  /\ AccountRR.run_obs false (AccountRR.rr_init RREntries.V109) AccountRRProofs.leak_ops =
    [(true, [26; 10; 2; 2048; 0], [[(0, 103)]], 26, [24]); (true, [26; 10; 2; 2048; 0], [[(0, 103)]], 25, [-1])].
Proof. exact AccountRRProofs.arr_leak_ops_now. Qed.
