(* C12 -- Hybrid (MBR/GPT/APM) boot data.  Proved (closed) about functions TRANSLATED from /repo:
   IsoHybrid._calc_cc pads every image size to a whole number of cylinders for every geometry
   (0 <= pad < cylinder, (size+pad) mod cylinder = 0) and the cylinder count is exact up to 1024
   cylinders; beyond 1024 it is clamped and no longer covers the image (C12_cylinders_clamped:
   explicit, with witness -- the cap copies isohybrid.c; recorded as a known finding); the table
   driven CRC-32 used for the GPT headers equals the bitwise reflected CRC-32 (0xEDB88320) for ALL
   byte strings.  Model/Hybrid.v is a byte-level hand model of isohybrid.py (IsoHybrid.new/record/
   parse, GPTHeader, GPTPartHeader, GPT.record, APMPartHeader; tied to /repo by hybridleaf.py on
   every run): the MBR is 512 bytes with the partition entry at 446+16(k-1), its CHS end decodes
   to (cc-1, heads-1, sectors), parse . record is the identity on well-formed objects, every GPT
   header verifies for a reader (signature, size 92, CRC with the field zeroed), the backup GPT is
   placed in the last 33 sectors of the padded image.  Three statements a reader would expect are
   REFUTED with witnesses reproduced on pycdlib (known findings): the partition size when cylinders
   are clamped, the GPT entry-array CRC (computed over the used entries only, not over
   NumberOfPartitionEntries*128 bytes as UEFI prescribes), and the backup GPT overwriting the
   volume tail when the padding is shorter than 33 sectors.  MBR/GPT/APM contents of whole images
   are decided by the independent reader. *)
From Coq Require Import ZArith List Bool.
From PV.Base Require Import Prim.
From PV.Gen Require Import GenFun.
From PV.Model Require Import Checksums.
From PV.Proofs Require Import ChecksumsProofs ChecksumsArithProofs.
From PV.Model Require Hybrid.
From PV.Proofs Require HybridProofs HybridGptProofs.
Import ListNotations.
Local Open Scope Z_scope.

Theorem C12_padding_to_whole_cylinders : forall h s size, 0 < h -> 0 < s -> 0 <= size ->
  let '(cc, pad) := calc_cc h s size in
  let cyl := h * s * 512 in
  0 <= pad < cyl /\ (size + pad) mod cyl = 0 /\ cc = Z.min ((size + pad) / cyl) 1024.
Proof. exact calc_cc_padding. Qed.

Theorem C12_cylinders_cover_image_partial : forall h s size, 0 < h -> 0 < s -> 0 <= size ->
  let '(cc, pad) := calc_cc h s size in
  let cyl := h * s * 512 in
  (size + pad) / cyl <= 1024 -> cc * cyl = size + pad.
Proof. exact calc_cc_exact_when_small. Qed.

Theorem C12_cylinders_clamped : forall h s size, 0 < h -> 0 < s -> 0 <= size ->
  let '(cc, pad) := calc_cc h s size in
  let cyl := h * s * 512 in
  1024 < (size + pad) / cyl -> cc = 1024 /\ cc * cyl < size + pad.
Proof. exact calc_cc_clamped. Qed.

Theorem C12_cylinders_cover_image_refuted :
  exists h s size, 0 < h /\ 0 < s /\ 0 <= size /\
    let '(cc, pad) := calc_cc h s size in ~ (cc * (h * s * 512) = size + pad) /\ cc * (h * s * 512) < size + pad.
Proof. exact calc_cc_exact_refuted. Qed.

Theorem C12_gpt_crc_is_crc32 : forall data, bytes data -> crc32 data = crc32_bit data.
Proof. exact crc32_spec. Qed.

Theorem C12_crc_reference_value : crc32_bit [49; 50; 51; 52; 53; 54; 55; 56; 57] = 0xCBF43926.
Proof. exact (proj2 crc_check_values). Qed.

(* ---- Model/Hybrid.v ----------------------------------------------------------------------------- *)
Theorem C12_mbr_is_one_sector : forall y iso b, Hybrid.ih_record_mbr y iso = Some b -> length b = 512%nat.
Proof. exact HybridProofs.mbr_length. Qed.

Theorem C12_mbr_layout : forall y iso b, Hybrid.ih_record_mbr y iso = Some b ->
  slice 0 446 b = HybridProofs.mbr_prefix y /\ slice 510 512 b = [85; 170] /\
  forall k, 1 <= k <= 4 -> Hybrid.ih_entry y iso k = Some (HybridProofs.mbr_entry_at b k).
Proof. exact HybridProofs.mbr_layout. Qed.

Theorem C12_chs_end_decodes : forall cc heads sectors,
  1 <= cc <= 1024 -> 1 <= heads <= 256 -> 1 <= sectors <= 63 ->
  Hybrid.chs_decode (heads - 1) (Hybrid.chs_esect sectors cc) (Hybrid.chs_ecyle cc) = (cc - 1, heads - 1, sectors) /\
  0 <= heads - 1 <= 255 /\ 0 <= Hybrid.chs_esect sectors cc <= 255 /\ 0 <= Hybrid.chs_ecyle cc <= 255.
Proof. exact HybridProofs.chs_end_decodes. Qed.

Theorem C12_partition_size_when_not_clamped : forall y iso,
  0 < Hybrid.ih_heads y -> 0 < Hybrid.ih_sectors y -> 0 <= iso ->
  (iso + Hybrid.ih_padlen y iso) / (Hybrid.ih_heads y * Hybrid.ih_sectors y * 512) <= 1024 ->
  Hybrid.ih_psize y iso = (iso + Hybrid.ih_padlen y iso) / 512 - Hybrid.ih_part_offset y.
Proof. exact HybridProofs.psize_when_not_clamped. Qed.

Theorem C12_partition_size_clamped_refuted :
  exists y iso, 0 < Hybrid.ih_heads y /\ 0 < Hybrid.ih_sectors y /\ 0 <= iso /\
    ~ (Hybrid.ih_psize y iso = (iso + Hybrid.ih_padlen y iso) / 512 - Hybrid.ih_part_offset y).
Proof. exact HybridProofs.psize_clamped_refuted. Qed.

Theorem C12_mbr_roundtrip : forall y iso b rest, HybridProofs.ih_wf y -> Hybrid.ih_record_mbr y iso = Some b ->
  Hybrid.ih_parse_mbr (b ++ rest) = Hybrid.POk (Hybrid.ih_set_sectors y (HybridProofs.parsed_sectors y iso)).
Proof. exact HybridProofs.mbr_roundtrip. Qed.

Theorem C12_gpt_header_verifies : forall g c, Hybrid.ghdr_ranges_ok g c = true ->
  exists b, Hybrid.ghdr_record g c = Some b /\ length b = 512%nat /\ Hybrid.verify_gpt_header b = true.
Proof. exact HybridGptProofs.verify_gpt_header_total. Qed.

Theorem C12_gpt_array_crc_over_used_entries_only_refuted :
  length (Hybrid.g_parts HybridGptProofs.one_entry_gpt) = 1%nat /\
  Hybrid.gh_num_parts (Hybrid.g_header HybridGptProofs.one_entry_gpt) = 128 /\
  exists b, Hybrid.gpt_record HybridGptProofs.one_entry_gpt = Some b /\
    Codec.dle32 (slice 88 92 b) = crc32 (slice 512 (512 + 128 * 1) b) /\
    Codec.dle32 (slice 88 92 b) <> crc32 (slice 512 (512 + 128 * 128) b) /\
    Hybrid.verify_gpt_header (firstn 512 b) = true /\
    Hybrid.verify_gpt_array_uefi (firstn 512 b) (skipn 512 b) = false.
Proof. exact HybridGptProofs.gpt_parts_crc_over_used_entries_only. Qed.

Theorem C12_backup_gpt_overwrites_refuted :
  (exists y0 y, Hybrid.hy_new true false 1 1 0 1 1 0 ([], [], [], []) ([], [], [], []) = Some y0 /\
       Hybrid.hy_update_efi y0 10 4 20480 = Some y /\ HybridGptProofs.padded_sectors (Hybrid.hy_ih y) 20480 = 40 /\
       Hybrid.secondary_write_offset (Hybrid.hy_sec y) = 7 * 512 /\
       Hybrid.secondary_write_offset (Hybrid.hy_sec y) < 34 * 512) /\
  (exists y0 y, Hybrid.hy_new true false 1 1 0 32 64 0 ([], [], [], []) ([], [], [], []) = Some y0 /\
       Hybrid.hy_update_efi y0 100 2880 10485760 = Some y /\ Hybrid.ih_padlen (Hybrid.hy_ih y) 10485760 = 0 /\
       Hybrid.secondary_write_offset (Hybrid.hy_sec y) = 10485760 - 16896).
Proof. exact HybridGptProofs.backup_gpt_overlap_refuted. Qed.

(* the backup GPT describes the same disk and partitions as the primary (GUIDs, partition entries, array CRC); only the
   header LBAs are swapped and the array is placed before the backup header.  (False of the code before fix "the backup
   GPT carries the GUIDs of the primary GPT": the two were created with independent random GUIDs.) *)
Section HybridMirror.
Import Prim Codec Hybrid HybridProofs HybridGptProofs.
Theorem C12_gpt_backup_mirrors_primary : forall mac pe id po gs gh pt pg sg y0 ext cnt iso y,
  hy_new true mac pe id po gs gh pt pg sg = Some y0 -> hy_update_efi y0 ext cnt iso = Some y ->
  let P := g_header (hy_pri y) in let S := g_header (hy_sec y) in
  g_parts (hy_sec y) = g_parts (hy_pri y) /\
  (* header: only current/backup LBA (swapped) and partition_entries_lba differ *)
  gh_current_lba S = gh_backup_lba P /\ gh_backup_lba S = gh_current_lba P /\ gh_current_lba P = 1 /\
  gh_pe_lba S = gh_backup_lba P - 32 /\ gh_pe_lba P = (if mac then 16 else 2) /\
  gh_first_usable S = gh_first_usable P /\ gh_last_usable S = gh_last_usable P /\
  gh_disk_guid S = gh_disk_guid P /\ gh_num_parts S = gh_num_parts P /\ gh_size_pe S = gh_size_pe P /\
  gpt_mirror (hy_pri y) (hy_sec y) /\
  (* recorded bytes *)
  gpt_part_data (hy_sec y) = gpt_part_data (hy_pri y) /\
  forall bp bs, gpt_record (hy_pri y) = Some bp -> gpt_record (hy_sec y) = Some bs ->
    slice 88 92 (gpt_hdr_of (hy_sec y) bs) = slice 88 92 (gpt_hdr_of (hy_pri y) bp) /\
    let n := (length bs - 512)%nat in n = (128 * 128)%nat /\ firstn n bs = skipn (length bp - n) bp.
Proof. exact HybridGptProofs.gpt_backup_mirrors_primary. Qed.
End HybridMirror.

(* Model/HybridHist.v: isohybrid over edit histories (AccountBoot + add_isohybrid / rm_isohybrid / write_fp; the hybrid object is updated only by the extent assignment of a write).  hstep / hrun are the repaired library (07829f6, 09176f7, b44c076+ed6ec41); hstep_old / hrun_old2 the rules before. *)
From PV.Base Require Prim.
From PV.Gen Require GenConst GenFun.
From PV.Model Require Names Pack Alloc Codec Eltorito Account AccountLinks AccountBoot Hybrid HybridHist.
From PV.Proofs Require HybridProofs AccountBootProofs HybridHistProofs HybridHistWrite.
Section HybridHistories.
Import PV.Base.Prim PV.Gen.GenConst PV.Gen.GenFun PV.Model.Names PV.Model.Pack PV.Model.Alloc PV.Model.Codec PV.Model.Eltorito PV.Model.Account PV.Model.AccountLinks PV.Model.AccountBoot PV.Model.Hybrid PV.Model.HybridHist PV.Proofs.HybridProofs PV.Proofs.AccountBootProofs PV.Proofs.HybridHistProofs PV.Proofs.HybridHistWrite.
Local Open Scope Z_scope.
Theorem C12_hist_refused_call_changes_nothing s o : snd (hstep s o) = Ref -> fst (hstep s o) = s.
Proof. first [exact (@hh_refused_unchanged) | apply (@hh_refused_unchanged) | intros; eapply (@hh_refused_unchanged); eassumption]. Qed.

Theorem C12_hist_rm_isohybrid_exact s :
  hstep s HRmHybrid = (with_hyb s None, Acc) /\
  hb (fst (hstep s HRmHybrid)) = hb s /\ hsigs (fst (hstep s HRmHybrid)) = hsigs s /\
  hybrid_view (fst (hstep s HRmHybrid)) = None /\
  (bwreck (hb s) = false ->
   hstep (with_hyb s None) HWrite = (with_hyb s None, Acc) /\
   hybrid_view (fst (hstep (with_hyb s None) HWrite)) = None).
Proof. first [exact (@hh_rm_hybrid_exact) | apply (@hh_rm_hybrid_exact) | intros; eapply (@hh_rm_hybrid_exact); eassumption]. Qed.

Theorem C12_hist_edits_keep_the_hybrid_object s o : is_rm_eltorito o = false -> hhyb (fst (hstep s (HBase o))) = hhyb s.
Proof. first [exact (@hh_edits_keep_hybrid) | apply (@hh_edits_keep_hybrid) | intros; eapply (@hh_edits_keep_hybrid); eassumption]. Qed.

Theorem C12_hist_rm_eltorito_removes_hybrid s :
  snd (hstep s (HBase BRmEltorito)) = Acc ->
  hhyb (fst (hstep s (HBase BRmEltorito))) = None /\ hybrid_view (fst (hstep s (HBase BRmEltorito))) = None.
Proof. first [exact (@hh_rm_eltorito_removes_hybrid) | apply (@hh_rm_eltorito_removes_hybrid) | intros; eapply (@hh_rm_eltorito_removes_hybrid); eassumption]. Qed.

Theorem C12_hist_mbr_covers_padded_image y iso :
  geom_ok y -> 0 <= iso ->
  let h := hy_ih y in
  let v := view_of y iso in
  let padded := iso + ih_padlen h iso in
  padded mod (ih_heads h * ih_sectors h * 512) = 0 /\ padded mod 512 = 0 /\
  (ih_efi h = false -> v_len v = padded) /\
  v_rba v = ih_rba h /\
  (active_visible h = true ->
   exists bh bs bc es ec,
     v_active v = [ih_part_entry h; ih_part_offset h; ih_psize h iso; bh; bs; bc; ih_ptype h;
                   ih_heads h - 1 + (ih_ehead h - (ih_heads h - 1)); es; ec] /\
     (padded / (ih_heads h * ih_sectors h * 512) <= 1024 ->
      ih_psize h iso * 512 = padded - ih_part_offset h * 512)).
Proof. first [exact (@hh_mbr_covers_image) | apply (@hh_mbr_covers_image) | intros; eapply (@hh_mbr_covers_image); eassumption]. Qed.

Theorem C12_hist_gpt_positions_after_update y ext sc iso y' :
  geom_ok y -> 0 <= iso -> iso mod 512 = 0 -> hy_update_efi y ext sc iso = Some y' ->
  let padded := iso + ih_padlen (hy_ih y) iso in
  gh_current_lba (g_header (hy_pri y')) = 1 /\
  gh_backup_lba (g_header (hy_pri y')) = gh_current_lba (g_header (hy_sec y')) /\
  gh_backup_lba (g_header (hy_sec y')) = 1 /\
  gh_current_lba (g_header (hy_sec y')) * 512 + 512 = padded /\
  gh_pe_lba (g_header (hy_sec y')) = gh_current_lba (g_header (hy_sec y')) - 32 /\
  gh_last_usable (g_header (hy_pri y')) = padded / 512 - 34 /\
  gh_last_usable (g_header (hy_sec y')) = padded / 512 - 34 /\
  ih_efi_lba (hy_ih y') = ext /\ ih_efi_count (hy_ih y') = sc /\
  parts_view (firstn 2 (g_parts (hy_pri y'))) = [gp_first_lba (hd (gpart_new true [] []) (g_parts (hy_pri y))); iso / 512 - 1; ext * 4; ext * 4 + sc - 1] /\
  parts_view (firstn 2 (g_parts (hy_sec y'))) = [gp_first_lba (hd (gpart_new true [] []) (g_parts (hy_sec y))); iso / 512 - 1; ext * 4; ext * 4 + sc - 1].
Proof. first [exact (@hh_update_efi_gpt) | apply (@hh_update_efi_gpt) | intros; eapply (@hh_update_efi_gpt); eassumption]. Qed.

Theorem C12_hist_gpt_inside_image_partial y ext sc iso y' :
  geom_ok y -> 0 <= iso -> iso mod 512 = 0 -> hy_update_efi y ext sc iso = Some y' ->
  gh_num_parts (g_header (hy_sec y)) = 128 ->
  (iso <= secondary_write_offset (hy_sec y') <-> 16896 <= ih_padlen (hy_ih y) iso) /\
  secondary_write_offset (hy_sec y') + sec_len y' = iso + ih_padlen (hy_ih y) iso.
Proof. first [exact (@hh_gpt_inside_image_partial) | apply (@hh_gpt_inside_image_partial) | intros; eapply (@hh_gpt_inside_image_partial); eassumption]. Qed.

Theorem C12_hist_gpt_inside_image_refuted :
  exists ops v, hybrid_view (hrun hinit ops) = Some v /\
                0 <= v_sec_at v /\ ~ (iso_size_of (hrun hinit ops) <= v_sec_at v).
Proof. first [exact (@hh_gpt_inside_image_refuted) | apply (@hh_gpt_inside_image_refuted) | intros; eapply (@hh_gpt_inside_image_refuted); eassumption]. Qed.

Theorem C12_write_after_accepted_history_old_refuted :
  all_acc_but_last false false w_plain_efi = true /\ all_acc_but_last false false w_two_efi = true /\
  all_acc_but_last false false w_rm_eltorito = true.
Proof. first [exact (@hh_write_succeeds_old_refuted) | apply (@hh_write_succeeds_old_refuted) | intros; eapply (@hh_write_succeeds_old_refuted); eassumption]. Qed.

Theorem C12_write_after_accepted_history_old2_refuted : all_acc_but_last true false w_shared_inode = true.
Proof. first [exact (@hh_write_succeeds_old2_refuted) | apply (@hh_write_succeeds_old2_refuted) | intros; eapply (@hh_write_succeeds_old2_refuted); eassumption]. Qed.

Theorem C12_hist_shared_inode_written :
  all_acc w_shared_inode = true /\
  let s := hrun hinit w_shared_inode in
  entry_rbas (hb s) = [26; 26] /\
  option_map v_efi (hybrid_view s) = Some [104; 4] /\ option_map v_rba (hybrid_view s) = Some 104.
Proof. first [exact (@hh_shared_inode_written) | apply (@hh_shared_inode_written) | intros; eapply (@hh_shared_inode_written); eassumption]. Qed.

Theorem C12_hist_two_names_mac :
  all_acc w_two_names = true /\
  let s := hrun hinit w_two_names in
  entry_rbas (hb s) = [26; 27; 29] /\
  option_map v_efi (hybrid_view s) = Some [108; 8] /\
  option_map v_mac (hybrid_view s) = Some [116; 12] /\
  option_map (fun v => skipn 2 (v_pri_parts v)) (hybrid_view s) = Some [108; 115; 116; 127] /\
  option_map (fun v => skipn 2 (v_sec_parts v)) (hybrid_view s) = Some [108; 115; 116; 127].
Proof. first [exact (@hh_two_names_mac) | apply (@hh_two_names_mac) | intros; eapply (@hh_two_names_mac); eassumption]. Qed.

Theorem C12_write_after_accepted_history_refuted : all_acc_but_last true true w_struct_error = true.
Proof. first [exact (@hh_write_succeeds_refuted) | apply (@hh_write_succeeds_refuted) | intros; eapply (@hh_write_succeeds_refuted); eassumption]. Qed.

Theorem C12_hist_efi_follows_moved_file :
  let pre := h_boot ++ h_efi n_efi ++ [HAddHybrid 1 7 0 32 64 None false (Some true) hh_noguid] in
  let s1 := hrun hinit (pre ++ [HWrite]) in
  let s2 := hrun hinit (pre ++ [HWrite; HBase (BAddDir [] [68]); HWrite]) in
  option_map v_efi (hybrid_view s1) = Some [4 * nth 1 (entry_rbas (hb s1)) 0; 8] /\
  option_map v_efi (hybrid_view s2) = Some [4 * nth 1 (entry_rbas (hb s2)) 0; 8] /\
  option_map v_rba (hybrid_view s2) = Some (4 * nth 0 (entry_rbas (hb s2)) 0) /\
  entry_rbas (hb s1) = [26; 27] /\ entry_rbas (hb s2) = [27; 28].
Proof. first [exact (@hh_efi_follows_moved_file) | apply (@hh_efi_follows_moved_file) | intros; eapply (@hh_efi_follows_moved_file); eassumption]. Qed.

Theorem C12_hist_extent_assignment_never_raises b y : hy_wf y -> p_ok (push b y) = true /\ hy_wf (p_hy (push b y)).
Proof. first [exact (@hh_push_good) | apply (@hh_push_good) | intros; eapply (@hh_push_good); eassumption]. Qed.

Theorem C12_hist_every_history_keeps_hybrid_well_formed ops : hwf (hrun hinit ops).
Proof. first [exact (@hh_run_wf) | apply (@hh_run_wf) | intros; eapply (@hh_run_wf); eassumption]. Qed.

Theorem C12_write_after_any_history ops :
  let s := hrun hinit ops in
  bwreck (hb s) = false ->
  match hhyb s with
  | None => hstep s HWrite = (s, Acc)
  | Some y =>
      p_ok (push (hb s) y) = true /\
      (snd (hstep s HWrite) = Acc <-> record_ok (p_hy (push (hb s) y)) (iso_size_of s) = true) /\
      (snd (hstep s HWrite) <> Acc -> snd (hstep s HWrite) = Late)
  end.
Proof. first [exact (@hh_write_succeeds) | apply (@hh_write_succeeds) | intros; eapply (@hh_write_succeeds); eassumption]. Qed.

Theorem C12_hist_record_ok_plain y iso :
  ih_efi (hy_ih y) = false ->
  record_ok y iso = match ih_record_mbr (hy_ih y) iso with Some _ => true | None => false end.
Proof. first [exact (@hh_record_ok_plain) | apply (@hh_record_ok_plain) | intros; eapply (@hh_record_ok_plain); eassumption]. Qed.

End HybridHistories.

(* Model/HybridParse.v: what open reconstructs of a hybrid image (IsoHybrid.parse, GPT parsers, the _open_fp hybrid block) composed with the HybridHist writer; Proofs/HybridHistRba.v: which entry feeds the MBR boot address.  *_old = rules before f7c6de3 / d0ed30b / 9b70343. *)
From PV.Base Require Prim.
From PV.Gen Require GenConst GenFun.
From PV.Model Require Names Pack Alloc Codec Eltorito Account AccountLinks AccountBoot Hybrid HybridHist HybridParse.
From PV.Proofs Require CodecProofs HybridProofs HybridHistProofs HybridHistRba HybridParseProofs.
Section HybridReopen.
Import PV.Base.Prim PV.Gen.GenConst PV.Gen.GenFun PV.Model.Names PV.Model.Pack PV.Model.Alloc PV.Model.Codec PV.Model.Eltorito PV.Model.Account PV.Model.AccountLinks PV.Model.AccountBoot PV.Model.Hybrid PV.Model.HybridHist PV.Model.HybridParse PV.Proofs.CodecProofs PV.Proofs.HybridProofs PV.Proofs.HybridHistProofs PV.Proofs.HybridHistRba PV.Proofs.HybridParseProofs.
Local Open Scope Z_scope.
Theorem C12_hist_rba_only_from_initial_entry_step s st (e : henc) :
  let k := fst (snd e) in
  let i := fst (snd (snd e)) in
  let pf := fst (snd (snd (snd e))) in
  (k <> 0%nat -> ih_rba (hy_ih (p_hy (push_step s st e))) = ih_rba (hy_ih (p_hy st))) /\
  (k = 0%nat -> pf = 0 -> p_ok st = true -> AccountBoot.mem k (p_ents st) = false ->
   ih_rba (hy_ih (p_hy (push_step s st e))) = rba_of s i * 4 /\
   AccountBoot.mem 0%nat (p_ents (push_step s st e)) = true) /\
  (AccountBoot.mem k (p_ents st) = true -> push_step s st e = st).
Proof. first [exact (@hh_push_step_rba) | apply (@hh_push_step_rba) | intros; eapply (@hh_push_step_rba); eassumption]. Qed.

Theorem C12_hist_rba_is_initial_entry :
  all_acc w_second_section = true /\
  let s := hrun hinit w_second_section in
  entry_rbas (hb s) = [26; 27] /\
  option_map v_rba (hybrid_view s) = Some (4 * nth 0 (entry_rbas (hb s)) 0).
Proof. first [exact (@hh_rba_is_initial_entry) | apply (@hh_rba_is_initial_entry) | intros; eapply (@hh_rba_is_initial_entry); eassumption]. Qed.

Theorem C12_hist_rba_is_initial_entry_old_refuted :
  let s := hrun_old2 hinit w_second_section in
  entry_rbas (hb s) = [26; 27] /\ option_map v_rba (hybrid_view s) = Some 108.
Proof. first [exact (@hh_rba_is_initial_entry_old_refuted) | apply (@hh_rba_is_initial_entry_old_refuted) | intros; eapply (@hh_rba_is_initial_entry_old_refuted); eassumption]. Qed.

Theorem C12_reopen_roundtrip_old y iso :
  ih_wf (hy_ih y) -> ih_efi (hy_ih y) = false ->
  ih_heads (hy_ih y) * ih_sectors (hy_ih y) * 512 <> 0 -> record_ok y iso = true ->
  hp_reopen_old y iso =
  OHy (mk_hy (ih_set_sectors (hy_ih y) (parsed_sectors (hy_ih y) iso)) (empty_gpt true) (empty_gpt false)).
Proof. first [exact (@hp_reopen_roundtrip_old) | apply (@hp_reopen_roundtrip_old) | intros; eapply (@hp_reopen_roundtrip_old); eassumption]. Qed.

Theorem C12_reopen_gives_the_written_hybrid y iso :
  ih_wf (hy_ih y) -> ih_efi (hy_ih y) = false ->
  1 <= ih_sectors (hy_ih y) <= 63 -> 1 <= ih_heads (hy_ih y) <= 256 -> 0 < iso -> record_ok y iso = true ->
  hp_reopen y iso = OHy (mk_hy (hy_ih y) (empty_gpt true) (empty_gpt false)).
Proof. first [exact (@hp_reopen_roundtrip) | apply (@hp_reopen_roundtrip) | intros; eapply (@hp_reopen_roundtrip); eassumption]. Qed.

Theorem C12_written_hybrid_image_always_opens y iso :
  ih_wf (hy_ih y) -> ih_efi (hy_ih y) = false ->
  1 <= ih_sectors (hy_ih y) <= 63 -> 1 <= ih_heads (hy_ih y) <= 256 -> 0 < iso -> record_ok y iso = true ->
  exists y', hp_reopen y iso = OHy y'.
Proof. first [exact (@hp_reopen_always_opens) | apply (@hp_reopen_always_opens) | intros; eapply (@hp_reopen_always_opens); eassumption]. Qed.

Theorem C12_open_write_is_a_fixpoint_for_hybrid y iso :
  ih_wf (hy_ih y) -> ih_efi (hy_ih y) = false ->
  1 <= ih_sectors (hy_ih y) <= 63 -> 1 <= ih_heads (hy_ih y) <= 256 -> 0 < iso -> record_ok y iso = true ->
  forall y', hp_reopen y iso = OHy y' -> hy_record y' iso = hy_record y iso /\ image_len y' iso = image_len y iso.
Proof. first [exact (@hp_rewrite_identical) | apply (@hp_rewrite_identical) | intros; eapply (@hp_rewrite_identical); eassumption]. Qed.

Theorem C12_open_write_fixpoint_old_refuted :
  reopened_geometry_old (mk_plain 1 1 32 64) 110592 = [64; 31; 0] /\
  reopened_geometry_old (mk_plain 1 0 32 1) 5062656 = [1; 63; 0] /\
  reopened_geometry_old (mk_plain 1 0 1 1) 655360 = [1; 4; 0] /\
  reopened_geometry_old (mk_plain 1 0 32 64) 110592 = [64; 32; 1] /\
  reopened_geometry_old (mk_plain 1 0 63 256) 110592 = [256; 63; 1] /\
  reopened_geometry_old (mk_plain 1 0 63 255) 110592 = [255; 63; 1] /\
  reopened_geometry_old (mk_plain 4 0 32 64) 110592 = [64; 32; 1].
Proof. first [exact (@hp_rewrite_identical_old_refuted) | apply (@hp_rewrite_identical_old_refuted) | intros; eapply (@hp_rewrite_identical_old_refuted); eassumption]. Qed.

Theorem C12_open_write_fixpoint_witnesses :
  reopened_geometry (mk_plain 1 1 32 64) 110592 = [64; 32; 1] /\
  reopened_geometry (mk_plain 1 0 32 1) 5062656 = [1; 32; 1] /\
  reopened_geometry (mk_plain 1 0 1 1) 655360 = [1; 1; 1] /\
  reopened_geometry (mk_plain 1 16 1 1) 110592 = [1; 1; 1] /\
  reopened_geometry (mk_plain 1 0 63 256) 110592 = [256; 63; 1] /\
  reopened_geometry (mk_plain 4 64 63 255) 110592 = [255; 63; 1].
Proof. first [exact (@hp_rewrite_identical_witnesses) | apply (@hp_rewrite_identical_witnesses) | intros; eapply (@hp_rewrite_identical_witnesses); eassumption]. Qed.

Theorem C12_reopened_zero_sectors_old :
  match mk_plain 1 16 1 1 with
  | Some y => match hp_reopen_old y 110592 with
              | OHy y' => ih_sectors (hy_ih y') = 0 /\ hp_written y' 110592 = None
              | _ => False
              end
  | None => False
  end.
Proof. first [exact (@hp_reopened_zero_sectors_old) | apply (@hp_reopened_zero_sectors_old) | intros; eapply (@hp_reopened_zero_sectors_old); eassumption]. Qed.

Theorem C12_reopen_roundtrip_efi_mac :
  open_fields (reopen_of w_two_names) = written_fields w_two_names /\
  length (written_fields w_two_names) = 7%nat /\ rewrite_same_of w_two_names = true.
Proof. first [exact (@hp_reopen_roundtrip_efi_mac) | apply (@hp_reopen_roundtrip_efi_mac) | intros; eapply (@hp_reopen_roundtrip_efi_mac); eassumption]. Qed.

Theorem C12_reopen_no_active_entry_old :
  let s := hrun_old2 hinit w_pe2_efi in
  match hhyb s with Some y => hp_reopen y (iso_size_of s) = ORaise | None => False end.
Proof. first [exact (@hp_reopen_no_active_entry_old) | apply (@hp_reopen_no_active_entry_old) | intros; eapply (@hp_reopen_no_active_entry_old); eassumption]. Qed.

Theorem C12_part_entry_refused :
  let pre := h_boot ++ h_efi n_efi ++ h_efi n_efi2 in
  let s := hrun hinit pre in
  map (fun o => out_code (snd (hstep s o)))
      [HAddHybrid 2 7 0 32 64 None false (Some true) hh_noguid;
       HAddHybrid 3 7 0 32 64 None true (Some true) hh_noguid;
       HAddHybrid 0 7 0 32 64 None false None hh_noguid;
       HAddHybrid 5 7 0 32 64 None false None hh_noguid;
       HAddHybrid 3 7 0 32 64 None false (Some true) hh_noguid;
       HAddHybrid 2 7 0 32 64 None false None hh_noguid] = [0; 0; 0; 0; 1; 1].
Proof. first [exact (@hp_part_entry_refused) | apply (@hp_part_entry_refused) | intros; eapply (@hp_part_entry_refused); eassumption]. Qed.

Theorem C12_hybrid_parse_rejects :
  let b := mbr_bytes (mk_plain 1 0 32 64) 110592 in
  hp_parse (repeat 0 32768) = HFalse /\                    (* a zero system area: not a hybrid *)
  hp_parse (set_byte 0 0 b) = HFalse /\                    (* neither ORIG_HEADER nor MAC_AFP *)
  hp_parse (firstn 511 b) = HRaise /\                      (* less than 512 bytes *)
  hp_parse (set_byte 436 1 b) = HRaise /\                  (* unused1 <> 0 *)
  hp_parse (set_byte 444 1 b) = HRaise /\                  (* unused2 <> 0 *)
  hp_parse (set_byte 446 0 b) = HRaise /\                  (* no entry with 0x80 *)
  hp_parse (set_byte 511 0 b) = HRaise /\                  (* tail is not 55 aa *)
  (exists y, hp_parse b = HOk y).
Proof. first [exact (@hp_parse_rejects) | apply (@hp_parse_rejects) | intros; eapply (@hp_parse_rejects); eassumption]. Qed.

Theorem C12_plain_image_is_not_hybrid : forall n, hp_open (mk_img (repeat 0 32768) (-1) [] n) = ONone.
Proof. first [exact (@hp_open_plain_image) | apply (@hp_open_plain_image) | intros; eapply (@hp_open_plain_image); eassumption]. Qed.

Theorem C12_edit_after_reopen :
  let s := hrun hinit w_two_names in
  let s2 := hrun (set_hyb s (reopen_of w_two_names)) [HBase (BAddDir [] [68]); HWrite] in
  entry_rbas (hb s2) = [27; 28; 30] /\
  option_map v_rba (hybrid_view s2) = Some 108 /\
  option_map v_efi (hybrid_view s2) = Some [112; 8] /\
  option_map v_mac (hybrid_view s2) = Some [120; 12] /\
  option_map (fun v => skipn 2 (v_pri_parts v)) (hybrid_view s2) = Some [112; 119; 120; 131] /\
  option_map (fun v => skipn 2 (v_sec_parts v)) (hybrid_view s2) = Some [112; 119; 120; 131].
Proof. first [exact (@hp_edit_after_reopen) | apply (@hp_edit_after_reopen) | intros; eapply (@hp_edit_after_reopen); eassumption]. Qed.

Theorem C12_rm_add_after_reopen :
  let s := hrun hinit w_two_names in
  let s2 := hrun (set_hyb s (reopen_of w_two_names))
                 [HRmHybrid; HAddHybrid 1 9 0 63 255 None false (Some true) hh_noguid; HWrite] in
  option_map v_efi (hybrid_view s2) = Some [108; 8] /\ option_map v_mac (hybrid_view s2) = Some [] /\
  option_map v_len (hybrid_view s2) = Some 8225280.
Proof. first [exact (@hp_rm_add_after_reopen) | apply (@hp_rm_add_after_reopen) | intros; eapply (@hp_rm_add_after_reopen); eassumption]. Qed.

End HybridReopen.

(* Proofs/HybridHistRbaGen.v: the MBR boot address after the extent assignment is four times the sector of the INITIAL entry, for every history (any number of further entries, sections, platforms, hard-link names, placed or unplaced files). *)
From PV.Base Require Prim.
From PV.Gen Require GenConst GenFun.
From PV.Model Require Names Pack Alloc Codec Eltorito Account AccountLinks AccountBoot Hybrid HybridHist.
From PV.Proofs Require HybridProofs HybridHistProofs HybridHistWrite HybridHistRba HybridHistRbaGen.
Section HybridRbaGeneral.
Import PV.Base.Prim PV.Gen.GenConst PV.Gen.GenFun PV.Model.Names PV.Model.Pack PV.Model.Alloc PV.Model.Codec PV.Model.Eltorito PV.Model.Account PV.Model.AccountLinks PV.Model.AccountBoot PV.Model.Hybrid PV.Model.HybridHist PV.Proofs.HybridProofs PV.Proofs.HybridHistProofs PV.Proofs.HybridHistWrite PV.Proofs.HybridHistRba PV.Proofs.HybridHistRbaGen.
Local Open Scope Z_scope.
Theorem C12_mbr_boot_address_is_the_initial_entrys b bt y i0 rest :
  hy_wf y -> bboot b = Some bt -> binos bt = i0 :: rest -> v_platform_id (c_validation (bcat bt)) = 0 ->
  ih_rba (hy_ih (p_hy (push b y))) = rba_of b i0 * 4 /\ p_ok (push b y) = true.
Proof. first [exact (@hh_rba_is_initial_entry_gen) | apply (@hh_rba_is_initial_entry_gen) | intros; eapply (@hh_rba_is_initial_entry_gen); eassumption]. Qed.

Theorem C12_mbr_boot_address_after_every_history ops bt y i0 rest :
  let s := hrun hinit ops in
  hhyb s = Some y -> bboot (hb s) = Some bt -> binos bt = i0 :: rest ->
  v_platform_id (c_validation (bcat bt)) = 0 ->
  ih_rba (hy_ih (p_hy (push (hb s) y))) = rba_of (hb s) i0 * 4.
Proof. first [exact (@hh_rba_is_initial_entry_run) | apply (@hh_rba_is_initial_entry_run) | intros; eapply (@hh_rba_is_initial_entry_run); eassumption]. Qed.

Example C12_mbr_boot_address_example : rba_gen_chk (hrun hinit (removelast w_two_names)) = true.
Proof. first [exact (@hh_rba_gen_example) | apply (@hh_rba_gen_example) | intros; eapply (@hh_rba_gen_example); eassumption]. Qed.

End HybridRbaGeneral.
