(* C12 -- Hybrid (MBR/GPT/APM) boot data.  Proved (closed) about functions TRANSLATED from /repo:
   IsoHybrid._calc_cc pads every image size to a whole number of cylinders for every geometry
   (0 <= pad < cylinder, (size+pad) mod cylinder = 0) and the cylinder count is exact up to 1024
   cylinders; beyond 1024 it is clamped and no longer covers the image (C12_cylinders_clamped:
   explicit, with witness -- the cap copies isohybrid.c; recorded as a known finding); the table
   driven CRC-32 used for the GPT headers equals the bitwise reflected CRC-32 (0xEDB88320) for ALL
   byte strings.  MBR/GPT/APM field contents are decided on generated hybrid images by the
   independent reader. *)
From Coq Require Import ZArith List Bool.
From PV.Base Require Import Prim.
From PV.Gen Require Import GenFun.
From PV.Model Require Import Checksums.
From PV.Proofs Require Import ChecksumsProofs ChecksumsArithProofs.
Import ListNotations.
Local Open Scope Z_scope.

Theorem C12_padding_to_whole_cylinders : forall h s size, 0 < h -> 0 < s -> 0 <= size ->
  let '(cc, pad) := calc_cc h s size in
  let cyl := h * s * 512 in
  0 <= pad < cyl /\ (size + pad) mod cyl = 0 /\ cc = Z.min ((size + pad) / cyl) 1024.
Proof. exact calc_cc_padding. Qed.

Theorem C12_cylinders_cover_image_partial : forall h s size, 0 < h -> 0 < s -> 0 <= size ->
  let '(cc, pad) := calc_cc h s size in
  let cyl := h * s * 512 in
  (size + pad) / cyl <= 1024 -> cc * cyl = size + pad.
Proof. exact calc_cc_exact_when_small. Qed.

Theorem C12_cylinders_clamped : forall h s size, 0 < h -> 0 < s -> 0 <= size ->
  let '(cc, pad) := calc_cc h s size in
  let cyl := h * s * 512 in
  1024 < (size + pad) / cyl -> cc = 1024 /\ cc * cyl < size + pad.
Proof. exact calc_cc_clamped. Qed.

Theorem C12_cylinders_cover_image_refuted :
  exists h s size, 0 < h /\ 0 < s /\ 0 <= size /\
    let '(cc, pad) := calc_cc h s size in ~ (cc * (h * s * 512) = size + pad) /\ cc * (h * s * 512) < size + pad.
Proof. exact calc_cc_exact_refuted. Qed.

Theorem C12_gpt_crc_is_crc32 : forall data, bytes data -> crc32 data = crc32_bit data.
Proof. exact crc32_spec. Qed.

Theorem C12_crc_reference_value : crc32_bit [49; 50; 51; 52; 53; 54; 55; 56; 57] = 0xCBF43926.
Proof. exact (proj2 crc_check_values). Qed.
