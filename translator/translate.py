"""Fail-closed translator: a small subset of Python (integer/boolean arithmetic, straight-line
code, if/elif/else, for-loops over bytes / enumerate / range with accumulators, nested
lambdas-as-defs) -> Gallina over Z.  Anything outside the subset, a missing function or a
changed parameter list aborts with TranslationError: a broken tie, never a silent skip.

Python semantics relied on (part of the trusted base, DESIGN.md section 7):
  int is unbounded (Z); // and % are floor division (= Z.div / Z.modulo, also for negative
  operands); & | ^ << >> on ints are the two's-complement operations of Z.land/lor/lxor/
  shiftl/shiftr; subscripting a tuple/bytes with an in-range non-negative index; iteration
  over bytes yields ints 0..255.  Negative subscripts and out-of-range subscripts (IndexError)
  are NOT modelled: znth returns 0.
"""
import ast
import json
import os
import struct


class TranslationError(Exception):
    pass


def zlit(n):
    return '(%d)' % n if n < 0 else '%d' % n


BINOPS = {ast.Add: 'Z.add', ast.Sub: 'Z.sub', ast.Mult: 'Z.mul', ast.FloorDiv: 'Z.div',
          ast.Mod: 'Z.modulo', ast.BitAnd: 'Z.land', ast.BitOr: 'Z.lor', ast.BitXor: 'Z.lxor',
          ast.LShift: 'Z.shiftl', ast.RShift: 'Z.shiftr'}
CMPOPS = {ast.Eq: 'Z.eqb', ast.Lt: 'Z.ltb', ast.LtE: 'Z.leb', ast.Gt: 'Z.gtb', ast.GtE: 'Z.geb'}


class Item:
    """One function to translate."""

    def __init__(self, path, qual, coqname, params, selfs=None, out_selfs=None, calls=None,
                 consts=None, identity=(), const_true=(), const_false=(), effects=None, partial=False,
                 reads=None, methods=None, skip=(), out_locals=None,
                 objlists=None, objvars=None, out_lists=None, file='GenFun.v'):
        self.path = path            # file relative to repo
        self.qual = qual            # 'func' or 'Class.method'
        self.coqname = coqname
        self.params = params        # [(pyname, type)], types: Z, bool, bytes  (self/cls excluded)
        self.selfs = selfs or {}    # self.attr read as parameter self_attr : type
        self.out_selfs = out_selfs or []   # self attributes written; returned after the result
        self.calls = calls or {}    # python callable text -> coq function name
        self.consts = consts or {}  # python name/attr text -> coq constant name (type 'table' or 'Z')
        self.identity = set(identity)      # calls that return their argument unchanged
        self.const_true = set(const_true)  # source text of tests known to be True for our typing
        self.const_false = set(const_false)  # source text of tests known to be False for our typing
        # calls executed for their effect on an external object: python callable text -> the pseudo attribute
        # (a `self_<name>` parameter / result) that receives the call's FIRST argument
        self.effects = effects or {}
        # `x = self._fp.read(n)`: python callable text -> (coq function, data attribute, position attribute); translated as
        # let '(x, self_<pos>) := f self_<data> self_<pos> n
        self.reads = reads or {}
        # `x = self.other()`: python callable text -> (coq function (partial), [self attributes passed], [self attributes returned])
        self.methods = methods or {}
        self.skip = set(skip)       # source text of statements without meaning for the model (buffer views)
        self.out_locals = out_locals or {}   # local name -> (type, initial Coq value): returned after the result
        self.partial = partial      # raise -> None, return x -> Some x
        # lists of objects read/written attribute-wise: python text 'self.children' ->
        # (prefix, [attr...]); attribute a of element i is element i of the Coq list <prefix>_<a>
        self.objlists = objlists or {}
        self.objvars = objvars or {}       # local variable bound to one element -> python text of its list
        self.out_lists = out_lists or []   # Coq list names returned after the result
        self.file = file


class FunTranslator:
    def __init__(self, item, fn, module_tree, class_node):
        self.item = item
        self.fn = fn
        self.module_tree = module_tree
        self.class_node = class_node
        self.retwrap = (lambda s: '(Some %s)' % s) if item.partial else (lambda s: s)

    def err(self, node, msg):
        raise TranslationError('%s:%s:%s: %s' % (self.item.path, self.item.qual,
                                                 getattr(node, 'lineno', '?'), msg))

    # ---- expressions: return (coq text, type)
    def src(self, node):
        return ast.unparse(node)

    def expr(self, e, env):
        it = self.item
        s = self.src(e)
        if s in it.consts:
            nm, ty = it.consts[s]
            return nm, ty
        if isinstance(e, ast.Constant):
            if isinstance(e.value, bool):
                return ('true' if e.value else 'false'), 'bool'
            if isinstance(e.value, int):
                return zlit(e.value), 'Z'
            if isinstance(e.value, (bytes, str)):
                # a bytes / ASCII str literal is the list of its byte values
                raw = e.value if isinstance(e.value, bytes) else e.value.encode('ascii')
                return '[' + '; '.join(str(x) for x in raw) + ']', 'bytes'
            self.err(e, 'unsupported constant %r' % (e.value,))
        if isinstance(e, ast.Name):
            if e.id in env:
                return e.id, env[e.id]
            self.err(e, 'unknown name %s' % e.id)
        if isinstance(e, ast.Attribute):
            if isinstance(e.value, ast.Name) and e.value.id == 'self':
                nm = 'self_' + e.attr
                if nm in env:
                    return nm, env[nm]
            if isinstance(e.value, ast.Subscript) and self.src(e.value.value) in it.objlists \
                    and not isinstance(e.value.slice, ast.Slice):
                prefix, attrs = it.objlists[self.src(e.value.value)]
                if e.attr not in attrs:
                    self.err(e, 'attribute %s of %s is not declared' % (e.attr, prefix))
                return '(znth %s %s_%s)' % (self.zexpr(e.value.slice, env), prefix, e.attr), 'Z'
            if isinstance(e.value, ast.Name) and isinstance(env.get(e.value.id), tuple):
                _, prefix, idx = env[e.value.id]
                attrs = dict(it.objlists.values())[prefix]
                if e.attr not in attrs:
                    self.err(e, 'attribute %s of %s is not declared' % (e.attr, prefix))
                return '(znth %s %s_%s)' % (idx, prefix, e.attr), 'Z'
            self.err(e, 'unsupported attribute %s' % s)
        if isinstance(e, ast.BinOp):
            if isinstance(e.op, ast.Div):
                self.err(e, 'float division outside int(a / b)')
            if type(e.op) not in BINOPS:
                self.err(e, 'unsupported operator')
            a = self.zexpr(e.left, env)
            b = self.zexpr(e.right, env)
            return '(%s %s %s)' % (BINOPS[type(e.op)], a, b), 'Z'
        if isinstance(e, ast.UnaryOp):
            if isinstance(e.op, ast.USub):
                return '(Z.opp %s)' % self.zexpr(e.operand, env), 'Z'
            if isinstance(e.op, ast.Invert):
                return '(Z.lnot %s)' % self.zexpr(e.operand, env), 'Z'
            if isinstance(e.op, ast.Not):
                return '(negb %s)' % self.bexpr(e.operand, env), 'bool'
            self.err(e, 'unsupported unary operator')
        if isinstance(e, ast.Compare):
            parts = []
            left = e.left
            for op, right in zip(e.ops, e.comparators):
                a, ta = self.expr(left, env)
                if ta == 'bytes':
                    # bytes/str equality and membership in a tuple of literals
                    if isinstance(op, (ast.In, ast.NotIn)) and isinstance(right, ast.Tuple) and right.elts:
                        alts = [self.expr(x, env) for x in right.elts]
                    elif isinstance(op, (ast.Eq, ast.NotEq)):
                        alts = [self.expr(right, env)]
                    else:
                        self.err(e, 'unsupported comparison on bytes')
                    if any(t != 'bytes' for _, t in alts):
                        self.err(e, 'bytes compared with non-bytes')
                    out = '(py_bytes_eqb %s %s)' % (a, alts[0][0])
                    for x, _ in alts[1:]:
                        out = '(orb %s (py_bytes_eqb %s %s))' % (out, a, x)
                    if isinstance(op, (ast.NotIn, ast.NotEq)):
                        out = '(negb %s)' % out
                    parts.append(out)
                    left = right
                    continue
                a = self.zexpr(left, env)
                b = self.zexpr(right, env)
                if isinstance(op, ast.NotEq):
                    parts.append('(negb (Z.eqb %s %s))' % (a, b))
                elif type(op) in CMPOPS:
                    parts.append('(%s %s %s)' % (CMPOPS[type(op)], a, b))
                else:
                    self.err(e, 'unsupported comparison')
                left = right
            out = parts[0]
            for p in parts[1:]:
                out = '(andb %s %s)' % (out, p)
            return out, 'bool'
        if isinstance(e, ast.BoolOp):
            f = 'andb' if isinstance(e.op, ast.And) else 'orb'
            vals = [self.bexpr(v, env) for v in e.values]
            out = vals[0]
            for v in vals[1:]:
                out = '(%s %s %s)' % (f, out, v)
            return out, 'bool'
        if isinstance(e, ast.IfExp):
            c = self.bexpr(e.test, env)
            a, ta = self.expr(e.body, env)
            b, tb = self.expr(e.orelse, env)
            if ta != tb:
                self.err(e, 'if-expression branches of different type')
            return '(if %s then %s else %s)' % (c, a, b), ta
        if isinstance(e, ast.Tuple):
            xs = [self.expr(x, env) for x in e.elts]
            return '(' + ', '.join(x for x, _ in xs) + ')', 'tuple'
        if isinstance(e, ast.Subscript):
            if isinstance(e.slice, ast.Slice):
                self.err(e, 'slices are not supported')
            base, tb = self.expr(e.value, env)
            if tb not in ('bytes', 'table'):
                self.err(e, 'subscript of non-sequence')
            return '(znth %s %s)' % (self.zexpr(e.slice, env), base), 'Z'
        if isinstance(e, ast.Call):
            fs = self.src(e.func)
            if e.keywords:
                self.err(e, 'keyword arguments')
            if fs in it.identity:
                if len(e.args) != 1:
                    self.err(e, 'identity call arity')
                return self.expr(e.args[0], env)
            if fs == 'struct.calcsize':
                return zlit(self.calcsize(e.args[0])), 'Z'
            if fs == 'len' and self.src(e.args[0]) in it.objlists:
                prefix, attrs = it.objlists[self.src(e.args[0])]
                return '(Z.of_nat (Datatypes.length %s_%s))' % (prefix, attrs[0]), 'Z'
            if fs == 'len':
                a, ta = self.expr(e.args[0], env)
                if ta not in ('bytes', 'table'):
                    self.err(e, 'len of non-sequence')
                return '(Z.of_nat (Datatypes.length %s))' % a, 'Z'
            if fs in ('min', 'max') and len(e.args) == 2:
                return '(Z.%s %s %s)' % (fs, self.zexpr(e.args[0], env), self.zexpr(e.args[1], env)), 'Z'
            if fs == 'abs' and len(e.args) == 1:
                return '(Z.abs %s)' % self.zexpr(e.args[0], env), 'Z'
            if fs == 'int' and len(e.args) == 1 and isinstance(e.args[0], ast.BinOp) \
                    and isinstance(e.args[0].op, ast.Div):
                # int(a / b): truncation toward zero (exact while the float quotient is exact)
                return '(Z.quot %s %s)' % (self.zexpr(e.args[0].left, env),
                                           self.zexpr(e.args[0].right, env)), 'Z'
            if fs in env and env[fs] == 'identfun':
                return self.expr(e.args[0], env)
            if fs in env and env[fs] == 'fun':
                return '(%s %s)' % (fs, ' '.join(self.expr(a, env)[0] for a in e.args)), 'Z'
            if fs in it.calls:
                nm, ty = it.calls[fs]
                return '(%s %s)' % (nm, ' '.join(self.expr(a, env)[0] for a in e.args)), ty
            self.err(e, 'unsupported call %s' % fs)
        self.err(e, 'unsupported expression %s' % type(e).__name__)

    def zexpr(self, e, env):
        s, t = self.expr(e, env)
        if t != 'Z':
            self.err(e, 'expected int, got %s in %s' % (t, self.src(e)))
        return s

    def bexpr(self, e, env):
        if self.src(e) in self.item.const_true:
            return 'true'
        if self.src(e) in self.item.const_false:
            return 'false'
        s, t = self.expr(e, env)
        if t == 'bool':
            return s
        if t == 'Z':
            return '(negb (Z.eqb %s 0))' % s
        if t in ('bytes', 'table'):
            return '(negb (Z.eqb (Z.of_nat (Datatypes.length %s)) 0))' % s
        self.err(e, 'no truth value for type %s' % t)

    def calcsize(self, arg):
        s = self.src(arg)
        if isinstance(arg, ast.Attribute) and isinstance(arg.value, ast.Name) and arg.value.id in ('cls', 'self') \
                and self.class_node is not None:
            for st in self.class_node.body:
                if isinstance(st, ast.Assign) and len(st.targets) == 1 and isinstance(st.targets[0], ast.Name) \
                        and st.targets[0].id == arg.attr and isinstance(st.value, ast.Constant) \
                        and isinstance(st.value.value, str):
                    return struct.calcsize(st.value.value)
        if isinstance(arg, ast.Constant) and isinstance(arg.value, str):
            return struct.calcsize(arg.value)
        self.err(arg, 'cannot evaluate struct.calcsize(%s)' % s)

    # ---- statements
    def assigned(self, stmts):
        out = []
        for st in stmts:
            if self.src(st) in self.item.skip:
                continue
            if isinstance(st, ast.Assign):
                for t in st.targets:
                    out += self.target_names(t)
            elif isinstance(st, ast.AugAssign):
                out += self.target_names(st.target)
            elif self.effect_of(st) is not None:
                out.append(self.effect_of(st)[0])
            elif isinstance(st, ast.If):
                out += self.assigned(st.body) + self.assigned(st.orelse)
            elif isinstance(st, ast.For):
                out += self.assigned(st.body)
        res = []
        for x in out:
            if x not in res:
                res.append(x)
        return res

    def effect_of(self, st):
        """`self._fp.seek(pos, 0)` and the like: (pseudo attribute name, first argument) or None"""
        if isinstance(st, ast.Expr) and isinstance(st.value, ast.Call) and self.src(st.value.func) in self.item.effects \
                and st.value.args and not st.value.keywords:
            return 'self_' + self.item.effects[self.src(st.value.func)], st.value.args[0]
        return None

    def target_names(self, t):
        if isinstance(t, ast.Name):
            return [t.id]
        if isinstance(t, ast.Attribute) and isinstance(t.value, ast.Name) and t.value.id == 'self':
            return ['self_' + t.attr]
        if isinstance(t, ast.Attribute) and isinstance(t.value, ast.Name) and t.value.id in self.item.objvars:
            prefix, attrs = self.item.objlists[self.item.objvars[t.value.id]]
            if t.attr not in attrs:
                self.err(t, 'attribute %s of %s is not declared' % (t.attr, prefix))
            return ['%s_%s' % (prefix, t.attr)]
        if isinstance(t, ast.Tuple):
            r = []
            for x in t.elts:
                r += self.target_names(x)
            return r
        self.err(t, 'unsupported assignment target')

    def terminates(self, stmts):
        """True if every path through stmts ends in return/raise."""
        if not stmts:
            return False
        last = stmts[-1]
        if isinstance(last, (ast.Return, ast.Raise)):
            return True
        if isinstance(last, ast.If):
            return self.terminates(last.body) and self.terminates(last.orelse)
        return False

    def has_return(self, stmts):
        for st in stmts:
            for n in ast.walk(st):
                if isinstance(n, (ast.Return, ast.Raise, ast.Break, ast.Continue)):
                    return True
        return False

    def is_guard(self, st):
        """`if not self._initialized: raise ...` and friends: object-state guards, dropped."""
        return isinstance(st, ast.If) and not st.orelse and len(st.body) == 1 and \
            isinstance(st.body[0], ast.Raise) and '_initialized' in self.src(st.test)

    def tuple_of(self, names):
        if len(names) == 1:
            return names[0]
        return '(' + ', '.join(names) + ')'

    def pat_of(self, names):
        if len(names) == 1:
            return names[0]
        return "'(" + ', '.join(names) + ')'

    def block(self, stmts, env, tail):
        """Translate stmts; `tail(env)` gives the expression used when control falls off the end."""
        if not stmts:
            return tail(env)
        st, rest = stmts[0], stmts[1:]
        if isinstance(st, ast.Expr) and isinstance(st.value, ast.Constant) and isinstance(st.value.value, str):
            return self.block(rest, env, tail)
        if self.is_guard(st):
            return self.block(rest, env, tail)
        if self.src(st) in self.item.skip:
            return self.block(rest, env, tail)
        if isinstance(st, ast.Assign) and len(st.targets) == 1 and isinstance(st.targets[0], ast.Name) \
                and isinstance(st.value, ast.Call) and not st.value.keywords:
            fs = self.src(st.value.func)
            x = st.targets[0].id
            if fs in self.item.reads and len(st.value.args) == 1:
                f, data, pos = self.item.reads[fs]
                env2 = dict(env)
                env2[x] = 'bytes'
                return "let '(%s, self_%s) := %s self_%s self_%s %s in\n  %s" % (x, pos, f, data, pos, self.zexpr(st.value.args[0], env),
                                                                              self.block(rest, env2, tail))
            if fs in self.item.methods and not st.value.args:
                if not self.item.partial:
                    self.err(st, 'method call in a function not declared partial')
                f, ins, outs = self.item.methods[fs]
                env2 = dict(env)
                env2[x] = 'bytes'
                return 'match %s %s with\n  | Some (%s) => %s\n  | None => None end' % (
                    f, ' '.join('self_' + a for a in ins), ', '.join([x] + ['self_' + a for a in outs]), self.block(rest, env2, tail))
        if self.effect_of(st) is not None:
            nm, arg = self.effect_of(st)
            env2 = dict(env)
            env2[nm] = 'Z'
            return 'let %s := %s in\n  %s' % (nm, self.zexpr(arg, env), self.block(rest, env2, tail))
        if isinstance(st, ast.Return):
            if st.value is None:
                self.err(st, 'bare return')
            s, t = self.expr(st.value, env)
            outs = ['self_' + x for x in self.item.out_selfs] + list(self.item.out_lists) + list(self.item.out_locals)
            if outs:
                s = '(%s, %s)' % (s, ', '.join(outs))
            return self.retwrap(s)
        if isinstance(st, ast.Raise):
            if not self.item.partial:
                self.err(st, 'raise in a function not declared partial')
            return 'None'
        if isinstance(st, ast.FunctionDef):
            # nested pure helper -> local lambda over Z
            params = [a.arg for a in st.args.args]
            env2 = dict(env)
            for p in params:
                env2[p] = 'Z'
            sub = FunTranslator(Item(self.item.path, self.item.qual + '.' + st.name, st.name, []),
                                st, self.module_tree, None)
            body = sub.block(st.body, env2, lambda e: sub.err(st, 'nested def falls off the end'))
            env3 = dict(env)
            env3[st.name] = 'fun'
            return 'let %s := (fun %s => %s) in\n  %s' % (st.name, ' '.join('(%s : Z)' % p for p in params), body,
                                                          self.block(rest, env3, tail))
        if isinstance(st, (ast.Assign, ast.AugAssign)):
            if isinstance(st, ast.Assign):
                if len(st.targets) != 1:
                    self.err(st, 'chained assignment')
                tgt = st.targets[0]
                # `myord = int` style binding of an identity builtin
                if isinstance(st.value, ast.Name) and st.value.id in ('int', 'ord') and isinstance(tgt, ast.Name):
                    env2 = dict(env)
                    env2[tgt.id] = 'identfun'
                    return self.block(rest, env2, tail)
                # `c = self.children[i]`: bind a local name to one element of an object list
                if isinstance(tgt, ast.Name) and tgt.id in self.item.objvars:
                    lst = self.item.objvars[tgt.id]
                    if not (isinstance(st.value, ast.Subscript) and self.src(st.value.value) == lst
                            and not isinstance(st.value.slice, ast.Slice)):
                        self.err(st, '%s must be bound to an element of %s' % (tgt.id, lst))
                    env2 = dict(env)
                    env2[tgt.id] = ('obj', self.item.objlists[lst][0], self.zexpr(st.value.slice, env))
                    return self.block(rest, env2, tail)
                # `c.attr = v`: functional update of the attribute list
                if isinstance(tgt, ast.Attribute) and isinstance(tgt.value, ast.Name) \
                        and tgt.value.id in self.item.objvars:
                    if not isinstance(env.get(tgt.value.id), tuple):
                        self.err(st, '%s is not bound' % tgt.value.id)
                    _, prefix, idx = env[tgt.value.id]
                    nm = self.target_names(tgt)[0]
                    v = self.zexpr(st.value, env)
                    return 'let %s := (zupd %s %s %s) in\n  %s' % (nm, idx, v, nm, self.block(rest, env, tail))
                s, t = self.expr(st.value, env)
            else:
                tgt = st.target
                fake = ast.BinOp(left=tgt, op=st.op, right=st.value)
                ast.copy_location(fake, st)
                ast.fix_missing_locations(fake)
                s, t = self.expr(fake, env)
            names = self.target_names(tgt)
            if len(names) != 1:
                self.err(st, 'tuple assignment')
            env2 = dict(env)
            env2[names[0]] = t
            return 'let %s := %s in\n  %s' % (names[0], s, self.block(rest, env2, tail))
        if isinstance(st, ast.If):
            if self.src(st.test) in self.item.const_true:
                return self.block(st.body + rest, env, tail)
            c = self.bexpr(st.test, env)
            if self.terminates(st.body) and (not st.orelse or self.terminates(st.orelse)):
                a = self.block(st.body, env, lambda e: self.err(st, 'unreachable'))
                if st.orelse:
                    if rest:
                        self.err(rest[0], 'unreachable code after if/else that always returns')
                    b = self.block(st.orelse, env, lambda e: self.err(st, 'unreachable'))
                else:
                    b = self.block(rest, env, tail)
                return '(if %s then %s\n   else %s)' % (c, a, b)
            if st.orelse and self.terminates(st.orelse) and not self.has_return(st.body):
                self.err(st, 'else-branch returns but then-branch does not')
            def calls_method(stmts):
                return any(isinstance(n, ast.Call) and self.src(n.func) in self.item.methods for x in stmts for n in ast.walk(x))
            one_sided = [v for v in self.assigned(st.body + st.orelse)
                         if v not in env and not (v in self.assigned(st.body) and v in self.assigned(st.orelse))]
            if self.has_return(st.body) or self.has_return(st.orelse) or calls_method(st.body + st.orelse) or one_sided:
                if any(isinstance(n, (ast.Break, ast.Continue)) for x in st.body + st.orelse for n in ast.walk(x)):
                    self.err(st, 'break/continue nested inside a non-terminating branch')
                # some path returns or raises, another falls through: the continuation is translated in both branches
                a = self.block(st.body + rest, env, tail)
                b = self.block(st.orelse + rest, env, tail)
                return '(if %s then %s\n   else %s)' % (c, a, b)
            vs = self.assigned(st.body + st.orelse)
            if not vs:
                self.err(st, 'if statement without effect')
            for v in vs:
                if v not in env:
                    # must then be assigned in both branches
                    if not (v in self.assigned(st.body) and v in self.assigned(st.orelse)):
                        self.err(st, 'variable %s defined in only one branch' % v)
            tup = self.tuple_of(vs)
            fin = lambda e: tup  # noqa
            a = self.block(st.body, env, fin)
            b = self.block(st.orelse, env, fin)
            env2 = dict(env)
            # types: take from branch translation by re-inferring: assume Z unless already known
            for v in vs:
                env2[v] = env.get(v, self.branch_type(st, v, env))
            return 'let %s := (if %s then %s else %s) in\n  %s' % (self.pat_of(vs), c, a, b,
                                                                   self.block(rest, env2, tail))
        if isinstance(st, ast.For):
            if st.orelse or self.has_return(st.body):
                self.err(st, 'for-else / return / break inside for')
            vs = self.assigned(st.body)
            for v in vs:
                if v not in env:
                    # loop-local temporaries are fine as long as they are (re)assigned before use;
                    # we carry only variables that exist before the loop
                    pass
            carried = [v for v in vs if v in env]
            if not carried:
                self.err(st, 'loop without carried state')
            env2 = dict(env)
            it = st.iter
            tup = self.tuple_of(carried)
            pat = self.pat_of(carried)
            if isinstance(it, ast.Call) and self.src(it.func) == 'enumerate' and len(it.args) == 1:
                seq, tseq = self.expr(it.args[0], env)
                if tseq not in ('bytes', 'table'):
                    self.err(st, 'enumerate over non-sequence')
                if not (isinstance(st.target, ast.Tuple) and len(st.target.elts) == 2):
                    self.err(st, 'enumerate target')
                iv, xv = st.target.elts[0].id, st.target.elts[1].id
                env2[iv] = 'Z'
                env2[xv] = 'Z'
                body = self.block(st.body, env2, lambda e: '(Z.add %s 1, %s)' % (iv, tup))
                loop = "(snd (fold_left (fun '(%s, %s) %s => %s) %s (0, %s)))" % (
                    iv, tup if len(carried) == 1 else tup, xv, body, seq, tup)
            elif isinstance(it, ast.Call) and self.src(it.func) == 'range':
                args = [self.zexpr(a, env) for a in it.args]
                if len(args) == 1:
                    args = ['0', args[0], '1']
                elif len(args) == 2:
                    args = args + ['1']
                if not isinstance(st.target, ast.Name):
                    self.err(st, 'range target')
                env2[st.target.id] = 'Z'
                body = self.block(st.body, env2, lambda e: tup)
                loop = '(fold_left (fun %s %s => %s) (zrange %s %s %s) %s)' % (
                    pat if len(carried) > 1 else carried[0], st.target.id, body, args[0], args[1], args[2], tup)
            else:
                seq, tseq = self.expr(it, env)
                if tseq not in ('bytes', 'table'):
                    self.err(st, 'for over non-sequence')
                if not isinstance(st.target, ast.Name):
                    self.err(st, 'for target')
                env2[st.target.id] = 'Z'
                body = self.block(st.body, env2, lambda e: tup)
                loop = '(fold_left (fun %s %s => %s) %s %s)' % (
                    pat if len(carried) > 1 else carried[0], st.target.id, body, seq, tup)
            return 'let %s := %s in\n  %s' % (pat, loop, self.block(rest, env, tail))
        self.err(st, 'unsupported statement %s' % type(st).__name__)

    def branch_type(self, st, v, env):
        return 'Z'

    def translate(self):
        it = self.item
        args = [a.arg for a in self.fn.args.args if a.arg not in ('self', 'cls')]
        want = [p for p, _ in it.params]
        if args != want:
            raise TranslationError('%s:%s: parameter list changed: %s (expected %s)' % (it.path, it.qual, args, want))
        env = {}
        binders = []
        for k, t in it.selfs.items():
            env['self_' + k] = t
            binders.append(('self_' + k, t))
        for prefix, attrs in it.objlists.values():
            for a in attrs:
                env['%s_%s' % (prefix, a)] = 'bytes'
                binders.append(('%s_%s' % (prefix, a), 'bytes'))
        for p, t in it.params:
            env[p] = t
            binders.append((p, t))
        def fall_off(e):
            # a procedure (no return value): its result is the tuple of the self attributes it may write
            outs = ['self_' + x for x in it.out_selfs] + list(it.out_lists)
            if not outs:
                self.err(self.fn, 'function falls off the end')
            return self.retwrap(self.tuple_of(outs))
        pre = ''
        for nm, (ty, init) in it.out_locals.items():
            env[nm] = ty
            pre += 'let %s := %s in\n  ' % (nm, init)
        body = pre + self.block(self.fn.body, env, fall_off)
        tymap = {'Z': 'Z', 'bool': 'bool', 'bytes': 'list Z', 'table': 'list Z'}
        bs = ' '.join('(%s : %s)' % (n, tymap[t]) for n, t in binders)
        return 'Definition %s %s :=\n  %s.\n' % (it.coqname, bs, body)


def find_function(tree, qual):
    parts = qual.split('.')
    node = tree
    cls = None
    for i, p in enumerate(parts):
        found = None
        for st in node.body:
            if isinstance(st, (ast.FunctionDef, ast.ClassDef)) and st.name == p:
                found = st
                break
        if found is None:
            return None, None
        if isinstance(found, ast.ClassDef):
            cls = found
        node = found
    return node, cls


def module_constant(tree, name, cls=None):
    body = tree.body
    if cls:
        for st in tree.body:
            if isinstance(st, ast.ClassDef) and st.name == cls:
                body = st.body
    for st in body:
        if isinstance(st, ast.Assign) and len(st.targets) == 1 and isinstance(st.targets[0], ast.Name) \
                and st.targets[0].id == name:
            return st.value
    return None


# ------------------------------------------------------------------ what is translated

TABLES = [  # (file, python name, coq name)
    ('pycdlib/udf.py', 'crc_ccitt_table', 'crc_ccitt_table'),
    ('pycdlib/isohybrid.py', 'crc32_table', 'crc32_table'),
]

FMTS = [  # (file, class, attribute, coq name)
    ('pycdlib/dr.py', 'DirectoryRecord', 'FMT', 'fmt_dr'),
    ('pycdlib/dr.py', 'XARecord', 'FMT', 'fmt_xa'),
    ('pycdlib/path_table_record.py', 'PathTableRecord', 'FMT', 'fmt_ptr'),
    ('pycdlib/headervd.py', 'PrimaryOrSupplementaryVD', 'FMT', 'fmt_pvd'),
    ('pycdlib/headervd.py', 'VolumeDescriptorSetTerminator', 'FMT', 'fmt_vdst'),
    ('pycdlib/headervd.py', 'BootRecord', 'FMT', 'fmt_br'),
    ('pycdlib/eltorito.py', 'EltoritoValidationEntry', 'FMT', 'fmt_et_validation'),
    ('pycdlib/eltorito.py', 'EltoritoEntry', 'FMT', 'fmt_et_entry'),
    ('pycdlib/eltorito.py', 'EltoritoSectionHeader', 'FMT', 'fmt_et_section'),
    ('pycdlib/eltorito.py', 'EltoritoBootInfoTable', 'FMT', 'fmt_et_bootinfo') if False else None,
    ('pycdlib/isohybrid.py', 'IsoHybrid', 'FMT', 'fmt_isohybrid'),
    ('pycdlib/isohybrid.py', 'GPTHeader', 'FMT', 'fmt_gpt_header'),
    ('pycdlib/isohybrid.py', 'GPTPartHeader', 'FMT', 'fmt_gpt_part'),
    ('pycdlib/isohybrid.py', 'APMPartHeader', 'FMT', 'fmt_apm_part'),
    ('pycdlib/udf.py', 'UDFTag', 'FMT', 'fmt_udf_tag'),
    ('pycdlib/udf.py', 'UDFFileIdentifierDescriptor', 'FMT', 'fmt_udf_fid'),
    ('pycdlib/udf.py', 'UDFTimestamp', 'FMT', 'fmt_udf_timestamp'),
    ('pycdlib/dates.py', 'DirectoryRecordDate', 'FMT', 'fmt_dr_date'),
]
FMTS = [f for f in FMTS if f]

INTCONSTS = [  # (file, class or None, name, coq name)
    ('pycdlib/rockridge.py', None, 'ALLOWED_DR_SIZE', 'ALLOWED_DR_SIZE'),
    ('pycdlib/rockridge.py', None, 'TF_FLAGS', 'TF_FLAGS'),
]

D1SET = ('pycdlib/pycdlib.py', '_allowed_d1_characters', 'allowed_d1_characters')

Zt = 'Z'
ITEMS = [
    Item('pycdlib/utils.py', 'ceiling_div', 'ceiling_div', [('numer', Zt), ('denom', Zt)]),
    Item('pycdlib/udf.py', 'crc_ccitt', 'crc_ccitt', [('data', 'bytes')],
         consts={'crc_ccitt_table': ('crc_ccitt_table', 'table')}),
    Item('pycdlib/udf.py', '_compute_csum', 'udf_compute_csum', [('data', 'bytes')]),
    Item('pycdlib/isohybrid.py', 'crc32', 'crc32', [('data', 'bytes')],
         consts={'crc32_table': ('crc32_table', 'table')}),
    Item('pycdlib/eltorito.py', 'EltoritoValidationEntry._checksum', 'et_checksum', [('data', 'bytes')],
         const_true=['isinstance(data, bytes)']),
    Item('pycdlib/isohybrid.py', 'IsoHybrid._calc_cc', 'calc_cc', [('iso_size', Zt)],
         selfs={'geometry_heads': Zt, 'geometry_sectors': Zt}),
    Item('pycdlib/path_table_record.py', 'PathTableRecord.record_length', 'ptr_record_length', [('len_di', Zt)]),
    Item('pycdlib/udf.py', 'UDFFileIdentifierDescriptor.pad', 'udf_fid_pad', [('val', Zt)]),
    Item('pycdlib/udf.py', 'UDFFileIdentifierDescriptor.length', 'udf_fid_length', [('namelen', Zt)],
         calls={'UDFFileIdentifierDescriptor.pad': ('udf_fid_pad', Zt)}),
    Item('pycdlib/headervd.py', 'PrimaryOrSupplementaryVD.add_to_ptr_size', 'add_to_ptr_size', [('ptr_size', Zt)],
         selfs={'path_tbl_size': Zt, 'path_table_num_extents': Zt},
         out_selfs=['path_tbl_size', 'path_table_num_extents'],
         calls={'utils.ceiling_div': ('ceiling_div', Zt)}),
    Item('pycdlib/headervd.py', 'PrimaryOrSupplementaryVD.remove_from_ptr_size', 'remove_from_ptr_size',
         [('ptr_size', Zt)],
         selfs={'path_tbl_size': Zt, 'path_table_num_extents': Zt},
         out_selfs=['path_tbl_size', 'path_table_num_extents'],
         calls={'utils.ceiling_div': ('ceiling_div', Zt)}, partial=True),
    Item('pycdlib/utils.py', 'gmtoffset_from_tm_fields', 'gmtoffset_from_tm', []),  # special-cased below
    Item('tools/pycdlib-genisoimage', 'mm3hash', 'mm3hash', [('key', 'bytes'), ('seed', Zt)],
         identity=['bytearray', 'xencode']),
    # volume size counters (procedures: the result is the new value of the attribute they write)
    Item('pycdlib/headervd.py', 'PrimaryOrSupplementaryVD.add_to_space_size', 'vd_add_to_space_size', [('addition_bytes', Zt)],
         selfs={'space_size': Zt, 'log_block_size': Zt}, out_selfs=['space_size'],
         calls={'utils.ceiling_div': ('ceiling_div', Zt)}, file='GenObj.v'),
    Item('pycdlib/headervd.py', 'PrimaryOrSupplementaryVD.remove_from_space_size', 'vd_remove_from_space_size', [('removal_bytes', Zt)],
         selfs={'space_size': Zt, 'log_block_size': Zt}, out_selfs=['space_size'],
         calls={'utils.ceiling_div': ('ceiling_div', Zt)}, file='GenObj.v'),
    # the directory packing loop: children are read/written attribute-wise
    Item('pycdlib/dr.py', 'DirectoryRecord._recalculate_extents_and_offsets', 'dr_recalculate',
         [('index', Zt), ('logical_block_size', Zt)],
         objlists={'self.children': ('children', ['dr_len', 'offset_to_here', 'extents_to_here',
                                                  'index_in_parent'])},
         objvars={'c': 'self.children'},
         out_lists=['children_offset_to_here', 'children_extents_to_here', 'children_index_in_parent'],
         file='GenObj.v'),
    # Rock Ridge entry lengths (static methods of the record classes): Model/RREntries.v and Model/RRPlace.v use
    # hand-written len_* definitions; Proofs/RRGenProofs.v proves them equal to these translations
] + [Item('pycdlib/rockridge.py', '%s.length' % c, 'rr_%s_length' % n, [], file='GenRR.v')
     for c, n in (('RRSPRecord', 'sp'), ('RRRRRecord', 'rr'), ('RRCERecord', 'ce'), ('RRESRecord', 'es'), ('RRPNRecord', 'pn'),
                  ('RRCLRecord', 'cl'), ('RRPLRecord', 'pl'), ('RRRERecord', 're'), ('RRSTRecord', 'st'))] + [
    # PyCdlibIO.seek / tell: the stream position arithmetic; `self._fp.seek(pos, 0)` is the effect fp_pos := pos
    Item('pycdlib/pycdlibio.py', 'PyCdlibIO.seek', 'pyio_seek', [('offset', Zt), ('whence', Zt)],
         selfs={'_offset': Zt, '_length': Zt, '_startpos': Zt, 'fp_pos': Zt}, out_selfs=['_offset', 'fp_pos'],
         const_true=['self._open'], const_false=['isinstance(offset, float)'], effects={'self._fp.seek': 'fp_pos'},
         partial=True, file='GenIO.v'),
    Item('pycdlib/pycdlibio.py', 'PyCdlibIO.readall', 'pyio_readall', [],
         selfs={'_offset': Zt, '_length': Zt, '_startpos': Zt, 'fp_data': 'bytes', 'fp_pos': Zt}, out_selfs=['_offset', 'fp_pos'],
         const_true=['self._open'], effects={'self._fp.seek': 'fp_pos'}, reads={'self._fp.read': ('py_fread', 'fp_data', 'fp_pos')},
         partial=True, file='GenIO.v'),
    Item('pycdlib/pycdlibio.py', 'PyCdlibIO.read', 'pyio_read', [('size', Zt)],
         selfs={'_offset': Zt, '_length': Zt, '_startpos': Zt, 'fp_data': 'bytes', 'fp_pos': Zt}, out_selfs=['_offset', 'fp_pos'],
         const_true=['self._open'], const_false=['size is None'], effects={'self._fp.seek': 'fp_pos'},
         reads={'self._fp.read': ('py_fread', 'fp_data', 'fp_pos')},
         methods={'self.readall': ('pyio_readall', ['_offset', '_length', '_startpos', 'fp_data', 'fp_pos'], ['_offset', 'fp_pos'])},
         partial=True, file='GenIO.v'),
    Item('pycdlib/pycdlibio.py', 'PyCdlibIO.readinto', 'pyio_readinto', [('b', 'bytes')],
         selfs={'_offset': Zt, '_length': Zt, '_startpos': Zt, 'fp_data': 'bytes', 'fp_pos': Zt}, out_selfs=['_offset', 'fp_pos'],
         const_true=['self._open'], effects={'self._fp.seek': 'fp_pos'}, reads={'self._fp.read': ('py_fread', 'fp_data', 'fp_pos')},
         consts={'len(m)': ('(Z.of_nat (Datatypes.length b))', Zt)},
         skip=['mv = memoryview(b)', "m = mv.cast('B')", 'm[:n] = data'], out_locals={'data': ('bytes', '(@nil Z)')},
         partial=True, file='GenIO.v'),
    Item('pycdlib/rockridge.py', 'RRPXRecord.length', 'rr_px_length', [('rr_version', 'bytes')], partial=True, file='GenRR.v'),
    Item('pycdlib/rockridge.py', 'RRSFRecord.length', 'rr_sf_length', [('rr_version', 'bytes')], partial=True, file='GenRR.v'),
    Item('pycdlib/rockridge.py', 'RRERRecord.length', 'rr_er_length', [('ext_id', 'bytes'), ('ext_des', 'bytes'), ('ext_src', 'bytes')],
         file='GenRR.v'),
    Item('pycdlib/rockridge.py', 'RRNMRecord.length', 'rr_nm_length', [('rr_name', 'bytes')], file='GenRR.v'),
    Item('pycdlib/rockridge.py', 'RRPDRecord.length', 'rr_pd_length', [('padding', 'bytes')], file='GenRR.v'),
    Item('pycdlib/rockridge.py', 'RRSLRecord.Component.length', 'rr_sl_component_length', [('symlink_component', 'bytes')], file='GenRR.v'),
    Item('pycdlib/rockridge.py', 'RRSLRecord.header_length', 'rr_sl_header_length', [], file='GenRR.v'),
    Item('pycdlib/rockridge.py', 'RRSLRecord.maximum_component_area_length', 'rr_sl_max_component_area', [],
         calls={'RRSLRecord.header_length': ('rr_sl_header_length', Zt)}, file='GenRR.v'),
    Item('pycdlib/rockridge.py', 'RRALRecord.Component.length', 'rr_al_component_length', [('attr', 'bytes')], file='GenRR.v'),
    Item('pycdlib/rockridge.py', 'RRALRecord.header_length', 'rr_al_header_length', [], file='GenRR.v'),
    Item('pycdlib/rockridge.py', 'RRALRecord.maximum_component_area_length', 'rr_al_max_component_area', [],
         calls={'RRALRecord.header_length': ('rr_al_header_length', Zt)}, file='GenRR.v'),
]


def translate_gmtoffset(tree, path):
    """utils.gmtoffset_from_tm reads four fields of two struct_time values; the call
    time.gmtime(tm) is external.  It is translated as a function of the eight fields."""
    fn, _ = find_function(tree, 'gmtoffset_from_tm')
    if fn is None:
        raise TranslationError('%s: gmtoffset_from_tm not found' % path)
    args = [a.arg for a in fn.args.args]
    if args != ['tm', 'localtime']:
        raise TranslationError('%s: gmtoffset_from_tm parameters changed: %s' % (path, args))
    body = [st for st in fn.body if not (isinstance(st, ast.Expr) and isinstance(st.value, ast.Constant))]
    first = body[0]
    if ast.unparse(first) != 'gmtime = time.gmtime(tm)':
        raise TranslationError('%s: gmtoffset_from_tm: first statement is not `gmtime = time.gmtime(tm)`: %s'
                               % (path, ast.unparse(first)))
    fields = ['tm_min', 'tm_hour', 'tm_yday', 'tm_year']
    consts = {}
    params = []
    for who, pre in (('localtime', 'l'), ('gmtime', 'g')):
        for f in fields:
            consts['%s.%s' % (who, f)] = ('%s_%s' % (pre, f[3:]), 'Z')
            params.append(('%s_%s' % (pre, f[3:]), 'Z'))
    it = Item(path, 'gmtoffset_from_tm', 'gmtoffset_from_tm', [], consts=consts)
    newfn = ast.FunctionDef(name=fn.name, args=ast.arguments(posonlyargs=[], args=[], kwonlyargs=[],
                                                             kw_defaults=[], defaults=[]),
                            body=body[1:], decorator_list=[], lineno=fn.lineno, col_offset=0)
    ft = FunTranslator(it, newfn, tree, None)
    env = {}
    text = ft.block(newfn.body, env, lambda e: ft.err(fn, 'falls off the end'))
    bs = ' '.join('(%s : Z)' % n for n, _ in params)
    return 'Definition gmtoffset_from_tm %s :=\n  %s.\n' % (bs, text)


def fmt_fields(fmt):
    """struct format -> list of (code, count) with byte order char, as a Coq list of widths."""
    order = fmt[0] if fmt[0] in '<>=!@' else '@'
    body = fmt[1:] if fmt[0] in '<>=!@' else fmt
    widths = []
    num = ''
    size = {'B': 1, 'b': 1, 'H': 2, 'h': 2, 'L': 4, 'l': 4, 'I': 4, 'i': 4, 'Q': 8, 'q': 8, 'x': 1, 'c': 1}
    for ch in body:
        if ch.isdigit():
            num += ch
            continue
        n = int(num) if num else 1
        num = ''
        if ch == 's':
            widths.append(n)
        elif ch in size:
            widths += [size[ch]] * n
        else:
            raise TranslationError('unsupported struct code %r in %r' % (ch, fmt))
    if sum(widths) != struct.calcsize(fmt):
        raise TranslationError('struct format %r has alignment padding' % fmt)
    return order, widths


HEADER = '''(* GENERATED by /verif/translator/translate.py from /repo -- do not edit.
   Regenerated on every check run; theorems about these definitions are re-checked against
   what the source says now. *)
From Coq Require Import ZArith List.
Import ListNotations.
Local Open Scope Z_scope.
'''

PRELUDE_FUN = '''From PV.Base Require Import Prim.
From PV.Gen Require Import GenConst.
'''

PRELUDE_RR = '''From PV.Base Require Import Prim PyBytes.
From PV.Gen Require Import GenConst.
'''

PRELUDE_IO = '''From PV.Base Require Import Prim PyIO.
From PV.Gen Require Import GenConst.
'''

PRELUDE_OBJ = '''From PV.Base Require Import Prim Upd.
From PV.Gen Require Import GenFun.
'''


def generate(repo):
    """Returns {filename: text}, {item name: text} (for change reporting)."""
    trees = {}

    def tree(path):
        if path not in trees:
            full = os.path.join(repo, path)
            try:
                with open(full) as fp:
                    trees[path] = ast.parse(fp.read(), full)
            except (OSError, SyntaxError) as e:
                raise TranslationError('%s: cannot parse: %s' % (path, e))
        return trees[path]

    items = {}
    const = [HEADER]
    for path, py, coq in TABLES:
        node = module_constant(tree(path), py)
        if node is None or not isinstance(node, (ast.Tuple, ast.List)):
            raise TranslationError('%s: table %s not found' % (path, py))
        try:
            vals = [ast.literal_eval(x) for x in node.elts]
        except Exception:
            raise TranslationError('%s: table %s is not a literal' % (path, py))
        if not all(isinstance(v, int) for v in vals):
            raise TranslationError('%s: table %s holds non-integers' % (path, py))
        txt = 'Definition %s : list Z :=\n  [%s].\n' % (coq, '; '.join(zlit(v) for v in vals))
        items[coq] = txt
        const.append(txt)
    for path, cls, attr, coq in FMTS:
        node = module_constant(tree(path), attr, cls)
        if node is None or not (isinstance(node, ast.Constant) and isinstance(node.value, str)):
            raise TranslationError('%s: %s.%s is not a string literal' % (path, cls, attr))
        order, widths = fmt_fields(node.value)
        txt = '(* %s.%s = %r *)\nDefinition %s_widths : list Z := [%s].\nDefinition %s_size : Z := %d.\n' \
              'Definition %s_little : bool := %s.\n' % (
                  cls, attr, node.value, coq, '; '.join(str(w) for w in widths), coq,
                  struct.calcsize(node.value), coq, 'true' if order in '<=@' else 'false')
        items[coq] = txt
        const.append(txt)
    for path, cls, name, coq in INTCONSTS:
        node = module_constant(tree(path), name, cls)
        try:
            val = ast.literal_eval(node)
        except Exception:
            raise TranslationError('%s: constant %s is not an integer literal' % (path, name))
        if not isinstance(val, int):
            raise TranslationError('%s: constant %s is not an integer literal' % (path, name))
        txt = 'Definition %s : Z := %s.\n' % (coq, zlit(val))
        items[coq] = txt
        const.append(txt)
    # the d1 character set
    path, py, coq = D1SET
    node = module_constant(tree(path), py)
    try:
        for n in ast.walk(node):
            if isinstance(n, ast.Call):
                if not (isinstance(n.func, ast.Name) and n.func.id in ('set', 'tuple', 'range', 'ord', 'bytearray')):
                    raise ValueError
            elif not isinstance(n, (ast.Constant, ast.BinOp, ast.Add, ast.Tuple, ast.Name, ast.Load)):
                raise ValueError
        lit = sorted(eval(compile(ast.Expression(node), '<d1>', 'eval'),
                          {'__builtins__': {}, 'set': set, 'tuple': tuple, 'range': range, 'ord': ord,
                           'bytearray': bytearray}))
        if not all(isinstance(v, int) for v in lit):
            raise ValueError
    except Exception:
        raise TranslationError('%s: %s is not a literal set of integers' % (path, py))
    txt = 'Definition %s : list Z := [%s].\n' % (coq, '; '.join(str(b) for b in lit))
    items[coq] = txt
    const.append(txt)

    funs = [HEADER, PRELUDE_FUN]
    objs = [HEADER, PRELUDE_OBJ]
    rrs = [HEADER, PRELUDE_RR]
    ios = [HEADER, PRELUDE_IO]
    for it in ITEMS:
        t = tree(it.path)
        if it.coqname == 'gmtoffset_from_tm':
            txt = translate_gmtoffset(t, it.path)
        else:
            fn, cls = find_function(t, it.qual)
            if fn is None or not isinstance(fn, ast.FunctionDef):
                raise TranslationError('%s: function %s not found' % (it.path, it.qual))
            txt = FunTranslator(it, fn, t, cls).translate()
        items[it.coqname] = txt
        {'GenObj.v': objs, 'GenRR.v': rrs, 'GenIO.v': ios}.get(it.file, funs).append('(* %s :: %s *)\n%s' % (it.path, it.qual, txt))
    return {'GenConst.v': '\n'.join(const), 'GenFun.v': '\n'.join(funs), 'GenObj.v': '\n'.join(objs),
            'GenRR.v': '\n'.join(rrs), 'GenIO.v': '\n'.join(ios)}, items


def regenerate(repo, outdir):
    """Write the generated files if their content changed.  Returns the names of items whose
    text differs from the committed golden translation (golden_items.json)."""
    files, items = generate(repo)
    os.makedirs(outdir, exist_ok=True)
    for name, text in files.items():
        p = os.path.join(outdir, name)
        old = open(p).read() if os.path.exists(p) else None
        if old != text:
            with open(p, 'w') as fp:
                fp.write(text)
    golden_path = os.path.join(os.path.dirname(os.path.abspath(__file__)), 'golden_items.json')
    changed = []
    if os.path.exists(golden_path):
        golden = json.load(open(golden_path))
        for k, v in items.items():
            if golden.get(k) != v:
                changed.append(k)
    return changed


def write_golden(repo):
    files, items = generate(repo)
    golden_path = os.path.join(os.path.dirname(os.path.abspath(__file__)), 'golden_items.json')
    with open(golden_path, 'w') as fp:
        json.dump(items, fp, indent=1, sort_keys=True)


if __name__ == '__main__':
    import sys
    repo = sys.argv[1] if len(sys.argv) > 1 else '/repo'
    if len(sys.argv) > 2 and sys.argv[2] == '--golden':
        write_golden(repo)
    files, items = generate(repo)
    for n, t in files.items():
        if n == 'GenFun.v':
            print(t)
