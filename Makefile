# /verif top-level: `make setup` builds the whole Coq development from files on disk.
.PHONY: setup coq clean
setup: coq
coq:
	/venv/bin/python -m harness.build --all
clean:
	rm -rf coq/Makefile coq/Makefile.conf .work .cache; find coq -name '*.vo*' -o -name '*.glob' -o -name '*.aux' | xargs rm -f
