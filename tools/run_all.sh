#!/bin/bash
# run every claimed check's quick command (sequentially; they share the Coq build lock), print summary lines
cd /verif
for P in $(/venv/bin/python -c "import json;print(' '.join(c['property_id'] for c in json.load(open('MANIFEST.json'))['checks']))"); do
  ./check $P --tier ${1:-quick} > /var/tmp/all_$P.log 2>&1; rc=$?
  echo "$P exit=$rc $(grep -E 'quick:|thorough:' /var/tmp/all_$P.log | tail -1)"
  grep -E "^VIOLATION" /var/tmp/all_$P.log | head -5
done
