#!/bin/bash
# usage: tools/try_seed_wt.sh <Cxx> <abs patch.diff> [tier]  -- like try_seed.sh but on a scratch worktree of /repo HEAD (VERIF_REPO), so
# that /repo itself is never touched (other jobs may be reading it)
set -u
P=$1; D=$2; T=${3:-quick}; W=/var/tmp/tryrepo_$P
cd /verif
[ -d $W ] || git -C /repo worktree add -q --detach $W HEAD
git -C $W checkout -q --detach $(git -C /repo rev-parse HEAD); git -C $W checkout -q -- .
git -C $W apply "$D" || { echo "PATCH DOES NOT APPLY"; exit 2; }
VERIF_REPO=$W ./check $P --tier $T > /var/tmp/seed_$P.log 2>&1; rc=$?
git -C $W checkout -q -- .
echo "exit=$rc"; grep -E "^VIOLATION|quick:|thorough:" /var/tmp/seed_$P.log | cut -c1-220 | head -${4:-6}
grep -E "^  ->" /var/tmp/seed_$P.log | cut -c1-260 | head -3
