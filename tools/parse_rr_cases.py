#!/venv/bin/python
"""Correspondence cases for coq/theories/Model/ParseRR.v + ParseRRSpec.v (what PyCdlib.open rebuilds from a Rock Ridge
image, and how edits behave on the reopened object).

A case is an edit HISTORY (the generators of master_rr_cases.py / account_rr_traces.py, plus two kinds of its own:
'order' = continuation blocks whose creation order differs from the walk order, 'xa' = a Rock Ridge name that puts
b'XA' where XARecord.parse looks for a Yellow Book record: open raised before commit ac63ee2, a case whose open raises
PyCdlibInvalidISO is rendered with an empty graph and must be answered PInvalid by the model).  `render(case)`:
  1. replays the history on `new(interchange_level=3, rock_ridge=VERSION)` (time.time pinned), writes the image into
     memory WITHOUT closing the object, cuts every directory extent and continuation block out of it (master_rr_cases.cut);
  2. opens the bytes with a NEW PyCdlib object and reads the object graph off it: per directory (walk order) the
     children (file_ident, flags, extent, data_length, dr_len, directory number) with their RockRidge object (name(),
     PX mode / links, symlink_path(), dr_entries.ce_record, index of ce_block in pvd.rr_ce_blocks, signatures of
     record_dr_entries() / record_ce_entries(), rr_version, bytes_to_skip), rr_children, pvd.rr_ce_blocks (extent,
     _entries), iso.rock_ridge, and space_size / path_tbl_size / path_table_num_extents of the PVD;
  3. applies 1-4 further edits (rm_file of a long-named file, add_fp with a long name, add_symlink with a long target,
     rm_directory, add_directory) to BOTH the never-closed original and the reopened object, writes both and records
     the accepted flags, whether the directory areas / the whole images are identical, and both space_size values.
The Coq term has type ParseRRSpec.prr_case; `bad_parserr_cases 0 cases` lists the cases where the model disagrees.

    cases(seed, n) -> n cases (deterministic from the seed);  render(case) -> Coq term
    usage: /venv/bin/python /verif/tools/parse_rr_cases.py SEED N [OUTDIR] [SHARD]
           (writes OUTDIR/S<k>.v, <= SHARD (default 25) cases each; check each with
            cd /verif/coq && coqc -q -Q theories PV -w -notation-overridden OUTDIR/S<k>.v   -- it must print `= []`)
"""
import collections
import io
import os
import random
import sys
import time

REPO = os.environ.get('VERIF_REPO', '/repo')
os.environ.setdefault('PYCDLIB_TREE', REPO)
sys.path.insert(0, REPO)
sys.path.insert(1, os.path.dirname(os.path.abspath(__file__)))
import pycdlib  # noqa: E402
from pycdlib import pycdlibexception  # noqa: E402
import account_rr_traces as art  # noqa: E402
import master_rr_cases as mrc  # noqa: E402
from master_cases import rle, zl  # noqa: E402

CLOCK = mrc.CLOCK
VERSIONS = mrc.VERSIONS


# ---------------------------------------------------------------------------------------- histories of its own

def h_order(run, rng):
    """block A is created first but first used deep in the tree; block B later but first used in the root:
       pvd.rr_ce_blocks is [A, B] in the original and [B, A] after open"""
    big = rng.choice([1100, 1200, 1500])
    run.do(('AddDir', (), b'D', 'd'))
    run.do(('AddFile', (b'D',), b'A.;1', 'a' * big, 1))
    run.do(('AddFile', (), b'B.;1', 'b' * big, 1))
    if rng.random() < 0.5:
        run.do(('AddFile', (b'D',), b'C.;1', 'c' * rng.choice([300, 500]), 1))
        run.do(('AddFile', (), b'E.;1', 'e' * rng.choice([250, 300]), 1))
        run.do(('RmFile', (b'D',), b'C.;1'))


def h_xa(run, rng):
    """b'XA' at bytes 6..7 of the System Use area (NM entry first: 1.10 / 1.12) or of its second probe offset"""
    run.do(('AddFile', (), b'A.;1', 'plain', 3))
    run.do(('AddFile', (), b'B.;1', rng.choice(['aXA', 'aXAbcdefghijkl', 'qXA' + 'z' * 300]), 3))


def h_longid(run, rng):
    """identifiers of 186..193 bytes: with 1.09 the 5-byte RR entry (and SP, NM, PX ..) moves into the continuation area"""
    for k, n in enumerate(rng.sample(range(183, 191), 4)):          # + '.;1' -> 186..193
        run.do(('AddFile', (), b'%c' % (65 + k) * n + b'.;1', rng.choice(['a', 'n' * 40, 'm' * 300]), 1))
    run.do(('AddDir', (), b'D' * rng.choice([186, 190, 193]), 'dd'))


def cases(seed, n):
    base = mrc.cases(seed, n)
    out = []
    for k, c in enumerate(base):
        c = dict(c)
        if k % 25 == 7:
            c['spec'] = ('order',)
            c['label'] = 'seed %d #%d: order (%s)' % (seed, k, c['version'])
        elif k % 25 == 13:
            c['spec'] = ('longid',)
            c['version'] = '1.09' if k % 50 == 13 else rng_version(k)
            c['label'] = 'seed %d #%d: longid (%s)' % (seed, k, c['version'])
        elif k % 25 == 19:
            c['spec'] = ('xa',)
            c['version'] = '1.12' if k % 50 == 19 else '1.10'
            c['label'] = 'seed %d #%d: xa (%s)' % (seed, k, c['version'])
        out.append(c)
    return out


def rng_version(k):
    return ['1.09', '1.10', '1.12'][k % 3]


def run_history(case):
    if case['spec'][0] in ('order', 'xa', 'longid'):
        rng = random.Random(case['rngseed'] + 17)
        run = mrc.Runner(case['version'])
        {'order': h_order, 'xa': h_xa, 'longid': h_longid}[case['spec'][0]](run, rng)
        return run
    return mrc.run_history(case)


# ---------------------------------------------------------------------------------------- edits on both objects

def apply_op(iso, op):
    kind = op[0]
    try:
        if kind == 'AddFile':
            _, d, nm, rr, ln = op
            iso.add_fp(io.BytesIO(b'\x5a' * ln), ln, mrc.ipath(d + (nm,)), rr_name=rr)
        elif kind == 'AddDir':
            _, d, nm, rr = op
            iso.add_directory(mrc.ipath(d + (nm,)), rr_name=rr)
        elif kind == 'AddSymlink':
            _, d, nm, rr, tg = op
            iso.add_symlink(symlink_path=mrc.ipath(d + (nm,)), rr_symlink_name=rr, rr_path=tg)
        elif kind == 'RmFile':
            _, d, nm = op
            iso.rm_file(mrc.ipath(d + (nm,)))
        else:
            _, p = op
            iso.rm_directory(mrc.ipath(p))
        return True
    except pycdlibexception.PyCdlibInvalidInput:
        return False


def shadow_paths(node, path=()):
    """([(path of parent, shadow file)], [(path, shadow dir)]) below node"""
    files, dirs = [], [(path, node)]
    for k in node.kids:
        if k.kind == 'd':
            f, d = shadow_paths(k, path + (k.name,))
            files += f
            dirs += d
        else:
            files.append((path, k))
    return files, dirs


def pick_edits(run, rng, spec=()):
    files, dirs = shadow_paths(run.root)
    shallow = [p for p, _ in dirs if len(p) < 7]
    longf = sorted(files, key=lambda x: -len(x[1].rr))
    empties = [p for p, d in dirs if p and not d.kids]
    edits = []
    if spec and spec[0] == 'order':                  # an area that fits the tail of either block
        edits.append(('AddFile', (), b'ZO.;1', 'o' * rng.choice([300, 400, 500]), 1))
    for i in range(rng.choice([1, 2, 3, 4]) - len(edits)):
        r = rng.random()
        d = rng.choice([p for p, _ in dirs])
        if r < 0.3 and longf:
            p, f = longf.pop(0) if rng.random() < 0.7 else longf.pop(rng.randrange(len(longf)))
            edits.append(('RmFile', p, f.name))
        elif r < 0.6:
            edits.append(('AddFile', d, b'ZZ%02d.;1' % i, 'y' * rng.choice([3, 150, 300, 420, 600, 1100]), rng.choice([0, 5, 2049])))
        elif r < 0.75:
            edits.append(('AddSymlink', d, b'ZL%02d.;1' % i, 'zl%d' % i + 'w' * rng.choice([0, 200]),
                          '/'.join(['t' * rng.choice([30, 120])] * rng.choice([2, 6, 12]))))
        elif r < 0.87 and empties:
            edits.append(('RmDir', empties.pop(rng.randrange(len(empties)))))
        else:
            edits.append(('AddDir', rng.choice(shallow), b'ZD%02d' % i, 'x' * rng.choice([4, 200, 260, 500])))
    return edits


# ---------------------------------------------------------------------------------------- the opened object

def sigs(area):
    return [s for s, _ in mrc.su_entries(area)]


def read_graph(iso, recs_of):
    """recs_of (master_rr_cases.cut): per directory extent the (extent, length, is_dir) of its records in ON-DISK order:
       the walk queues sub-directories in that order (inside an RR_MOVED directory two records may carry the same
       identifier; track_child then lists the later one first)"""
    pvd = iso.pvd
    blocks = pvd.rr_ce_blocks
    out, counter = [], 0
    queue = collections.deque([pvd.root_directory_record()])
    while queue:
        d = queue.popleft()
        by_extent = {c.orig_extent_loc: c for c in d.children
                     if c.is_dir() and not c.is_dot() and not c.is_dotdot()}
        ids = {}
        for e, _, isdir in recs_of[d.orig_extent_loc]:
            if isdir:
                counter += 1
                ids[e] = counter
                queue.append(by_extent[e])
        recs = []
        for c in d.children:
            dirid = -1
            if c.is_dir() and not c.is_dot() and not c.is_dotdot():
                dirid = ids[c.orig_extent_loc]
            rr = c.rock_ridge
            rrl = []
            if rr is not None:
                px = rr.dr_entries.px_record or rr.ce_entries.px_record
                ce = rr.dr_entries.ce_record
                blk = -1
                if rr.ce_block is not None:
                    blk = [i for i, b in enumerate(blocks) if b is rr.ce_block][0]
                rrl.append((rr.name(), px.posix_file_mode if px else 0, px.posix_file_links if px else 0,
                            rr.symlink_path() if rr.is_symlink() else b'',
                            (ce.bl_cont_area, ce.offset_cont_area, ce.len_cont_area) if ce else (-1, -1, -1), blk,
                            sigs(rr.record_dr_entries()), sigs(rr.record_ce_entries()),
                            VERSIONS.get(rr.rr_version, 0), rr.bytes_to_skip))
            recs.append((c.file_ident, c.file_flags, c.orig_extent_loc, c.data_length, c.dr_len, dirid, rrl))
        out.append((recs, [x.file_ident for x in d.rr_children]))
    blks = [(b.extent_location(), [(e.offset, e.length) for e in b._entries]) for b in blocks]
    return out, blks, VERSIONS.get(iso.rock_ridge, 0)


# ---------------------------------------------------------------------------------------- Coq terms

def coq_err(t):
    nm, mode, links, tg, ce, blk, ds, cs, ver, skip = t
    return '(%s, %d, %d, %s, (%d, %d, %d), (%d), [%s], [%s], %d, %d)' % (
        zl(nm), mode, links, zl(tg), ce[0], ce[1], ce[2], blk, '; '.join(zl(s) for s in ds),
        '; '.join(zl(s) for s in cs), ver, skip)


def coq_erec(t):
    ident, fl, ext, dl, drl, dirid, rrl = t
    return '(%s, %d, %d, %d, %d, (%d), [%s])' % (zl(ident), fl, ext, dl, drl, dirid, '; '.join(coq_err(x) for x in rrl))


def coq_graph(g):
    dirs, blks, ver = g
    ds = ';\n    '.join('([%s], [%s])' % ('; '.join(coq_erec(r) for r in recs), '; '.join(zl(i) for i in rrk))
                        for recs, rrk in dirs)
    bs = '; '.join('(%d, [%s])' % (e, '; '.join('(%d, %d)' % x for x in es)) for e, es in blks)
    return '([%s],\n   [%s], %d)' % (ds, bs, ver)


def coq_bools(l):
    return '[' + '; '.join('true' if b else 'false' for b in l) + ']'


def write(iso):
    out = io.BytesIO()
    iso.write_fp(out)
    return out.getvalue()


def build(case):
    """-> dict with everything render needs"""
    saved = time.time
    time.time = lambda: CLOCK
    try:
        run = run_history(case)
        a = run.iso
        img0 = write(a)
        res = {'run': run, 'img0': img0, 'graph': None, 'pvd': (0, 0, 0), 'edits': [], 'fo': [], 'fr': [],
               'same_dirs': True, 'same_img': True, 'sp_o': 0, 'sp_r': 0}
        b = pycdlib.PyCdlib()
        try:
            b.open_fp(io.BytesIO(img0))
        except pycdlibexception.PyCdlibInvalidISO as e:
            res['open_error'] = str(e)
            return res
        res['graph'] = read_graph(b, mrc.cut(img0)[4])
        res['pvd'] = (b.pvd.space_size, b.pvd.path_tbl_size, b.pvd.path_table_num_extents)
        rng = random.Random(case['rngseed'] + 91)
        edits = pick_edits(run, rng, case['spec'])
        res['edits'] = edits
        for op in edits:
            res['fo'].append(apply_op(a, op))
            res['fr'].append(apply_op(b, op))
        ia, ib = write(a), write(b)
        res['same_img'] = ia == ib
        ca, cb = mrc.cut(ia), mrc.cut(ib)
        res['same_dirs'] = (ca[0], ca[2], ca[3]) == (cb[0], cb[2], cb[3])
        res['sp_o'], res['sp_r'] = a.pvd.space_size, b.pvd.space_size
        return res
    finally:
        time.time = saved


def render(case):
    r = build(case)
    run = r['run']
    (rext, rlen), date, dirs, blks, _ = mrc.cut(r['img0'])
    exp = '; '.join('(%d, [%s])' % (e, '; '.join('(%d, %s)' % (z, zl(lit)) for z, lit in rle(d))) for e, d in dirs + blks)
    ops = ';\n   '.join(art.coq_op(o) for o in run.ops)
    eg = '[%s]' % (coq_graph(r['graph']) if r['graph'] is not None else '')
    edits = '([%s],\n   %s, %s, %s, %s, %d, %d)' % (';\n    '.join(art.coq_op(o) for o in r['edits']), coq_bools(r['fo']),
                                                 coq_bools(r['fr']), 'true' if r['same_dirs'] else 'false',
                                                 'true' if r['same_img'] else 'false', r['sp_o'], r['sp_r'])
    note = ' open raised: %s' % r['open_error'] if 'open_error' in r else ''
    return '(* %s%s *)\n (%d, [%s],\n  %s, (%d, %d),\n  [%s],\n  %s,\n  (%d, %d, %d),\n  %s)' % (
        case['label'], note, VERSIONS[case['version']], ops, zl(date), rext, rlen, exp, eg,
        r['pvd'][0], r['pvd'][1], r['pvd'][2], edits)


HEADER = ('From Coq Require Import ZArith List Bool.\nImport ListNotations.\n'
          'From PV.Model Require Import RREntries AccountRR MasterRR ParseRR ParseRRSpec.\nLocal Open Scope Z_scope.\n')


def main():
    seed, n = int(sys.argv[1]), int(sys.argv[2])
    outdir = sys.argv[3] if len(sys.argv) > 3 else '/var/tmp/parserr/cases'
    shard = int(sys.argv[4]) if len(sys.argv) > 4 else 25
    os.makedirs(outdir, exist_ok=True)
    cs = cases(seed, n)
    k = 0
    stats = collections.Counter()
    for i in range(0, len(cs), shard):
        texts = []
        for c in cs[i:i + shard]:
            texts.append(render(c))
        with open(os.path.join(outdir, 'S%d.v' % k), 'w') as f:
            f.write(HEADER)
            f.write('Definition cases : list prr_case := [\n%s].\n' % ';\n'.join(texts))
            f.write('Eval vm_compute in bad_parserr_cases 0 cases.\n')
        k += 1
    print(len(cs), 'cases', k, 'shards in', outdir)


if __name__ == '__main__':
    main()
