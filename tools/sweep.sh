#!/bin/bash
# usage: tools/sweep.sh <seed> [tier]  -- run every claimed check once with the given seed, 4 at a time; prints one line per check
S=${1:-0}; T=${2:-quick}
cd /verif
mkdir -p /var/tmp/sweep
ls harness/props/c[0-9][0-9].py | sed 's/.*\/c\([0-9]*\)\.py/C\1/' | xargs -P 4 -I{} bash -c "VERIF_SEED=$S ./check {} --tier $T > /var/tmp/sweep/{}.$S.log 2>&1; echo \"{} seed=$S exit=\$? \$(grep -E 'quick:|thorough:' /var/tmp/sweep/{}.$S.log | tail -1)\""
