#!/venv/bin/python
"""Correspondence cases for coq/theories/Model/Parse.v (pycdlib's own parser of the directory area, open after write).

A case is an edit HISTORY on `iso.new(interchange_level=3)`: the operations of tools/master_cases.py (add_directory,
add_fp, rm_file, rm_directory, intermediate write_fp) plus ('link', old, new) = add_hard_link(iso_old_path=old,
iso_new_path=new) (two records, ONE inode).  `render(case)` replays it on the real pycdlib (/repo) with time.time()
pinned, masters the image into memory, opens the bytes with a NEW PyCdlib object (open_fp) and reads the parsed
object graph OFF THE OPENED OBJECT, breadth first over the `children` lists:

    per directory, per child record:  (file_ident, file_flags, extent_location(), data_length, dr_len,
                                       (index_in_parent, extents_to_here, offset_to_here),
                                       (index of record.inode in iso.inodes or -1, number of the directory it heads or -1))
    iso.inodes as (extent_location(), get_data_length()), iso.interchange_level, the largest end of file data

then write_fp's the opened object and records whether the second image equals the first byte for byte.  The model gets
only bytes: the root pointer (byte 156 of sector 16), the extents of the L path table records (cut out of the image
by a tiny parser of its own), the length of the image, and the blocks of every directory extent.  The Coq term is of
type Parse.ps_case; `Parse.bad_parse_cases 0 cases` lists the cases where

  * `parse` run on the REAL bytes does not return exactly the library's object graph,
  * `ps_write` of that graph (the model of write_fp on the opened object) differs from the first image although the
    library's second image did not (or the other way round),
  * and, for histories without hard links (the writer's tree is an Account.node): the tree is not `ps_tree_ok`, `master`
    does not produce these bytes, `graph_of tree` is not the library's graph, `tree_of (parse ...)` is not the tree, the
    path table extents are not `ps_ptr_exts tree`, or the image is shorter than the layout.

TRUNCATED IMAGES: a case may carry a third component ('cut', k, gen): the written image is cut inside the data of its
LAST file (k selects the offset: at its first byte, 1 byte in, the middle, one block in, 1 byte short); gen 1 renders
the cut image itself (opened object: record and inode lengths after the truncation branch of _walk_directories, the
second image differs from the cut one), gen 2 renders the image that the object which opened the cut image WROTE
(reopened: lengths stable, third image = second image).  No writer's tree is given for them.

    cases(seed, n) -> n histories (boundary ones first, then random ones drawn from `seed`)
    render(case)   -> Coq term

HOSTILE directory areas (property C15): see hostile_cases / render_hostile below;
       /venv/bin/python /verif/tools/parse_cases.py hostile SEED N [OUTDIR]   (shards of 25 cases, H<k>.v, `= []`)

usage: /venv/bin/python /verif/tools/parse_cases.py SEED N [OUTDIR]   (writes shards of <= 60 cases, S<k>.v;
       check each with  cd /verif/coq && coqc -q -Q theories PV OUTDIR/S<k>.v  -- it must print `= []`)
"""
import collections
import io
import os
import random
import struct
import sys
import time

sys.path.insert(0, os.path.dirname(os.path.abspath(__file__)))
sys.path.insert(0, os.environ.get('VERIF_REPO', '/repo'))
import pycdlib  # noqa: E402
import master_cases as mc  # noqa: E402

BLOCK = 2048
fname, dname = mc.fname, mc.dname


# ---------------------------------------------------------------------------------------- histories

def h_empties():
    """empty files next to each other, an empty file followed by a non-empty one, and the other way round"""
    ops = [('dir', '/E')]
    for k, ln in enumerate([0, 0, 0, 5, 0, 2048, 0, 0, 2049, 0]):
        ops.append(('file', '/E/' + fname(k, 12), ln))
    ops += [('file', '/' + fname(50, 9), 0), ('file', '/' + fname(51, 9), 0), ('file', '/' + fname(52, 9), 1)]
    ops += [('dir', '/E/ONLY0'), ('file', '/E/ONLY0/Z.;1', 0), ('file', '/E/ONLY0/Y.;1', 0)]
    return ops


def h_links(kind):
    ops = [('dir', '/A'), ('dir', '/B'), ('file', '/A/' + fname(1, 12), 5), ('file', '/A/' + fname(2, 12), 0),
           ('file', '/' + fname(3, 9), 4097)]
    if kind == 0:       # a link next to its source, one in another directory, one in the root
        ops += [('link', '/A/' + fname(1, 12), '/A/' + fname(7, 12)), ('link', '/A/' + fname(1, 12), '/B/L1.;1'),
                ('link', '/' + fname(3, 9), '/B/L3.;1'), ('link', '/' + fname(3, 9), '/L3B.;1')]
    elif kind == 1:     # hard links to an EMPTY file: one inode before the write, own inodes after open
        ops += [('link', '/A/' + fname(2, 12), '/A/' + fname(8, 12)), ('link', '/A/' + fname(2, 12), '/B/L0.;1'),
                ('file', '/B/M.;1', 0)]
    elif kind == 2:     # the link sorts BEFORE its source and lives in a directory walked earlier
        ops += [('dir', '/A/Z'), ('file', '/A/Z/SRC.;1', 3000), ('link', '/A/Z/SRC.;1', '/A/0L.;1'),
                ('link', '/A/Z/SRC.;1', '/0L.;1'), ('rmfile', '/A/' + fname(1, 12))]
    else:               # remove the original name, keep the link; link of a link
        ops += [('link', '/A/' + fname(1, 12), '/B/K1.;1'), ('link', '/B/K1.;1', '/B/K2.;1'),
                ('rmfile', '/A/' + fname(1, 12)), ('write',), ('file', '/B/N.;1', 9)]
    return ops


def h_random_links(rng, nops):
    """mc.h_random with hard links mixed in; rm_file removes EVERY name of the inode, and a directory that holds a
    link is no longer empty for the rm_directory that mc.h_random planned (that rm_directory is dropped)"""
    ops = mc.h_random(rng, nops)
    group = {}                                  # name -> list of the names of its inode (shared object)
    out = []
    for op in ops:
        if op[0] == 'rmdir' and any(nm.startswith(op[1] + '/') for nm in group):
            continue
        out.append(op)
        if op[0] == 'file':
            group[op[1]] = [op[1]]
        elif op[0] == 'rmfile':
            for nm in group.pop(op[1]):
                group.pop(nm, None)
        if group and rng.random() < 0.15:
            src = rng.choice(sorted(group))
            parent = src.rsplit('/', 1)[0] if rng.random() < 0.5 else ''
            new = parent + '/L%05d.;1' % rng.randrange(100000)
            if new not in group:
                group[src].append(new)
                group[new] = group[src]
                out.append(('link', src, new))
    return out


def truncated_cases():
    hs = [('t_one', [('file', '/A.;1', 5000)]),
          ('t_two', [('dir', '/D'), ('file', '/D/' + fname(1, 12), 3), ('file', '/' + fname(2, 9), 0),
                     ('file', '/D/' + fname(3, 12), 7000)]),
          ('t_link', [('file', '/' + fname(1, 9), 10), ('dir', '/Z'), ('file', '/Z/' + fname(2, 12), 4097),
                      ('link', '/Z/' + fname(2, 12), '/Z/L.;1'), ('link', '/Z/' + fname(2, 12), '/L2.;1')])]
    cs = []
    for nm, ops in hs:
        for k in range(5):
            for gen in (1, 2):
                cs.append(('%s_cut%d_gen%d' % (nm, k, gen), ops, ('cut', k, gen)))
    return cs


def boundary_cases():
    cs = [('empties', h_empties())]
    for k in range(4):
        cs.append(('links_%d' % k, h_links(k)))
    # directories of exactly 1 / 2 / 3 blocks, full to the last byte and one record more
    for nrec in (45, 46, 91, 92, 137, 138):
        cs.append(('blocks44_%d' % nrec, mc.h_boundary(nrec, 11)))
    cs += truncated_cases()
    cs += mc.boundary_cases()
    return cs


def cases(seed, n):
    cs = boundary_cases()[:n]
    rng = random.Random(seed * 7919 + 13)
    k = 0
    while len(cs) < n:
        nops = rng.choice([8, 20, 40, 60, 90])
        if k % 3 == 2:
            cs.append(('randlink_%d_%d' % (seed, k), h_random_links(rng, nops)))
        else:
            cs.append(('rand_%d_%d' % (seed, k), mc.h_random(rng, nops)))
        k += 1
    return cs


# ---------------------------------------------------------------------------------------- run on pycdlib

def build(ops):
    """-> (writer's tree or None when the history has a hard link, image bytes)"""
    saved = time.time
    time.time = lambda: mc.CLOCK
    try:
        iso = pycdlib.PyCdlib()
        iso.new(interchange_level=3)
        linked = False
        for op in ops:
            if op[0] == 'dir':
                iso.add_directory(op[1])
            elif op[0] == 'file':
                iso.add_fp(io.BytesIO(b'\x5a' * op[2]), op[2], op[1])
            elif op[0] == 'rmfile':
                iso.rm_file(op[1])
            elif op[0] == 'rmdir':
                iso.rm_directory(op[1])
            elif op[0] == 'link':
                iso.add_hard_link(iso_old_path=op[1], iso_new_path=op[2])
                linked = True
            else:
                iso.write_fp(io.BytesIO())
        tree = None if linked else mc.tree_of(iso.pvd.root_directory_record())
        out = io.BytesIO()
        iso.write_fp(out)
        iso.close()
    finally:
        time.time = saved
    return tree, out.getvalue()


def reopen(img):
    """-> (object graph read off the opened object, second image == first image)"""
    saved = time.time
    time.time = lambda: mc.CLOCK
    try:
        iso = pycdlib.PyCdlib()
        iso.open_fp(io.BytesIO(img))
        ino_index = {id(ino): k for k, ino in enumerate(iso.inodes)}
        root = iso.pvd.root_directory_record()
        order, number = [root], {id(root): 0}
        queue = collections.deque([root])
        while queue:
            d = queue.popleft()
            for c in d.children:
                if c.is_dir() and not c.is_dot() and not c.is_dotdot():
                    number[id(c)] = len(order)
                    order.append(c)
                    queue.append(c)
        dirs = []
        for d in order:
            recs = []
            for c in d.children:
                recs.append((c.file_ident, c.file_flags, c.extent_location(), c.data_length, c.dr_len,
                             (c.index_in_parent, c.extents_to_here, c.offset_to_here),
                             (ino_index[id(c.inode)] if c.inode is not None else -1, number.get(id(c), -1))))
            dirs.append(recs)
        inodes = [(ino.extent_location(), ino.get_data_length()) for ino in iso.inodes]
        lastbyte = raw_lastbyte(img)
        level = iso.interchange_level
        out = io.BytesIO()
        iso.write_fp(out)
        iso.close()
    finally:
        time.time = saved
    return (dirs, inodes, level, lastbyte), out.getvalue() == img, out.getvalue()


def raw_files(img):
    """(extent, length) of every non-directory record, read from the bytes (own parser)"""
    _root, _date, dirs = mc.cut_dirs(img)
    out = []
    for _ext, data in dirs:
        off, k = 0, 0
        while off < len(data):
            ln = data[off]
            if ln == 0:
                off = (off // BLOCK + 1) * BLOCK
                continue
            if k >= 2 and not data[off + 25] & 2:
                out.append((struct.unpack_from('<I', data, off + 2)[0], struct.unpack_from('<I', data, off + 10)[0]))
            off += ln
            k += 1
    return out


def raw_lastbyte(img):
    """the largest end of file data that lies inside the image (zero-length files do not count)"""
    return max([e * BLOCK + ln for e, ln in raw_files(img) if ln > 0 and e * BLOCK + ln <= len(img)] + [0])


def cut_image(img, k):
    """cut inside the data of the last file"""
    e, ln = max((e, ln) for e, ln in raw_files(img) if ln > 0)
    off = [0, 1, ln // 2, min(BLOCK, ln - 1), ln - 1][k]
    return img[:e * BLOCK + off]


def ptr_extents(img):
    """extents of the records of the L path table, in order (own parser)"""
    pvd = img[16 * BLOCK:17 * BLOCK]
    size = struct.unpack_from('<I', pvd, 132)[0]
    loc = struct.unpack_from('<I', pvd, 140)[0]
    data = img[loc * BLOCK:loc * BLOCK + size]
    off, out = 0, []
    while off < size:
        ln = data[off]
        out.append(struct.unpack_from('<I', data, off + 2)[0])
        off += 8 + ln + (ln % 2)
    return out


# ---------------------------------------------------------------------------------------- Coq terms

zl = mc.zl


def coq_erec(r):
    nm, fl, ext, dl, drl, (i, x, o), (k, m) = r
    return '(%s, %d, %d, %d, %d, (%d, %d, %d), (%d, %d))' % (zl(nm), fl, ext, dl, drl, i, x, o, k, m)


def coq_egraph(g):
    dirs, inodes, level, lastbyte = g
    return '([%s], [%s], %d, %d)' % ('; '.join('[%s]' % '; '.join(coq_erec(r) for r in d) for d in dirs),
                                     '; '.join('(%d, %d)' % x for x in inodes), level, lastbyte)


def render(case):
    tree, img = build(case[1])
    if len(case) > 2:
        _cut, k, gen = case[2]
        tree, img = None, cut_image(img, k)
        if gen == 2:
            img = reopen(img)[2]
    (rext, rlen), date, dirs = mc.cut_dirs(img)
    graph, same, _second = reopen(img)
    exp = '; '.join('(%d, [%s])' % (e, '; '.join('(%d, %s)' % (z, zl(lit)) for z, lit in mc.rle(d))) for e, d in dirs)
    return '(%s, %s, (%d, %d), %s, %d, [%s], %s, %s)' % (
        'None' if tree is None else 'Some (%s)' % mc.coq_tree(tree), zl(date), rext, rlen, zl(ptr_extents(img)),
        len(img), exp, coq_egraph(graph), 'true' if same else 'false')


HEADER = ('From Coq Require Import ZArith List Bool.\nImport ListNotations.\n'
          'From PV.Model Require Import Master Parse.\nLocal Open Scope Z_scope.\n')


# ---------------------------------------------------------------------------------------- hostile directory areas (C15)
# A valid written image is damaged on purpose; what open_fp does with the bytes (the graph it builds, or the raise
# point it reaches) is read off the REAL library and compared with Parse.parse_file on the same bytes
# (Model/ParseHostile.v, bad_hostile_cases).
#     hostile_cases(seed, n) -> n cases (the designed ones first, then seeded random byte flips in directory blocks)
#     render_hostile(case)   -> Coq term of type ParseHostile.ps_hcase

def hostile_bases():
    a = [('dir', '/A'), ('dir', '/A/B'), ('dir', '/C'), ('file', '/A/' + fname(1, 12), 5), ('file', '/A/' + fname(2, 12), 0),
         ('file', '/A/B/' + fname(3, 9), 2049), ('file', '/' + fname(4, 9), 7), ('file', '/C/' + fname(5, 13), 1),
         ('file', '/Q', 3), ('dir', '/C/D')]
    b = [('dir', '/BIG')] + [('file', '/BIG/' + fname(k, 11), k % 3) for k in range(50)] + [('dir', '/BIG/S'), ('file', '/BIG/S/X.;1', 4)]
    return [build(a)[1], build(b)[1]]


def raw_records(img):
    """every record of a VALID image: dict(dir=(ext, len), off=absolute offset, ...), breadth first"""
    (rext, rlen), _date, _dirs = mc.cut_dirs(img)
    queue, out = [(rext, rlen)], []
    while queue:
        ext, ln = queue.pop(0)
        base, off, k = ext * BLOCK, 0, 0
        while off < ln:
            l = img[base + off]
            if l == 0:
                off = (off // BLOCK + 1) * BLOCK
                continue
            o = base + off
            r = dict(dir=(ext, ln), off=o, dr_len=l, ext=struct.unpack_from('<I', img, o + 2)[0],
                     dlen=struct.unpack_from('<I', img, o + 10)[0], flags=img[o + 25], len_fi=img[o + 32],
                     name=bytes(img[o + 33:o + 33 + img[o + 32]]), idx=k)
            out.append(r)
            if k >= 2 and r['flags'] & 2:
                queue.append((r['ext'], r['dlen']))
            off += l
            k += 1
    return out


def put32(img, o, v):
    img[o:o + 8] = struct.pack('<I', v) + struct.pack('>I', v)


def hostile_mutations(img):
    """[(name, mutated image)] designed damages of one valid image"""
    recs = raw_records(img)
    dirs = [r for r in recs if r['flags'] & 2 and r['idx'] >= 2]
    files = [r for r in recs if not r['flags'] & 2]
    dots = [r for r in recs if r['idx'] == 0]
    root_ext = recs[0]['dir'][0]
    out = []

    def mut(name, fn):
        m = bytearray(img)
        fn(m)
        out.append((name, bytes(m)))
    for i, d in enumerate(dirs):
        mut('dir%d_to_root' % i, lambda m, d=d: put32(m, d['off'] + 2, root_ext))
        mut('dir%d_to_parent' % i, lambda m, d=d: put32(m, d['off'] + 2, d['dir'][0]))
        mut('dir%d_to_sibling' % i, lambda m, d=d, i=i: put32(m, d['off'] + 2, dirs[(i + 1) % len(dirs)]['ext']))
        mut('dir%d_not_in_ptable' % i, lambda m, d=d: put32(m, d['off'] + 2, files[0]['ext'] or 5))
        mut('dir%d_len_2g' % i, lambda m, d=d: put32(m, d['off'] + 10, 2 ** 31))
        mut('dir%d_len_0' % i, lambda m, d=d: put32(m, d['off'] + 10, 0))
        mut('dir%d_len_100' % i, lambda m, d=d: put32(m, d['off'] + 10, 100))
        mut('dir%d_len_3000' % i, lambda m, d=d: put32(m, d['off'] + 10, 3000))
        mut('dir%d_len_2blocks' % i, lambda m, d=d: put32(m, d['off'] + 10, 4096))
        mut('dir%d_beyond_eof' % i, lambda m, d=d: put32(m, d['off'] + 2, len(img) // BLOCK + 7))
        mut('dir%d_flag_cleared' % i, lambda m, d=d: m.__setitem__(d['off'] + 25, 0))
        mut('dir%d_named_dot' % i, lambda m, d=d: m.__setitem__(slice(d['off'] + 32, d['off'] + 34), bytes([1, 0])))
        mut('dir%d_named_dotdot' % i, lambda m, d=d: m.__setitem__(slice(d['off'] + 32, d['off'] + 34), bytes([1, 1])))
    for i, f in enumerate(files[:8]):
        mut('file%d_lenbyte_0' % i, lambda m, f=f: m.__setitem__(f['off'], 0))
        mut('file%d_lenbyte_20' % i, lambda m, f=f: m.__setitem__(f['off'], 20))
        mut('file%d_lenbyte_254' % i, lambda m, f=f: m.__setitem__(f['off'], 254))
        mut('file%d_lenfi_200' % i, lambda m, f=f: m.__setitem__(f['off'] + 32, 200))
        mut('file%d_lenfi_0' % i, lambda m, f=f: m.__setitem__(f['off'] + 32, 0))
        mut('file%d_extent_be_wrong' % i, lambda m, f=f: m.__setitem__(f['off'] + 9, (m[f['off'] + 9] + 1) % 256))
        mut('file%d_seqnum_be_wrong' % i, lambda m, f=f: m.__setitem__(f['off'] + 31, 7))
        mut('file%d_xattr_record_bit' % i, lambda m, f=f: (m.__setitem__(f['off'] + 1, 3), m.__setitem__(f['off'] + 25, 8)))
        mut('file%d_dir_flag' % i, lambda m, f=f: m.__setitem__(f['off'] + 25, 2))
        mut('file%d_huge' % i, lambda m, f=f: put32(m, f['off'] + 10, 2 ** 32 - 1))
        mut('file%d_extent_of_next' % i, lambda m, f=f, i=i: put32(m, f['off'] + 2, files[(i + 1) % len(files)]['ext']))
        if f['name'].endswith(b';1'):
            mut('file%d_version_X' % i, lambda m, f=f: m.__setitem__(f['off'] + 33 + f['len_fi'] - 1, ord('X')))
            mut('file%d_version_0' % i, lambda m, f=f: m.__setitem__(f['off'] + 33 + f['len_fi'] - 1, ord('0')))
        if f['len_fi'] == 1:
            mut('file%d_named_dot' % i, lambda m, f=f: m.__setitem__(f['off'] + 33, 0))
            mut('file%d_named_dotdot' % i, lambda m, f=f: m.__setitem__(f['off'] + 33, 1))
    for i, d in enumerate(dots[:4]):
        mut('dot%d_named_A' % i, lambda m, d=d: m.__setitem__(d['off'] + 33, 65))
        mut('dot%d_lenbyte_0' % i, lambda m, d=d: m.__setitem__(d['off'], 0))
    pvd = 16 * BLOCK
    mut('ptable_empty', lambda m: put32(m, pvd + 132, 0))
    mut('root_beyond_eof', lambda m: put32(m, pvd + 156 + 2, len(img) // BLOCK + 3))
    mut('root_len_0', lambda m: put32(m, pvd + 156 + 10, 0))
    mut('root_len_1', lambda m: put32(m, pvd + 156 + 10, 1))
    mut('root_is_subdir', lambda m: put32(m, pvd + 156 + 2, dirs[0]['ext']))
    mut('root_len_rest_of_image', lambda m: put32(m, pvd + 156 + 10, len(img) - root_ext * BLOCK))
    return out


def hostile_cases(seed, n):
    cs = []
    for b, img in enumerate(hostile_bases()):
        cs += [('h%d_%s' % (b, nm), m) for nm, m in hostile_mutations(img)]
    cs = cs[:n]
    rng = random.Random(seed * 104729 + 7)
    bases = hostile_bases()
    k = 0
    while len(cs) < n:
        img = bytearray(bases[k % len(bases)])
        recs = raw_records(bytes(img))
        for _ in range(rng.choice([1, 1, 2, 3])):
            r = rng.choice(recs)
            o = r['off'] + rng.choice([0, 1, 2, 3, 10, 11, 25, 26, 27, 28, 32, 33, 34, r['dr_len'] - 1])
            img[o] = rng.choice([0, 1, 2, 34, 255, rng.randrange(256)])
        cs.append(('hrand_%d_%d' % (seed, k), bytes(img)))
        k += 1
    return cs


def classify(err):
    msg = str(err)
    if isinstance(err, pycdlib.pycdlibexception.PyCdlibInvalidInput):
        if 'Failed adding duplicate name to parent' in msg:
            return 4
    if isinstance(err, pycdlib.pycdlibexception.PyCdlibInvalidISO):
        for text, k in (('Invalid directory record', 1), ('extent location disagree', 2), ('seqnum disagree', 2),
                        ('Record Bit not allowed', 2), ('Protection Bit not allowed', 2), ('Malformed ISO (error', 2),
                        ('Malformed ISO (KeyError', 3), ('Malformed ISO (ValueError', 5), ('Invalid padding on ISO', 6),
                        ('Directory loop on the ISO', 7), ('Malformed ISO (IndexError', 8),
                        ('Overlapping directories on the ISO', 9)):
            if text in msg:
                return k
    raise RuntimeError('outcome of open_fp not attributable to the directory walk: %s: %s' % (type(err).__name__, msg))


def disc_names(img, ext, ln):
    """identifiers of the records of a directory extent in the order they lie on disc (the loop of the library)"""
    data = img[ext * BLOCK:ext * BLOCK + ln]
    off, out = 0, []
    while off < ln:
        l = data[off]
        if l == 0:
            off += BLOCK - off % BLOCK
            continue
        r = data[off:off + l]
        out.append((r[33:33 + r[32]], r[25]))
        off += l
    return out


class Instrument:
    """record, while open_fp runs, where the walk first leaves the modelled fragment (nothing is changed in /repo:
    three methods are wrapped for the duration of one call)"""

    def __init__(self):
        self.events = []

    def __enter__(self):
        import pycdlib.dr as drmod
        import pycdlib.rockridge as rrmod
        self.saved = (drmod.XARecord.parse, rrmod.RockRidge.parse, drmod.DirectoryRecord.track_child, drmod, rrmod)
        xa, rr, tc = self.saved[:3]
        ev = self.events

        def xa_parse(obj, xastr, len_fi):
            try:
                found = xa(obj, xastr, len_fi)
            except Exception:
                ev.append(1)
                raise
            if found:
                ev.append(1)
            return found

        def rr_parse(obj, *args, **kwargs):
            ev.append(1)
            return rr(obj, *args, **kwargs)

        def track_child(obj, child, lbs, allow_duplicate=False):
            if allow_duplicate:
                ev.append(2)
            return tc(obj, child, lbs, allow_duplicate)
        drmod.XARecord.parse, rrmod.RockRidge.parse, drmod.DirectoryRecord.track_child = xa_parse, rr_parse, track_child
        return self

    def __exit__(self, *exc):
        xa, rr, tc, drmod, rrmod = self.saved
        drmod.XARecord.parse, rrmod.RockRidge.parse, drmod.DirectoryRecord.track_child = xa, rr, tc
        return False


def hostile_outcome(img):
    iso = pycdlib.PyCdlib()
    with Instrument() as ins:
        try:
            iso.open_fp(io.BytesIO(img))
            err = None
        except Exception as e:  # pylint: disable=broad-except
            err = e
    if ins.events:
        return ('outside', ins.events[0])
    if err is not None:
        return ('invalid', classify(err))
    ino_index = {id(ino): k for k, ino in enumerate(iso.inodes)}
    root = iso.pvd.root_directory_record()
    order, number, queue = [root], {id(root): 0}, collections.deque([root])
    while queue:                                    # the order in which the walk popped the directories
        d = queue.popleft()
        kids = {c.file_ident: c for c in d.children if c.is_dir() and not c.is_dot() and not c.is_dotdot()}
        for nm, fl in disc_names(img, d.extent_location(), d.get_data_length()):
            if fl & 2 and nm not in (b'\x00', b'\x01'):
                c = kids[nm]
                number[id(c)] = len(order)
                order.append(c)
                queue.append(c)
    dirs = []
    for d in order:
        dirs.append([(c.file_ident, c.file_flags, c.extent_location(), c.data_length, c.dr_len,
                      (c.index_in_parent, c.extents_to_here, c.offset_to_here),
                      (ino_index[id(c.inode)] if c.inode is not None else -1, number.get(id(c), -1))) for c in d.children])
    return ('ok', (dirs, [(ino.extent_location(), ino.get_data_length()) for ino in iso.inodes], iso.interchange_level))


def render_hostile(case):
    img = case[1]
    pvd = 16 * BLOCK
    rext, rlen = struct.unpack_from('<I', img, pvd + 158)[0], struct.unpack_from('<I', img, pvd + 166)[0]
    kind, val = hostile_outcome(img)
    if kind == 'ok':
        dirs, inodes, level = val
        ex = 'HOk ([%s], [%s], %d)' % ('; '.join('[%s]' % '; '.join(coq_erec(r) for r in d) for d in dirs),
                                       '; '.join('(%d, %d)' % x for x in inodes), level)
    elif kind == 'outside':
        ex = 'HOutside %d' % val
    else:
        ex = 'HInvalid %d' % val
    body = '; '.join('(%d, %s)' % (z, zl(lit)) for z, lit in mc.rle(img))
    return '(%s, (%d, %d), [%s], %s)' % (zl(ptr_extents(img)), rext, rlen, body, ex)


HOSTILE_HEADER = ('From Coq Require Import ZArith List Bool.\nImport ListNotations.\n'
                  'From PV.Model Require Import Master Parse ParseHostile.\nLocal Open Scope Z_scope.\n')


def main_hostile(seed, n, outdir):
    os.makedirs(outdir, exist_ok=True)
    cs = hostile_cases(seed, n)
    shard, k, kinds = 25, 0, collections.Counter()
    for i in range(0, len(cs), shard):
        texts = []
        for c in cs[i:i + shard]:
            t = render_hostile(c)
            kinds[t[t.rfind('], H') + 3:][:11]] += 1
            texts.append(t)
        with open(os.path.join(outdir, 'H%d.v' % k), 'w') as f:
            f.write(HOSTILE_HEADER)
            f.write('Definition cases : list ps_hcase := [\n%s].\n' % ';\n'.join(texts))
            f.write('Eval vm_compute in bad_hostile_cases 0 cases.\n')
        k += 1
    print(len(cs), 'hostile cases', k, 'shards in', outdir, dict(kinds))

def main():
    if sys.argv[1] == 'hostile':
        return main_hostile(int(sys.argv[2]), int(sys.argv[3]), sys.argv[4] if len(sys.argv) > 4 else '/var/tmp/parse/hostile')
    seed, n = int(sys.argv[1]), int(sys.argv[2])
    outdir = sys.argv[3] if len(sys.argv) > 3 else '/var/tmp/parse'
    os.makedirs(outdir, exist_ok=True)
    cs = cases(seed, n)
    shard, k = 60, 0
    for i in range(0, len(cs), shard):
        texts = [render(c) for c in cs[i:i + shard]]
        with open(os.path.join(outdir, 'S%d.v' % k), 'w') as f:
            f.write(HEADER)
            f.write('Definition cases : list ps_case := [\n%s].\n' % ';\n'.join(texts))
            f.write('Eval vm_compute in bad_parse_cases 0 cases.\n')
        k += 1
    print(len(cs), 'cases', k, 'shards in', outdir)


if __name__ == '__main__':
    main()
