#!/usr/bin/env python3
"""restate.py PROPFILE SECTION 'intro comment' IMPORTS(comma sep, fully qualified modules) SRC1:name=Cname,name=Cname ... 
Appends to Properties/<PROPFILE> a Section that imports the given modules and restates the named theorems of the given
proof files (statement copied verbatim, proof = `apply`/`exact` of the original)."""
import re, sys
prop, section, intro, imports = sys.argv[1:5]
out = ['', '(* %s *)' % intro]
mods = [m for m in imports.split(',') if m]
by_dir = {}
for m in mods:
    d, n = m.rsplit('.', 1)
    by_dir.setdefault(d, []).append(n)
for d, ns in by_dir.items():
    out.append('From %s Require %s.' % (d, ' '.join(ns)))
out.append('Section %s.' % section)
out.append('Import %s.' % ' '.join(mods))
out.append('Local Open Scope Z_scope.')
for spec in sys.argv[5:]:
    src, names = spec.split(':', 1)
    text = open(src).read()
    for pair in names.split(','):
        n, c = pair.split('=')
        m = re.search(r'^(Theorem|Corollary|Example|Lemma)\s+' + re.escape(n) + r'\b(.*?)\n\s*Proof\.', text, re.S | re.M)
        if not m:
            m = re.search(r'^(Theorem|Corollary|Example|Lemma)\s+' + re.escape(n) + r'\b(.*?\.)\s*Proof\.', text, re.S | re.M)
        assert m, n
        kind = 'Example' if m.group(1) == 'Example' else 'Theorem'
        out.append('%s %s%s\nProof. first [exact (@%s) | apply (@%s) | intros; eapply (@%s); eassumption]. Qed.\n' % (kind, c, m.group(2).rstrip(), n, n, n))
out.append('End %s.' % section)
open('/verif/coq/theories/Properties/' + prop, 'a').write('\n'.join(out) + '\n')
