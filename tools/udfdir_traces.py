"""Differential traces for coq/theories/Model/UdfDir.v: random histories of adds / removes on one UDF
directory (/d) of a real PyCdlib object, observed after every operation.

  history(seed, nops) -> (ops, obs, lbrs, fis)
      ops  : list of ('A', encoded_name_bytes, isdir) | ('R', encoded_name_bytes, child_nonempty)
      obs  : per op (accepted 0/1, info_len, alloc_descs[0].extent_length, blocks granted so far)
      lbrs : per op log_block_recorded
      fis  : final [list(fi.fi) for fi in rec.fi_descs]
  render(case) -> Coq term of type UdfDir.udfdir_case (for UdfDir.bad_udfdir_cases)

Names are encoded as UDFFileIdentifierDescriptor.new does: latin-1, else utf-16_be, no prefix byte.
Blocks granted = 1 + the changes of partitions[0].part_length minus the File Entry blocks
(1 for a file, 2 for a directory: its File Entry and its own identifier area).
Run as a script: udfdir_traces.py N NOPS [workdir]  (evaluates the cases with coqc)."""
import sys, io, random
if '/repo' not in sys.path:
    sys.path.insert(0, '/repo')
import pycdlib
from pycdlib import pycdlibexception as pe

LAT = 'abcdefghijklmnopqrstuvwxyzABCDEFGHIJKLMNOPQRSTUVWXYZ0123456789_-\xe9\xfc\xdf\xf1'
WIDE = 'Ł中ЖΩ' + 'abcXYZ019'

def enc(name):
    try: return list(name.encode('latin-1'))
    except UnicodeEncodeError: return list(name.encode('utf-16_be'))

def rname(rng):
    wide = rng.random() < 0.25
    mode = rng.random()
    if mode < 0.2: L = rng.randint(1, 12)
    elif mode < 0.8: L = rng.randint(100, 254)
    else: L = rng.choice([253, 254, 1, 2, 3, 4, 5, 6])
    if wide:
        n = max(1, L // 2)
        s = ''.join(rng.choice(WIDE) for _ in range(n))
        if all(ord(c) < 256 for c in s): s = 'Ł' + s[1:]
        return s
    return ''.join(rng.choice(LAT) for _ in range(L))

def history(seed, nops):
    rng = random.Random(seed)
    iso = pycdlib.PyCdlib(); iso.new(udf='2.60'); iso.add_directory(udf_path='/d')
    part = lambda: iso.udf_main_descs.partitions[0].part_length
    rec = lambda: iso.get_record(udf_path='/d')
    present = {}   # name -> isdir
    nonempty = set()
    granted = 1
    ops=[]; obs=[]; lbrs=[]
    r0 = rec(); assert (r0.info_len, r0.alloc_descs[0].extent_length, r0.log_block_recorded) == (40,40,1)
    for k in range(nops):
        x = rng.random()
        p0 = part()
        padd = 0.85 if (k // 14) % 2 == 0 else 0.2
        if x < padd or not present:
            # add (fresh or, sometimes, duplicate / too long)
            y = rng.random()
            if y < 0.12 and present: name = rng.choice(sorted(present))
            elif y < 0.16: name = 'x' * rng.choice([255, 256, 300])
            elif y < 0.19: name = 'Ł' * 128
            else: name = rname(rng)
            isdir = rng.random() < 0.3
            ops.append(('A', enc(name), isdir))
            try:
                if isdir: iso.add_directory(udf_path='/d/' + name)
                else: iso.add_fp(io.BytesIO(b''), 0, udf_path='/d/' + name)
                acc = 1; present[name] = isdir
            except pe.PyCdlibException as e:
                acc = 0
            d = part() - p0
            if acc: d -= (2 if isdir else 1)
            granted += d
        else:
            y = rng.random()
            if y < 0.15: name = rname(rng)        # (almost surely) missing
            else: name = rng.choice(sorted(present))
            isdir = present.get(name, False)
            ne = False
            if isdir and name not in nonempty and rng.random() < 0.3:
                iso.add_fp(io.BytesIO(b''), 0, udf_path='/d/' + name + '/inner'); nonempty.add(name)
                p0 = part()
            if isdir and name in nonempty:
                if rng.random() < 0.5:
                    iso.rm_hard_link(udf_path='/d/' + name + '/inner'); nonempty.discard(name); p0 = part()
                else: ne = True
            ops.append(('R', enc(name), ne))
            try:
                if isdir: iso.rm_directory(udf_path='/d/' + name)
                else: iso.rm_hard_link(udf_path='/d/' + name)
                acc = 1; del present[name]
            except pe.PyCdlibException as e:
                acc = 0
            d = part() - p0
            if acc: d += (2 if isdir else 1)
            granted += d
        r = rec()
        obs.append((acc, r.info_len, r.alloc_descs[0].extent_length, granted))
        lbrs.append(r.log_block_recorded)
    fis = [list(fi.fi) for fi in rec().fi_descs]
    return ops, obs, lbrs, fis

def zl(l): return '[' + '; '.join(str(x) for x in l) + ']'
def cb(b): return 'true' if b else 'false'
def render(case):
    ops, obs, lbrs, fis = case
    o = '[' + '; '.join(('Add %s %s' if k == 'A' else 'Remove %s %s') % (zl(n), cb(f)) for k, n, f in ops) + ']'
    ob = '[' + '; '.join('(%d, %d, %d, %d)' % t for t in obs) + ']'
    return '(%s, %s, %s, %s)' % (o, ob, zl(lbrs), '[' + '; '.join(zl(f) for f in fis) + ']')

def main(argv):
    import json, os, subprocess
    n = int(argv[1]); nops = int(argv[2])
    work = argv[3] if len(argv) > 3 else '.'
    cases = [history(1000 + s, nops) for s in range(n)]
    stats = dict(ops=0, refused=0, cross_up=0, cross_down=0, lbr_not_ceiling=0)
    for ops, obs, lbrs, fis in cases:
        g = 1
        for (a, i, ad, gr), l in zip(obs, lbrs):
            stats['ops'] += 1; stats['refused'] += (a == 0)
            if gr > g: stats['cross_up'] += 1
            if gr < g: stats['cross_down'] += 1
            if l != -(-i // 2048): stats['lbr_not_ceiling'] += 1
            g = gr
    print(stats)
    shard = 50
    for ix in range(0, n, shard):
        txt = ['From Coq Require Import ZArith List Bool.', 'Import ListNotations.',
               'From PV.Model Require Import UdfDir.', 'Local Open Scope Z_scope.',
               'Definition cases : list udfdir_case := [\n%s].' % ';\n'.join(render(c) for c in cases[ix:ix+shard]),
               'Eval vm_compute in bad_udfdir_cases %d cases.' % ix]
        path = os.path.join(work, 'UdfDirCases%d.v' % ix)
        open(path, 'w').write('\n'.join(txt) + '\n')
        out = subprocess.run(['coqc', '-q', '-Q', '/verif/coq/theories', 'PV', path],
                             capture_output=True, text=True, timeout=1800, cwd=work)
        print(ix, out.returncode, out.stdout.strip()[-300:], out.stderr.strip()[-500:])


if __name__ == '__main__':
    main(sys.argv)
