#!/bin/bash
# usage: tools/try_seed.sh <Cxx> <patch.diff> [tier]  -- apply a seeded change to /repo, run the check, undo
set -u
P=$1; D=$2; T=${3:-quick}
cd /verif
git -C /repo apply "$D" || { echo "PATCH DOES NOT APPLY"; exit 2; }
./check $P --tier $T > /var/tmp/seed_$P.log 2>&1; rc=$?
git -C /repo checkout -- .
echo "exit=$rc"; grep -E "^VIOLATION|^KNOWN|quick:|thorough:" /var/tmp/seed_$P.log | cut -c1-220 | head -${4:-8}
grep -E "^  ->" /var/tmp/seed_$P.log | cut -c1-260 | head -3
