#!/venv/bin/python
"""Differential test of coq/theories/Model/BootParse.v against the real pycdlib: what open_fp() reconstructs of
El Torito from a written image, and how the reopened object behaves under further edits.

Per case: an edit history (the generators of account_boot_traces.py plus directed ones: boot files of
1/64/2047/2048/2049/70000 bytes, load size smaller / default / larger than the file, with / without boot info
table, named / hidden, last file of the image / followed by another file, several sections, one file in two
entries, several hidden boot files) is run on PyCdlib.new(interchange_level=3); the image is written and opened
with a NEW object; the tool reads off

    (pvd.space_size, len(iso.inodes), catalog extent of the boot record (-1: none),
     per entry (load_rba, sector_count, inode.extent_location(), inode length, index of the inode in iso.inodes,
                1/0 boot info table),
     the full path of every catalog.dirrecords record ([] for a record that is in no directory),
     the end of the last extent after a forced _reshuffle_extents() (-1: it raises))

then applies 0-3 further operations (rm_eltorito / a further section / rm_hard_link of a boot file name / add_fp /
rm_file / add_hard_link) to BOTH the never-closed original and the reopened object (observations as in
account_boot_traces.observe), writes both and compares the two images (1 equal, 0 differ, -1 a write failed or
the reopened object is unusable).  BootParse.bad_bootparse_cases evaluates the model on the same.

API (deterministic from the seed):  cases(seed, n) -> list of case dicts;  render(case) -> Coq term of type
BootParse.bpcase.  Command line:

    /venv/bin/python /verif/tools/boot_parse_cases.py OUTDIR SEED N [SHARD]

writes OUTDIR/bp_<seed>_<k>.v, SHARD (default 50) cases each, ending in
`Eval vm_compute in bad_bootparse_cases 0 cases.` (must print `= []`).  The library is imported from
$VERIF_REPO (default /repo).
"""
import collections
import io
import os
import random
import sys
import time

sys.path.insert(0, os.path.dirname(os.path.abspath(__file__)))
import account_boot_traces as abt  # noqa: E402  (imports pycdlib from $VERIF_REPO)

pycdlib = abt.pycdlib
BLOCK = 2048
_FIXED = 1700000000.0
time.time = lambda: _FIXED          # byte-deterministic images (dates of volume descriptors and records)

el = abt.el
cdiv = abt.cdiv


def layout_end(iso):
    """End of the last extent (as account_boot_traces.observe computes it)."""
    q = collections.deque([iso.pvd.root_directory_record()])
    end = 16 + len(iso.pvds) + len(iso.brs) + len(iso.svds) + len(iso.vdsts) + 1 + 2 * iso.pvd.path_table_num_extents
    while q:
        d = q.popleft()
        end = max(end, d.extent_location() + cdiv(d.data_length, BLOCK))
        for c in d.children[2:]:
            if c.is_dir():
                q.append(c)
    for ino in iso.inodes:
        if ino.get_data_length() > 0:
            end = max(end, ino.extent_location() + cdiv(ino.get_data_length(), BLOCK))
    if iso.eltorito_boot_catalog is not None:
        end = max(end, iso.eltorito_boot_catalog.extent_location() + 1)
    return end


def rec_path(rec):
    """Full path (tuple of identifiers) of a directory record, () when it is in no directory."""
    if rec.parent is None or not any(c is rec for c in rec.parent.children):
        return ()
    comps = [rec.file_ident]
    d = rec.parent
    while d is not None and not d.is_root:
        comps.append(d.file_ident)
        d = d.parent
    return tuple(reversed(comps))


def read_reopened(iso2):
    cat = iso2.eltorito_boot_catalog
    entries = []
    names = []
    catext = -1
    if cat is not None:
        catext = cat.extent_location()
        for e in abt.entries_of(cat):
            idx = [k for k, i in enumerate(iso2.inodes) if i is e.inode]
            entries.append((e.load_rba, e.sector_count, e.inode.extent_location(), e.inode.get_data_length(),
                            idx[0] if idx else -1, 1 if e.inode.boot_info_table is not None else 0))
        names = [rec_path(r) for r in cat.dirrecords]
    space, nino = iso2.pvd.space_size, len(iso2.inodes)
    try:
        iso2._reshuffle_extents()
        end = layout_end(iso2)
    except pycdlib.pycdlibexception.PyCdlibInternalError:
        end = -1
    return (space, nino, catext, entries, names, end)


def replay(ops):
    run = abt.Runner()
    for op in ops:
        run.do(op)
    return run


def post_ops(run, rng, nmax):
    """Further operations, chosen from what exists in the original object."""
    out = []
    iso = run.iso
    for _ in range(nmax):
        files = run.names()
        cat = iso.eltorito_boot_catalog
        boot_names = []
        if cat is not None:
            for e in abt.entries_of(cat):
                for rec, is_pvd in e.inode.linked_records:
                    if is_pvd and hasattr(rec, 'file_ident') and rec_path(rec):
                        p = rec_path(rec)
                        boot_names.append((p[:-1], p[-1]))
        r = rng.random()
        if r < 0.22:
            out.append(('RmEltorito',))
        elif r < 0.45 and files:
            d, nm = rng.choice(files)
            out.append(el(d + (nm,), bit=rng.random() < 0.4, efi=rng.random() < 0.3,
                          ls=rng.choice([None, None, 1, 4, 8])))
        elif r < 0.62 and boot_names:
            d, nm = rng.choice(boot_names)
            out.append(('RmLink', d, nm))
        elif r < 0.80:
            out.append(('AddFile', (), rng.choice([b'NEW.;1', b'AA.;1', b'ZZZ.;1', b'A.;1']), rng.choice([0, 1, 2048, 5000])))
        elif r < 0.88 and files:
            d, nm = rng.choice(files)
            out.append(('RmFile', d, nm))
        elif r < 0.94 and files:
            d, nm = rng.choice(files)
            out.append(('AddLink', d + (nm,), (), rng.choice([b'LNK.;1', b'LNK2.;1'])))
        elif files:
            d, nm = rng.choice(files)
            out.append(('RmLink', d, nm))
        else:
            out.append(('AddCatLink', (), b'CATX.;1'))
        yield out[-1]


def build_case(label, ops, rng, npost):
    run = replay(ops)
    if run.wrecked is not None:                     # the model does not follow a wrecked object
        ops = ops[:len(run.ops) - 1]
        run = replay(ops)
    ops = list(run.ops)
    problems = list(run.problems)
    out = io.BytesIO()
    run.iso.write_fp(out)
    img = out.getvalue()
    iso2 = pycdlib.PyCdlib()
    iso2.open_fp(io.BytesIO(img))
    ro = read_reopened(iso2)
    post = []
    same = -1
    if ro[5] >= 0:
        run2 = abt.Runner()
        run2.iso = iso2
        run2.nfiles = run.nfiles
        n0 = len(run.obs)
        for op in post_ops(run, rng, npost):
            run.do(op)
            nf = run.nfiles
            run2.nfiles = nf - (1 if op[0] == 'AddFile' else 0)
            run2.do(op)
            post.append((op, run.obs[-1], run2.obs[-1]))
            if run.wrecked is not None or run2.wrecked is not None:
                break
        if run.wrecked is None and run2.wrecked is None:
            try:
                a, b = io.BytesIO(), io.BytesIO()
                run.iso.write_fp(a)
                iso2.write_fp(b)
                same = 1 if a.getvalue() == b.getvalue() else 0
            except Exception as e:     # pylint: disable=broad-except
                problems.append('final write: %s: %s' % (type(e).__name__, e))
        problems += run2.problems
    return {'label': label, 'ops': ops, 'ro': ro, 'post': post, 'same': same, 'problems': problems}


# ---- directed histories ------------------------------------------------------------------------------------
SIZES = [1, 64, 2047, 2048, 2049, 70000]


def directed_ops(k, rng):
    """k in [0, 144): one boot file; size x load size x boot info table x hidden x followed."""
    size = SIZES[k % 6]
    mode = (k // 6) % 3
    bit = (k // 18) % 2 == 1
    hidden = (k // 36) % 2 == 1
    followed = (k // 72) % 2 == 1
    default = cdiv(size, BLOCK) * 4
    ls = [size // 512, None, default + 4][mode]
    ops = [('AddFile', (), b'BOOT.;1', size)]
    if followed:
        ops.append(('AddFile', (), b'ZDATA.;1', rng.choice([1, 3000])))
    ops.append(el((b'BOOT.;1',), ls=ls, bit=bit))
    if hidden:
        ops.append(('RmLink', (), b'BOOT.;1'))
    return ops, 'boot file %d bytes, load size %s, table %s, %s, %s' % (
        size, ls, bit, 'hidden' if hidden else 'named', 'followed' if followed else 'last')


def special_ops(k, rng):
    A, B, BOOT, CAT = b'A.;1', b'B.;1', b'BOOT.;1', b'BOOT.CAT;1'
    sel = k % 8
    if sel == 0:      # two hidden boot files, the first loads more than it holds
        return [('AddFile', (), A, 1), ('AddFile', (), B, 3000), ('AddFile', (), b'C.;1', 100),
                el((A,), ls=8), el((B,)), ('RmLink', (), A), ('RmLink', (), B)], 'two hidden boot files, first overloaded'
    if sel == 1:      # the same file as boot file of two entries, hidden, different load sizes
        sz = rng.choice(SIZES)
        return [('AddFile', (), BOOT, sz), ('AddFile', (), A, 10), el((BOOT,), ls=rng.choice([1, 4, None]), bit=rng.random() < 0.5),
                el((BOOT,), ls=rng.choice([2, 8, 40]), efi=True), ('RmLink', (), BOOT)], 'one hidden file, two entries'
    if sel == 2:      # several sections, named and hidden mixed
        ops = [('AddDir', (), b'D')]
        for j in range(4):
            ops.append(('AddFile', (b'D',) if j % 2 else (), b'F%d.;1' % j, rng.choice(SIZES)))
        for j in range(4):
            ops.append(el(((b'D',) if j % 2 else ()) + (b'F%d.;1' % j,), ls=rng.choice([None, 1, 4, 8, 200]),
                          bit=rng.random() < 0.5, efi=(j == 2)))
        for j in rng.sample(range(4), rng.randrange(1, 4)):
            ops.append(('RmLink', (b'D',) if j % 2 else (), b'F%d.;1' % j))
        return ops, 'four sections, some hidden'
    if sel == 3:      # hidden catalog (no name left) and a hidden boot file
        return [('AddFile', (), BOOT, rng.choice(SIZES)), el((BOOT,), bit=rng.random() < 0.5),
                ('RmLink', (), CAT), ('RmLink', (), BOOT)], 'catalog without name, hidden boot file'
    if sel == 4:      # several names of the catalog, in different directories
        return [('AddDir', (), b'D'), ('AddFile', (), BOOT, 2049), el((BOOT,), cd=(b'D',), cn=b'CAT.;1'),
                ('AddCatLink', (), b'ZCAT.;1'), ('AddCatLink', (), b'ACAT.;1'), ('AddLink', (b'D', b'CAT.;1'), (b'D',), b'CAT2.;1')], 'catalog names'
    if sel == 5:      # empty files with hard links next to a boot file
        return [('AddFile', (), b'E.;1', 0), ('AddLink', (b'E.;1',), (), b'E2.;1'), ('AddFile', (), BOOT, 100),
                ('AddLink', (BOOT,), (), b'BOOT2.;1'), el((BOOT,), bit=True), ('RmLink', (), b'E.;1')], 'empty files with links'
    if sel == 6:      # load size 0 on a hidden boot file; a hidden boot file between named ones
        return [('AddFile', (), A, 5000), ('AddFile', (), BOOT, 3000), ('AddFile', (), b'ZZ.;1', 10), el((A,)),
                el((BOOT,), ls=rng.choice([0, 1, 65535])), ('RmLink', (), BOOT)], 'hidden boot file with odd load size'
    # three hidden boot files in a row, load sizes larger than the files
    return [('AddFile', (), A, 100), ('AddFile', (), B, 2049), ('AddFile', (), b'C.;1', 1), ('AddFile', (), b'KEEP.;1', 7),
            el((A,), ls=rng.choice([8, 12]), bit=rng.random() < 0.5), el((B,), ls=16), el((b'C.;1',), ls=rng.choice([4, 8])),
            ('RmLink', (), A), ('RmLink', (), B), ('RmLink', (), b'C.;1')], 'three hidden boot files'


def cases(seed, n):
    out = []
    for k in range(n):
        rng = random.Random(seed * 1000003 + k)
        sel = k % 3
        if sel == 0:
            ops, label = directed_ops((k // 3 + seed * 37) % 144, rng)
        elif sel == 1 and (k // 3) % 2 == 0:
            ops, label = special_ops(k // 6 + seed, rng)
        else:
            run = abt.Runner()
            flavour = rng.choice([0, 1, 1, 2, 3, 1])
            nops = rng.choice([10, 15, 25, 40])
            abt.random_history(run, rng, nops, flavour)
            ops, label = list(run.ops), 'random flavour %d, %d ops' % (flavour, nops)
        out.append(build_case('seed %d #%d: %s' % (seed, k, label), ops, rng, rng.randrange(0, 4)))
    return out


# ---- rendering ----------------------------------------------------------------------------------------------
def coq_ro(ro):
    space, nino, catext, entries, names, end = ro
    return '((%d), (%d), (%d), [%s], [%s], (%d))' % (
        space, nino, catext, '; '.join('((%d), (%d), (%d), (%d), (%d), (%d))' % e for e in entries),
        '; '.join(abt.coq_path(p) for p in names), end)


def render(case):
    return '(%s,\n  %s,\n  [%s],\n  (%d))' % (
        '[' + ';\n   '.join(abt.coq_op(o) for o in case['ops']) + ']', coq_ro(case['ro']),
        ';\n   '.join('(%s,\n    %s,\n    %s)' % (abt.coq_op(o), abt.coq_obs(a), abt.coq_obs(b)) for o, a, b in case['post']),
        case['same'])


def write_shard(path, cs):
    with open(path, 'w') as f:
        f.write('(* GENERATED by /verif/tools/boot_parse_cases.py: what the real pycdlib reconstructs of El Torito when it\n'
                '   opens the image of %d edit histories; Model/BootParse.v must reproduce all of it. *)\n' % len(cs))
        f.write('From Coq Require Import ZArith List Bool.\nFrom PV.Model Require Import AccountBoot BootParse.\n')
        f.write('Import ListNotations.\nLocal Open Scope Z_scope.\n\n')
        f.write('Definition cases : list bpcase :=\n[')
        f.write(';\n'.join('(* %s *)\n %s' % (c['label'], render(c)) for c in cs))
        f.write('].\n\nEval vm_compute in bad_bootparse_cases 0 cases.\n')


def main():
    outdir, seed, n = sys.argv[1], int(sys.argv[2]), int(sys.argv[3])
    shard = int(sys.argv[4]) if len(sys.argv) > 4 else 50
    os.makedirs(outdir, exist_ok=True)
    cs = cases(seed, n)
    for k in range(0, len(cs), shard):
        write_shard(os.path.join(outdir, 'bp_%d_%d.v' % (seed, k // shard)), cs[k:k + shard])
    same = collections.Counter(c['same'] for c in cs)
    print('%d cases, %d history operations, %d further operations; images equal/differ/unusable: %d/%d/%d; '
          'reopened layout does not fit: %d; catalog records in no directory: %d'
          % (len(cs), sum(len(c['ops']) for c in cs), sum(len(c['post']) for c in cs), same[1], same[0], same[-1],
             sum(1 for c in cs if c['ro'][5] < 0),
             sum(1 for c in cs for p in c['ro'][4] if p == ())))
    for c in cs:
        if c['ro'][5] < 0:
            print('   reopened object unusable:', c['label'])
        for p in c['problems'][:3]:
            print('   problem:', c['label'], '--', p)


if __name__ == '__main__':
    main()
