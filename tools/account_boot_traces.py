#!/venv/bin/python
"""Differential test of coq/theories/Model/AccountBoot.v against the real pycdlib (El Torito edit histories
on plain ISO9660 level-3 images).

Histories of add_fp / add_directory / add_hard_link (iso_old_path and boot_catalog_old) / rm_hard_link /
rm_file / rm_directory / add_eltorito (first call and further sections, with and without boot_info_table,
default and explicit load sizes, refused calls) / rm_eltorito are run on `PyCdlib.new(interchange_level=3)`;
after EVERY operation the tool records

    outcome (1 accepted, 0 refused with nothing changed, 2 refused but the object changed),
    [pvd.space_size, pvd.path_tbl_size, pvd.path_table_num_extents, sum of directory data_lengths,
     len(iso.inodes), number of volume descriptors, number of catalog sections (-1: no catalog),
     number of inodes with a boot info table, len(catalog.dirrecords)],
    and after a forced _reshuffle_extents(): the end of the last extent, the catalog extent the boot record
    points at, load_rba of every catalog entry, (extent, blocks) of every non-empty inode of iso.inodes

and AccountBoot.bad_accountboot_cases evaluates the model on the same operations.  When _reshuffle_extents
raises after a refused operation (the library object is wrecked) the history ends there with the observation
(2, [], -1, -1, [], []).  Tool-side checks on the library alone (reported on stdout, and as outcome 8 so that
the Coq check fails too): every entry's load_rba is the extent of entry.inode, every catalog record has the
catalog's extent, the boot record sits at extent 17; at the end of every history the image is written,
reopened, and the catalog is followed to the boot files (load_rba = extent of the data, data = the file).

API (deterministic from the seed):  cases(seed, n) -> list of case dicts;  render(case) -> Coq term of type
AccountBoot.bcase.   Command line:

    /venv/bin/python /verif/tools/account_boot_traces.py OUTDIR SEED N [SHARD]

writes OUTDIR/ab_<seed>_<k>.v, SHARD (default 50) histories each, every file ending in
`Eval vm_compute in bad_accountboot_cases 0 cases.`  (must print `= []`); check with
    cd /verif/coq && coqc -q -Q theories PV -w -notation-overridden OUTDIR/ab_<seed>_<k>.v
The library is imported from $VERIF_REPO (default /repo).
"""
import collections
import io
import os
import random
import sys

sys.path.insert(0, os.environ.get('VERIF_REPO', '/repo'))   # the tree under test
import pycdlib  # noqa: E402
from pycdlib import pycdlibexception  # noqa: E402

BLOCK = 2048
MEDIA = {0: 'noemul', 1: 'floppy', 3: 'bogus'}


def cdiv(a, b):
    return -(-a // b)


def content(tag, ln):
    """Deterministic file content; distinct per tag so that a wrong extent is noticed."""
    pat = ('<%s>' % tag).encode() * 8 + bytes(range(256))
    return (pat * (ln // len(pat) + 1))[:ln]


def ipath(comps):
    return '/' + '/'.join(x.decode('latin-1') for x in comps)


def entries_of(cat):
    return [cat.initial_entry] + [e for s in cat.sections for e in s.section_entries]


def fingerprint(iso):
    cat = iso.eltorito_boot_catalog
    return (iso.pvd.space_size, len(iso.inodes), len(iso.brs), cat is not None,
            sum(1 for i in iso.inodes if i.boot_info_table is not None),
            len(cat.sections) if cat is not None and cat._initialized else -1,
            len(cat.dirrecords) if cat is not None else 0)


def observe(iso, code, problems):
    q = collections.deque([iso.pvd.root_directory_record()])
    tot = 0
    dirs = []
    while q:
        d = q.popleft()
        tot += d.data_length
        dirs.append(d)
        for c in d.children[2:]:
            if c.is_dir():
                q.append(c)
    try:
        iso._reshuffle_extents()  # what write_fp() / force_consistency() do first
    except Exception as e:        # the object is wrecked
        return (2 if code == 2 else 9, [], -1, -1, [], []), '%s: %s' % (type(e).__name__, e)
    cat = iso.eltorito_boot_catalog
    end = 16 + len(iso.pvds) + len(iso.brs) + len(iso.svds) + len(iso.vdsts) + 1 + 2 * iso.pvd.path_table_num_extents
    for d in dirs:
        end = max(end, d.extent_location() + cdiv(d.data_length, BLOCK))
    placements = []
    for ino in iso.inodes:
        if ino.get_data_length() > 0:
            end = max(end, ino.extent_location() + cdiv(ino.get_data_length(), BLOCK))
            placements.append((ino.extent_location(), cdiv(ino.get_data_length(), BLOCK)))
    catext = -1
    rbas = []
    nsec = -1
    ndr = 0
    if cat is not None:
        catext = cat.extent_location()
        end = max(end, catext + 1)
        nsec = len(cat.sections)
        ndr = len(cat.dirrecords)
        for e in entries_of(cat):
            rbas.append(e.load_rba)
            if e.load_rba != e.inode.extent_location() or not any(id(i) == id(e.inode) for i in iso.inodes):
                problems.append('entry load_rba %d but its inode is at %d' % (e.load_rba, e.inode.extent_location()))
                code = 8
        for r in cat.dirrecords:
            if r.extent_location() != catext:
                problems.append('catalog record at %s, boot record says %d' % (r.extent_location(), catext))
                code = 8
        if [b.extent_location() for b in iso.brs] != [17]:
            problems.append('boot records at %s' % [b.extent_location() for b in iso.brs])
            code = 8
    counters = [iso.pvd.space_size, iso.pvd.path_tbl_size, iso.pvd.path_table_num_extents, tot, len(iso.inodes),
                len(iso.pvds) + len(iso.brs) + len(iso.svds) + len(iso.vdsts), nsec,
                sum(1 for i in iso.inodes if i.boot_info_table is not None), ndr]
    return (code, counters, end, catext, rbas, placements), None


class Runner:
    """Runs operations on pycdlib.  Operations (dir/path = tuple of bytes, name = bytes):
       ('AddFile', dir, name, len) | ('AddDir', dir, name) | ('AddLink', src, dir, name) | ('AddCatLink', dir, name)
       | ('RmLink', dir, name) | ('RmFile', dir, name) | ('RmDir', path)
       | ('AddEltorito', bootpath, catdir, catname, load_size|None, platform, bit, efi, media, bootable, seg)
       | ('RmEltorito',)"""

    def __init__(self):
        self.iso = pycdlib.PyCdlib()
        self.iso.new(interchange_level=3)
        self.ops, self.obs = [], []
        self.problems = []
        self.wrecked = None
        self.nfiles = 0
        self.data = {}              # id(inode) -> bytes
        self.keep = []              # the inodes themselves (so that ids are not reused)

    def do(self, op):
        if self.wrecked is not None:
            return False
        kind = op[0]
        iso = self.iso
        if kind == 'AddFile':
            _, d, nm, ln = op
            self.nfiles += 1
            data = content('%d' % self.nfiles, ln)

            def call():
                n = len(iso.inodes)
                iso.add_fp(io.BytesIO(data), ln, ipath(d + (nm,)))
                if len(iso.inodes) == n + 1:
                    self.data[id(iso.inodes[-1])] = data
                    self.keep.append(iso.inodes[-1])
        elif kind == 'AddDir':
            _, d, nm = op

            def call():
                iso.add_directory(ipath(d + (nm,)))
        elif kind == 'AddLink':
            _, src, d, nm = op

            def call():
                iso.add_hard_link(iso_old_path=ipath(src), iso_new_path=ipath(d + (nm,)))
        elif kind == 'AddCatLink':
            _, d, nm = op

            def call():
                iso.add_hard_link(boot_catalog_old=True, iso_new_path=ipath(d + (nm,)))
        elif kind == 'RmLink':
            _, d, nm = op

            def call():
                iso.rm_hard_link(iso_path=ipath(d + (nm,)))
        elif kind == 'RmFile':
            _, d, nm = op

            def call():
                iso.rm_file(ipath(d + (nm,)))
        elif kind == 'RmDir':
            _, p = op

            def call():
                iso.rm_directory(ipath(p))
        elif kind == 'AddEltorito':
            _, bp, cd, cn, ls, pf, bit, efi, media, bootable, seg = op

            def call():
                iso.add_eltorito(ipath(bp), bootcatfile=ipath(cd + (cn,)), boot_load_size=ls, platform_id=pf,
                                 boot_info_table=bit, efi=efi, media_name=MEDIA[media], bootable=bootable,
                                 boot_load_seg=seg)
        else:
            def call():
                iso.rm_eltorito()
        before = fingerprint(iso)
        try:
            call()
            code = 1
        except (pycdlibexception.PyCdlibInvalidInput, pycdlibexception.PyCdlibInternalError):
            code = 0 if fingerprint(iso) == before else 2
        o, wreck = observe(iso, code, self.problems)
        self.ops.append(op)
        self.obs.append(o)
        if wreck is not None:
            self.wrecked = wreck
        return code == 1

    # ---- what exists (for the generators) ----
    def names(self):
        out = []
        q = collections.deque([((), self.iso.pvd.root_directory_record())])
        while q:
            p, d = q.popleft()
            for c in d.children[2:]:
                if c.is_dir():
                    q.append((p + (c.file_ident,), c))
                else:
                    out.append((p, c.file_ident))
        return out

    def finish(self):
        """Write the image, reopen it, follow the catalog to the boot files."""
        if self.wrecked is not None:
            return
        iso = self.iso
        try:
            out = io.BytesIO()
            iso.write_fp(out)
        except Exception as e:
            self.problems.append('write_fp: %s: %s' % (type(e).__name__, e))
            return
        img = out.getvalue()
        if len(img) != iso.pvd.space_size * BLOCK:
            self.problems.append('image has %d bytes, space_size %d' % (len(img), iso.pvd.space_size))
        cat = iso.eltorito_boot_catalog
        try:
            iso2 = pycdlib.PyCdlib()
            iso2.open_fp(io.BytesIO(img))
        except Exception as e:
            self.problems.append('reopen: %s: %s' % (type(e).__name__, e))
            return
        if (cat is None) != (iso2.eltorito_boot_catalog is None):
            self.problems.append('catalog presence differs after reopen')
        if cat is not None and iso2.eltorito_boot_catalog is not None:
            es, es2 = entries_of(cat), entries_of(iso2.eltorito_boot_catalog)
            if len(es) != len(es2):
                self.problems.append('entries: %d written, %d read' % (len(es), len(es2)))
            for e, e2 in zip(es, es2):
                if e2.load_rba != e.inode.extent_location() or e2.sector_count != e.sector_count:
                    self.problems.append('entry read back (%d, %d), expected (%d, %d)'
                                         % (e2.load_rba, e2.sector_count, e.inode.extent_location(), e.sector_count))
                data = self.data.get(id(e.inode)) or None
                if data is not None and e.inode.boot_info_table is None:
                    got = img[e2.load_rba * BLOCK:e2.load_rba * BLOCK + len(data)]
                    if got != data:
                        self.problems.append('boot file data at load_rba %d differs' % e2.load_rba)
                if data is not None and e.inode.boot_info_table is not None and len(data) >= 64:
                    got = img[e2.load_rba * BLOCK:e2.load_rba * BLOCK + len(data)]
                    exp_tbl = (16).to_bytes(4, 'little') + e2.load_rba.to_bytes(4, 'little') + len(data).to_bytes(4, 'little')
                    if got[:8] != data[:8] or got[64:] != data[64:] or got[8:20] != exp_tbl:
                        self.problems.append('boot info table / data at load_rba %d wrong' % e2.load_rba)
        # every named file reads back as its content (except the 56 patched bytes of a boot info table)
        for d, nm in self.names():
            rec = iso.get_record(iso_path=ipath(d + (nm,)))
            if rec.inode is None:
                continue
            data = self.data.get(id(rec.inode))
            if not data:
                continue
            ext = rec.inode.extent_location()
            got = img[ext * BLOCK:ext * BLOCK + len(data)]
            if rec.inode.boot_info_table is None and got != data:
                self.problems.append('file %s differs in the image' % ipath(d + (nm,)))
        iso2.close()

    def case(self, label):
        self.finish()
        return {'label': label, 'ops': list(self.ops), 'obs': list(self.obs), 'problems': list(self.problems),
                'wrecked': self.wrecked}


# ---- rendering ----------------------------------------------------------------------------------------
def coq_bytes(b):
    return '[' + '; '.join(str(x) for x in b) + ']'


def coq_path(comps):
    return '[' + '; '.join(coq_bytes(c) for c in comps) + ']'


def coq_bool(b):
    return 'true' if b else 'false'


def coq_op(op):
    kind = op[0]
    if kind == 'AddFile':
        return 'BAddFile %s %s (%d)' % (coq_path(op[1]), coq_bytes(op[2]), op[3])
    if kind == 'AddDir':
        return 'BAddDir %s %s' % (coq_path(op[1]), coq_bytes(op[2]))
    if kind == 'AddLink':
        return 'BAddLink %s %s %s' % (coq_path(op[1]), coq_path(op[2]), coq_bytes(op[3]))
    if kind == 'AddCatLink':
        return 'BAddCatLink %s %s' % (coq_path(op[1]), coq_bytes(op[2]))
    if kind == 'RmLink':
        return 'BRmLink %s %s' % (coq_path(op[1]), coq_bytes(op[2]))
    if kind == 'RmFile':
        return 'BRmFile %s %s' % (coq_path(op[1]), coq_bytes(op[2]))
    if kind == 'RmDir':
        return 'BRmDir %s' % coq_path(op[1])
    if kind == 'AddEltorito':
        _, bp, cd, cn, ls, pf, bit, efi, media, bootable, seg = op
        return 'BAddEltorito %s %s %s %s (%d) %s %s (%d) %s (%d)' % (
            coq_path(bp), coq_path(cd), coq_bytes(cn), 'None' if ls is None else '(Some (%d))' % ls, pf,
            coq_bool(bit), coq_bool(efi), media, coq_bool(bootable), seg)
    return 'BRmEltorito'


def coq_zs(l):
    return '[' + '; '.join('(%d)' % x for x in l) + ']'


def coq_obs(o):
    code, counters, end, catext, rbas, placements = o
    return '(%d, %s, (%d), (%d), %s, [%s])' % (code, coq_zs(counters), end, catext, coq_zs(rbas),
                                               '; '.join('(%d, %d)' % p for p in placements))


def render(case):
    return '[%s]' % ';\n   '.join('(%s,\n    %s)' % (coq_op(o), coq_obs(b)) for o, b in zip(case['ops'], case['obs']))


# ---- generators ------------------------------------------------------------------------------------------
FILES = [b'A.;1', b'B.;1', b'BOOT.;1', b'EFI.IMG;1', b'C.;1', b'ZZ.;1', b'AAAAAAAA.;1', b'AAAAAAA.;1']
CATS = [b'BOOT.CAT;1', b'BOOT.CAT;1', b'CAT.;1', b'A.;1']
DIRS = [b'D', b'E', b'BOOT']
LENS = [0, 1, 2047, 2048, 2049, 70000, 100, 5000]


def el(bp, cd=(), cn=b'BOOT.CAT;1', ls=None, pf=0, bit=False, efi=False, media=0, bootable=True, seg=0):
    return ('AddEltorito', bp, cd, cn, ls, pf, bit, efi, media, bootable, seg)


def random_eltorito(run, rng, files, dirs):
    r = rng.random()
    if files and r < 0.85:
        d, nm = rng.choice(files)
        bp = d + (nm,)
    elif r < 0.93:
        bp = rng.choice(dirs)                       # a directory (or the root)
    else:
        bp = rng.choice(dirs) + (b'MISSING.;1',)
    cd = rng.choice(dirs) if rng.random() < 0.9 else rng.choice(dirs) + (b'NOPE',)
    cn = rng.choice(CATS)
    if rng.random() < 0.05:
        cn = b'bad name'
    ls = None
    r = rng.random()
    if r < 0.25:
        ls = rng.choice([0, 1, 4, 4, 8, 65535, 65536, 70000, -1, 2880])
    pf = rng.choice([0, 0, 0, 0, 1, 2, 0xef, 3]) if rng.random() < 0.5 else 0
    media = 0
    r = rng.random()
    if r < 0.08:
        media, ls = 1, rng.choice([2400, 2880, 5760, 2881, None])
    elif r < 0.11:
        media = 3
    seg = rng.choice([0, 0, 0, 0x7c0, 65535, 65536, -1]) if rng.random() < 0.3 else 0
    return el(bp, cd, cn, ls, pf, rng.random() < 0.4, rng.random() < 0.3, media, rng.random() < 0.85, seg)


def random_history(run, rng, nops, flavour):
    """flavour 0: balanced; 1: El Torito heavy (many sections, hide/unhide); 2: removals heavy;
       3: long names (directories grow and shrink around the catalog record)."""
    dirs = [()]
    for _ in range(nops):
        if run.wrecked is not None:
            return
        files = run.names()
        r = rng.random()
        w = {0: [0.20, 0.27, 0.37, 0.42, 0.55, 0.63, 0.67, 0.90],
             1: [0.12, 0.16, 0.24, 0.30, 0.45, 0.50, 0.52, 0.92],
             2: [0.18, 0.24, 0.32, 0.36, 0.58, 0.72, 0.78, 0.90],
             3: [0.25, 0.30, 0.45, 0.52, 0.66, 0.72, 0.75, 0.90]}[flavour]
        bogus = rng.random() < 0.08

        def fname():
            if flavour == 3 and rng.random() < 0.6:
                n = rng.choice([120, 200, 207, 208, 219])
                return bytes(rng.choice(b'ABCDEFGHIJKLMNOPQRSTUVWXYZ') for _ in range(n)) + b';1'
            return rng.choice(FILES)
        if r < w[0]:
            d = rng.choice(dirs) if not bogus else rng.choice(dirs) + (b'NOPE',)
            run.do(('AddFile', d, fname(), rng.choice(LENS)))
        elif r < w[1]:
            d = rng.choice(dirs) if not bogus else rng.choice(dirs) + (b'NOPE',)
            nm = rng.choice(DIRS)
            if run.do(('AddDir', d, nm)):
                dirs.append(d + (nm,))
        elif r < w[2]:
            if files and rng.random() < 0.9:
                sd, sn = rng.choice(files)
                src = sd + (sn,)
            else:
                src = rng.choice(dirs) + ((b'MISSING.;1',) if rng.random() < 0.5 else ())
            d = rng.choice(dirs) if not bogus else rng.choice(dirs) + (b'NOPE',)
            run.do(('AddLink', src, d, fname()))
        elif r < w[3]:
            d = rng.choice(dirs) if not bogus else rng.choice(dirs) + (b'NOPE',)
            run.do(('AddCatLink', d, rng.choice([b'CAT2.;1', b'CAT3.;1', b'BOOT.CAT;1', b'A.;1']) if flavour != 3 else fname()))
        elif r < w[4]:
            if files and not bogus:
                d, nm = rng.choice(files)
            elif len(dirs) > 1 and rng.random() < 0.5:
                dd = rng.choice(dirs[1:])
                d, nm = dd[:-1], dd[-1]
            else:
                d, nm = rng.choice(dirs), b'MISSING.;1'
            run.do(('RmLink', d, nm))
        elif r < w[5]:
            if files and not bogus:
                d, nm = rng.choice(files)
            else:
                d, nm = rng.choice(dirs), b'MISSING.;1'
            run.do(('RmFile', d, nm))
        elif r < w[6]:
            if len(dirs) > 1 and not bogus:
                p = rng.choice(dirs[1:])
            else:
                p = rng.choice(dirs) + (b'MISSING',)
            if run.do(('RmDir', p)):
                dirs.remove(p)
        elif r < w[7]:
            op = random_eltorito(run, rng, files, dirs)
            if run.iso.eltorito_boot_catalog is None and rng.random() < 0.8:
                # do not wreck most histories at the first add: an existing directory, a fresh catalog name,
                # numbers that EltoritoEntry.new accepts
                _, bp, cd, cn, ls, pf, bit, efi, media, bootable, seg = op
                taken = [n for d, n in files if d == ()]
                cn = [c for c in (b'BOOT.CAT;1', b'CAT.;1', b'CAT9.;1') if c not in taken][0]
                op = el(bp, (), cn, None, 0, bit, efi, 0, bootable, 0)
            run.do(op)
        else:
            run.do(('RmEltorito',))


def directed(run, rng, which):
    """The histories the task statement asks for."""
    A, B, BOOT, EFI, CAT = b'A.;1', b'B.;1', b'BOOT.;1', b'EFI.IMG;1', b'BOOT.CAT;1'
    if which == 0:      # boot files of every interesting length, with / without boot info table
        for k, ln in enumerate([0, 1, 2047, 2048, 2049, 70000]):
            run.do(('AddFile', (), b'F%d.;1' % k, ln))
        run.do(el((b'F%d.;1' % rng.randrange(6),), bit=rng.random() < 0.5))
        for k in range(6):
            run.do(el((b'F%d.;1' % k,), bit=(k % 2 == 0), efi=(k % 3 == 0)))
        run.do(('RmEltorito',))
        return 'boot files of 0/1/2047/2048/2049/70000 bytes'
    if which == 1:      # sections up to the limit, then one too many (refused, late with a boot info table)
        run.do(('AddFile', (), BOOT, 3000))
        run.do(('AddFile', (), A, 100))
        run.do(('AddFile', (), B, 2048))
        run.do(el((BOOT,)))
        for k in range(31):
            run.do(el((rng.choice([A, B, BOOT]),), efi=(k % 2 == 0), bootable=(k % 5 != 0)))
        run.do(el((A,)))                               # 'Too many El Torito sections'
        run.do(el((B,), bit=True))                     # refused, but B keeps a boot info table
        run.do(('RmFile', (), B))                      # B is not a boot file: accepted
        run.do(('RmEltorito',))
        return '31 sections and one too many'
    if which == 2:      # the same file as boot file of two entries; hide it; more edits; rm_eltorito
        run.do(('AddDir', (), b'D'))
        run.do(('AddFile', (b'D',), BOOT, 2049))
        run.do(('AddFile', (), A, 5000))
        run.do(el((b'D', BOOT), bit=True))
        run.do(el((b'D', BOOT), efi=True))
        run.do(('AddLink', (b'D', BOOT), (), b'BOOT2.;1'))
        run.do(('RmFile', (b'D',), BOOT))              # refused
        run.do(('RmFile', (), CAT))                    # refused
        run.do(('RmLink', (b'D',), BOOT))
        run.do(('RmLink', (), b'BOOT2.;1'))            # last name: hidden boot file
        run.do(('AddFile', (), B, 1))
        run.do(('RmDir', (b'D',)))
        run.do(('RmFile', (), A))
        run.do(('AddFile', (), b'AAAAAAAA.;1', 2048))  # same name as the dummy sort key
        run.do(el((b'AAAAAAAA.;1',)))
        run.do(('RmEltorito',))                        # releases the hidden boot file
        run.do(el((B,)))                               # and again
        run.do(('RmEltorito',))
        return 'one file, two entries, hidden, rm_eltorito, add again'
    if which == 3:      # refused first calls that do not wreck, then the wrecking ones
        run.do(('AddDir', (), b'D'))
        run.do(('AddFile', (), BOOT, 2048))
        run.do(el((b'MISSING.;1',)))
        run.do(el((b'D',)))
        run.do(el(()))
        run.do(('RmEltorito',))                        # nothing to remove
        run.do(('AddCatLink', (), b'L.;1'))            # no catalog
        kind = rng.randrange(5)
        if kind == 0:
            run.do(('AddFile', (), CAT, 10))
            run.do(el((BOOT,), bit=True))              # duplicate catalog name: wrecked
        elif kind == 1:
            run.do(el((BOOT,), ls=70000))              # sector count: wrecked
        elif kind == 2:
            run.do(el((BOOT,), media=3))               # unknown media name: wrecked
        elif kind == 3:
            run.do(el((BOOT,), cd=(b'NOPE',)))         # no such directory for the catalog: wrecked
        else:
            run.do(el((BOOT,), pf=7))                  # invalid platform id: wrecked
        run.do(el((BOOT,)))
        return 'refusals of the first add_eltorito (kind %d)' % kind
    if which == 4:      # catalog names: hide the catalog, link it again, links made from its name
        run.do(('AddFile', (), BOOT, 4096))
        run.do(el((BOOT,), cn=b'CAT.;1'))
        run.do(('AddCatLink', (), b'CAT2.;1'))
        run.do(('AddLink', (b'CAT.;1',), (), b'ORPHAN.;1'))   # a record without inode, not a catalog name
        run.do(('RmFile', (), b'CAT2.;1'))             # refused
        run.do(('RmLink', (), b'CAT2.;1'))
        run.do(('RmLink', (), b'CAT.;1'))              # the last name: hidden catalog
        run.do(el((BOOT,), efi=True))
        run.do(('AddCatLink', (), b'CAT3.;1'))
        run.do(el((b'ORPHAN.;1',)))                    # refused: no inode
        run.do(el((b'CAT3.;1',)))                      # refused: no inode
        run.do(('AddLink', (b'ORPHAN.;1',), (), b'ORPHAN2.;1'))
        run.do(('RmEltorito',))
        run.do(('RmFile', (), b'ORPHAN.;1'))           # `inode is None` branch
        run.do(('RmLink', (), b'ORPHAN2.;1'))
        return 'catalog names'
    if which == 5:      # a root directory that is EXACTLY full (68 + 8*236 + 92 = 2048): the catalog record makes
        # it grow, rm_eltorito does not shrink it (full_root_ops / ab_add_rm_eltorito_inverse_refuted)
        for n in range(8):
            run.do(('AddFile', (), b'N' * 199 + bytes([65 + n]) + b';1', 10))
        boot58 = b'B' * 56 + b';1'
        run.do(('AddFile', (), boot58, 10))
        run.do(el((boot58,)))
        run.do(('RmEltorito',))
        run.do(el((boot58,), cn=b'M' * 150 + b';1'))
        run.do(('RmLink', (), boot58))
        run.do(('RmEltorito',))
        return 'directory growth around the catalog record'
    if which == 7:      # the history ab_ex_ops of Proofs/AccountBootProofs.v (Example ab_ex_history)
        Z, CAT2, D = b'Z.;1', b'CAT2.;1', b'D'
        for op in [('AddFile', (), A, 5000), ('AddDir', (), D), ('AddFile', (D,), BOOT, 2049),
                   el((D, BOOT), bit=True), el((A,), efi=True), el((A,), ls=70000),
                   ('AddFile', (), Z, 100), el((Z,), ls=70000, bit=True),
                   ('RmFile', (D,), BOOT), ('RmFile', (), CAT), ('RmLink', (D,), BOOT), ('RmDir', (D,)),
                   ('AddCatLink', (), CAT2), ('RmLink', (), CAT), ('RmEltorito',), ('RmFile', (), A),
                   ('AddFile', (), CAT, 10), ('AddFile', (), B, 1), el((B,))]:
            run.do(op)
        return 'example of AccountBootProofs.v'
    # which == 6: floppy media, load sizes, platform ids
    run.do(('AddFile', (), BOOT, 70000))
    run.do(('AddFile', (), A, 1))
    run.do(el((BOOT,), media=1, ls=2880, pf=rng.choice([0, 1, 2, 0xef])))
    run.do(el((A,), media=1, ls=2881))                 # refused
    run.do(el((A,), media=1, ls=None, bit=True))       # refused late
    run.do(el((A,), ls=65535, seg=65535))
    run.do(el((A,), ls=65536))
    run.do(el((A,), seg=65536))
    run.do(el((A,), ls=-1))
    run.do(('RmLink', (), A))
    run.do(('AddFile', (), A, 2047))
    run.do(('RmEltorito',))
    return 'floppy media, load sizes, load segments'


def cases(seed, n):
    """n histories, deterministic from the seed."""
    out = []
    for k in range(n):
        rng = random.Random(seed * 1000003 + k)
        run = Runner()
        sel = k % 10
        if sel == 0:
            label = directed(run, rng, (k // 10) % 8)
        else:
            flavour = [0, 1, 1, 2, 3, 0, 1, 2, 3, 1][sel]
            nops = rng.choice([15, 25, 40, 60])
            random_history(run, rng, nops, flavour)
            label = 'random flavour %d, %d ops' % (flavour, nops)
        out.append(run.case('seed %d #%d: %s' % (seed, k, label)))
    return out


def write_shard(path, cs):
    with open(path, 'w') as f:
        f.write('(* GENERATED by /verif/tools/account_boot_traces.py: what the real pycdlib reported after every\n'
                '   operation of %d El Torito edit histories; Model/AccountBoot.v must reproduce all of it. *)\n' % len(cs))
        f.write('From Coq Require Import ZArith List Bool.\nFrom PV.Model Require Import AccountBoot.\n')
        f.write('Import ListNotations.\nLocal Open Scope Z_scope.\n\n')
        f.write('Definition cases : list bcase :=\n[')
        f.write(';\n'.join('(* %s *)\n %s' % (c['label'], render(c)) for c in cs))
        f.write('].\n\nEval vm_compute in bad_accountboot_cases 0 cases.\n')


def main():
    outdir, seed, n = sys.argv[1], int(sys.argv[2]), int(sys.argv[3])
    shard = int(sys.argv[4]) if len(sys.argv) > 4 else 50
    os.makedirs(outdir, exist_ok=True)
    cs = cases(seed, n)
    nops = sum(len(c['ops']) for c in cs)
    codes = collections.Counter(o[0] for c in cs for o in c['obs'])
    slack = [(c['label'], i) for c in cs for i, o in enumerate(c['obs']) if o[1] and o[1][0] != o[2]]
    for k in range(0, len(cs), shard):
        write_shard(os.path.join(outdir, 'ab_%d_%d.v' % (seed, k // shard)), cs[k:k + shard])
    print('%d histories, %d operations, outcomes %s; wrecked %d; space_size != end of last extent after %d operations'
          % (len(cs), nops, dict(codes), sum(1 for c in cs if c['wrecked']), len(slack)))
    for lab, i in slack[:10]:
        print('   slack:', lab, 'operation', i)
    for c in cs:
        for p in c['problems'][:3]:
            print('   problem:', c['label'], '--', p)


if __name__ == '__main__':
    main()
