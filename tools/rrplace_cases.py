"""Boundary grid for Model/RRPlace.v against RockRidge.new (written by the modelling agent; imported by
harness/props/rrplaceleaf.py: `cases()` and `render(case)`)."""
import sys, os, subprocess, itertools, random
sys.path.insert(0, '/repo')
import pycdlib.rockridge as R

def zl(b): return '[' + '; '.join(str(x) for x in b) + ']'
def bl(x): return 'true' if x else 'false'

def run(case):
    v, first, name, mode, target, (ch, rl, pa), skip, drlen = case
    rr = R.RockRidge()
    vs = {109: '1.09', 110: '1.10', 112: '1.12'}[v]
    try:
        ret = rr.new(first, name, mode, target, vs, ch, rl, pa, skip, drlen, {}, 1000000000.0)
    except Exception as e:
        return -1, b'', b'', [b'\x00'*7]*3
    tf = rr.dr_entries.tf_record or rr.ce_entries.tf_record
    dates = [tf.access_time.record(), tf.modification_time.record(), tf.attribute_change_time.record()]
    try:
        d = rr.record_dr_entries(); c = rr.record_ce_entries()
    except Exception as e:
        return ret, b'', b'', dates
    if rr.dr_entries.ce_record is not None:
        assert rr.dr_entries.ce_record.len_cont_area == len(c), (case, rr.dr_entries.ce_record.len_cont_area, len(c))
        assert len(c) > 0, case
    assert drlen + len(d) <= 254 and ret == drlen + len(d) + (drlen + len(d)) % 2, case
    return ret, d, c, dates

def render(case):
    v, first, name, mode, target, (ch, rl, pa), skip, drlen = case
    ret, d, c, dates = run(case)
    t = '(%d, %s, %s, %d, %s, (%s, %s, %s), %d, %d, [%s])' % (v, bl(first), zl(name), mode, zl(target or b''), bl(ch), bl(rl), bl(pa), skip, drlen, '; '.join(zl(x) for x in dates))
    return '(%s, %s, %s, %s)' % (t, zl(d), zl(c), ('(%d)' % ret))

def drlen(len_fi, xa):
    d = 33 + len_fi + (14 if xa else 0)
    return d + d % 2

def cases():
    cs = []
    F = (False, False, False)
    for v in (109, 110, 112):
        for xa in (False, True):
            skip = 14 if xa else 0
            for lf in (1, 12, 30):
                dl = drlen(lf, xa)
                for n in list(range(1, 261)) if lf == 12 else list(range(120, 215)) + [250, 251, 260, 500, 501]:
                    cs.append((v, False, b'n' * n, 0o100444, None, F, skip, dl))
            dl = drlen(12, xa)
            # symlink targets: single long name, around all boundaries
            for nl in (1, 60, 100, 150, 160, 170):
                for tl in list(range(1, 20)) + list(range(30, 260, 1 if nl in (100, 150) else 7)) + [495, 496, 497, 498, 499, 500, 501, 502, 745, 750, 751]:
                    cs.append((v, False, b'n' * nl, 0o120777, b't' * tl, F, skip, dl))
            # many components
            for nl in (1, 50, 100, 140, 165):
                for k in list(range(1, 70, 1)) + [80, 100, 120]:
                    cs.append((v, False, b'n' * nl, 0o120777, b'/'.join([b'a'] * k), F, skip, dl))
                for k in (1, 2, 3, 10, 20, 30, 40, 50, 60, 90, 130):
                    cs.append((v, False, b'n' * nl, 0o120777, b'/' + b'/'.join([b'ab'] * k), F, skip, dl))
                    cs.append((v, False, b'n' * nl, 0o120777, b'a' + b'/' * k, F, skip, dl))
                    cs.append((v, False, b'n' * nl, 0o120777, b'/'.join([b'..'] * k) + b'/x', F, skip, dl))
                    cs.append((v, False, b'n' * nl, 0o120777, b'/'.join([b'.', b'..', b'.x', b'..y', b''] * k), F, skip, dl))
            # root records
            cs.append((v, True, b'', 0o040555, None, F, skip, dl))
            cs.append((v, True, b'', 0o040555, None, F, skip, 34))
            cs.append((v, True, b'', 0o040555, None, F, skip, 48 if xa else 34))
            for fl in itertools.product((False, True), repeat=3):
                for nl in (0, 1, 100, 170, 180, 190, 200, 210, 230):
                    cs.append((v, False, b'n' * nl, 0o040555, None, fl, skip, dl))
                    cs.append((v, True, b'n' * nl, 0o040555, b'x/y' if nl % 20 else None, fl, skip, dl))
    # API-level corner: any curr_dr_len
    rnd = random.Random(5)
    for v in (109, 110, 112):
        for dl in list(range(0, 262, 1)) + [300]:
            cs.append((v, False, b'n', 0o120777, b'/.b', F, 0, dl))
            cs.append((v, False, b'nn', 0o120777, b'a', F, 0, dl))
            cs.append((v, dl % 2 == 0, b'n' * (dl % 7), 0o120777, b'../' * (dl % 5) + b'.', (dl % 3 == 0, dl % 4 == 0, dl % 5 == 0), 0, dl))
        # every record length with every relocation flag set: each `curr_dr_len + thislen > ALLOWED_DR_SIZE` test of
        # RockRidge.new (NM, PX, SL, TF, CL, RE, PL, ER/SP of the root) is met with equality, one below and one above
        for dl in range(120, 258):
            for fl in itertools.product((False, True), repeat=3):
                cs.append((v, False, b'q', 0o040555, None, fl, 0, dl))
            cs.append((v, False, b'q' * 9, 0o100444, None, F, 0, dl))
            cs.append((v, False, b'q', 0o120777, b'qq', F, 14, dl))
        for _ in range(400):
            dl = rnd.randrange(30, 240)
            nl = rnd.randrange(0, 300)
            comps = [bytes(rnd.choice([b'a', b'.', b'bc']) for _ in range(0)) for _ in range(0)]
            k = rnd.randrange(0, 12)
            parts = []
            for _ in range(k):
                c = rnd.choice([b'', b'.', b'..', b'.h', b'..h', b'a', b'abc' * rnd.randrange(1, 100), b'x' * rnd.randrange(1, 300)])
                parts.append(c)
            t = b'/'.join(parts)
            if rnd.random() < 0.3: t = b'/' + t
            cs.append((v, rnd.random() < 0.1, b'n' * nl, 0o120777, t or None, (rnd.random() < 0.2, rnd.random() < 0.2, rnd.random() < 0.2), rnd.choice([0, 14]), dl))
    # bad inputs
    cs.append((110, False, b'n', 2**32, None, F, 0, 48))
    cs.append((110, True, b'', 0o040555, None, F, 256, 34))
    return cs

if __name__ == '__main__':
    cs = cases()
    print(len(cs), 'cases', file=sys.stderr)
    shard = 250
    os.makedirs('/var/tmp/rrplace-shards', exist_ok=True)
    n = 0
    for i in range(0, len(cs), shard):
        texts = [render(c) for c in cs[i:i + shard]]
        with open('/var/tmp/rrplace-shards/S%d.v' % n, 'w') as f:
            f.write('From Coq Require Import ZArith List Bool.\nImport ListNotations.\nFrom PV.Model Require Import RRPlace.\nLocal Open Scope Z_scope.\n')
            f.write('Definition cases : list (place_tuple * list Z * list Z * Z) := [\n%s].\n' % ';\n'.join(texts))
            f.write('Eval vm_compute in bad_place_cases 0 cases.\n')
        n += 1
    print(n)
