#!/venv/bin/python
"""Differential test of coq/theories/Model/HybridHist.v against the real pycdlib: isohybrid over edit histories.

Histories on `PyCdlib.new(interchange_level=3)`: add_fp (plain files and isolinux-like boot files carrying
fb c0 78 70 at 0x40), add_directory, add_hard_link / rm_hard_link / rm_file (they move the boot files),
add_eltorito (initial entry, EFI sections, further platform-0 sections), rm_eltorito, add_isohybrid with varied
options (part_entry 1-4, mbr_id, offsets, geometries, part types, efi / mac allowed or not), rm_isohybrid and
add_isohybrid again, refused calls, and write_fp in the middle and at the end of every history.  NOTHING but
write_fp runs _reshuffle_extents (account_boot_traces.observe is replaced by a version that does not), so
values that the hybrid object keeps from an earlier reshuffle are exercised.

After every successful write_fp of a hybrid image the bytes are decoded by a small parser of this file (MBR
partition table, boot file rba, mbr id, the EFI / Mac MBR slots, primary GPT header and entries, the Apple
partition map, the backup GPT header found through the primary's backup_lba and its entries) and printed as
the expected HybridHist.hview; HybridHist.bad_hybridhist_cases runs the model on the same history.
Tool-side checks on the library alone go to stdout (header CRCs, array CRCs over the used entries, backup
array inside the padding).

API (deterministic from the seed):  cases(seed, n) -> list of case dicts;  render(case) -> Coq term of type
HybridHist.hcase.   Command line:
    /venv/bin/python /verif/tools/hybrid_hist_cases.py OUTDIR SEED N [SHARD]
writes OUTDIR/hh_<seed>_<k>.v (SHARD <= 40 histories each) ending in
`Eval vm_compute in bad_hybridhist_cases 0 cases.` (must print `= []`).  Library: $VERIF_REPO (default /repo).
"""
import io
import os
import random
import struct
import sys
import zlib

sys.path.insert(0, os.path.dirname(os.path.abspath(__file__)))
sys.path.insert(0, os.environ.get('VERIF_REPO', '/repo'))
import account_boot_traces as abt  # noqa: E402
import pycdlib  # noqa: E402
from pycdlib import pycdlibexception  # noqa: E402

SIG = b'\xfb\xc0\x78\x70'
EFI_HEADER = bytes([0, 254, 255, 255, 239, 254, 255, 255])
MAC_HEADER = bytes([0, 254, 255, 255, 0, 254, 255, 255])


def _observe_no_reshuffle(iso, code, problems):
    return (code, [], -1, -1, [], []), None


abt.observe = _observe_no_reshuffle     # Runner.do must not force _reshuffle_extents


def sig_content(tag, ln):
    b = bytearray(abt.content(tag, ln))
    if ln >= 68:
        b[0x40:0x44] = SIG
    return bytes(b)


# ---- decoding the written bytes ---------------------------------------------------------------------------
def gpt_header(img, off):
    if off < 0 or off + 92 > len(img) or img[off:off + 8] != b'EFI PART':
        return None
    (cur, bak, fu, lu) = struct.unpack_from('<QQQQ', img, off + 24)
    (pel, np_, sz, pcrc) = struct.unpack_from('<QLLL', img, off + 72)
    hcrc = struct.unpack_from('<L', img, off + 16)[0]
    raw = bytearray(img[off:off + 92])
    raw[16:20] = b'\x00' * 4
    return {'f': [cur, bak, fu, lu, pel, np_], 'size': sz, 'pcrc': pcrc, 'crc_ok': zlib.crc32(bytes(raw)) & 0xffffffff == hcrc}


def gpt_parts(img, off, n):
    out, raw = [], b''
    for k in range(n):
        e = img[off + 128 * k:off + 128 * k + 128]
        if len(e) < 128 or e[:2] == b'\x00\x00':
            break
        out += list(struct.unpack_from('<QQ', e, 32))
        raw += e
    return out, raw


def decode(img, problems):
    """-> the list of lists of HybridHist.view_list, or [] when byte 0..31 is no isohybrid header"""
    slots = [img[446 + 16 * i:462 + 16 * i] for i in range(4)]
    active = []
    for i, e in enumerate(slots):
        if e[0] == 0x80:
            (bh, bs, bc, pt, eh, es, ec, start, size) = struct.unpack_from('<BBBBBBBLL', e, 1)
            active = [i + 1, start, size, bh, bs, bc, pt, eh, es, ec]
    rba, _, mbr_id = struct.unpack_from('<LLL', img, 432)
    efi = list(struct.unpack_from('<LL', slots[1], 8)) if slots[1][:8] == EFI_HEADER else []
    mac = list(struct.unpack_from('<LL', slots[2], 8)) if slots[2][:8] == MAC_HEADER else []
    pri = pparts = apm = sec = sparts = []
    sec_at = -1
    if efi:
        ph = gpt_header(img, 512)
        if ph is None:
            problems.append('no primary GPT header at LBA 1')
        else:
            pri = ph['f']
            pparts, praw = gpt_parts(img, pri[4] * 512, pri[5])
            if not ph['crc_ok']:
                problems.append('primary GPT header CRC wrong')
            if zlib.crc32(praw) & 0xffffffff != ph['pcrc']:
                problems.append('primary GPT array CRC (used entries) wrong')
            if mac:
                apm = []
                for k in range(3):
                    a = img[2048 * (k + 1):2048 * (k + 1) + 16]
                    if a[:2] != b'PM':
                        problems.append('APM entry %d has no PM signature' % k)
                    apm += list(struct.unpack_from('>LLL', a, 4))
            sh = gpt_header(img, pri[1] * 512)
            if sh is None:
                problems.append('no backup GPT header at the primary backup_lba %d (image %d bytes)' % (pri[1], len(img)))
                sec, sparts = [-1], []
            else:
                sec = sh['f']
                sec_at = sec[0] * 512 - sec[5] * 128
                sparts, sraw = gpt_parts(img, sec[4] * 512, sec[5])
                if not sh['crc_ok']:
                    problems.append('backup GPT header CRC wrong')
                if zlib.crc32(sraw) & 0xffffffff != sh['pcrc']:
                    problems.append('backup GPT array CRC (used entries) wrong')
                if sec[0] * 512 + 512 != len(img):
                    problems.append('backup GPT header is not the last sector of the image')
    return [[len(img)], active, [rba, mbr_id], efi, mac, pri, pparts, apm, [sec_at], sec, sparts]


class HRunner(abt.Runner):
    """abt.Runner operations plus ('AddSigFile', dir, name, len) | ('AddHybrid', part_entry, mbr_id|None, part_offset,
    gsect, gheads, part_type|None, mac, efi|None) | ('RmHybrid',) | ('Write',)"""

    def __init__(self):
        super().__init__()
        self.steps = []          # (op, code, view or None)
        self.notes = []
        self.tail_overwritten = 0

    def hdo(self, op):
        if self.wrecked is not None:
            return False
        iso = self.iso
        kind = op[0]
        view = None
        if kind == 'AddSigFile':
            _, d, nm, ln = op
            self.nfiles += 1
            data = sig_content('%d' % self.nfiles, ln)
            n = len(iso.inodes)
            try:
                iso.add_fp(io.BytesIO(data), ln, abt.ipath(d + (nm,)))
                code = 1
                if len(iso.inodes) == n + 1:
                    self.data[id(iso.inodes[-1])] = data
                    self.keep.append(iso.inodes[-1])
            except (pycdlibexception.PyCdlibInvalidInput, pycdlibexception.PyCdlibInternalError):
                code = 0
        elif kind == 'AddHybrid':
            _, pe, mid, po, gs, gh, pt, mac, efi = op
            before = iso.isohybrid_mbr
            try:
                iso.add_isohybrid(part_entry=pe, mbr_id=mid, part_offset=po, geometry_sectors=gs, geometry_heads=gh,
                                  part_type=pt, mac=mac, efi=efi)
                code = 1
                if mid is None:
                    op = op[:2] + (iso.isohybrid_mbr.mbr_id,) + op[3:]
            except (pycdlibexception.PyCdlibInvalidInput, pycdlibexception.PyCdlibInternalError):
                code = 0 if iso.isohybrid_mbr is before else 2
                if mid is None:
                    op = op[:2] + (0,) + op[3:]
        elif kind == 'RmHybrid':
            iso.rm_isohybrid()
            code = 1
        elif kind == 'Write':
            try:
                out = io.BytesIO()
                iso.write_fp(out)
                code = 1
                img = out.getvalue()
                view = decode(img, self.problems) if iso.isohybrid_mbr is not None else []
                if view and view[3]:
                    vol = iso.pvd.space_size * 2048
                    if 0 <= view[8][0] < vol:
                        self.tail_overwritten += 1
                        self.notes.append('c12:gpt-backup-overwrites-volume-tail (array at %d, volume %d)' % (view[8][0], vol))
            except Exception as e:   # noqa: BLE001  (InternalError from the reshuffle, ValueError from the seek, struct.error)
                code = 0
                self.notes.append('write_fp raised %s: %s' % (type(e).__name__, e))
        else:
            nbrs = len(iso.brs)
            nops = len(self.ops)
            ok = self.do(op)
            code = self.obs[-1][0] if len(self.ops) > nops else 0
            if not ok and kind == 'AddEltorito' and len(iso.brs) != nbrs:
                self.wrecked = 'refused add_eltorito left a boot record'
                return False
            self.steps.append((op, code, None))
            return ok
        self.steps.append((op, code, view))
        return code == 1

    def hcase(self, label):
        if self.wrecked is None:
            self.hdo(('Write',))
        return {'label': label, 'steps': list(self.steps), 'problems': list(self.problems), 'notes': list(self.notes),
                'wrecked': self.wrecked}


# ---- rendering ------------------------------------------------------------------------------------------------
def coq_hop(op):
    kind = op[0]
    if kind == 'AddSigFile':
        return 'HAddSigFile %s %s (%d)' % (abt.coq_path(op[1]), abt.coq_bytes(op[2]), op[3])
    if kind == 'AddHybrid':
        _, pe, mid, po, gs, gh, pt, mac, efi = op
        return 'HAddHybrid (%d) (%d) (%d) (%d) (%d) %s %s %s hh_noguid' % (
            pe, mid, po, gs, gh, 'None' if pt is None else '(Some (%d))' % pt, abt.coq_bool(mac),
            'None' if efi is None else '(Some %s)' % abt.coq_bool(efi))
    if kind == 'RmHybrid':
        return 'HRmHybrid'
    if kind == 'Write':
        return 'HWrite'
    return 'HBase (%s)' % abt.coq_op(op)


def coq_view(v):
    if not v:
        return '[]'
    return '[' + '; '.join(abt.coq_zs(x) for x in v) + ']'


def render(case):
    return '[%s]' % ';\n   '.join('(%s, %d,\n    %s)' % (coq_hop(o), c, coq_view(v)) for o, c, v in case['steps'])


# ---- generators -----------------------------------------------------------------------------------------------
BOOTNAMES = [b'BOOT.;1', b'ISOLINUX.BIN;1', b'M.;1']
EFINAMES = [b'EFI.IMG;1', b'EFI2.IMG;1', b'AEFI.;1', b'ZEFI.;1']
OTHER = [b'A.;1', b'B.;1', b'C.;1', b'N.;1', b'ZZ.;1', b'AAAAAAAA.;1', b'F.;1', b'Q.;1']
BOOTLENS = [68, 2048, 2048, 1000, 2049, 5000]
LENS = [1, 2047, 2048, 2049, 70000, 100, 5000, 33000, 300000, 1040000]


def random_hybrid(rng, efi_ok=True):
    pe = rng.choice([1, 1, 1, 2, 3, 4, 0, 5])     # 0 / 5, 2 with efi, 3 with mac: refused (d0ed30b)
    mid = rng.choice([None, 0, 0x12345678, 0xffffffff])
    po = rng.choice([0, 0, 0, 1, 63, 64, 2048, 100000])
    gs = rng.choice([32, 32, 32, 63, 1, 17, 0, 64])
    gh = rng.choice([64, 64, 64, 255, 256, 1, 16, 0, 257])
    pt = rng.choice([None, None, None, 0, 0x17, 0x83])
    mac = rng.random() < 0.25 if efi_ok else rng.random() < 0.1
    efi = rng.choice([None, None, True, False]) if efi_ok else rng.choice([None, None, None, False, True])
    return ('AddHybrid', pe, mid, po, gs, gh, pt, mac, efi)


def good_hybrid(rng, nefi):
    mac = nefi >= 2 and rng.random() < 0.85
    efi = True if (nefi >= 1 and (mac or rng.random() < 0.85)) else None
    if efi is None and mac:
        efi = None
    return ('AddHybrid', rng.choice([1, 1, 2, 3, 4]), rng.choice([None, 7, 0xdeadbeef]), rng.choice([0, 0, 1, 64]),
            rng.choice([32, 63, 17]), rng.choice([64, 255, 16]), None if (efi or mac) else rng.choice([None, 0x17, 0x83]),
            mac, efi)


def later_edit(run, rng, bootp, efis):
    """one edit that tends to move the boot files"""
    r = rng.random()
    names = run.names()
    if r < 0.30:
        return ('AddFile', (), rng.choice(OTHER), rng.choice(LENS))
    if r < 0.40 and names:
        d, nm = rng.choice(names)
        return ('RmFile', d, nm)
    if r < 0.52:
        src = rng.choice([bootp] + efis) if efis else bootp
        return ('AddLink', src, (), rng.choice([b'AA.;1', b'ZLINK.;1', b'0.;1', b'K.;1']))
    if r < 0.62 and names:
        d, nm = rng.choice(names)
        return ('RmLink', d, nm)
    if r < 0.70:
        return ('AddDir', (), rng.choice([b'D', b'E']))
    if r < 0.80:
        return ('Write',)
    if r < 0.86:
        return ('RmHybrid',)
    if r < 0.93:
        return random_hybrid(rng, bool(efis))
    if r < 0.96:
        return ('RmEltorito',)
    return ('AddSigFile', (), rng.choice(OTHER), rng.choice(BOOTLENS))


def random_history(run, rng):
    for _ in range(rng.randrange(0, 4)):
        run.hdo(('AddFile', (), rng.choice(OTHER), rng.choice(LENS)))
    indir = rng.random() < 0.3
    d = ()
    if indir:
        run.hdo(('AddDir', (), b'BOOT'))
        d = (b'BOOT',)
    bn = rng.choice(BOOTNAMES)
    bl = rng.choice(BOOTLENS)
    if rng.random() < 0.1:
        run.hdo(('AddFile', d, bn, bl))           # no signature: add_isohybrid refuses
    else:
        run.hdo(('AddSigFile', d, bn, bl))
    bootp = d + (bn,)
    ls = rng.choice([4, 4, 4, None, None, 8])
    if rng.random() < 0.08:
        run.hdo(random_hybrid(rng))               # refused: no catalog yet
    run.hdo(abt.el(bootp, ls=ls, pf=rng.choice([0, 0, 0, 0, 1, 239]), bit=rng.random() < 0.3))
    efis = []
    nefi = rng.choice([0, 0, 0, 1, 1, 1, 1, 2, 2, 2, 3])
    for k in range(nefi):
        nm = EFINAMES[k % len(EFINAMES)] if rng.random() < 0.8 else rng.choice(EFINAMES)
        ln = rng.choice([2048, 4096, 5000, 70000, 100])
        if run.hdo((rng.choice(['AddFile', 'AddSigFile']), (), nm, ln)) or rng.random() < 0.3:
            run.hdo(abt.el((nm,), ls=rng.choice([None, None, 1, 8, 200]), efi=True))
            efis.append((nm,))
    if rng.random() < 0.3:                        # a second platform-0 style section (same platform as the validation entry)
        nm = rng.choice(OTHER)
        run.hdo(('AddSigFile', (), nm, rng.choice(BOOTLENS)))
        run.hdo(abt.el((nm,), ls=4))
    if rng.random() < 0.18:                       # an EFI entry on the boot file itself (shared inode; b44c076)
        if run.hdo(abt.el(bootp, ls=rng.choice([4, None, 8]), efi=True)):
            nefi += 1
    if rng.random() < 0.1 and efis:               # a second name for an EFI image: its enc appears twice
        run.hdo(('AddLink', efis[0], (), rng.choice([b'AA.;1', b'ZLINK.;1'])))
    run.hdo(good_hybrid(rng, nefi) if rng.random() < 0.75 else random_hybrid(rng, nefi > 0))
    for _ in range(rng.randrange(0, 9)):
        run.hdo(later_edit(run, rng, bootp, efis))
    if rng.random() < 0.3:
        run.hdo(('RmHybrid',))
        run.hdo(good_hybrid(rng, nefi))


def directed_histories():
    """Minimised histories of the defects repaired so far (07829f6, 09176f7, b44c076+ed6ec41, d0ed30b, 9b70343) and of the
    seeded changes C12I/J: they run first in every check."""
    boot = (b'BOOT.;1',)
    H = lambda pe=1, po=0, gs=32, gh=64, mac=False, efi=None: ('AddHybrid', pe, 7, po, gs, gh, None, mac, efi)  # noqa: E731
    base = [('AddSigFile', (), b'BOOT.;1', 2048), abt.el(boot, ls=4)]
    efi1 = [('AddFile', (), b'EA.;1', 4096), abt.el((b'EA.;1',), efi=True)]
    mac1 = [('AddFile', (), b'MAC.;1', 6144), abt.el((b'MAC.;1',), efi=True)]
    return [
        ('two-names-mac', base + efi1 + [('AddLink', (b'EA.;1',), (), b'EB.;1')] + mac1 + [H(mac=True, efi=True), ('Write',)]),
        ('three-efi-mac', base + efi1 + mac1 + [('AddFile', (), b'TOOLS.;1', 20000), abt.el((b'TOOLS.;1',), efi=True),
                                                H(mac=True, efi=True), ('Write',)]),
        ('efi-added-after-mac-hybrid', base + efi1 + mac1 + [H(mac=True, efi=True), ('Write',), ('AddFile', (), b'TOOLS.;1', 20000),
                                                             abt.el((b'TOOLS.;1',), efi=True), ('Write',)]),
        ('second-platform-0-section', base + [('AddSigFile', (), b'ZBOOT.;1', 2048), abt.el((b'ZBOOT.;1',), ls=4), H(), ('Write',)]),
        ('efi-entry-on-the-boot-file', base + [abt.el(boot, ls=4, efi=True), H(efi=True), ('Write',)]),
        ('plain-hybrid-with-efi-section', base + efi1 + [H(), ('Write',)]),
        ('efi-only-hybrid-two-efi-sections', base + efi1 + mac1 + [H(efi=True), ('Write',)]),
        ('hybrid-then-rm-eltorito', base + efi1 + [H(efi=True), ('RmEltorito',), ('Write',)]),
        ('part-entry-refusals', base + efi1 + mac1 + [H(pe=2, efi=True), H(pe=3, mac=True, efi=True), H(pe=0), H(pe=5),
                                                      H(pe=4, mac=True, efi=True), ('Write',)]),
        ('grow-between-writes', base + efi1 + [H(efi=True), ('Write',), ('AddFile', (), b'ZZZ.;1', 3000000), ('Write',),
                                               ('AddDir', (), b'D'), ('Write',)]),
        ('offset-geometry', base + [H(po=1), ('Write',), ('RmHybrid',), H(pe=4, po=64, gs=63, gh=255), ('Write',)]),
    ]


def directed_cases():
    out = []
    for label, ops in directed_histories():
        random.seed('hh-lib-directed-' + label)
        run = HRunner()
        for o in ops:
            run.hdo(o)
        out.append(run.hcase('directed:' + label))
    return out


def cases(seed, n):
    out = []
    for k in range(n):
        rng = random.Random('hh-%d-%d' % (seed, k))
        random.seed('hh-lib-%d-%d' % (seed, k))   # IsoHybrid.new: random.getrandbits(32) for mbr_id=None
        run = HRunner()
        random_history(run, rng)
        out.append(run.hcase('hh-%d-%d' % (seed, k)))
    return out


def write_shard(path, cs):
    with open(path, 'w') as f:
        f.write('From Coq Require Import ZArith List.\nFrom PV.Model Require Import AccountBoot Hybrid HybridHist.\n'
                'Import ListNotations.\nLocal Open Scope Z_scope.\n')
        f.write('Definition cases : list hcase := [\n  %s\n].\n' % ';\n  '.join(render(c) for c in cs))
        f.write('Eval vm_compute in bad_hybridhist_cases 0 cases.\n')


def main():
    outdir, seed, n = sys.argv[1], int(sys.argv[2]), int(sys.argv[3])
    shard = min(int(sys.argv[4]) if len(sys.argv) > 4 else 40, 40)
    os.makedirs(outdir, exist_ok=True)
    cs = cases(seed, n)
    stats = {'writes': 0, 'hybrid_writes': 0, 'write_raised': 0, 'efi': 0, 'mac': 0, 'refused_hybrid': 0, 'accepted_hybrid': 0,
             'tail_overwritten': 0, 'wrecked': 0}
    for c in cs:
        stats['wrecked'] += c['wrecked'] is not None
        for o, code, v in c['steps']:
            if o[0] == 'Write':
                stats['writes'] += 1
                stats['write_raised'] += code != 1
                if v:
                    stats['hybrid_writes'] += 1
                    stats['efi'] += bool(v[3])
                    stats['mac'] += bool(v[4])
            if o[0] == 'AddHybrid':
                stats['accepted_hybrid' if code == 1 else 'refused_hybrid'] += 1
        stats['tail_overwritten'] += sum(1 for x in c['notes'] if x.startswith('c12:gpt-backup'))
        for p in c['problems']:
            print('PROBLEM %s: %s' % (c['label'], p))
    for k in range(0, len(cs), shard):
        write_shard(os.path.join(outdir, 'hh_%d_%d.v' % (seed, k // shard)), cs[k:k + shard])
    kinds = {}
    for c in cs:
        for x in c['notes']:
            if x.startswith('write_fp raised'):
                key = x[:90]
                kinds[key] = kinds.get(key, 0) + 1
    print(stats)
    for k, v in sorted(kinds.items()):
        print('  %4d  %s' % (v, k))


if __name__ == '__main__':
    main()
